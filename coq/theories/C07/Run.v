(* C07 — evaluation of generated cases.
   Gate cases: the script the harness executed is replayed on the model: the programs of the two user
   threads are read off the script (thread 0 = the Writes, thread 1 = the Flush/Close calls), every
   transition below is a [Model.step] from [Model.init], so every model state visited is reachable by a
   schedule; "settle" lets the threads that are not held by the script run until all are blocked - which
   is what the harness waits for on the implementation.
   Pipe cases: schedules are not controllable, the verdict is the trace-inclusion checker alone. *)
From Dastard Require Import Common.ZX Common.CaseLib C07.Model C07.Spec.

Inductive case :=
| GateCase (cap bsize : Z) (tickmode : bool) (h : list (act * obs))
| PipeCase (hdr : list seg) (recs : list (list seg * bool)) (strm : list seg) (hung : bool)
| FlushCase (files : list (list Z * list (list Z) * list (Z * list Z)))
| PubCase (hdr : list Z) (recs : list (list Z)) (strm : list Z) (hung : bool).

(* ---------- programs of the two threads ---------- *)
Definition progs_of (acts : list act) : list (list uop) :=
  [ flat_map (fun a => match a with AW c => [Rec [c]] | _ => [] end) acts;
    flat_map (fun a => match a with ACtl true => [Close] | ACtl false => [Flush] | _ => [] end) acts ].

Definition mid_call (s : st) : bool :=
  match nth_error (us s) 1 with
  | Some u => match pc u with USend | UWait _ => true | _ => false end
  | None => false
  end.

Definition parked (s : st) : option (list Z) :=
  match cpc_ s with CGate w _ => Some w | _ => None end.

(* run everything that is not held back by the script until all threads are blocked *)
Fixpoint settle (fuel : nat) (s : st) : st :=
  match fuel with
  | O => s
  | S f =>
      match (if mid_call s then step s (TU 1) else None) with
      | Some s' => settle f s'
      | None =>
          match parked s with
          | Some _ => s
          | None =>
              match step s (TC BData) with
              | Some s' => settle f s'
              | None => match step s (TC BCtl) with
                        | Some s' => settle f s'
                        | None => match step s (TC BTick) with
                                  | Some s' => settle f s'
                                  | None => s
                                  end
                        end
              end
          end
      end
  end.
(* the variant bounds the number of steps any thread other than the ticker can take (Variant.working_decreases) *)
Definition fuel_of (s : st) : nat := V s.
Definition sstep (s : st) (t : tid) : st := match step s t with Some s' => s' | None => s end.
(* in tick mode (real ticker with a short period) the harness additionally waits for the periodic flush *)
Definition settle' (tm : bool) (s : st) : st :=
  let s1 := settle (fuel_of s) s in
  if tm then let s2 := sstep s1 TTick in settle (fuel_of s2) s2 else s1.

(* release parked writes: one, or all until the consumer blocks somewhere else *)
Fixpoint drain (tm : bool) (fuel : nat) (s : st) (done : list (list Z)) : st * list (list Z) :=
  match fuel with
  | O => (s, done)
  | S f => match parked s with
           | Some w => match step s (TC BData) with
                       | Some s' => drain tm f (settle' tm s') (done ++ [w])
                       | None => (s, done)
                       end
           | None => (s, done)
           end
  end.

Definition new_events (s s' : st) : list event := skipn (length (log s)) (log s').
Definition find_write (lg : list event) : ares :=
  fold_left (fun r e => match e with EWrite _ c ok => RW (if ok then zlen c else 0) ok | _ => r end) lg RNone.
Definition find_ret (lg : list event) : option (list Z) :=
  fold_left (fun r e => match e with ERet _ _ f _ _ => Some f | _ => r end) lg None.

Definition apply_act (tickmode : bool) (s : st) (a : act) : st * list (list Z) :=
  match a with
  | AW _ => (settle' tickmode (sstep s (TU 0)), [])
  | ACtl _ => (settle' tickmode (sstep s (TU 1)), [])
  | ARel => drain tickmode 1 s []
  | ADrain => drain tickmode (2 * length (q s) + 8) s []
  | ATick => (settle' tickmode (sstep s TTick), [])
  | AHold => (settle' tickmode s, [])
  end.

Definition model_obs (s s' : st) (a : act) (done : list (list Z)) : obs :=
  let ev := new_events s s' in
  {| o_res := if crashed s' && negb (crashed s) then RPanic
              else match a with AW _ => find_write ev | _ => RNone end;
     o_done := done;
     o_gate := parked s';
     o_ret := find_ret ev;
     o_exit := match cpc_ s' with CExit => true | _ => false end |}.

Fixpoint model_run (tickmode : bool) (s : st) (acts : list act) : list obs :=
  match acts with
  | [] => []
  | a :: r => let '(s', done) := apply_act tickmode s a in
              model_obs s s' a done :: model_run tickmode s' r
  end.

(* ---------- scripts the harness can produce ---------- *)
(* The harness issues one control call at a time (a second one is dropped from the script) and stops at the
   panic of a Flush/Close after Close; [script_ok] says exactly that of a script, replayed on the model. *)
Fixpoint script_ok_from (tickmode : bool) (s : st) (acts : list act) : bool :=
  match acts with
  | [] => true
  | a :: r =>
      (match a with ACtl _ => negb (mid_call s) && negb (closed s) | _ => true end)
      && script_ok_from tickmode (fst (apply_act tickmode s a)) r
  end.
Definition script_ok (tickmode : bool) (cap bsize : Z) (acts : list act) : bool :=
  ctl_ordered (nth 1 (progs_of acts) []) && script_ok_from tickmode (init cap bsize (progs_of acts)) acts.

(* ---------- comparison ---------- *)
Definition oz_eqb (a b : option (list Z)) : bool :=
  match a, b with
  | Some x, Some y => zlist_eqb x y
  | None, None => true
  | _, _ => false
  end.
Definition ares_eqb (a b : ares) : bool :=
  match a, b with
  | RW n x, RW m y => (n =? m) && Bool.eqb x y
  | RNone, RNone | RBlocked, RBlocked | RPanic, RPanic => true
  | _, _ => false
  end.
Definition obs_eqb (a b : obs) : bool :=
  ares_eqb (o_res a) (o_res b) && list_eqb zlist_eqb (o_done a) (o_done b) &&
  oz_eqb (o_gate a) (o_gate b) && oz_eqb (o_ret a) (o_ret b) && Bool.eqb (o_exit a) (o_exit b).

Fixpoint first_diff (i : Z) (a b : list obs) : Z :=
  match a, b with
  | [], [] => -1
  | x :: a', y :: b' => if obs_eqb x y then first_diff (i + 1) a' b' else i
  | _, _ => i
  end.

Definition pipe_expected (hdr : list seg) (recs : list (list seg * bool)) : list seg :=
  hdr ++ flat_map fst (filter snd recs).
Definition pipe_fast (hdr : list seg) (recs : list (list seg * bool)) (strm : list seg) (hung : bool) : bool :=
  let e := pipe_expected hdr recs in
  negb hung && segs_eqb (S (length strm + length e)) strm e.

Definition verdict (c : case) : Z * Z :=
  match c with
  | GateCase cap bsize tm h =>
      let acts := map fst h in
      let impl := map snd h in
      let model := model_run tm (init cap bsize (progs_of acts)) acts in
      let d := first_diff 0 impl model in
      (verdict_code (d =? -1) (C07_check_gate h), d)
  | PipeCase hdr recs strm hung =>
      (* trace inclusion: the observed trace must be one the specification allows.  Streams of many
         megabytes are first compared run by run (sound: Variant.pipe_fast_path_sound); only when that
         does not accept are they expanded and judged by C07_check_pipe itself *)
      let ok := if pipe_fast hdr recs strm hung then true
                else C07_check_pipe (expand hdr) (map (fun rb => (expand (fst rb), snd rb)) recs) (expand strm) hung in
      (verdict_code ok ok, if ok then -1 else 0)
  | FlushCase files =>
      let ok := forallb (fun f => C07_check_flush (fst (fst f)) (snd (fst f)) (snd f)) files in
      (verdict_code ok ok, if ok then -1 else 0)
  | PubCase hdr recs strm hung =>
      let ok := C07_check_pipe_sub hdr recs strm hung in
      (verdict_code ok ok, if ok then -1 else 0)
  end.

(* ---------- compact constructors used by generated files ---------- *)
(* the underlying writes of a run are listed once (table) and referred to by index *)
Record iobs := { i_res : ares; i_d0 : Z; i_d1 : Z; i_gate : Z; i_ret : Z; i_exit : bool }.
Definition resolve (tbl : list (list Z)) (o : iobs) : obs :=
  {| o_res := i_res o;
     o_done := zslice tbl (i_d0 o) (i_d1 o - i_d0 o);                       (* writes d0 .. d1-1 returned *)
     o_gate := if i_gate o <? 0 then None else Some (znth [] tbl (i_gate o));  (* -1: not parked *)
     o_ret := if i_ret o <? 0 then None else Some (concat (zfirstn (i_ret o) tbl)); (* file = first n writes *)
     o_exit := i_exit o |}.
Definition mko (r : ares) (d0 d1 gate ret : Z) (ex : bool) : iobs :=
  {| i_res := r; i_d0 := d0; i_d1 := d1; i_gate := gate; i_ret := ret; i_exit := ex |}.
Definition W (c : list seg) r d0 d1 gate ret ex : act * iobs := (AW (expand c), mko r d0 d1 gate ret ex).
Definition Ct (closing : bool) r d0 d1 gate ret ex : act * iobs := (ACtl closing, mko r d0 d1 gate ret ex).
Definition Rl r d0 d1 gate ret ex : act * iobs := (ARel, mko r d0 d1 gate ret ex).
Definition Dr r d0 d1 gate ret ex : act * iobs := (ADrain, mko r d0 d1 gate ret ex).
Definition Tk r d0 d1 gate ret ex : act * iobs := (ATick, mko r d0 d1 gate ret ex).
Definition mkG (cap bsize : Z) (tm : bool) (writes : list (list seg)) (h : list (act * iobs)) : case :=
  let tbl := map expand writes in
  GateCase cap bsize tm (map (fun ao => (fst ao, resolve tbl (snd ao))) h).
Definition mkP (hdr : list seg) (recs : list (list (list seg * bool))) (strm : list (list seg)) (hung : bool) : case :=
  PipeCase hdr (concat recs) (concat strm) hung.
Definition Hd r d0 d1 gate ret ex : act * iobs := (AHold, mko r d0 d1 gate ret ex).
(* one file of a multi-format case: header, records, (records written, contents) at each flush return *)
Definition mkF (hdr : list seg) (recs : list (list seg)) (snaps : list (Z * list (list seg)))
  : list Z * list (list Z) * list (Z * list Z) :=
  (expand hdr, map expand recs, map (fun ns => (fst ns, expand (concat (snd ns)))) snaps).
Definition mkFC (files : list (list Z * list (list Z) * list (Z * list Z))) : case := FlushCase files.
Definition mkPS (hdr : list seg) (recs : list (list (list seg))) (strm : list (list seg)) (hung : bool) : case :=
  PubCase (expand hdr) (map expand (concat recs)) (expand (concat strm)) hung.
