(* C07 — a variant for the asynchronous writer: every step of the consumer and of the user threads
   strictly decreases it, a tick raises it by at most 4.  Hence along ANY schedule the number of
   non-tick steps is bounded by  V(initial) + 4 * (number of ticks):  no livelock; together with
   writer_no_deadlock (some non-tick thread is enabled while a Flush/Close is outstanding) every
   Flush/Close returns under any schedule that keeps running enabled threads. *)
From Coq Require Import ZifyBool ZifyNat.
From Dastard Require Import Common.ZX C07.Conc C07.Model C07.Spec C07.Proofs.

Definition VI (s : st) : Prop := Inv s /\ 0 <= bsz s.

Lemma step_bsz s t s' : step s t = Some s' -> bsz s' = bsz s.
Proof.
  unfold step. destruct (crashed s); [discriminate|]. destruct t as [b|i|].
  - unfold cons_step. destruct (cpc_ s) as [|k|w c|cl|]; try discriminate.
    + destruct b.
      * destruct (q s); [discriminate|]. destruct (bufio_write _ _ _ _). intros H; inversion H; reflexivity.
      * destruct (closed s); [|discriminate]. intros H; inversion H; reflexivity.
      * destruct (tick s); [|discriminate]. intros H; inversion H; reflexivity.
    + destruct (q s).
      * destruct (zlen (buf s) =? 0); intros H; inversion H; reflexivity.
      * destruct (bufio_write _ _ _ _). intros H; inversion H; reflexivity.
    + destruct c.
      * destruct (bufio_write _ _ _ _). intros H; inversion H; reflexivity.
      * intros H; inversion H; reflexivity.
  - unfold user_step. destruct (nth_error (us s) i) as [u|]; [|discriminate].
    destruct (pc u) as [|all rest| |k].
    + destruct (prog u) as [|[ps| |] r]; [discriminate| | |].
      * destruct ps as [|c ps]; intros H; inversion H; subst; try reflexivity.
        unfold write_step. destruct (zlen (q s) <? qcap s); [destruct ps|]; reflexivity.
      * destruct (closed s); intros H; inversion H; reflexivity.
      * destruct (closed s); intros H; inversion H; reflexivity.
    + destruct rest as [|c rest]; [discriminate|]. intros H; inversion H; subst.
      unfold write_step. destruct (zlen (q s) <? qcap s); [destruct rest|]; reflexivity.
    + destruct (closed s).
      * intros H; inversion H; reflexivity.
      * destruct (cpc_ s); try discriminate. intros H; inversion H; reflexivity.
    + destruct (cpc_ s); try discriminate. intros H; inversion H; reflexivity.
  - destruct (tick s); [discriminate|]. intros H; inversion H; reflexivity.
Qed.

Lemma vi_inductive : Inductive_inv st tid step VI.
Proof.
  intros s t s' [HI Hb] H. split; [eapply step_inv; eauto|]. now rewrite (step_bsz _ _ _ H).
Qed.

(* bufio.Write and the variant *)
Lemma bufio_cwork bsize b p m b' pc' :
  0 <= bsize -> bufio_write bsize b p m = (b', pc') ->
  (cwork bsize pc' <= 2 + mwork m)%nat /\
  (b = [] -> cwork bsize pc' <= (if zlen p >? bsize then 1 else 0) + mwork m)%nat /\
  close_pending pc' = close_pending (mode_done m).
Proof.
  intros Hb H. unfold bufio_write in H.
  destruct (zlen p >? bsize - zlen b) eqn:E1.
  - destruct (zlen b =? 0) eqn:E2; inversion H; subst; clear H.
    + repeat split.
      * simpl. replace (zlen (@nil Z) >? bsize) with false by (unfold zlen; simpl; lia). lia.
      * intros ->. simpl. replace (zlen (@nil Z) >? bsize) with false by (unfold zlen; simpl; lia).
        replace (zlen p >? bsize) with true by (unfold zlen in *; simpl in *; lia). lia.
      * destruct m as [|[| |]]; reflexivity.
    + repeat split.
      * simpl. destruct (_ >? bsize); lia.
      * intros ->. unfold zlen in E2. simpl in E2. lia.
      * destruct m as [|[| |]]; reflexivity.
  - inversion H; subst; clear H. repeat split.
    + destruct m; simpl; lia.
    + intros ->. replace (zlen p >? bsize) with false by (unfold zlen in *; simpl in *; lia).
      destruct m; simpl; lia.
Qed.

Lemma list_sum_upd {A} (f : A -> nat) (l : list A) i u u' :
  nth_error l i = Some u ->
  (list_sum (map f (upd_nth l i u')) + f u = list_sum (map f l) + f u')%nat.
Proof.
  revert i; induction l as [|a l IH]; intros [|i] H; simpl in *; try discriminate.
  - inversion H; subst. lia.
  - specialize (IH _ H). lia.
Qed.

Lemma cons_step_decreases s b s' :
  VI s -> crashed s = false -> cons_step s b = Some s' -> (V s' < V s)%nat.
Proof.
  intros [HI Hb] Hcr H. unfold cons_step in H. unfold V. rewrite Hcr.
  destruct (cpc_ s) as [|k|w ct|cl|] eqn:EC; try discriminate.
  - destruct b.
    + destruct (q s) as [|x q'] eqn:Eq; [discriminate|].
      destruct (bufio_write (bsz s) (buf s) x MLoop) as [b' pc'] eqn:Ew. inversion H; subst; clear H.
      destruct (bufio_cwork _ _ _ _ _ _ Hb Ew) as (H1 & _ & H3). simpl. rewrite Hcr, H3. simpl in *. lia.
    + destruct (closed s) eqn:Ecl; [|discriminate]. inversion H; subst; clear H. simpl. rewrite Hcr, Ecl. simpl. lia.
    + destruct (tick s) eqn:Et; [|discriminate]. inversion H; subst; clear H. simpl. rewrite Hcr. simpl.
      destruct (closed s); simpl; lia.
  - destruct (q s) as [|x q'] eqn:Eq.
    + destruct (zlen (buf s) =? 0); inversion H; subst; clear H; simpl; rewrite Hcr;
        destruct k, (closed s), (tick s); simpl; lia.
    + destruct (bufio_write (bsz s) (buf s) x (MDrain k)) as [b' pc'] eqn:Ew. inversion H; subst; clear H.
      destruct (bufio_cwork _ _ _ _ _ _ Hb Ew) as (H1 & _ & H3). simpl. rewrite Hcr, H3.
      destruct k; simpl in *; lia.
  - pose proof (inv_gate _ HI _ _ EC) as Hbuf. destruct ct as [p m|k].
    + destruct (bufio_write (bsz s) (buf s) p m) as [b' pc'] eqn:Ew. inversion H; subst; clear H.
      destruct (bufio_cwork _ _ _ _ _ _ Hb Ew) as (_ & H2 & H3). specialize (H2 Hbuf).
      simpl. rewrite Hcr, H3.
      assert (close_pending (mode_done m) = close_pending (CGate w (KWrite p m)))
        by (destruct m as [|[| |]]; reflexivity).
      rewrite H. simpl in *. lia.
    + inversion H; subst; clear H. simpl. rewrite Hcr.
      destruct k, (closed s), (tick s); simpl; lia.
Qed.

Lemma write_step_decreases s i u r all x rest :
  crashed s = false -> nth_error (us s) i = Some u ->
  (uwork u >= 4 * (1 + length rest) + list_sum (map opwork r))%nat ->
  (V (write_step s i r all x rest) < V s)%nat.
Proof.
  intros Hcr Hn Hw. unfold write_step, V.
  destruct (zlen (q s) <? qcap s); [destruct rest|]; simpl; rewrite Hcr;
    match goal with |- context [upd_nth (us s) i ?u'] =>
      pose proof (list_sum_upd uwork (us s) i u u' Hn) as HS end;
    unfold uwork in *; simpl in *; rewrite ?app_length; simpl; lia.
Qed.

Lemma user_step_decreases s i s' :
  crashed s = false -> user_step s i = Some s' -> (V s' < V s)%nat.
Proof.
  intros Hcr H. unfold user_step in H.
  destruct (nth_error (us s) i) as [u|] eqn:En; [|discriminate].
  assert (Hcrash : (V (crash s) < V s)%nat) by (unfold V; simpl; rewrite Hcr; lia).
  destruct (pc u) as [|all rest| |k] eqn:Epc.
  - destruct (prog u) as [|[ps| |] r] eqn:Ep; [discriminate| | |].
    + destruct ps as [|x ps]; inversion H; subst; clear H.
      * unfold V. simpl. rewrite Hcr.
        pose proof (list_sum_upd uwork (us s) i u {| prog := r; pc := UIdle |} En) as HS.
        unfold uwork in *. rewrite ?Epc, ?Ep in HS. simpl in HS. lia.
      * eapply write_step_decreases; eauto. unfold uwork. rewrite Epc, Ep. simpl. lia.
    + destruct (closed s) eqn:Ecl; inversion H; subst; clear H; [exact Hcrash|].
      unfold V. simpl. rewrite Hcr.
      pose proof (list_sum_upd uwork (us s) i u {| prog := r; pc := USend |} En) as HS.
      unfold uwork in *. rewrite ?Epc, ?Ep in HS. simpl in HS. rewrite Ecl in *. simpl. lia.
    + destruct (closed s) eqn:Ecl; inversion H; subst; clear H; [exact Hcrash|].
      unfold V. simpl. rewrite Hcr.
      pose proof (list_sum_upd uwork (us s) i u {| prog := r; pc := UWait true |} En) as HS.
      unfold uwork in *. rewrite ?Epc, ?Ep in HS. simpl in HS. rewrite Ecl in *. simpl.
      destruct (close_pending (cpc_ s)); lia.
  - destruct rest as [|x rest]; [discriminate|]. inversion H; subst; clear H.
    eapply write_step_decreases; eauto. unfold uwork. rewrite Epc. simpl. lia.
  - destruct (closed s) eqn:Ecl; [inversion H; subst; exact Hcrash|].
    destruct (cpc_ s) eqn:EC; try discriminate. inversion H; subst; clear H.
    unfold V. simpl. rewrite Hcr, EC.
    pose proof (list_sum_upd uwork (us s) i u {| prog := prog u; pc := UWait false |} En) as HS.
    unfold uwork in *. rewrite ?Epc in HS. simpl in HS. rewrite Ecl in *. simpl. lia.
  - destruct (cpc_ s) as [| | |cl|] eqn:EC; try discriminate. inversion H; subst; clear H.
    unfold V. simpl. rewrite Hcr, EC.
    pose proof (list_sum_upd uwork (us s) i u {| prog := prog u; pc := UIdle |} En) as HS.
    unfold uwork in *. rewrite ?Epc in HS. simpl in HS.
    destruct cl, (closed s); simpl; lia.
Qed.

Lemma working_decreases s t s' : VI s -> step s t = Some s' -> working t = true -> (V s' < V s)%nat.
Proof.
  intros HV H W. unfold step in H. destruct (crashed s) eqn:Hcr; [discriminate|].
  destruct t as [b|i|]; [| |discriminate].
  - eapply cons_step_decreases; eauto.
  - eapply user_step_decreases; eauto.
Qed.

Lemma other_bounded s t s' : VI s -> step s t = Some s' -> working t = false -> (V s' <= V s + 4)%nat.
Proof.
  intros _ H W. destruct t; try discriminate. unfold step in H.
  destruct (crashed s) eqn:Hcr; [discriminate|]. destruct (tick s) eqn:Et; [discriminate|].
  inversion H; subst. unfold V. simpl. rewrite Hcr, Et. lia.
Qed.

(* Along any schedule the number of effective consumer/user steps is bounded by the initial variant
   plus four per tick. *)
Lemma bounded_work_reachable cap bsize progs sched :
  0 <= bsize ->
  (work_steps st tid step working (init cap bsize progs) sched
     <= V (init cap bsize progs) + 4 * other_steps tid working sched)%nat.
Proof.
  intros Hb.
  pose proof (bounded_work st tid step working V 4 VI vi_inductive working_decreases other_bounded sched
                (init cap bsize progs)) as H.
  assert (VI (init cap bsize progs)) by (split; [apply inv_init | exact Hb]).
  specialize (H H0). lia.
Qed.

(* ------------------------------------------------------------------------------------------- *)
(* the premises of the theorems are met by concrete non-trivial inputs                         *)
(* ------------------------------------------------------------------------------------------- *)
Definition ex_progs : list (list uop) :=
  [[Rec [[1;2]]; Rec [[3]]; Flush; Rec [[4;5;6]]; Close]; [Rec [[9]]; Rec [[8;7]]]].
Definition ex_sched : list tid := concat (repeat [TU 0; TU 1; TC BData; TC BCtl] 12).

Example ex_single_write : single_write ex_progs.
Proof.
  intros p o Hp Ho. simpl in Hp. destruct Hp as [<-|[<-|[]]]; simpl in Ho;
    repeat (destruct Ho as [<-|Ho]; [reflexivity|]); destruct Ho.
Qed.

Example ex_ctl_discipline : ctl_discipline ex_progs.
Proof.
  exists 0%nat. intros [|[|i]] p H; simpl in H; try (inversion H; subst; reflexivity).
  destruct i; discriminate.
Qed.

(* two producers, queue depth 2 (one Write is rejected), a Flush and a Close that both return *)
Example ex_trace :
  log (run st tid step (init 2 2 ex_progs) ex_sched) =
    [EWrite 0 [1; 2] true; ERec 0 [[1; 2]] true; EWrite 1 [9] true; ERec 1 [[9]] true; EDeq [1; 2];
     EWrite 0 [3] true; ERec 0 [[3]] true; EWrite 1 [8; 7] false; ERec 1 [[8; 7]] false; EDeq [9];
     ECall 0 false; EDeq [3]; ERet 0 false [1; 2; 9; 3] [] [];
     EWrite 0 [4; 5; 6] true; ERec 0 [[4; 5; 6]] true; EDeq [4; 5; 6];
     ECall 0 true; ERet 0 true [1; 2; 9; 3; 4; 5; 6] [] []].
Proof. vm_compute. reflexivity. Qed.

Example ex_call_return_pair :
  exists l1 l2 l3,
    log (run st tid step (init 2 2 ex_progs) ex_sched)
      = l1 ++ ECall 0 false :: l2 ++ ERet 0 false [1; 2; 9; 3] [] [] :: l3 /\
    no_event_of 0 l2 /\ accepted l1 = [[1; 2]; [9]; [3]].
Proof.
  rewrite ex_trace.
  exists [EWrite 0 [1; 2] true; ERec 0 [[1; 2]] true; EWrite 1 [9] true; ERec 1 [[9]] true; EDeq [1; 2];
          EWrite 0 [3] true; ERec 0 [[3]] true; EWrite 1 [8; 7] false; ERec 1 [[8; 7]] false; EDeq [9]],
         [EDeq [3]],
         [EWrite 0 [4; 5; 6] true; ERec 0 [[4; 5; 6]] true; EDeq [4; 5; 6];
          ECall 0 true; ERet 0 true [1; 2; 9; 3; 4; 5; 6] [] []].
  repeat split. intros e [<-|[]]. exact I.
Qed.

(* what the trace-inclusion checker's "true" means *)
Lemma pipe_checker_means hdr recs strm hung :
  C07_check_pipe hdr recs strm hung = true <->
  hung = false /\ strm = hdr ++ concat (map fst (filter snd recs)).
Proof.
  unfold C07_check_pipe. rewrite andb_true_iff, negb_true_iff, zlist_eqb_eq. tauto.
Qed.

(* what clause 2 of the gate checker demands holds in every reachable state: the bytes the underlying
   writer has accepted, followed by the bytes of the write it is being handed, are a prefix of the
   accepted stream *)
Definition parked_bytes (s : st) : list Z := match cpc_ s with CGate w _ => w | _ => [] end.

Lemma file_prefix_reachable cap bsize progs sched :
  let s := run st tid step (init cap bsize progs) sched in
  is_prefix (file s ++ parked_bytes s) (concat (accepted (log s))).
Proof.
  intros s. destruct (fifo_order_reachable cap bsize progs sched) as [H _]. fold s in H.
  rewrite <- H. unfold stream, pend, parked_bytes.
  destruct (cpc_ s) as [|k|w [p m|k]|cl|].
  - exists (buf s ++ concat (q s)). now rewrite app_nil_r.
  - exists (buf s ++ concat (q s)). now rewrite app_nil_r.
  - exists (p ++ buf s ++ concat (q s)). now rewrite <- !app_assoc.
  - exists (buf s ++ concat (q s)). now rewrite <- !app_assoc.
  - exists (buf s ++ concat (q s)). now rewrite app_nil_r.
  - exists (buf s ++ concat (q s)). now rewrite app_nil_r.
Qed.

(* what the checker of the PublishData driver means: header, then a subsequence of the records, whole *)
Lemma prefix_b_split r : forall s, prefix_b r s = true -> s = r ++ zskipn (zlen r) s.
Proof.
  induction r as [|x r IH]; intros s H; [reflexivity|].
  destruct s as [|y s]; [discriminate|]. simpl in H. apply andb_true_iff in H as [H1 H2].
  apply Z.eqb_eq in H1. subst y. rewrite (IH s H2) at 1.
  unfold zskipn, zlen. simpl length. rewrite !Nat2Z.id. reflexivity.
Qed.

Lemma match_sub_sound recs : forall s, match_sub recs s = true ->
  exists flags, length flags = length recs /\ s = concat (map fst (filter snd (combine recs flags))).
Proof.
  induction recs as [|r recs IH]; intros s H; simpl in H.
  - destruct s; [|discriminate]. exists []. split; reflexivity.
  - destruct (prefix_b r s && negb (zlen r =? 0)) eqn:E.
    + apply andb_true_iff in E as [E1 _]. destruct (IH _ H) as (fl & L & Es).
      exists (true :: fl). split; [simpl; now rewrite L|]. simpl.
      rewrite <- Es. now apply prefix_b_split.
    + destruct (IH _ H) as (fl & L & Es). exists (false :: fl). split; [simpl; now rewrite L|]. exact Es.
Qed.

Lemma strip_prefix_sound h : forall s r, strip_prefix h s = Some r -> s = h ++ r.
Proof.
  induction h as [|x h IH]; intros s r H; simpl in H; [inversion H; reflexivity|].
  destruct s as [|y s]; [discriminate|]. destruct (x =? y) eqn:E; [|discriminate].
  apply Z.eqb_eq in E. subst. simpl. f_equal. now apply IH.
Qed.

Lemma pub_checker_means hdr recs strm hung :
  C07_check_pipe_sub hdr recs strm hung = true ->
  hung = false /\
  exists flags, length flags = length recs /\
                strm = hdr ++ concat (map fst (filter snd (combine recs flags))).
Proof.
  unfold C07_check_pipe_sub. intros H. apply andb_true_iff in H as [H1 H2].
  apply negb_true_iff in H1. split; [exact H1|].
  destruct (strip_prefix hdr strm) as [rest|] eqn:E; [|discriminate].
  destruct (match_sub_sound _ _ H2) as (fl & L & Es). exists fl. split; [exact L|].
  rewrite (strip_prefix_sound _ _ _ E), Es. reflexivity.
Qed.
