(* C07 — the property as checkers over OBSERVABLES only, and the vocabulary of the theorems.
   Nothing in the two checkers mentions the model's step function.

   Reading (DESIGN.md section 7, C07): the statement is about the LOGICAL output stream
      file ++ bytes held by the consumer/bufio ++ bytes queued
   which must at every moment be the concatenation of the accepted writes in acceptance order; a
   write that reports an error contributes nothing; when Flush/Close returns the file holds everything
   accepted before that call began. *)
From Dastard Require Import Common.ZX C07.Model.

(* ================= part 1: vocabulary of the theorems (over the model's history variable) ============ *)

(* chunks accepted by Write calls, in acceptance order *)
Fixpoint accepted (lg : list event) : list chunk :=
  match lg with
  | [] => []
  | EWrite _ c true :: r => c :: accepted r
  | _ :: r => accepted r
  end.
(* chunks the consumer took out of the queue, in order *)
Fixpoint dequeued (lg : list event) : list chunk :=
  match lg with
  | [] => []
  | EDeq c :: r => c :: dequeued r
  | _ :: r => dequeued r
  end.
(* record programs that returned nil, in order of return, each as the list of its parts *)
Fixpoint ok_records (lg : list event) : list (list chunk) :=
  match lg with
  | [] => []
  | ERec _ ps true :: r => ps :: ok_records r
  | _ :: r => ok_records r
  end.
(* bytes of Write calls that were accepted although their record program then returned an error *)
Fixpoint failed_records (lg : list event) : list (list chunk) :=
  match lg with
  | [] => []
  | ERec _ ps false :: r => ps :: failed_records r
  | _ :: r => failed_records r
  end.

(* bytes in the consumer's hands: parked in front of the underlying writer, the rest of the chunk
   being written, and the bufio buffer *)
Definition pend (s : st) : list Z :=
  match cpc_ s with
  | CGate w (KWrite p _) => w ++ p
  | CGate w (KFlushed _) => w
  | _ => []
  end ++ buf s.

(* the logical output stream *)
Definition stream (s : st) : list Z := file s ++ pend s ++ concat (q s).

Definition is_prefix {A} (a b : list A) : Prop := exists rest, b = a ++ rest.

(* every record program issues exactly one Write (the repaired WriteRecord / WriteHeader) *)
Definition single_write_op (o : uop) : bool :=
  match o with Rec [_] => true | Rec _ => false | _ => true end.
Definition single_write (progs : list (list uop)) : Prop :=
  forall p o, In p progs -> In o p -> single_write_op o = true.

(* Flush/Close discipline of the callers: all Flush/Close calls are issued by ONE thread (any thread,
   any number of Flush calls, Write calls anywhere, also concurrent with and after them), and that
   thread calls nothing of the two after its Close.  This is what dastard does (one goroutine per
   writer at a time, ordered by WaitGroup / the core loop), and what asyncbufio's doc comment demands. *)
Definition is_ctl (o : uop) : bool := match o with Rec _ => false | _ => true end.
Fixpoint ctl_ordered (p : list uop) : bool :=
  match p with
  | [] => true
  | Close :: r => forallb (fun o => negb (is_ctl o)) r
  | _ :: r => ctl_ordered r
  end.
Definition ctl_discipline (progs : list (list uop)) : Prop :=
  exists c, forall i p, nth_error progs i = Some p ->
     if Nat.eqb i c then ctl_ordered p = true else forallb (fun o => negb (is_ctl o)) p = true.

Definition no_event_of (i : nat) (lg : list event) : Prop :=
  forall e, In e lg -> match e with ECall j _ | ERet j _ _ _ _ => j <> i | _ => True end.

(* ================= part 2: byte strings of generated cases ============ *)
(* (start, length, step): start, start+step, ... modulo 256.  Lossless and content-agnostic: the harness
   renders ANY byte string as maximal runs with step 0 or 1. *)
Definition seg := (Z * Z * Z)%type.
Definition expand_seg (g : seg) : list Z :=
  let '(a, n, d) := g in map (fun j => (a + d * j) mod 256) (zrange 0 n).
Definition expand (l : list seg) : list Z := flat_map expand_seg l.

Fixpoint prefix_b (a b : list Z) : bool :=
  match a, b with
  | [], _ => true
  | x :: a', y :: b' => (x =? y) && prefix_b a' b'
  | _ :: _, [] => false
  end.

(* ================= part 3: checker of the gate driver ============ *)
(* The harness drives asyncbufio.Writer over a gate writer; after each action it waits until every
   goroutine involved is blocked and then records what it sees. *)
Inductive act :=
| AW (c : chunk)            (* the writer thread calls Write(c) *)
| ACtl (closing : bool)     (* the control thread calls Flush() / Close() *)
| ARel                      (* the parked underlying Write is allowed to return *)
| ADrain                    (* ... and so is every later one, until the consumer parks elsewhere *)
| ATick                     (* wait for the periodic flush *)
| AHold.                    (* let wall-clock time pass (seconds) while nothing is released *)

Inductive ares :=
| RW (n : Z) (ok : bool)    (* Write returned (n, err == nil) *)
| RNone                     (* the action is not a Write (or: a control call, which returns later) *)
| RBlocked                  (* the Write call did not return *)
| RPanic.                   (* the call panicked *)

Record obs := {
  o_res : ares;
  o_done : list (list Z);          (* underlying writes that returned during this action, in order *)
  o_gate : option (list Z);        (* the consumer is parked at the entry of the underlying Write(w) *)
  o_ret : option (list Z);         (* the outstanding Flush/Close returned: contents of the file then *)
  o_exit : bool                    (* the consumer goroutine has returned *)
}.

Record gst := {
  g_acc : list chunk;              (* accepted chunks *)
  g_file : list Z;                 (* bytes the underlying writer has accepted *)
  g_call : option nat;             (* outstanding Flush/Close: number of chunks accepted when it was called *)
  g_closed : bool                  (* Close has been called *)
}.

Definition chunk_boundary_from (n0 : nat) (A : list chunk) (F : list Z) : bool :=
  existsb (fun k => zlist_eqb F (concat (firstn k A))) (seq n0 (S (length A) - n0)).

Definition gate_step (g : gst) (a : act) (o : obs) : option gst :=
  (* 1: the result of the call *)
  let acc' :=
    match a, o_res o with
    | AW c, RW n true => if n =? zlen c then Some (g_acc g ++ [c]) else None
    | AW c, RW n false => if n =? 0 then Some (g_acc g) else None
    | AW _, _ => None                                   (* a Write must return, and not panic *)
    | ACtl _, RNone => Some (g_acc g)
    | ACtl _, RPanic => if g_closed g then Some (g_acc g) else None   (* documented misuse only *)
    | ACtl _, _ => None
    | _, RNone => Some (g_acc g)
    | _, _ => None
    end in
  match acc' with
  | None => None
  | Some A =>
      let F := g_file g ++ concat (o_done o) in
      let P := match o_gate o with Some w => w | None => [] end in
      let call0 := match a with
                   | ACtl _ => match o_res o with RNone => Some (length (g_acc g)) | _ => g_call g end
                   | _ => g_call g end in
      (* 2: order preserved, nothing invented: what reached (or is entering) the file is a prefix of
            the accepted stream *)
      if negb (prefix_b (F ++ P) (concat A)) then None else
      (* 3: at the return of Flush/Close the file holds everything accepted before the call, and ends
            on a chunk boundary *)
      match o_ret o, call0 with
      | Some f, Some n0 =>
          (* f = the file at the moment of the return, which lies within this action *)
          if existsb (fun j => zlist_eqb f (g_file g ++ concat (firstn j (o_done o))))
                     (seq 0 (S (length (o_done o))))
             && chunk_boundary_from n0 A f
          then Some {| g_acc := A; g_file := F; g_call := None;
                       g_closed := g_closed g || match a with ACtl true => true | _ => false end |}
          else None
      | Some _, None => None                              (* a return without a call *)
      | None, Some _ =>
          (* 4: no deadlock: with the consumer not parked in the underlying writer the system is
                quiescent, so an outstanding call would never return *)
          match o_gate o with
          | None => None
          | Some _ => Some {| g_acc := A; g_file := F; g_call := call0;
                              g_closed := g_closed g || match a with ACtl true => true | _ => false end |}
          end
      | None, None => Some {| g_acc := A; g_file := F; g_call := None; g_closed := g_closed g |}
      end
  end.

Fixpoint gate_from (g : gst) (h : list (act * obs)) : bool :=
  match h with
  | [] => true
  | (a, o) :: r => match gate_step g a o with Some g' => gate_from g' r | None => false end
  end.

Definition C07_check_gate (h : list (act * obs)) : bool :=
  gate_from {| g_acc := []; g_file := []; g_call := None; g_closed := false |} h.

(* ================= part 4: checker of the pipe driver (trace inclusion) ============ *)
(* The real LJH 2.2 / LJH 3 / OFF writer wrote to a named pipe whose reader stalled.  Observed: the
   reference header, for every WriteRecord call the bytes a whole record has and whether the call
   returned nil, the byte stream the reader received up to end-of-file, whether anything hung. *)
Definition C07_check_pipe (hdr : list Z) (recs : list (list Z * bool)) (strm : list Z) (hung : bool) : bool :=
  negb hung &&
  zlist_eqb strm (hdr ++ concat (map fst (filter snd recs))).

(* Through DataPublisher.PublishData the result of the LJH WriteRecord calls is not visible (PublishData
   ignores it), so which records were accepted is unknown; the file must still be the header followed by
   whole records only, in the order written: the stream after the header is the concatenation of a
   subsequence of the records.  Greedy matching decides this when no record is a prefix of a later one
   (the harness gives every record a distinct frame counter in its first bytes). *)
Fixpoint match_sub (recs : list (list Z)) (s : list Z) : bool :=
  match recs with
  | [] => match s with [] => true | _ => false end
  | r :: rest =>
      if prefix_b r s && negb (zlen r =? 0) then match_sub rest (zskipn (zlen r) s) else match_sub rest s
  end.
Fixpoint strip_prefix (h s : list Z) : option (list Z) :=
  match h, s with
  | [], _ => Some s
  | x :: h', y :: s' => if x =? y then strip_prefix h' s' else None
  | _ :: _, [] => None
  end.
Definition C07_check_pipe_sub (hdr : list Z) (recs : list (list Z)) (strm : list Z) (hung : bool) : bool :=
  negb hung && match strip_prefix hdr strm with Some rest => match_sub recs rest | None => false end.

(* ================= part 5: comparing long byte strings without expanding them ============ *)
(* Streaming comparison of two run lists; [fuel] >= number of runs of both + 1.  Sound for equality of the
   expansions (Variant.segs_eqb_sound); used as the fast accepting path for multi-megabyte streams. *)
Fixpoint segs_eqb (fuel : nat) (x y : list seg) : bool :=
  match fuel with
  | O => false
  | S f =>
      match x, y with
      | [], [] => true
      | (a, n, d) :: x', _ =>
          if n <=? 0 then segs_eqb f x' y else
          match y with
          | [] => false
          | (b, m, e) :: y' =>
              if m <=? 0 then segs_eqb f x y' else
              let k := Z.min n m in
              if ((a - b) mod 256 =? 0) && ((k =? 1) || ((d - e) mod 256 =? 0))
              then segs_eqb f (if n - k =? 0 then x' else (a + d * k, n - k, d) :: x')
                              (if m - k =? 0 then y' else (b + e * k, m - k, e) :: y')
              else false
          end
      | [], (b, m, e) :: y' => if m <=? 0 then segs_eqb f [] y' else false
      end
  end.

(* ================= part 6: several formats open on one channel, Flush / SetPause between batches ======= *)
(* For one output file: its reference header, the records written (in order), and for every return of
   DataPublisher.Flush / SetPause the number of records written so far with the file's contents then.
   (Plain files, at most a few dozen records between flushes: the queue of 1000 cannot fill, so every
   record is accepted and the file must hold ALL of them when the call returns.) *)
Definition C07_check_flush (hdr : list Z) (recs : list (list Z)) (snaps : list (Z * list Z)) : bool :=
  forallb (fun ns => zlist_eqb (snd ns) (hdr ++ concat (zfirstn (fst ns) recs))) snaps.
