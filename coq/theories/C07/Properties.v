(* C07 — property theorems only: each closed by [exact], each followed by Print Assumptions.
   [run st tid step s0 sched] executes the schedule [sched] (ANY list of thread ids: a thread that is not
   enabled when scheduled does nothing) from s0.  Threads: TC b = consumer goroutine (b = the select case it
   picks), TU i = user thread i, TTick = the ticker.  All statements hold for every queue capacity, every
   bufio size, every family of user programs and every schedule unless a premise says otherwise. *)
From Dastard Require Import Common.ZX C07.Conc C07.Model C07.Spec C07.Proofs.

(* At every moment the logical stream  file ++ (bytes in the consumer's hands: parked write, rest of the
   chunk, bufio buffer) ++ queued chunks  is the concatenation of the accepted Writes in acceptance order;
   chunk-wise, the queue is a FIFO. *)
Theorem fifo_order :
  forall cap bsize progs sched,
    let s := run st tid step (init cap bsize progs) sched in
    stream s = concat (accepted (log s)) /\
    accepted (log s) = dequeued (log s) ++ q s /\
    concat (dequeued (log s)) = file s ++ pend s.
Proof. exact fifo_order_reachable. Qed.
Print Assumptions fifo_order.

(* If every record program issues exactly one Write (the repaired WriteRecord / WriteHeader), the logical
   stream consists of whole records: exactly those whose call returned nil, in the order of return.  A record
   whose Write reported an error is not in [ok_records] and so contributes nothing. *)
Theorem logical_stream_whole_records :
  forall cap bsize progs sched,
    single_write progs ->
    let s := run st tid step (init cap bsize progs) sched in
    stream s = concat (map (@concat Z) (ok_records (log s))).
Proof. exact whole_records_reachable. Qed.
Print Assumptions logical_stream_whole_records.

(* ... and with the header written first (as PublishData does: CreateFile, WriteHeader, then records):
   stream = header ++ whole accepted records. *)
Theorem logical_stream_header_then_whole_records :
  forall cap bsize h p0 others sched,
    1 <= cap -> single_write ((Rec [h] :: p0) :: others) ->
    let s := run st tid step (init cap bsize ((Rec [h] :: p0) :: others)) (TU 0 :: sched) in
    exists recs, ok_records (log s) = [h] :: recs /\ stream s = h ++ concat (map (@concat Z) recs).
Proof. exact header_then_records. Qed.
Print Assumptions logical_stream_header_then_whole_records.

(* Before the repair WriteRecord issued one Write per field: with room for two of the three parts the
   third record is cut (its call returns an error, yet 20 21 are in the stream). *)
Theorem logical_stream_whole_records_refuted_pre_fix :
  ok_records (log old_final) = [[[1]]; [[10]; [11]; [12]]] /\
  failed_records (log old_final) = [[[20]; [21]; [22]]; [[30]; [31]; [32]]] /\
  stream old_final = [1; 10; 11; 12; 20; 21] /\
  stream old_final <> concat (map (@concat Z) (ok_records (log old_final))).
Proof. exact whole_records_refuted_pre_fix_witness. Qed.
Print Assumptions logical_stream_whole_records_refuted_pre_fix.
