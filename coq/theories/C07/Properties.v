(* C07 — property theorems only: each closed by [exact], each followed by Print Assumptions.
   [run st tid step s0 sched] executes the schedule [sched] (ANY list of thread ids: a thread that is not
   enabled when scheduled does nothing) from s0.  Threads: TC b = consumer goroutine (b = the select case it
   picks), TU i = user thread i, TTick = the ticker.  All statements hold for every queue capacity, every
   bufio size, every family of user programs and every schedule unless a premise says otherwise. *)
From Dastard Require Import Common.ZX C07.Conc C07.Model C07.Spec C07.Proofs C07.Variant C07.Run C07.Fast C07.Replay.

(* At every moment the logical stream  file ++ (bytes in the consumer's hands: parked write, rest of the
   chunk, bufio buffer) ++ queued chunks  is the concatenation of the accepted Writes in acceptance order;
   chunk-wise, the queue is a FIFO. *)
Theorem fifo_order :
  forall cap bsize progs sched,
    let s := run st tid step (init cap bsize progs) sched in
    stream s = concat (accepted (log s)) /\
    accepted (log s) = dequeued (log s) ++ q s /\
    concat (dequeued (log s)) = file s ++ pend s.
Proof. exact fifo_order_reachable. Qed.
Print Assumptions fifo_order.

(* If every record program issues exactly one Write (the repaired WriteRecord / WriteHeader), the logical
   stream consists of whole records: exactly those whose call returned nil, in the order of return.  A record
   whose Write reported an error is not in [ok_records] and so contributes nothing. *)
Theorem logical_stream_whole_records :
  forall cap bsize progs sched,
    single_write progs ->
    let s := run st tid step (init cap bsize progs) sched in
    stream s = concat (map (@concat Z) (ok_records (log s))).
Proof. exact whole_records_reachable. Qed.
Print Assumptions logical_stream_whole_records.

(* ... and with the header written first (as PublishData does: CreateFile, WriteHeader, then records):
   stream = header ++ whole accepted records. *)
Theorem logical_stream_header_then_whole_records :
  forall cap bsize h p0 others sched,
    1 <= cap -> single_write ((Rec [h] :: p0) :: others) ->
    let s := run st tid step (init cap bsize ((Rec [h] :: p0) :: others)) (TU 0 :: sched) in
    exists recs, ok_records (log s) = [h] :: recs /\ stream s = h ++ concat (map (@concat Z) recs).
Proof. exact header_then_records. Qed.
Print Assumptions logical_stream_header_then_whole_records.

(* Before the repair WriteRecord issued one Write per field: with room for two of the three parts the
   third record is cut (its call returns an error, yet 20 21 are in the stream). *)
Theorem logical_stream_whole_records_refuted_pre_fix :
  ok_records (log old_final) = [[[1]]; [[10]; [11]; [12]]] /\
  failed_records (log old_final) = [[[20]; [21]; [22]]; [[30]; [31]; [32]]] /\
  stream old_final = [1; 10; 11; 12; 20; 21] /\
  stream old_final <> concat (map (@concat Z) (ok_records (log old_final))).
Proof. exact whole_records_refuted_pre_fix_witness. Qed.
Print Assumptions logical_stream_whole_records_refuted_pre_fix.

(* Flush / Close.  Premise [ctl_discipline]: all Flush/Close calls come from one thread (any number of
   Flush calls; Write calls from any thread, also while a Flush/Close is in progress and after Close) and
   that thread calls neither after its Close - what dastard does and what asyncbufio's comment demands.
   Then the program never panics, and for EVERY call/return pair in the history
       log = l1 ++ ECall i k :: l2 ++ ERet i k' f qs b :: l3      (l2 has no call/return of thread i)
   where f, qs, b are the file, the queue and the bufio buffer at the moment of the return:
   the file is exactly the concatenation of the first |d| accepted chunks, d contains every chunk accepted
   before the call began (order preserved), the rest of what was accepted meanwhile is still queued in order,
   and the buffer is empty. *)
Theorem flush_completes :
  forall cap bsize progs sched,
    ctl_discipline progs ->
    let s := run st tid step (init cap bsize progs) sched in
    crashed s = false /\
    forall l1 i k l2 k' f qs b l3,
      log s = l1 ++ ECall i k :: l2 ++ ERet i k' f qs b :: l3 -> no_event_of i l2 ->
      exists d, accepted (l1 ++ l2) = d ++ qs /\ f = concat d /\ is_prefix (accepted l1) d /\ b = [].
Proof. exact flush_completes_reachable. Qed.
Print Assumptions flush_completes.

(* ... in particular, when no Write was accepted between call and return (one goroutine uses the writer,
   as in dastard), Flush/Close leave queue and buffer empty and the file holds everything accepted. *)
Theorem close_leaves_queue_and_buffer_empty :
  forall cap bsize progs sched,
    ctl_discipline progs ->
    let s := run st tid step (init cap bsize progs) sched in
    forall l1 i k l2 k' f qs b l3,
      log s = l1 ++ ECall i k :: l2 ++ ERet i k' f qs b :: l3 -> no_event_of i l2 ->
      accepted l2 = [] ->
      qs = [] /\ b = [] /\ f = concat (accepted l1).
Proof. exact close_leaves_nothing_reachable. Qed.
Print Assumptions close_leaves_queue_and_buffer_empty.

(* No deadlock: whenever a thread is inside Flush/Close (blocked sending flushNow or receiving
   flushComplete), the consumer or that thread itself can take a step - i.e. the call can only be held up
   by the underlying writer not returning (the schedule not running the consumer at its gate). *)
Theorem writer_no_deadlock :
  forall cap bsize progs sched,
    ctl_discipline progs ->
    let s := run st tid step (init cap bsize progs) sched in
    forall i u, nth_error (us s) i = Some u -> is_call_pc (pc u) = true ->
      (exists b, step s (TC b) <> None) \/ step s (TU i) <> None.
Proof. exact writer_no_deadlock_reachable. Qed.
Print Assumptions writer_no_deadlock.

(* No livelock: along ANY schedule the number of effective consumer and user steps is bounded by the
   initial variant plus four per tick of the ticker; so a schedule that keeps running enabled threads
   brings every Flush/Close to its return (with writer_no_deadlock). *)
Theorem writer_bounded_work :
  forall cap bsize progs sched,
    0 <= bsize ->
    (work_steps st tid step working (init cap bsize progs) sched
       <= V (init cap bsize progs) + 4 * other_steps tid working sched)%nat.
Proof. exact bounded_work_reachable. Qed.
Print Assumptions writer_bounded_work.

(* The trace-inclusion checker used on the real LJH/OFF writers accepts exactly: nothing hung, and the byte
   stream is the header followed by the records whose WriteRecord call returned nil, in call order. *)
Theorem pipe_checker_sound :
  forall hdr recs strm hung,
    C07_check_pipe hdr recs strm hung = true <->
    hung = false /\ strm = hdr ++ concat (map fst (filter snd recs)).
Proof. exact pipe_checker_means. Qed.
Print Assumptions pipe_checker_sound.

(* Order preserved, nothing invented, at every moment: what the underlying writer has accepted, followed by
   the bytes of the write it is being handed right now, is a prefix of the accepted stream (clause 2 of the
   gate checker; clause 3 is flush_completes, clause 4 writer_no_deadlock). *)
Theorem file_is_prefix_of_accepted_stream :
  forall cap bsize progs sched,
    let s := run st tid step (init cap bsize progs) sched in
    is_prefix (file s ++ parked_bytes s) (concat (accepted (log s))).
Proof. exact file_prefix_reachable. Qed.
Print Assumptions file_is_prefix_of_accepted_stream.

(* The checker used when records go through DataPublisher.PublishData (which hides the result of the LJH
   WriteRecord calls) accepts only: nothing hung, and the stream is the header followed by whole records -
   some selection [flags] of the records written, each complete, in the order written. *)
Theorem publish_checker_sound :
  forall hdr recs strm hung,
    C07_check_pipe_sub hdr recs strm hung = true ->
    hung = false /\
    exists flags, length flags = length recs /\
                  strm = hdr ++ concat (map fst (filter snd (combine recs flags))).
Proof. exact pub_checker_means. Qed.
Print Assumptions publish_checker_sound.

(* Long streams (records of thousands of samples, a thousand of them queued) are compared run by run
   without being expanded; when that fast path accepts, the checker proper accepts. *)
Theorem pipe_fast_path_sound :
  forall hdr recs strm hung,
    pipe_fast hdr recs strm hung = true ->
    C07_check_pipe (expand hdr) (map (fun rb => (expand (fst rb), snd rb)) recs) (expand strm) hung = true.
Proof. exact pipe_fast_path_sound_lemma. Qed.
Print Assumptions pipe_fast_path_sound.

(* Several formats open on one channel: what the per-file checker accepts - at every return of
   DataPublisher.Flush / SetPause the file is the header followed by ALL records written so far. *)
Theorem flush_checker_sound :
  forall hdr recs snaps,
    C07_check_flush hdr recs snaps = true ->
    forall n s, In (n, s) snaps -> s = hdr ++ concat (zfirstn n recs).
Proof. exact flush_checker_means. Qed.
Print Assumptions flush_checker_sound.

(* The model's observations under Run.v's replay pass the gate checker: for every tick mode, queue capacity,
   bufio size >= 0 and every script the harness can produce ([script_ok]: a Flush/Close is issued only when
   no control call is outstanding and Close has not been called - the harness drops a second control call and
   stops at the documented panic).  [model_run] replays the script on [init] by Model.step only: the
   action's own step, then "settle" (control thread and consumer run until every thread is blocked, fuel =
   the variant V), releases of the gate as scripted. *)
Theorem model_passes_gate_checker :
  forall tm cap bsize acts,
    0 <= bsize -> script_ok tm cap bsize acts = true ->
    C07_check_gate (combine acts (model_run tm (init cap bsize (progs_of acts)) acts)) = true.
Proof. exact model_passes_gate_checker_lemma. Qed.
Print Assumptions model_passes_gate_checker.

(* Once everything accepted has reached the file (queue and the consumer's hands empty, e.g. after Close),
   the model's file passes the pipe checker with the record results of its own history. *)
Theorem model_passes_pipe_checker :
  forall cap bsize progs sched,
    single_write progs ->
    let s := run st tid step (init cap bsize progs) sched in
    q s = [] -> pend s = [] ->
    C07_check_pipe [] (records_of (log s)) (file s) false = true.
Proof. exact model_passes_pipe_checker_lemma. Qed.
Print Assumptions model_passes_pipe_checker.

(* At every Flush/Close return of the model with nothing accepted between call and return, the snapshot
   (number of chunks accepted so far, file contents) passes the flush checker. *)
Theorem model_passes_flush_checker :
  forall cap bsize progs sched,
    ctl_discipline progs ->
    let s := run st tid step (init cap bsize progs) sched in
    forall l1 i k l2 k' f qs b l3,
      log s = l1 ++ ECall i k :: l2 ++ ERet i k' f qs b :: l3 -> no_event_of i l2 -> accepted l2 = [] ->
      C07_check_flush [] (accepted (log s)) [(Z.of_nat (length (accepted l1)), f)] = true.
Proof. exact model_passes_flush_checker_lemma. Qed.
Print Assumptions model_passes_flush_checker.
