(* C07 — property theorems only. *)
From Dastard Require Import Common.ZX C07.Conc C07.Model C07.Spec C07.Proofs.
