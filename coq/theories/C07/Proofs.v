(* C07 — invariants and proofs. *)
From Dastard Require Import Common.ZX C07.Conc C07.Model C07.Spec.
