(* C07 — invariants and proofs. *)
From Coq Require Import ZifyBool ZifyNat.
From Dastard Require Import Common.ZX C07.Conc C07.Model C07.Spec.

Local Notation Reach := (Reachable st tid step).
Local Notation runs := (run st tid step).

(* ------------------------------------------------------------------------------------------- *)
(* history functions and append                                                                *)
(* ------------------------------------------------------------------------------------------- *)
Lemma accepted_app a b : accepted (a ++ b) = accepted a ++ accepted b.
Proof.
  induction a as [|e a IH]; simpl; [reflexivity|].
  destruct e as [i c [|]| | | |]; simpl; rewrite ?IH; reflexivity.
Qed.
Lemma dequeued_app a b : dequeued (a ++ b) = dequeued a ++ dequeued b.
Proof.
  induction a as [|e a IH]; simpl; [reflexivity|].
  destruct e; simpl; rewrite ?IH; reflexivity.
Qed.
Lemma ok_records_app a b : ok_records (a ++ b) = ok_records a ++ ok_records b.
Proof.
  induction a as [|e a IH]; simpl; [reflexivity|].
  destruct e as [| i ps [|] | | |]; simpl; rewrite ?IH; reflexivity.
Qed.

(* ------------------------------------------------------------------------------------------- *)
(* bufio.Write                                                                                 *)
(* ------------------------------------------------------------------------------------------- *)
Definition pend_of (c : cpc) (b : list Z) : list Z :=
  match c with
  | CGate w (KWrite p _) => w ++ p
  | CGate w (KFlushed _) => w
  | _ => []
  end ++ b.

Lemma pend_unfold s : pend s = pend_of (cpc_ s) (buf s).
Proof. reflexivity. Qed.

Lemma bufio_write_spec bsize b p m b' c' :
  bufio_write bsize b p m = (b', c') ->
  pend_of c' b' = b ++ p /\
  ((c' = mode_done m) \/ (exists w p', c' = CGate w (KWrite p' m) /\ b' = [])).
Proof.
  unfold bufio_write. intros H.
  destruct (zlen p >? bsize - zlen b) eqn:E1.
  - destruct (zlen b =? 0) eqn:E2.
    + inversion H; subst; clear H. split.
      * assert (b = []) by (destruct b; [reflexivity | unfold zlen in E2; simpl in E2; lia]).
        subst. unfold pend_of. now rewrite !app_nil_r.
      * right. eauto.
    + inversion H; subst; clear H. split.
      * unfold pend_of. rewrite app_nil_r, <- app_assoc. f_equal. unfold zfirstn, zskipn. apply firstn_skipn.
      * right. eauto.
  - inversion H; subst; clear H. split.
    + destruct m as [|k]; reflexivity.
    + now left.
Qed.

Lemma pend_of_mode_done m b : pend_of (mode_done m) b = b.
Proof. destruct m; reflexivity. Qed.
Lemma pend_of_finish k b : pend_of (finish k) b = b.
Proof. destruct k; reflexivity. Qed.

(* ------------------------------------------------------------------------------------------- *)
(* the FIFO invariant                                                                          *)
(* ------------------------------------------------------------------------------------------- *)
Record Inv (s : st) : Prop := {
  inv_chunks : accepted (log s) = dequeued (log s) ++ q s;          (* the queue is a FIFO of chunks *)
  inv_bytes : concat (dequeued (log s)) = file s ++ pend_of (cpc_ s) (buf s);  (* what left the queue, in order *)
  inv_gate : forall w c, cpc_ s = CGate w c -> buf s = []
}.

Lemma inv_init cap bsize progs : Inv (init cap bsize progs).
Proof. split; simpl; try reflexivity; intros; discriminate. Qed.

Ltac logs := simpl; rewrite ?accepted_app, ?dequeued_app; simpl; rewrite ?app_nil_r.

Lemma write_step_inv s i r all c rest : Inv s -> Inv (write_step s i r all c rest).
Proof.
  intros [I1 I2 I3]. unfold write_step.
  destruct (zlen (q s) <? qcap s); [destruct rest|]; split; logs;
    try (rewrite I1, app_assoc; reflexivity); try exact I1; try exact I2; try exact I3.
Qed.

Lemma user_step_inv s i s' : Inv s -> user_step s i = Some s' -> Inv s'.
Proof.
  intros HI H. unfold user_step in H.
  destruct (nth_error (us s) i) as [u|]; [|discriminate].
  destruct (pc u) as [|all rest| |k].
  - destruct (prog u) as [|[ps| |] r]; [discriminate| | |].
    + destruct ps as [|c ps]; inversion H; subst; clear H.
      * destruct HI as [I1 I2 I3]. split; logs; assumption.
      * now apply write_step_inv.
    + destruct (closed s); inversion H; subst; clear H; destruct HI as [I1 I2 I3]; split; logs; assumption.
    + destruct (closed s); inversion H; subst; clear H; destruct HI as [I1 I2 I3]; split; logs; assumption.
  - destruct rest as [|c rest]; [discriminate|]. inversion H; subst. now apply write_step_inv.
  - destruct (closed s).
    + inversion H; subst; clear H. destruct HI as [I1 I2 I3]; split; logs; assumption.
    + destruct (cpc_ s) eqn:EC; try discriminate. inversion H; subst; clear H.
      destruct HI as [I1 I2 I3]; split; logs; try assumption.
      * rewrite I2, EC. reflexivity.
      * intros; discriminate.
  - destruct (cpc_ s) eqn:EC; try discriminate. inversion H; subst; clear H.
    destruct HI as [I1 I2 I3]; split; logs; try assumption.
    + rewrite I2, EC. destruct closing; reflexivity.
    + intros w c. destruct closing; discriminate.
Qed.

Lemma dequeue_inv s c q' m b' pc' :
  Inv s -> q s = c :: q' -> pend_of (cpc_ s) (buf s) = buf s ->
  bufio_write (bsz s) (buf s) c m = (b', pc') ->
  Inv (set_cons s q' b' (file s) pc' [EDeq c]).
Proof.
  intros [I1 I2 I3] Hq Hp Hw.
  destruct (bufio_write_spec _ _ _ _ _ _ Hw) as [Hpend Hshape].
  split; logs.
  - rewrite I1, Hq, <- app_assoc. reflexivity.
  - rewrite concat_app. simpl. rewrite app_nil_r, I2, Hp, Hpend. now rewrite app_assoc.
  - intros w k E. destruct Hshape as [E'|(w' & p' & E' & Eb)]; [|exact Eb].
    subst pc'. destruct m; discriminate.
Qed.

Lemma cons_step_inv s b s' : Inv s -> cons_step s b = Some s' -> Inv s'.
Proof.
  intros HI H. unfold cons_step in H.
  destruct (cpc_ s) as [|k|w c|cl|] eqn:EC; try discriminate.
  - destruct b.
    + destruct (q s) as [|c q'] eqn:Eq; [discriminate|].
      destruct (bufio_write (bsz s) (buf s) c MLoop) as [b' pc'] eqn:Ew. inversion H; subst; clear H.
      eapply dequeue_inv; eauto. rewrite EC. reflexivity.
    + destruct (closed s); [|discriminate]. inversion H; subst; clear H.
      destruct HI as [I1 I2 I3]. split; logs; try assumption.
      * rewrite I2, EC. reflexivity.
      * intros; discriminate.
    + destruct (tick s); [|discriminate]. inversion H; subst; clear H.
      destruct HI as [I1 I2 I3]. split; logs; try assumption.
      * rewrite I2, EC. reflexivity.
      * intros; discriminate.
  - destruct (q s) as [|c q'] eqn:Eq.
    + destruct (zlen (buf s) =? 0) eqn:Eb; inversion H; subst; clear H; destruct HI as [I1 I2 I3].
      * split; logs.
        -- rewrite I1, Eq, app_nil_r. reflexivity.
        -- rewrite I2, EC. rewrite pend_of_finish. reflexivity.
        -- intros w c E. destruct (buf s); [reflexivity | unfold zlen in Eb; simpl in Eb; lia].
      * split; logs.
        -- rewrite I1, Eq, app_nil_r. reflexivity.
        -- rewrite I2, EC. unfold pend_of. now rewrite app_nil_r.
        -- reflexivity.
    + destruct (bufio_write (bsz s) (buf s) c (MDrain k)) as [b' pc'] eqn:Ew. inversion H; subst; clear H.
      eapply dequeue_inv; eauto. rewrite EC. reflexivity.
  - pose proof (inv_gate _ HI _ _ EC) as Hb.
    destruct c as [p m|k].
    + destruct (bufio_write (bsz s) (buf s) p m) as [b' pc'] eqn:Ew. inversion H; subst; clear H.
      rewrite Hb in Ew. destruct (bufio_write_spec _ _ _ _ _ _ Ew) as [Hpend Hshape].
      destruct HI as [I1 I2 I3]. split; logs; try assumption.
      * rewrite I2, EC, Hb, Hpend. unfold pend_of. rewrite app_nil_r. simpl. now rewrite <- app_assoc.
      * intros w' k E. destruct Hshape as [E'|(w'' & p' & E' & Eb)]; [|exact Eb].
        subst pc'. destruct m; discriminate.
    + inversion H; subst; clear H. destruct HI as [I1 I2 I3]. split; logs; try assumption.
      * rewrite I2, EC, Hb, pend_of_finish. unfold pend_of. now rewrite !app_nil_r.
      * intros; assumption.
Qed.

Lemma step_inv : Inductive_inv st tid step Inv.
Proof.
  intros s t s' HI H. unfold step in H. destruct (crashed s); [discriminate|].
  destruct t as [b|i|].
  - eapply cons_step_inv; eauto.
  - eapply user_step_inv; eauto.
  - destruct (tick s); [discriminate|]. inversion H; subst. destruct HI as [I1 I2 I3].
    split; simpl; assumption.
Qed.

Lemma reach_inv cap bsize progs sched : Inv (runs (init cap bsize progs) sched).
Proof. apply run_inv; [exact step_inv | apply inv_init]. Qed.

Lemma fifo_order_reachable cap bsize progs sched :
  let s := runs (init cap bsize progs) sched in
  stream s = concat (accepted (log s)) /\
  accepted (log s) = dequeued (log s) ++ q s /\
  concat (dequeued (log s)) = file s ++ pend s.
Proof.
  intros s. pose proof (reach_inv cap bsize progs sched) as HI. fold s in HI.
  destruct HI as [I1 I2 I3]. repeat split; try assumption.
  unfold stream. rewrite I1, concat_app, I2. rewrite <- app_assoc. reflexivity.
Qed.

(* ------------------------------------------------------------------------------------------- *)
(* single-Write record programs: the stream consists of whole accepted records                 *)
(* ------------------------------------------------------------------------------------------- *)
Definition sw_user (u : uthread) : Prop :=
  (forall o, In o (prog u) -> single_write_op o = true) /\
  match pc u with UInRec _ _ => False | _ => True end.

Record SW (s : st) : Prop := {
  sw_users : forall u, In u (us s) -> sw_user u;
  sw_log : accepted (log s) = concat (ok_records (log s))
}.

Lemma in_upd_nth {A} (l : list A) i x y : In y (upd_nth l i x) -> y = x \/ In y l.
Proof.
  revert i; induction l as [|a l IH]; intros [|i]; simpl; try tauto.
  - intros [H|H]; auto.
  - intros [H|H]; auto. destruct (IH _ H); auto.
Qed.

Lemma sw_init cap bsize progs : single_write progs -> SW (init cap bsize progs).
Proof.
  intros H. split; simpl; [|reflexivity].
  intros u Hu. apply in_map_iff in Hu as (p & <- & Hp). split; simpl; [|exact I].
  intros o Ho. eapply H; eauto.
Qed.

Lemma sw_keep s s' :
  SW s -> us s' = us s -> accepted (log s') = accepted (log s) -> ok_records (log s') = ok_records (log s) -> SW s'.
Proof. intros [H1 H2] E1 E2 E3. split; [rewrite E1; exact H1 | rewrite E2, E3; exact H2]. Qed.

Lemma sw_set_user s i u u' q' c cl lg :
  SW s -> nth_error (us s) i = Some u -> sw_user u' ->
  accepted lg = concat (ok_records lg) ->
  SW (set_user s i u' q' c cl lg).
Proof.
  intros [H1 H2] Hn Hu' Hlg. split; simpl.
  - intros y Hy. destruct (in_upd_nth _ _ _ _ Hy) as [->|Hy']; auto.
  - rewrite accepted_app, ok_records_app, concat_app, H2, Hlg. reflexivity.
Qed.

Lemma user_step_sw s i s' : SW s -> user_step s i = Some s' -> SW s'.
Proof.
  intros HS H. unfold user_step in H.
  destruct (nth_error (us s) i) as [u|] eqn:En; [|discriminate].
  assert (Hu : sw_user u) by (apply (sw_users _ HS); eapply nth_error_In; eauto).
  destruct Hu as [Hops Hpc].
  destruct (pc u) as [|all rest| |k] eqn:Epc; [| contradiction | |].
  - destruct (prog u) as [|[ps| |] r] eqn:Ep; [discriminate| | |].
    + assert (Hr : forall o, In o r -> single_write_op o = true) by (intros; apply Hops; now right).
      destruct ps as [|c ps]; inversion H; subst; clear H.
      * eapply sw_set_user; eauto. split; simpl; auto.
      * assert (ps = []) as -> by (specialize (Hops _ (or_introl eq_refl)); simpl in Hops; destruct ps; [reflexivity|discriminate]).
        unfold write_step. destruct (zlen (q s) <? qcap s); eapply sw_set_user; eauto; try (split; simpl; auto).
    + assert (Hr : forall o, In o r -> single_write_op o = true) by (intros; apply Hops; now right).
      destruct (closed s); inversion H; subst; clear H.
      * eapply sw_keep; eauto.
      * eapply sw_set_user; eauto. split; simpl; auto.
    + assert (Hr : forall o, In o r -> single_write_op o = true) by (intros; apply Hops; now right).
      destruct (closed s); inversion H; subst; clear H.
      * eapply sw_keep; eauto.
      * eapply sw_set_user; eauto. split; simpl; auto.
  - destruct (closed s).
    + inversion H; subst. eapply sw_keep; eauto.
    + destruct (cpc_ s); try discriminate. inversion H; subst; clear H.
      eapply sw_set_user; eauto. split; simpl; auto.
  - destruct (cpc_ s); try discriminate. inversion H; subst; clear H.
    eapply sw_set_user; eauto. split; simpl; auto.
Qed.

Lemma cons_step_sw s b s' : SW s -> cons_step s b = Some s' -> SW s'.
Proof.
  intros HS H. unfold cons_step in H.
  destruct (cpc_ s) as [|k|w c|cl|]; try discriminate.
  - destruct b.
    + destruct (q s); [discriminate|]. destruct (bufio_write _ _ _ _). inversion H; subst.
      eapply sw_keep; eauto; simpl; rewrite ?accepted_app, ?ok_records_app; simpl; now rewrite app_nil_r.
    + destruct (closed s); [|discriminate]. inversion H; subst. eapply sw_keep; eauto; simpl; now rewrite app_nil_r.
    + destruct (tick s); [|discriminate]. inversion H; subst. eapply sw_keep; eauto; simpl; now rewrite app_nil_r.
  - destruct (q s).
    + destruct (zlen (buf s) =? 0); inversion H; subst; eapply sw_keep; eauto; simpl; now rewrite app_nil_r.
    + destruct (bufio_write _ _ _ _). inversion H; subst.
      eapply sw_keep; eauto; simpl; rewrite ?accepted_app, ?ok_records_app; simpl; now rewrite app_nil_r.
  - destruct c.
    + destruct (bufio_write _ _ _ _). inversion H; subst. eapply sw_keep; eauto; simpl; now rewrite app_nil_r.
    + inversion H; subst. eapply sw_keep; eauto; simpl; now rewrite app_nil_r.
Qed.

Lemma step_sw : Inductive_inv st tid step SW.
Proof.
  intros s t s' HS H. unfold step in H. destruct (crashed s); [discriminate|].
  destruct t as [b|i|].
  - eapply cons_step_sw; eauto.
  - eapply user_step_sw; eauto.
  - destruct (tick s); [discriminate|]. inversion H; subst. eapply sw_keep; eauto.
Qed.

Lemma concat_concat' {A} (l : list (list (list A))) : concat (concat l) = concat (map (@concat A) l).
Proof. induction l as [|x l IH]; simpl; [reflexivity|]. now rewrite concat_app, IH. Qed.

Lemma whole_records_reachable cap bsize progs sched :
  single_write progs ->
  let s := runs (init cap bsize progs) sched in
  stream s = concat (map (@concat Z) (ok_records (log s))).
Proof.
  intros Hsw s.
  assert (HS : SW s) by (apply run_inv; [exact step_sw | now apply sw_init]).
  destruct (fifo_order_reachable cap bsize progs sched) as [H _]. fold s in H.
  rewrite H, (sw_log _ HS). apply concat_concat'.
Qed.

(* ------------------------------------------------------------------------------------------- *)
(* the log only grows; the header                                                              *)
(* ------------------------------------------------------------------------------------------- *)
Lemma step_log_grows s t s' : step s t = Some s' -> exists lg, log s' = log s ++ lg.
Proof.
  unfold step. destruct (crashed s); [discriminate|]. destruct t as [b|i|].
  - unfold cons_step. destruct (cpc_ s) as [|k|w c|cl|]; try discriminate.
    + destruct b.
      * destruct (q s); [discriminate|]. destruct (bufio_write _ _ _ _). intros H; inversion H; subst. simpl. eauto.
      * destruct (closed s); [|discriminate]. intros H; inversion H; subst. simpl. eauto.
      * destruct (tick s); [|discriminate]. intros H; inversion H; subst. simpl. eauto.
    + destruct (q s).
      * destruct (zlen (buf s) =? 0); intros H; inversion H; subst; simpl; eauto.
      * destruct (bufio_write _ _ _ _). intros H; inversion H; subst. simpl. eauto.
    + destruct c.
      * destruct (bufio_write _ _ _ _). intros H; inversion H; subst. simpl. eauto.
      * intros H; inversion H; subst. simpl. eauto.
  - unfold user_step. destruct (nth_error (us s) i) as [u|]; [|discriminate].
    destruct (pc u) as [|all rest| |k].
    + destruct (prog u) as [|[ps| |] r]; [discriminate| | |].
      * destruct ps as [|c ps]; intros H; inversion H; subst; simpl; eauto.
        unfold write_step. destruct (zlen (q s) <? qcap s); [destruct ps|]; simpl; eauto.
      * destruct (closed s); intros H; inversion H; subst; simpl; eauto. exists []. now rewrite app_nil_r.
      * destruct (closed s); intros H; inversion H; subst; simpl; eauto. exists []. now rewrite app_nil_r.
    + destruct rest as [|c rest]; [discriminate|]. intros H; inversion H; subst.
      unfold write_step. destruct (zlen (q s) <? qcap s); [destruct rest|]; simpl; eauto.
    + destruct (closed s).
      * intros H; inversion H; subst; simpl. exists []. now rewrite app_nil_r.
      * destruct (cpc_ s); try discriminate. intros H; inversion H; subst; simpl; eauto.
    + destruct (cpc_ s); try discriminate. intros H; inversion H; subst; simpl; eauto.
  - destruct (tick s); [discriminate|]. intros H; inversion H; subst; simpl. exists []. now rewrite app_nil_r.
Qed.

Lemma run_log_grows sched : forall s, exists lg, log (runs s sched) = log s ++ lg.
Proof.
  induction sched as [|t r IH]; intros s; simpl.
  - exists []. now rewrite app_nil_r.
  - unfold step1. destruct (step s t) as [s'|] eqn:E; [|apply IH].
    destruct (step_log_grows _ _ _ E) as [l1 E1]. destruct (IH s') as [l2 E2].
    exists (l1 ++ l2). now rewrite E2, E1, app_assoc.
Qed.

Lemma header_first_step cap bsize h p0 others :
  1 <= cap ->
  exists s1, step (init cap bsize ((Rec [h] :: p0) :: others)) (TU 0) = Some s1 /\
             log s1 = [EWrite 0 h true; ERec 0 [h] true].
Proof.
  intros Hcap. unfold step, user_step. simpl. unfold write_step. simpl.
  replace (zlen (@nil chunk) <? cap) with true by (unfold zlen; simpl; lia).
  eexists; split; reflexivity.
Qed.

Lemma header_then_records cap bsize h p0 others sched :
  1 <= cap -> single_write ((Rec [h] :: p0) :: others) ->
  let s := runs (init cap bsize ((Rec [h] :: p0) :: others)) (TU 0 :: sched) in
  exists recs, ok_records (log s) = [h] :: recs /\ stream s = h ++ concat (map (@concat Z) recs).
Proof.
  intros Hcap Hsw s.
  pose proof (whole_records_reachable cap bsize _ (TU 0 :: sched) Hsw) as Hs. fold s in Hs.
  destruct (header_first_step cap bsize h p0 others Hcap) as (s1 & E1 & L1).
  assert (Es : s = runs s1 sched) by (unfold s; simpl; unfold step1; now rewrite E1).
  destruct (run_log_grows sched s1) as [lg E]. rewrite <- Es, L1 in E.
  exists (ok_records lg). split.
  - rewrite E. reflexivity.
  - rewrite Hs, E. simpl. now rewrite app_nil_r.
Qed.

(* ------------------------------------------------------------------------------------------- *)
(* before the repair: three Writes per record (LJH 2.2), queue one short of full               *)
(* ------------------------------------------------------------------------------------------- *)
Definition old_progs : list (list uop) :=
  [[rec_parts_old [[1]]; rec_parts_old [[10]; [11]; [12]]; rec_parts_old [[20]; [21]; [22]];
    rec_parts_old [[30]; [31]; [32]]]].
(* the producer runs alone (the consumer is stalled); queue depth 6 *)
Definition old_sched : list tid := repeat (TU 0) 9.
Definition old_final : st := runs (init 6 8 old_progs) old_sched.

Lemma whole_records_refuted_pre_fix_witness :
  ok_records (log old_final) = [[[1]]; [[10]; [11]; [12]]] /\
  failed_records (log old_final) = [[[20]; [21]; [22]]; [[30]; [31]; [32]]] /\
  stream old_final = [1; 10; 11; 12; 20; 21] /\
  stream old_final <> concat (map (@concat Z) (ok_records (log old_final))).
Proof. vm_compute. repeat split. discriminate. Qed.

(* ------------------------------------------------------------------------------------------- *)
(* Flush / Close                                                                               *)
(* ------------------------------------------------------------------------------------------- *)
(* chunks accepted before the latest call of Flush/Close by thread i *)
Fixpoint cm (i : nat) (lg : list event) (acc m : list chunk) : list chunk :=
  match lg with
  | [] => m
  | EWrite _ c true :: r => cm i r (acc ++ [c]) m
  | ECall j _ :: r => if Nat.eqb j i then cm i r acc acc else cm i r acc m
  | _ :: r => cm i r acc m
  end.
Definition call_mark (i : nat) (lg : list event) : list chunk := cm i lg [] [].

Lemma cm_app i a : forall b acc m, cm i (a ++ b) acc m = cm i b (acc ++ accepted a) (cm i a acc m).
Proof.
  induction a as [|e a IH]; intros b acc m; simpl; [now rewrite app_nil_r|].
  destruct e as [j c [|]| | |j k|]; simpl; rewrite ?IH; try reflexivity.
  - now rewrite <- app_assoc.
  - destruct (Nat.eqb j i); reflexivity.
Qed.

Definition not_call_of (i : nat) (e : event) : Prop :=
  match e with ECall j _ => j <> i | _ => True end.
Definition not_ret (e : event) : Prop :=
  match e with ERet _ _ _ _ _ => False | _ => True end.

Lemma cm_no_call i l : (forall e, In e l -> not_call_of i e) -> forall acc m, cm i l acc m = m.
Proof.
  induction l as [|e l IH]; intros H acc m; simpl; [reflexivity|].
  assert (He := H e (or_introl eq_refl)). assert (Hl : forall e', In e' l -> not_call_of i e') by (intros; apply H; now right).
  destruct e as [j c [|]| | |j k|]; simpl; rewrite ?IH; auto.
  simpl in He. destruct (Nat.eqb_spec j i); [contradiction|reflexivity].
Qed.

Lemma call_mark_decomp i l1 k l2 :
  no_event_of i l2 -> call_mark i (l1 ++ ECall i k :: l2) = accepted l1.
Proof.
  intros H. unfold call_mark. rewrite cm_app. simpl. rewrite Nat.eqb_refl.
  apply cm_no_call. intros e He. specialize (H e He). destruct e; simpl; auto.
Qed.

Lemma call_mark_app_nocall i lg l :
  (forall e, In e l -> not_call_of i e) -> call_mark i (lg ++ l) = call_mark i lg.
Proof. intros H. unfold call_mark. rewrite cm_app. now apply cm_no_call. Qed.

Lemma call_mark_snoc_call i lg k : call_mark i (lg ++ [ECall i k]) = accepted lg.
Proof. unfold call_mark. rewrite cm_app. simpl. now rewrite Nat.eqb_refl. Qed.

Lemma is_prefix_refl {A} (l : list A) : is_prefix l l.
Proof. exists []. now rewrite app_nil_r. Qed.
Lemma is_prefix_app {A} (a b c : list A) : is_prefix a b -> is_prefix a (b ++ c).
Proof. intros [r ->]. exists (r ++ c). now rewrite app_assoc. Qed.
Lemma is_prefix_concat {A} (a b : list (list A)) : is_prefix a b -> is_prefix (concat a) (concat b).
Proof. intros [r ->]. exists (concat r). now rewrite concat_app. Qed.

Lemma cm_prefix i lg : forall acc m, is_prefix m acc -> is_prefix (cm i lg acc m) (acc ++ accepted lg).
Proof.
  induction lg as [|e lg IH]; intros acc m H; simpl; [now rewrite app_nil_r|].
  destruct e as [j c [|]| | |j k|]; simpl; try (apply IH; assumption).
  - replace (acc ++ c :: accepted lg) with ((acc ++ [c]) ++ accepted lg) by now rewrite <- app_assoc.
    apply IH. now apply is_prefix_app.
  - destruct (Nat.eqb j i); apply IH; [apply is_prefix_refl | assumption].
Qed.
Lemma call_mark_prefix i lg : is_prefix (call_mark i lg) (accepted lg).
Proof. apply (cm_prefix i lg [] []). apply is_prefix_refl. Qed.

(* --- list surgery --- *)
Lemma exists_last_or_nil {A} (l : list A) : l = [] \/ exists l' x, l = l' ++ [x].
Proof.
  destruct l as [|a l]; [now left|]. right.
  destruct (@exists_last _ (a :: l)) as (l' & x & E); [discriminate|]. eauto.
Qed.
Lemma snoc_decomp {A} (lg : list A) e l1 a l2 r l3 :
  lg ++ [e] = l1 ++ a :: l2 ++ r :: l3 ->
  (l3 = [] /\ r = e /\ lg = l1 ++ a :: l2) \/
  (exists l3', l3 = l3' ++ [e] /\ lg = l1 ++ a :: l2 ++ r :: l3').
Proof.
  intros H. destruct (@exists_last_or_nil _ l3) as [->|(l3' & x & ->)].
  - left. replace (l1 ++ a :: l2 ++ [r]) with ((l1 ++ a :: l2) ++ [r]) in H
      by (rewrite <- app_assoc; reflexivity).
    apply app_inj_tail in H as [H1 H2]. auto.
  - right. replace (l1 ++ a :: l2 ++ r :: l3' ++ [x]) with ((l1 ++ a :: l2 ++ r :: l3') ++ [x]) in H
      by (rewrite <- !app_assoc; simpl; rewrite <- app_assoc; reflexivity).
    apply app_inj_tail in H as [H1 H2]. subst. eauto.
Qed.

(* --- what must hold of every (call, return) pair of the log --- *)
Definition good_ret (l1 l2 : list event) (f : list Z) (qs : list chunk) (b : list Z) : Prop :=
  exists d, accepted (l1 ++ l2) = d ++ qs /\ f = concat d /\ is_prefix (accepted l1) d /\ b = [].

Definition RetOK (lg : list event) : Prop :=
  forall l1 i k l2 k' f qs b l3,
    lg = l1 ++ ECall i k :: l2 ++ ERet i k' f qs b :: l3 -> no_event_of i l2 -> good_ret l1 l2 f qs b.

Lemma retok_snoc_other lg e : RetOK lg -> not_ret e -> RetOK (lg ++ [e]).
Proof.
  intros H Hne l1 i k l2 k' f qs b l3 E Hno.
  apply snoc_decomp in E as [(-> & Er & El)|(l3' & -> & El)].
  - subst e; simpl in Hne; contradiction.
  - eapply H; eauto.
Qed.

Lemma retok_app_noret l : forall lg, RetOK lg -> (forall e, In e l -> not_ret e) -> RetOK (lg ++ l).
Proof.
  induction l as [|e l IH]; intros lg H Hl; [now rewrite app_nil_r|].
  replace (lg ++ e :: l) with ((lg ++ [e]) ++ l) by (rewrite <- app_assoc; reflexivity).
  apply IH; [apply retok_snoc_other; auto; apply Hl; now left | intros; apply Hl; now right].
Qed.

Lemma retok_snoc_ret lg i k f qs b :
  RetOK lg ->
  (forall l1 k0 l2, lg = l1 ++ ECall i k0 :: l2 -> no_event_of i l2 -> good_ret l1 l2 f qs b) ->
  RetOK (lg ++ [ERet i k f qs b]).
Proof.
  intros H Hn l1 j k1 l2 k' f' qs' b' l3 E Hno.
  apply snoc_decomp in E as [(-> & Er & El)|(l3' & -> & El)].
  - inversion Er; subst. eapply Hn; eauto.
  - eapply H; eauto.
Qed.

(* --- where the consumer is, seen from a Flush/Close caller --- *)
Definition no_ctl (p : list uop) : Prop := forallb (fun o => negb (is_ctl o)) p = true.
Definition is_call_pc (p : upc) : bool := match p with USend | UWait _ => true | _ => false end.

Definition progress (c : nat) (s : st) : Prop :=
  match phase_of (cpc_ s) with
  | PPost _ | PDone _ => is_prefix (call_mark c (log s)) (dequeued (log s))
  | _ => True
  end.

Definition ctl_state (c : nat) (s : st) : Prop :=
  match nth_error (us s) c with
  | None => closed s = false /\ phase_of (cpc_ s) = PLoop
  | Some u =>
      ctl_ordered (prog u) = true /\
      match pc u with
      | UIdle | UInRec _ _ =>
          if closed s then phase_of (cpc_ s) = PExit /\ no_ctl (prog u) else phase_of (cpc_ s) = PLoop
      | USend => closed s = false /\ phase_of (cpc_ s) = PLoop
      | UWait false => closed s = false /\ progress c s /\
          (phase_of (cpc_ s) = PPre FNow \/ phase_of (cpc_ s) = PPost FNow \/ phase_of (cpc_ s) = PDone false)
      | UWait true => closed s = true /\ no_ctl (prog u) /\ progress c s /\
          (phase_of (cpc_ s) = PLoop \/ phase_of (cpc_ s) = PPre FClose \/
           phase_of (cpc_ s) = PPost FClose \/ phase_of (cpc_ s) = PDone true)
      end
  end.

Record CtlInv (c : nat) (s : st) : Prop := {
  ci_alive : crashed s = false;
  ci_others : forall i u, nth_error (us s) i = Some u -> i <> c -> no_ctl (prog u) /\ is_call_pc (pc u) = false;
  ci_ctl : ctl_state c s;
  ci_complete : forall cl, cpc_ s = CComplete cl -> buf s = [];
  ci_rets : RetOK (log s)
}.

(* consumer-side transitions of ctl_state *)
Lemma cs_same c s s' :
  ctl_state c s -> nth_error (us s') c = nth_error (us s) c -> closed s' = closed s ->
  phase_of (cpc_ s') = phase_of (cpc_ s) ->
  call_mark c (log s') = call_mark c (log s) ->
  (exists dl, dequeued (log s') = dequeued (log s) ++ dl) ->
  ctl_state c s'.
Proof.
  unfold ctl_state, progress. intros H E1 E2 E3 E4 [dl E5]. rewrite E1, E2, E3, E4, E5.
  destruct (nth_error (us s) c) as [u|]; [|exact H].
  destruct H as [H0 H]. split; [exact H0|].
  destruct (pc u) as [| | |[|]]; try exact H.
  - destruct H as (A & B & C & D). repeat split; auto.
    destruct (phase_of (cpc_ s)); auto; now apply is_prefix_app.
  - destruct H as (A & C & D). repeat split; auto.
    destruct (phase_of (cpc_ s)); auto; now apply is_prefix_app.
Qed.

Lemma cs_take_close c s s' :
  ctl_state c s -> us s' = us s -> closed s' = closed s -> closed s = true ->
  phase_of (cpc_ s) = PLoop -> phase_of (cpc_ s') = PPre FClose -> ctl_state c s'.
Proof.
  unfold ctl_state, progress. intros H E1 E2 Ecl P P'. rewrite E1, E2, P', Ecl. rewrite P, Ecl in H.
  destruct (nth_error (us s) c) as [u|]; [|destruct H; discriminate].
  destruct H as [H0 H]. split; [exact H0|].
  destruct (pc u) as [| | |[|]].
  - destruct H; discriminate.
  - destruct H; discriminate.
  - destruct H; discriminate.
  - destruct H as (A & B & C & D). repeat split; auto.
  - destruct H; discriminate.
Qed.

Definition closing_of (k : fkind) : bool := match k with FClose => true | _ => false end.

(* the drain loop found the queue empty (default branch), or the final Flush returned *)
Lemma cs_advance c s s' k :
  ctl_state c s -> us s' = us s -> closed s' = closed s -> k <> FTick ->
  (phase_of (cpc_ s) = PPre k \/ phase_of (cpc_ s) = PPost k) ->
  (phase_of (cpc_ s') = PPost k \/ phase_of (cpc_ s') = PDone (closing_of k)) ->
  is_prefix (call_mark c (log s')) (dequeued (log s')) ->
  ctl_state c s'.
Proof.
  unfold ctl_state, progress. intros H E1 E2 Hk P P' Hp. rewrite E1, E2.
  destruct (nth_error (us s) c) as [u|].
  - destruct H as [H0 H]. split; [exact H0|].
    destruct (pc u) as [| | |[|]].
    + destruct (closed s); destruct P as [P|P]; rewrite P in H; first [discriminate | destruct H; discriminate].
    + destruct (closed s); destruct P as [P|P]; rewrite P in H; first [discriminate | destruct H; discriminate].
    + destruct P as [P|P]; rewrite P in H; destruct H; discriminate.
    + destruct H as (A & B & C & D). repeat split; auto.
      * destruct P' as [P'|P']; rewrite P'; exact Hp.
      * assert (k = FClose) as -> by (destruct P as [P|P]; rewrite P in D;
          destruct D as [D|[D|[D|D]]]; try discriminate; inversion D; reflexivity).
        destruct P' as [P'|P']; rewrite P'; simpl; auto.
    + destruct H as (A & C & D). repeat split; auto.
      * destruct P' as [P'|P']; rewrite P'; exact Hp.
      * assert (k = FNow) as -> by (destruct P as [P|P]; rewrite P in D;
          destruct D as [D|[D|D]]; try discriminate; inversion D; reflexivity).
        destruct P' as [P'|P']; rewrite P'; simpl; auto.
  - destruct H as [_ H]. destruct P as [P|P]; rewrite P in H; discriminate.
Qed.

Definition phase_m (m : cmode) : phase :=
  match m with MLoop => PLoop | MDrain FTick => PLoop | MDrain k => PPre k end.

Lemma phase_bufio bsize b p m b' pc' :
  bufio_write bsize b p m = (b', pc') -> phase_of pc' = phase_m m /\ (forall cl, pc' <> CComplete cl).
Proof.
  intros H. destruct (bufio_write_spec _ _ _ _ _ _ H) as [_ [->|(w & p' & -> & _)]].
  - split; [destruct m as [|[| |]]; reflexivity | destruct m; discriminate].
  - split; [destruct m as [|[| |]]; reflexivity | discriminate].
Qed.

Lemma ctl_set_tick c s b : CtlInv c s -> CtlInv c (set_tick s b).
Proof. intros [A B C D E]. split; simpl; auto. Qed.

Lemma ctl_set_cons c s q' b' f' pc' lg :
  CtlInv c s -> (forall e, In e lg -> not_ret e) ->
  ctl_state c (set_cons s q' b' f' pc' lg) ->
  (forall cl, pc' = CComplete cl -> b' = []) ->
  CtlInv c (set_cons s q' b' f' pc' lg).
Proof.
  intros [A B C D E] Hlg Hc Hb. split; simpl; auto. now apply retok_app_noret.
Qed.

Lemma finish_phase k : k <> FTick -> phase_of (finish k) = PDone (closing_of k).
Proof. destruct k; simpl; congruence. Qed.

Lemma cons_step_ctl c s b s' : Inv s -> CtlInv c s -> cons_step s b = Some s' -> CtlInv c s'.
Proof.
  intros HI HC H. pose proof (ci_ctl _ _ HC) as Hcs. unfold cons_step in H.
  assert (Hdeq : forall x, forall e, In e [EDeq x] -> not_ret e) by (intros x e [<-|[]]; exact I).
  assert (Hnil : forall e, In e (@nil event) -> not_ret e) by (intros e []).
  assert (Hpost : forall k, k <> FTick -> phase_of (cpc_ s) = PPost k ->
                  is_prefix (call_mark c (log s)) (dequeued (log s))).
  { intros k Hk P. unfold ctl_state, progress in Hcs. rewrite P in Hcs.
    destruct (nth_error (us s) c) as [u|]; [|destruct Hcs; discriminate].
    destruct Hcs as [_ Hcs]. destruct (pc u) as [| | |[|]]; try (destruct (closed s)); intuition discriminate. }
  destruct (cpc_ s) as [|k|w ct|cl|] eqn:EC; try discriminate.
  - (* at the main select *)
    destruct b.
    + destruct (q s) as [|x q'] eqn:Eq; [discriminate|].
      destruct (bufio_write (bsz s) (buf s) x MLoop) as [b' pc'] eqn:Ew. inversion H; subst; clear H.
      destruct (phase_bufio _ _ _ _ _ _ Ew) as [Hph Hnc].
      apply ctl_set_cons; [exact HC | apply Hdeq | | ].
      * apply (cs_same c s); [exact Hcs | reflexivity | reflexivity | | | ]; simpl.
        -- now rewrite Hph, EC.
        -- apply call_mark_app_nocall. intros e [<-|[]]. exact I.
        -- rewrite dequeued_app. eauto.
      * intros cl E. exfalso. eapply Hnc; eauto.
    + destruct (closed s) eqn:Ecl; [|discriminate]. inversion H; subst; clear H.
      apply ctl_set_cons; [exact HC | exact Hnil | | intros; discriminate].
      apply (cs_take_close c s); [exact Hcs | reflexivity | reflexivity | exact Ecl | | ]; simpl; [now rewrite EC | reflexivity].
    + destruct (tick s); [|discriminate]. inversion H; subst; clear H.
      apply ctl_set_tick. apply ctl_set_cons; [exact HC | exact Hnil | | intros; discriminate].
      apply (cs_same c s); [exact Hcs | reflexivity | reflexivity | | | ]; simpl.
      * now rewrite EC.
      * now rewrite app_nil_r.
      * exists []. now rewrite !app_nil_r.
  - (* in flush(): the inner select *)
    destruct (q s) as [|x q'] eqn:Eq.
    + (* default: aw.writer.Flush() *)
      assert (Hpre : accepted (log s) = dequeued (log s)) by (rewrite (inv_chunks _ HI), Eq; now rewrite app_nil_r).
      assert (Hpref : is_prefix (call_mark c (log s)) (dequeued (log s))) by (rewrite <- Hpre; apply call_mark_prefix).
      destruct (zlen (buf s) =? 0) eqn:Eb; inversion H; subst; clear H.
      * assert (Hbn : buf s = []) by (destruct (buf s); [reflexivity | unfold zlen in Eb; simpl in Eb; lia]).
        apply ctl_set_cons; [exact HC | exact Hnil | | intros; exact Hbn].
        destruct k.
        -- apply (cs_advance c s _ FNow); [exact Hcs | reflexivity | reflexivity | | | | ]; simpl; rewrite ?EC, ?app_nil_r; auto; discriminate.
        -- apply (cs_advance c s _ FClose); [exact Hcs | reflexivity | reflexivity | | | | ]; simpl; rewrite ?EC, ?app_nil_r; auto; discriminate.
        -- apply (cs_same c s); [exact Hcs | reflexivity | reflexivity | | | ]; simpl; rewrite ?EC, ?app_nil_r; auto. exists []. now rewrite app_nil_r.
      * apply ctl_set_cons; [exact HC | exact Hnil | | intros; discriminate].
        destruct k.
        -- apply (cs_advance c s _ FNow); [exact Hcs | reflexivity | reflexivity | | | | ]; simpl; rewrite ?EC, ?app_nil_r; auto; discriminate.
        -- apply (cs_advance c s _ FClose); [exact Hcs | reflexivity | reflexivity | | | | ]; simpl; rewrite ?EC, ?app_nil_r; auto; discriminate.
        -- apply (cs_same c s); [exact Hcs | reflexivity | reflexivity | | | ]; simpl; rewrite ?EC, ?app_nil_r; auto. exists []. now rewrite app_nil_r.
    + destruct (bufio_write (bsz s) (buf s) x (MDrain k)) as [b' pc'] eqn:Ew. inversion H; subst; clear H.
      destruct (phase_bufio _ _ _ _ _ _ Ew) as [Hph Hnc].
      apply ctl_set_cons; [exact HC | apply Hdeq | | ].
      * apply (cs_same c s); [exact Hcs | reflexivity | reflexivity | | | ]; simpl.
        -- rewrite Hph, EC. destruct k; reflexivity.
        -- apply call_mark_app_nocall. intros e [<-|[]]. exact I.
        -- rewrite dequeued_app. eauto.
      * intros cl E. exfalso. eapply Hnc; eauto.
  - (* the underlying write returns *)
    pose proof (inv_gate _ HI _ _ EC) as Hb.
    destruct ct as [p m|k].
    + destruct (bufio_write (bsz s) (buf s) p m) as [b' pc'] eqn:Ew. inversion H; subst; clear H.
      destruct (phase_bufio _ _ _ _ _ _ Ew) as [Hph Hnc].
      apply ctl_set_cons; [exact HC | exact Hnil | | ].
      * apply (cs_same c s); [exact Hcs | reflexivity | reflexivity | | | ]; simpl.
        -- rewrite Hph, EC. destruct m as [|[| |]]; reflexivity.
        -- now rewrite app_nil_r.
        -- exists []. now rewrite !app_nil_r.
      * intros cl E. exfalso. eapply Hnc; eauto.
    + inversion H; subst; clear H.
      apply ctl_set_cons; [exact HC | exact Hnil | | intros; exact Hb].
      destruct k.
      * apply (cs_advance c s _ FNow); [exact Hcs | reflexivity | reflexivity | | | | ]; simpl; rewrite ?EC, ?app_nil_r; auto; try discriminate.
        apply (Hpost FNow); [discriminate | reflexivity].
      * apply (cs_advance c s _ FClose); [exact Hcs | reflexivity | reflexivity | | | | ]; simpl; rewrite ?EC, ?app_nil_r; auto; try discriminate.
        apply (Hpost FClose); [discriminate | reflexivity].
      * apply (cs_same c s); [exact Hcs | reflexivity | reflexivity | | | ]; simpl; rewrite ?EC, ?app_nil_r; auto. exists []. now rewrite app_nil_r.
Qed.

(* --- user side --- *)
Lemma nth_error_upd_nth_eq {A} (l : list A) i x u :
  nth_error l i = Some u -> nth_error (upd_nth l i x) i = Some x.
Proof. revert i; induction l as [|a l IH]; intros [|i]; simpl; try discriminate; auto. Qed.
Lemma nth_error_upd_nth_neq {A} (l : list A) i j x :
  i <> j -> nth_error (upd_nth l i x) j = nth_error l j.
Proof.
  revert i j; induction l as [|a l IH]; intros [|i] [|j] H; simpl; try reflexivity; try congruence.
  apply IH. congruence.
Qed.

Lemma no_ctl_cons o r : no_ctl (o :: r) -> is_ctl o = false /\ no_ctl r.
Proof. unfold no_ctl. simpl. intros H. apply andb_true_iff in H as [H1 H2]. split; [now destruct (is_ctl o)|exact H2]. Qed.
Lemma ctl_ordered_cons o r : ctl_ordered (o :: r) = true -> ctl_ordered r = true /\ (o = Close -> no_ctl r).
Proof.
  destruct o; simpl; intros H; split; auto; try discriminate.
  induction r as [|o r IH]; simpl in *; [reflexivity|].
  apply andb_true_iff in H as [H1 H2]. destruct o; simpl in *; try discriminate. now apply IH.
Qed.

Lemma others_set_user c s i u u' :
  CtlInv c s -> nth_error (us s) i = Some u ->
  (i <> c -> no_ctl (prog u') /\ is_call_pc (pc u') = false) ->
  forall j w, nth_error (upd_nth (us s) i u') j = Some w -> j <> c ->
              no_ctl (prog w) /\ is_call_pc (pc w) = false.
Proof.
  intros HC Hn Hu' j w Hj Hjc. destruct (Nat.eq_dec i j) as [->|Hij].
  - rewrite (nth_error_upd_nth_eq _ _ _ _ Hn) in Hj. inversion Hj; subst. now apply Hu'.
  - rewrite nth_error_upd_nth_neq in Hj by exact Hij. eapply (ci_others _ _ HC); eauto.
Qed.

(* thread i takes a step of a record program *)
Lemma ctl_rec_step c s i u u' q' lg :
  CtlInv c s -> nth_error (us s) i = Some u ->
  is_call_pc (pc u) = false -> is_call_pc (pc u') = false ->
  (ctl_ordered (prog u) = true -> ctl_ordered (prog u') = true) ->
  (no_ctl (prog u) -> no_ctl (prog u')) ->
  (forall e, In e lg -> not_ret e /\ not_call_of c e /\ match e with EDeq _ => False | _ => True end) ->
  CtlInv c (set_user s i u' q' (cpc_ s) (closed s) lg).
Proof.
  intros HC Hn Hpc Hpc' Hord Hnc Hlg. pose proof HC as [A B C D E]. split; simpl; auto.
  - apply (others_set_user c s i u u' HC Hn). intros Hic. split; auto. apply Hnc. apply (B i u Hn Hic).
  - destruct (Nat.eq_dec i c) as [->|Hic].
    + unfold ctl_state in *. simpl. rewrite (nth_error_upd_nth_eq _ _ _ _ Hn). rewrite Hn in C.
      destruct C as [C0 C]. split; [now apply Hord|].
      destruct (pc u) as [| | |k]; try discriminate; destruct (pc u') as [| | |k']; try discriminate;
        (destruct (closed s); [destruct C; split; auto | exact C]).
    + apply (cs_same c s); simpl; auto.
      * now apply nth_error_upd_nth_neq.
      * apply call_mark_app_nocall. intros e He. now apply Hlg.
      * rewrite dequeued_app. eauto.
  - apply retok_app_noret; auto. intros e He. now apply Hlg.
Qed.

Lemma write_step_ctl c s i u r all x rest :
  CtlInv c s -> nth_error (us s) i = Some u -> is_call_pc (pc u) = false ->
  (ctl_ordered (prog u) = true -> ctl_ordered r = true) -> (no_ctl (prog u) -> no_ctl r) ->
  CtlInv c (write_step s i r all x rest).
Proof.
  intros HC Hn Hpc Ho Hnc. unfold write_step.
  destruct (zlen (q s) <? qcap s); [destruct rest|]; eapply ctl_rec_step; eauto; simpl;
    intros e He; repeat (destruct He as [<-|He]; [simpl; auto|]); destruct He.
Qed.

Lemma user_step_ctl c s i s' : Inv s -> CtlInv c s -> user_step s i = Some s' -> CtlInv c s'.
Proof.
  intros HI HC H. unfold user_step in H.
  destruct (nth_error (us s) i) as [u|] eqn:En; [|discriminate].
  pose proof HC as [A B C D E].
  destruct (pc u) as [|all rest| |k] eqn:Epc.
  - destruct (prog u) as [|[ps| |] r] eqn:Ep; [discriminate| | |].
    + (* a record program *)
      destruct ps as [|x ps]; inversion H; subst; clear H.
      * eapply ctl_rec_step; eauto; try (rewrite Epc; reflexivity); simpl; rewrite ?Ep.
        -- intros Ho. now apply ctl_ordered_cons in Ho.
        -- intros Ho. now apply no_ctl_cons in Ho.
        -- intros e [<-|[]]. simpl. auto.
      * eapply write_step_ctl; eauto; try (rewrite Epc; reflexivity); rewrite ?Ep.
        -- intros Ho. now apply ctl_ordered_cons in Ho.
        -- intros Ho. now apply no_ctl_cons in Ho.
    + (* Flush() is called *)
      destruct (Nat.eq_dec i c) as [->|Hic];
        [|exfalso; destruct (B _ _ En Hic) as [Hn _]; rewrite Ep in Hn; apply no_ctl_cons in Hn as [Hn _]; discriminate].
      unfold ctl_state in C. rewrite En, Epc, Ep in C. destruct C as [C0 C].
      destruct (closed s) eqn:Ecl; [exfalso; destruct C as [_ Hn]; apply no_ctl_cons in Hn as [Hn _]; discriminate|].
      inversion H; subst; clear H. split; simpl; auto.
      * intros j w; apply (others_set_user c s c u _ HC En); intros Hcc; congruence.
      * unfold ctl_state. simpl. rewrite (nth_error_upd_nth_eq _ _ _ _ En). simpl.
        apply ctl_ordered_cons in C0 as [C0 _]. auto.
      * apply retok_app_noret; auto. intros e [<-|[]]. exact I.
    + (* Close() is called *)
      destruct (Nat.eq_dec i c) as [->|Hic];
        [|exfalso; destruct (B _ _ En Hic) as [Hn _]; rewrite Ep in Hn; apply no_ctl_cons in Hn as [Hn _]; discriminate].
      unfold ctl_state in C. rewrite En, Epc, Ep in C. destruct C as [C0 C].
      destruct (closed s) eqn:Ecl; [exfalso; destruct C as [_ Hn]; apply no_ctl_cons in Hn as [Hn _]; discriminate|].
      inversion H; subst; clear H. split; simpl; auto.
      * intros j w; apply (others_set_user c s c u _ HC En); intros Hcc; congruence.
      * unfold ctl_state, progress. simpl. rewrite (nth_error_upd_nth_eq _ _ _ _ En). simpl.
        apply ctl_ordered_cons in C0 as [C0 C1]. rewrite C. repeat split; auto.
      * apply retok_app_noret; auto. intros e [<-|[]]. exact I.
  - destruct rest as [|x rest]; [discriminate|]. inversion H; subst; clear H.
    eapply write_step_ctl; eauto. rewrite Epc; reflexivity.
  - (* the send on flushNow meets the consumer's select *)
    destruct (Nat.eq_dec i c) as [->|Hic];
      [|exfalso; destruct (B _ _ En Hic) as [_ Hn]; rewrite Epc in Hn; discriminate].
    unfold ctl_state in C. rewrite En, Epc in C. destruct C as [C0 [Ecl C]]. rewrite Ecl in H.
    destruct (cpc_ s) eqn:EC; try discriminate. inversion H; subst; clear H. split; simpl; auto.
    + intros j w; apply (others_set_user c s c u _ HC En); intros Hcc; congruence.
    + unfold ctl_state, progress. simpl. rewrite (nth_error_upd_nth_eq _ _ _ _ En). simpl. auto.
    + intros; discriminate.
    + now rewrite app_nil_r.
  - (* the receive on flushComplete *)
    destruct (Nat.eq_dec i c) as [->|Hic];
      [|exfalso; destruct (B _ _ En Hic) as [_ Hn]; rewrite Epc in Hn; discriminate].
    destruct (cpc_ s) as [| | |cl|] eqn:EC; try discriminate. inversion H; subst; clear H.
    pose proof (D _ eq_refl) as Hbuf.
    assert (Hfile : file s = concat (dequeued (log s))).
    { rewrite (inv_bytes _ HI), EC, Hbuf. unfold pend_of. now rewrite !app_nil_r. }
    unfold ctl_state, progress in C. rewrite En, Epc, EC in C. simpl in C. destruct C as [C0 C].
    assert (Hprog : is_prefix (call_mark c (log s)) (dequeued (log s)) /\ cl = k /\ closed s = k /\ (k = true -> no_ctl (prog u))).
    { destruct k.
      - destruct C as (C1 & C2 & C3 & [C4|[C4|[C4|C4]]]); try discriminate. inversion C4. auto.
      - destruct C as (C1 & C3 & [C4|[C4|C4]]); try discriminate. inversion C4. repeat split; auto. discriminate. }
    destruct Hprog as (Hp & -> & Ecl & Hnc).
    split; simpl; auto.
    + intros j w; apply (others_set_user c s c u _ HC En); intros Hcc; congruence.
    + unfold ctl_state. simpl. rewrite (nth_error_upd_nth_eq _ _ _ _ En). simpl. rewrite Ecl.
      split; [exact C0|]. destruct k; simpl; auto.
    + apply retok_snoc_ret; auto. intros l1 k0 l2 El Hno.
      exists (dequeued (log s)). repeat split; auto.
      * rewrite <- (inv_chunks _ HI), El, !accepted_app. reflexivity.
      * rewrite <- (call_mark_decomp c l1 k0 l2 Hno), <- El. exact Hp.
Qed.

(* --- putting it together --- *)
Definition Full (c : nat) (s : st) : Prop := Inv s /\ CtlInv c s.

Lemma step_full c : Inductive_inv st tid step (Full c).
Proof.
  intros s t s' [HI HC] H. split; [eapply step_inv; eauto|].
  unfold step in H. destruct (crashed s); [discriminate|].
  destruct t as [b|i|].
  - eapply cons_step_ctl; eauto.
  - eapply user_step_ctl; eauto.
  - destruct (tick s); [discriminate|]. inversion H; subst. now apply ctl_set_tick.
Qed.

Lemma ctl_init cap bsize progs :
  ctl_discipline progs -> exists c, CtlInv c (init cap bsize progs).
Proof.
  intros [c Hc]. exists c. split; simpl; auto.
  - intros i u Hn Hic. rewrite nth_error_map in Hn. destruct (nth_error progs i) as [p|] eqn:Ep; [|discriminate].
    inversion Hn; subst; simpl. specialize (Hc _ _ Ep). destruct (Nat.eqb_spec i c); [contradiction|]. auto.
  - unfold ctl_state. simpl. rewrite nth_error_map. destruct (nth_error progs c) as [p|] eqn:Ep; simpl; auto.
    specialize (Hc _ _ Ep). rewrite Nat.eqb_refl in Hc. auto.
  - intros l1 i k l2 k' f qs b l3 E. exfalso. destruct l1; discriminate.
Qed.

Lemma reach_full cap bsize progs sched :
  ctl_discipline progs -> exists c, Full c (runs (init cap bsize progs) sched).
Proof.
  intros H. destruct (ctl_init cap bsize progs H) as [c Hc]. exists c.
  apply run_inv; [apply step_full | split; [apply inv_init | exact Hc]].
Qed.

Lemma flush_completes_reachable cap bsize progs sched :
  ctl_discipline progs ->
  let s := runs (init cap bsize progs) sched in
  crashed s = false /\
  forall l1 i k l2 k' f qs b l3,
    log s = l1 ++ ECall i k :: l2 ++ ERet i k' f qs b :: l3 -> no_event_of i l2 ->
    exists d, accepted (l1 ++ l2) = d ++ qs /\ f = concat d /\ is_prefix (accepted l1) d /\ b = [].
Proof.
  intros H s. destruct (reach_full cap bsize progs sched H) as [c [HI HC]]. fold s in HI, HC.
  split; [apply (ci_alive _ _ HC)|]. intros. eapply (ci_rets _ _ HC); eauto.
Qed.

Lemma app_self_nil {A} (l x : list A) : l = l ++ x -> x = [].
Proof. intros H. rewrite <- (app_nil_r l) in H at 1. now apply app_inv_head in H. Qed.

Lemma close_leaves_nothing_reachable cap bsize progs sched :
  ctl_discipline progs ->
  let s := runs (init cap bsize progs) sched in
  forall l1 i k l2 k' f qs b l3,
    log s = l1 ++ ECall i k :: l2 ++ ERet i k' f qs b :: l3 -> no_event_of i l2 ->
    accepted l2 = [] ->
    qs = [] /\ b = [] /\ f = concat (accepted l1).
Proof.
  intros H s l1 i k l2 k' f qs b l3 E Hno Hacc.
  destruct (flush_completes_reachable cap bsize progs sched H) as [_ HF]. fold s in HF.
  destruct (HF _ _ _ _ _ _ _ _ _ E Hno) as (d & E1 & E2 & [r E3] & E4).
  rewrite accepted_app, Hacc, app_nil_r in E1. rewrite E3, <- app_assoc in E1.
  apply app_self_nil in E1. apply app_eq_nil in E1 as [-> ->]. rewrite app_nil_r in E3. subst. auto.
Qed.

(* --- no deadlock: a caller inside Flush/Close can always be served --- *)
Lemma no_deadlock_state c s :
  Full c s ->
  forall i u, nth_error (us s) i = Some u -> is_call_pc (pc u) = true ->
    (exists b, step s (TC b) <> None) \/ step s (TU i) <> None.
Proof.
  intros [HI HC] i u En Hpc.
  destruct HC as [A B C D E].
  destruct (Nat.eq_dec i c) as [->|Hic]; [|destruct (B _ _ En Hic) as [_ Hn]; congruence].
  unfold ctl_state, progress in C. rewrite En in C. destruct C as [_ C].
  unfold step, user_step, cons_step. rewrite A, En.
  destruct (pc u) as [| | |k]; try discriminate.
  - destruct C as [Ecl P]. rewrite Ecl.
    destruct (cpc_ s) as [|k|w [p m|k]| |]; try discriminate.
    + right. discriminate.
    + left. exists BData. destruct (q s); [destruct (zlen (buf s) =? 0)|destruct (bufio_write _ _ _ _)]; discriminate.
    + left. exists BData. destruct (bufio_write _ _ _ _); discriminate.
    + left. exists BData. discriminate.
  - destruct (cpc_ s) as [|k'|w [p m|k']|cl|].
    + left. exists BCtl. destruct k; [destruct C as [-> _]; discriminate|].
      destruct C as (_ & _ & [P|[P|P]]); discriminate.
    + left. exists BData. destruct (q s); [destruct (zlen (buf s) =? 0)|destruct (bufio_write _ _ _ _)]; discriminate.
    + left. exists BData. destruct (bufio_write _ _ _ _); discriminate.
    + left. exists BData. discriminate.
    + right. discriminate.
    + exfalso. destruct k; [destruct C as (_ & _ & _ & [P|[P|[P|P]]])|destruct C as (_ & _ & [P|[P|P]])]; discriminate.
Qed.

Lemma writer_no_deadlock_reachable cap bsize progs sched :
  ctl_discipline progs ->
  let s := runs (init cap bsize progs) sched in
  forall i u, nth_error (us s) i = Some u -> is_call_pc (pc u) = true ->
    (exists b, step s (TC b) <> None) \/ step s (TU i) <> None.
Proof.
  intros H s. destruct (reach_full cap bsize progs sched H) as [c HF]. fold s in HF.
  now apply (no_deadlock_state c).
Qed.
