(* C07 — mirror model of /repo/asyncbufio/asyncbufio.go as an executable interleaving system
   (definitions only, no proofs).

   Threads:   TC b   the consumer goroutine writeLoop (b = which ready case its select picks when it
                     is parked at the main select; ignored elsewhere)
              TU i   user thread i (a producer running record programs and/or a Flush/Close caller)
              TTick  the runtime delivering a tick on ticker.C (channel of capacity 1)
   Atomic steps = one channel operation (or one call of the underlying io.Writer) together with the
   goroutine-local computation that follows it up to the next channel operation / underlying write.
   A stalled disk = a schedule that does not run the consumer while it sits at [CGate].

   State:     q      datachannel, a FIFO of byte chunks of capacity qcap (channelDepth)
              buf    the bytes buffered in the bufio.Writer (size bsz)
              file   the bytes the underlying io.Writer has accepted
              cpc    where the consumer is
              log    history variable (never read by [step]): what happened, in order.
   Assumed (listed in checks/C07.json): the underlying writer accepts every write completely and
   without error; Go channels are FIFO; select picks only ready cases. *)
From Dastard Require Import Common.ZX.

Definition chunk := list Z.

Inductive fkind := FNow | FClose | FTick.            (* who asked for flush(): Flush(), Close(), ticker *)
Inductive cmode := MLoop | MDrain (k : fkind).       (* bufio.Write called from writeLoop / from flush() *)
Inductive cont :=
| KWrite (p : list Z) (m : cmode)                    (* inside bufio.Write, p still to be handled *)
| KFlushed (k : fkind).                              (* the bufio.Flush at the end of flush() *)
Inductive cpc :=
| CSelect                                            (* parked at writeLoop's select *)
| CDrain (k : fkind)                                 (* at flush()'s inner select *)
| CGate (w : list Z) (c : cont)                      (* at the entry of the underlying Write(w) *)
| CComplete (closing : bool)                         (* blocked in  flushComplete <- struct{}{} *)
| CExit.

Inductive uop := Rec (parts : list chunk) | Flush | Close.
Inductive upc :=
| UIdle
| UInRec (all rest : list chunk)                     (* inside a record program: parts still to write *)
| USend                                              (* in Flush: blocked in  flushNow <- struct{}{} *)
| UWait (closing : bool).                            (* in Flush/Close: blocked in  <-flushComplete *)
Record uthread := { prog : list uop; pc : upc }.

Inductive event :=
| EWrite (i : nat) (c : chunk) (ok : bool)           (* a Write call returned (len c, nil) / (0, ErrShortWrite) *)
| ERec (i : nat) (parts : list chunk) (ok : bool)    (* a record program returned nil / an error *)
| EDeq (c : chunk)                                   (* the consumer received c from datachannel *)
| ECall (i : nat) (closing : bool)                   (* Flush / Close was called *)
| ERet (i : nat) (closing : bool) (f : list Z) (qs : list chunk) (b : list Z).
                                                     (* ... returned; file, queue, buffer at that moment *)

Record st := {
  qcap : Z; bsz : Z;
  q : list chunk; buf : list Z; file : list Z;
  cpc_ : cpc; tick : bool; closed : bool; crashed : bool;
  us : list uthread;
  log : list event
}.

Inductive branch := BData | BCtl | BTick.
Inductive tid := TC (b : branch) | TU (i : nat) | TTick.

Definition init (cap bsize : Z) (progs : list (list uop)) : st :=
  {| qcap := cap; bsz := bsize; q := []; buf := []; file := []; cpc_ := CSelect;
     tick := false; closed := false; crashed := false;
     us := map (fun p => {| prog := p; pc := UIdle |}) progs; log := [] |}.

(* ---- field updates ---- *)
Definition set_cons (s : st) (q' : list chunk) (buf' file' : list Z) (c : cpc) (lg : list event) : st :=
  {| qcap := qcap s; bsz := bsz s; q := q'; buf := buf'; file := file'; cpc_ := c;
     tick := tick s; closed := closed s; crashed := crashed s; us := us s; log := log s ++ lg |}.
Definition set_tick (s : st) (b : bool) : st :=
  {| qcap := qcap s; bsz := bsz s; q := q s; buf := buf s; file := file s; cpc_ := cpc_ s;
     tick := b; closed := closed s; crashed := crashed s; us := us s; log := log s |}.
Definition crash (s : st) : st :=
  {| qcap := qcap s; bsz := bsz s; q := q s; buf := buf s; file := file s; cpc_ := cpc_ s;
     tick := tick s; closed := closed s; crashed := true; us := us s; log := log s |}.
Fixpoint upd_nth {A} (l : list A) (i : nat) (x : A) : list A :=
  match l, i with
  | [], _ => []
  | _ :: r, O => x :: r
  | y :: r, S i' => y :: upd_nth r i' x
  end.
(* user i becomes u; queue, consumer pc, closed flag as given; events appended *)
Definition set_user (s : st) (i : nat) (u : uthread) (q' : list chunk) (c : cpc) (cl : bool)
           (lg : list event) : st :=
  {| qcap := qcap s; bsz := bsz s; q := q'; buf := buf s; file := file s; cpc_ := c;
     tick := tick s; closed := cl; crashed := crashed s; us := upd_nth (us s) i u; log := log s ++ lg |}.

(* ---- the consumer ---- *)
Definition finish (k : fkind) : cpc :=
  match k with FNow => CComplete false | FClose => CComplete true | FTick => CSelect end.
Definition mode_done (m : cmode) : cpc :=
  match m with MLoop => CSelect | MDrain k => CDrain k end.

(* bufio.Writer.Write(p), up to its first call of the underlying writer:
     for len(p) > b.Available() && b.err == nil {
        if b.Buffered() == 0 { n, b.err = b.wr.Write(p) }            -- large write, empty buffer
        else { n = copy(b.buf[b.n:], p); b.n += n; b.Flush() }       -- fill, then write the buffer out
        nn += n; p = p[n:] }
     n := copy(b.buf[b.n:], p); b.n += n
   returns (buffer, where the consumer is next) *)
Definition bufio_write (bsize : Z) (b p : list Z) (m : cmode) : list Z * cpc :=
  if zlen p >? bsize - zlen b then
    if zlen b =? 0 then ([], CGate p (KWrite [] m))
    else let n := bsize - zlen b in ([], CGate (b ++ zfirstn n p) (KWrite (zskipn n p) m))
  else (b ++ p, mode_done m).

Definition cons_step (s : st) (b : branch) : option st :=
  match cpc_ s with
  | CSelect =>
      match b with
      | BData =>
          match q s with
          | [] => None
          | c :: q' => let '(b', pc') := bufio_write (bsz s) (buf s) c MLoop in
                       Some (set_cons s q' b' (file s) pc' [EDeq c])
          end
      | BCtl => if closed s then Some (set_cons s (q s) (buf s) (file s) (CDrain FClose) []) else None
      | BTick => if tick s then Some (set_tick (set_cons s (q s) (buf s) (file s) (CDrain FTick) []) false)
                 else None
      end
  | CDrain k =>
      match q s with
      | c :: q' => let '(b', pc') := bufio_write (bsz s) (buf s) c (MDrain k) in
                   Some (set_cons s q' b' (file s) pc' [EDeq c])
      | [] => (* default: aw.writer.Flush() *)
          if zlen (buf s) =? 0 then Some (set_cons s [] (buf s) (file s) (finish k) [])
          else Some (set_cons s [] [] (file s) (CGate (buf s) (KFlushed k)) [])
      end
  | CGate w c =>      (* the underlying Write(w) returns *)
      match c with
      | KWrite p m => let '(b', pc') := bufio_write (bsz s) (buf s) p m in
                      Some (set_cons s (q s) b' (file s ++ w) pc' [])
      | KFlushed k => Some (set_cons s (q s) (buf s) (file s ++ w) (finish k) [])
      end
  | CComplete _ => None
  | CExit => None
  end.

(* ---- user threads ---- *)
(* asyncbufio.Writer.Write(c) as a part of a record program [all]; [rest] = parts after c *)
Definition write_step (s : st) (i : nat) (r : list uop) (all : list chunk) (c : chunk) (rest : list chunk) : st :=
  if zlen (q s) <? qcap s then
    match rest with
    | [] => set_user s i {| prog := r; pc := UIdle |} (q s ++ [c]) (cpc_ s) (closed s)
              [EWrite i c true; ERec i all true]
    | _ :: _ => set_user s i {| prog := r; pc := UInRec all rest |} (q s ++ [c]) (cpc_ s) (closed s)
              [EWrite i c true]
    end
  else set_user s i {| prog := r; pc := UIdle |} (q s) (cpc_ s) (closed s)
         [EWrite i c false; ERec i all false].

Definition user_step (s : st) (i : nat) : option st :=
  match nth_error (us s) i with
  | None => None
  | Some u =>
      match pc u with
      | UIdle =>
          match prog u with
          | [] => None
          | Rec [] :: r => Some (set_user s i {| prog := r; pc := UIdle |} (q s) (cpc_ s) (closed s) [ERec i [] true])
          | Rec (c :: ps) :: r => Some (write_step s i r (c :: ps) c ps)
          | Flush :: r =>
              if closed s then Some (crash s)                      (* send on closed channel *)
              else Some (set_user s i {| prog := r; pc := USend |} (q s) (cpc_ s) false [ECall i false])
          | Close :: r =>
              if closed s then Some (crash s)                      (* close of closed channel *)
              else Some (set_user s i {| prog := r; pc := UWait true |} (q s) (cpc_ s) true [ECall i true])
          end
      | UInRec all (c :: rest) => Some (write_step s i (prog u) all c rest)
      | UInRec _ [] => None
      | USend =>
          if closed s then Some (crash s)                          (* blocked sender of a channel being closed *)
          else match cpc_ s with
               | CSelect => Some (set_user s i {| prog := prog u; pc := UWait false |} (q s) (CDrain FNow) false [])
               | _ => None
               end
      | UWait k =>
          match cpc_ s with
          | CComplete cl =>
              Some (set_user s i {| prog := prog u; pc := UIdle |} (q s) (if cl then CExit else CSelect) (closed s)
                      [ERet i k (file s) (q s) (buf s)])
          | _ => None
          end
      end
  end.

Definition step (s : st) (t : tid) : option st :=
  if crashed s then None
  else match t with
       | TC b => cons_step s b
       | TU i => user_step s i
       | TTick => if tick s then None else Some (set_tick s true)
       end.

(* ---- the record programs of the file writers ---- *)
(* before the fix: one Write per field *)
Definition rec_parts_old (fields : list chunk) : uop := Rec fields.
(* after the fix: the record is assembled into one buffer and written with a single Write *)
Definition rec_single (fields : list chunk) : uop := Rec [concat fields].

(* ---- where the consumer is, seen from a Flush/Close caller (used by the proofs and by the variant) ---- *)
Inductive phase := PLoop | PPre (k : fkind) | PPost (k : fkind) | PDone (cl : bool) | PExit.
Definition phase_of (c : cpc) : phase :=
  match c with
  | CSelect => PLoop
  | CDrain FTick => PLoop
  | CDrain k => PPre k
  | CGate _ (KWrite _ MLoop) => PLoop
  | CGate _ (KWrite _ (MDrain FTick)) => PLoop
  | CGate _ (KWrite _ (MDrain k)) => PPre k
  | CGate _ (KFlushed FTick) => PLoop
  | CGate _ (KFlushed k) => PPost k
  | CComplete cl => PDone cl
  | CExit => PExit
  end.


(* ---- the variant (Variant.v proves: every consumer/user step decreases it, a tick adds at most 4);
        Run.v uses it as the fuel of "run until every thread is blocked" ---- *)
Definition mwork (m : cmode) : nat := match m with MLoop => 0 | MDrain _ => 3 end.
Definition cwork (bsize : Z) (c : cpc) : nat :=
  match c with
  | CSelect => 0
  | CDrain _ => 3                                         (* default branch + final Flush *)
  | CGate _ (KWrite p m) => 1 + (if zlen p >? bsize then 1 else 0) + mwork m
  | CGate _ (KFlushed _) => 1
  | CComplete _ => 0
  | CExit => 0
  end.
Definition opwork (o : uop) : nat :=
  match o with Rec ps => 1 + 4 * length ps | Flush => 6 | Close => 6 end.
Definition pcwork (p : upc) : nat :=
  match p with UIdle => 0 | UInRec _ rest => 4 * length rest | USend => 5 | UWait _ => 1 end.
Definition uwork (u : uthread) : nat := pcwork (pc u) + list_sum (map opwork (prog u)).
(* Close() has been called and the consumer has not yet picked up the closed channel *)
Definition close_pending (c : cpc) : bool :=
  match phase_of c with
  | PLoop | PPre FNow | PPost FNow | PDone false => true
  | _ => false
  end.
Definition V (s : st) : nat :=
  if crashed s then 0
  else 1 + list_sum (map uwork (us s)) + 3 * length (q s) + cwork (bsz s) (cpc_ s)
       + (if tick s then 4 else 0) + (if closed s && close_pending (cpc_ s) then 4 else 0).

Definition working (t : tid) : bool := match t with TTick => false | _ => true end.

