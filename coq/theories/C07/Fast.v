(* C07 — soundness of the run-by-run comparison used as the accepting fast path for long streams. *)
From Coq Require Import ZifyBool ZifyNat.
From Dastard Require Import Common.ZX C07.Model C07.Spec C07.Run.

Lemma expand_seg_nonpos a n d : n <= 0 -> expand_seg (a, n, d) = [].
Proof. intros H. unfold expand_seg, zrange. replace (Z.to_nat n) with O by lia. reflexivity. Qed.

Lemma expand_seg_split a n d k :
  0 <= k <= n -> expand_seg (a, n, d) = expand_seg (a, k, d) ++ expand_seg (a + d * k, n - k, d).
Proof.
  intros H. unfold expand_seg. replace n with (k + (n - k)) at 1 by lia.
  rewrite zrange_app by lia. rewrite map_app. f_equal.
  apply map_zrange_ext. intros j Hj. f_equal. lia.
Qed.

Lemma mod256_eq x y : (x - y) mod 256 = 0 -> x mod 256 = y mod 256.
Proof.
  intros H. replace x with (y + (x - y)) by lia.
  rewrite Z.add_mod by lia. rewrite H, Z.add_0_r, Z.mod_mod by lia. reflexivity.
Qed.

Lemma expand_seg_congr a b d e k :
  (a - b) mod 256 = 0 -> (k = 1 \/ (d - e) mod 256 = 0) -> expand_seg (a, k, d) = expand_seg (b, k, e).
Proof.
  intros Hab Hde. unfold expand_seg. apply map_zrange_ext. intros j Hj.
  replace (0 + j) with j by lia. apply mod256_eq.
  destruct Hde as [->|Hde].
  - replace j with 0 by lia. rewrite !Z.mul_0_r, !Z.add_0_r. exact Hab.
  - replace (a + d * j - (b + e * j)) with ((a - b) + (d - e) * j) by lia.
    rewrite Z.add_mod by lia. rewrite Hab. rewrite Z.mul_mod by lia. rewrite Hde. reflexivity.
Qed.

Lemma expand_cons g l : expand (g :: l) = expand_seg g ++ expand l.
Proof. reflexivity. Qed.

Lemma segs_eqb_sound fuel : forall x y, segs_eqb fuel x y = true -> expand x = expand y.
Proof.
  induction fuel as [|f IH]; intros x y H; [discriminate|]. simpl in H.
  destruct x as [|[[a n] d] x'].
  - destruct y as [|[[b m] e] y']; [reflexivity|].
    destruct (m <=? 0) eqn:Em; [|discriminate].
    rewrite expand_cons, expand_seg_nonpos by lia. simpl. exact (IH _ _ H).
  - destruct (n <=? 0) eqn:En.
    + rewrite expand_cons, expand_seg_nonpos by lia. simpl. exact (IH _ _ H).
    + destruct y as [|[[b m] e] y']; [discriminate|].
      destruct (m <=? 0) eqn:Em.
      * rewrite (expand_cons (b, m, e)), (expand_seg_nonpos b m e) by lia. simpl. exact (IH _ _ H).
      * set (k := Z.min n m) in *.
        destruct (((a - b) mod 256 =? 0) && ((k =? 1) || ((d - e) mod 256 =? 0))) eqn:Ec; [|discriminate].
        apply andb_true_iff in Ec as [Ec1 Ec2]. apply Z.eqb_eq in Ec1.
        assert (Hde : k = 1 \/ (d - e) mod 256 = 0) by (apply orb_true_iff in Ec2 as [E|E]; apply Z.eqb_eq in E; auto).
        apply IH in H.
        rewrite !expand_cons.
        rewrite (expand_seg_split a n d k) by lia. rewrite (expand_seg_split b m e k) by lia.
        rewrite <- !app_assoc. rewrite (expand_seg_congr a b d e k Ec1 Hde). f_equal.
        destruct (n - k =? 0) eqn:E1; destruct (m - k =? 0) eqn:E2;
          rewrite ?expand_cons in H;
          try (exfalso; lia);
          try (rewrite (expand_seg_nonpos (a + d * k) (n - k) d) by lia);
          try (rewrite (expand_seg_nonpos (b + e * k) (m - k) e) by lia); simpl; exact H.
Qed.

Lemma expand_app a b : expand (a ++ b) = expand a ++ expand b.
Proof. unfold expand. now rewrite flat_map_app. Qed.

Lemma expand_expected hdr recs :
  expand (pipe_expected hdr recs) =
  expand hdr ++ concat (map fst (filter snd (map (fun rb => (expand (fst rb), snd rb)) recs))).
Proof.
  unfold pipe_expected. rewrite expand_app. f_equal.
  induction recs as [|[r [|]] recs IH]; simpl; [reflexivity| |exact IH].
  rewrite expand_app, IH. reflexivity.
Qed.

(* when the fast path accepts, the checker proper accepts *)
Lemma pipe_fast_path_sound_lemma hdr recs strm hung :
  pipe_fast hdr recs strm hung = true ->
  C07_check_pipe (expand hdr) (map (fun rb => (expand (fst rb), snd rb)) recs) (expand strm) hung = true.
Proof.
  unfold pipe_fast, C07_check_pipe. intros H. apply andb_true_iff in H as [H1 H2].
  rewrite H1. simpl. apply zlist_eqb_eq. rewrite (segs_eqb_sound _ _ _ H2). apply expand_expected.
Qed.

Lemma flush_checker_means hdr recs snaps :
  C07_check_flush hdr recs snaps = true ->
  forall n s, In (n, s) snaps -> s = hdr ++ concat (zfirstn n recs).
Proof.
  unfold C07_check_flush. intros H n s Hin. rewrite forallb_forall in H.
  specialize (H _ Hin). simpl in H. now apply zlist_eqb_eq.
Qed.
