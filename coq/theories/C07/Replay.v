(* C07 — the model's observations under Run.v's replay pass the gate checker, for every script the harness can
   produce (Run.script_ok), every capacity, bufio size and tick mode. *)
From Coq Require Import ZifyBool ZifyNat.
From Dastard Require Import Common.ZX C07.Conc C07.Model C07.Spec C07.Proofs C07.Variant C07.Run.

(* ------------------------------------------------------------------------------------------- *)
(* executions in which only the control thread (inside a call), the consumer and the ticker move *)
(* ------------------------------------------------------------------------------------------- *)
Inductive Quiet : st -> list (list Z) -> st -> Prop :=
| q_refl s : Quiet s [] s
| q_user s s1 dn s2 : mid_call s = true -> step s (TU 1) = Some s1 -> Quiet s1 dn s2 -> Quiet s dn s2
| q_tick s s1 dn s2 : step s TTick = Some s1 -> Quiet s1 dn s2 -> Quiet s dn s2
| q_cons s b s1 dn s2 : parked s = None -> step s (TC b) = Some s1 -> Quiet s1 dn s2 -> Quiet s dn s2
| q_rel s b w s1 dn s2 : parked s = Some w -> step s (TC b) = Some s1 -> Quiet s1 dn s2 -> Quiet s (w :: dn) s2.

Lemma quiet_trans s d1 s1 : Quiet s d1 s1 -> forall d2 s2, Quiet s1 d2 s2 -> Quiet s (d1 ++ d2) s2.
Proof.
  induction 1; intros d2 s3 H3; simpl; eauto using Quiet.
Qed.

Lemma settle_quiet fuel : forall s, Quiet s [] (settle fuel s).
Proof.
  induction fuel as [|f IH]; intros s; simpl; [constructor|].
  destruct (mid_call s) eqn:Em.
  - destruct (step s (TU 1)) as [s'|] eqn:E1; [eapply q_user; eauto|].
    destruct (parked s) eqn:Ep; [constructor|].
    destruct (step s (TC BData)) eqn:E2; [eapply q_cons; eauto|].
    destruct (step s (TC BCtl)) eqn:E3; [eapply q_cons; eauto|].
    destruct (step s (TC BTick)) eqn:E4; [eapply q_cons; eauto|]. constructor.
  - destruct (parked s) eqn:Ep; [constructor|].
    destruct (step s (TC BData)) eqn:E2; [eapply q_cons; eauto|].
    destruct (step s (TC BCtl)) eqn:E3; [eapply q_cons; eauto|].
    destruct (step s (TC BTick)) eqn:E4; [eapply q_cons; eauto|]. constructor.
Qed.

Lemma sstep_tick_quiet s : Quiet s [] (sstep s TTick).
Proof. unfold sstep. destruct (step s TTick) eqn:E; [eapply q_tick; eauto|]; constructor. Qed.

Lemma settle'_quiet tm s : Quiet s [] (settle' tm s).
Proof.
  unfold settle'. destruct tm; [|apply settle_quiet].
  change (@nil (list Z)) with (@nil (list Z) ++ ([] ++ [])).
  eapply quiet_trans; [apply settle_quiet|]. eapply quiet_trans; [apply sstep_tick_quiet | apply settle_quiet].
Qed.

Lemma drain_quiet tm fuel : forall s done s' done',
  drain tm fuel s done = (s', done') -> exists dn, done' = done ++ dn /\ Quiet s dn s'.
Proof.
  induction fuel as [|f IH]; intros s done s' done' H; simpl in H.
  - inversion H; subst. exists []. rewrite app_nil_r. split; [reflexivity | constructor].
  - destruct (parked s) as [w|] eqn:Ep.
    + destruct (step s (TC BData)) as [s1|] eqn:E1.
      * destruct (IH _ _ _ _ H) as (dn & -> & Hq). exists (w :: dn). split.
        -- rewrite <- app_assoc. reflexivity.
        -- eapply q_rel; eauto. change dn with ([] ++ dn). eapply quiet_trans; [apply settle'_quiet | exact Hq].
      * inversion H; subst. exists []. rewrite app_nil_r. split; [reflexivity | constructor].
    + inversion H; subst. exists []. rewrite app_nil_r. split; [reflexivity | constructor].
Qed.

(* ------------------------------------------------------------------------------------------- *)
(* "every thread is blocked" and why [settle] reaches it                                        *)
(* ------------------------------------------------------------------------------------------- *)
Definition settled (s : st) : Prop :=
  (mid_call s = true -> step s (TU 1) = None) /\
  (parked s = None -> forall b, step s (TC b) = None).

Lemma settle_settled fuel : forall s, VI s -> (V s <= fuel)%nat -> settled (settle fuel s).
Proof.
  induction fuel as [|f IH]; intros s HV Hf.
  - (* V s = 0 means crashed: nothing is enabled *)
    simpl. unfold V in Hf. destruct (crashed s) eqn:Ec; [|lia].
    split; intros; unfold step; rewrite Ec; reflexivity.
  - simpl.
    assert (Hdec : forall t s', step s t = Some s' -> working t = true -> VI s' /\ (V s' <= f)%nat).
    { intros t s' E W. split; [eapply vi_inductive; eauto|].
      pose proof (working_decreases _ _ _ HV E W). lia. }
    destruct (mid_call s) eqn:Em.
    + destruct (step s (TU 1)) as [s'|] eqn:E1; [destruct (Hdec _ _ E1 eq_refl); now apply IH|].
      destruct (parked s) eqn:Ep; [split; [auto | congruence]|].
      destruct (step s (TC BData)) as [s'|] eqn:E2; [destruct (Hdec _ _ E2 eq_refl); now apply IH|].
      destruct (step s (TC BCtl)) as [s'|] eqn:E3; [destruct (Hdec _ _ E3 eq_refl); now apply IH|].
      destruct (step s (TC BTick)) as [s'|] eqn:E4; [destruct (Hdec _ _ E4 eq_refl); now apply IH|].
      split; [auto | intros _ []; assumption].
    + destruct (parked s) eqn:Ep; [split; congruence|].
      destruct (step s (TC BData)) as [s'|] eqn:E2; [destruct (Hdec _ _ E2 eq_refl); now apply IH|].
      destruct (step s (TC BCtl)) as [s'|] eqn:E3; [destruct (Hdec _ _ E3 eq_refl); now apply IH|].
      destruct (step s (TC BTick)) as [s'|] eqn:E4; [destruct (Hdec _ _ E4 eq_refl); now apply IH|].
      split; [congruence | intros _ []; assumption].
Qed.

Lemma vi_run sched : forall s, VI s -> VI (run st tid step s sched).
Proof. intros. apply run_inv; [exact vi_inductive | assumption]. Qed.

Lemma vi_sstep s t : VI s -> VI (sstep s t).
Proof. intros H. unfold sstep. destruct (step s t) eqn:E; [eapply vi_inductive; eauto | exact H]. Qed.

Lemma vi_settle fuel : forall s, VI s -> VI (settle fuel s).
Proof.
  induction fuel as [|f IH]; intros s H; simpl; [exact H|].
  assert (Hs : forall t s', step s t = Some s' -> VI s') by (intros; eapply vi_inductive; eauto).
  destruct (mid_call s); [destruct (step s (TU 1)) eqn:E1; [apply IH; eauto|]|];
    (destruct (parked s); [exact H|]);
    (destruct (step s (TC BData)) eqn:E2; [apply IH; eauto|]);
    (destruct (step s (TC BCtl)) eqn:E3; [apply IH; eauto|]);
    (destruct (step s (TC BTick)) eqn:E4; [apply IH; eauto|]); exact H.
Qed.

Lemma vi_settle' tm s : VI s -> VI (settle' tm s).
Proof.
  intros H. unfold settle'. destruct tm; [|now apply vi_settle].
  apply vi_settle. apply vi_sstep. now apply vi_settle.
Qed.

Lemma settle'_settled tm s : VI s -> settled (settle' tm s).
Proof.
  intros H. unfold settle'. destruct tm.
  - apply settle_settled; [apply vi_sstep; now apply vi_settle | unfold fuel_of; lia].
  - apply settle_settled; [exact H | unfold fuel_of; lia].
Qed.

Lemma drain_settled tm fuel : forall s done s' done',
  VI s -> settled s -> drain tm fuel s done = (s', done') -> VI s' /\ settled s'.
Proof.
  induction fuel as [|f IH]; intros s done s' done' HV Hs H; simpl in H.
  - inversion H; subst; auto.
  - destruct (parked s) as [w|].
    + destruct (step s (TC BData)) as [s1|] eqn:E1; [|inversion H; subst; auto].
      assert (VI s1) by (eapply vi_inductive; eauto).
      eapply IH; [| |exact H]; [now apply vi_settle' | now apply settle'_settled].
    + inversion H; subst; auto.
Qed.

(* ------------------------------------------------------------------------------------------- *)
(* what single steps do                                                                        *)
(* ------------------------------------------------------------------------------------------- *)
Lemma cons_step_effect s b s1 :
  step s (TC b) = Some s1 ->
  us s1 = us s /\ bsz s1 = bsz s /\
  exists ev, log s1 = log s ++ ev /\ (forall e, In e ev -> exists c, e = EDeq c) /\
             match parked s with
             | None => file s1 = file s
             | Some w => file s1 = file s ++ w /\ ev = []
             end.
Proof.
  unfold step, parked. destruct (crashed s); [discriminate|]. unfold cons_step.
  destruct (cpc_ s) as [|k|w c|cl|]; try discriminate.
  - destruct b.
    + destruct (q s) as [|x q']; [discriminate|]. destruct (bufio_write _ _ _ _). intros H; inversion H; subst; simpl.
      repeat split; auto. exists [EDeq x]. repeat split; auto. intros e [<-|[]]; eauto.
    + destruct (closed s); [|discriminate]. intros H; inversion H; subst; simpl.
      repeat split; auto. exists []. repeat split; auto. intros e [].
    + destruct (tick s); [|discriminate]. intros H; inversion H; subst; simpl.
      repeat split; auto. exists []. repeat split; auto. intros e [].
  - destruct (q s) as [|x q'].
    + destruct (zlen (buf s) =? 0); intros H; inversion H; subst; simpl; repeat split; auto;
        exists []; repeat split; auto; intros e [].
    + destruct (bufio_write _ _ _ _). intros H; inversion H; subst; simpl.
      repeat split; auto. exists [EDeq x]. repeat split; auto. intros e [<-|[]]; eauto.
  - destruct c.
    + destruct (bufio_write _ _ _ _). intros H; inversion H; subst; simpl.
      repeat split; auto. exists []. repeat split; auto. intros e [].
    + intros H; inversion H; subst; simpl. repeat split; auto. exists []. repeat split; auto. intros e [].
Qed.

Lemma tick_step_effect s s1 :
  step s TTick = Some s1 -> us s1 = us s /\ log s1 = log s /\ file s1 = file s /\ bsz s1 = bsz s.
Proof.
  unfold step. destruct (crashed s); [discriminate|]. destruct (tick s); [discriminate|].
  intros H; inversion H; subst; simpl; auto.
Qed.

Definition retfacts (s : st) : Prop :=
  exists d, file s = concat d /\ is_prefix d (accepted (log s)) /\ is_prefix (call_mark 1 (log s)) d.

Lemma ret_facts s u k cl :
  Full 1 s -> nth_error (us s) 1 = Some u -> pc u = UWait k -> cpc_ s = CComplete cl -> retfacts s.
Proof.
  intros [HI HC] En Epc EC. destruct HC as [A B C D E].
  pose proof (D _ EC) as Hbuf.
  exists (dequeued (log s)). repeat split.
  - rewrite (inv_bytes _ HI), EC, Hbuf. unfold pend_of. now rewrite !app_nil_r.
  - exists (q s). apply (inv_chunks _ HI).
  - unfold ctl_state, progress in C. rewrite En, Epc, EC in C. simpl in C. destruct C as [_ C].
    destruct k; [destruct C as (_ & _ & C & _) | destruct C as (_ & C & _)]; exact C.
Qed.

Definition not_inrec (p : upc) : Prop := match p with UInRec _ _ => False | _ => True end.

Record Good (s : st) (p0 p1 : list uop) : Prop := {
  g_full : Full 1 s;
  g_bsz : 0 <= bsz s;
  g_u0 : nth_error (us s) 0 = Some {| prog := p0; pc := UIdle |};
  g_u1 : exists pc1, nth_error (us s) 1 = Some {| prog := p1; pc := pc1 |} /\ not_inrec pc1
}.

Lemma good_vi s p0 p1 : Good s p0 p1 -> VI s.
Proof. intros [[HI _] Hb _ _]. split; assumption. Qed.

Lemma user1_step_effect s p0 p1 s1 :
  Good s p0 p1 -> mid_call s = true -> step s (TU 1) = Some s1 -> crashed s1 = false ->
  nth_error (us s1) 0 = nth_error (us s) 0 /\ file s1 = file s /\ bsz s1 = bsz s /\
  ((log s1 = log s /\ mid_call s1 = true /\
    exists pc1, nth_error (us s1) 1 = Some {| prog := p1; pc := pc1 |} /\ not_inrec pc1) \/
   (exists k qs b, log s1 = log s ++ [ERet 1 k (file s) qs b] /\ mid_call s1 = false /\
    nth_error (us s1) 1 = Some {| prog := p1; pc := UIdle |} /\ retfacts s)).
Proof.
  intros [HF Hb H0 (pc1 & H1 & Hn)] Hm H Hc.
  unfold mid_call in Hm. rewrite H1 in Hm. simpl in Hm.
  unfold step in H. destruct (crashed s); [discriminate|]. unfold user_step in H. rewrite H1 in H. simpl in H.
  destruct pc1 as [|a r| |k]; try discriminate.
  - destruct (closed s); [inversion H; subst; simpl in Hc; discriminate|].
    destruct (cpc_ s); try discriminate. inversion H; subst; clear H. cbn [us log file bsz set_user].
    rewrite nth_error_upd_nth_neq by lia. repeat split; auto. left.
    rewrite app_nil_r. split; [reflexivity|]. unfold mid_call. cbn [us set_user].
    rewrite (nth_error_upd_nth_eq _ _ _ _ H1). cbn [pc]. split; [reflexivity|]. eexists; split; [reflexivity | exact I].
  - destruct (cpc_ s) as [| | |cl|] eqn:EC; try discriminate. inversion H; subst; clear H. cbn [us log file bsz set_user].
    rewrite nth_error_upd_nth_neq by lia. repeat split; auto. right.
    exists k, (q s), (buf s). split; [reflexivity|]. unfold mid_call. cbn [us set_user].
    rewrite (nth_error_upd_nth_eq _ _ _ _ H1). cbn [pc prog]. repeat split; auto.
    eapply (ret_facts s _ k cl HF H1); [reflexivity | exact EC].
Qed.

(* ------------------------------------------------------------------------------------------- *)
(* history helpers                                                                             *)
(* ------------------------------------------------------------------------------------------- *)
Definition retf (r : option (list Z)) (e : event) : option (list Z) :=
  match e with ERet _ _ f _ _ => Some f | _ => r end.

Lemma fold_retf b : forall o,
  fold_left retf b o = match fold_left retf b None with Some x => Some x | None => o end.
Proof.
  induction b as [|e b IH]; intros o; simpl; [reflexivity|].
  rewrite (IH (retf o e)), (IH (retf None e)).
  destruct (fold_left retf b None); [reflexivity|]. destruct e; reflexivity.
Qed.

Lemma find_ret_app a b :
  find_ret (a ++ b) = match find_ret b with Some f => Some f | None => find_ret a end.
Proof.
  unfold find_ret. change (fun r e => match e with ERet _ _ f _ _ => Some f | _ => r end) with retf.
  rewrite fold_left_app. apply fold_retf.
Qed.

Definition writef (r : ares) (e : event) : ares :=
  match e with EWrite _ c ok => RW (if ok then zlen c else 0) ok | _ => r end.

Lemma fold_writef_none b : (forall e, In e b -> match e with EWrite _ _ _ => False | _ => True end) ->
  forall o, fold_left writef b o = o.
Proof.
  induction b as [|e b IH]; intros H o; simpl; [reflexivity|].
  rewrite IH by (intros; apply H; now right). specialize (H e (or_introl eq_refl)). destruct e; try reflexivity. contradiction.
Qed.

(* events a quiet execution can add *)
Definition quiet_event (e : event) : Prop :=
  match e with EDeq _ => True | ERet _ _ _ _ _ => True | _ => False end.

Lemma accepted_quiet ev : (forall e, In e ev -> quiet_event e) -> accepted ev = [].
Proof.
  induction ev as [|e ev IH]; intros H; [reflexivity|].
  assert (He := H e (or_introl eq_refl)). destruct e; simpl in *; try contradiction; apply IH; intros; apply H; now right.
Qed.

Lemma call_mark_quiet lg ev : (forall e, In e ev -> quiet_event e) -> call_mark 1 (lg ++ ev) = call_mark 1 lg.
Proof.
  intros H. apply call_mark_app_nocall. intros e He. specialize (H e He). destruct e; simpl in *; auto; contradiction.
Qed.

Lemma find_ret_deq ev : (forall e, In e ev -> exists c, e = EDeq c) -> find_ret ev = None.
Proof.
  induction ev as [|e ev IH]; intros H; [reflexivity|].
  destruct (H e (or_introl eq_refl)) as [c ->]. change (find_ret (EDeq c :: ev)) with (find_ret ([EDeq c] ++ ev)).
  rewrite find_ret_app, IH by (intros; apply H; now right). reflexivity.
Qed.

(* ------------------------------------------------------------------------------------------- *)
(* what a quiet execution does                                                                 *)
(* ------------------------------------------------------------------------------------------- *)
Definition ret_outcome (s s' : st) (ev : list event) (dn : list (list Z)) : Prop :=
  (mid_call s' = mid_call s /\ find_ret ev = None) \/
  (mid_call s = true /\ mid_call s' = false /\
   exists f d j, find_ret ev = Some f /\ (j <= length dn)%nat /\ f = file s ++ concat (firstn j dn) /\
                 f = concat d /\ is_prefix d (accepted (log s)) /\ is_prefix (call_mark 1 (log s)) d).

Lemma mid_call_us s s1 : us s1 = us s -> mid_call s1 = mid_call s.
Proof. unfold mid_call. now intros ->. Qed.

Lemma good_us s s1 p0 p1 :
  Good s p0 p1 -> Full 1 s1 -> us s1 = us s -> bsz s1 = bsz s -> Good s1 p0 p1.
Proof. intros [A B C D] HF E1 E2. split; auto; rewrite ?E1, ?E2; auto. Qed.

Lemma quiet_summary s dn s' : Quiet s dn s' -> forall p0 p1, Good s p0 p1 ->
  Good s' p0 p1 /\
  exists ev, log s' = log s ++ ev /\ (forall e, In e ev -> quiet_event e) /\
             file s' = file s ++ concat dn /\ ret_outcome s s' ev dn.
Proof.
  induction 1 as [s | s s1 dn s2 Hm E Hq IH | s s1 dn s2 E Hq IH | s b s1 dn s2 Hp E Hq IH | s b w s1 dn s2 Hp E Hq IH];
    intros p0 p1 HG.
  - split; [exact HG|]. exists []. rewrite !app_nil_r. repeat split; auto. intros e []. left. auto.
  - assert (HF1 : Full 1 s1) by (eapply step_full; [apply (g_full _ _ _ HG) | exact E]).
    assert (Hc1 : crashed s1 = false) by (destruct HF1 as [_ HC]; apply (ci_alive _ _ HC)).
    destruct (user1_step_effect _ _ _ _ HG Hm E Hc1) as (U0 & Ef & Eb & [(El & Hm1 & pc1 & U1 & Hn)|(k & qs & b & El & Hm1 & U1 & Hr)]).
    + assert (HG1 : Good s1 p0 p1).
      { split; auto. rewrite Eb; apply (g_bsz _ _ _ HG). rewrite U0; apply (g_u0 _ _ _ HG). eauto. }
      destruct (IH _ _ HG1) as (HG2 & ev & E2 & Hev & Ef2 & Ho). split; [exact HG2|].
      exists ev. rewrite E2, El, Ef2, Ef. repeat split; auto.
      unfold ret_outcome in *. rewrite El, Ef, Hm1 in Ho. rewrite Hm. exact Ho.
    + assert (HG1 : Good s1 p0 p1).
      { split; auto. rewrite Eb; apply (g_bsz _ _ _ HG). rewrite U0; apply (g_u0 _ _ _ HG).
        eexists; split; [exact U1 | exact I]. }
      destruct (IH _ _ HG1) as (HG2 & ev & E2 & Hev & Ef2 & Ho). split; [exact HG2|].
      exists (ERet 1 k (file s) qs b :: ev). rewrite E2, El, <- app_assoc. split; [reflexivity|].
      split; [intros e [<-|He]; [exact I | now apply Hev]|].
      split; [rewrite Ef2, Ef; reflexivity|].
      right. destruct Ho as [[Hm2 Hr2]|(Hbad & _)]; [|congruence].
      split; [exact Hm|]. split; [congruence|].
      destruct Hr as (d & D1 & D2 & D3). exists (file s), d, 0%nat.
      change (ERet 1 k (file s) qs b :: ev) with ([ERet 1 k (file s) qs b] ++ ev).
      rewrite find_ret_app, Hr2. simpl. rewrite app_nil_r. repeat split; auto. lia.
  - destruct (tick_step_effect _ _ E) as (Eu & El & Ef & Eb).
    assert (HG1 : Good s1 p0 p1) by (eapply good_us; eauto; eapply step_full; [apply (g_full _ _ _ HG) | exact E]).
    destruct (IH _ _ HG1) as (HG2 & ev & E2 & Hev & Ef2 & Ho). split; [exact HG2|].
    exists ev. rewrite E2, El, Ef2, Ef. repeat split; auto.
    unfold ret_outcome in *. rewrite El, Ef, (mid_call_us _ _ Eu) in Ho. exact Ho.
  - destruct (cons_step_effect _ _ _ E) as (Eu & Eb & ev1 & El & Hev1 & Ef). rewrite Hp in Ef.
    assert (HG1 : Good s1 p0 p1) by (eapply good_us; eauto; eapply step_full; [apply (g_full _ _ _ HG) | exact E]).
    destruct (IH _ _ HG1) as (HG2 & ev & E2 & Hev & Ef2 & Ho). split; [exact HG2|].
    assert (Hq1 : forall e, In e ev1 -> quiet_event e) by (intros e He; destruct (Hev1 e He) as [c ->]; exact I).
    exists (ev1 ++ ev). rewrite E2, El, <- app_assoc. split; [reflexivity|].
    split; [intros e He; apply in_app_or in He as [He|He]; auto|].
    split; [rewrite Ef2, Ef; reflexivity|].
    unfold ret_outcome in *. rewrite find_ret_app, (find_ret_deq _ Hev1).
    rewrite El, accepted_app, (accepted_quiet _ Hq1), app_nil_r, (call_mark_quiet _ _ Hq1), Ef, (mid_call_us _ _ Eu) in Ho.
    destruct Ho as [[A B]|(A & B & f & d & j & C1 & C2 & C3 & C4 & C5 & C6)].
    + left. rewrite B. auto.
    + right. repeat split; auto. exists f, d, j. rewrite C1. repeat split; auto.
  - destruct (cons_step_effect _ _ _ E) as (Eu & Eb & ev1 & El & Hev1 & Ef). rewrite Hp in Ef. destruct Ef as [Ef ->].
    rewrite app_nil_r in El.
    assert (HG1 : Good s1 p0 p1) by (eapply good_us; eauto; eapply step_full; [apply (g_full _ _ _ HG) | exact E]).
    destruct (IH _ _ HG1) as (HG2 & ev & E2 & Hev & Ef2 & Ho). split; [exact HG2|].
    exists ev. rewrite E2, El. split; [reflexivity|]. split; [exact Hev|].
    split; [rewrite Ef2, Ef; simpl; now rewrite <- app_assoc|].
    unfold ret_outcome in *. rewrite El, Ef, (mid_call_us _ _ Eu) in Ho.
    destruct Ho as [[A B]|(A & B & f & d & j & C1 & C2 & C3 & C4 & C5 & C6)].
    + left. auto.
    + right. repeat split; auto. exists f, d, (S j). repeat split; auto; [simpl; lia|].
      rewrite C3. simpl. now rewrite <- app_assoc.
Qed.

(* ------------------------------------------------------------------------------------------- *)
(* pieces of the checker                                                                       *)
(* ------------------------------------------------------------------------------------------- *)
Lemma prefix_b_complete a : forall b, is_prefix a b -> prefix_b a b = true.
Proof.
  induction a as [|x a IH]; intros b [r ->]; simpl; [reflexivity|].
  rewrite Z.eqb_refl. simpl. apply IH. now exists r.
Qed.

Lemma is_prefix_firstn {A} (d l : list A) : is_prefix d l -> d = firstn (length d) l.
Proof. intros [r ->]. rewrite firstn_app, Nat.sub_diag, firstn_all. simpl. now rewrite app_nil_r. Qed.

Lemma is_prefix_length {A} (d l : list A) : is_prefix d l -> (length d <= length l)%nat.
Proof. intros [r ->]. rewrite app_length. lia. Qed.

Lemma chunk_boundary_ok n0 A f d :
  f = concat d -> is_prefix d A -> (n0 <= length d)%nat -> chunk_boundary_from n0 A f = true.
Proof.
  intros -> Hp Hn. unfold chunk_boundary_from. apply existsb_exists. exists (length d). split.
  - apply in_seq. pose proof (is_prefix_length _ _ Hp). unfold chunk in *. lia.
  - apply zlist_eqb_eq. f_equal. apply (is_prefix_firstn _ _ Hp).
Qed.

Lemma settled_parked s :
  Full 1 s -> settled s -> mid_call s = true -> exists w, parked s = Some w.
Proof.
  intros HF [S1 S2] Hm. destruct (parked s) as [w|] eqn:Ep; [eauto|]. exfalso.
  unfold mid_call in Hm. destruct (nth_error (us s) 1) as [u|] eqn:En; [|discriminate].
  assert (Hc : is_call_pc (pc u) = true) by (destruct (pc u); try discriminate; reflexivity).
  destruct (no_deadlock_state 1 s HF 1%nat u En Hc) as [[b Hb]|Hb].
  - apply Hb. now apply S2.
  - apply Hb. apply S1. unfold mid_call. now rewrite En.
Qed.

Lemma file_prefix_state s :
  Inv s -> is_prefix (file s ++ match parked s with Some w => w | None => [] end) (concat (accepted (log s))).
Proof.
  intros [I1 I2 I3]. rewrite I1, concat_app, I2. unfold parked, pend_of.
  destruct (cpc_ s) as [|k|w [p m|k]|cl|].
  - exists (buf s ++ concat (q s)). now rewrite app_nil_r, <- app_assoc.
  - exists (buf s ++ concat (q s)). now rewrite app_nil_r, <- app_assoc.
  - exists (p ++ buf s ++ concat (q s)). now rewrite <- !app_assoc.
  - exists (buf s ++ concat (q s)). now rewrite <- !app_assoc.
  - exists (buf s ++ concat (q s)). now rewrite app_nil_r, <- app_assoc.
  - exists (buf s ++ concat (q s)). now rewrite app_nil_r, <- app_assoc.
Qed.

(* the part of gate_step after the result of the call has been judged *)
Definition gate_tail (g : gst) (a : act) (o : obs) (A : list chunk) : option gst :=
  let F := g_file g ++ concat (o_done o) in
  let P := match o_gate o with Some w => w | None => [] end in
  let call0 := match a with
               | ACtl _ => match o_res o with RNone => Some (length (g_acc g)) | _ => g_call g end
               | _ => g_call g end in
  if negb (prefix_b (F ++ P) (concat A)) then None else
  match o_ret o, call0 with
  | Some f, Some n0 =>
      if existsb (fun j => zlist_eqb f (g_file g ++ concat (firstn j (o_done o)))) (seq 0 (S (length (o_done o))))
         && chunk_boundary_from n0 A f
      then Some {| g_acc := A; g_file := F; g_call := None;
                   g_closed := g_closed g || match a with ACtl true => true | _ => false end |}
      else None
  | Some _, None => None
  | None, Some _ =>
      match o_gate o with
      | None => None
      | Some _ => Some {| g_acc := A; g_file := F; g_call := call0;
                          g_closed := g_closed g || match a with ACtl true => true | _ => false end |}
      end
  | None, None => Some {| g_acc := A; g_file := F; g_call := None; g_closed := g_closed g |}
  end.

(* the quiet part of an action, seen by the checker *)
Lemma tail_ok s1 dn s' p0 p1 g a o A (call0 : option nat) :
  Good s1 p0 p1 -> Quiet s1 dn s' -> settled s' ->
  A = accepted (log s1) -> g_file g = file s1 ->
  (match a with
   | ACtl _ => match o_res o with RNone => Some (length (g_acc g)) | _ => g_call g end
   | _ => g_call g end) = call0 ->
  call0 = (if mid_call s1 then Some (length (call_mark 1 (log s1))) else None) ->
  o_done o = dn -> o_gate o = parked s' ->
  (forall ev, log s' = log s1 ++ ev -> o_ret o = find_ret ev) ->
  exists g', gate_tail g a o A = Some g' /\
             Good s' p0 p1 /\
             g_acc g' = accepted (log s') /\ g_file g' = file s' /\
             g_call g' = (if mid_call s' then Some (length (call_mark 1 (log s'))) else None).
Proof.
  intros HG Hq Hs -> Hf Hc0 Hc Hd Hg Hr.
  destruct (quiet_summary _ _ _ Hq _ _ HG) as (HG' & ev & El & Hev & Efile & Ho).
  specialize (Hr ev El).
  assert (Eacc : accepted (log s') = accepted (log s1)) by (rewrite El, accepted_app, (accepted_quiet _ Hev); apply app_nil_r).
  assert (Ecm : call_mark 1 (log s') = call_mark 1 (log s1)) by (rewrite El; now apply call_mark_quiet).
  pose proof (g_full _ _ _ HG') as HF'.
  unfold gate_tail. rewrite Hc0, Hd, Hg, Hr, Hf, <- Efile.
  assert (Hpre : prefix_b ((file s') ++ match parked s' with Some w => w | None => [] end) (concat (accepted (log s1))) = true).
  { apply prefix_b_complete. rewrite <- Eacc. apply file_prefix_state. apply HF'. }
  rewrite Hpre. simpl negb. cbv iota.
  destruct Ho as [[Hm Hn]|(Hm1 & Hm' & f & d & j & R1 & R2 & R3 & R4 & R5 & R6)].
  - rewrite Hn, Hc. destruct (mid_call s1) eqn:Em1.
    + destruct (settled_parked _ HF' Hs) as [w Ew]; [congruence|]. rewrite Ew.
      eexists; split; [reflexivity|]. simpl. rewrite Hm, Eacc, Ecm. auto.
    + eexists; split; [reflexivity|]. simpl. rewrite Hm, Eacc. auto.
  - rewrite R1, Hc, Hm1.
    assert (E1 : existsb (fun j0 => zlist_eqb f (file s1 ++ concat (firstn j0 dn))) (seq 0 (S (length dn))) = true).
    { apply existsb_exists. exists j. split; [apply in_seq; lia | apply zlist_eqb_eq; exact R3]. }
    assert (E2 : chunk_boundary_from (length (call_mark 1 (log s1))) (accepted (log s1)) f = true).
    { eapply chunk_boundary_ok; eauto. now apply is_prefix_length. }
    rewrite E1, E2. simpl andb. cbv iota.
    eexists; split; [reflexivity|]. simpl. rewrite Hm', Eacc. auto.
Qed.

(* ------------------------------------------------------------------------------------------- *)
(* one action of the script                                                                    *)
(* ------------------------------------------------------------------------------------------- *)
Definition wprog (acts : list act) : list uop :=
  flat_map (fun a => match a with AW c => [Rec [c]] | _ => [] end) acts.
Definition cprog (acts : list act) : list uop :=
  flat_map (fun a => match a with ACtl true => [Close] | ACtl false => [Flush] | _ => [] end) acts.

Lemma progs_of_eq acts : progs_of acts = [wprog acts; cprog acts].
Proof. reflexivity. Qed.

Record Rel (s : st) (g : gst) (acts : list act) : Prop := {
  r_good : Good s (wprog acts) (cprog acts);
  r_settled : settled s;
  r_acc : g_acc g = accepted (log s);
  r_file : g_file g = file s;
  r_call : g_call g = (if mid_call s then Some (length (call_mark 1 (log s))) else None)
}.

Definition acc_part (g : gst) (a : act) (o : obs) : option (list chunk) :=
  match a, o_res o with
  | AW c, RW n true => if n =? zlen c then Some (g_acc g ++ [c]) else None
  | AW c, RW n false => if n =? 0 then Some (g_acc g) else None
  | AW _, _ => None
  | ACtl _, RNone => Some (g_acc g)
  | ACtl _, RPanic => if g_closed g then Some (g_acc g) else None
  | ACtl _, _ => None
  | _, RNone => Some (g_acc g)
  | _, _ => None
  end.

Lemma gate_step_split g a o :
  gate_step g a o = match acc_part g a o with None => None | Some A => gate_tail g a o A end.
Proof. reflexivity. Qed.

Lemma skipn_app_length {A} (a b : list A) : skipn (length a) (a ++ b) = b.
Proof. induction a; simpl; auto. Qed.

Lemma write_first s c p0 p1 :
  Good s (Rec [c] :: p0) p1 ->
  exists ok s1, step s (TU 0) = Some s1 /\ Good s1 p0 p1 /\
                log s1 = log s ++ [EWrite 0 c ok; ERec 0 [c] ok] /\ file s1 = file s /\
                mid_call s1 = mid_call s.
Proof.
  intros HG. pose proof HG as [HF Hb H0 (pc1 & H1 & Hn)].
  assert (Hcr : crashed s = false) by (destruct HF as [_ HC]; apply (ci_alive _ _ HC)).
  assert (E : step s (TU 0) = Some (write_step s 0 p0 [c] c [])).
  { unfold step. rewrite Hcr. unfold user_step. rewrite H0. reflexivity. }
  assert (HF1 : Full 1 (write_step s 0 p0 [c] c [])) by (eapply step_full; eauto).
  exists (zlen (q s) <? qcap s), (write_step s 0 p0 [c] c []). split; [exact E|].
  unfold write_step in *. destruct (zlen (q s) <? qcap s); cbn [log file us bsz set_user];
    (split; [split; auto; cbn [us bsz set_user];
             [apply (nth_error_upd_nth_eq _ _ _ _ H0) | rewrite nth_error_upd_nth_neq by lia; eauto]|]);
    (split; [reflexivity|]); (split; [reflexivity|]);
    unfold mid_call; cbn [us set_user]; rewrite nth_error_upd_nth_neq by lia; reflexivity.
Qed.

Lemma ctl_first s (k : bool) p0 p1 :
  Good s p0 ((if k then Close else Flush) :: p1) -> mid_call s = false -> closed s = false ->
  exists s1, step s (TU 1) = Some s1 /\ Good s1 p0 p1 /\
             log s1 = log s ++ [ECall 1 k] /\ file s1 = file s /\ mid_call s1 = true.
Proof.
  intros HG Hm Hcl. pose proof HG as [HF Hb H0 (pc1 & H1 & Hn)].
  assert (Hcr : crashed s = false) by (destruct HF as [_ HC]; apply (ci_alive _ _ HC)).
  unfold mid_call in Hm. rewrite H1 in Hm. cbn [pc] in Hm.
  destruct pc1 as [|a r| |kk]; try discriminate; [|contradiction].
  destruct k.
  - set (s1 := set_user s 1 {| prog := p1; pc := UWait true |} (q s) (cpc_ s) true [ECall 1 true]).
    assert (E : step s (TU 1) = Some s1).
    { unfold step. rewrite Hcr. unfold user_step. rewrite H1. cbn [pc prog]. rewrite Hcl. reflexivity. }
    exists s1. split; [exact E|]. assert (HF1 : Full 1 s1) by (eapply step_full; eauto).
    subst s1. cbn [log file us bsz set_user]. split.
    + split; auto; cbn [us bsz set_user]; [rewrite nth_error_upd_nth_neq by lia; exact H0|].
      exists (UWait true). split; [apply (nth_error_upd_nth_eq _ _ _ _ H1) | exact I].
    + repeat split. unfold mid_call. cbn [us set_user]. rewrite (nth_error_upd_nth_eq _ _ _ _ H1). reflexivity.
  - set (s1 := set_user s 1 {| prog := p1; pc := USend |} (q s) (cpc_ s) false [ECall 1 false]).
    assert (E : step s (TU 1) = Some s1).
    { unfold step. rewrite Hcr. unfold user_step. rewrite H1. cbn [pc prog]. rewrite Hcl. reflexivity. }
    exists s1. split; [exact E|]. assert (HF1 : Full 1 s1) by (eapply step_full; eauto).
    subst s1. cbn [log file us bsz set_user]. split.
    + split; auto; cbn [us bsz set_user]; [rewrite nth_error_upd_nth_neq by lia; exact H0|].
      exists USend. split; [apply (nth_error_upd_nth_eq _ _ _ _ H1) | exact I].
    + repeat split. unfold mid_call. cbn [us set_user]. rewrite (nth_error_upd_nth_eq _ _ _ _ H1). reflexivity.
Qed.

Lemma good_alive s p0 p1 : Good s p0 p1 -> crashed s = false.
Proof. intros [[_ HC] _ _ _]. apply (ci_alive _ _ HC). Qed.

Lemma finish_action s g a s1 ev1 dn s' p0 p1 :
  g_file g = file s ->
  Good s1 p0 p1 -> log s1 = log s ++ ev1 -> find_ret ev1 = None -> file s1 = file s ->
  Quiet s1 dn s' -> settled s' ->
  acc_part g a (model_obs s s' a dn) = Some (accepted (log s1)) ->
  (match a with
   | ACtl _ => match o_res (model_obs s s' a dn) with RNone => Some (length (g_acc g)) | _ => g_call g end
   | _ => g_call g end) = (if mid_call s1 then Some (length (call_mark 1 (log s1))) else None) ->
  exists g', gate_step g a (model_obs s s' a dn) = Some g' /\
             Good s' p0 p1 /\ g_acc g' = accepted (log s') /\ g_file g' = file s' /\
             g_call g' = (if mid_call s' then Some (length (call_mark 1 (log s'))) else None).
Proof.
  intros Hf HG El Hr1 Ef Hq Hs Hacc Hcall.
  rewrite gate_step_split, Hacc.
  eapply (tail_ok s1 dn s' p0 p1 g a _ _ _ HG Hq Hs eq_refl); try reflexivity.
  - now rewrite Hf, Ef.
  - exact Hcall.
  - intros ev E2. cbn [o_ret model_obs]. unfold new_events. rewrite E2, El, <- app_assoc, skipn_app_length.
    rewrite find_ret_app, Hr1. destruct (find_ret ev); reflexivity.
Qed.

Lemma nonwrite_res s s' a dn :
  crashed s' = false -> (forall c, a <> AW c) -> o_res (model_obs s s' a dn) = RNone.
Proof. intros Hc Ha. cbn [o_res model_obs]. rewrite Hc. simpl. destruct a; try reflexivity. exfalso. eapply Ha; eauto. Qed.

Lemma action_ok tm s g a r :
  Rel s g (a :: r) ->
  (match a with ACtl _ => negb (mid_call s) && negb (closed s) | _ => true end) = true ->
  exists g', gate_step g a (model_obs s (fst (apply_act tm s a)) a (snd (apply_act tm s a))) = Some g' /\
             Rel (fst (apply_act tm s a)) g' r.
Proof.
  intros [HG Hset Hacc Hfile Hcall] Hok.
  pose proof (good_vi _ _ _ HG) as HV.
  (* the common ending *)
  assert (Fin : forall s1 ev1 dn s' ,
    Good s1 (wprog r) (cprog r) -> log s1 = log s ++ ev1 -> find_ret ev1 = None -> file s1 = file s ->
    Quiet s1 dn s' -> settled s' ->
    acc_part g a (model_obs s s' a dn) = Some (accepted (log s1)) ->
    (match a with
     | ACtl _ => match o_res (model_obs s s' a dn) with RNone => Some (length (g_acc g)) | _ => g_call g end
     | _ => g_call g end) = (if mid_call s1 then Some (length (call_mark 1 (log s1))) else None) ->
    exists g', gate_step g a (model_obs s s' a dn) = Some g' /\ Rel s' g' r).
  { intros s1 ev1 dn s' G1 El Hr Ef Hq Hs' Ha Hc.
    destruct (finish_action s g a s1 ev1 dn s' _ _ Hfile G1 El Hr Ef Hq Hs' Ha Hc) as (g' & E & G' & A1 & A2 & A3).
    exists g'. split; [exact E|]. split; auto. }
  destruct a as [c|k| | | |]; cbn [apply_act fst snd].
  - (* Write *)
    cbn [wprog cprog flat_map app] in HG.
    destruct (write_first _ _ _ _ HG) as (ok & s1 & E1 & G1 & El & Ef & Em).
    assert (Es : sstep s (TU 0) = s1) by (unfold sstep; now rewrite E1). rewrite Es.
    pose proof (settle'_quiet tm s1) as Hq.
    destruct (quiet_summary _ _ _ Hq _ _ G1) as (G' & ev2 & E2 & Hev2 & _ & _).
    eapply (Fin s1 _ [] _ G1 El eq_refl Ef Hq).
    + apply settle'_settled. eapply good_vi; eauto.
    + unfold acc_part. cbn [o_res model_obs]. rewrite (good_alive _ _ _ G'). simpl.
      unfold new_events. rewrite E2, El, <- app_assoc, skipn_app_length.
      unfold find_write. change (fun r e => match e with EWrite _ c0 ok0 => RW (if ok0 then zlen c0 else 0) ok0 | _ => r end) with writef.
      rewrite fold_left_app. simpl fold_left at 2.
      rewrite fold_writef_none by (intros e He; specialize (Hev2 e He); destruct e; simpl in *; auto).
      rewrite accepted_app, <- Hacc. destruct ok; simpl; rewrite ?Z.eqb_refl, ?app_nil_r; reflexivity.
    + rewrite Em, El. rewrite call_mark_app_nocall by (intros e [<-|[<-|[]]]; exact I). exact Hcall.
  - (* Flush / Close *)
    apply andb_true_iff in Hok as [Hm Hcl]. apply negb_true_iff in Hm, Hcl.
    assert (HG0 : Good s (wprog r) ((if k then Close else Flush) :: cprog r)) by (destruct k; exact HG).
    destruct (ctl_first _ _ _ _ HG0 Hm Hcl) as (s1 & E1 & G1 & El & Ef & Em).
    assert (Es : sstep s (TU 1) = s1) by (unfold sstep; now rewrite E1). rewrite Es.
    pose proof (settle'_quiet tm s1) as Hq.
    destruct (quiet_summary _ _ _ Hq _ _ G1) as (G' & _).
    eapply (Fin s1 _ [] _ G1 El eq_refl Ef Hq).
    + apply settle'_settled. eapply good_vi; eauto.
    + unfold acc_part. rewrite nonwrite_res by (try apply (good_alive _ _ _ G'); intros; discriminate).
      rewrite El, accepted_app. simpl. rewrite app_nil_r. now rewrite Hacc.
    + rewrite nonwrite_res by (try apply (good_alive _ _ _ G'); intros; discriminate).
      rewrite Em, El, call_mark_snoc_call, Hacc. reflexivity.
  - (* release one *)
    destruct (drain tm 1 s []) as [s' done] eqn:Ed. cbn [fst snd].
    destruct (drain_quiet _ _ _ _ _ _ Ed) as (dn & -> & Hq). simpl app.
    destruct (drain_settled _ _ _ _ _ _ HV Hset Ed) as [_ Hs'].
    destruct (quiet_summary _ _ _ Hq _ _ HG) as (G' & _).
    eapply (Fin s [] dn s' HG (eq_sym (app_nil_r _)) eq_refl eq_refl Hq Hs').
    + unfold acc_part. rewrite nonwrite_res by (try apply (good_alive _ _ _ G'); intros; discriminate). now rewrite Hacc.
    + exact Hcall.
  - (* release all *)
    destruct (drain tm (2 * length (q s) + 8) s []) as [s' done] eqn:Ed. cbn [fst snd].
    destruct (drain_quiet _ _ _ _ _ _ Ed) as (dn & -> & Hq). simpl app.
    destruct (drain_settled _ _ _ _ _ _ HV Hset Ed) as [_ Hs'].
    destruct (quiet_summary _ _ _ Hq _ _ HG) as (G' & _).
    eapply (Fin s [] dn s' HG (eq_sym (app_nil_r _)) eq_refl eq_refl Hq Hs').
    + unfold acc_part. rewrite nonwrite_res by (try apply (good_alive _ _ _ G'); intros; discriminate). now rewrite Hacc.
    + exact Hcall.
  - (* tick *)
    assert (Hq : Quiet s [] (settle' tm (sstep s TTick))).
    { change (@nil (list Z)) with (@nil (list Z) ++ []). eapply quiet_trans; [apply sstep_tick_quiet | apply settle'_quiet]. }
    destruct (quiet_summary _ _ _ Hq _ _ HG) as (G' & _).
    eapply (Fin s [] [] _ HG (eq_sym (app_nil_r _)) eq_refl eq_refl Hq).
    + apply settle'_settled. now apply vi_sstep.
    + unfold acc_part. rewrite nonwrite_res by (try apply (good_alive _ _ _ G'); intros; discriminate). now rewrite Hacc.
    + exact Hcall.
  - (* hold *)
    pose proof (settle'_quiet tm s) as Hq.
    destruct (quiet_summary _ _ _ Hq _ _ HG) as (G' & _).
    eapply (Fin s [] [] _ HG (eq_sym (app_nil_r _)) eq_refl eq_refl Hq).
    + now apply settle'_settled.
    + unfold acc_part. rewrite nonwrite_res by (try apply (good_alive _ _ _ G'); intros; discriminate). now rewrite Hacc.
    + exact Hcall.
Qed.

(* ------------------------------------------------------------------------------------------- *)
(* the whole script                                                                            *)
(* ------------------------------------------------------------------------------------------- *)
Lemma replay_ok tm : forall acts s g,
  Rel s g acts -> script_ok_from tm s acts = true ->
  gate_from g (combine acts (model_run tm s acts)) = true.
Proof.
  induction acts as [|a r IH]; intros s g HR Hok; [reflexivity|].
  simpl in Hok. apply andb_true_iff in Hok as [Ha Hr].
  destruct (action_ok tm s g a r HR Ha) as (g' & Eg & HR').
  simpl model_run. destruct (apply_act tm s a) as [s' done] eqn:Ea. cbn [fst snd] in *.
  simpl combine. simpl gate_from. rewrite Eg. now apply IH.
Qed.

Lemma ctl_init_at c cap bsize progs :
  (forall i p, nth_error progs i = Some p ->
     if Nat.eqb i c then ctl_ordered p = true else forallb (fun o => negb (is_ctl o)) p = true) ->
  CtlInv c (init cap bsize progs).
Proof.
  intros Hc. split; simpl; auto.
  - intros i u Hn Hic. rewrite nth_error_map in Hn. destruct (nth_error progs i) as [p|] eqn:Ep; [|discriminate].
    inversion Hn; subst; simpl. specialize (Hc _ _ Ep). destruct (Nat.eqb_spec i c); [contradiction|]. auto.
  - unfold ctl_state. simpl. rewrite nth_error_map. destruct (nth_error progs c) as [p|] eqn:Ep; simpl; auto.
    specialize (Hc _ _ Ep). rewrite Nat.eqb_refl in Hc. auto.
  - intros l1 i k l2 k' f qs b l3 E. exfalso. destruct l1; discriminate.
Qed.

Lemma wprog_no_ctl acts : forallb (fun o => negb (is_ctl o)) (wprog acts) = true.
Proof. induction acts as [|[c|k| | | |] r IH]; simpl; auto. Qed.

Lemma rel_init cap bsize acts :
  0 <= bsize -> ctl_ordered (cprog acts) = true ->
  Rel (init cap bsize (progs_of acts)) {| g_acc := []; g_file := []; g_call := None; g_closed := false |} acts.
Proof.
  intros Hb Hc. split; try reflexivity.
  - split; [split; [apply inv_init|] | exact Hb | reflexivity | exists UIdle; split; [reflexivity | exact I]].
    apply ctl_init_at. intros [|[|i]] p H; simpl in H; try (inversion H; subst; clear H).
    + apply wprog_no_ctl.
    + exact Hc.
    + destruct i; discriminate.
  - split.
    + discriminate.
    + intros _ b. unfold step, cons_step. simpl. destruct b; reflexivity.
Qed.

Theorem model_passes_gate_checker_lemma tm cap bsize acts :
  0 <= bsize -> script_ok tm cap bsize acts = true ->
  C07_check_gate (combine acts (model_run tm (init cap bsize (progs_of acts)) acts)) = true.
Proof.
  intros Hb Hok. unfold script_ok in Hok. apply andb_true_iff in Hok as [Hc Hs].
  unfold C07_check_gate. apply replay_ok; [|exact Hs].
  apply rel_init; [exact Hb | exact Hc].
Qed.

(* the premise is met by a script with Writes (one rejected), Flush, releases, Close *)
Example ex_script : list act :=
  [AW [1;2;3;4;5;6;7;8;9]; AW [10]; AW [11]; AW [12]; ACtl false; AW [13]; ARel; ARel; AW [14]; ACtl true; ADrain].
Example ex_script_ok : script_ok false 2 8 ex_script = true.
Proof. vm_compute. reflexivity. Qed.
Example ex_script_rejects_one :
  map o_res (model_run false (init 2 8 (progs_of ex_script)) ex_script) =
    [RW 9 true; RW 1 true; RW 1 true; RW 0 false; RNone; RW 0 false; RNone; RNone; RW 1 true; RNone; RNone].
Proof. vm_compute. reflexivity. Qed.

(* ------------------------------------------------------------------------------------------- *)
(* the pipe and flush checkers on what the model produces                                      *)
(* ------------------------------------------------------------------------------------------- *)
(* every record program that returned, as (its bytes, returned nil) *)
Fixpoint records_of (lg : list event) : list (list Z * bool) :=
  match lg with
  | [] => []
  | ERec _ ps ok :: r => (concat ps, ok) :: records_of r
  | _ :: r => records_of r
  end.

Lemma records_of_ok lg :
  concat (map fst (filter snd (records_of lg))) = concat (map (@concat Z) (ok_records lg)).
Proof.
  induction lg as [|e lg IH]; [reflexivity|].
  destruct e as [| i ps [|] | | |]; simpl; rewrite ?IH; reflexivity.
Qed.

(* once everything accepted has reached the file (queue and consumer's hands empty, e.g. after Close),
   the file passes the pipe checker with the record results of the history *)
Lemma model_passes_pipe_checker_lemma cap bsize progs sched :
  single_write progs ->
  let s := run st tid step (init cap bsize progs) sched in
  q s = [] -> pend s = [] ->
  C07_check_pipe [] (records_of (log s)) (file s) false = true.
Proof.
  intros Hsw s Hq Hp. unfold C07_check_pipe. simpl. apply zlist_eqb_eq.
  pose proof (whole_records_reachable cap bsize progs sched Hsw) as H. fold s in H.
  unfold stream in H. rewrite Hq, Hp in H. simpl in H. rewrite app_nil_r in H.
  rewrite H. symmetry. apply records_of_ok.
Qed.

(* at every Flush/Close return with nothing accepted meanwhile, the file passes the flush checker:
   it is the concatenation of ALL chunks accepted so far *)
Lemma model_passes_flush_checker_lemma cap bsize progs sched :
  ctl_discipline progs ->
  let s := run st tid step (init cap bsize progs) sched in
  forall l1 i k l2 k' f qs b l3,
    log s = l1 ++ ECall i k :: l2 ++ ERet i k' f qs b :: l3 -> no_event_of i l2 -> accepted l2 = [] ->
    C07_check_flush [] (accepted (log s)) [(Z.of_nat (length (accepted l1)), f)] = true.
Proof.
  intros Hd s l1 i k l2 k' f qs b l3 E Hno Hacc.
  destruct (close_leaves_nothing_reachable cap bsize progs sched Hd _ _ _ _ _ _ _ _ _ E Hno Hacc) as (_ & _ & ->).
  unfold C07_check_flush. simpl. rewrite andb_true_r. apply zlist_eqb_eq. f_equal.
  fold s. rewrite E, accepted_app. unfold zfirstn. rewrite Nat2Z.id.
  rewrite firstn_app, Nat.sub_diag, firstn_all. simpl. now rewrite app_nil_r.
Qed.
