(* C07 — a small interleaving kit.
   A concurrent system is a state type, a type of thread ids and a partial step function
   [step s t = Some s'] (thread t is enabled in s and moves the system to s') or [None] (t is
   blocked / finished).  A schedule is a list of thread ids; scheduling a thread that is not enabled
   is a stutter, so EVERY list is a schedule and "for all schedules" really covers every interleaving
   (including those in which a thread is starved for arbitrarily long stretches). *)
From Coq Require Import List Lia Arith.
Import ListNotations.

Section Conc.
  Variable state : Type.
  Variable tid : Type.
  Variable step : state -> tid -> option state.

  Definition step1 (s : state) (t : tid) : state :=
    match step s t with Some s' => s' | None => s end.

  Fixpoint run (s : state) (sched : list tid) : state :=
    match sched with
    | [] => s
    | t :: rest => run (step1 s t) rest
    end.

  Definition Reachable (s0 s : state) : Prop := exists sched, run s0 sched = s.

  Definition Enabled (s : state) (t : tid) : Prop := step s t <> None.
  Definition Deadlocked (s : state) : Prop := forall t, step s t = None.

  (* an invariant: holds initially and is preserved by every enabled step *)
  Definition Inductive_inv (I : state -> Prop) : Prop :=
    forall s t s', I s -> step s t = Some s' -> I s'.

  Lemma run_app s a b : run s (a ++ b) = run (run s a) b.
  Proof. revert s; induction a as [|t a IH]; intros s; simpl; [reflexivity | apply IH]. Qed.

  Lemma step1_inv (I : state -> Prop) :
    Inductive_inv I -> forall s t, I s -> I (step1 s t).
  Proof.
    intros HI s t Hs. unfold step1. destruct (step s t) eqn:E; [eapply HI; eauto | exact Hs].
  Qed.

  Lemma run_inv (I : state -> Prop) :
    Inductive_inv I -> forall sched s, I s -> I (run s sched).
  Proof.
    intros HI sched; induction sched as [|t r IH]; intros s Hs; simpl; [exact Hs|].
    apply IH. now apply step1_inv.
  Qed.

  Lemma reachable_inv (I : state -> Prop) s0 :
    I s0 -> Inductive_inv I -> forall s, Reachable s0 s -> I s.
  Proof. intros H0 HI s [sched <-]. now apply run_inv. Qed.

  Lemma reachable_refl s : Reachable s s.
  Proof. exists []; reflexivity. Qed.

  Lemma reachable_step s0 s t : Reachable s0 s -> Reachable s0 (step1 s t).
  Proof.
    intros [sched <-]. exists (sched ++ [t]). rewrite run_app. reflexivity.
  Qed.

  Lemma reachable_trans s0 s1 s2 : Reachable s0 s1 -> Reachable s1 s2 -> Reachable s0 s2.
  Proof. intros [a <-] [b <-]. exists (a ++ b). apply run_app. Qed.

  (* ---- bounded work: a variant that (on states satisfying an inductive invariant I) every effective
          "working" step decreases and every other step raises by at most K bounds the number of working
          steps of ANY schedule ---- *)
  Variable working : tid -> bool.
  Variable V : state -> nat.
  Variable K : nat.
  Variable I : state -> Prop.

  (* number of effective (enabled) working steps taken along a schedule *)
  Fixpoint work_steps (s : state) (sched : list tid) : nat :=
    match sched with
    | [] => 0
    | t :: rest =>
        (match step s t with Some _ => if working t then 1 else 0 | None => 0 end)
        + work_steps (step1 s t) rest
    end.

  Fixpoint other_steps (sched : list tid) : nat :=
    match sched with
    | [] => 0
    | t :: rest => (if working t then 0 else 1) + other_steps rest
    end.

  Hypothesis I_inductive : Inductive_inv I.
  Hypothesis working_decreases :
    forall s t s', I s -> step s t = Some s' -> working t = true -> V s' < V s.
  Hypothesis other_bounded :
    forall s t s', I s -> step s t = Some s' -> working t = false -> V s' <= V s + K.

  Lemma bounded_work : forall sched s, I s ->
    work_steps s sched + V (run s sched) <= V s + K * other_steps sched.
  Proof.
    induction sched as [|t r IH]; intros s Hs; simpl; [lia|].
    pose proof (step1_inv I I_inductive s t Hs) as Hs'.
    specialize (IH (step1 s t) Hs'). unfold step1 in *.
    destruct (step s t) as [s'|] eqn:E.
    - destruct (working t) eqn:W.
      + pose proof (working_decreases _ _ _ Hs E W). lia.
      + pose proof (other_bounded _ _ _ Hs E W). lia.
    - destruct (working t); lia.
  Qed.
End Conc.
