(* C10 — the property at the RPC entry points, as a checker over observables only. *)
From Coq Require Import List Arith Bool.
From Dastard Require Import C10.Conc C10.RpcModel.
Import ListNotations.

(* ---------- the same property at the RPC entry points (SourceControl.Start / Stop) ----------
   Observables: the history of calls a client made (with the moments at which the harness let a self-ending
   source end its run), the return class of every call, and at the end the server's own flag and whether the
   source object is really active. *)
Record robs := mkRobs {
  ro_ops : list rop;
  ro_classes : list rc;        (* one per RStart / RStop that returned, in order *)
  ro_crashed : bool;
  ro_flag : bool;              (* SourceControl's isSourceActive at the end *)
  ro_active : bool }.          (* the source object selected last is Active at the end *)

(* after_stop: the last call was a Stop (that returned, with whatever result);
   started: the last call that changed anything was a successful Start of that kind *)
Fixpoint rpc_walk (after_stop : bool) (started : option rsrc) (h : list rop) (rs : list rc) : bool :=
  match h with
  | [] => match rs with [] => true | _ => false end
  | RSelfEnd :: rest => rpc_walk after_stop started rest rs
  | RStart k :: rest =>
      match rs with
      | r :: rs' =>
          (* once Stop has returned, the source is inactive and can be started again *)
          (if after_stop then rc_eqb r ROk else true)
          (* a source is started only when inactive (a kind that may have ended by itself is not judged) *)
          && (match started with
              | Some k0 => if self_ends k0 then true else rc_eqb r RErr
              | None => true
              end)
          && rpc_walk false (match r with ROk => Some k | RErr => started end) rest rs'
      | [] => false                                   (* the call never returned *)
      end
  | RStop :: rest =>
      match rs with
      | _ :: rs' => rpc_walk true None rest rs'       (* every Stop returns *)
      | [] => false
      end
  | RReq :: rest =>
      match rs with
      | r :: rs' =>                                   (* every request returns (its class is C11's subject); an error
                                                         reply to a valid request means that nothing runs any more *)
          rpc_walk after_stop (match r with RErr => None | ROk => started end) rest rs'
      | [] => false
      end
  end.

(* the last call of the history (self-endings are not calls) *)
Fixpoint last_call (h : list rop) (acc : option rop) : option rop :=
  match h with
  | [] => acc
  | RSelfEnd :: rest => last_call rest acc
  | o :: rest => last_call rest (Some o)
  end.
Definition ends_with_stop (h : list rop) : bool :=
  match last_call h None with Some RStop => true | _ => false end.

Definition C10_rpc_check (o : robs) : bool :=
  negb (ro_crashed o)
  && rpc_walk false None (ro_ops o) (ro_classes o)
  && (if ends_with_stop (ro_ops o) then negb (ro_flag o) && negb (ro_active o) else true).
