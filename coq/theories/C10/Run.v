(* C10 — evaluation of generated cases: does the model accept the trace recorded on the implementation
   (trace inclusion, implementation ⊆ model, by subset simulation over silent-step closures), and does
   the observable checker accept it.  Evaluated by vm_compute in generated shard files. *)
From Coq Require Import List Arith Bool ZArith.
From Dastard Require Import Common.CaseLib C10.Conc C10.Model C10.Spec C10.RpcModel C10.RpcSpec.
Import ListNotations.
Open Scope nat_scope.

(* ---- decidable equality on states, by encoding into lists of numbers ---- *)
Definition enc_sst (x : sstate) : nat := match x with Inactive => 0 | Starting => 1 | Active => 2 | Stopping => 3 end.
Definition enc_chan (x : chan) : nat := match x with ChNil => 0 | ChOpen => 1 | ChClosed => 2 end.
Definition enc_b (b : bool) : nat := if b then 1 else 0.
Definition enc_spt (p : spt) : nat := match p with SP1 => 1 | SP2 => 2 | SP3 => 3 | SP4 => 4 | SP5 => 5 | SP6 => 6 end.
Definition enc_rc (r : rc) : nat := match r with ROk => 0 | RErr => 1 end.
Definition enc_starter (x : starter_pc) : nat :=
  match x with
  | StIdle => 0 | StAt p => 10 + enc_spt p | StDo p => 20 + enc_spt p | StAtRD => 1 | StDoRD => 2
  | StRet r => 30 + enc_rc r | StDone r => 40 + enc_rc r
  end.
Definition enc_core (x : core_pc) : nat :=
  match x with CNone => 0 | CAtSel => 1 | CSel => 2 | CProc => 3 | CAtBlk => 4 | CAtRet => 5 | CAtRD => 6 | CDoRD => 7 | CDone => 8 end.
Definition enc_prod (x : prod_pc) : nat :=
  match x with PNone => 0 | PLoop => 1 | PSend BNormal => 2 | PSend BErr => 3 | PDone => 4 | PClosing => 5 end.
Definition enc_stops (m : stops) : list nat :=
  [n_idle m; n_locked m; n_switch m; n_atabort m; n_wait m; n_atwaited m; n_post m; n_atret m;
   n_ret_ok m; n_ret_err m; n_done_ok m; n_done_err m].
Definition encode (s : state) : list nat :=
  [enc_sst (sst s); enc_b (lock s); enc_chan (abort s); enc_chan (nb s); rd s; enc_b (dev s);
   enc_b (adapter s); enc_b (writing s); enc_b (delivered s); budget s; enc_starter (starter s);
   enc_core (core s); enc_prod (prod s); enc_b (crashed s)] ++ enc_stops (st s).

Fixpoint nlist_eqb (a b : list nat) : bool :=
  match a, b with
  | [], [] => true
  | x :: a', y :: b' => (x =? y) && nlist_eqb a' b'
  | _, _ => false
  end.
Definition state_eqb (a b : state) : bool := nlist_eqb (encode a) (encode b).

Definition add_new (x : state) (l : list state) : list state :=
  if existsb (state_eqb x) l then l else x :: l.
Definition union (a b : list state) : list state := fold_right add_new b a.

(* successors of s through silent steps / through steps labelled l *)
Definition succ_tau (c : cfg) (s : state) : list state :=
  flat_map (fun t => match label_of s t, step c s t with
                     | None, Some s' => [s']
                     | _, _ => []
                     end) all_tids.
Definition succ_lab (c : cfg) (l : label) (s : state) : list state :=
  flat_map (fun t => match label_of s t, step c s t with
                     | Some l', Some s' => if label_eqb l l' then [s'] else []
                     | _, _ => []
                     end) all_tids.

(* closure under silent steps (breadth first; the silent-step graph of a case is finite; fuel bounds the rounds) *)
Fixpoint tau_closure (fuel : nat) (c : cfg) (frontier seen : list state) : list state :=
  match fuel with
  | O => seen
  | S f =>
      let next := fold_right (fun s acc => fold_right (fun x acc' =>
                      if existsb (state_eqb x) seen || existsb (state_eqb x) acc' then acc' else x :: acc')
                      acc (succ_tau c s)) [] frontier in
      match next with
      | [] => seen
      | _ => tau_closure f c next (next ++ seen)
      end
  end.
Definition closure (c : cfg) (ss : list state) : list state := tau_closure 200 c ss ss.

Definition second_start_result (s : state) : option rc :=
  (* Start() on a source that is not Inactive is refused by SetStateStarting and changes nothing;
     the harness issues it only while the first Start is in force *)
  if lock s then None else match sst s with Inactive => None | _ => Some RErr end.

Definition after_event (c : cfg) (ss : list state) (e : event) : list state :=
  let C := closure c ss in
  match e with
  | EL l => fold_right (fun s acc => union (succ_lab c l s) acc) [] C
  | EObsState v => filter (fun s => negb (lock s) && sstate_eqb (sst s) v) C
  | EObsStart2 r => filter (fun s => match second_start_result s with Some r' => rc_eqb r r' | None => false end) C
  end.

(* index of the first event the model cannot follow, or -1 *)
Fixpoint follow (c : cfg) (ss : list state) (es : list event) (i : Z) : list state * Z :=
  match es with
  | [] => (ss, (-1)%Z)
  | e :: rest => match after_event c ss e with
                 | [] => ([], i)
                 | x :: S' => follow c (x :: S') rest (i + 1)%Z
                 end
  end.

Definition final_matches (n : nat) (o : obs) (s : state) : bool :=
  let f := o_final o in
  sstate_eqb (sst s) (f_state f)
  && Bool.eqb (workers_exited s) (f_workers_exited f)
  && Bool.eqb (writing s) (f_writing f)
  && Bool.eqb (dev s) (f_dev_open f)
  && Bool.eqb (adapter s) (f_adapter_on f)
  && (negb (f_delivered f) || delivered s)
  (* a later Start succeeds iff nothing is left held once the source is inactive (an active source is
     stopped by the harness first, which releases its hardware) *)
  && Bool.eqb (f_restart_ok f) (match sst s with Inactive => negb (dev s) && negb (adapter s) | _ => true end)
  (* the model has no state in which a call stays blocked for ever: every launched call has returned *)
  && starter_done s && stoppers_done n s && negb (crashed s).

(* a case is either a life-cycle trace (Start / CoreLoop / Stop of a source object under the scheduler) or a
   history of calls through the RPC entry points (SourceControl.Start / Stop) *)
Record lcase := mkCase { k_fault : fault; k_write : bool; k_obs : obs }.

Definition case_cfg (k : lcase) : cfg := mkCfg (o_kind (k_obs k)) (k_fault k) (k_write k) true false.

Definition accepts (k : lcase) : bool * Z :=
  let o := k_obs k in
  let c := case_cfg k in
  let '(ss, i) := follow c [init_state (o_n o) 0] (o_events o) 0%Z in
  if (i =? -1)%Z
  then if o_start_returned o && (o_stops_returned o =? o_n o) && negb (o_crashed o)
          && existsb (final_matches (o_n o) o) (closure c ss)
       then (true, (-1)%Z) else (false, Z.of_nat (length (o_events o)))
  else (false, i).

Definition lverdict (k : lcase) : Z * Z :=
  let '(a, i) := accepts k in
  (verdict_code a (C10_check (k_obs k)), i).

(* RPC histories: the model is sequential and deterministic, so "accepts" is equality of the return classes
   and of the final readings (whether a self-ending source is still alive at the end is not compared) *)
Fixpoint rcs_first_diff (i : Z) (a b : list rc) : Z :=
  match a, b with
  | [], [] => (-1)%Z
  | x :: a', y :: b' => if rc_eqb x y then rcs_first_diff (i + 1)%Z a' b' else i
  | _, _ => i
  end.

Definition rpc_verdict (o : robs) : Z * Z :=
  let (s, rs) := rpc_run rpc_init (ro_ops o) in
  let d := rcs_first_diff 0%Z (ro_classes o) rs in
  let fin_ok :=
    Bool.eqb (ro_flag o) (r_flag s)
    && match r_run s with
       | RunNone | RunDead => negb (ro_active o)
       | RunLive k => if self_ends k then true else ro_active o
       end
    && negb (ro_crashed o) in
  (verdict_code ((d =? -1)%Z && fin_ok) (C10_rpc_check o),
   if (d =? -1)%Z then (if fin_ok then (-1)%Z else Z.of_nat (length (ro_classes o))) else d).

Inductive case := CLife (k : lcase) | CRpc (o : robs).

Definition verdict (c : case) : Z * Z :=
  match c with
  | CLife k => lverdict k
  | CRpc o => rpc_verdict o
  end.

(* compact constructors for generated files *)
Definition pt (p : point) : event := EL (LPt p).
Definition ret (c : call) (r : rc) : event := EL (LRet c r).
Definition mk (kd : kind) (fl : fault) (wr : bool) (n : nat) (es : list event)
              (sr : bool) (nr : nat) (cr : bool) (f : final) : case :=
  CLife (mkCase fl wr (mkObs kd n es sr nr cr f)).
Definition mkrpc (h : list rop) (rs : list rc) (cr fl ac : bool) : case := CRpc (mkRobs h rs cr fl ac).
