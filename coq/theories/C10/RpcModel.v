(* C10 — the RPC layer on top of the life cycle (definitions only): SourceControl.Start / Stop /
   handlePossibleStoppedSource of /repo/rpc_server.go, i.e. the entry points through which a client
   starts and stops sources, with the server's own flag isSourceActive, which is refreshed only where the
   code refreshes it.  The source underneath is abstracted to what stop_postcondition / stop_restartable
   (Properties.v) establish about it: AnySource.Stop returns, and when it has returned the source is
   Inactive and can be started again; a source of a self-ending kind may become Inactive by itself. *)
From Coq Require Import List Bool.
From Dastard Require Import C10.Conc.
Import ListNotations.

Inductive rsrc := RTriangle | RSimPulse | RErroring | RLancero.   (* sources a client can name in Start *)
Inductive rop :=
| RStart (k : rsrc)        (* SourceControl.Start *)
| RSelfEnd                 (* the running source ends its run by itself (nobody tells the server) *)
| RStop                    (* SourceControl.Stop *)
| RReq.                    (* a queued control request with valid arguments (ConfigureTriggers); before it is sent a
                              source of a self-ending kind is given the time to end its run *)

Inductive rrun := RunNone | RunLive (k : rsrc) | RunDead.   (* the real source: inactive / active / ended by itself *)
Record rstate := mkR { r_flag : bool; r_run : rrun }.        (* r_flag = s.isSourceActive *)

Definition self_ends (k : rsrc) : bool := match k with RErroring => true | _ => false end.

Definition rpc_step (s : rstate) (o : rop) : rstate * option rc :=
  match o with
  | RStart k =>
      (* refused when the server believes a source is active (the flag is NOT refreshed here) *)
      if r_flag s then (s, Some RErr) else (mkR true (RunLive k), Some ROk)
  | RSelfEnd =>
      (match r_run s with
       | RunLive k => if self_ends k then mkR (r_flag s) RunDead else s
       | _ => s
       end, None)
  | RStop =>
      (* "no source is active" when the flag is down; otherwise ActiveSource.Stop() (its error, if the source
         had ended by itself, is ignored), then handlePossibleStoppedSource brings the flag down *)
      if negb (r_flag s) then (s, Some RErr) else (mkR false RunNone, Some ROk)
  | RReq =>
      (* runLaterIfActive refreshes the flag first: answered by the core loop of a live source, refused otherwise *)
      if negb (r_flag s) then (s, Some RErr)
      else match r_run s with
           | RunLive k => if self_ends k then (mkR false RunNone, Some RErr) else (s, Some ROk)
           | _ => (mkR false RunNone, Some RErr)
           end
  end.

Fixpoint rpc_run (s : rstate) (h : list rop) : rstate * list rc :=
  match h with
  | [] => (s, [])
  | o :: rest =>
      let (s1, r) := rpc_step s o in
      let (s2, rs) := rpc_run s1 rest in
      (s2, match r with Some c => c :: rs | None => rs end)
  end.

Definition rpc_init : rstate := mkR false RunNone.
