(* C10 — the property as a boolean checker over OBSERVABLES only: what the harness gave the source
   (kind, number of concurrent Stop callers) and what it saw (the sequence of released
   synchronisation points and call returns, GetState() readings, the final readings).
   Nothing in this file calls the model; it only reuses its vocabulary (sstate, kind, labels). *)
From Coq Require Import List Arith Lia Bool.
From Dastard Require Import C10.Conc C10.Model.
Import ListNotations.

Inductive event :=
| EL (l : label)              (* a parked goroutine was released from a point / a call returned *)
| EObsState (v : sstate)      (* GetState() read by the harness at that moment *)
| EObsStart2 (r : rc).        (* result of a further Start() issued while the first one is in force *)

(* readings taken when everything has come to rest (after all launched calls returned) *)
Record final := mkFinal {
  f_state : sstate;           (* GetState() *)
  f_workers_exited : bool;    (* goroutine census: no core loop / producer / reader goroutine left *)
  f_writing : bool;           (* WritingIsActive() *)
  f_dev_open : bool;          (* Abaco devices still open (scripted producer: starts > stops; UDP: port bound) *)
  f_adapter_on : bool;        (* Lancero adapter or collector still running *)
  f_delivered : bool;         (* at least one block went through ProcessSegments *)
  f_restart_ok : bool }.      (* configuring and starting the same source object again succeeds *)

Record obs := mkObs {
  o_kind : kind;
  o_n : nat;                  (* Stop callers launched *)
  o_events : list event;
  o_start_returned : bool;    (* false: the Start call never returned (watchdog) *)
  o_stops_returned : nat;     (* how many Stop calls returned *)
  o_crashed : bool;           (* the process died / a goroutine panicked *)
  o_final : final }.

Definition self_terminating (k : kind) : bool :=
  match k with KErr | KAbaco => true | _ => false end.

Definition sstate_eqb (a b : sstate) : bool :=
  match a, b with
  | Inactive, Inactive | Starting, Starting | Active, Active | Stopping, Stopping => true
  | _, _ => false
  end.

Fixpoint rets (c : call) (es : list event) : list rc :=
  match es with
  | [] => []
  | EL (LRet d r) :: rest => if call_eqb c d then r :: rets c rest else rets c rest
  | _ :: rest => rets c rest
  end.

Fixpoint start2s (es : list event) : list rc :=
  match es with
  | [] => []
  | EObsStart2 r :: rest => r :: start2s rest
  | _ :: rest => start2s rest
  end.

(* the GetState() reading that directly follows the successful return of Start, if any *)
Fixpoint state_after_start (es : list event) : option sstate :=
  match es with
  | EL (LRet CallStart ROk) :: EObsState v :: _ => Some v
  | _ :: rest => state_after_start rest
  | [] => None
  end.

Definition clean (f : final) : bool :=
  sstate_eqb (f_state f) Inactive && f_workers_exited f && negb (f_dev_open f) && negb (f_adapter_on f)
  && f_restart_ok f.

Definition C10_check (o : obs) : bool :=
  let f := o_final o in
  negb (o_crashed o)
  (* every call returned, each exactly once *)
  && o_start_returned o && (length (rets CallStart (o_events o)) =? 1)
  && (o_stops_returned o =? o_n o) && (length (rets CallStop (o_events o)) =? o_n o)
  (* a source is started only when inactive *)
  && forallb (fun r => rc_eqb r RErr) (start2s (o_events o))
  (* once Start succeeds the source is active (unless it is of a kind that may end by itself) *)
  && match state_after_start (o_events o) with
     | Some v => sstate_eqb v Active || (self_terminating (o_kind o) && sstate_eqb v Inactive)
     | None => true
     end
  && match rets CallStart (o_events o) with
     | [RErr] =>
         (* a failed Start leaves the source inactive, with nothing held, and startable *)
         clean f
     | [ROk] =>
         if 0 <? o_n o
         then (* all Stop calls have returned: inactive, workers gone, writing stopped, restartable *)
              clean f && negb (f_writing f)
         else (* nobody stopped it: if it is still active it delivers blocks *)
              (negb (sstate_eqb (f_state f) Active) || f_delivered f) && f_restart_ok f
     | _ => false
     end.

(* ---------- Prop-level statements used by the theorems (over the model's state) ---------- *)

Definition resources_clear (s : state) : Prop := dev s = false /\ adapter s = false.
