(* C10 — property theorems only: each closed by [exact], each followed by Print Assumptions.
   Everything is stated over the interleaving model of Model.v: [step c s t] is the step of action t in
   state s under configuration c (source kind, fault injected into Start, fixed/old code, fairness),
   [Reachable (step c) (Initial n B) s] ranges over EVERY schedule from every initial state with n Stop
   callers (any n) and budget B. *)
From Coq Require Import List Arith Lia Bool.
From Dastard Require Import C10.Conc C10.Model C10.Spec C10.Proofs C10.Proofs2 C10.Variant C10.Variant2 C10.Release C10.RpcModel C10.RpcSpec C10.RpcProofs.
Import ListNotations.

(* In every reachable state: nothing has crashed; Active implies the run-done counter is 1 and the core
   loop has not finished (and exists once Start has returned); a finished core loop implies Inactive
   with counter 0; at most one Stop caller is on the waiting path; the lock is held exactly when one
   caller is inside Stop's critical section; the counter never exceeds 1. *)
Theorem lifecycle_invariants :
  forall n B c s, Reachable (step c) (Initial n B) s ->
    crashed s = false /\
    (sst s = Active -> rd s = 1 /\ core s <> CDone /\ (starter s = StDone ROk -> core s <> CNone)) /\
    (core s = CDone -> sst s = Inactive /\ rd s = 0) /\
    mainp (st s) <= 1 /\
    (lock s = true <-> inlock (st s) = 1) /\
    rd s <= 1.
Proof. exact lifecycle_inv. Qed.
Print Assumptions lifecycle_invariants.

(* Start takes its first step only from Inactive (from ANY state, reachable or not): otherwise it
   returns an error and changes nothing. *)
Theorem start_only_inactive :
  forall c s s', starter s = StIdle -> step c s TStarter = Some s' ->
    (sst s = Inactive /\ sst s' = Starting /\ starter s' = StAt SP1)
    \/ (sst s <> Inactive /\ starter s' = StRet RErr /\ sst s' = sst s /\ rd s' = rd s /\ core s' = core s /\ prod s' = prod s).
Proof. exact start_first_step. Qed.
Print Assumptions start_only_inactive.

(* ... and the step with which Start succeeds leaves the source Active, counter 1, core loop spawned,
   producer running. *)
Theorem start_success_is_active :
  forall n B c s s', Reachable (step c) (Initial n B) s -> starter s = StDo SP6 -> step c s TStarter = Some s' ->
    starter s' = StRet ROk /\ sst s' = Active /\ rd s' = 1 /\ core s' = CAtSel /\ prod s' <> PNone.
Proof. exact start_success_step. Qed.
Print Assumptions start_success_is_active.

(* Once Start and all n >= 1 Stop calls have returned (whatever the schedule, whatever ended the run):
   Inactive, core loop and producer finished, writing stopped, nothing held, lock free, counter 0. *)
Theorem stop_postcondition :
  forall n B c s, Reachable (step c) (Initial n B) s -> c_fixed c = true -> 1 <= n ->
    starter_done s = true -> stoppers_done n s = true ->
    sst s = Inactive /\ workers_exited s = true /\ writing s = false /\ dev s = false /\ adapter s = false
    /\ lock s = false /\ rd s = 0.
Proof. exact stop_post. Qed.
Print Assumptions stop_postcondition.

(* ... and the same source object is then as good as new: with a new Start call, any number m of new
   Stop callers and a new budget it is again an Initial state, so every theorem here applies to the next
   cycle (any number of cycles).  Also after a failed Start (n may be 0 then). *)
Theorem stop_restartable :
  forall n B c s m B', Reachable (step c) (Initial n B) s -> c_fixed c = true ->
    starter_done s = true -> stoppers_done n s = true ->
    (1 <= n \/ exists r, starter s = StDone r /\ r = RErr) ->
    Initial m B' (rearm m B' s).
Proof. exact restartable. Qed.
Print Assumptions stop_restartable.

(* No reachable state is deadlocked: some action is enabled unless every thread has finished. *)
Theorem no_deadlock :
  forall n B c s, Reachable (step c) (Initial n B) s ->
    (exists t s', step c s t = Some s') \/ finished n s = true.
Proof. exact no_deadlock_reach. Qed.
Print Assumptions no_deadlock.

(* A Start that fails at any step (any fault, any source kind) leaves the source Inactive, with no
   device open, no adapter running, no worker, counter 0. *)
Theorem failed_start_releases :
  forall n B c s, Reachable (step c) (Initial n B) s -> c_fixed c = true ->
    (starter s = StRet RErr \/ starter s = StDone RErr) ->
    sst s = Inactive /\ dev s = false /\ adapter s = false /\ core s = CNone /\ prod s = PNone /\ rd s = 0 /\ writing s = false.
Proof. exact failed_start. Qed.
Print Assumptions failed_start_releases.

(* The code before the fix: Abaco with no data arriving yet — Start fails in PrepareRun and the devices
   opened by Sample stay open. *)
Theorem failed_start_releases_refuted_pre_fix :
  exists s, run (step (mkCfg KAbaco FPrepare false false false)) (init_state 0 0) (repeat TStarter 8) = Some s
            /\ starter s = StDone RErr /\ sst s = Inactive /\ dev s = true.
Proof. exact failed_start_old_leaks. Qed.
Print Assumptions failed_start_releases_refuted_pre_fix.

(* Every Stop returns within a bound.  For every number n of Stop callers, every budget B (the fairness
   assumption made explicit: the blocks the producer may still emit after abortSelf is closed before its
   select takes the abort case) and EVERY schedule: the number of counted steps is at most
   10 n + 6 B + 35, where the only steps not counted are steps of the core loop and the producer inside
   the steady data-flow cycle (no stop signalled, source healthy) ... *)
Theorem stop_returns :
  forall n B c s0 sched s, c_fair c = true -> Initial n B s0 -> run (step c) s0 sched = Some s ->
    count_steps (step c) (counted c) s0 sched <= 10 * n + 6 * B + 35.
Proof. exact counted_steps_bounded. Qed.
Print Assumptions stop_returns.

(* ... once the stop signal is out every step of every thread counts, and the steps of the callers of
   Start and Stop always count; so from the moment any Stop has closed abortSelf the whole system can take
   at most that many further steps, and by no_deadlock it can stop only when every call has returned. *)
Theorem stop_returns_every_step_counts :
  forall c s t s', step c s t = Some s' ->
    (abort s = ChClosed -> counted c s t = true) /\ (flow_tid t = false -> counted c s t = true).
Proof. exact every_step_counts. Qed.
Print Assumptions stop_returns_every_step_counts.

(* Release before close.  The producer's shutdown is two steps of the model (give the hardware back; then
   close nextBlock), so this is a fact about interleavings: whenever nextBlock is closed after a successful Start,
   whenever the core loop is on its way out, and whenever a Stop caller is past its wait (i.e. at the moment the
   Stop that did the stopping returns), the devices are closed and the adapter is stopped. *)
Theorem release_before_close :
  forall n B c s, Reachable (step c) (Initial n B) s ->
    (nb s = ChClosed -> starter s = StDone ROk -> dev s = false /\ adapter s = false)
    /\ (core_exiting (core s) -> dev s = false /\ adapter s = false)
    /\ (0 < n_atwaited (st s) + n_post (st s) + n_atret (st s) -> dev s = false /\ adapter s = false).
Proof. exact closed_before_release. Qed.
Print Assumptions release_before_close.

(* ---------- the same at the RPC entry points (SourceControl.Start / Stop, model RpcModel.v) ----------
   The source underneath is what the theorems above establish: AnySource.Stop returns and leaves the source
   Inactive and restartable; a source of a self-ending kind may become Inactive at any moment without the
   server being told.  For EVERY history of Start / Stop calls and self-endings: *)

(* once a Stop call has returned (with whatever result), the server's own flag is down and no source runs ... *)
Theorem rpc_stop_postcondition :
  forall h, let s' := fst (rpc_run rpc_init (h ++ [RStop])) in r_flag s' = false /\ r_run s' = RunNone.
Proof. exact rpc_stop_post. Qed.
Print Assumptions rpc_stop_postcondition.

(* ... and the next Start, of any source, is accepted (also when the stopped source had ended by itself before
   the Stop arrived, and after a repeated Stop). *)
Theorem rpc_stop_restartable :
  forall h k, exists rs, snd (rpc_run rpc_init (h ++ [RStop; RStart k])) = rs ++ [ROk].
Proof. exact rpc_restart. Qed.
Print Assumptions rpc_stop_restartable.

(* The model's answers pass the observable checker C10_rpc_check (every call returns; a Start right after a
   Stop succeeds; a Start while a non-self-ending source runs is refused; after a final Stop the flag is
   down and nothing is active), for every history. *)
Theorem rpc_refines_checker :
  forall h, C10_rpc_check (mkRobs h (snd (rpc_run rpc_init h)) false (r_flag (fst (rpc_run rpc_init h)))
                                  (is_live (fst (rpc_run rpc_init h)))) = true.
Proof. exact rpc_model_passes_checker. Qed.
Print Assumptions rpc_refines_checker.
