(* C10 property theorems *)
