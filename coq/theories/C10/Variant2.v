(* C10 — the step bound behind stop_returns. *)
From Coq Require Import List Arith Lia Bool ZifyBool ZifyNat.
From Dastard Require Import C10.Conc C10.Model C10.Spec C10.Proofs C10.Proofs2 C10.Variant.
Import ListNotations.

Lemma mu_step_stop n c s a s' :
  Inv n c s -> step c s (TStop a) = Some s' -> mu c s' < mu c s.
Proof.
  intros HI Hs. pose proof (stop_needs_starter_done _ _ _ _ _ HI Hs) as Hdone.
  destruct HI as [Hc Ht Hl Hm Hi Hd Ha Hp]. open_state s.
  cbn in Hdone. destruct starter0; try discriminate Hdone. clear Hdone Hi.
  destruct c as [k f w fx fr].
  unfold step in Hs; cbn in Hc; subst crashed0; cbn [crashed] in Hs;
    unfold step_stop, move, starter_done in Hs; cbn -[Nat.ltb Nat.eqb] in *.
  destruct a; destr_match Hs; inv_hyps; guards; st_simpl; cbn -[Nat.ltb Nat.eqb] in *; try contradiction; try discriminate.
  all: unfold mu, w_stops; cbn [st starter set_st set_lock set_sst set_abort set_writing set_crashed n_idle n_locked n_switch n_atabort n_wait n_atwaited n_post n_atret n_ret_ok n_ret_err n_done_ok n_done_err w_starter].
  all: try (unfold w_run, steadyb; cbn [prod core abort budget set_st set_lock set_sst set_abort set_writing]; lia).
  - (* Stop on a Starting source: excluded by the invariant once Start has returned *)
    exfalso. destruct r; cbn in Hp; unfold sst_facts in Hp; cbn in Hp; inv_hyps; try contradiction; discriminate.
  - (* the main path: abort is closed, the steady phase (if any) ends *)
    destruct r; cbn in Hp; unfold core_facts, sst_facts, prod_facts, core_exiting in Hp; cbn in Hp; inv_hyps; try discriminate.
    unfold w_run, steadyb; cbn.
    destruct prod0 as [| |[|]| |]; cbn in *; try contradiction;
      destruct core0; cbn in *; inv_hyps; try contradiction; try discriminate;
      destruct k; cbn in *; inv_hyps; try subst abort0; cbn in *; try contradiction; try discriminate; try congruence; try lia.
Qed.


Lemma mu_step n c s t s' :
  c_fair c = true -> Inv n c s -> step c s t = Some s' -> mu_ok c s t s'.
Proof.
  intros Hf HI Hs. destruct t.
  - pose proof (mu_step_starter _ _ _ _ HI Hs). unfold mu_ok; split; intros; lia.
  - eapply mu_step_core; eassumption.
  - eapply mu_step_prod; eassumption.
  - pose proof (mu_step_stop _ _ _ _ _ HI Hs). unfold mu_ok; split; intros; lia.
Qed.

Lemma mu_initial n B c s : Initial n B s -> mu c s = 10 * n + 6 * B + 35.
Proof. intros (a & b & d & ->). unfold mu, w_run, w_stops. cbn. lia. Qed.

(* along EVERY schedule the number of counted steps never exceeds the bound *)
Lemma counted_steps_bounded n B c s0 sched s :
  c_fair c = true -> Initial n B s0 -> run (step c) s0 sched = Some s ->
  count_steps (step c) (counted c) s0 sched <= 10 * n + 6 * B + 35.
Proof.
  intros Hf H0 Hr.
  pose proof (variant_bound state tid (step c) (Inv n c) (mu c) (counted c)
                (fun s t s' HI Hs => inv_step n c s t s' HI Hs)
                (fun s t s' HI Hs Hc => proj1 (mu_step n c s t s' Hf HI Hs) Hc)
                (fun s t s' HI Hs Hc => proj2 (mu_step n c s t s' Hf HI Hs) Hc)
                sched s0 s (inv_initial n B c s0 H0) Hr) as Hb.
  rewrite (mu_initial n B c s0 H0) in Hb. lia.
Qed.

(* once the stop signal is out (abortSelf closed), every step of every thread counts *)
Lemma after_abort_all_count c s t s' :
  abort s = ChClosed -> step c s t = Some s' -> counted c s t = true.
Proof.
  intros Ha Hs. unfold counted. rewrite Hs. unfold steadyb. rewrite Ha. cbn.
  rewrite andb_false_r. reflexivity.
Qed.

(* ... and so does every step of a Start or Stop caller, always *)
Lemma caller_steps_count c s t s' :
  flow_tid t = false -> step c s t = Some s' -> counted c s t = true.
Proof. intros Hf Hs. unfold counted. rewrite Hs, Hf. reflexivity. Qed.

Lemma every_step_counts c s t s' :
  step c s t = Some s' ->
  (abort s = ChClosed -> counted c s t = true) /\ (flow_tid t = false -> counted c s t = true).
Proof.
  intros Hs. split; intros H; [eapply after_abort_all_count | eapply caller_steps_count]; eassumption.
Qed.
