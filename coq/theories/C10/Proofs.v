(* C10 — invariants and proofs about the life-cycle model. *)
From Coq Require Import List Arith Lia Bool ZifyBool ZifyNat.
From Dastard Require Import C10.Conc C10.Model C10.Spec.
Import ListNotations.

(* ---------- counting the Stop callers ---------- *)
Definition total (m : stops) : nat :=
  n_idle m + n_locked m + n_switch m + n_atabort m + n_wait m + n_atwaited m + n_post m + n_atret m
  + n_ret_ok m + n_ret_err m + n_done_ok m + n_done_err m.
(* callers that have passed the state switch of Stop *)
Definition past (m : stops) : nat :=
  n_atabort m + n_wait m + n_atwaited m + n_post m + n_atret m + n_ret_ok m + n_ret_err m + n_done_ok m + n_done_err m.
(* callers on the main path of Stop (they found the source Active) that have not returned yet *)
Definition mainp (m : stops) : nat := n_atabort m + n_wait m + n_atwaited m + n_post m + n_atret m.
Definition inlock (m : stops) : nat := n_locked m + n_switch m + n_atabort m.

Definition core_exiting (k : core_pc) : Prop :=
  match k with CAtRet | CAtRD | CDoRD | CDone => True | _ => False end.

(* facts per core-loop location, once Start has succeeded *)
Definition core_facts (c : cfg) (s : state) : Prop :=
  match core s with
  | CNone => False
  | CAtSel | CSel | CProc | CAtBlk => rd s = 1 /\ (sst s = Active \/ sst s = Stopping)
  | CAtRet => rd s = 1 /\ (sst s = Active \/ sst s = Stopping) /\ prod s = PDone
  | CAtRD | CDoRD => rd s = 1 /\ (sst s = Active \/ sst s = Stopping) /\ prod s = PDone
                     /\ (c_fixed c = true -> writing s = false)
  | CDone => rd s = 0 /\ sst s = Inactive /\ prod s = PDone /\ (c_fixed c = true -> writing s = false)
  end.

(* facts per source state, once Start has returned *)
Definition sst_facts (s : state) : Prop :=
  let m := st s in
  match sst s with
  | Starting => False
  | Active => past m = 0 /\ abort s = ChOpen
  | Stopping => abort s = ChClosed /\ n_atabort m + n_wait m = 1 /\ n_atwaited m + n_post m + n_atret m = 0
  | Inactive => n_atabort m = 0
  end.

(* facts per producer location, once StartRun has succeeded *)
Definition prod_facts (c : cfg) (s : state) : Prop :=
  match prod s with
  | PNone => False
  | PLoop => nb s = ChOpen
  | PSend BNormal => nb s = ChOpen /\ c_kind c <> KErr
  | PSend BErr => nb s = ChOpen /\ c_kind c = KErr
  | PClosing => nb s = ChOpen /\ c_kind c <> KErr /\ dev s = false /\ adapter s = false
  | PDone => match c_kind c with
             | KErr => nb s = ChOpen /\ core_exiting (core s)
             | _ => nb s = ChClosed /\ dev s = false /\ adapter s = false
             end
  end.

Definition idle_all (n : nat) (s : state) : Prop := n_idle (st s) = n.

Definition phase (n : nat) (c : cfg) (s : state) : Prop :=
  match starter s with
  | StIdle =>
      sst s = Inactive /\ rd s = 0 /\ core s = CNone /\ prod s = PNone /\ idle_all n s
      /\ dev s = false /\ adapter s = false /\ writing s = false
  | StAt SP1 | StDo SP1 =>
      sst s = Starting /\ rd s = 0 /\ core s = CNone /\ prod s = PNone /\ idle_all n s
      /\ dev s = false /\ adapter s = false /\ writing s = false
  | StAt SP2 | StDo SP2 | StAt SP3 | StDo SP3 =>
      sst s = Starting /\ rd s = 0 /\ core s = CNone /\ prod s = PNone /\ idle_all n s
      /\ adapter s = false /\ writing s = false
  | StAt SP4 | StDo SP4 =>
      sst s = Starting /\ rd s = 0 /\ core s = CNone /\ prod s = PNone /\ idle_all n s
      /\ adapter s = false /\ writing s = false /\ abort s = ChOpen /\ nb s = ChOpen
  | StAt SP5 | StDo SP5 =>
      sst s = Active /\ rd s = 1 /\ core s = CNone /\ prod s = PNone /\ idle_all n s
      /\ adapter s = false /\ writing s = false /\ abort s = ChOpen /\ nb s = ChOpen
  | StAt SP6 | StDo SP6 =>
      sst s = Active /\ rd s = 1 /\ core s = CNone /\ idle_all n s /\ writing s = false
      /\ abort s = ChOpen /\ prod_facts c s /\ (prod s = PDone -> c_kind c <> KErr)
  | StAtRD | StDoRD =>
      sst s = Active /\ rd s = 1 /\ core s = CNone /\ prod s = PNone /\ idle_all n s /\ writing s = false
      /\ (c_fixed c = true -> dev s = false /\ adapter s = false)
  | StRet RErr =>
      sst s = Inactive /\ rd s = 0 /\ core s = CNone /\ prod s = PNone /\ idle_all n s /\ writing s = false
      /\ (c_fixed c = true -> dev s = false /\ adapter s = false)
  | StDone RErr =>
      sst s = Inactive /\ rd s = 0 /\ core s = CNone /\ prod s = PNone /\ writing s = false
      /\ (c_fixed c = true -> dev s = false /\ adapter s = false)
      /\ mainp (st s) = 0 /\ n_ret_ok (st s) = 0 /\ n_done_ok (st s) = 0
  | StRet ROk => idle_all n s /\ core_facts c s /\ sst_facts s /\ prod_facts c s
  | StDone ROk => core_facts c s /\ sst_facts s /\ prod_facts c s
  end.

Record Inv (n : nat) (c : cfg) (s : state) : Prop := {
  i_crash : crashed s = false;
  i_total : total (st s) = n;
  i_lock : (lock s = true -> inlock (st s) = 1) /\ (lock s = false -> inlock (st s) = 0);
  i_main : mainp (st s) <= 1;
  i_idle : starter_done s = false -> n_idle (st s) = n;
  i_dev : dev s = true -> c_kind c = KAbaco;
  i_adapter : adapter s = true -> c_kind c = KLancero;
  i_phase : phase n c s }.

Lemma inv_initial n B c s : Initial n B s -> Inv n c s.
Proof.
  intros (a & b & d & ->). constructor; cbn.
  - reflexivity.
  - lia.
  - split; intros; [discriminate | reflexivity].
  - lia.
  - reflexivity.
  - discriminate.
  - discriminate.
  - repeat split; reflexivity.
Qed.

Ltac destr_match H :=
  repeat match type of H with
         | context [match ?x with _ => _ end] => destruct x eqn:?; try discriminate H
         | context [if ?x then _ else _] => destruct x eqn:?; try discriminate H
         end.

Ltac inv_hyps :=
  repeat match goal with
  | H : _ /\ _ |- _ => destruct H
  | H : Some _ = Some _ |- _ => inversion H; subst; clear H
  end.

Ltac open_state s :=
  destruct s as [sst0 lock0 abort0 nb0 rd0 dev0 adapter0 writing0 delivered0 budget0 starter0 core0 prod0 st0 crashed0];
  destruct st0 as [c1 c2 c3 c4 c5 c6 c7 c8 c9 c10 c11 c12].

Ltac finish_inv :=
  constructor; cbn; unfold idle_all, core_facts, sst_facts, prod_facts, core_exiting, past, mainp, inlock, total in *; cbn in *;
  repeat split; intros; try subst; try discriminate; try congruence; try lia; auto;
  try solve [intuition (congruence || lia)].

Ltac split_starter starter0 :=
  destruct starter0 as [|p|p| | |r|r]; [| destruct p | destruct p | | | destruct r | destruct r].

Lemma inv_step_starter n c s s' : Inv n c s -> step c s TStarter = Some s' -> Inv n c s'.
Proof.
  intros [Hc Ht Hl Hm Hi Hd Ha Hp] Hs. open_state s. destruct c as [k f w fx fr]; destruct k, fx.
  all: unfold step in Hs; cbn in Hc; subst crashed0; cbn [crashed] in Hs;
    unfold step_starter, fail_start, cleanup, release_all, open_dev, start_adapter in Hs;
    cbn in *.
  all: split_starter starter0; cbn in *; destr_match Hs; inv_hyps; subst; cbn in *; finish_inv.
Qed.

Lemma inv_step_core n c s s' : Inv n c s -> step c s TCore = Some s' -> Inv n c s'.
Proof.
  intros [Hc Ht Hl Hm Hi Hd Ha Hp] Hs. open_state s. destruct c as [k f w fx fr]; destruct k, fx.
  all: unfold step in Hs; cbn in Hc; subst crashed0; cbn [crashed] in Hs;
    unfold step_core in Hs; cbn in *.
  all: split_starter starter0; cbn in *; inv_hyps; subst; try discriminate Hs.
  all: unfold core_facts, sst_facts, prod_facts, core_exiting in *; cbn in *.
  all: destr_match Hs; inv_hyps; subst; cbn in *; try contradiction; try discriminate.
  all: finish_inv.
Qed.

Lemma inv_step_prod n c s ch s' : Inv n c s -> step c s (TProd ch) = Some s' -> Inv n c s'.
Proof.
  intros [Hc Ht Hl Hm Hi Hd Ha Hp] Hs. open_state s. destruct c as [k f w fx fr]; destruct k, fx.
  all: unfold step in Hs; cbn in Hc; subst crashed0; cbn [crashed] in Hs;
    unfold step_prod, begin_close, finish_close, release_all in Hs; cbn in *.
  all: split_starter starter0; cbn in *; inv_hyps; subst; try discriminate Hs.
  all: unfold core_facts, sst_facts, prod_facts, core_exiting in *; cbn in *.
  all: destruct ch; destr_match Hs; inv_hyps; subst; cbn in *; try contradiction; try discriminate.
  all: try (destruct core0; cbn in *; inv_hyps; try contradiction; try discriminate).
  all: finish_inv.
Qed.

Ltac st_simpl := unfold st_move, mv in *; cbn [sloc_eqb cnt n_idle n_locked n_switch n_atabort n_wait n_atwaited n_post n_atret n_ret_ok n_ret_err n_done_ok n_done_err] in *.

Lemma stop_needs_starter_done n c s a s' :
  Inv n c s -> step c s (TStop a) = Some s' -> starter_done s = true.
Proof.
  intros [Hc Ht Hl Hm Hi Hd Ha Hp] Hs.
  destruct (starter_done s) eqn:E; [reflexivity|exfalso].
  specialize (Hi eq_refl). open_state s. cbn in *.
  unfold total in Ht; cbn in Ht.
  assert (c2 = 0 /\ c3 = 0 /\ c4 = 0 /\ c5 = 0 /\ c6 = 0 /\ c7 = 0 /\ c8 = 0 /\ c9 = 0 /\ c10 = 0 /\ c11 = 0 /\ c12 = 0) by lia.
  inv_hyps; subst. unfold step in Hs; cbn in Hs.
  unfold step_stop in Hs; cbn in Hs. rewrite E in Hs.
  destruct a; cbn in Hs; try discriminate. rewrite andb_false_r in Hs. discriminate.
Qed.

Ltac guards :=
  repeat match goal with
  | H : (_ && _) = true |- _ => apply andb_prop in H; destruct H
  | H : (0 <? _) = true |- _ => apply Nat.ltb_lt in H
  | H : (_ =? _) = true |- _ => apply Nat.eqb_eq in H
  | H : negb _ = true |- _ => apply negb_true_iff in H
  end.

Lemma inv_step_stop n c s a s' : Inv n c s -> step c s (TStop a) = Some s' -> Inv n c s'.
Proof.
  intros HI Hs. pose proof (stop_needs_starter_done _ _ _ _ _ HI Hs) as Hdone.
  destruct HI as [Hc Ht Hl Hm Hi Hd Ha Hp]. open_state s.
  cbn in Hdone. destruct starter0; try discriminate Hdone. clear Hdone Hi.
  destruct c as [k f w fx fr].
  unfold step in Hs; cbn in Hc; subst crashed0; cbn [crashed] in Hs;
    unfold step_stop, move, starter_done in Hs; cbn -[Nat.ltb Nat.eqb] in *.
  destruct r; cbn -[Nat.ltb Nat.eqb] in *; inv_hyps.
  all: unfold core_facts, sst_facts, prod_facts, core_exiting in *; cbn -[Nat.ltb Nat.eqb] in *.
  all: destruct a; destr_match Hs; inv_hyps; guards; try subst lock0; st_simpl; cbn -[Nat.ltb Nat.eqb] in *; try contradiction; try discriminate.
  all: try (destruct sst0; cbn in *; inv_hyps; try contradiction; try discriminate).
  all: try solve [finish_inv].
  all: destruct core0; cbn in *; inv_hyps; try contradiction; try discriminate; finish_inv.
Qed.

Lemma inv_step n c s t s' : Inv n c s -> step c s t = Some s' -> Inv n c s'.
Proof.
  destruct t.
  - apply inv_step_starter.
  - apply inv_step_core.
  - apply inv_step_prod.
  - apply inv_step_stop.
Qed.

Lemma inv_reachable n B c s : Reachable (step c) (Initial n B) s -> Inv n c s.
Proof.
  apply (invariant_ind _ _ (step c) (Initial n B) (Inv n c)).
  - intros s0 H0. eapply inv_initial; eassumption.
  - intros; eapply inv_step; eassumption.
Qed.

