(* C10 — a variant function for the life-cycle model: the bound behind stop_returns. *)
From Coq Require Import List Arith Lia Bool ZifyBool ZifyNat.
From Dastard Require Import C10.Conc C10.Model C10.Spec C10.Proofs C10.Proofs2.
Import ListNotations.

(* ---------- a variant function: every Stop returns within a bound ---------- *)

Definition w_starter (p : starter_pc) : nat :=
  match p with
  | StIdle => 20
  | StAt SP1 => 19 | StDo SP1 => 18 | StAt SP2 => 17 | StDo SP2 => 16 | StAt SP3 => 15 | StDo SP3 => 14
  | StAt SP4 => 13 | StDo SP4 => 12 | StAt SP5 => 11 | StDo SP5 => 10 | StAt SP6 => 9 | StDo SP6 => 8
  | StAtRD => 7 | StDoRD => 6 | StRet _ => 1 | StDone _ => 0
  end.
Definition w_stops (m : stops) : nat :=
  10 * n_idle m + 9 * n_locked m + 8 * n_switch m + 7 * n_atabort m + 6 * n_wait m + 5 * n_atwaited m
  + 4 * n_post m + 3 * n_atret m + n_ret_ok m + n_ret_err m.
Definition w_core (k : core_pc) : nat :=
  match k with
  | CNone => 0 | CAtSel => 6 | CSel => 5 | CProc => 8 | CAtBlk => 7 | CAtRet => 4 | CAtRD => 3 | CDoRD => 2 | CDone => 0
  end.
Definition w_prod (kd : kind) (p : prod_pc) : nat :=
  match p with
  | PNone => 0
  | PLoop => match kd with KErr => 7 | _ => 2 end
  | PSend _ => 6
  | PClosing => 1
  | PDone => 0
  end.

(* the data-flow cycle while nobody has asked for a stop and the source is healthy *)
Definition steadyb (s : state) : bool :=
  match abort s with ChClosed => false | _ => true end
  && match prod s with PLoop | PSend BNormal => true | _ => false end
  && match core s with CNone | CAtSel | CSel | CProc | CAtBlk => true | _ => false end.

Definition w_run (c : cfg) (s : state) : nat :=
  match prod s with
  | PNone => 15 + 6 * budget s
  | _ => if steadyb s then 15 + 6 * budget s
         else w_core (core s) + w_prod (c_kind c) (prod s) + 6 * budget s
  end.

Definition mu (c : cfg) (s : state) : nat := w_starter (starter s) + w_stops (st s) + w_run c s.

Definition flow_tid (t : tid) : bool := match t with TCore | TProd _ => true | _ => false end.

(* a step counts unless it is a step of the core loop / producer inside the steady data-flow cycle *)
Definition counted (c : cfg) (s : state) (t : tid) : bool :=
  match step c s t with
  | Some s' => negb (flow_tid t && steadyb s && steadyb s')
  | None => false
  end.

Lemma mu_step_starter n c s s' :
  Inv n c s -> step c s TStarter = Some s' -> mu c s' < mu c s.
Proof.
  intros [Hc Ht Hl Hm Hi Hd Ha Hp] Hs. open_state s. destruct c as [k f w fx fr]; destruct k, fx.
  all: unfold step in Hs; cbn in Hc; subst crashed0; cbn [crashed] in Hs;
    unfold step_starter, fail_start, cleanup, release_all, open_dev, start_adapter in Hs;
    cbn in *.
  all: split_starter starter0; cbn in *; destr_match Hs; inv_hyps; subst;
    unfold mu, w_run, steadyb, w_stops; cbn; try lia.
  all: unfold prod_facts in *; try (destruct prod0 as [| |[|]| |]); cbn in *; inv_hyps; try contradiction; try discriminate; try congruence; try lia.
Qed.

Definition mu_ok (c : cfg) (s : state) (t : tid) (s' : state) : Prop :=
  (counted c s t = true -> mu c s' < mu c s) /\ (counted c s t = false -> mu c s' <= mu c s).

Lemma mu_step_core n c s s' :
  Inv n c s -> step c s TCore = Some s' -> mu_ok c s TCore s'.
Proof.
  intros [Hc Ht Hl Hm Hi Hd Ha Hp] Hs. unfold mu_ok, counted. rewrite Hs.
  open_state s. destruct c as [k f w fx fr]. destruct fx.
  all: unfold step in Hs; cbn in Hc; subst crashed0; cbn [crashed] in Hs; unfold step_core in Hs; cbn in *.
  all: split_starter starter0; cbn in *; inv_hyps; subst; try discriminate Hs.
  all: unfold core_facts, sst_facts, prod_facts, core_exiting in *; cbn in *.
  all: try (destruct core0; try discriminate Hs; try contradiction).
  all: try (destruct prod0 as [| |[|]| |]; cbn in *; inv_hyps; try contradiction; try discriminate).
  all: try destruct abort0; try destruct k; cbn in *; destr_match Hs; inv_hyps; try contradiction; try discriminate; try congruence.
  all: unfold mu, w_run, steadyb, w_stops; cbn; split; intros; try discriminate; try lia.
Qed.

Lemma mu_step_prod n c s ch s' :
  c_fair c = true -> Inv n c s -> step c s (TProd ch) = Some s' -> mu_ok c s (TProd ch) s'.
Proof.
  intros Hfair [Hc Ht Hl Hm Hi Hd Ha Hp] Hs. unfold mu_ok, counted. rewrite Hs.
  open_state s. destruct c as [k f w fx fr]. cbn in Hfair. subst fr.
  unfold step in Hs; cbn in Hc; subst crashed0; cbn [crashed] in Hs; unfold step_prod, begin_close, finish_close, release_all in Hs; cbn in *.
  all: split_starter starter0; cbn in *; inv_hyps; subst; try discriminate Hs.
  all: unfold core_facts, sst_facts, prod_facts, core_exiting in *; cbn in *.
  all: try (destruct prod0 as [| |[|]| |]; try discriminate Hs; try contradiction).
  all: try (destruct core0; cbn in *; inv_hyps; try contradiction; try discriminate).
  all: destruct ch; try destruct abort0; try destruct k; cbn in *; destr_match Hs; inv_hyps; try contradiction; try discriminate; try congruence.
  all: unfold mu, w_run, steadyb, w_stops; cbn; split; intros; try discriminate; try lia.
Qed.

