(* C10 — release before close: consequences of splitting the producer's shutdown into two steps. *)
From Coq Require Import List Arith Lia Bool ZifyBool ZifyNat.
From Dastard Require Import C10.Conc C10.Model C10.Spec C10.Proofs.
Import ListNotations.

(* the hardware is given back BEFORE nextBlock is closed, hence before the core loop can leave its loop, hence
   before any Stop caller gets past its wait: at the moment Stop returns the devices are closed *)
Lemma closed_before_release n B c s :
  Reachable (step c) (Initial n B) s ->
  (nb s = ChClosed -> starter s = StDone ROk -> dev s = false /\ adapter s = false)
  /\ (core_exiting (core s) -> dev s = false /\ adapter s = false)
  /\ (0 < n_atwaited (st s) + n_post (st s) + n_atret (st s) -> dev s = false /\ adapter s = false).
Proof.
  intros HR. apply inv_reachable in HR. destruct HR as [Hc Ht Hl Hm Hi Hd Ha Hp].
  assert (NoRes : c_kind c <> KAbaco -> c_kind c <> KLancero -> dev s = false /\ adapter s = false).
  { intros K1 K2. split; [destruct (dev s); auto; exfalso; apply K1, Hd; reflexivity
                         | destruct (adapter s); auto; exfalso; apply K2, Ha; reflexivity]. }
  open_state s. cbn in *.
  split_starter starter0; cbn in *; unfold core_facts, sst_facts, prod_facts, core_exiting, idle_all in *; cbn in *;
    inv_hyps; subst; repeat split; intros; try discriminate; try contradiction; try tauto; try lia;
    try (destruct core0; cbn in *; inv_hyps; try contradiction; try discriminate; subst; cbn in *;
         destruct (c_kind c) eqn:K; inv_hyps; try tauto; try (apply NoRes; congruence); try contradiction);
    try (destruct prod0 as [| |[|]| |]; cbn in *; inv_hyps; try contradiction; try discriminate;
         destruct (c_kind c) eqn:K; inv_hyps; try tauto; try congruence; try (apply NoRes; congruence)).
  all: try (destruct prod0 as [| |[|]| |]; cbn in *; inv_hyps; try contradiction; try discriminate; try tauto; try congruence).
  all: try (destruct sst0; cbn in *; inv_hyps; try contradiction; try discriminate; try lia; try tauto).
  all: try (match goal with H : _ \/ _ |- _ => destruct H; discriminate end).
Qed.

