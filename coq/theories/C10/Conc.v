(* Conc.v — a small kit for executable interleaving systems (shared by C10 and C11).

   A system is a state type, a type of thread ids (more precisely: of schedulable actions — a thread
   with an internal choice such as a Go `select` with several ready cases gets one id per choice) and
   a partial step function  step : state -> tid -> option state   (None = that action is not enabled,
   i.e. the thread is blocked or finished).  A schedule is a list of ids; running a schedule fails as
   soon as it names a disabled action, so "for every schedule that runs" quantifies over exactly the
   interleavings the system admits.  No fairness is built in: theorems that need it take an explicit
   budget parameter in the state of the concrete model. *)
From Coq Require Import List Arith Lia Bool.
Import ListNotations.

Section Conc.
  Variables (state tid : Type).
  Variable step : state -> tid -> option state.

  Fixpoint run (s : state) (sched : list tid) : option state :=
    match sched with
    | [] => Some s
    | t :: rest => match step s t with
                   | Some s' => run s' rest
                   | None => None
                   end
    end.

  Definition Reachable (init : state -> Prop) (s : state) : Prop :=
    exists s0 sched, init s0 /\ run s0 sched = Some s.

  Definition Invariant (init : state -> Prop) (P : state -> Prop) : Prop :=
    forall s, Reachable init s -> P s.

  Definition Enabled (s : state) (t : tid) : Prop := step s t <> None.

  (* deadlock: nothing can move although the system is not in an accepted final state *)
  Definition Deadlocked (final : state -> Prop) (s : state) : Prop :=
    (forall t, step s t = None) /\ ~ final s.

  Lemma run_app s a b :
    run s (a ++ b) = match run s a with Some s' => run s' b | None => None end.
  Proof.
    revert s; induction a as [|t a IH]; intros s; simpl; [reflexivity|].
    destruct (step s t); [apply IH | reflexivity].
  Qed.

  Lemma run_snoc s a t s1 s2 :
    run s a = Some s1 -> step s1 t = Some s2 -> run s (a ++ [t]) = Some s2.
  Proof. intros H1 H2. rewrite run_app, H1. simpl. now rewrite H2. Qed.

  Lemma reachable_init (init : state -> Prop) s : init s -> Reachable init s.
  Proof. intros H. exists s, []. split; [assumption | reflexivity]. Qed.

  Lemma reachable_step (init : state -> Prop) s t s' :
    Reachable init s -> step s t = Some s' -> Reachable init s'.
  Proof.
    intros (s0 & sched & Hi & Hr) Hs. exists s0, (sched ++ [t]). split; [assumption|].
    eapply run_snoc; eassumption.
  Qed.

  Lemma reachable_run (init : state -> Prop) s sched s' :
    Reachable init s -> run s sched = Some s' -> Reachable init s'.
  Proof.
    intros (s0 & sc & Hi & Hr) Hs. exists s0, (sc ++ sched). split; [assumption|].
    now rewrite run_app, Hr.
  Qed.

  (* the induction principle for invariants *)
  Lemma run_preserves (P : state -> Prop) :
    (forall s t s', P s -> step s t = Some s' -> P s') ->
    forall sched s s', P s -> run s sched = Some s' -> P s'.
  Proof.
    intros Hstep sched; induction sched as [|t r IH]; intros s s' Hp Hr; simpl in Hr.
    - now inversion Hr; subst.
    - destruct (step s t) as [s1|] eqn:E; [|discriminate].
      eapply IH; [|eassumption]. eapply Hstep; eassumption.
  Qed.

  Lemma invariant_ind (init : state -> Prop) (P : state -> Prop) :
    (forall s, init s -> P s) ->
    (forall s t s', P s -> step s t = Some s' -> P s') ->
    Invariant init P.
  Proof.
    intros H0 Hs s (s0 & sched & Hi & Hr). eapply run_preserves; eauto.
  Qed.

  (* invariant induction relative to an already established invariant *)
  Lemma invariant_ind_rel (init : state -> Prop) (Q P : state -> Prop) :
    Invariant init Q ->
    (forall s, init s -> P s) ->
    (forall s t s', Q s -> P s -> step s t = Some s' -> P s') ->
    Invariant init P.
  Proof.
    intros HQ H0 Hs s (s0 & sched & Hi & Hr).
    assert (G : forall sc a b, Reachable init a -> P a -> run a sc = Some b -> P b).
    { induction sc as [|t r IH]; intros a b Ha Hp Hrun; simpl in Hrun.
      - now inversion Hrun; subst.
      - destruct (step a t) as [a1|] eqn:E; [|discriminate].
        apply (IH a1 b); [eapply reachable_step; eassumption | | assumption].
        eapply Hs; [apply HQ, Ha | exact Hp | exact E]. }
    eapply G; [apply reachable_init, Hi | apply H0, Hi | exact Hr].
  Qed.

  (* ---------- step bounds from a variant function ----------
     [counted s t] says whether the step of t from s is one we count.  If every counted step
     strictly decreases the measure and no step increases it, then along ANY schedule that runs the
     number of counted steps is at most the measure of the starting state. *)
  Variable Inv : state -> Prop.
  Variable mu : state -> nat.
  Variable counted : state -> tid -> bool.

  Fixpoint count_steps (s : state) (sched : list tid) : nat :=
    match sched with
    | [] => 0
    | t :: rest => match step s t with
                   | Some s' => (if counted s t then 1 else 0) + count_steps s' rest
                   | None => 0
                   end
    end.

  Hypothesis Inv_step : forall s t s', Inv s -> step s t = Some s' -> Inv s'.
  Hypothesis mu_counted : forall s t s', Inv s -> step s t = Some s' -> counted s t = true -> mu s' < mu s.
  Hypothesis mu_other : forall s t s', Inv s -> step s t = Some s' -> counted s t = false -> mu s' <= mu s.

  Lemma variant_bound : forall sched s s',
    Inv s -> run s sched = Some s' -> count_steps s sched + mu s' <= mu s.
  Proof.
    induction sched as [|t r IH]; intros s s' Hi Hr; simpl in *.
    - inversion Hr; subst. lia.
    - destruct (step s t) as [s1|] eqn:E; [|discriminate].
      specialize (IH s1 s' (Inv_step _ _ _ Hi E) Hr).
      destruct (counted s t) eqn:C.
      + pose proof (mu_counted _ _ _ Hi E C). lia.
      + pose proof (mu_other _ _ _ Hi E C). lia.
  Qed.
End Conc.

Arguments run {state tid} step s sched.
Arguments Reachable {state tid} step init s.
Arguments Invariant {state tid} step init P.
Arguments Enabled {state tid} step s t.
Arguments Deadlocked {state tid} step final s.
Arguments count_steps {state tid} step counted s sched.

(* ---------- the vocabulary of observable labels, shared by the C10 and C11 models ----------
   One constructor per verifPoint call site in /repo (data_source.go, rpc_server.go). *)
Inductive spt := SP1 | SP2 | SP3 | SP4 | SP5 | SP6.
  (* start:starting, start:sampled, start:channels, start:prepared, start:activated, start:running *)
Inductive point :=
| PStart (p : spt)
| PRunDone          (* rundone:deactivate *)
| PCoreSel          (* core:before-select *)
| PCoreReq          (* core:after-request *)
| PCoreBlk          (* core:after-block *)
| PCoreRet          (* core:before-return *)
| PStopLocked       (* stop:locked *)
| PStopAbort        (* stop:abort-closed *)
| PStopWaited       (* stop:waited *)
| PStopRet          (* stop:before-return *)
| PRpcSend          (* rpc:before-send *)
| PRpcBetween.      (* rpc:between *)
Inductive rc := ROk | RErr.                 (* return class of a call *)
Inductive call := CallStart | CallStop | CallReq.
Inductive label := LPt (p : point) | LRet (c : call) (r : rc).

Definition spt_eqb (a b : spt) : bool :=
  match a, b with
  | SP1, SP1 | SP2, SP2 | SP3, SP3 | SP4, SP4 | SP5, SP5 | SP6, SP6 => true
  | _, _ => false
  end.
Definition point_eqb (a b : point) : bool :=
  match a, b with
  | PStart p, PStart q => spt_eqb p q
  | PRunDone, PRunDone | PCoreSel, PCoreSel | PCoreReq, PCoreReq | PCoreBlk, PCoreBlk
  | PCoreRet, PCoreRet | PStopLocked, PStopLocked | PStopAbort, PStopAbort
  | PStopWaited, PStopWaited | PStopRet, PStopRet | PRpcSend, PRpcSend | PRpcBetween, PRpcBetween => true
  | _, _ => false
  end.
Definition rc_eqb (a b : rc) : bool :=
  match a, b with ROk, ROk | RErr, RErr => true | _, _ => false end.
Definition call_eqb (a b : call) : bool :=
  match a, b with CallStart, CallStart | CallStop, CallStop | CallReq, CallReq => true | _, _ => false end.
Definition label_eqb (a b : label) : bool :=
  match a, b with
  | LPt p, LPt q => point_eqb p q
  | LRet c r, LRet d q => call_eqb c d && rc_eqb r q
  | _, _ => false
  end.
