(* C10 — consequences of the invariant: the lemmas behind the theorems of Properties.v. *)
From Coq Require Import List Arith Lia Bool ZifyBool ZifyNat.
From Dastard Require Import C10.Conc C10.Model C10.Spec C10.Proofs.
Import ListNotations.

(* ---------- consequences of the invariant ---------- *)

Lemma lifecycle_inv n B c s :
  Reachable (step c) (Initial n B) s ->
  crashed s = false /\
  (sst s = Active -> rd s = 1 /\ core s <> CDone /\ (starter s = StDone ROk -> core s <> CNone)) /\
  (core s = CDone -> sst s = Inactive /\ rd s = 0) /\
  mainp (st s) <= 1 /\
  (lock s = true <-> inlock (st s) = 1) /\
  rd s <= 1.
Proof.
  intros HR. apply inv_reachable in HR. destruct HR as [Hc Ht Hl Hm Hi Hd Ha Hp].
  open_state s. cbn in *. split; [assumption|].
  assert (L : lock0 = true <-> c2 + c3 + c4 = 1).
  { destruct Hl as [L1 L2]. unfold inlock in *; cbn in *. destruct lock0; split; intros; auto; try discriminate.
    specialize (L2 eq_refl). lia. }
  unfold inlock, mainp in *; cbn in *.
  split_starter starter0; cbn in *; unfold core_facts, sst_facts, prod_facts, idle_all in *; cbn in *; inv_hyps; subst;
    repeat split; intros; try discriminate; try congruence; try lia; try tauto;
    try (destruct core0; cbn in *; inv_hyps; subst; try discriminate; try congruence; try lia; try tauto; intuition congruence).
Qed.

(* Start succeeds only from Inactive: the first step of Start, from ANY state *)
Lemma start_first_step c s s' :
  starter s = StIdle -> step c s TStarter = Some s' ->
  (sst s = Inactive /\ sst s' = Starting /\ starter s' = StAt SP1)
  \/ (sst s <> Inactive /\ starter s' = StRet RErr /\ sst s' = sst s /\ rd s' = rd s /\ core s' = core s /\ prod s' = prod s).
Proof.
  intros Hst Hs. unfold step in Hs. destruct (crashed s); [discriminate|].
  unfold step_starter in Hs. rewrite Hst in Hs. destruct (lock s); [discriminate|].
  destruct (sst s) eqn:E; inversion Hs; subst; cbn; [left | right | right | right]; repeat split; congruence.
Qed.

(* ... and the step that makes Start succeed leaves the source Active with its core loop spawned *)
Lemma start_success_step n B c s s' :
  Reachable (step c) (Initial n B) s -> starter s = StDo SP6 -> step c s TStarter = Some s' ->
  starter s' = StRet ROk /\ sst s' = Active /\ rd s' = 1 /\ core s' = CAtSel /\ prod s' <> PNone.
Proof.
  intros HR Hst Hs. apply inv_reachable in HR. destruct HR as [Hc Ht Hl Hm Hi Hd Ha Hp].
  unfold step in Hs. rewrite Hc in Hs. unfold step_starter in Hs. rewrite Hst in Hs.
  inversion Hs; subst; clear Hs. unfold phase in Hp. rewrite Hst in Hp. cbn.
  destruct Hp as (H1 & H2 & H3 & H4 & H5 & H6 & H7 & H8). repeat split; auto.
  unfold prod_facts in H7. intros E. rewrite E in H7. exact H7.
Qed.

Lemma all_done_counts n c s :
  Inv n c s -> stoppers_done n s = true ->
  let m := st s in
  n_idle m = 0 /\ n_locked m = 0 /\ n_switch m = 0 /\ n_atabort m = 0 /\ n_wait m = 0 /\ n_atwaited m = 0
  /\ n_post m = 0 /\ n_atret m = 0 /\ n_ret_ok m = 0 /\ n_ret_err m = 0.
Proof.
  intros [Hc Ht Hl Hm Hi Hd Ha Hp] Hd'. unfold stoppers_done in Hd'. apply Nat.eqb_eq in Hd'.
  unfold total in Ht. cbn. lia.
Qed.

Lemma stop_post n B c s :
  Reachable (step c) (Initial n B) s -> c_fixed c = true -> 1 <= n ->
  starter_done s = true -> stoppers_done n s = true ->
  sst s = Inactive /\ workers_exited s = true /\ writing s = false /\ dev s = false /\ adapter s = false
  /\ lock s = false /\ rd s = 0.
Proof.
  intros HR Hfix Hn Hsd Hdone. apply inv_reachable in HR.
  pose proof (all_done_counts _ _ _ HR Hdone) as Hz. cbn in Hz.
  destruct HR as [Hc Ht Hl Hm Hi Hd Ha Hp]. unfold stoppers_done in Hdone. apply Nat.eqb_eq in Hdone.
  assert (HL : lock s = false).
  { destruct (lock s); auto. destruct Hl as [L _]. specialize (L eq_refl). unfold inlock in L. lia. }
  assert (HD : dev s = true -> c_kind c <> KAbaco -> False) by (intros X Y; apply Y, Hd, X).
  unfold total in Ht.
  open_state s. cbn in *. destruct starter0; try discriminate Hsd.
  destruct Hz as (Z1 & Z2 & Z3 & Z4 & Z5 & Z6 & Z7 & Z8 & Z9 & Z10). subst.
  destruct r; cbn in Hp; unfold core_facts, sst_facts, prod_facts, past, idle_all in Hp; cbn in Hp.
  - (* Start had succeeded *)
    destruct Hp as (P1 & P2 & P3).
    destruct sst0; cbn in P2; try contradiction; try lia.
    destruct core0; cbn in P1; try contradiction;
      try (destruct P1 as (_ & [X|X] & _); discriminate X);
      try (destruct P1 as (_ & [X|X]); discriminate X).
    destruct P1 as (Q1 & _ & Q3 & Q4). subst prod0. specialize (Q4 Hfix).
    assert (dev0 = false /\ adapter0 = false) as [D1 D2].
    { destruct (c_kind c) eqn:K; try tauto.
      split; [destruct dev0; auto; specialize (Hd eq_refl); discriminate
             | destruct adapter0; auto; specialize (Ha eq_refl); discriminate]. }
    subst. repeat split; auto.
  - (* Start had failed *)
    destruct Hp as (P1 & P2 & P3 & P4 & P5 & P6 & _). specialize (P6 Hfix). destruct P6. subst.
    repeat split; auto.
Qed.

(* after all of that the very same source object is as good as new: re-arming the callers gives an Initial state *)
Lemma restartable n B c s m B' :
  Reachable (step c) (Initial n B) s -> c_fixed c = true ->
  starter_done s = true -> stoppers_done n s = true ->
  (1 <= n \/ exists r, starter s = StDone r /\ r = RErr) ->
  Initial m B' (rearm m B' s).
Proof.
  intros HR Hfix Hsd Hdone Hcase.
  assert (G : sst s = Inactive /\ writing s = false /\ dev s = false /\ adapter s = false /\ lock s = false /\ rd s = 0 /\ crashed s = false).
  { destruct Hcase as [Hn | (r & Hr & ->)].
    - pose proof (stop_post _ _ _ _ HR Hfix Hn Hsd Hdone) as P. apply inv_reachable in HR. destruct HR. tauto.
    - apply inv_reachable in HR. pose proof (all_done_counts _ _ _ HR Hdone) as Hz.
      destruct HR as [Hc Ht Hl Hm Hi Hd Ha Hp]. unfold phase in Hp. rewrite Hr in Hp.
      destruct Hp as (P1 & P2 & P3 & P4 & P5 & P6 & P7). specialize (P6 Hfix).
      assert (lock s = false).
      { destruct (lock s); auto. destruct Hl as [L _]. specialize (L eq_refl). unfold inlock in L. cbn in Hz. lia. }
      tauto. }
  destruct G as (G1 & G2 & G3 & G4 & G5 & G6 & G7).
  destruct s; cbn in *; subst. unfold rearm; cbn. eexists _, _, _. reflexivity.
Qed.

(* a failed Start: inactive, nothing held, no worker *)
Lemma failed_start n B c s :
  Reachable (step c) (Initial n B) s -> c_fixed c = true ->
  (starter s = StRet RErr \/ starter s = StDone RErr) ->
  sst s = Inactive /\ dev s = false /\ adapter s = false /\ core s = CNone /\ prod s = PNone /\ rd s = 0 /\ writing s = false.
Proof.
  intros HR Hfix Hst. apply inv_reachable in HR. destruct HR as [Hc Ht Hl Hm Hi Hd Ha Hp].
  unfold phase in Hp. destruct Hst as [E|E]; rewrite E in Hp; inv_hyps;
    match goal with H : c_fixed c = true -> _ |- _ => specialize (H Hfix) end; tauto.
Qed.

(* the code before the fix: Abaco, no data yet (PrepareRun fails on zero channels): the devices stay open *)
Definition old_cfg : cfg := mkCfg KAbaco FPrepare false false false.
Definition old_sched : list tid := repeat TStarter 8.
Lemma failed_start_old_leaks :
  exists s, run (step old_cfg) (init_state 0 0) old_sched = Some s
            /\ starter s = StDone RErr /\ sst s = Inactive /\ dev s = true.
Proof. eexists. split; [vm_compute; reflexivity | repeat split]. Qed.

(* ---------- no deadlock ---------- *)

Definition can_step (c : cfg) (s : state) : Prop := exists t s', step c s t = Some s'.

Lemma can_by c s t : (exists s', step c s t = Some s') -> can_step c s.
Proof. intros [s' H]. exists t, s'. exact H. Qed.

Ltac by_tid t := apply (can_by _ _ t); unfold step, step_starter, step_core, step_prod, step_stop, fail_start, move, starter_done;
                 cbn -[Nat.ltb Nat.eqb].

(* the lock holder, if any, can always move *)
Lemma holder_can c s :
  crashed s = false -> inlock (st s) = 1 -> can_step c s.
Proof.
  intros Hc Hl. open_state s. unfold inlock in Hl; cbn in *. subst.
  destruct (Nat.eq_dec c2 0) as [E2|E2].
  - destruct (Nat.eq_dec c3 0) as [E3|E3].
    + by_tid (TStop ARelAbort). destruct (0 <? c4) eqn:E; [eexists; reflexivity | apply Nat.ltb_ge in E; lia].
    + by_tid (TStop ASwitch). destruct (0 <? c3) eqn:E; [|apply Nat.ltb_ge in E; lia].
      destruct sst0; eexists; reflexivity.
  - by_tid (TStop ARelLocked). destruct (0 <? c2) eqn:E; [eexists; reflexivity | apply Nat.ltb_ge in E; lia].
Qed.

Lemma no_deadlock_inv n c s : Inv n c s -> can_step c s \/ finished n s = true.
Proof.
  intros HI. pose proof HI as [Hc Ht Hl Hm Hi Hd Ha Hp].
  destruct (lock s) eqn:EL.
  { left. apply holder_can; [assumption | destruct Hl as [L _]; apply L; reflexivity]. }
  destruct Hl as [_ Hl0]. specialize (Hl0 eq_refl).
  destruct (starter_done s) eqn:ESD.
  2:{ (* Start in progress: its caller can always move (nobody holds the lock) *)
      left. open_state s. cbn in *. subst.
      destruct c as [k f w fx fr]; destruct k, fx.
      all: by_tid TStarter; unfold cleanup, release_all, open_dev, start_adapter; cbn;
        destruct starter0 as [|p|p| | |r|r]; try discriminate ESD;
        [ destruct sst0 | | destruct p; destruct f | | | ]; eexists; reflexivity. }
  unfold finished. rewrite ESD. cbn [andb].
  destruct (stoppers_done n s) eqn:ED.
  2:{ (* some Stop caller has not returned *)
      unfold stoppers_done in ED. apply Nat.eqb_neq in ED. unfold total in Ht. unfold inlock in Hl0.
      open_state s. cbn in *. subst.
      destruct starter0; try discriminate ESD.
      destruct (Nat.eq_dec c1 0) as [E1|E1].
      2:{ left. by_tid (TStop ACall). destruct (0 <? c1) eqn:E; [eexists; reflexivity | apply Nat.ltb_ge in E; lia]. }
      destruct (Nat.eq_dec c6 0) as [E6|E6].
      2:{ left. by_tid (TStop ARelWaited). destruct (0 <? c6) eqn:E; [eexists; reflexivity | apply Nat.ltb_ge in E; lia]. }
      destruct (Nat.eq_dec c7 0) as [E7|E7].
      2:{ left. by_tid (TStop APost). destruct (0 <? c7) eqn:E; [eexists; reflexivity | apply Nat.ltb_ge in E; lia]. }
      destruct (Nat.eq_dec c8 0) as [E8|E8].
      2:{ left. by_tid (TStop ARelRet). destruct (0 <? c8) eqn:E; [eexists; reflexivity | apply Nat.ltb_ge in E; lia]. }
      destruct (Nat.eq_dec c9 0) as [E9|E9].
      2:{ left. by_tid (TStop ARetOk). destruct (0 <? c9) eqn:E; [eexists; reflexivity | apply Nat.ltb_ge in E; lia]. }
      destruct (Nat.eq_dec c10 0) as [E10|E10].
      2:{ left. by_tid (TStop ARetErr). destruct (0 <? c10) eqn:E; [eexists; reflexivity | apply Nat.ltb_ge in E; lia]. }
      (* only waiters are left *)
      assert (W : 0 < c5) by lia.
      destruct (Nat.eq_dec rd0 0) as [ER|ER].
      { left. by_tid (TStop AWait). destruct (0 <? c5) eqn:E; [|apply Nat.ltb_ge in E; lia].
        subst rd0. eexists; reflexivity. }
      (* the run is not over: the core loop or the producer can move *)
      left. destruct r; cbn in Hp; unfold core_facts, sst_facts, prod_facts, core_exiting in Hp; cbn in Hp.
      2:{ destruct Hp as (_ & P2 & _). contradiction. }
      destruct Hp as (P1 & P2 & P3).
      destruct core0; cbn in P1; try contradiction;
        try (by_tid TCore; eexists; reflexivity).
      - (* in the select *)
        destruct prod0 as [| |b| |]; cbn in P3; try contradiction.
        + (* the producer is at its own select *)
          destruct (c_kind c) eqn:K.
          all: try (destruct abort0;
                    [ by_tid (TProd PTick); rewrite K; eexists; reflexivity
                    | by_tid (TProd PTick); rewrite K; eexists; reflexivity
                    | by_tid (TProd PAbort); rewrite K; eexists; reflexivity ]).
          by_tid (TProd PTick); rewrite K; eexists; reflexivity.
        + by_tid TCore. destruct b; eexists; reflexivity.
        + by_tid (TProd PAbort). eexists; reflexivity.
        + destruct (c_kind c) eqn:K; try (destruct P3 as (P3 & _); subst nb0; by_tid TCore; eexists; reflexivity).
          destruct P3 as (_ & []).
      - destruct P1 as (P1 & _). lia. }
  (* everybody has returned *)
  cbn [andb]. unfold workers_exited.
  pose proof (all_done_counts _ _ _ HI ED) as Hz. clear HI.
  open_state s. cbn in *. subst crashed0. destruct starter0; try discriminate ESD.
  destruct r; cbn in Hp; unfold core_facts, sst_facts, prod_facts, core_exiting in Hp; cbn in Hp.
  2:{ destruct Hp as (_ & _ & P3 & P4 & _). subst. right; reflexivity. }
  destruct Hp as (P1 & P2 & P3).
  destruct core0; cbn in P1; try contradiction;
    try (left; by_tid TCore; subst; eexists; reflexivity).
  - (* in the select: as above *)
    left. destruct prod0 as [| |b| |]; cbn in P3; try contradiction.
    + destruct (c_kind c) eqn:K.
      all: try (destruct abort0;
                [ by_tid (TProd PTick); rewrite K; eexists; reflexivity
                | by_tid (TProd PTick); rewrite K; eexists; reflexivity
                | by_tid (TProd PAbort); rewrite K; eexists; reflexivity ]).
      by_tid (TProd PTick); rewrite K; eexists; reflexivity.
    + by_tid TCore. subst; destruct b; eexists; reflexivity.
    + by_tid (TProd PAbort). eexists; reflexivity.
    + destruct (c_kind c) eqn:K; try (destruct P3 as (P3 & _); subst; by_tid TCore; eexists; reflexivity).
      destruct P3 as (_ & []).
  - destruct P1 as (_ & _ & P & _). subst. right; reflexivity.
Qed.

Lemma no_deadlock_reach n B c s :
  Reachable (step c) (Initial n B) s -> (exists t s', step c s t = Some s') \/ finished n s = true.
Proof. intros H. exact (no_deadlock_inv n c s (inv_reachable n B c s H)). Qed.
