(* C10 — proofs about the RPC layer (SourceControl.Start / Stop over the life cycle). *)
From Coq Require Import List Arith Bool Lia.
From Dastard Require Import C10.Conc C10.RpcModel C10.RpcSpec.
Import ListNotations.

Lemma rpc_run_app s h1 h2 :
  rpc_run s (h1 ++ h2) = let (s1, r1) := rpc_run s h1 in let (s2, r2) := rpc_run s1 h2 in (s2, r1 ++ r2).
Proof.
  revert s. induction h1 as [|o h1 IH]; intros s; cbn.
  - destruct (rpc_run s h2); reflexivity.
  - destruct (rpc_step s o) as [s1 r]. rewrite IH.
    destruct (rpc_run s1 h1) as [s2 r1]. destruct (rpc_run s2 h2) as [s3 r2]. destruct r; reflexivity.
Qed.

(* the flag is down only when nothing runs *)
Definition rinv (s : rstate) : Prop := r_flag s = false -> r_run s = RunNone.

Lemma rinv_step s o : rinv s -> rinv (fst (rpc_step s o)).
Proof.
  unfold rinv. destruct s as [f r]. destruct o; cbn.
  - destruct f; cbn; auto. discriminate.
  - destruct r as [|k|]; cbn; auto. destruct (self_ends k); cbn; auto.
    intros H E. specialize (H E). discriminate.
  - destruct f; cbn; auto.
  - destruct f, r as [|k|]; cbn; auto; try discriminate; destruct (self_ends k); cbn; auto; discriminate.
Qed.

Lemma rinv_run h : forall s, rinv s -> rinv (fst (rpc_run s h)).
Proof.
  induction h as [|o h IH]; intros s H; cbn; [assumption|].
  pose proof (rinv_step s o H) as H1. destruct (rpc_step s o) as [s1 r]. cbn in H1.
  specialize (IH s1 H1). destruct (rpc_run s1 h) as [s2 rs]. exact IH.
Qed.

Lemma rinv_init : rinv rpc_init.
Proof. intros _. reflexivity. Qed.

(* whatever the history: once a Stop has returned (with whatever result) the server's flag is down and no source runs *)
Lemma rpc_stop_post h :
  let s' := fst (rpc_run rpc_init (h ++ [RStop])) in r_flag s' = false /\ r_run s' = RunNone.
Proof.
  cbn. rewrite rpc_run_app. pose proof (rinv_run h rpc_init rinv_init) as HI.
  destruct (rpc_run rpc_init h) as [s1 r1]. cbn in *.
  destruct (r_flag s1) eqn:E; cbn; [split; reflexivity|]. split; [assumption | apply HI; assumption].
Qed.

(* ... and the next Start (of any source, also after the stopped one had ended by itself, also after a
   repeated Stop) is accepted *)
Lemma rpc_restart h k :
  exists rs, snd (rpc_run rpc_init (h ++ [RStop; RStart k])) = rs ++ [ROk].
Proof.
  rewrite rpc_run_app. destruct (rpc_run rpc_init h) as [s1 r1]. cbn.
  destruct (r_flag s1) eqn:E; cbn; rewrite ?E; cbn; [exists (r1 ++ [ROk]) | exists (r1 ++ [RErr])]; rewrite <- app_assoc; reflexivity.
Qed.

(* the model's answers pass the observable checker, for every history *)
Lemma walk_ok h : forall s a st,
  (a = true -> r_flag s = false) -> (forall k, st = Some k -> r_flag s = true) ->
  rpc_walk a st h (snd (rpc_run s h)) = true.
Proof.
  induction h as [|o h IH]; intros s a st Ha Hst; cbn; [reflexivity|].
  destruct o; cbn.
  - destruct (r_flag s) eqn:E.
    + (* refused *)
      destruct (rpc_run s h) as [s2 rs] eqn:R. cbn.
      assert (a = false) by (destruct a; auto; specialize (Ha eq_refl); congruence). subst a. cbn.
      replace rs with (snd (rpc_run s h)) by (rewrite R; reflexivity).
      rewrite IH; [destruct st as [k0|]; cbn; [destruct (self_ends k0)|]; reflexivity | discriminate | cbn; intros; exact E].
    + destruct (rpc_run (mkR true (RunLive k)) h) as [s2 rs] eqn:R. cbn.
      assert (st = None) by (destruct st as [k0|]; auto; specialize (Hst k0 eq_refl); congruence). subst st. cbn.
      replace rs with (snd (rpc_run (mkR true (RunLive k)) h)) by (rewrite R; reflexivity).
      rewrite IH; [destruct a; reflexivity | discriminate | cbn; intros; reflexivity].
  - set (s1 := match r_run s with
               | RunLive k => if self_ends k then mkR (r_flag s) RunDead else s
               | _ => s
               end).
    assert (F : r_flag s1 = r_flag s).
    { unfold s1. destruct (r_run s) as [|k|]; auto. destruct (self_ends k); reflexivity. }
    destruct (rpc_run s1 h) as [s2 rs] eqn:R. cbn.
    replace rs with (snd (rpc_run s1 h)) by (rewrite R; reflexivity).
    apply IH; rewrite F; assumption.
  - destruct (negb (r_flag s)) eqn:E.
    + destruct (rpc_run s h) as [s2 rs] eqn:R. cbn.
      replace rs with (snd (rpc_run s h)) by (rewrite R; reflexivity).
      apply IH; [intros _; apply negb_true_iff in E; exact E | discriminate].
    + destruct (rpc_run (mkR false RunNone) h) as [s2 rs] eqn:R. cbn.
      replace rs with (snd (rpc_run (mkR false RunNone) h)) by (rewrite R; reflexivity).
      apply IH; [reflexivity | discriminate].
  - (* a request *)
    assert (D : exists s1 r, rpc_step s RReq = (s1, Some r) /\
                  ((r = ROk /\ s1 = s) \/ (r = RErr /\ r_flag s1 = false))).
    { cbn. destruct (negb (r_flag s)) eqn:E.
      - exists s, RErr. split; [reflexivity|]. right. split; [reflexivity | apply negb_true_iff in E; exact E].
      - destruct (r_run s) as [|k|]; [exists (mkR false RunNone), RErr; split; [reflexivity | right; split; reflexivity]
                                     | | exists (mkR false RunNone), RErr; split; [reflexivity | right; split; reflexivity]].
        destruct (self_ends k); [exists (mkR false RunNone), RErr; split; [reflexivity | right; split; reflexivity]
                                | exists s, ROk; split; [reflexivity | left; split; reflexivity]]. }
    destruct D as (s1 & r & Hstep & Hr). cbn [rpc_step] in Hstep. rewrite Hstep.
    destruct (rpc_run s1 h) as [s2 rs] eqn:R. cbn.
    replace rs with (snd (rpc_run s1 h)) by (rewrite R; reflexivity).
    destruct Hr as [[-> ->] | [-> F]].
    + apply IH; assumption.
    + apply IH; [intros _; exact F | discriminate].
Qed.

Lemma last_call_stop_flag h : forall s acc,
  rinv s ->
  (acc = Some RStop -> r_flag s = false) ->
  last_call h acc = Some RStop ->
  let s' := fst (rpc_run s h) in r_flag s' = false /\ r_run s' = RunNone.
Proof.
  induction h as [|o h IH]; intros s acc HI Hacc HL; cbn in *.
  - split; [auto | apply HI; auto].
  - pose proof (rinv_step s o HI) as HI1.
    destruct o; [cbn in * | cbn in * | cbn in * | ].
    + destruct (r_flag s) eqn:E; cbn in *.
      * specialize (IH s (Some (RStart k)) HI). destruct (rpc_run s h) as [s2 rs]. cbn in *. apply IH; [discriminate | assumption].
      * specialize (IH (mkR true (RunLive k)) (Some (RStart k)) HI1).
        destruct (rpc_run (mkR true (RunLive k)) h) as [s2 rs]. cbn in *. apply IH; [discriminate | assumption].
    + match goal with |- context [rpc_run ?x h] => set (s1 := x) in * end.
      assert (F : r_flag s1 = r_flag s).
      { unfold s1. destruct (r_run s) as [|k|]; auto. destruct (self_ends k); reflexivity. }
      specialize (IH s1 acc HI1). destruct (rpc_run s1 h) as [s2 rs]. cbn in *.
      apply IH; [rewrite F; assumption | assumption].
    + destruct (negb (r_flag s)) eqn:E; cbn in *.
      * specialize (IH s (Some RStop) HI). destruct (rpc_run s h) as [s2 rs]. cbn in *.
        apply IH; [intros _; apply negb_true_iff in E; exact E | assumption].
      * specialize (IH (mkR false RunNone) (Some RStop) HI1).
        destruct (rpc_run (mkR false RunNone) h) as [s2 rs]. cbn in *. apply IH; [reflexivity | assumption].
    + (* a request *)
      cbn [last_call] in HL. cbn [rpc_run]. clear HI1. pose proof (rinv_step s RReq HI) as HI1.
      destruct (rpc_step s RReq) as [s1 r] eqn:Hstep. cbn [fst] in HI1.
      specialize (IH s1 (Some RReq) HI1). destruct (rpc_run s1 h) as [s2 rs]. cbn in *.
      apply IH; [discriminate | assumption].
Qed.

Definition is_live (s : rstate) : bool := match r_run s with RunLive _ => true | _ => false end.

Lemma rpc_model_passes_checker h :
  C10_rpc_check (mkRobs h (snd (rpc_run rpc_init h)) false (r_flag (fst (rpc_run rpc_init h))) (is_live (fst (rpc_run rpc_init h)))) = true.
Proof.
  unfold C10_rpc_check. cbn [ro_crashed ro_ops ro_classes ro_flag ro_active negb andb].
  rewrite walk_ok; [| discriminate | discriminate]. cbn [andb].
  unfold ends_with_stop. destruct (last_call h None) as [[k| | |]|] eqn:L; try reflexivity.
  destruct (last_call_stop_flag h rpc_init None rinv_init ltac:(discriminate) L) as [F R].
  unfold is_live. rewrite F, R. reflexivity.
Qed.
