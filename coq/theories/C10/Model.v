(* C10 — mirror model of the source life cycle (definitions only, no proofs).

   Mirrors /repo/data_source.go: Start, CoreLoop, (AnySource).Stop, RunDoneActivate/Deactivate/Wait,
   closeIfOpen, SetStateStarting/SetStateInactive, and the producer side of
   simulated_data_sources.go (Triangle/SimPulse/Erroring StartRun loops), abaco.go (Sample opens the
   devices, readerMainLoop + getNextBlock close nextBlock and the devices on abort or timeout) and
   lancero_source.go (StartRun starts adapter/collector, launchLanceroReader + getNextBlock stop them).

   Threads (actions): the caller of Start (six steps, each able to fail according to the configured
   fault), the core loop, the producer (an unobserved thread; its `select` is an explicit choice in
   the action id), and n callers of Stop.  The n stoppers are symmetric, so the state records HOW MANY
   of them are at each program location (exact for symmetric threads; n is any natural number).

   Granularity: one step = one atomic operation on shared state (a critical section of
   sourceStateLock, a channel operation, a WaitGroup operation) or the passage of a named
   synchronisation point (verifPoint in the Go code).  A thread is modelled as PARKED at a point and
   the step that leaves the point carries the point's name as a label; all other steps are silent.
   Stop parks twice while it holds sourceStateLock (stop:locked, stop:abort-closed), so the lock is
   explicit.

   Reading (DESIGN.md §7 C10): Stop is issued only after Start has returned — Stop on a source that is
   still Starting panics by design and SourceControl never issues it; the transition is kept (crash).

   [c_fixed = true] is the code after the fix commit (every error path of Start releases what
   Sample/StartRun acquired); [c_fixed = false] is the code as it was, used by the _refuted theorem.
   [c_fair = true] makes the producer's fairness assumption explicit: after abort is closed it may emit
   at most [budget] further blocks before its select takes the abort case. *)
From Coq Require Import List Arith Lia Bool.
From Dastard Require Import C10.Conc.
Import ListNotations.

Inductive sstate := Inactive | Starting | Active | Stopping.
Inductive chan := ChNil | ChOpen | ChClosed.
Inductive kind := KSim | KErr | KAbaco | KLancero.
(* where Start fails: Sample before / after it opened devices, PrepareChannels, PrepareRun,
   StartRun before / after the adapter was started *)
Inductive fault := FNone | FSample | FSampleLate | FChannels | FPrepare | FRunEarly | FRunLate.
Inductive blk := BNormal | BErr.

Inductive starter_pc := StIdle | StAt (p : spt) | StDo (p : spt) | StAtRD | StDoRD | StRet (r : rc) | StDone (r : rc).
Inductive core_pc := CNone | CAtSel | CSel | CProc | CAtBlk | CAtRet | CAtRD | CDoRD | CDone.
Inductive prod_pc := PNone | PLoop | PSend (b : blk) | PClosing | PDone.

(* program locations of a Stop caller, and how many callers are at each *)
Inductive sloc := LIdle | LLocked | LSwitch | LAtAbort | LWait | LAtWaited | LPost | LAtRet | LRetOk | LRetErr | LDoneOk | LDoneErr.
Record stops := mkStops { n_idle : nat; n_locked : nat; n_switch : nat; n_atabort : nat; n_wait : nat; n_atwaited : nat; n_post : nat; n_atret : nat; n_ret_ok : nat; n_ret_err : nat; n_done_ok : nat; n_done_err : nat }.

Definition sloc_eqb (a b : sloc) : bool :=
  match a, b with
  | LIdle, LIdle => true
  | LLocked, LLocked => true
  | LSwitch, LSwitch => true
  | LAtAbort, LAtAbort => true
  | LWait, LWait => true
  | LAtWaited, LAtWaited => true
  | LPost, LPost => true
  | LAtRet, LAtRet => true
  | LRetOk, LRetOk => true
  | LRetErr, LRetErr => true
  | LDoneOk, LDoneOk => true
  | LDoneErr, LDoneErr => true
  | _, _ => false
  end.

Definition cnt (m : stops) (l : sloc) : nat :=
  match l with
  | LIdle => n_idle m
  | LLocked => n_locked m
  | LSwitch => n_switch m
  | LAtAbort => n_atabort m
  | LWait => n_wait m
  | LAtWaited => n_atwaited m
  | LPost => n_post m
  | LAtRet => n_atret m
  | LRetOk => n_ret_ok m
  | LRetErr => n_ret_err m
  | LDoneOk => n_done_ok m
  | LDoneErr => n_done_err m
  end.

(* one caller moves from location a to location b *)
Definition mv (a b l : sloc) (x : nat) : nat :=
  (if sloc_eqb l b then S else fun y => y) ((if sloc_eqb l a then pred else fun y => y) x).
Definition st_move (m : stops) (a b : sloc) : stops :=
  mkStops (mv a b LIdle (n_idle m)) (mv a b LLocked (n_locked m)) (mv a b LSwitch (n_switch m)) (mv a b LAtAbort (n_atabort m)) (mv a b LWait (n_wait m)) (mv a b LAtWaited (n_atwaited m)) (mv a b LPost (n_post m)) (mv a b LAtRet (n_atret m)) (mv a b LRetOk (n_ret_ok m)) (mv a b LRetErr (n_ret_err m)) (mv a b LDoneOk (n_done_ok m)) (mv a b LDoneErr (n_done_err m)).

Record cfg := mkCfg { c_kind : kind; c_fault : fault; c_write : bool; c_fixed : bool; c_fair : bool }.

Record state := mkState {
  sst : sstate;          (* ds.sourceState *)
  lock : bool;           (* sourceStateLock held by a Stop caller parked inside its critical section *)
  abort : chan;          (* ds.abortSelf *)
  nb : chan;             (* ds.nextBlock: open / closed (a pending send is the producer's pc) *)
  rd : nat;              (* ds.runDone counter *)
  dev : bool;            (* Abaco devices (UDP sockets / rings) open *)
  adapter : bool;        (* Lancero adapter / collector running *)
  writing : bool;        (* ds.writingState.Active *)
  delivered : bool;      (* a block has been processed since the last Start *)
  budget : nat;          (* blocks the producer may still emit after abort is closed (c_fair) *)
  starter : starter_pc;
  core : core_pc;
  prod : prod_pc;
  st : stops;
  crashed : bool }.

Definition set_sst (s : state) (v : sstate) : state :=
  mkState v (lock s) (abort s) (nb s) (rd s) (dev s) (adapter s) (writing s) (delivered s) (budget s) (starter s) (core s) (prod s) (st s) (crashed s).
Definition set_lock (s : state) (v : bool) : state :=
  mkState (sst s) v (abort s) (nb s) (rd s) (dev s) (adapter s) (writing s) (delivered s) (budget s) (starter s) (core s) (prod s) (st s) (crashed s).
Definition set_abort (s : state) (v : chan) : state :=
  mkState (sst s) (lock s) v (nb s) (rd s) (dev s) (adapter s) (writing s) (delivered s) (budget s) (starter s) (core s) (prod s) (st s) (crashed s).
Definition set_nb (s : state) (v : chan) : state :=
  mkState (sst s) (lock s) (abort s) v (rd s) (dev s) (adapter s) (writing s) (delivered s) (budget s) (starter s) (core s) (prod s) (st s) (crashed s).
Definition set_rd (s : state) (v : nat) : state :=
  mkState (sst s) (lock s) (abort s) (nb s) v (dev s) (adapter s) (writing s) (delivered s) (budget s) (starter s) (core s) (prod s) (st s) (crashed s).
Definition set_dev (s : state) (v : bool) : state :=
  mkState (sst s) (lock s) (abort s) (nb s) (rd s) v (adapter s) (writing s) (delivered s) (budget s) (starter s) (core s) (prod s) (st s) (crashed s).
Definition set_adapter (s : state) (v : bool) : state :=
  mkState (sst s) (lock s) (abort s) (nb s) (rd s) (dev s) v (writing s) (delivered s) (budget s) (starter s) (core s) (prod s) (st s) (crashed s).
Definition set_writing (s : state) (v : bool) : state :=
  mkState (sst s) (lock s) (abort s) (nb s) (rd s) (dev s) (adapter s) v (delivered s) (budget s) (starter s) (core s) (prod s) (st s) (crashed s).
Definition set_delivered (s : state) (v : bool) : state :=
  mkState (sst s) (lock s) (abort s) (nb s) (rd s) (dev s) (adapter s) (writing s) v (budget s) (starter s) (core s) (prod s) (st s) (crashed s).
Definition set_budget (s : state) (v : nat) : state :=
  mkState (sst s) (lock s) (abort s) (nb s) (rd s) (dev s) (adapter s) (writing s) (delivered s) v (starter s) (core s) (prod s) (st s) (crashed s).
Definition set_starter (s : state) (v : starter_pc) : state :=
  mkState (sst s) (lock s) (abort s) (nb s) (rd s) (dev s) (adapter s) (writing s) (delivered s) (budget s) v (core s) (prod s) (st s) (crashed s).
Definition set_core (s : state) (v : core_pc) : state :=
  mkState (sst s) (lock s) (abort s) (nb s) (rd s) (dev s) (adapter s) (writing s) (delivered s) (budget s) (starter s) v (prod s) (st s) (crashed s).
Definition set_prod (s : state) (v : prod_pc) : state :=
  mkState (sst s) (lock s) (abort s) (nb s) (rd s) (dev s) (adapter s) (writing s) (delivered s) (budget s) (starter s) (core s) v (st s) (crashed s).
Definition set_st (s : state) (v : stops) : state :=
  mkState (sst s) (lock s) (abort s) (nb s) (rd s) (dev s) (adapter s) (writing s) (delivered s) (budget s) (starter s) (core s) (prod s) v (crashed s).
Definition set_crashed (s : state) (v : bool) : state :=
  mkState (sst s) (lock s) (abort s) (nb s) (rd s) (dev s) (adapter s) (writing s) (delivered s) (budget s) (starter s) (core s) (prod s) (st s) v.

(* ---------- the caller of Start ---------- *)

Definition acq_sample (k : kind) : bool := match k with KAbaco => true | _ => false end.
Definition acq_run (k : kind) : bool := match k with KLancero => true | _ => false end.
Definition open_dev (c : cfg) (s : state) : state := if acq_sample (c_kind c) then set_dev s true else s.
Definition start_adapter (c : cfg) (s : state) : state := if acq_run (c_kind c) then set_adapter s true else s.

(* closeDevices / ls.stop *)
Definition release_all (s : state) : state := set_adapter (set_dev s false) false.
(* what Start does with acquired resources on an error path: the fixed code releases them, the old code did nothing *)
Definition cleanup (c : cfg) (s : state) : state := if c_fixed c then release_all s else s.
(* cleanup; ds.SetStateInactive(); return err *)
Definition fail_start (c : cfg) (s : state) : option state :=
  if lock s then None else Some (set_starter (set_sst (cleanup c s) Inactive) (StRet RErr)).

Definition step_starter (c : cfg) (s : state) : option state :=
  match starter s with
  | StIdle =>                                    (* SetStateStarting *)
      if lock s then None else
      match sst s with
      | Inactive => Some (set_starter (set_sst s Starting) (StAt SP1))
      | _ => Some (set_starter s (StRet RErr))
      end
  | StAt p => Some (set_starter s (StDo p))      (* leave the point *)
  | StDo SP1 =>                                  (* Sample *)
      match c_fault c with
      | FSample => fail_start c s
      | FSampleLate => fail_start c (open_dev c s)
      | _ => Some (set_starter (open_dev c s) (StAt SP2))
      end
  | StDo SP2 =>                                  (* PrepareChannels *)
      match c_fault c with
      | FChannels => fail_start c s
      | _ => Some (set_starter s (StAt SP3))
      end
  | StDo SP3 =>                                  (* PrepareRun: fresh abortSelf / nextBlock *)
      match c_fault c with
      | FPrepare => fail_start c s
      | _ => Some (set_starter (set_delivered (set_nb (set_abort s ChOpen) ChOpen) false) (StAt SP4))
      end
  | StDo SP4 =>                                  (* RunDoneActivate *)
      if lock s then None else Some (set_starter (set_rd (set_sst s Active) (S (rd s))) (StAt SP5))
  | StDo SP5 =>                                  (* StartRun *)
      match c_fault c with
      | FRunEarly => Some (set_starter (cleanup c s) StAtRD)
      | FRunLate => Some (set_starter (cleanup c (start_adapter c s)) StAtRD)
      | _ => Some (set_starter (set_prod (start_adapter c s) PLoop) (StAt SP6))
      end
  | StDo SP6 =>                                  (* go CoreLoop; return nil *)
      Some (set_starter (set_writing (set_core s CAtSel) (c_write c)) (StRet ROk))
  | StAtRD => Some (set_starter s StDoRD)
  | StDoRD =>                                    (* RunDoneDeactivate on the StartRun error path *)
      if lock s then None else Some (set_starter (set_rd (set_sst s Inactive) (pred (rd s))) (StRet RErr))
  | StRet r => Some (set_starter s (StDone r))   (* Start returns *)
  | StDone _ => None
  end.

(* ---------- CoreLoop ---------- *)

Definition step_core (c : cfg) (s : state) : option state :=
  match core s with
  | CNone | CDone => None
  | CAtSel => Some (set_core s CSel)
  | CSel =>                                      (* select on nextBlock *)
      match prod s with
      | PSend BNormal => Some (set_prod (set_core s CProc) PLoop)
      | PSend BErr => Some (set_prod (set_core s CAtRet) PDone)
      | _ => match nb s with
             | ChClosed => Some (set_core s CAtRet)
             | _ => None
             end
      end
  | CProc => Some (set_delivered (set_core s CAtBlk) true)   (* ProcessSegments; getNextBlock *)
  | CAtBlk => Some (set_core s CAtSel)
  | CAtRet =>                                    (* return: the deferred function stops the writing (fix) ... *)
      Some (set_core (if c_fixed c then set_writing s false else s) CAtRD)
  | CAtRD => Some (set_core s CDoRD)
  | CDoRD =>                                     (* deferred RunDoneDeactivate *)
      if lock s then None else Some (set_core (set_rd (set_sst s Inactive) (pred (rd s))) CDone)
  end.

(* ---------- the producer (unobserved) ---------- *)

Inductive pchoice := PTick | PAbort | PSelf.

(* the abort / timeout branch, two separate operations: first give the hardware back (closeDevices / ls.stop),
   then close(nextBlock) and exit.  The order matters: the core loop, and through it every Stop caller, is let go
   by the second one. *)
Definition begin_close (s : state) : state := set_prod (release_all s) PClosing.
Definition finish_close (s : state) : state := set_prod (set_nb s ChClosed) PDone.

Definition step_prod (c : cfg) (s : state) (ch : pchoice) : option state :=
  match prod s with
  | PLoop =>
      match ch with
      | PTick =>
          match c_kind c with
          | KErr => Some (set_prod s (PSend BErr))
          | _ =>
              match abort s with
              | ChClosed =>
                  if c_fair c
                  then match budget s with
                       | O => None
                       | S b => Some (set_prod (set_budget s b) (PSend BNormal))
                       end
                  else Some (set_prod s (PSend BNormal))
              | _ => Some (set_prod s (PSend BNormal))
              end
          end
      | PAbort =>
          match c_kind c, abort s with
          | KErr, _ => None                       (* ErroringSource never looks at abortSelf *)
          | _, ChClosed => Some (begin_close s)
          | _, _ => None
          end
      | PSelf =>                                  (* Abaco: no data for 5 s *)
          match c_kind c with
          | KAbaco => Some (begin_close s)
          | _ => None
          end
      end
  | PClosing => match ch with PAbort => Some (finish_close s) | _ => None end
  | _ => None
  end.

(* ---------- callers of Stop ---------- *)

Inductive sact := ACall | ARelLocked | ASwitch | ARelAbort | AWait | ARelWaited | APost | ARelRet | ARetOk | ARetErr.

Definition starter_done (s : state) : bool := match starter s with StDone _ => true | _ => false end.

Definition move (s : state) (a b : sloc) : state := set_st s (st_move (st s) a b).

Definition step_stop (c : cfg) (s : state) (a : sact) : option state :=
  let m := st s in
  match a with
  | ACall =>                                     (* Stop(): sourceStateLock.Lock() *)
      if (0 <? n_idle m) && negb (lock s) && starter_done s
      then Some (set_lock (move s LIdle LLocked) true) else None
  | ARelLocked => if 0 <? n_locked m then Some (move s LLocked LSwitch) else None
  | ASwitch =>
      if 0 <? n_switch m then
        match sst s with
        | Inactive => Some (set_lock (move s LSwitch LRetErr) false)
        | Starting => Some (set_crashed s true)
        | Stopping => Some (set_lock (move s LSwitch LRetOk) false)
        | Active => Some (set_abort (set_sst (move s LSwitch LAtAbort) Stopping) ChClosed)
        end
      else None
  | ARelAbort => if 0 <? n_atabort m then Some (set_lock (move s LAtAbort LWait) false) else None
  | AWait => if (0 <? n_wait m) && (rd s =? 0) then Some (move s LWait LAtWaited) else None
  | ARelWaited => if 0 <? n_atwaited m then Some (move s LAtWaited LPost) else None
  | APost => if 0 <? n_post m then Some (set_writing (move s LPost LAtRet) false) else None
  | ARelRet => if 0 <? n_atret m then Some (move s LAtRet LRetOk) else None
  | ARetOk => if 0 <? n_ret_ok m then Some (move s LRetOk LDoneOk) else None
  | ARetErr => if 0 <? n_ret_err m then Some (move s LRetErr LDoneErr) else None
  end.

(* ---------- the system ---------- *)

Inductive tid := TStarter | TCore | TProd (ch : pchoice) | TStop (a : sact).

Definition step (c : cfg) (s : state) (t : tid) : option state :=
  if crashed s then None else
  match t with
  | TStarter => step_starter c s
  | TCore => step_core c s
  | TProd ch => step_prod c s ch
  | TStop a => step_stop c s a
  end.

Definition all_tids : list tid :=
  [TStarter; TCore; TProd PTick; TProd PAbort; TProd PSelf;
   TStop ACall; TStop ARelLocked; TStop ASwitch; TStop ARelAbort; TStop AWait; TStop ARelWaited;
   TStop APost; TStop ARelRet; TStop ARetOk; TStop ARetErr].

(* the label a step shows to the outside (None = silent) *)
Definition label_of (s : state) (t : tid) : option label :=
  match t with
  | TStarter => match starter s with
                | StAt p => Some (LPt (PStart p))
                | StAtRD => Some (LPt PRunDone)
                | StRet r => Some (LRet CallStart r)
                | _ => None
                end
  | TCore => match core s with
             | CAtSel => Some (LPt PCoreSel)
             | CAtBlk => Some (LPt PCoreBlk)
             | CAtRet => Some (LPt PCoreRet)
             | CAtRD => Some (LPt PRunDone)
             | _ => None
             end
  | TProd _ => None
  | TStop a => match a with
               | ARelLocked => Some (LPt PStopLocked)
               | ARelAbort => Some (LPt PStopAbort)
               | ARelWaited => Some (LPt PStopWaited)
               | ARelRet => Some (LPt PStopRet)
               | ARetOk => Some (LRet CallStop ROk)
               | ARetErr => Some (LRet CallStop RErr)
               | _ => None
               end
  end.

Definition init_stops (n : nat) : stops := mkStops n 0 0 0 0 0 0 0 0 0 0 0.

(* a source that has never been started *)
Definition init_state (n B : nat) : state :=
  mkState Inactive false ChNil ChNil 0 false false false false B StIdle CNone PNone (init_stops n) false.

(* ... or one that has been through earlier start/stop cycles: the two channels and the
   delivered flag hold whatever the last cycle left (PrepareRun replaces them) *)
Definition Initial (n B : nat) (s : state) : Prop :=
  exists a b d, s = mkState Inactive false a b 0 false false false d B StIdle CNone PNone (init_stops n) false.

(* every thread has run to completion *)
Definition stoppers_done (n : nat) (s : state) : bool :=
  n_done_ok (st s) + n_done_err (st s) =? n.
Definition workers_exited (s : state) : bool :=
  match core s, prod s with
  | (CNone | CDone), (PNone | PDone) => true
  | _, _ => false
  end.
Definition finished (n : nat) (s : state) : bool :=
  starter_done s && stoppers_done n s && workers_exited s.

(* re-arming the callers for another cycle: a new Start call, m new Stop callers, a new budget *)
Definition rearm (m B : nat) (s : state) : state :=
  set_budget (set_st (set_prod (set_core (set_starter s StIdle) CNone) PNone) (init_stops m)) B.
