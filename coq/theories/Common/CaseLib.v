(* Shared vocabulary of the correspondence check.  A generated shard file cases_*.v defines
   [cases : list (Z * case)] and evaluates [bad_cases verdict cases] by vm_compute.
   Codes:  0 agree (and the observable checker accepts the implementation's output)
           1 implementation output rejected by the property checker   (a real violation)
           2 implementation and model differ but the checker accepts  (model no longer mirrors code)
           3 implementation = model yet checker rejects               (contradicts a theorem) *)
From Dastard Require Import Common.ZX.

Definition verdict_code (agree check : bool) : Z :=
  match agree, check with
  | true, true => 0
  | false, false => 1
  | false, true => 2
  | true, false => 3
  end.

Definition bad_cases {C} (verdict : C -> Z * Z) (cases : list (Z * C)) : list (Z * (Z * Z)) :=
  flat_map (fun ic => let v := verdict (snd ic) in
                      if fst v =? 0 then [] else [(fst ic, v)]) cases.
