(* Common integer / list helpers shared by all models.  No axioms. *)
From Coq Require Export ZArith List Lia Bool.
From Coq Require Import ZifyBool ZifyNat.
Export ListNotations.
Open Scope Z_scope.

(* ---------- Go panics are explicit results, never defaults ---------- *)
Inductive res (A : Type) : Type :=
| Ok (a : A)
| Panic.
Arguments Ok {A} a.
Arguments Panic {A}.

Definition rbind {A B} (x : res A) (f : A -> res B) : res B :=
  match x with Ok a => f a | Panic => Panic end.

(* ---------- lists indexed by Z ---------- *)
Definition zlen {A} (l : list A) : Z := Z.of_nat (length l).

Definition znth {A} (d : A) (l : list A) (i : Z) : A :=
  if i <? 0 then d else nth (Z.to_nat i) l d.

(* [zrange a n] = [a; a+1; ...; a+n-1] *)
Fixpoint zrange_nat (a : Z) (n : nat) : list Z :=
  match n with O => [] | S n' => a :: zrange_nat (a + 1) n' end.
Definition zrange (a n : Z) : list Z := zrange_nat a (Z.to_nat n).

Definition zfirstn {A} (n : Z) (l : list A) : list A := firstn (Z.to_nat n) l.
Definition zskipn  {A} (n : Z) (l : list A) : list A := skipn  (Z.to_nat n) l.
(* slice l a n = l[a .. a+n) *)
Definition zslice {A} (l : list A) (a n : Z) : list A := zfirstn n (zskipn a l).

Fixpoint list_eqb {A} (eqb : A -> A -> bool) (a b : list A) : bool :=
  match a, b with
  | [], [] => true
  | x :: a', y :: b' => eqb x y && list_eqb eqb a' b'
  | _, _ => false
  end.

Lemma list_eqb_eq {A} (eqb : A -> A -> bool) :
  (forall x y, eqb x y = true <-> x = y) ->
  forall a b, list_eqb eqb a b = true <-> a = b.
Proof.
  intros H a; induction a as [|x a IH]; intros [|y b]; simpl; split; intro E;
    try reflexivity; try discriminate.
  - apply andb_true_iff in E as [E1 E2]. apply H in E1. apply IH in E2. now subst.
  - inversion E; subst. apply andb_true_iff; split; [now apply H | now apply IH].
Qed.

Definition zlist_eqb := list_eqb Z.eqb.
Lemma zlist_eqb_eq a b : zlist_eqb a b = true <-> a = b.
Proof. apply list_eqb_eq. intros; apply Z.eqb_eq. Qed.

Lemma zlen_nonneg {A} (l : list A) : 0 <= zlen l.
Proof. unfold zlen; lia. Qed.

Lemma zlen_app {A} (a b : list A) : zlen (a ++ b) = zlen a + zlen b.
Proof. unfold zlen; rewrite app_length; lia. Qed.

Lemma zrange_nat_length a n : length (zrange_nat a n) = n.
Proof. revert a; induction n; simpl; intros; [reflexivity | now rewrite IHn]. Qed.

Lemma zrange_nat_nth a n k d : (k < n)%nat -> nth k (zrange_nat a n) d = a + Z.of_nat k.
Proof.
  revert a k; induction n as [|n IH]; intros a k Hk; [lia|].
  destruct k as [|k]; cbn [zrange_nat nth]; [lia|]. rewrite IH by lia. lia.
Qed.

Lemma zrange_nat_app a n m :
  zrange_nat a (n + m) = zrange_nat a n ++ zrange_nat (a + Z.of_nat n) m.
Proof.
  revert a; induction n as [|n IH]; intros a.
  - cbn [zrange_nat Nat.add app]. f_equal. lia.
  - cbn [zrange_nat Nat.add app]. rewrite IH. f_equal. f_equal. f_equal. lia.
Qed.

Lemma zrange_length a n : zlen (zrange a n) = Z.max 0 n.
Proof. unfold zrange, zlen; rewrite zrange_nat_length; lia. Qed.

Lemma zrange_app a n m : 0 <= n -> 0 <= m ->
  zrange a (n + m) = zrange a n ++ zrange (a + n) m.
Proof.
  intros Hn Hm; unfold zrange. rewrite Z2Nat.inj_add by lia.
  rewrite zrange_nat_app. now rewrite Z2Nat.id by lia.
Qed.

(* ---------- wrap-around arithmetic with a variable modulus ---------- *)
Lemma mod_add_small c w k :
  0 < c -> 0 <= k -> w mod c + k < c -> (w + k) mod c = w mod c + k.
Proof.
  intros Hc Hk Hlt. symmetry. apply Z.mod_unique with (q := w / c).
  - left. pose proof (Z.mod_pos_bound w c Hc). lia.
  - pose proof (Z.div_mod w c ltac:(lia)). lia.
Qed.

Lemma mod_add_wrap c w k :
  0 < c -> c <= w mod c + k < 2 * c -> (w + k) mod c = w mod c + k - c.
Proof.
  intros Hc Hlt. symmetry. apply Z.mod_unique with (q := w / c + 1).
  - left. lia.
  - pose proof (Z.div_mod w c ltac:(lia)). lia.
Qed.

Lemma mod_neq_of_close c i j : 0 < c -> 0 < j - i < c -> i mod c <> j mod c.
Proof.
  intros Hc Hd E.
  pose proof (Z.div_mod i c ltac:(lia)). pose proof (Z.div_mod j c ltac:(lia)).
  assert (j - i = c * (j / c - i / c)) by lia.
  assert (0 < j / c - i / c < 1) by nia. lia.
Qed.

Lemma div_same_iff_no_wrap c w k :
  0 < c -> 0 <= k -> ((w + k) / c >? w / c) = false -> w mod c + k < c.
Proof.
  intros Hc Hk H. rewrite Z.gtb_ltb in H. rewrite Z.ltb_ge in H.
  pose proof (Z.div_mod w c ltac:(lia)). pose proof (Z.div_mod (w + k) c ltac:(lia)).
  pose proof (Z.mod_pos_bound w c Hc). pose proof (Z.mod_pos_bound (w + k) c Hc).
  assert ((w + k) / c >= w / c) by (apply Z.le_ge, Z.div_le_mono; lia).
  assert ((w + k) / c = w / c) by lia. nia.
Qed.

Lemma div_grows_wrap c w k :
  0 < c -> 0 <= k -> ((w + k) / c >? w / c) = true -> c <= w mod c + k.
Proof.
  intros Hc Hk H. rewrite Z.gtb_ltb in H. rewrite Z.ltb_lt in H.
  pose proof (Z.div_mod w c ltac:(lia)). pose proof (Z.div_mod (w + k) c ltac:(lia)).
  pose proof (Z.mod_pos_bound w c Hc). pose proof (Z.mod_pos_bound (w + k) c Hc).
  nia.
Qed.

(* ---------- maps over ranges, slices as maps ---------- *)
Lemma map_zrange_nat_ext {B} (f g : Z -> B) a b n :
  (forall k, 0 <= k < Z.of_nat n -> f (a + k) = g (b + k)) ->
  map f (zrange_nat a n) = map g (zrange_nat b n).
Proof.
  revert a b; induction n as [|n IH]; intros a b H; cbn [zrange_nat map]; [reflexivity|].
  f_equal.
  - specialize (H 0 ltac:(lia)). now replace (a + 0) with a in H by lia; replace (b + 0) with b in H by lia.
  - apply IH. intros k Hk. specialize (H (1 + k) ltac:(lia)).
    now replace (a + (1 + k)) with (a + 1 + k) in H by lia; replace (b + (1 + k)) with (b + 1 + k) in H by lia.
Qed.

Lemma map_zrange_ext {B} (f g : Z -> B) a b n :
  (forall k, 0 <= k < n -> f (a + k) = g (b + k)) ->
  map f (zrange a n) = map g (zrange b n).
Proof. intros H. unfold zrange. apply map_zrange_nat_ext. intros k Hk. apply H. lia. Qed.

Lemma nth_skipn_add {A} (d : A) a : forall (l : list A) i, nth i (skipn a l) d = nth (a + i) l d.
Proof.
  induction a as [|a IH]; intros l i; [reflexivity|].
  destruct l as [|x l]; cbn [skipn Nat.add nth]; [now destruct i | apply IH].
Qed.

Lemma nth_firstn_lt {A} (d : A) : forall n (l : list A) i, (i < n)%nat -> nth i (firstn n l) d = nth i l d.
Proof.
  induction n as [|n IH]; intros l i Hi; [lia|].
  destruct l as [|x l]; [now destruct i|]. destruct i as [|i]; cbn [firstn nth]; [reflexivity|].
  apply IH; lia.
Qed.

Lemma zslice_as_map {A} (d : A) (l : list A) a n :
  0 <= a -> 0 <= n -> a + n <= zlen l ->
  zslice l a n = map (znth d l) (zrange a n).
Proof.
  intros Ha Hn Hl. unfold zslice, zfirstn, zskipn, zrange, zlen in *.
  apply nth_ext with (d := d) (d' := d).
  - rewrite map_length, zrange_nat_length, firstn_length, skipn_length. lia.
  - intros i Hi. rewrite firstn_length, skipn_length in Hi.
    rewrite nth_firstn_lt by lia. rewrite nth_skipn_add.
    rewrite nth_indep with (d' := znth d l 0) (d := d) (l := map _ _)
      by (rewrite map_length, zrange_nat_length; lia).
    rewrite map_nth. rewrite zrange_nat_nth by lia. unfold znth.
    destruct (a + Z.of_nat i <? 0) eqn:E; [lia|]. f_equal. lia.
Qed.
