(* C08 — the property as a checker over OBSERVABLES only, and the Prop-level vocabulary of the theorems.

   Observables of one experiment: the edge-multi configuration, the stream retained by the channel at the moment
   edge-multi was (re)configured (samples + frame number of the first one), the samples delivered afterwards, and
   the records published when those samples arrive (A) as one block and (B) cut into several blocks — or the fact
   that processing crashed.  Nothing in the checker mentions the model. *)
From Dastard Require Import Common.ZX Pipeline.Stream C08.Model.

(* what is compared between deliveries: (trigger frame, pre-trigger length, samples) — the total length is the
   length of the sample list *)
Definition proj (r : record) : Z * Z * list Z := (r_frame r, r_pre r, r_data r).

Definition proj_eqb (a b : Z * Z * list Z) : bool :=
  let '(f1, p1, d1) := a in let '(f2, p2, d2) := b in (f1 =? f2) && (p1 =? p2) && zlist_eqb d1 d2.

Inductive outcome :=
| ORecs (blocks : list (list record))     (* records published per ProcessSegments cycle *)
| OCrash.                                  (* the process died (Go panic in the worker goroutine) *)

(* first sample and one-past-last sample of a record, as indices into the ground truth G (G[0] has frame F0) *)
Definition r_begin (F0 : Z) (r : record) : Z := r_frame r - F0 - r_pre r.
Definition r_end (F0 : Z) (r : record) : Z := r_begin F0 r + zlen (r_data r).

(* "never indexes outside": the record is the exact excerpt G[begin, end) of samples that exist *)
Definition rec_in_range (G : list Z) (F0 : Z) (r : record) : bool :=
  (0 <=? r_begin F0 r) && (r_end F0 r <=? zlen G)
  && zlist_eqb (r_data r) (zslice G (r_begin F0 r) (zlen (r_data r))).

(* "fixed-length modes always give full-length records" *)
Definition rec_full_length (c : cfg) (r : record) : bool :=
  (c_mode c =? 1) || ((r_pre r =? c_npre c) && (zlen (r_data r) =? c_nsamp c)).

(* consecutive records: strictly increasing frames; in variable-length mode the earlier record ends before the
   later one begins and at or before the later one's edge *)
Fixpoint pairwise_ok (c : cfg) (F0 : Z) (rs : list record) : bool :=
  match rs with
  | a :: ((b :: _) as rest) =>
      (r_frame a <? r_frame b)
      && (negb (c_mode c =? 1) || ((r_end F0 a <=? r_begin F0 b) && (r_end F0 a <=? r_frame b - F0)))
      && pairwise_ok c F0 rest
  | _ => true
  end.

Definition seq_ok (c : cfg) (G : list Z) (F0 : Z) (rs : list record) : bool :=
  forallb (rec_in_range G F0) rs && forallb (rec_full_length c) rs && pairwise_ok c F0 rs.

(* the whole statement on one experiment *)
Definition C08_check (c : cfg) (G : list Z) (F0 : Z) (a b : outcome) : bool :=
  match a, b with
  | ORecs ra, ORecs rb =>
      list_eqb proj_eqb (map proj (concat ra)) (map proj (concat rb))
      && seq_ok c G F0 (concat ra) && seq_ok c G F0 (concat rb)
  | _, _ => false
  end.

(* ---------------- Prop-level vocabulary ---------------- *)

(* "record lengths satisfying the validity rule": what the proofs need of AnySource.ConfigurePulseLengths
   (npre >= 3, nsamp >= npre+1) and EMTState.valid (refinement on => npre >= 4 and nsamp - npre >= 4); weaker than
   both, so the theorems cover every configuration the code accepts.  No condition on threshold, nmonotone, mode. *)
Definition cfg_ok (c : cfg) : Prop :=
  1 <= c_npre c /\ c_npre c < c_nsamp c /\ (c_zt c = true -> 4 <= c_npre c /\ 4 <= c_nsamp c - c_npre c).

(* the refinement moves a trigger by -1, 0 or +1 sample *)
Definition kink_ok (kink : list Z -> Z) : Prop := forall w, -1 <= kink w <= 1.

(* blocks arrive without gaps: each segment starts at the frame after the previous one's last sample *)
Fixpoint contiguous (F : Z) (segs : list segment) : Prop :=
  match segs with
  | [] => True
  | sg :: rest => seg_first sg = F /\ contiguous (F + zlen (seg_data sg)) rest
  end.

Definition seg_concat (segs : list segment) : list Z := concat (map seg_data segs).

(* frame just after the retained stream *)
Definition st_endframe (st : stream) : Z := st_first st + zlen (st_data st).

(* strictly increasing trigger frames *)
Fixpoint frames_increasing (rs : list record) : Prop :=
  match rs with
  | a :: ((b :: _) as rest) => r_frame a < r_frame b /\ frames_increasing rest
  | _ => True
  end.

(* variable-length records: pairwise disjoint, and none extends past the next record's edge *)
Fixpoint no_overlap (F0 : Z) (rs : list record) : Prop :=
  match rs with
  | a :: ((b :: _) as rest) =>
      r_end F0 a <= r_begin F0 b /\ r_end F0 a <= r_frame b - F0 /\ no_overlap F0 rest
  | _ => True
  end.

(* FULL STATEMENT of block independence (kept visible whether or not it is proved in full):
   from any retained stream st0 at (re)configuration, for any two ways of cutting the same samples into one or
   more gap-free blocks (blocks may be empty), both runs complete and publish the same sequence of
   (frame, pre-trigger length, samples).  (A delivery of no block at all never looks at the retained stream, so it
   is not comparable with a delivery of one empty block: both lists are required to be non-empty.) *)
Definition block_independent_statement : Prop :=
  forall (kink : list Z -> Z) (c : cfg) (st0 : stream) (segsA segsB : list segment),
    cfg_ok c -> kink_ok kink -> 0 <= st_first st0 ->
    segsA <> [] -> segsB <> [] ->
    contiguous (st_endframe st0) segsA -> contiguous (st_endframe st0) segsB ->
    seg_concat segsA = seg_concat segsB ->
    exists ra rb,
      run kink c st0 emt_reset segsA = EOk ra /\ run kink c st0 emt_reset segsB = EOk rb /\
      map proj (concat (snd ra)) = map proj (concat (snd rb)).
