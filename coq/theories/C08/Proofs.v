(* C08 — proofs about the edge-multi mirror model. *)
From Dastard Require Import Common.ZX Pipeline.Stream C08.Model C08.Spec.
From Coq Require Import ZifyBool ZifyNat.

Definition la (c : cfg) : Z := c_nsamp c - c_npre c.
Definition lb (zt : bool) : Z := if zt then 4 else 1.

Definition emap {A B} (f : A -> B) (x : eres A) : eres B :=
  match x with EOk a => EOk (f a) | EPanic => EPanic | EFuel => EFuel end.

(* ---------- zget ---------- *)
Lemma zget_ok raw i : 0 <= i < zlen raw -> exists x, zget raw i = EOk x.
Proof.
  unfold zget, zlen; intros H. destruct (i <? 0) eqn:E; [lia|].
  destruct (nth_error raw (Z.to_nat i)) eqn:N; [eauto|].
  apply nth_error_None in N. lia.
Qed.

Lemma zget_range raw i x : zget raw i = EOk x -> 0 <= i < zlen raw.
Proof.
  unfold zget, zlen. destruct (i <? 0) eqn:E; [discriminate|].
  destruct (nth_error raw (Z.to_nat i)) eqn:N; [|discriminate]. intros _.
  assert (nth_error raw (Z.to_nat i) <> None) by congruence.
  apply nth_error_Some in H. lia.
Qed.

Lemma zget_app_l a b i : i < zlen a -> zget (a ++ b) i = zget a i.
Proof.
  unfold zget, zlen; intros H. destruct (i <? 0) eqn:E; [reflexivity|].
  rewrite nth_error_app1 by lia. reflexivity.
Qed.

Lemma nth_error_skipn_add {A} d : forall (l : list A) k, nth_error (skipn d l) k = nth_error l (d + k).
Proof.
  induction d as [|d IH]; intros l k; [reflexivity|].
  destruct l as [|x l]; cbn [skipn Nat.add nth_error]; [now destruct k | apply IH].
Qed.

Lemma zget_zskipn raw d k : 0 <= d -> 0 <= k -> zget (zskipn d raw) k = zget raw (k + d).
Proof.
  intros Hd Hk. unfold zget, zskipn. destruct (k <? 0) eqn:E; [lia|]. destruct (k + d <? 0) eqn:E2; [lia|].
  rewrite nth_error_skipn_add. replace (Z.to_nat d + Z.to_nat k)%nat with (Z.to_nat (k + d)) by lia. reflexivity.
Qed.

(* two sample arrays agree on [lo, hi] up to the index shift d *)
Definition agree (lo hi d : Z) (r1 r2 : list Z) : Prop :=
  forall k, lo <= k <= hi -> zget r1 k = zget r2 (k + d).

Lemma agree_prefix a b lo : agree lo (zlen a - 1) 0 a (a ++ b).
Proof. intros k Hk. rewrite Z.add_0_r. symmetry. apply zget_app_l. lia. Qed.

Lemma agree_suffix raw d hi : 0 <= d -> agree 0 hi d (zskipn d raw) raw.
Proof. intros Hd k Hk. apply zget_zskipn; lia. Qed.

Lemma is_mono_agree lo hi d r1 r2 rising k :
  agree lo hi d r1 r2 -> lo <= k - 1 -> k <= hi ->
  is_mono r2 rising (k + d) = is_mono r1 rising k.
Proof.
  intros H H1 H2. unfold is_mono. rewrite (H k) by lia. rewrite (H (k - 1)) by lia.
  replace (k - 1 + d) with (k + d - 1) by lia. reflexivity.
Qed.

Lemma mono_scan_agree lo hi d r1 r2 rising i :
  agree lo hi d r1 r2 ->
  forall n j, lo <= i + j - 1 -> i + j + Z.of_nat n <= hi ->
  mono_scan n r2 rising (i + d) j = mono_scan n r1 rising i j.
Proof.
  intros H. induction n as [|n IH]; intros j H1 H2; cbn [mono_scan].
  - replace (i + d + j) with (i + j + d) by lia. rewrite (is_mono_agree lo hi d r1 r2) by (auto; lia). reflexivity.
  - replace (i + d + j) with (i + j + d) by lia. rewrite (is_mono_agree lo hi d r1 r2) by (auto; lia).
    destruct (is_mono r1 rising (i + j)) as [m| |]; cbn [ebind]; try reflexivity.
    destruct m; [|reflexivity]. apply IH; lia.
Qed.

Lemma window_agree lo hi d r1 r2 i :
  agree lo hi d r1 r2 -> lo <= i - 4 -> i + 3 <= hi -> window r2 (i + d) = window r1 i.
Proof.
  intros H H1 H2. unfold window.
  replace (i + d - 4) with (i - 4 + d) by lia. replace (i + d - 3) with (i - 3 + d) by lia.
  replace (i + d - 2) with (i - 2 + d) by lia. replace (i + d - 1) with (i - 1 + d) by lia.
  replace (i + d + 1) with (i + 1 + d) by lia. replace (i + d + 2) with (i + 2 + d) by lia.
  replace (i + d + 3) with (i + 3 + d) by lia.
  rewrite <- !H by lia. reflexivity.
Qed.

Section K.
Variable kink : list Z -> Z.

Lemma zero_threshold_agree lo hi d r1 r2 i zt :
  agree lo hi d r1 r2 -> lo <= i - lb zt -> (zt = true -> i + 3 <= hi) ->
  zero_threshold kink r2 (i + d) zt = emap (fun x => x + d) (zero_threshold kink r1 i zt).
Proof.
  intros H H1 H2. unfold zero_threshold. destruct zt; cbn [lb] in *; [|reflexivity].
  rewrite (window_agree lo hi d r1 r2) by (auto; lia).
  destruct (window r1 i); cbn [ebind emap]; try reflexivity. f_equal. lia.
Qed.

Definition shift2 (d : Z) (p : Z * Z) : Z * Z := (fst p + d, snd p + d).

Lemma find_loop_agree lo hi d r1 r2 thr nmono maxN zt :
  agree lo hi d r1 r2 -> 1 <= maxN -> (zt = true -> 3 <= maxN) ->
  forall n i, lo <= i - lb zt -> i + Z.of_nat n - 1 + maxN <= hi ->
  find_loop kink n r2 (i + d) thr nmono maxN zt
  = emap (option_map (shift2 d)) (find_loop kink n r1 i thr nmono maxN zt).
Proof.
  intros H HN Hz. induction n as [|n IH]; intros i H1 H2; cbn [find_loop]; [reflexivity|].
  assert (Hlb : 1 <= lb zt) by (destruct zt; cbn; lia).
  rewrite <- (H i) by lia. replace (i + d - 1) with (i - 1 + d) by lia. rewrite <- (H (i - 1)) by lia.
  destruct (zget r1 i) as [a| |]; cbn [ebind emap]; try reflexivity.
  destruct (zget r1 (i - 1)) as [b| |]; cbn [ebind emap]; try reflexivity.
  destruct ((thr >=? 1) && (a - b >=? thr) || negb (thr >=? 1) && (a - b <=? thr)).
  - rewrite (mono_scan_agree lo hi d r1 r2) by (auto; lia).
    destruct (mono_scan (Z.to_nat (maxN - 1)) r1 (thr >=? 1) i 1) as [fm| |]; cbn [ebind emap]; try reflexivity.
    destruct (fm >=? nmono).
    + rewrite (zero_threshold_agree lo hi d r1 r2) by (auto; intros; lia).
      destruct (zero_threshold kink r1 i zt); cbn [ebind emap option_map]; try reflexivity.
      unfold shift2; cbn [fst snd]. do 3 f_equal. lia.
    + replace (i + d + 1) with (i + 1 + d) by lia. apply IH; lia.
  - replace (i + d + 1) with (i + 1 + d) by lia. apply IH; lia.
Qed.

Definition shift_fn (d : Z) (p : option Z * Z) : option Z * Z := (option_map (fun x => x + d) (fst p), snd p + d).

Lemma find_next_agree lo hi d r1 r2 thr nmono maxN zt iF iL :
  agree lo hi d r1 r2 -> 1 <= maxN -> (zt = true -> 3 <= maxN) ->
  lo <= iF - lb zt -> iL + maxN <= hi ->
  find_next kink r2 (iF + d) (iL + d) thr nmono maxN zt
  = emap (shift_fn d) (find_next kink r1 iF iL thr nmono maxN zt).
Proof.
  intros H HN Hz H1 H2. unfold find_next.
  replace (iL + d - (iF + d) + 1) with (iL - iF + 1) by lia.
  destruct (Z_le_gt_dec (iL - iF + 1) 0) as [Hle|Hgt].
  { replace (Z.to_nat (iL - iF + 1)) with O by lia. cbn [find_loop ebind emap].
    unfold shift_fn; cbn [fst snd option_map]. do 2 f_equal. lia. }
  rewrite (find_loop_agree lo hi d r1 r2) by (auto; lia).
  destruct (find_loop kink (Z.to_nat (iL - iF + 1)) r1 iF thr nmono maxN zt) as [[[tr nx]|]| |];
    cbn [ebind emap option_map shift2 fst snd]; try reflexivity.
  unfold shift_fn; cbn [fst snd option_map]. do 2 f_equal. lia.
Qed.

(* ---------- what the search returns ---------- *)
Lemma is_mono_total raw rising k : 1 <= k -> k <= zlen raw - 1 -> exists m, is_mono raw rising k = EOk m.
Proof.
  intros H1 H2. unfold is_mono.
  destruct (zget_ok raw k) as [a ->]; [lia|]. destruct (zget_ok raw (k - 1)) as [b ->]; [lia|].
  cbn [ebind]. eauto.
Qed.

Lemma mono_scan_range raw rising i : forall n j fm,
  mono_scan n raw rising i j = EOk fm -> j <= fm <= j + Z.of_nat n.
Proof.
  induction n as [|n IH]; intros j fm; cbn [mono_scan];
    destruct (is_mono raw rising (i + j)) as [m| |]; cbn [ebind]; try discriminate.
  - intros E; inversion E; lia.
  - destruct m; [|intros E; inversion E; lia]. intros E. apply IH in E. lia.
Qed.

Lemma mono_scan_total raw rising i : forall n j,
  1 <= i + j -> i + j + Z.of_nat n <= zlen raw - 1 -> exists fm, mono_scan n raw rising i j = EOk fm.
Proof.
  induction n as [|n IH]; intros j H1 H2; cbn [mono_scan];
    (destruct (is_mono_total raw rising (i + j)) as [m ->]; [lia|lia|]); cbn [ebind]; [eauto|].
  destruct m; [|eauto]. apply IH; lia.
Qed.

Lemma window_total raw i : 4 <= i -> i + 3 <= zlen raw - 1 -> exists w, window raw i = EOk w.
Proof.
  intros H1 H2. unfold window.
  destruct (zget_ok raw (i - 4)) as [a0 ->]; [lia|]. destruct (zget_ok raw (i - 3)) as [a1 ->]; [lia|].
  destruct (zget_ok raw (i - 2)) as [a2 ->]; [lia|]. destruct (zget_ok raw (i - 1)) as [a3 ->]; [lia|].
  destruct (zget_ok raw i) as [a4 ->]; [lia|]. destruct (zget_ok raw (i + 1)) as [a5 ->]; [lia|].
  destruct (zget_ok raw (i + 2)) as [a6 ->]; [lia|]. destruct (zget_ok raw (i + 3)) as [a7 ->]; [lia|].
  cbn [ebind]. eauto.
Qed.

Hypothesis kink_range : kink_ok kink.

Lemma zero_threshold_range raw i zt tr : zero_threshold kink raw i zt = EOk tr -> i - 1 <= tr <= i + 1.
Proof.
  unfold zero_threshold. destruct zt; [|intros E; inversion E; lia].
  destruct (window raw i) as [w| |]; cbn [ebind]; try discriminate.
  intros E; inversion E. pose proof (kink_range w). lia.
Qed.

Lemma zero_threshold_total raw i zt :
  lb zt <= i -> (zt = true -> i + 3 <= zlen raw - 1) -> exists tr, zero_threshold kink raw i zt = EOk tr.
Proof.
  intros H1 H2. unfold zero_threshold. destruct zt; cbn [lb] in *; [|eauto].
  destruct (window_total raw i) as [w ->]; [lia|auto|]. cbn [ebind]. eauto.
Qed.

Lemma find_loop_spec raw thr nmono maxN zt : forall n i tr nx,
  find_loop kink n raw i thr nmono maxN zt = EOk (Some (tr, nx)) ->
  exists e, i <= e < i + Z.of_nat n /\ e + 2 <= nx <= e + Z.max 1 maxN + 1 /\ e - 1 <= tr <= e + 1.
Proof.
  induction n as [|n IH]; intros i tr nx; cbn [find_loop]; [discriminate|].
  destruct (zget raw i) as [a| |]; cbn [ebind]; try discriminate.
  destruct (zget raw (i - 1)) as [b| |]; cbn [ebind]; try discriminate.
  assert (Hrec : find_loop kink n raw (i + 1) thr nmono maxN zt = EOk (Some (tr, nx)) ->
     exists e, i <= e < i + Z.of_nat (S n) /\ e + 2 <= nx <= e + Z.max 1 maxN + 1 /\ e - 1 <= tr <= e + 1).
  { intros E. apply IH in E as (e & He & Hx). exists e. split; [lia|exact Hx]. }
  destruct ((thr >=? 1) && (a - b >=? thr) || negb (thr >=? 1) && (a - b <=? thr)); [|exact Hrec].
  destruct (mono_scan (Z.to_nat (maxN - 1)) raw (thr >=? 1) i 1) as [fm| |] eqn:Em; cbn [ebind]; try discriminate.
  destruct (fm >=? nmono); [|exact Hrec].
  destruct (zero_threshold kink raw i zt) as [t0| |] eqn:Ez; cbn [ebind]; try discriminate.
  intros E; inversion E; subst. apply mono_scan_range in Em. apply zero_threshold_range in Ez.
  exists i. lia.
Qed.

Lemma find_loop_total raw thr nmono maxN zt : 1 <= maxN -> (zt = true -> 3 <= maxN) ->
  forall n i, lb zt <= i -> (n = O \/ i + Z.of_nat n - 1 + maxN <= zlen raw - 1) ->
  exists r, find_loop kink n raw i thr nmono maxN zt = EOk r.
Proof.
  intros HN Hz. induction n as [|n IH]; intros i H1 H2; cbn [find_loop]; [eauto|].
  destruct H2 as [H2|H2]; [discriminate|].
  assert (Hlb : 1 <= lb zt) by (destruct zt; cbn; lia).
  destruct (zget_ok raw i) as [a ->]; [lia|]. destruct (zget_ok raw (i - 1)) as [b ->]; [lia|]. cbn [ebind].
  assert (Hrec : exists r, find_loop kink n raw (i + 1) thr nmono maxN zt = EOk r).
  { apply IH; [lia|]. destruct n; [now left|right; lia]. }
  destruct ((thr >=? 1) && (a - b >=? thr) || negb (thr >=? 1) && (a - b <=? thr)); [|exact Hrec].
  destruct (mono_scan_total raw (thr >=? 1) i (Z.to_nat (maxN - 1)) 1) as [fm ->]; [lia|lia|]. cbn [ebind].
  destruct (fm >=? nmono); [|exact Hrec].
  destruct (zero_threshold_total raw i zt) as [tr ->]; [lia|intros; lia|]. cbn [ebind]. eauto.
Qed.

(* find_next: what a hit and a miss look like *)
Lemma find_next_some raw iF iL thr nmono maxN zt tr nx :
  find_next kink raw iF iL thr nmono maxN zt = EOk (Some tr, nx) ->
  exists e, iF <= e <= iL /\ e + 2 <= nx <= e + Z.max 1 maxN + 1 /\ e - 1 <= tr <= e + 1.
Proof.
  unfold find_next.
  destruct (find_loop kink (Z.to_nat (iL - iF + 1)) raw iF thr nmono maxN zt) as [[[t0 n0]|]| |] eqn:E;
    cbn [ebind]; try discriminate.
  intros X; inversion X; subst. apply find_loop_spec in E as (e & He & Hx). exists e. split; [lia|exact Hx].
Qed.

Lemma find_next_none raw iF iL thr nmono maxN zt nx :
  find_next kink raw iF iL thr nmono maxN zt = EOk (None, nx) -> nx = Z.max (iL + 1) iF.
Proof.
  unfold find_next.
  destruct (find_loop kink (Z.to_nat (iL - iF + 1)) raw iF thr nmono maxN zt) as [[[t0 n0]|]| |];
    cbn [ebind]; try discriminate.
  intros X; inversion X; reflexivity.
Qed.

Lemma find_next_total raw iF iL thr nmono maxN zt : 1 <= maxN -> (zt = true -> 3 <= maxN) ->
  lb zt <= iF -> iL + maxN <= zlen raw - 1 ->
  exists r, find_next kink raw iF iL thr nmono maxN zt = EOk r.
Proof.
  intros HN Hz H1 H2. unfold find_next.
  destruct (find_loop_total raw thr nmono maxN zt HN Hz (Z.to_nat (iL - iF + 1)) iF H1) as [r ->].
  { destruct (Z_le_gt_dec (iL - iF + 1) 0); [left; lia|right; lia]. }
  cbn [ebind]. destruct r as [[tr nx]|]; eauto.
Qed.

End K.

(* ---------- the outer loop of edgeMultiComputeRecordSpecs as a relation (no fuel) ---------- *)
Section L.
Variable kink : list Z -> Z.
Variable c : cfg.

Definition clampv (trig : Z) : Z := if trig <? c_npre c then c_npre c else trig.
Definition fnext (raw : list Z) (i iLast : Z) :=
  find_next kink raw i iLast (c_thr c) (c_nmono c) (c_nsamp c - c_npre c) (c_zt c).
Definition sr (t u v : Z) : list spec := opt_list (should_record t u v (c_npre c) (c_nsamp c) (c_mode c)).

(* scan position and (t,u,v) *)
Definition lstate := (Z * Z * Z * Z)%type.

Inductive Loop (raw : list Z) (F0 iLast : Z) : lstate -> lstate * list spec -> Prop :=
| Loop_stop i t u v nx :
    fnext raw i iLast = EOk (None, nx) -> Loop raw F0 iLast (i, t, u, v) ((nx, t, u, v), [])
| Loop_found i t u v trig nx s' out :
    fnext raw i iLast = EOk (Some trig, nx) ->
    Loop raw F0 iLast (nx, u, v, clampv trig + F0) (s', out) ->
    Loop raw F0 iLast (i, t, u, v) (s', sr u v (clampv trig + F0) ++ out).

Lemma Loop_det raw F0 iLast s r1 : Loop raw F0 iLast s r1 -> forall r2, Loop raw F0 iLast s r2 -> r1 = r2.
Proof.
  induction 1 as [i t u v nx E | i t u v trig nx s' out E L IH]; intros r2 L2; inversion L2; subst;
    try congruence.
  match goal with H : fnext raw i iLast = EOk (Some ?a, ?b) |- _ =>
    assert (a = trig /\ b = nx) as [-> ->] by (split; congruence) end.
  match goal with H : Loop raw F0 iLast _ (?a, ?b) |- _ => apply IH in H; inversion H; subst end.
  reflexivity.
Qed.

Lemma spec_loop_Loop raw F0 iLast : forall fuel i t u v acc r,
  spec_loop kink fuel true c raw F0 i iLast t u v acc = EOk r ->
  exists i' t' u' v' out, r = (i', t', u', v', acc ++ out) /\ Loop raw F0 iLast (i, t, u, v) ((i', t', u', v'), out).
Proof.
  induction fuel as [|fuel IH]; intros i t u v acc r; cbn [spec_loop]; [discriminate|].
  fold (fnext raw i iLast).
  destruct (fnext raw i iLast) as [[[trig|] nx]| |] eqn:E; cbn [ebind fst snd]; try discriminate.
  - cbn [andb]. fold (clampv trig). intros H. apply IH in H as (i' & t' & u' & v' & out & -> & L).
    exists i', t', u', v', (sr u v (clampv trig + F0) ++ out). split.
    + unfold sr. now rewrite app_assoc.
    + eapply Loop_found; eauto.
  - intros H; inversion H; subst. exists nx, t, u, v, []. split; [now rewrite app_nil_r|]. now apply Loop_stop.
Qed.

Hypothesis kink_range : kink_ok kink.

Lemma Loop_spec_loop raw F0 iLast s r : Loop raw F0 iLast s r ->
  forall fuel acc, (Z.to_nat (iLast + 1 - fst (fst (fst s))) < fuel)%nat ->
  spec_loop kink fuel true c raw F0 (fst (fst (fst s))) iLast (snd (fst (fst s))) (snd (fst s)) (snd s) acc
  = EOk (fst (fst (fst (fst r))), snd (fst (fst (fst r))), snd (fst (fst r)), snd (fst r), acc ++ snd r).
Proof.
  induction 1 as [i t u v nx E | i t u v trig nx s' out E L IH]; intros fuel acc Hf; cbn [fst snd] in *.
  - destruct fuel as [|fuel]; [lia|]. cbn [spec_loop]. fold (fnext raw i iLast). rewrite E. cbn [ebind fst snd].
    now rewrite app_nil_r.
  - destruct fuel as [|fuel]; [lia|]. cbn [spec_loop]. fold (fnext raw i iLast). rewrite E. cbn [ebind fst snd andb].
    fold (clampv trig). apply (find_next_some kink kink_range) in E as (e & He & Hx & _).
    rewrite IH by lia. unfold sr. now rewrite app_assoc.
Qed.

(* the search is local: a longer range finds the same first hit; a miss hands over to the rest of the range *)
Lemma find_loop_split raw thr nmono maxN zt : forall n1 n2 i,
  find_loop kink (n1 + n2) raw i thr nmono maxN zt =
  match find_loop kink n1 raw i thr nmono maxN zt with
  | EOk None => find_loop kink n2 raw (i + Z.of_nat n1) thr nmono maxN zt
  | r => r
  end.
Proof.
  induction n1 as [|n1 IH]; intros n2 i.
  - cbn [Nat.add find_loop]. now rewrite Z.add_0_r.
  - cbn [Nat.add find_loop].
    destruct (zget raw i) as [a| |]; cbn [ebind]; try reflexivity.
    destruct (zget raw (i - 1)) as [b| |]; cbn [ebind]; try reflexivity.
    assert (Hrec : find_loop kink (n1 + n2) raw (i + 1) thr nmono maxN zt =
                   match find_loop kink n1 raw (i + 1) thr nmono maxN zt with
                   | EOk None => find_loop kink n2 raw (i + Z.of_nat (S n1)) thr nmono maxN zt
                   | r => r end).
    { rewrite IH. replace (i + 1 + Z.of_nat n1) with (i + Z.of_nat (S n1)) by lia. reflexivity. }
    destruct ((thr >=? 1) && (a - b >=? thr) || negb (thr >=? 1) && (a - b <=? thr)); [|exact Hrec].
    destruct (mono_scan (Z.to_nat (maxN - 1)) raw (thr >=? 1) i 1) as [fm| |]; cbn [ebind]; try reflexivity.
    destruct (fm >=? nmono); [|exact Hrec].
    destruct (zero_threshold kink raw i zt); cbn [ebind]; reflexivity.
Qed.

Lemma fnext_split_some raw i iMid iLast trig nx :
  fnext raw i iMid = EOk (Some trig, nx) -> iMid <= iLast -> fnext raw i iLast = EOk (Some trig, nx).
Proof.
  unfold fnext, find_next. intros H Hle.
  destruct (Z_le_gt_dec (iMid - i + 1) 0) as [Hz|Hz].
  { replace (Z.to_nat (iMid - i + 1)) with O in H by lia. cbn in H. discriminate. }
  replace (Z.to_nat (iLast - i + 1)) with (Z.to_nat (iMid - i + 1) + Z.to_nat (iLast - iMid))%nat by lia.
  rewrite find_loop_split.
  destruct (find_loop kink (Z.to_nat (iMid - i + 1)) raw i (c_thr c) (c_nmono c) (c_nsamp c - c_npre c) (c_zt c))
    as [[[t0 n0]|]| |]; cbn [ebind] in *; try discriminate. exact H.
Qed.

Lemma fnext_split_none raw i iMid iLast nx :
  fnext raw i iMid = EOk (None, nx) -> iMid <= iLast -> fnext raw i iLast = fnext raw nx iLast.
Proof.
  intros H Hle. pose proof (find_next_none _ _ _ _ _ _ _ _ _ H) as Hnx.
  destruct (Z_le_gt_dec (iMid - i + 1) 0) as [Hz|Hz].
  { replace nx with i by lia. reflexivity. }
  unfold fnext, find_next in *.
  replace (Z.to_nat (iLast - i + 1)) with (Z.to_nat (iMid - i + 1) + Z.to_nat (iLast - iMid))%nat by lia.
  rewrite find_loop_split.
  destruct (find_loop kink (Z.to_nat (iMid - i + 1)) raw i (c_thr c) (c_nmono c) (c_nsamp c - c_npre c) (c_zt c))
    as [[[t0 n0]|]| |]; cbn [ebind] in *; try discriminate.
  replace (i + Z.of_nat (Z.to_nat (iMid - i + 1))) with nx by lia.
  replace (iLast - nx + 1) with (iLast - iMid) by lia.
  replace (Z.max (iLast + 1) i) with (Z.max (iLast + 1) nx) by lia. reflexivity.
Qed.

Lemma Loop_split raw F0 iMid iLast s r1 :
  Loop raw F0 iMid s r1 -> iMid <= iLast ->
  forall r2, Loop raw F0 iLast (fst r1) r2 -> Loop raw F0 iLast s (fst r2, snd r1 ++ snd r2).
Proof.
  induction 1 as [i t u v nx E | i t u v trig nx s' out E L IH]; intros Hle r2 L2; cbn [fst snd] in *.
  - inversion L2; subst; cbn [fst snd app].
    + apply Loop_stop. rewrite (fnext_split_none _ _ _ _ _ E Hle). assumption.
    + eapply Loop_found; [|eassumption]. rewrite (fnext_split_none _ _ _ _ _ E Hle). assumption.
  - rewrite <- app_assoc. eapply Loop_found.
    + eapply fnext_split_some; eauto.
    + apply (IH Hle r2 L2).
Qed.

(* ---------- the loop only depends on the samples it can reach ---------- *)
Definition pos (s : lstate) : Z := fst (fst (fst s)).
Definition sh (d : Z) (s : lstate) : lstate := (pos s + d, snd (fst (fst s)), snd (fst s), snd s).

Hypothesis cfg_valid : cfg_ok c.

Lemma la_pos : 1 <= c_nsamp c - c_npre c. Proof. destruct cfg_valid as (? & ? & ?). lia. Qed.
Lemma la_zt : c_zt c = true -> 3 <= c_nsamp c - c_npre c.
Proof. destruct cfg_valid as (? & ? & H). intros E. apply H in E. lia. Qed.
Lemma lb_npre : lb (c_zt c) <= c_npre c.
Proof. destruct cfg_valid as (? & ? & H). unfold lb. destruct (c_zt c); [apply H; reflexivity|lia]. Qed.

Lemma Loop_pos raw F0 iLast s r : Loop raw F0 iLast s r -> pos s <= pos (fst r) /\ iLast + 1 <= pos (fst r).
Proof.
  induction 1 as [i t u v nx E | i t u v trig nx s' out E L IH]; cbn [fst snd pos] in *.
  - apply find_next_none in E. lia.
  - apply (find_next_some kink kink_range) in E as (e & He & Hx & _). lia.
Qed.

Lemma Loop_agree lo hi d r1 r2 F1 iL s r :
  agree lo hi d r1 r2 -> 0 <= d -> iL + (c_nsamp c - c_npre c) <= hi ->
  Loop r1 F1 iL s r -> lo <= pos s - lb (c_zt c) -> (d = 0 \/ c_npre c + 1 <= pos s) ->
  Loop r2 (F1 - d) (iL + d) (sh d s) (sh d (fst r), snd r).
Proof.
  intros Hag Hd Hhi L. induction L as [i t u v nx E | i t u v trig nx s' out E L IH]; intros Hlo Hcl;
    unfold sh, pos in *; cbn [fst snd] in *.
  - apply Loop_stop. unfold fnext in *.
    rewrite (find_next_agree kink lo hi d r1 r2) by (auto using la_pos, la_zt). rewrite E. reflexivity.
  - pose proof (find_next_some kink kink_range _ _ _ _ _ _ _ _ _ E) as (e & He & Hx & Ht).
    assert (Hc : clampv (trig + d) + (F1 - d) = clampv trig + F1).
    { unfold clampv. destruct Hcl as [->|Hcl]; [now rewrite Z.add_0_r, Z.sub_0_r|].
      destruct (trig <? c_npre c) eqn:E1; [lia|]. destruct (trig + d <? c_npre c) eqn:E2; lia. }
    rewrite <- Hc. eapply Loop_found.
    + unfold fnext in *. rewrite (find_next_agree kink lo hi d r1 r2) by (auto using la_pos, la_zt).
      rewrite E. reflexivity.
    + rewrite Hc. apply IH; lia.
Qed.

Lemma Loop_total raw F0 iLast : iLast + (c_nsamp c - c_npre c) <= zlen raw - 1 ->
  forall m i t u v, (Z.to_nat (iLast + 1 - i) <= m)%nat -> lb (c_zt c) <= i ->
  exists r, Loop raw F0 iLast (i, t, u, v) r.
Proof.
  intros Hl. induction m as [|m IH]; intros i t u v Hm Hi;
    (destruct (find_next_total kink raw i iLast (c_thr c) (c_nmono c) (c_nsamp c - c_npre c) (c_zt c)
               la_pos la_zt Hi Hl) as [[[trig|] nx] E]);
    try (eexists; apply Loop_stop; exact E).
  - apply (find_next_some kink kink_range) in E as (e & He & _). lia.
  - pose proof (find_next_some kink kink_range _ _ _ _ _ _ _ _ _ E) as (e & He & Hx & _).
    destruct (IH nx u v (clampv trig + F0)) as [[s' out] L]; [lia|lia|].
    eexists. eapply Loop_found; eauto.
Qed.

(* edgeMultiComputeRecordSpecs in terms of the loop relation *)
Definition start_state (s : emt) (F0 : Z) : lstate :=
  if e_next s - F0 <? c_npre c then (c_npre c, 0, 0, 0) else (e_next s - F0, e_t s, e_u s, e_v s).

Definition flush (F0 : Z) (s : lstate) : emt * list spec :=
  let '(i, t, u, v) := s in
  let next := i + F0 in
  if (0 <? v) && (v <? next - c_nsamp c)
  then ({| e_next := next; e_t := t; e_u := v; e_v := v |}, sr u v next)
  else ({| e_next := next; e_t := t; e_u := u; e_v := v |}, []).

Lemma compute_specs_Loop s raw F0 s' out :
  Loop raw F0 (zlen raw - 1 - (c_nsamp c - c_npre c)) (start_state s F0) (s', out) ->
  compute_specs kink c s raw F0 = EOk (fst (flush F0 s'), out ++ snd (flush F0 s')).
Proof.
  intros L. unfold compute_specs, compute_specs_gen, start_state in *.
  destruct (e_next s - F0 <? c_npre c);
    (eapply Loop_spec_loop in L; cbn [fst snd emt_reset e_t e_u e_v] in *; [rewrite L|lia]);
    cbn [ebind app]; destruct s' as [[[i t] u] v]; cbn [fst snd flush];
    destruct ((0 <? v) && (v <? i + F0 - c_nsamp c)); cbn [fst snd]; unfold sr; now rewrite ?app_nil_r.
Qed.

End L.

(* ---------- edgeMultiShouldRecord ---------- *)
Section S.
Variable kink : list Z -> Z.
Variable c : cfg.
Hypothesis kink_range : kink_ok kink.
Hypothesis cfg_valid : cfg_ok c.

Notation npre := (c_npre c).
Notation nsamp := (c_nsamp c).
Notation sr := (sr c).

Lemma sr_in t u v f p n : t <= u <= v -> In (f, p, n) (sr t u v) ->
  f = u /\ u <> 0 /\ t < u < v /\ 0 <= p <= npre /\ 1 <= n - p <= nsamp - npre /\
  (c_mode c <> 1 -> p = npre /\ n = nsamp) /\
  (c_mode c = 1 -> p = Z.min npre (u - t - Z.min (nsamp - npre) (u - t)) /\ n - p = Z.min (nsamp - npre) (v - u)).
Proof.
  intros Ho. unfold Proofs.sr, should_record. destruct cfg_valid as (H1 & H2 & _).
  destruct ((u =? 0) || (u =? v) || (u =? t)) eqn:E; [intros []|].
  destruct (c_mode c =? 1) eqn:M1; [|destruct (c_mode c =? 0) eqn:M0; [|destruct (c_mode c =? 2) eqn:M2]];
    cbn [opt_list In].
  - intros [X|[]]; inversion X; subst. repeat split; try lia.
  - intros [X|[]]; inversion X; subst. repeat split; try lia.
  - destruct ((Z.min npre (u - t - Z.min (nsamp - npre) (u - t)) >=? npre)
               && (Z.min npre (u - t - Z.min (nsamp - npre) (u - t)) + Z.min (nsamp - npre) (v - u) >=? nsamp));
      cbn [opt_list In]; [|intros []].
    intros [X|[]]; inversion X; subst. repeat split; try lia.
  - intros [].
Qed.

Lemma sr_marker_t t v : sr t t v = [].
Proof. unfold Proofs.sr, should_record. rewrite Z.eqb_refl, !orb_true_r. reflexivity. Qed.

Lemma sr_marker_v t u : sr t u u = [].
Proof. unfold Proofs.sr, should_record. rewrite Z.eqb_refl, orb_true_r. reflexivity. Qed.

(* the third argument only matters up to the post-trigger length *)
Lemma sr_sat t u n1 n2 : nsamp - npre <= n1 - u -> nsamp - npre <= n2 - u -> sr t u n1 = sr t u n2.
Proof.
  intros H1 H2. destruct cfg_valid as (H3 & H4 & _). unfold Proofs.sr, should_record.
  replace (u =? n1) with false by lia. replace (u =? n2) with false by lia.
  replace (Z.min (nsamp - npre) (n1 - u)) with (nsamp - npre) by lia.
  replace (Z.min (nsamp - npre) (n2 - u)) with (nsamp - npre) by lia. reflexivity.
Qed.

(* ---------- range safety of one call ---------- *)
(* a spec that triggerAtSpecificSamples can cut from a window starting at frame F0 holding L samples *)
Definition spec_ok (F0 L : Z) (sp : spec) : Prop :=
  let '(f, p, n) := sp in 0 <= p /\ 0 <= n /\ F0 <= f - p /\ f - p + n <= F0 + L.

Definition SInv (F0 L : Z) (s : lstate) : Prop :=
  let '(i, t, u, v) := s in
  npre <= i /\ 0 <= t <= u /\ u <= v /\ v <= i + F0 - 1 /\
  (v = 0 \/ u = v \/ F0 + npre <= v) /\ (v = 0 \/ v + (nsamp - npre) <= F0 + L).

Lemma Loop_safe raw F0 s r :
  Loop kink c raw F0 (zlen raw - 1 - (nsamp - npre)) s r -> 0 <= F0 -> SInv F0 (zlen raw) s ->
  SInv F0 (zlen raw) (fst r) /\ Forall (spec_ok F0 (zlen raw)) (snd r).
Proof.
  intros L HF. induction L as [i t u v nx E | i t u v trig nx s' out E L IH]; intros Inv; cbn [fst snd] in *.
  - split; [|constructor]. apply find_next_none in E. unfold SInv in *. lia.
  - pose proof (find_next_some kink kink_range _ _ _ _ _ _ _ _ _ E) as (e & He & Hx & Ht).
    destruct cfg_valid as (H1 & H2 & _). unfold SInv in Inv.
    assert (Hw : Z.max npre (e - 1) <= clampv c trig <= e + 1) by (unfold clampv; destruct (trig <? npre) eqn:Q; lia).
    destruct IH as [I1 I2]; [unfold SInv; lia|]. split; [exact I1|].
    apply Forall_app; split; [|exact I2].
    apply Forall_forall. intros [[f p] n] Hin. apply sr_in in Hin; [|lia]. unfold spec_ok. lia.
Qed.

(* state between calls: what edgeMultiComputeRecordSpecs leaves behind, seen from the trimmed window
   (first frame F0w, one-past-last frame Ew) *)
Definition EInv (F0w Ew : Z) (s : emt) : Prop :=
  s = emt_reset \/
  (npre <= e_next s - F0w /\ 0 <= e_t s <= e_u s /\ e_u s <= e_v s /\ e_v s <= e_next s - 1 /\
   (e_v s = 0 \/ e_u s = e_v s \/ F0w + npre <= e_v s) /\ (e_v s = 0 \/ e_v s + (nsamp - npre) <= Ew)).

Lemma start_inv F0w Ew L s : EInv F0w Ew s -> 0 <= F0w -> Ew <= F0w + L -> SInv F0w L (start_state c s F0w).
Proof.
  intros [->|H] HF HE; unfold start_state, SInv; destruct cfg_valid as (H1 & H2 & _).
  - cbn [emt_reset e_next e_t e_u e_v]. destruct (0 - F0w <? npre) eqn:Q; lia.
  - destruct (e_next s - F0w <? npre) eqn:Q; lia.
Qed.

Definition kept (K F0 L : Z) : Z := if K >=? L then F0 else F0 + (L - K).

Lemma flush_inv F0 L s' : SInv F0 L s' -> 0 <= F0 -> L - 1 - (nsamp - npre) + 1 <= pos s' ->
  EInv (kept (n_to_keep c) F0 L) (F0 + L) (fst (flush c F0 s')) /\ Forall (spec_ok F0 L) (snd (flush c F0 s')).
Proof.
  destruct s' as [[[i t] u] v]. unfold SInv, pos, flush, kept, n_to_keep; cbn [fst snd].
  intros Inv HF Hp. destruct cfg_valid as (H1 & H2 & _).
  destruct ((0 <? v) && (v <? i + F0 - nsamp)) eqn:Q; cbn [fst snd]; (split; [right; cbn [e_next e_t e_u e_v]|]).
  - destruct (2 * nsamp + 10 >=? L) eqn:W; lia.
  - apply Forall_forall. intros [[f p] n] Hin. apply sr_in in Hin; [|lia]. unfold spec_ok. lia.
  - destruct (2 * nsamp + 10 >=? L) eqn:W; lia.
  - constructor.
Qed.

End S.

(* ---------- one ProcessSegments cycle ---------- *)
Section R.
Variable kink : list Z -> Z.
Variable c : cfg.
Hypothesis kink_range : kink_ok kink.
Hypothesis cfg_valid : cfg_ok c.

Notation npre := (c_npre c).
Notation nsamp := (c_nsamp c).

(* record r is what triggerAtSpecificSamples cuts from st for spec sp *)
Definition cut_of (st : stream) (sp : spec) (r : record) : Prop :=
  let '(f, p, n) := sp in
  r_frame r = f /\ r_pre r = p /\ r_data r = zslice (st_data st) (f - st_first st - p) n /\ zlen (r_data r) = n.

Lemma zslice_length {A} (l : list A) a n : 0 <= a -> 0 <= n -> a + n <= zlen l -> zlen (zslice l a n) = n.
Proof. intros. unfold zslice, zfirstn, zskipn, zlen in *. rewrite firstn_length, skipn_length. lia. Qed.

Lemma cut_all_ok st specs : Forall (spec_ok (st_first st) (zlen (st_data st))) specs ->
  exists recs, cut_all st specs = EOk recs /\ Forall2 (cut_of st) specs recs.
Proof.
  induction 1 as [|[[f p] n] specs H _ IH]; cbn [cut_all]; [eexists; split; [reflexivity|constructor]|].
  destruct IH as (recs & -> & F2). unfold spec_ok in H. unfold trigger_at.
  replace ((f - st_first st - p <? 0) || (f - st_first st + n - p >? zlen (st_data st)) || (n <? 0)) with false by lia.
  cbn [of_res ebind]. eexists; split; [reflexivity|]. constructor; [|exact F2].
  unfold cut_of; cbn [r_frame r_pre r_data]. repeat split; try lia. apply zslice_length; lia.
Qed.

Lemma trim_first K st : st_first (trim K st) = kept K (st_first st) (zlen (st_data st)).
Proof. unfold trim, kept. destruct (K >=? zlen (st_data st)); reflexivity. Qed.

Lemma trim_end K st : 0 <= K -> st_endframe (trim K st) = st_endframe st.
Proof.
  intros HK. unfold trim, st_endframe. destruct (K >=? zlen (st_data st)) eqn:E; [reflexivity|].
  cbn [st_data st_first]. rewrite zskipn_length by (pose proof (zlen_nonneg (st_data st)); lia). lia.
Qed.

Lemma step_char st s sg :
  EInv c (st_first st) (st_endframe st) s -> 0 <= st_first st -> seg_first sg = st_endframe st ->
  let st1 := append st sg in
  let W := st_data st ++ seg_data sg in
  exists s1 out recs,
    Loop kink c W (st_first st) (zlen W - 1 - (nsamp - npre)) (start_state c s (st_first st)) (s1, out) /\
    step kink c st s sg = EOk (trim (n_to_keep c) st1, fst (flush c (st_first st) s1), recs) /\
    Forall2 (cut_of st1) (out ++ snd (flush c (st_first st) s1)) recs /\
    st_data st1 = W /\ st_first st1 = st_first st /\
    EInv c (st_first (trim (n_to_keep c) st1)) (st_endframe (trim (n_to_keep c) st1)) (fst (flush c (st_first st) s1)) /\
    0 <= st_first (trim (n_to_keep c) st1) /\
    st_endframe (trim (n_to_keep c) st1) = st_endframe st + zlen (seg_data sg).
Proof.
  intros HE HF Hc st1 W.
  assert (Hd : st_data st1 = W) by reflexivity.
  assert (Hf : st_first st1 = st_first st) by (unfold st1, append, st_endframe in *; cbn [st_first]; lia).
  assert (HW : zlen W = zlen (st_data st) + zlen (seg_data sg)) by (unfold W; apply zlen_app).
  pose proof (zlen_nonneg (seg_data sg)) as Hsg. pose proof (zlen_nonneg (st_data st)) as Hst.
  destruct cfg_valid as (H1 & H2 & _).
  assert (HS : SInv c (st_first st) (zlen W) (start_state c s (st_first st))).
  { eapply start_inv; eauto. unfold st_endframe; lia. }
  destruct (Loop_total kink c kink_range cfg_valid W (st_first st) (zlen W - 1 - (nsamp - npre)) ltac:(lia)
              (Z.to_nat (zlen W - 1 - (nsamp - npre) + 1 - pos (start_state c s (st_first st))))
              (pos (start_state c s (st_first st)))
              (snd (fst (fst (start_state c s (st_first st)))))
              (snd (fst (start_state c s (st_first st)))) (snd (start_state c s (st_first st))))
    as [[s1 out] L]; [lia| |].
  { pose proof (lb_npre c cfg_valid). destruct (start_state c s (st_first st)) as [[[i t] u] v].
    unfold SInv, pos in *; cbn [fst]; lia. }
  assert (Hss : (pos (start_state c s (st_first st)), snd (fst (fst (start_state c s (st_first st)))),
                 snd (fst (start_state c s (st_first st))), snd (start_state c s (st_first st)))
                = start_state c s (st_first st)) by (destruct (start_state c s (st_first st)) as [[[? ?] ?] ?]; reflexivity).
  rewrite Hss in L.
  pose proof (Loop_safe kink c kink_range cfg_valid W (st_first st) _ _ L HF HS) as [I1 I2]. cbn [fst snd] in I1, I2.
  pose proof (Loop_pos kink c kink_range W _ _ _ _ L) as [_ Hp]. cbn [fst] in Hp.
  destruct (flush_inv c cfg_valid (st_first st) (zlen W) s1 I1 HF ltac:(lia)) as [J1 J2].
  assert (Hall : Forall (spec_ok (st_first st1) (zlen (st_data st1))) (out ++ snd (flush c (st_first st) s1))).
  { rewrite Hd, Hf. apply Forall_app; split; assumption. }
  destruct (cut_all_ok st1 _ Hall) as (recs & Hcut & F2).
  exists s1, out, recs. split; [exact L|]. split.
  { unfold step, step_gen, compute_append_gen. fold st1. rewrite Hd, Hf.
    pose proof (compute_specs_Loop kink c kink_range s W (st_first st) s1 out L) as CS.
    unfold compute_specs in CS. rewrite CS. cbn [ebind fst snd]. rewrite Hcut. cbn [ebind]. reflexivity. }
  split; [exact F2|]. split; [exact Hd|]. split; [exact Hf|].
  assert (HK : 0 <= n_to_keep c) by (unfold n_to_keep; lia).
  rewrite trim_first, trim_end by exact HK. rewrite Hd, Hf.
  split; [|split].
  - replace (st_endframe st1) with (st_first st + zlen W); [exact J1|]. unfold st_endframe. rewrite Hd, Hf. reflexivity.
  - unfold kept. destruct (n_to_keep c >=? zlen W) eqn:Q; lia.
  - unfold st_endframe. rewrite Hd, Hf, HW. lia.
Qed.

End R.

(* ---------- flushing an edge early does not change what is emitted ---------- *)
Section B.
Variable kink : list Z -> Z.
Variable c : cfg.
Hypothesis kink_range : kink_ok kink.
Hypothesis cfg_valid : cfg_ok c.

Notation npre := (c_npre c).
Notation nsamp := (c_nsamp c).
Notation sr := (sr c).

Definition tuv (s : lstate) : Z * Z * Z := (snd (fst (fst s)), snd (fst s), snd s).

(* [Rel B tau sigma pend]: tau = (t,u,v) of the loop that never flushes, sigma = (t,u,v) of the real run (which
   flushed at the end of earlier blocks), pend = what the real run has emitted ahead of the other;
   B = the absolute position the scan has reached (every later trigger is at B - 1 or beyond). *)
Inductive Rel (B : Z) : Z * Z * Z -> Z * Z * Z -> list spec -> Prop :=
| Rel0 tau : Rel B tau tau []
| Rel1 a b u v n : 0 < v -> v < n - nsamp -> n <= B -> Rel B (a, u, v) (b, v, v) (sr u v n)
| Rel2 a v w : Rel B (a, v, w) (v, v, w) [].

Lemma Rel_mono B B' tau sigma pend : Rel B tau sigma pend -> B <= B' -> Rel B' tau sigma pend.
Proof. intros R H. destruct R; constructor; lia. Qed.

Lemma Rel_found B B' t u v t2 u2 v2 pend w :
  Rel B (t, u, v) (t2, u2, v2) pend -> B - 1 <= w -> B <= B' ->
  exists pend1, Rel B' (u, v, w) (u2, v2, w) pend1 /\ pend ++ sr u2 v2 w = sr u v w ++ pend1.
Proof.
  intros R Hw HB. destruct cfg_valid as (H1 & H2 & _). inversion R; subst.
  - exists []. split; [constructor|]. now rewrite app_nil_r.
  - exists []. split; [constructor|]. rewrite sr_marker_t, !app_nil_r. apply sr_sat; auto; lia.
  - exists []. split; [constructor|]. now rewrite app_nil_r.
Qed.

Lemma Loop_bisim raw F0 iL s1 r1 :
  Loop kink c raw F0 iL s1 r1 ->
  forall s2 pend r2, pos s2 = pos s1 -> Rel (pos s1 + F0) (tuv s1) (tuv s2) pend ->
  Loop kink c raw F0 iL s2 r2 ->
  pos (fst r2) = pos (fst r1) /\
  exists pend', Rel (pos (fst r1) + F0) (tuv (fst r1)) (tuv (fst r2)) pend' /\ pend ++ snd r2 = snd r1 ++ pend'.
Proof.
  induction 1 as [i t u v nx E | i t u v trig nx s' out E L IH]; intros [[[i2 t2] u2] v2] pend r2 Hp R L2;
    unfold pos, tuv in *; cbn [fst snd] in *; subst i2.
  - inversion L2; subst; [|congruence]. cbn [fst snd].
    match goal with H : fnext kink c raw i iL = EOk (None, ?a) |- _ => assert (a = nx) by congruence; subst end.
    split; [reflexivity|]. exists pend. split; [|now rewrite app_nil_r].
    eapply Rel_mono; [exact R|]. apply find_next_none in E. lia.
  - inversion L2; subst; [congruence|]. cbn [fst snd].
    match goal with H : fnext kink c raw i iL = EOk (Some ?a, ?b) |- _ =>
      assert (a = trig /\ b = nx) as [-> ->] by (split; congruence) end.
    pose proof (find_next_some kink kink_range _ _ _ _ _ _ _ _ _ E) as (e & He & Hx & Ht).
    assert (Hw : i + F0 - 1 <= clampv c trig + F0) by (unfold clampv; destruct (trig <? npre) eqn:Q; lia).
    destruct (Rel_found (i + F0) (nx + F0) t u v t2 u2 v2 pend (clampv c trig + F0) R Hw ltac:(lia))
      as (pend1 & R1 & Eq).
    match goal with H : Loop kink c raw F0 iL (nx, u2, v2, _) _ |- _ =>
      destruct (IH (nx, u2, v2, clampv c trig + F0) pend1 _ eq_refl R1 H) as (Hpos & pend' & R' & Eq') end.
    cbn [fst snd] in *. split; [exact Hpos|]. exists pend'. split; [exact R'|].
    rewrite app_assoc, Eq, <- app_assoc, Eq', app_assoc. reflexivity.
Qed.

(* state relation at the end of a block, after the real run's flush check *)
Definition fc (v next : Z) : Prop := 0 < v /\ v < next - nsamp.

Inductive RelE (B : Z) : Z * Z * Z -> Z * Z * Z -> list spec -> Prop :=
| RelE0 t u v : ~ fc v B -> RelE B (t, u, v) (t, u, v) []
| RelE1 a b u v n : 0 < v -> v < n - nsamp -> n <= B -> RelE B (a, u, v) (b, v, v) (sr u v n)
| RelE2 a v w : ~ fc w B -> RelE B (a, v, w) (v, v, w) [].

Lemma RelE_Rel B tau sigma pend : RelE B tau sigma pend -> Rel B tau sigma pend.
Proof. intros R; destruct R; constructor; auto. Qed.

Definition tuv_of (s : emt) : Z * Z * Z := (e_t s, e_u s, e_v s).

Lemma Rel_flush B F0w i tau t2 u2 v2 pend :
  Rel B tau (t2, u2, v2) pend -> i + F0w = B ->
  RelE B tau (tuv_of (fst (flush c F0w (i, t2, u2, v2)))) (pend ++ snd (flush c F0w (i, t2, u2, v2)))
  /\ e_next (fst (flush c F0w (i, t2, u2, v2))) = B.
Proof.
  intros R HB. unfold flush, tuv_of. rewrite HB. destruct cfg_valid as (H1 & H2 & _).
  destruct ((0 <? v2) && (v2 <? B - nsamp)) eqn:Q; cbn [fst snd e_next e_t e_u e_v]; (split; [|reflexivity]).
  - inversion R; subst.
    + cbn [app]. apply RelE1; lia.
    + rewrite sr_marker_t, app_nil_r. apply RelE1; lia.
    + cbn [app]. apply RelE1; lia.
  - rewrite app_nil_r. inversion R; subst.
    + apply RelE0. unfold fc. lia.
    + lia.
    + apply RelE2. unfold fc. lia.
Qed.

(* what the single-block run emits at its end *)
Lemma RelE_ref B F0 tau sigma pend :
  RelE B tau sigma pend -> pend = snd (flush c F0 (B - F0, fst (fst tau), snd (fst tau), snd tau)).
Proof.
  intros R. destruct cfg_valid as (H1 & H2 & _). unfold flush. replace (B - F0 + F0) with B by lia.
  destruct R as [t u v N | a b u v n P1 P2 P3 | a v w N]; cbn [fst snd]; unfold fc in *.
  - destruct ((0 <? v) && (v <? B - nsamp)) eqn:Q; [lia|reflexivity].
  - destruct ((0 <? v) && (v <? B - nsamp)) eqn:Q; [|lia]. cbn [snd]. apply sr_sat; auto; lia.
  - destruct ((0 <? w) && (w <? B - nsamp)) eqn:Q; [lia|reflexivity].
Qed.

End B.

(* ---------- the run against the ground truth ---------- *)
Section M.
Variable kink : list Z -> Z.
Variable c : cfg.
Hypothesis kink_range : kink_ok kink.
Hypothesis cfg_valid : cfg_ok c.
Variable F0 : Z.
Hypothesis F0_nonneg : 0 <= F0.

Notation npre := (c_npre c).
Notation nsamp := (c_nsamp c).

(* r is the record for spec sp cut from the ground truth G (G[0] has frame F0): in range, exact excerpt *)
Definition rec_of (G : list Z) (sp : spec) (r : record) : Prop :=
  let '(f, p, n) := sp in
  r_frame r = f /\ r_pre r = p /\ zlen (r_data r) = n /\ 0 <= p /\ 0 <= n /\
  0 <= f - F0 - p /\ f - F0 - p + n <= zlen G /\ r_data r = zslice G (f - F0 - p) n.

Lemma zslice_app_l {A} (l x : list A) a n : 0 <= a -> 0 <= n -> a + n <= zlen l -> zslice (l ++ x) a n = zslice l a n.
Proof.
  intros Ha Hn H. unfold zslice, zfirstn, zskipn, zlen in *. rewrite skipn_app, firstn_app.
  replace (Z.to_nat n - length (skipn (Z.to_nat a) l))%nat with 0%nat by (rewrite skipn_length; lia).
  cbn [firstn]. now rewrite app_nil_r.
Qed.

Lemma rec_of_app G X sp r : rec_of G sp r -> rec_of (G ++ X) sp r.
Proof.
  destruct sp as [[f p] n]. unfold rec_of. intros (H1 & H2 & H3 & H4 & H5 & H6 & H7 & H8).
  rewrite zlen_app. pose proof (zlen_nonneg X). rewrite zslice_app_l by lia. repeat split; auto; lia.
Qed.

Lemma cut_of_rec_of G st sp r :
  StreamInv G F0 st -> spec_ok (st_first st) (zlen (st_data st)) sp -> cut_of st sp r -> rec_of G sp r.
Proof.
  intros [Hl Hd Hf] Hok Hc. destruct sp as [[f p] n]. unfold spec_ok, cut_of, rec_of in *.
  destruct Hc as (C1 & C2 & C3 & C4). pose proof (zlen_nonneg (st_data st)).
  repeat split; try lia. rewrite C3. rewrite Hd at 1. rewrite zslice_zskipn by lia. f_equal. lia.
Qed.

Lemma Forall2_cut_rec G st specs recs :
  StreamInv G F0 st -> Forall (spec_ok (st_first st) (zlen (st_data st))) specs ->
  Forall2 (cut_of st) specs recs -> Forall2 (rec_of G) specs recs.
Proof.
  intros SI Hok F2. induction F2 as [|sp r specs recs H _ IH]; [constructor|].
  inversion Hok; subst. constructor; [eapply cut_of_rec_of; eauto|auto].
Qed.

Lemma Forall2_cut_ok st specs recs : Forall2 (cut_of st) specs recs -> True. Proof. trivial. Qed.

Definition ref_loop (G : list Z) (r : lstate * list spec) : Prop :=
  Loop kink c G F0 (zlen G - 1 - (nsamp - npre)) (npre, 0, 0, 0) r.

Record BInv (G : list Z) (st : stream) (s : emt) (A : list spec) : Prop := {
  bi_stream : StreamInv G F0 st;
  bi_einv : EInv c (st_first st) (st_endframe st) s;
  bi_pos : npre <= e_next s - st_first st;
  bi_clamp : st_first st = F0 \/ npre + 1 <= e_next s - st_first st;
  bi_ref : exists t u v pout pend,
      ref_loop G ((e_next s - F0, t, u, v), pout) /\ RelE c (e_next s) (t, u, v) (tuv_of s) pend /\ A = pout ++ pend }.

Lemma StreamInv_end G st : StreamInv G F0 st -> st_endframe st = F0 + zlen G /\ F0 <= st_first st.
Proof. intros [Hl Hd Hf]. unfold st_endframe. pose proof (zlen_nonneg (st_data st)). lia. Qed.

(* the specs of a step are cut in range *)
Lemma step_specs_ok st s sg s1 out :
  let W := st_data st ++ seg_data sg in
  Loop kink c W (st_first st) (zlen W - 1 - (nsamp - npre)) (start_state c s (st_first st)) (s1, out) ->
  EInv c (st_first st) (st_endframe st) s -> 0 <= st_first st ->
  Forall (spec_ok (st_first st) (zlen W)) (out ++ snd (flush c (st_first st) s1)).
Proof.
  intros W L HE HF.
  assert (HW : zlen W = zlen (st_data st) + zlen (seg_data sg)) by (unfold W; apply zlen_app).
  pose proof (zlen_nonneg (seg_data sg)). destruct cfg_valid as (H1 & H2 & _).
  assert (HS : SInv c (st_first st) (zlen W) (start_state c s (st_first st))).
  { eapply start_inv; eauto. unfold st_endframe; lia. }
  pose proof (Loop_safe kink c kink_range cfg_valid W (st_first st) _ _ L HF HS) as [I1 I2]. cbn [fst snd] in I1, I2.
  pose proof (Loop_pos kink c kink_range W _ _ _ _ L) as [_ Hp]. cbn [fst] in Hp.
  destruct (flush_inv c cfg_valid (st_first st) (zlen W) s1 I1 HF ltac:(lia)) as [J1 J2].
  apply Forall_app; split; assumption.
Qed.

Lemma kept_bounds st sg s1 s :
  let W := st_data st ++ seg_data sg in
  let F' := kept (n_to_keep c) (st_first st) (zlen W) in
  pos (start_state c s (st_first st)) <= pos s1 -> zlen W - 1 - (nsamp - npre) + 1 <= pos s1 ->
  npre <= e_next s - st_first st ->
  e_next (fst (flush c (st_first st) s1)) = pos s1 + st_first st /\
  npre <= pos s1 + st_first st - F' /\
  (F' = st_first st /\ e_next s - st_first st <= pos s1 + st_first st - F' \/ npre + 1 <= pos s1 + st_first st - F').
Proof.
  intros W F' P1 P2 P3. destruct cfg_valid as (H1 & H2 & _).
  assert (E : e_next (fst (flush c (st_first st) s1)) = pos s1 + st_first st).
  { destruct s1 as [[[i t] u] v]. unfold flush, pos; cbn [fst snd].
    destruct ((0 <? v) && (v <? i + st_first st - nsamp)); reflexivity. }
  split; [exact E|]. unfold start_state in P1. replace (e_next s - st_first st <? npre) with false in P1 by lia.
  unfold pos in P1 at 1; cbn [fst] in P1. subst F'. unfold kept, n_to_keep.
  destruct (2 * nsamp + 10 >=? zlen W) eqn:Q; lia.
Qed.


Lemma sh_zero s : sh 0 s = s.
Proof. destruct s as [[[i t] u] v]. unfold sh, pos; cbn [fst snd]. now rewrite Z.add_0_r. Qed.

(* a later block: the real run keeps refining the single-block run of everything delivered so far *)
Lemma BInv_step G st s A sg :
  BInv G st s A -> seg_first sg = st_endframe st ->
  exists st' s' recs specs,
    step kink c st s sg = EOk (st', s', recs) /\
    Forall2 (rec_of (G ++ seg_data sg)) specs recs /\
    BInv (G ++ seg_data sg) st' s' (A ++ specs).
Proof.
  intros [SI HE Hpos Hcl (t & u & v & pout & pend & Href & HR & HA)] Hc.
  destruct (StreamInv_end G st SI) as [Hend HF].
  assert (HF0 : 0 <= st_first st) by lia.
  destruct (step_char kink c kink_range cfg_valid st s sg HE HF0 Hc)
    as (s1 & out & recs & L & Hstep & F2 & Hd & Hf & HE' & HF' & Hend').
  set (W := st_data st ++ seg_data sg) in *. set (X := seg_data sg) in *. set (G' := G ++ X).
  set (d := st_first st - F0).
  pose proof (zlen_nonneg (st_data st)) as Hn1. pose proof (zlen_nonneg X) as Hn2.
  destruct SI as [Sl Sd Sf]. destruct cfg_valid as (V1 & V2 & _). pose proof (lb_npre c cfg_valid) as Hlb.
  assert (Hdz : d = zlen G - zlen (st_data st)) by (unfold d; lia).
  assert (HWG : W = zskipn d G') by (unfold W, G'; rewrite zskipn_app_r by lia; rewrite Hdz, <- Sd; reflexivity).
  assert (HlW : zlen W = zlen G' - d) by (unfold W, G'; rewrite !zlen_app; lia).
  assert (HlG' : zlen G' = zlen G + zlen X) by (unfold G'; apply zlen_app).
  (* the real loop, seen on the ground truth *)
  assert (Hss : start_state c s (st_first st) = (e_next s - st_first st, e_t s, e_u s, e_v s)).
  { unfold start_state. replace (e_next s - st_first st <? npre) with false by lia. reflexivity. }
  pose proof L as Lw. rewrite Hss in Lw.
  assert (Lg : Loop kink c G' F0 (zlen G' - 1 - (nsamp - npre)) (e_next s - F0, e_t s, e_u s, e_v s) (sh d s1, out)).
  { pose proof (Loop_agree kink c kink_range cfg_valid 0 (zlen W - 1) d W G' (st_first st)
                  (zlen W - 1 - (nsamp - npre)) _ _ ltac:(rewrite HWG; apply agree_suffix; lia) ltac:(lia)
                  ltac:(lia) Lw) as Q.
    unfold sh in *. unfold pos in *. cbn [fst snd] in Q.
    replace (st_first st - d) with F0 in Q by (unfold d; lia).
    replace (zlen W - 1 - (nsamp - npre) + d) with (zlen G' - 1 - (nsamp - npre)) in Q by lia.
    replace (e_next s - st_first st + d) with (e_next s - F0) in Q by (unfold d; lia).
    apply Q; [lia|]. destruct Hcl as [Hcl|Hcl]; [left; unfold d; lia|right; lia]. }
  (* the single-block run over G, replayed on G' *)
  assert (Lr : Loop kink c G' F0 (zlen G - 1 - (nsamp - npre)) (npre, 0, 0, 0) ((e_next s - F0, t, u, v), pout)).
  { pose proof (Loop_agree kink c kink_range cfg_valid 0 (zlen G - 1) 0 G G' F0
                  (zlen G - 1 - (nsamp - npre)) _ _ ltac:(apply agree_prefix) ltac:(lia) ltac:(lia) Href) as Q.
    rewrite !sh_zero, Z.sub_0_r, Z.add_0_r in Q. cbn [fst snd] in Q. apply Q; [unfold pos; cbn [fst]; lia|now left]. }
  destruct (Loop_total kink c kink_range cfg_valid G' F0 (zlen G' - 1 - (nsamp - npre)) ltac:(lia)
              (Z.to_nat (zlen G' - 1 - (nsamp - npre) + 1 - (e_next s - F0))) (e_next s - F0) t u v
              ltac:(lia) ltac:(lia)) as [[s2 po2] L2].
  pose proof (Loop_split kink c G' F0 _ (zlen G' - 1 - (nsamp - npre)) _ _ Lr ltac:(lia) _ L2) as Lref.
  cbn [fst snd] in Lref.
  (* both loops run over the same samples from the same position *)
  destruct (Loop_bisim kink c kink_range cfg_valid G' F0 _ _ _ L2 (e_next s - F0, e_t s, e_u s, e_v s) pend _
              eq_refl ltac:(unfold pos, tuv; cbn [fst snd]; replace (e_next s - F0 + F0) with (e_next s) by lia;
                            apply RelE_Rel; exact HR) Lg)
    as (Hp2 & pend' & R' & Eq').
  cbn [fst snd] in Hp2, R', Eq'.
  pose proof (Loop_pos kink c kink_range W _ _ _ _ L) as [P1 P2]. cbn [fst] in P1, P2.
  destruct (kept_bounds st sg s1 s P1 P2 Hpos) as (En & Kp & Kc).
  destruct s1 as [[[i1 t1] u1] v1]. destruct s2 as [[[i2 t2] u2] v2].
  unfold sh, tuv in *; unfold pos in *; cbn [fst snd] in *.
  destruct (Rel_flush c cfg_valid (i2 + F0) (st_first st) i1 (t2, u2, v2) t1 u1 v1 pend' R' ltac:(unfold d in Hp2; lia))
    as [RE Enx].
  exists (trim (n_to_keep c) (append st sg)), (fst (flush c (st_first st) (i1, t1, u1, v1))), recs,
         (out ++ snd (flush c (st_first st) (i1, t1, u1, v1))).
  split; [exact Hstep|].
  assert (SI1 : StreamInv G' F0 (append st sg)).
  { apply append_inv; [split; assumption|]. rewrite Hc. exact Hend. }
  split.
  { eapply Forall2_cut_rec; [exact SI1| |exact F2]. rewrite Hd, Hf.
    apply (step_specs_ok st s sg (i1, t1, u1, v1) out L HE HF0). }
  assert (HK : 0 <= n_to_keep c) by (unfold n_to_keep; lia).
  constructor.
  - apply trim_inv; [exact HK|exact SI1].
  - exact HE'.
  - rewrite trim_first, Hd, Hf. fold W. rewrite En. exact Kp.
  - rewrite trim_first, Hd, Hf. fold W. rewrite En.
    destruct Kc as [[K1 K2]|K1]; [|right; exact K1].
    change (kept (n_to_keep c) (st_first st) (zlen W) = st_first st) in K1.
    change (e_next s - st_first st <= i1 + st_first st - kept (n_to_keep c) (st_first st) (zlen W)) in K2.
    destruct Hcl as [Hcl|Hcl]; [left; rewrite K1; exact Hcl|right; lia].
  - exists t2, u2, v2, (pout ++ po2), (pend' ++ snd (flush c (st_first st) (i1, t1, u1, v1))).
    rewrite Enx. replace (i2 + F0 - F0) with i2 by lia. split; [exact Lref|]. split; [exact RE|].
    rewrite HA. rewrite <- !app_assoc. f_equal. rewrite !app_assoc. f_equal. exact Eq'.
Qed.


(* the first block after the (re)configuration: the real run IS the single-block run *)
Lemma BInv_first st0 sg :
  st_first st0 = F0 -> seg_first sg = st_endframe st0 ->
  exists st' s' recs specs,
    step kink c st0 emt_reset sg = EOk (st', s', recs) /\
    Forall2 (rec_of (st_data st0 ++ seg_data sg)) specs recs /\
    BInv (st_data st0 ++ seg_data sg) st' s' specs.
Proof.
  intros HF Hc. assert (HF0 : 0 <= st_first st0) by lia.
  assert (HE : EInv c (st_first st0) (st_endframe st0) emt_reset) by (left; reflexivity).
  destruct (step_char kink c kink_range cfg_valid st0 emt_reset sg HE HF0 Hc)
    as (s1 & out & recs & L & Hstep & F2 & Hd & Hf & HE' & HF' & Hend').
  set (W := st_data st0 ++ seg_data sg) in *.
  destruct cfg_valid as (V1 & V2 & _).
  assert (Hss : start_state c emt_reset (st_first st0) = (npre, 0, 0, 0)).
  { unfold start_state. cbn [emt_reset e_next]. replace (0 - st_first st0 <? npre) with true by lia. reflexivity. }
  pose proof (Loop_pos kink c kink_range W _ _ _ _ L) as [P1 P2]. cbn [fst] in P1, P2.
  rewrite Hss in L, P1. rewrite HF in *.
  destruct s1 as [[[i1 t1] u1] v1]. unfold pos in *; cbn [fst snd] in *.
  destruct (Rel_flush c cfg_valid (i1 + F0) F0 i1 (t1, u1, v1) t1 u1 v1 [] (Rel0 c _ _) eq_refl) as [RE Enx].
  cbn [app] in RE.
  assert (SI0 : StreamInv (st_data st0) F0 st0).
  { split; [lia| |lia]. rewrite Z.sub_diag. reflexivity. }
  assert (SI1 : StreamInv W F0 (append st0 sg)).
  { apply append_inv; [exact SI0|]. rewrite Hc. unfold st_endframe. lia. }
  assert (HK : 0 <= n_to_keep c) by (unfold n_to_keep; lia).
  exists (trim (n_to_keep c) (append st0 sg)), (fst (flush c F0 (i1, t1, u1, v1))), recs,
         (out ++ snd (flush c F0 (i1, t1, u1, v1))).
  split; [exact Hstep|]. split.
  { eapply Forall2_cut_rec; [exact SI1| |exact F2]. rewrite Hd, Hf.
    pose proof (step_specs_ok st0 emt_reset sg (i1, t1, u1, v1) out) as Q. cbn zeta in Q. rewrite HF, Hss in Q.
    apply Q; [exact L|exact HE|lia]. }
  constructor.
  - apply trim_inv; [exact HK|exact SI1].
  - exact HE'.
  - rewrite trim_first, Hd, Hf, Enx. unfold kept, n_to_keep. destruct (2 * nsamp + 10 >=? zlen W) eqn:Q; lia.
  - rewrite trim_first, Hd, Hf, Enx. unfold kept, n_to_keep. destruct (2 * nsamp + 10 >=? zlen W) eqn:Q; [left; reflexivity|right; lia].
  - exists t1, u1, v1, out, (snd (flush c F0 (i1, t1, u1, v1))). rewrite Enx.
    replace (i1 + F0 - F0) with i1 by lia. split; [exact L|]. split; [exact RE|reflexivity].
Qed.

Lemma Forall2_rec_of_app G X specs recs : Forall2 (rec_of G) specs recs -> Forall2 (rec_of (G ++ X)) specs recs.
Proof. induction 1; constructor; auto using rec_of_app. Qed.

Lemma contiguous_cons F sg rest : contiguous F (sg :: rest) -> seg_first sg = F /\ contiguous (F + zlen (seg_data sg)) rest.
Proof. intros H; exact H. Qed.

Lemma run_BInv : forall segs G st s A,
  BInv G st s A -> contiguous (st_endframe st) segs ->
  exists r specs, run kink c st s segs = EOk r /\
    Forall2 (rec_of (G ++ seg_concat segs)) specs (concat (snd r)) /\
    BInv (G ++ seg_concat segs) (fst (fst r)) (snd (fst r)) (A ++ specs).
Proof.
  induction segs as [|sg rest IH]; intros G st s A HB Hc.
  - exists (st, s, []), []. unfold seg_concat; cbn [run run_gen map concat fst snd]. rewrite !app_nil_r.
    split; [reflexivity|]. split; [constructor|exact HB].
  - destruct Hc as [Hc1 Hc2].
    destruct (BInv_step G st s A sg HB Hc1) as (st' & s' & recs & specs & Hstep & F2 & HB').
    assert (Hend : st_endframe st' = st_endframe st + zlen (seg_data sg)).
    { destruct (StreamInv_end _ _ (bi_stream _ _ _ _ HB')) as [E1 _].
      destruct (StreamInv_end _ _ (bi_stream _ _ _ _ HB)) as [E2 _]. rewrite E1, E2, zlen_app. lia. }
    rewrite <- Hend in Hc2.
    destruct (IH _ _ _ _ HB' Hc2) as (r & specs2 & Hrun & F2' & HB'').
    destruct r as [[st2 s2] out2]. cbn [fst snd] in *.
    exists (st2, s2, recs :: out2), (specs ++ specs2).
    unfold seg_concat in *; cbn [map concat fst snd].
    rewrite (app_assoc G), (app_assoc A).
    split.
    + unfold run in *. cbn [run_gen]. unfold step in Hstep. rewrite Hstep. cbn [ebind]. rewrite Hrun. cbn [ebind]. reflexivity.
    + split; [|exact HB''].
      apply Forall2_app; [|exact F2']. apply Forall2_rec_of_app. exact F2.
Qed.

End M.

(* ---------- whole runs ---------- *)
Section T.
Variable kink : list Z -> Z.
Variable c : cfg.
Hypothesis kink_range : kink_ok kink.
Hypothesis cfg_valid : cfg_ok c.

Lemma run_main st0 segs :
  0 <= st_first st0 -> contiguous (st_endframe st0) segs -> segs <> [] ->
  exists r specs, run kink c st0 emt_reset segs = EOk r /\
    Forall2 (rec_of (st_first st0) (st_data st0 ++ seg_concat segs)) specs (concat (snd r)) /\
    BInv kink c (st_first st0) (st_data st0 ++ seg_concat segs) (fst (fst r)) (snd (fst r)) specs.
Proof.
  intros HF Hc Hne. destruct segs as [|sg rest]; [congruence|]. destruct Hc as [Hc1 Hc2].
  destruct (BInv_first kink c kink_range cfg_valid (st_first st0) HF st0 sg eq_refl Hc1)
    as (st' & s' & recs & specs & Hstep & F2 & HB).
  assert (Hend : st_endframe st' = st_endframe st0 + zlen (seg_data sg)).
  { destruct (StreamInv_end _ _ _ (bi_stream _ _ _ _ _ _ _ HB)) as [E1 _]. rewrite E1, zlen_app.
    unfold st_endframe. lia. }
  rewrite <- Hend in Hc2.
  destruct (run_BInv kink c kink_range cfg_valid (st_first st0) HF rest _ _ _ _ HB Hc2)
    as (r & specs2 & Hrun & F2' & HB').
  destruct r as [[st2 s2] out2]. cbn [fst snd] in *.
  exists (st2, s2, recs :: out2), (specs ++ specs2).
  unfold seg_concat in *; cbn [map concat fst snd]. rewrite (app_assoc (st_data st0)).
  split; [|split; [|exact HB']].
  - unfold run in *. cbn [run_gen]. unfold step in Hstep. rewrite Hstep. cbn [ebind]. rewrite Hrun. reflexivity.
  - apply Forall2_app; [|exact F2']. apply Forall2_rec_of_app. exact F2.
Qed.

Lemma BInv_unique F0 G st1 s1 A1 st2 s2 A2 :
  BInv kink c F0 G st1 s1 A1 -> BInv kink c F0 G st2 s2 A2 -> A1 = A2.
Proof.
  intros [_ _ _ _ (t1 & u1 & v1 & p1 & e1 & L1 & R1 & ->)] [_ _ _ _ (t2 & u2 & v2 & p2 & e2 & L2 & R2 & ->)].
  pose proof (Loop_det kink c _ _ _ _ _ L1 _ L2) as E. inversion E; subst.
  apply (RelE_ref c cfg_valid _ F0) in R1. apply (RelE_ref c cfg_valid _ F0) in R2. cbn [fst snd] in *.
  assert (e_next s1 = e_next s2) by lia. congruence.
Qed.

Lemma rec_of_proj F0 G specs : forall r1 r2,
  Forall2 (rec_of F0 G) specs r1 -> Forall2 (rec_of F0 G) specs r2 -> map proj r1 = map proj r2.
Proof.
  induction specs as [|[[f p] n] specs IH]; intros r1 r2 H1 H2; inversion H1; inversion H2; subst; [reflexivity|].
  cbn [map]. f_equal; [|apply IH; assumption].
  unfold rec_of in *. unfold proj.
  repeat match goal with H : _ /\ _ |- _ => destruct H end. congruence.
Qed.

Lemma block_independent_proof :
  forall (st0 : stream) (segsA segsB : list segment),
    0 <= st_first st0 -> segsA <> [] -> segsB <> [] ->
    contiguous (st_endframe st0) segsA -> contiguous (st_endframe st0) segsB ->
    seg_concat segsA = seg_concat segsB ->
    exists ra rb,
      run kink c st0 emt_reset segsA = EOk ra /\ run kink c st0 emt_reset segsB = EOk rb /\
      map proj (concat (snd ra)) = map proj (concat (snd rb)).
Proof.
  intros st0 segsA segsB HF NA NB CA CB Heq.
  destruct (run_main st0 segsA HF CA NA) as (ra & sa & RA & FA & BA).
  destruct (run_main st0 segsB HF CB NB) as (rb & sb & RB & FB & BB).
  exists ra, rb. split; [exact RA|]. split; [exact RB|].
  rewrite Heq in *. pose proof (BInv_unique _ _ _ _ _ _ _ _ BA BB) as ->.
  eapply rec_of_proj; eauto.
Qed.

End T.

(* ---------- order, lengths and overlap of what is emitted ---------- *)
Section O.
Variable kink : list Z -> Z.
Variable c : cfg.
Hypothesis kink_range : kink_ok kink.
Hypothesis cfg_valid : cfg_ok c.

Notation npre := (c_npre c).
Notation nsamp := (c_nsamp c).

Definition sframe (sp : spec) : Z := fst (fst sp).
Definition sbegin (sp : spec) : Z := fst (fst sp) - snd (fst sp).
Definition send (sp : spec) : Z := fst (fst sp) - snd (fst sp) + snd sp.

(* a comes before b: later frame; in variable-length mode a ends before b begins and at or before b's edge *)
Definition R2 (a b : spec) : Prop :=
  sframe a < sframe b /\ (c_mode c = 1 -> send a <= sbegin b /\ send a <= sframe b).

Definition full (sp : spec) : Prop :=
  0 <= snd (fst sp) /\ (c_mode c <> 1 -> snd (fst sp) = npre /\ snd sp = nsamp).

Definition PInv (F0 : Z) (acc : list spec) (s : lstate) : Prop :=
  let '(i, t, u, v) := s in
  npre <= i /\ 0 <= t <= u /\ u <= v /\ v <= i + F0 - 1 /\
  ForallOrdPairs R2 acc /\
  Forall (fun a => sframe a <= u /\ (c_mode c = 1 -> send a <= u + Z.min (nsamp - npre) (v - u))) acc /\
  Forall full acc.

Lemma FOP_snoc {A} (R : A -> A -> Prop) l x :
  ForallOrdPairs R l -> Forall (fun a => R a x) l -> ForallOrdPairs R (l ++ [x]).
Proof.
  induction 1 as [|a l Ha Hl IH]; intros HF; cbn [app].
  - constructor; constructor.
  - inversion HF; subst. constructor; [|apply IH; assumption].
    apply Forall_app; split; [exact Ha|constructor; [assumption|constructor]].
Qed.

Lemma sr_shape t u v : sr c t u v = [] \/ exists p n, sr c t u v = [(u, p, n)].
Proof.
  unfold sr, should_record.
  destruct ((u =? 0) || (u =? v) || (u =? t)); [now left|].
  destruct (c_mode c =? 1); [right; do 2 eexists; reflexivity|].
  destruct (c_mode c =? 0); [right; do 2 eexists; reflexivity|].
  destruct (c_mode c =? 2); [|now left].
  match goal with |- context [if ?b then _ else _] => destruct b end; [right; do 2 eexists; reflexivity|now left].
Qed.

(* appending the emission for the triple (t,u,v) whose predecessor state had (t0,t,u) *)
Lemma PInv_emit acc t u v :
  0 <= t <= u -> u <= v ->
  ForallOrdPairs R2 acc ->
  Forall (fun a => sframe a <= t /\ (c_mode c = 1 -> send a <= t + Z.min (nsamp - npre) (u - t))) acc ->
  Forall full acc ->
  ForallOrdPairs R2 (acc ++ sr c t u v) /\
  Forall (fun a => sframe a <= u /\ (c_mode c = 1 -> send a <= u + Z.min (nsamp - npre) (v - u))) (acc ++ sr c t u v) /\
  Forall full (acc ++ sr c t u v).
Proof.
  intros Ho1 Ho2 HP HA HFu. destruct cfg_valid as (V1 & V2 & _).
  assert (Hold : Forall (fun a => sframe a <= u /\ (c_mode c = 1 -> send a <= u + Z.min (nsamp - npre) (v - u))) acc).
  { eapply Forall_impl; [|exact HA]. intros a [A1 A2]. split; [lia|]. intros M. specialize (A2 M). lia. }
  destruct (sr_shape t u v) as [->|(p & n & E)]; [rewrite app_nil_r; auto|].
  assert (Hin : In (u, p, n) (sr c t u v)) by (rewrite E; now left).
  apply (sr_in c cfg_valid) in Hin as (_ & Hu0 & Hlt & Hp & Hn & Hm0 & Hm1); [|lia].
  rewrite E. split; [|split].
  - apply FOP_snoc; [exact HP|]. eapply Forall_impl; [|exact HA]. intros a [A1 A2].
    unfold R2, sframe, sbegin, send; cbn [fst snd]. split; [unfold sframe in A1; lia|].
    intros M. specialize (A2 M). specialize (Hm1 M). unfold send in A2. lia.
  - apply Forall_app; split; [exact Hold|]. constructor; [|constructor].
    unfold sframe, send; cbn [fst snd]. split; [lia|]. intros M. specialize (Hm1 M). lia.
  - apply Forall_app; split; [exact HFu|]. constructor; [|constructor].
    unfold full; cbn [fst snd]. split; [lia|exact Hm0].
Qed.

Lemma Loop_out_inv raw F0 iL s r :
  Loop kink c raw F0 iL s r -> forall acc, PInv F0 acc s -> PInv F0 (acc ++ snd r) (fst r).
Proof.
  induction 1 as [i t u v nx E | i t u v trig nx s' out E L IH]; intros acc HP; cbn [fst snd] in *.
  - rewrite app_nil_r. apply find_next_none in E. unfold PInv in *. repeat split; try tauto; lia.
  - pose proof (find_next_some kink kink_range _ _ _ _ _ _ _ _ _ E) as (e & He & Hx & Ht).
    destruct HP as (O0 & O1 & O2 & O3 & P1 & P2 & P3).
    assert (Hw : Z.max npre (e - 1) <= clampv c trig <= e + 1) by (unfold clampv; destruct (trig <? npre) eqn:Q; lia).
    destruct (PInv_emit acc u v (clampv c trig + F0) ltac:(lia) ltac:(lia) P1 P2 P3) as (Q1 & Q2 & Q3).
    rewrite app_assoc. apply IH. unfold PInv. repeat split; auto; lia.
Qed.

Lemma PInv_flush F0 acc s :
  PInv F0 acc s -> ForallOrdPairs R2 (acc ++ snd (flush c F0 s)) /\ Forall full (acc ++ snd (flush c F0 s)).
Proof.
  destruct s as [[[i t] u] v]. intros (O0 & O1 & O2 & O3 & P1 & P2 & P3). unfold flush.
  destruct ((0 <? v) && (v <? i + F0 - nsamp)); cbn [snd]; [|rewrite app_nil_r; auto].
  destruct (PInv_emit acc u v (i + F0) ltac:(lia) ltac:(lia) P1 P2 P3) as (Q1 & Q2 & Q3). auto.
Qed.

(* every run's cumulative emission is ordered, full length in the fixed modes, non-overlapping in variable mode *)
Lemma BInv_out F0 G st s A : 0 <= F0 -> BInv kink c F0 G st s A -> ForallOrdPairs R2 A /\ Forall full A.
Proof.
  intros HF [_ _ _ _ (t & u & v & pout & pend & L & R & ->)]. destruct cfg_valid as (V1 & V2 & _).
  apply (RelE_ref c cfg_valid _ F0) in R. cbn [fst snd] in R. rewrite R.
  unfold ref_loop in L. apply PInv_flush.
  apply (Loop_out_inv _ _ _ _ _ L []). unfold PInv. repeat split; try constructor; lia.
Qed.

Lemma FOP_Forall2 {A B} (Q : A -> B -> Prop) (R : A -> A -> Prop) (R' : B -> B -> Prop) :
  (forall a1 a2 b1 b2, Q a1 b1 -> Q a2 b2 -> R a1 a2 -> R' b1 b2) ->
  forall l l', Forall2 Q l l' -> ForallOrdPairs R l -> ForallOrdPairs R' l'.
Proof.
  intros H l l' F2. induction F2 as [|a b l l' Hab F2 IH]; intros HP; [constructor|].
  inversion HP as [|? ? Ha Hl]; subst. constructor; [|apply IH; assumption].
  clear IH HP Hl. induction F2 as [|a2 b2 l l' Hq F2 IH2]; [constructor|].
  inversion Ha; subst. constructor; [eapply H; eauto|apply IH2; assumption].
Qed.

End O.

(* ---------- the theorems, in the form Properties.v states them ---------- *)
Lemma rec_of_in_range F0 G sp r : rec_of F0 G sp r -> rec_in_range G F0 r = true.
Proof.
  destruct sp as [[f p] n]. unfold rec_of, rec_in_range, r_end, r_begin.
  intros (H1 & H2 & H3 & H4 & H5 & H6 & H7 & H8). rewrite H1, H2, H3.
  apply andb_true_iff; split; [lia|]. apply zlist_eqb_eq. exact H8.
Qed.

Lemma Forall2_Forall_r {A B} (Q : A -> B -> Prop) (P : B -> Prop) l l' :
  (forall a b, Q a b -> P b) -> Forall2 Q l l' -> Forall P l'.
Proof. intros H F2. induction F2; constructor; eauto. Qed.

Lemma Forall2_Forall_lr {A B} (Q : A -> B -> Prop) (P0 : A -> Prop) (P : B -> Prop) l l' :
  (forall a b, Q a b -> P0 a -> P b) -> Forall2 Q l l' -> Forall P0 l -> Forall P l'.
Proof. intros H F2. induction F2; intros HA; inversion HA; subst; constructor; eauto. Qed.

Section F.
Variable kink : list Z -> Z.
Variable c : cfg.
Hypothesis cfg_valid : cfg_ok c.
Hypothesis kink_range : kink_ok kink.
Variable st0 : stream.
Hypothesis first_nonneg : 0 <= st_first st0.
Variable segs : list segment.
Hypothesis gap_free : contiguous (st_endframe st0) segs.

Notation G := (st_data st0 ++ seg_concat segs).
Notation F0 := (st_first st0).

(* everything at once, for a non-empty delivery *)
Lemma run_all : segs <> [] ->
  exists r specs, run kink c st0 emt_reset segs = EOk r /\
    Forall2 (rec_of F0 G) specs (concat (snd r)) /\ ForallOrdPairs (R2 c) specs /\ Forall (full c) specs.
Proof.
  intros Hne. destruct (run_main kink c kink_range cfg_valid st0 segs first_nonneg gap_free Hne)
    as (r & specs & Hr & F2 & HB).
  destruct (BInv_out kink c kink_range cfg_valid _ _ _ _ _ first_nonneg HB) as [O1 O2].
  exists r, specs. auto.
Qed.

Lemma never_out_of_range_proof :
  exists r, run kink c st0 emt_reset segs = EOk r /\
            Forall (fun rec => rec_in_range G F0 rec = true) (concat (snd r)).
Proof.
  destruct segs as [|sg rest] eqn:E.
  - exists (st0, emt_reset, []). split; [reflexivity|constructor].
  - rewrite <- E in *. destruct run_all as (r & specs & Hr & F2 & _); [congruence|].
    exists r. split; [exact Hr|]. eapply Forall2_Forall_r; [|exact F2]. intros a b. apply rec_of_in_range.
Qed.

Lemma increasing_proof r :
  run kink c st0 emt_reset segs = EOk r -> ForallOrdPairs (fun a b => r_frame a < r_frame b) (concat (snd r)).
Proof.
  intros Hr. destruct segs as [|sg rest] eqn:E.
  - inversion Hr; subst. constructor.
  - rewrite <- E in *. destruct run_all as (r' & specs & Hr' & F2 & O1 & _); [congruence|].
    assert (r' = r) by congruence. subst r'.
    eapply FOP_Forall2; [|exact F2|exact O1].
    intros [[f1 p1] n1] [[f2 p2] n2] b1 b2 Q1 Q2 [H _]. unfold rec_of, sframe in *; cbn [fst snd] in *. lia.
Qed.

Lemma fixed_full_length_proof r :
  run kink c st0 emt_reset segs = EOk r -> c_mode c <> 1 ->
  Forall (fun rec => r_pre rec = c_npre c /\ zlen (r_data rec) = c_nsamp c) (concat (snd r)).
Proof.
  intros Hr Hm. destruct segs as [|sg rest] eqn:E.
  - inversion Hr; subst. constructor.
  - rewrite <- E in *. destruct run_all as (r' & specs & Hr' & F2 & _ & O2); [congruence|].
    assert (r' = r) by congruence. subst r'.
    eapply Forall2_Forall_lr; [|exact F2|exact O2].
    intros [[f p] n] b Q [_ Hf]. specialize (Hf Hm). unfold rec_of in Q; cbn [fst snd] in *. lia.
Qed.

Lemma variable_no_overlap_proof r :
  run kink c st0 emt_reset segs = EOk r -> c_mode c = 1 ->
  ForallOrdPairs (fun a b => r_end F0 a <= r_begin F0 b /\ r_end F0 a <= r_frame b - F0) (concat (snd r)).
Proof.
  intros Hr Hm. destruct segs as [|sg rest] eqn:E.
  - inversion Hr; subst. constructor.
  - rewrite <- E in *. destruct run_all as (r' & specs & Hr' & F2 & O1 & _); [congruence|].
    assert (r' = r) by congruence. subst r'.
    eapply FOP_Forall2; [|exact F2|exact O1].
    intros [[f1 p1] n1] [[f2 p2] n2] b1 b2 Q1 Q2 [_ H]. specialize (H Hm).
    unfold rec_of, send, sbegin, sframe, r_end, r_begin in *; cbn [fst snd] in *. lia.
Qed.

End F.

(* the extent of a variable-length record, in terms of the accepted edges around it: it starts no earlier than
   where the previous edge's record could end and ends at or before the next accepted edge *)
Lemma variable_extent_proof c t u v f p n :
  cfg_ok c -> c_mode c = 1 -> t <= u <= v -> In (f, p, n) (sr c t u v) ->
  f = u /\ t + Z.min (c_nsamp c - c_npre c) (u - t) <= f - p /\ f - p + n <= v /\ f - p + n <= u + (c_nsamp c - c_npre c).
Proof.
  intros Hc Hm Ho Hin. apply (sr_in c Hc) in Hin as (H1 & H2 & H3 & H4 & H5 & _ & H7); [|exact Ho].
  specialize (H7 Hm). lia.
Qed.

(* ---------- the code before the fix ---------- *)
Definition w_cfg : cfg := {| c_mode := 0; c_thr := 100; c_nmono := 1; c_npre := 6; c_nsamp := 16; c_zt := true |}.
Definition w_st0 : stream := {| st_data := []; st_first := 0; st_time := 0; st_period := 100000; st_signed := false |}.
Definition w_seg : segment :=
  {| seg_data := [1000;1000;1000;1000;1000;1000;1150;1300;1450;1600;1750;1900;2050;2200;2200;2200;2200;2200;2200;2200;
                  2200;2200;2200;2200;2200;2200;2200;2200;2200;2200;2200;2200;2200;2200;2200;2200;2200;2200;2200;2200];
     seg_first := 0; seg_time := 1000000000; seg_period := 100000; seg_signed := false |}.
Definition w_kink : list Z -> Z := fun _ => -1.   (* what the real fit answers for "flat, then ramp" *)

Lemma w_hyps : cfg_ok w_cfg /\ kink_ok w_kink /\ 0 <= st_first w_st0 /\ contiguous (st_endframe w_st0) [w_seg].
Proof. unfold cfg_ok, kink_ok, w_kink; cbn. repeat split; try lia; intros; lia. Qed.

Lemma refuted_pre_fix_proof :
  run_old w_kink w_cfg w_st0 emt_reset [w_seg] = EPanic /\
  exists r, run w_kink w_cfg w_st0 emt_reset [w_seg] = EOk r /\ map r_frame (concat (snd r)) = [6].
Proof. split; [vm_compute; reflexivity|]. eexists. split; vm_compute; reflexivity. Qed.

(* TriggerData with EdgeMulti set is the edge-multi pass alone, whatever the other flags *)
Lemma trigger_data_exclusive kink clamp c o s st :
  trigger_data_gen kink clamp c true o s st = emap Some (compute_append_gen kink clamp c s st).
Proof. unfold trigger_data_gen. destruct (compute_append_gen kink clamp c s st); reflexivity. Qed.

(* ---------- argument order of Properties.v ---------- *)
Lemma emt_block_independent_thm :
  forall (kink : list Z -> Z) (c : cfg) (st0 : stream) (segsA segsB : list segment),
    cfg_ok c -> kink_ok kink -> 0 <= st_first st0 ->
    segsA <> [] -> segsB <> [] ->
    contiguous (st_endframe st0) segsA -> contiguous (st_endframe st0) segsB ->
    seg_concat segsA = seg_concat segsB ->
    exists ra rb,
      run kink c st0 emt_reset segsA = EOk ra /\ run kink c st0 emt_reset segsB = EOk rb /\
      map proj (concat (snd ra)) = map proj (concat (snd rb)).
Proof. intros kink c st0 sa sb Hc Hk. exact (block_independent_proof kink c Hk Hc st0 sa sb). Qed.

Lemma emt_block_independent_statement_thm : block_independent_statement.
Proof. exact emt_block_independent_thm. Qed.

Lemma emt_never_out_of_range_thm :
  forall (kink : list Z -> Z) (c : cfg) (st0 : stream) (segs : list segment),
    cfg_ok c -> kink_ok kink -> 0 <= st_first st0 -> contiguous (st_endframe st0) segs ->
    exists r, run kink c st0 emt_reset segs = EOk r /\
              Forall (fun rec => rec_in_range (st_data st0 ++ seg_concat segs) (st_first st0) rec = true)
                     (concat (snd r)).
Proof. intros kink c st0 segs Hc Hk HF Hg. exact (never_out_of_range_proof kink c Hc Hk st0 HF segs Hg). Qed.

Lemma emt_increasing_thm :
  forall (kink : list Z -> Z) (c : cfg) (st0 : stream) (segs : list segment) r,
    cfg_ok c -> kink_ok kink -> 0 <= st_first st0 -> contiguous (st_endframe st0) segs ->
    run kink c st0 emt_reset segs = EOk r ->
    ForallOrdPairs (fun a b => r_frame a < r_frame b) (concat (snd r)).
Proof. intros kink c st0 segs r Hc Hk HF Hg. exact (increasing_proof kink c Hc Hk st0 HF segs Hg r). Qed.

Lemma emt_fixed_full_length_thm :
  forall (kink : list Z -> Z) (c : cfg) (st0 : stream) (segs : list segment) r,
    cfg_ok c -> kink_ok kink -> 0 <= st_first st0 -> contiguous (st_endframe st0) segs ->
    run kink c st0 emt_reset segs = EOk r -> c_mode c <> 1 ->
    Forall (fun rec => r_pre rec = c_npre c /\ zlen (r_data rec) = c_nsamp c) (concat (snd r)).
Proof. intros kink c st0 segs r Hc Hk HF Hg. exact (fixed_full_length_proof kink c Hc Hk st0 HF segs Hg r). Qed.

Lemma emt_variable_no_overlap_thm :
  forall (kink : list Z -> Z) (c : cfg) (st0 : stream) (segs : list segment) r,
    cfg_ok c -> kink_ok kink -> 0 <= st_first st0 -> contiguous (st_endframe st0) segs ->
    run kink c st0 emt_reset segs = EOk r -> c_mode c = 1 ->
    ForallOrdPairs (fun a b => r_end (st_first st0) a <= r_begin (st_first st0) b /\
                               r_end (st_first st0) a <= r_frame b - st_first st0) (concat (snd r)).
Proof. intros kink c st0 segs r Hc Hk HF Hg. exact (variable_no_overlap_proof kink c Hc Hk st0 HF segs Hg r). Qed.

(* ---------- the model's output passes the observable checker ---------- *)
Lemma proj_eqb_eq a b : proj_eqb a b = true <-> a = b.
Proof.
  destruct a as [[f1 p1] d1], b as [[f2 p2] d2]. unfold proj_eqb. rewrite !andb_true_iff, !Z.eqb_eq, zlist_eqb_eq.
  split; [intros [[-> ->] ->]; reflexivity|intros E; inversion E; auto].
Qed.

Lemma pairwise_ok_cons2 c F0 a b rest :
  pairwise_ok c F0 (a :: b :: rest) =
  (r_frame a <? r_frame b)
  && (negb (c_mode c =? 1) || ((r_end F0 a <=? r_begin F0 b) && (r_end F0 a <=? r_frame b - F0)))
  && pairwise_ok c F0 (b :: rest).
Proof. reflexivity. Qed.

Lemma pairwise_ok_of_FOP c F0 rs :
  ForallOrdPairs (fun a b => r_frame a < r_frame b) rs ->
  (c_mode c = 1 -> ForallOrdPairs (fun a b => r_end F0 a <= r_begin F0 b /\ r_end F0 a <= r_frame b - F0) rs) ->
  pairwise_ok c F0 rs = true.
Proof.
  induction rs as [|a [|b rest] IH]; intros H1 H2; [reflexivity|reflexivity|].
  rewrite pairwise_ok_cons2. inversion H1 as [|? ? Ha Hr]; subst. inversion Ha as [|? ? Hab _]; subst.
  rewrite IH; [|exact Hr|intros M; specialize (H2 M); inversion H2; assumption].
  destruct (c_mode c =? 1) eqn:M; cbn [negb orb andb].
  - specialize (H2 ltac:(lia)). inversion H2 as [|? ? Ha2 _]; subst. inversion Ha2 as [|? ? [X Y] _]; subst. lia.
  - lia.
Qed.

Lemma seq_ok_model kink c st0 segs r :
  cfg_ok c -> kink_ok kink -> 0 <= st_first st0 -> contiguous (st_endframe st0) segs ->
  run kink c st0 emt_reset segs = EOk r ->
  seq_ok c (st_data st0 ++ seg_concat segs) (st_first st0) (concat (snd r)) = true.
Proof.
  intros Hc Hk HF Hg Hr. unfold seq_ok. rewrite !andb_true_iff. split; [split|].
  - destruct (emt_never_out_of_range_thm kink c st0 segs Hc Hk HF Hg) as (r' & Hr' & Hall).
    assert (r' = r) by congruence. subst r'. apply forallb_forall. rewrite Forall_forall in Hall. exact Hall.
  - apply forallb_forall. intros x Hx. unfold rec_full_length. destruct (c_mode c =? 1) eqn:M; [reflexivity|].
    pose proof (emt_fixed_full_length_thm kink c st0 segs r Hc Hk HF Hg Hr ltac:(lia)) as Hall.
    rewrite Forall_forall in Hall. specialize (Hall x Hx). cbn [orb]. lia.
  - apply pairwise_ok_of_FOP.
    + exact (emt_increasing_thm kink c st0 segs r Hc Hk HF Hg Hr).
    + exact (emt_variable_no_overlap_thm kink c st0 segs r Hc Hk HF Hg Hr).
Qed.

Lemma emt_model_passes_checker_thm :
  forall (kink : list Z -> Z) (c : cfg) (st0 : stream) (segsA segsB : list segment),
    cfg_ok c -> kink_ok kink -> 0 <= st_first st0 ->
    segsA <> [] -> segsB <> [] ->
    contiguous (st_endframe st0) segsA -> contiguous (st_endframe st0) segsB ->
    seg_concat segsA = seg_concat segsB ->
    exists ra rb,
      run kink c st0 emt_reset segsA = EOk ra /\ run kink c st0 emt_reset segsB = EOk rb /\
      C08_check c (st_data st0 ++ seg_concat segsA) (st_first st0) (ORecs (snd ra)) (ORecs (snd rb)) = true.
Proof.
  intros kink c st0 sa sb Hc Hk HF NA NB CA CB Heq.
  destruct (emt_block_independent_thm kink c st0 sa sb Hc Hk HF NA NB CA CB Heq) as (ra & rb & RA & RB & E).
  exists ra, rb. split; [exact RA|]. split; [exact RB|]. unfold C08_check. rewrite !andb_true_iff. split; [split|].
  - apply (list_eqb_eq proj_eqb proj_eqb_eq). exact E.
  - exact (seq_ok_model kink c st0 sa ra Hc Hk HF CA RA).
  - rewrite Heq. exact (seq_ok_model kink c st0 sb rb Hc Hk HF CB RB).
Qed.
