(* C08 — proofs about the edge-multi mirror model. *)
From Dastard Require Import Common.ZX Pipeline.Stream C08.Model C08.Spec.
From Coq Require Import ZifyBool ZifyNat.

Definition la (c : cfg) : Z := c_nsamp c - c_npre c.
Definition lb (zt : bool) : Z := if zt then 4 else 1.

Definition emap {A B} (f : A -> B) (x : eres A) : eres B :=
  match x with EOk a => EOk (f a) | EPanic => EPanic | EFuel => EFuel end.

(* ---------- zget ---------- *)
Lemma zget_ok raw i : 0 <= i < zlen raw -> exists x, zget raw i = EOk x.
Proof.
  unfold zget, zlen; intros H. destruct (i <? 0) eqn:E; [lia|].
  destruct (nth_error raw (Z.to_nat i)) eqn:N; [eauto|].
  apply nth_error_None in N. lia.
Qed.

Lemma zget_range raw i x : zget raw i = EOk x -> 0 <= i < zlen raw.
Proof.
  unfold zget, zlen. destruct (i <? 0) eqn:E; [discriminate|].
  destruct (nth_error raw (Z.to_nat i)) eqn:N; [|discriminate]. intros _.
  assert (nth_error raw (Z.to_nat i) <> None) by congruence.
  apply nth_error_Some in H. lia.
Qed.

Lemma zget_app_l a b i : i < zlen a -> zget (a ++ b) i = zget a i.
Proof.
  unfold zget, zlen; intros H. destruct (i <? 0) eqn:E; [reflexivity|].
  rewrite nth_error_app1 by lia. reflexivity.
Qed.

Lemma nth_error_skipn_add {A} d : forall (l : list A) k, nth_error (skipn d l) k = nth_error l (d + k).
Proof.
  induction d as [|d IH]; intros l k; [reflexivity|].
  destruct l as [|x l]; cbn [skipn Nat.add nth_error]; [now destruct k | apply IH].
Qed.

Lemma zget_zskipn raw d k : 0 <= d -> 0 <= k -> zget (zskipn d raw) k = zget raw (k + d).
Proof.
  intros Hd Hk. unfold zget, zskipn. destruct (k <? 0) eqn:E; [lia|]. destruct (k + d <? 0) eqn:E2; [lia|].
  rewrite nth_error_skipn_add. replace (Z.to_nat d + Z.to_nat k)%nat with (Z.to_nat (k + d)) by lia. reflexivity.
Qed.

(* two sample arrays agree on [lo, hi] up to the index shift d *)
Definition agree (lo hi d : Z) (r1 r2 : list Z) : Prop :=
  forall k, lo <= k <= hi -> zget r1 k = zget r2 (k + d).

Lemma agree_prefix a b lo : agree lo (zlen a - 1) 0 a (a ++ b).
Proof. intros k Hk. rewrite Z.add_0_r. symmetry. apply zget_app_l. lia. Qed.

Lemma agree_suffix raw d hi : 0 <= d -> agree 0 hi d (zskipn d raw) raw.
Proof. intros Hd k Hk. apply zget_zskipn; lia. Qed.

Lemma is_mono_agree lo hi d r1 r2 rising k :
  agree lo hi d r1 r2 -> lo <= k - 1 -> k <= hi ->
  is_mono r2 rising (k + d) = is_mono r1 rising k.
Proof.
  intros H H1 H2. unfold is_mono. rewrite (H k) by lia. rewrite (H (k - 1)) by lia.
  replace (k - 1 + d) with (k + d - 1) by lia. reflexivity.
Qed.

Lemma mono_scan_agree lo hi d r1 r2 rising i :
  agree lo hi d r1 r2 ->
  forall n j, lo <= i + j - 1 -> i + j + Z.of_nat n <= hi ->
  mono_scan n r2 rising (i + d) j = mono_scan n r1 rising i j.
Proof.
  intros H. induction n as [|n IH]; intros j H1 H2; cbn [mono_scan].
  - replace (i + d + j) with (i + j + d) by lia. rewrite (is_mono_agree lo hi d r1 r2) by (auto; lia). reflexivity.
  - replace (i + d + j) with (i + j + d) by lia. rewrite (is_mono_agree lo hi d r1 r2) by (auto; lia).
    destruct (is_mono r1 rising (i + j)) as [m| |]; cbn [ebind]; try reflexivity.
    destruct m; [|reflexivity]. apply IH; lia.
Qed.

Lemma window_agree lo hi d r1 r2 i :
  agree lo hi d r1 r2 -> lo <= i - 4 -> i + 3 <= hi -> window r2 (i + d) = window r1 i.
Proof.
  intros H H1 H2. unfold window.
  replace (i + d - 4) with (i - 4 + d) by lia. replace (i + d - 3) with (i - 3 + d) by lia.
  replace (i + d - 2) with (i - 2 + d) by lia. replace (i + d - 1) with (i - 1 + d) by lia.
  replace (i + d + 1) with (i + 1 + d) by lia. replace (i + d + 2) with (i + 2 + d) by lia.
  replace (i + d + 3) with (i + 3 + d) by lia.
  rewrite <- !H by lia. reflexivity.
Qed.

Section K.
Variable kink : list Z -> Z.

Lemma zero_threshold_agree lo hi d r1 r2 i zt :
  agree lo hi d r1 r2 -> lo <= i - lb zt -> (zt = true -> i + 3 <= hi) ->
  zero_threshold kink r2 (i + d) zt = emap (fun x => x + d) (zero_threshold kink r1 i zt).
Proof.
  intros H H1 H2. unfold zero_threshold. destruct zt; cbn [lb] in *; [|reflexivity].
  rewrite (window_agree lo hi d r1 r2) by (auto; lia).
  destruct (window r1 i); cbn [ebind emap]; try reflexivity. f_equal. lia.
Qed.

Definition shift2 (d : Z) (p : Z * Z) : Z * Z := (fst p + d, snd p + d).

Lemma find_loop_agree lo hi d r1 r2 thr nmono maxN zt :
  agree lo hi d r1 r2 -> 1 <= maxN -> (zt = true -> 3 <= maxN) ->
  forall n i, lo <= i - lb zt -> i + Z.of_nat n - 1 + maxN <= hi ->
  find_loop kink n r2 (i + d) thr nmono maxN zt
  = emap (option_map (shift2 d)) (find_loop kink n r1 i thr nmono maxN zt).
Proof.
  intros H HN Hz. induction n as [|n IH]; intros i H1 H2; cbn [find_loop]; [reflexivity|].
  assert (Hlb : 1 <= lb zt) by (destruct zt; cbn; lia).
  rewrite <- (H i) by lia. replace (i + d - 1) with (i - 1 + d) by lia. rewrite <- (H (i - 1)) by lia.
  destruct (zget r1 i) as [a| |]; cbn [ebind emap]; try reflexivity.
  destruct (zget r1 (i - 1)) as [b| |]; cbn [ebind emap]; try reflexivity.
  destruct ((thr >=? 1) && (a - b >=? thr) || negb (thr >=? 1) && (a - b <=? thr)).
  - rewrite (mono_scan_agree lo hi d r1 r2) by (auto; lia).
    destruct (mono_scan (Z.to_nat (maxN - 1)) r1 (thr >=? 1) i 1) as [fm| |]; cbn [ebind emap]; try reflexivity.
    destruct (fm >=? nmono).
    + rewrite (zero_threshold_agree lo hi d r1 r2) by (auto; intros; lia).
      destruct (zero_threshold kink r1 i zt); cbn [ebind emap option_map]; try reflexivity.
      unfold shift2; cbn [fst snd]. do 3 f_equal. lia.
    + replace (i + d + 1) with (i + 1 + d) by lia. apply IH; lia.
  - replace (i + d + 1) with (i + 1 + d) by lia. apply IH; lia.
Qed.

Definition shift_fn (d : Z) (p : option Z * Z) : option Z * Z := (option_map (fun x => x + d) (fst p), snd p + d).

Lemma find_next_agree lo hi d r1 r2 thr nmono maxN zt iF iL :
  agree lo hi d r1 r2 -> 1 <= maxN -> (zt = true -> 3 <= maxN) ->
  lo <= iF - lb zt -> iL + maxN <= hi ->
  find_next kink r2 (iF + d) (iL + d) thr nmono maxN zt
  = emap (shift_fn d) (find_next kink r1 iF iL thr nmono maxN zt).
Proof.
  intros H HN Hz H1 H2. unfold find_next.
  replace (iL + d - (iF + d) + 1) with (iL - iF + 1) by lia.
  destruct (Z_le_gt_dec (iL - iF + 1) 0) as [Hle|Hgt].
  { replace (Z.to_nat (iL - iF + 1)) with O by lia. cbn [find_loop ebind emap].
    unfold shift_fn; cbn [fst snd option_map]. do 2 f_equal. lia. }
  rewrite (find_loop_agree lo hi d r1 r2) by (auto; lia).
  destruct (find_loop kink (Z.to_nat (iL - iF + 1)) r1 iF thr nmono maxN zt) as [[[tr nx]|]| |];
    cbn [ebind emap option_map shift2 fst snd]; try reflexivity.
  unfold shift_fn; cbn [fst snd option_map]. do 2 f_equal. lia.
Qed.

(* ---------- what the search returns ---------- *)
Lemma is_mono_total raw rising k : 1 <= k -> k <= zlen raw - 1 -> exists m, is_mono raw rising k = EOk m.
Proof.
  intros H1 H2. unfold is_mono.
  destruct (zget_ok raw k) as [a ->]; [lia|]. destruct (zget_ok raw (k - 1)) as [b ->]; [lia|].
  cbn [ebind]. eauto.
Qed.

Lemma mono_scan_range raw rising i : forall n j fm,
  mono_scan n raw rising i j = EOk fm -> j <= fm <= j + Z.of_nat n.
Proof.
  induction n as [|n IH]; intros j fm; cbn [mono_scan];
    destruct (is_mono raw rising (i + j)) as [m| |]; cbn [ebind]; try discriminate.
  - intros E; inversion E; lia.
  - destruct m; [|intros E; inversion E; lia]. intros E. apply IH in E. lia.
Qed.

Lemma mono_scan_total raw rising i : forall n j,
  1 <= i + j -> i + j + Z.of_nat n <= zlen raw - 1 -> exists fm, mono_scan n raw rising i j = EOk fm.
Proof.
  induction n as [|n IH]; intros j H1 H2; cbn [mono_scan];
    (destruct (is_mono_total raw rising (i + j)) as [m ->]; [lia|lia|]); cbn [ebind]; [eauto|].
  destruct m; [|eauto]. apply IH; lia.
Qed.

Lemma window_total raw i : 4 <= i -> i + 3 <= zlen raw - 1 -> exists w, window raw i = EOk w.
Proof.
  intros H1 H2. unfold window.
  destruct (zget_ok raw (i - 4)) as [a0 ->]; [lia|]. destruct (zget_ok raw (i - 3)) as [a1 ->]; [lia|].
  destruct (zget_ok raw (i - 2)) as [a2 ->]; [lia|]. destruct (zget_ok raw (i - 1)) as [a3 ->]; [lia|].
  destruct (zget_ok raw i) as [a4 ->]; [lia|]. destruct (zget_ok raw (i + 1)) as [a5 ->]; [lia|].
  destruct (zget_ok raw (i + 2)) as [a6 ->]; [lia|]. destruct (zget_ok raw (i + 3)) as [a7 ->]; [lia|].
  cbn [ebind]. eauto.
Qed.

Hypothesis kink_range : kink_ok kink.

Lemma zero_threshold_range raw i zt tr : zero_threshold kink raw i zt = EOk tr -> i - 1 <= tr <= i + 1.
Proof.
  unfold zero_threshold. destruct zt; [|intros E; inversion E; lia].
  destruct (window raw i) as [w| |]; cbn [ebind]; try discriminate.
  intros E; inversion E. pose proof (kink_range w). lia.
Qed.

Lemma zero_threshold_total raw i zt :
  lb zt <= i -> (zt = true -> i + 3 <= zlen raw - 1) -> exists tr, zero_threshold kink raw i zt = EOk tr.
Proof.
  intros H1 H2. unfold zero_threshold. destruct zt; cbn [lb] in *; [|eauto].
  destruct (window_total raw i) as [w ->]; [lia|auto|]. cbn [ebind]. eauto.
Qed.

Lemma find_loop_spec raw thr nmono maxN zt : forall n i tr nx,
  find_loop kink n raw i thr nmono maxN zt = EOk (Some (tr, nx)) ->
  exists e, i <= e < i + Z.of_nat n /\ e + 2 <= nx <= e + Z.max 1 maxN + 1 /\ e - 1 <= tr <= e + 1.
Proof.
  induction n as [|n IH]; intros i tr nx; cbn [find_loop]; [discriminate|].
  destruct (zget raw i) as [a| |]; cbn [ebind]; try discriminate.
  destruct (zget raw (i - 1)) as [b| |]; cbn [ebind]; try discriminate.
  assert (Hrec : find_loop kink n raw (i + 1) thr nmono maxN zt = EOk (Some (tr, nx)) ->
     exists e, i <= e < i + Z.of_nat (S n) /\ e + 2 <= nx <= e + Z.max 1 maxN + 1 /\ e - 1 <= tr <= e + 1).
  { intros E. apply IH in E as (e & He & Hx). exists e. split; [lia|exact Hx]. }
  destruct ((thr >=? 1) && (a - b >=? thr) || negb (thr >=? 1) && (a - b <=? thr)); [|exact Hrec].
  destruct (mono_scan (Z.to_nat (maxN - 1)) raw (thr >=? 1) i 1) as [fm| |] eqn:Em; cbn [ebind]; try discriminate.
  destruct (fm >=? nmono); [|exact Hrec].
  destruct (zero_threshold kink raw i zt) as [t0| |] eqn:Ez; cbn [ebind]; try discriminate.
  intros E; inversion E; subst. apply mono_scan_range in Em. apply zero_threshold_range in Ez.
  exists i. lia.
Qed.

Lemma find_loop_total raw thr nmono maxN zt : 1 <= maxN -> (zt = true -> 3 <= maxN) ->
  forall n i, lb zt <= i -> (n = O \/ i + Z.of_nat n - 1 + maxN <= zlen raw - 1) ->
  exists r, find_loop kink n raw i thr nmono maxN zt = EOk r.
Proof.
  intros HN Hz. induction n as [|n IH]; intros i H1 H2; cbn [find_loop]; [eauto|].
  destruct H2 as [H2|H2]; [discriminate|].
  assert (Hlb : 1 <= lb zt) by (destruct zt; cbn; lia).
  destruct (zget_ok raw i) as [a ->]; [lia|]. destruct (zget_ok raw (i - 1)) as [b ->]; [lia|]. cbn [ebind].
  assert (Hrec : exists r, find_loop kink n raw (i + 1) thr nmono maxN zt = EOk r).
  { apply IH; [lia|]. destruct n; [now left|right; lia]. }
  destruct ((thr >=? 1) && (a - b >=? thr) || negb (thr >=? 1) && (a - b <=? thr)); [|exact Hrec].
  destruct (mono_scan_total raw (thr >=? 1) i (Z.to_nat (maxN - 1)) 1) as [fm ->]; [lia|lia|]. cbn [ebind].
  destruct (fm >=? nmono); [|exact Hrec].
  destruct (zero_threshold_total raw i zt) as [tr ->]; [lia|intros; lia|]. cbn [ebind]. eauto.
Qed.

(* find_next: what a hit and a miss look like *)
Lemma find_next_some raw iF iL thr nmono maxN zt tr nx :
  find_next kink raw iF iL thr nmono maxN zt = EOk (Some tr, nx) ->
  exists e, iF <= e <= iL /\ e + 2 <= nx <= e + Z.max 1 maxN + 1 /\ e - 1 <= tr <= e + 1.
Proof.
  unfold find_next.
  destruct (find_loop kink (Z.to_nat (iL - iF + 1)) raw iF thr nmono maxN zt) as [[[t0 n0]|]| |] eqn:E;
    cbn [ebind]; try discriminate.
  intros X; inversion X; subst. apply find_loop_spec in E as (e & He & Hx). exists e. split; [lia|exact Hx].
Qed.

Lemma find_next_none raw iF iL thr nmono maxN zt nx :
  find_next kink raw iF iL thr nmono maxN zt = EOk (None, nx) -> nx = Z.max (iL + 1) iF.
Proof.
  unfold find_next.
  destruct (find_loop kink (Z.to_nat (iL - iF + 1)) raw iF thr nmono maxN zt) as [[[t0 n0]|]| |];
    cbn [ebind]; try discriminate.
  intros X; inversion X; reflexivity.
Qed.

Lemma find_next_total raw iF iL thr nmono maxN zt : 1 <= maxN -> (zt = true -> 3 <= maxN) ->
  lb zt <= iF -> iL + maxN <= zlen raw - 1 ->
  exists r, find_next kink raw iF iL thr nmono maxN zt = EOk r.
Proof.
  intros HN Hz H1 H2. unfold find_next.
  destruct (find_loop_total raw thr nmono maxN zt HN Hz (Z.to_nat (iL - iF + 1)) iF H1) as [r ->].
  { destruct (Z_le_gt_dec (iL - iF + 1) 0); [left; lia|right; lia]. }
  cbn [ebind]. destruct r as [[tr nx]|]; eauto.
Qed.

End K.

(* ---------- the outer loop of edgeMultiComputeRecordSpecs as a relation (no fuel) ---------- *)
Section L.
Variable kink : list Z -> Z.
Variable c : cfg.

Definition clampv (trig : Z) : Z := if trig <? c_npre c then c_npre c else trig.
Definition fnext (raw : list Z) (i iLast : Z) :=
  find_next kink raw i iLast (c_thr c) (c_nmono c) (c_nsamp c - c_npre c) (c_zt c).
Definition sr (t u v : Z) : list spec := opt_list (should_record t u v (c_npre c) (c_nsamp c) (c_mode c)).

(* scan position and (t,u,v) *)
Definition lstate := (Z * Z * Z * Z)%type.

Inductive Loop (raw : list Z) (F0 iLast : Z) : lstate -> lstate * list spec -> Prop :=
| Loop_stop i t u v nx :
    fnext raw i iLast = EOk (None, nx) -> Loop raw F0 iLast (i, t, u, v) ((nx, t, u, v), [])
| Loop_found i t u v trig nx s' out :
    fnext raw i iLast = EOk (Some trig, nx) ->
    Loop raw F0 iLast (nx, u, v, clampv trig + F0) (s', out) ->
    Loop raw F0 iLast (i, t, u, v) (s', sr u v (clampv trig + F0) ++ out).

Lemma Loop_det raw F0 iLast s r1 : Loop raw F0 iLast s r1 -> forall r2, Loop raw F0 iLast s r2 -> r1 = r2.
Proof.
  induction 1 as [i t u v nx E | i t u v trig nx s' out E L IH]; intros r2 L2; inversion L2; subst;
    try congruence.
  match goal with H : fnext raw i iLast = EOk (Some ?a, ?b) |- _ =>
    assert (a = trig /\ b = nx) as [-> ->] by (split; congruence) end.
  match goal with H : Loop raw F0 iLast _ (?a, ?b) |- _ => apply IH in H; inversion H; subst end.
  reflexivity.
Qed.

Lemma spec_loop_Loop raw F0 iLast : forall fuel i t u v acc r,
  spec_loop kink fuel true c raw F0 i iLast t u v acc = EOk r ->
  exists i' t' u' v' out, r = (i', t', u', v', acc ++ out) /\ Loop raw F0 iLast (i, t, u, v) ((i', t', u', v'), out).
Proof.
  induction fuel as [|fuel IH]; intros i t u v acc r; cbn [spec_loop]; [discriminate|].
  fold (fnext raw i iLast).
  destruct (fnext raw i iLast) as [[[trig|] nx]| |] eqn:E; cbn [ebind fst snd]; try discriminate.
  - cbn [andb]. fold (clampv trig). intros H. apply IH in H as (i' & t' & u' & v' & out & -> & L).
    exists i', t', u', v', (sr u v (clampv trig + F0) ++ out). split.
    + unfold sr. now rewrite app_assoc.
    + eapply Loop_found; eauto.
  - intros H; inversion H; subst. exists nx, t, u, v, []. split; [now rewrite app_nil_r|]. now apply Loop_stop.
Qed.

Hypothesis kink_range : kink_ok kink.

Lemma Loop_spec_loop raw F0 iLast s r : Loop raw F0 iLast s r ->
  forall fuel acc, (Z.to_nat (iLast + 1 - fst (fst (fst s))) < fuel)%nat ->
  spec_loop kink fuel true c raw F0 (fst (fst (fst s))) iLast (snd (fst (fst s))) (snd (fst s)) (snd s) acc
  = EOk (fst (fst (fst (fst r))), snd (fst (fst (fst r))), snd (fst (fst r)), snd (fst r), acc ++ snd r).
Proof.
  induction 1 as [i t u v nx E | i t u v trig nx s' out E L IH]; intros fuel acc Hf; cbn [fst snd] in *.
  - destruct fuel as [|fuel]; [lia|]. cbn [spec_loop]. fold (fnext raw i iLast). rewrite E. cbn [ebind fst snd].
    now rewrite app_nil_r.
  - destruct fuel as [|fuel]; [lia|]. cbn [spec_loop]. fold (fnext raw i iLast). rewrite E. cbn [ebind fst snd andb].
    fold (clampv trig). apply (find_next_some kink kink_range) in E as (e & He & Hx & _).
    rewrite IH by lia. unfold sr. now rewrite app_assoc.
Qed.

(* the search is local: a longer range finds the same first hit; a miss hands over to the rest of the range *)
Lemma find_loop_split raw thr nmono maxN zt : forall n1 n2 i,
  find_loop kink (n1 + n2) raw i thr nmono maxN zt =
  match find_loop kink n1 raw i thr nmono maxN zt with
  | EOk None => find_loop kink n2 raw (i + Z.of_nat n1) thr nmono maxN zt
  | r => r
  end.
Proof.
  induction n1 as [|n1 IH]; intros n2 i.
  - cbn [Nat.add find_loop]. now rewrite Z.add_0_r.
  - cbn [Nat.add find_loop].
    destruct (zget raw i) as [a| |]; cbn [ebind]; try reflexivity.
    destruct (zget raw (i - 1)) as [b| |]; cbn [ebind]; try reflexivity.
    assert (Hrec : find_loop kink (n1 + n2) raw (i + 1) thr nmono maxN zt =
                   match find_loop kink n1 raw (i + 1) thr nmono maxN zt with
                   | EOk None => find_loop kink n2 raw (i + Z.of_nat (S n1)) thr nmono maxN zt
                   | r => r end).
    { rewrite IH. replace (i + 1 + Z.of_nat n1) with (i + Z.of_nat (S n1)) by lia. reflexivity. }
    destruct ((thr >=? 1) && (a - b >=? thr) || negb (thr >=? 1) && (a - b <=? thr)); [|exact Hrec].
    destruct (mono_scan (Z.to_nat (maxN - 1)) raw (thr >=? 1) i 1) as [fm| |]; cbn [ebind]; try reflexivity.
    destruct (fm >=? nmono); [|exact Hrec].
    destruct (zero_threshold kink raw i zt); cbn [ebind]; reflexivity.
Qed.

Lemma fnext_split_some raw i iMid iLast trig nx :
  fnext raw i iMid = EOk (Some trig, nx) -> iMid <= iLast -> fnext raw i iLast = EOk (Some trig, nx).
Proof.
  unfold fnext, find_next. intros H Hle.
  destruct (Z_le_gt_dec (iMid - i + 1) 0) as [Hz|Hz].
  { replace (Z.to_nat (iMid - i + 1)) with O in H by lia. cbn in H. discriminate. }
  replace (Z.to_nat (iLast - i + 1)) with (Z.to_nat (iMid - i + 1) + Z.to_nat (iLast - iMid))%nat by lia.
  rewrite find_loop_split.
  destruct (find_loop kink (Z.to_nat (iMid - i + 1)) raw i (c_thr c) (c_nmono c) (c_nsamp c - c_npre c) (c_zt c))
    as [[[t0 n0]|]| |]; cbn [ebind] in *; try discriminate. exact H.
Qed.

Lemma fnext_split_none raw i iMid iLast nx :
  fnext raw i iMid = EOk (None, nx) -> iMid <= iLast -> fnext raw i iLast = fnext raw nx iLast.
Proof.
  intros H Hle. pose proof (find_next_none _ _ _ _ _ _ _ _ _ H) as Hnx.
  destruct (Z_le_gt_dec (iMid - i + 1) 0) as [Hz|Hz].
  { replace nx with i by lia. reflexivity. }
  unfold fnext, find_next in *.
  replace (Z.to_nat (iLast - i + 1)) with (Z.to_nat (iMid - i + 1) + Z.to_nat (iLast - iMid))%nat by lia.
  rewrite find_loop_split.
  destruct (find_loop kink (Z.to_nat (iMid - i + 1)) raw i (c_thr c) (c_nmono c) (c_nsamp c - c_npre c) (c_zt c))
    as [[[t0 n0]|]| |]; cbn [ebind] in *; try discriminate.
  replace (i + Z.of_nat (Z.to_nat (iMid - i + 1))) with nx by lia.
  replace (iLast - nx + 1) with (iLast - iMid) by lia.
  replace (Z.max (iLast + 1) i) with (Z.max (iLast + 1) nx) by lia. reflexivity.
Qed.

Lemma Loop_split raw F0 iMid iLast s r1 :
  Loop raw F0 iMid s r1 -> iMid <= iLast ->
  forall r2, Loop raw F0 iLast (fst r1) r2 -> Loop raw F0 iLast s (fst r2, snd r1 ++ snd r2).
Proof.
  induction 1 as [i t u v nx E | i t u v trig nx s' out E L IH]; intros Hle r2 L2; cbn [fst snd] in *.
  - inversion L2; subst; cbn [fst snd app].
    + apply Loop_stop. rewrite (fnext_split_none _ _ _ _ _ E Hle). assumption.
    + eapply Loop_found; [|eassumption]. rewrite (fnext_split_none _ _ _ _ _ E Hle). assumption.
  - rewrite <- app_assoc. eapply Loop_found.
    + eapply fnext_split_some; eauto.
    + apply (IH Hle r2 L2).
Qed.

(* ---------- the loop only depends on the samples it can reach ---------- *)
Definition pos (s : lstate) : Z := fst (fst (fst s)).
Definition sh (d : Z) (s : lstate) : lstate := (pos s + d, snd (fst (fst s)), snd (fst s), snd s).

Hypothesis cfg_valid : cfg_ok c.

Lemma la_pos : 1 <= c_nsamp c - c_npre c. Proof. destruct cfg_valid as (? & ? & ?). lia. Qed.
Lemma la_zt : c_zt c = true -> 3 <= c_nsamp c - c_npre c.
Proof. destruct cfg_valid as (? & ? & H). intros E. apply H in E. lia. Qed.
Lemma lb_npre : lb (c_zt c) <= c_npre c.
Proof. destruct cfg_valid as (? & ? & H). unfold lb. destruct (c_zt c); [apply H; reflexivity|lia]. Qed.

Lemma Loop_pos raw F0 iLast s r : Loop raw F0 iLast s r -> pos s <= pos (fst r) /\ iLast + 1 <= pos (fst r).
Proof.
  induction 1 as [i t u v nx E | i t u v trig nx s' out E L IH]; cbn [fst snd pos] in *.
  - apply find_next_none in E. lia.
  - apply (find_next_some kink kink_range) in E as (e & He & Hx & _). lia.
Qed.

Lemma Loop_agree lo hi d r1 r2 F1 iL s r :
  agree lo hi d r1 r2 -> 0 <= d -> iL + (c_nsamp c - c_npre c) <= hi ->
  Loop r1 F1 iL s r -> lo <= pos s - lb (c_zt c) -> (d = 0 \/ c_npre c + 1 <= pos s) ->
  Loop r2 (F1 - d) (iL + d) (sh d s) (sh d (fst r), snd r).
Proof.
  intros Hag Hd Hhi L. induction L as [i t u v nx E | i t u v trig nx s' out E L IH]; intros Hlo Hcl;
    unfold sh, pos in *; cbn [fst snd] in *.
  - apply Loop_stop. unfold fnext in *.
    rewrite (find_next_agree kink lo hi d r1 r2) by (auto using la_pos, la_zt). rewrite E. reflexivity.
  - pose proof (find_next_some kink kink_range _ _ _ _ _ _ _ _ _ E) as (e & He & Hx & Ht).
    assert (Hc : clampv (trig + d) + (F1 - d) = clampv trig + F1).
    { unfold clampv. destruct Hcl as [->|Hcl]; [now rewrite Z.add_0_r, Z.sub_0_r|].
      destruct (trig <? c_npre c) eqn:E1; [lia|]. destruct (trig + d <? c_npre c) eqn:E2; lia. }
    rewrite <- Hc. eapply Loop_found.
    + unfold fnext in *. rewrite (find_next_agree kink lo hi d r1 r2) by (auto using la_pos, la_zt).
      rewrite E. reflexivity.
    + rewrite Hc. apply IH; lia.
Qed.

Lemma Loop_total raw F0 iLast : iLast + (c_nsamp c - c_npre c) <= zlen raw - 1 ->
  forall m i t u v, (Z.to_nat (iLast + 1 - i) <= m)%nat -> lb (c_zt c) <= i ->
  exists r, Loop raw F0 iLast (i, t, u, v) r.
Proof.
  intros Hl. induction m as [|m IH]; intros i t u v Hm Hi;
    (destruct (find_next_total kink raw i iLast (c_thr c) (c_nmono c) (c_nsamp c - c_npre c) (c_zt c)
               la_pos la_zt Hi Hl) as [[[trig|] nx] E]);
    try (eexists; apply Loop_stop; exact E).
  - apply (find_next_some kink kink_range) in E as (e & He & _). lia.
  - pose proof (find_next_some kink kink_range _ _ _ _ _ _ _ _ _ E) as (e & He & Hx & _).
    destruct (IH nx u v (clampv trig + F0)) as [[s' out] L]; [lia|lia|].
    eexists. eapply Loop_found; eauto.
Qed.

(* edgeMultiComputeRecordSpecs in terms of the loop relation *)
Definition start_state (s : emt) (F0 : Z) : lstate :=
  if e_next s - F0 <? c_npre c then (c_npre c, 0, 0, 0) else (e_next s - F0, e_t s, e_u s, e_v s).

Definition flush (F0 : Z) (s : lstate) : emt * list spec :=
  let '(i, t, u, v) := s in
  let next := i + F0 in
  if (0 <? v) && (v <? next - c_nsamp c)
  then ({| e_next := next; e_t := t; e_u := v; e_v := v |}, sr u v next)
  else ({| e_next := next; e_t := t; e_u := u; e_v := v |}, []).

Lemma compute_specs_Loop s raw F0 s' out :
  Loop raw F0 (zlen raw - 1 - (c_nsamp c - c_npre c)) (start_state s F0) (s', out) ->
  compute_specs kink c s raw F0 = EOk (fst (flush F0 s'), out ++ snd (flush F0 s')).
Proof.
  intros L. unfold compute_specs, compute_specs_gen, start_state in *.
  destruct (e_next s - F0 <? c_npre c);
    (eapply Loop_spec_loop in L; cbn [fst snd emt_reset e_t e_u e_v] in *; [rewrite L|lia]);
    cbn [ebind app]; destruct s' as [[[i t] u] v]; cbn [fst snd flush];
    destruct ((0 <? v) && (v <? i + F0 - c_nsamp c)); cbn [fst snd]; unfold sr; now rewrite ?app_nil_r.
Qed.

End L.

(* ---------- edgeMultiShouldRecord ---------- *)
Section S.
Variable kink : list Z -> Z.
Variable c : cfg.
Hypothesis kink_range : kink_ok kink.
Hypothesis cfg_valid : cfg_ok c.

Notation npre := (c_npre c).
Notation nsamp := (c_nsamp c).
Notation sr := (sr c).

Lemma sr_in t u v f p n : t <= u <= v -> In (f, p, n) (sr t u v) ->
  f = u /\ u <> 0 /\ t < u < v /\ 0 <= p <= npre /\ 1 <= n - p <= nsamp - npre /\
  (c_mode c <> 1 -> p = npre /\ n = nsamp) /\
  (c_mode c = 1 -> p = Z.min npre (u - t - Z.min (nsamp - npre) (u - t)) /\ n - p = Z.min (nsamp - npre) (v - u)).
Proof.
  intros Ho. unfold Proofs.sr, should_record. destruct cfg_valid as (H1 & H2 & _).
  destruct ((u =? 0) || (u =? v) || (u =? t)) eqn:E; [intros []|].
  destruct (c_mode c =? 1) eqn:M1; [|destruct (c_mode c =? 0) eqn:M0; [|destruct (c_mode c =? 2) eqn:M2]];
    cbn [opt_list In].
  - intros [X|[]]; inversion X; subst. repeat split; try lia.
  - intros [X|[]]; inversion X; subst. repeat split; try lia.
  - destruct ((Z.min npre (u - t - Z.min (nsamp - npre) (u - t)) >=? npre)
               && (Z.min npre (u - t - Z.min (nsamp - npre) (u - t)) + Z.min (nsamp - npre) (v - u) >=? nsamp));
      cbn [opt_list In]; [|intros []].
    intros [X|[]]; inversion X; subst. repeat split; try lia.
  - intros [].
Qed.

Lemma sr_marker_t t v : sr t t v = [].
Proof. unfold Proofs.sr, should_record. rewrite Z.eqb_refl, !orb_true_r. reflexivity. Qed.

Lemma sr_marker_v t u : sr t u u = [].
Proof. unfold Proofs.sr, should_record. rewrite Z.eqb_refl, orb_true_r. reflexivity. Qed.

(* the third argument only matters up to the post-trigger length *)
Lemma sr_sat t u n1 n2 : nsamp - npre <= n1 - u -> nsamp - npre <= n2 - u -> sr t u n1 = sr t u n2.
Proof.
  intros H1 H2. destruct cfg_valid as (H3 & H4 & _). unfold Proofs.sr, should_record.
  replace (u =? n1) with false by lia. replace (u =? n2) with false by lia.
  replace (Z.min (nsamp - npre) (n1 - u)) with (nsamp - npre) by lia.
  replace (Z.min (nsamp - npre) (n2 - u)) with (nsamp - npre) by lia. reflexivity.
Qed.

(* ---------- range safety of one call ---------- *)
(* a spec that triggerAtSpecificSamples can cut from a window starting at frame F0 holding L samples *)
Definition spec_ok (F0 L : Z) (sp : spec) : Prop :=
  let '(f, p, n) := sp in 0 <= p /\ 0 <= n /\ F0 <= f - p /\ f - p + n <= F0 + L.

Definition SInv (F0 L : Z) (s : lstate) : Prop :=
  let '(i, t, u, v) := s in
  npre <= i /\ 0 <= t <= u /\ u <= v /\ v <= i + F0 - 1 /\
  (v = 0 \/ u = v \/ F0 + npre <= v) /\ (v = 0 \/ v + (nsamp - npre) <= F0 + L).

Lemma Loop_safe raw F0 s r :
  Loop kink c raw F0 (zlen raw - 1 - (nsamp - npre)) s r -> 0 <= F0 -> SInv F0 (zlen raw) s ->
  SInv F0 (zlen raw) (fst r) /\ Forall (spec_ok F0 (zlen raw)) (snd r).
Proof.
  intros L HF. induction L as [i t u v nx E | i t u v trig nx s' out E L IH]; intros Inv; cbn [fst snd] in *.
  - split; [|constructor]. apply find_next_none in E. unfold SInv in *. lia.
  - pose proof (find_next_some kink kink_range _ _ _ _ _ _ _ _ _ E) as (e & He & Hx & Ht).
    destruct cfg_valid as (H1 & H2 & _). unfold SInv in Inv.
    assert (Hw : Z.max npre (e - 1) <= clampv c trig <= e + 1) by (unfold clampv; destruct (trig <? npre) eqn:Q; lia).
    destruct IH as [I1 I2]; [unfold SInv; lia|]. split; [exact I1|].
    apply Forall_app; split; [|exact I2].
    apply Forall_forall. intros [[f p] n] Hin. apply sr_in in Hin; [|lia]. unfold spec_ok. lia.
Qed.

(* state between calls: what edgeMultiComputeRecordSpecs leaves behind, seen from the trimmed window
   (first frame F0w, one-past-last frame Ew) *)
Definition EInv (F0w Ew : Z) (s : emt) : Prop :=
  s = emt_reset \/
  (npre <= e_next s - F0w /\ 0 <= e_t s <= e_u s /\ e_u s <= e_v s /\ e_v s <= e_next s - 1 /\
   (e_v s = 0 \/ e_u s = e_v s \/ F0w + npre <= e_v s) /\ (e_v s = 0 \/ e_v s + (nsamp - npre) <= Ew)).

Lemma start_inv F0w Ew L s : EInv F0w Ew s -> 0 <= F0w -> Ew <= F0w + L -> SInv F0w L (start_state c s F0w).
Proof.
  intros [->|H] HF HE; unfold start_state, SInv; destruct cfg_valid as (H1 & H2 & _).
  - cbn [emt_reset e_next e_t e_u e_v]. destruct (0 - F0w <? npre) eqn:Q; lia.
  - destruct (e_next s - F0w <? npre) eqn:Q; lia.
Qed.

Definition kept (K F0 L : Z) : Z := if K >=? L then F0 else F0 + (L - K).

Lemma flush_inv F0 L s' : SInv F0 L s' -> 0 <= F0 -> L - 1 - (nsamp - npre) + 1 <= pos s' ->
  EInv (kept (n_to_keep c) F0 L) (F0 + L) (fst (flush c F0 s')) /\ Forall (spec_ok F0 L) (snd (flush c F0 s')).
Proof.
  destruct s' as [[[i t] u] v]. unfold SInv, pos, flush, kept, n_to_keep; cbn [fst snd].
  intros Inv HF Hp. destruct cfg_valid as (H1 & H2 & _).
  destruct ((0 <? v) && (v <? i + F0 - nsamp)) eqn:Q; cbn [fst snd]; (split; [right; cbn [e_next e_t e_u e_v]|]).
  - destruct (2 * nsamp + 10 >=? L) eqn:W; lia.
  - apply Forall_forall. intros [[f p] n] Hin. apply sr_in in Hin; [|lia]. unfold spec_ok. lia.
  - destruct (2 * nsamp + 10 >=? L) eqn:W; lia.
  - constructor.
Qed.

End S.

(* ---------- one ProcessSegments cycle ---------- *)
Section R.
Variable kink : list Z -> Z.
Variable c : cfg.
Hypothesis kink_range : kink_ok kink.
Hypothesis cfg_valid : cfg_ok c.

Notation npre := (c_npre c).
Notation nsamp := (c_nsamp c).

(* record r is what triggerAtSpecificSamples cuts from st for spec sp *)
Definition cut_of (st : stream) (sp : spec) (r : record) : Prop :=
  let '(f, p, n) := sp in
  r_frame r = f /\ r_pre r = p /\ r_data r = zslice (st_data st) (f - st_first st - p) n /\ zlen (r_data r) = n.

Lemma zslice_length {A} (l : list A) a n : 0 <= a -> 0 <= n -> a + n <= zlen l -> zlen (zslice l a n) = n.
Proof. intros. unfold zslice, zfirstn, zskipn, zlen in *. rewrite firstn_length, skipn_length. lia. Qed.

Lemma cut_all_ok st specs : Forall (spec_ok (st_first st) (zlen (st_data st))) specs ->
  exists recs, cut_all st specs = EOk recs /\ Forall2 (cut_of st) specs recs.
Proof.
  induction 1 as [|[[f p] n] specs H _ IH]; cbn [cut_all]; [eexists; split; [reflexivity|constructor]|].
  destruct IH as (recs & -> & F2). unfold spec_ok in H. unfold trigger_at.
  replace ((f - st_first st - p <? 0) || (f - st_first st + n - p >? zlen (st_data st)) || (n <? 0)) with false by lia.
  cbn [of_res ebind]. eexists; split; [reflexivity|]. constructor; [|exact F2].
  unfold cut_of; cbn [r_frame r_pre r_data]. repeat split; try lia. apply zslice_length; lia.
Qed.

Lemma trim_first K st : st_first (trim K st) = kept K (st_first st) (zlen (st_data st)).
Proof. unfold trim, kept. destruct (K >=? zlen (st_data st)); reflexivity. Qed.

Lemma trim_end K st : 0 <= K -> st_endframe (trim K st) = st_endframe st.
Proof.
  intros HK. unfold trim, st_endframe. destruct (K >=? zlen (st_data st)) eqn:E; [reflexivity|].
  cbn [st_data st_first]. rewrite zskipn_length by (pose proof (zlen_nonneg (st_data st)); lia). lia.
Qed.

Lemma step_char st s sg :
  EInv c (st_first st) (st_endframe st) s -> 0 <= st_first st -> seg_first sg = st_endframe st ->
  let st1 := append st sg in
  let W := st_data st ++ seg_data sg in
  exists s1 out recs,
    Loop kink c W (st_first st) (zlen W - 1 - (nsamp - npre)) (start_state c s (st_first st)) (s1, out) /\
    step kink c st s sg = EOk (trim (n_to_keep c) st1, fst (flush c (st_first st) s1), recs) /\
    Forall2 (cut_of st1) (out ++ snd (flush c (st_first st) s1)) recs /\
    st_data st1 = W /\ st_first st1 = st_first st /\
    EInv c (st_first (trim (n_to_keep c) st1)) (st_endframe (trim (n_to_keep c) st1)) (fst (flush c (st_first st) s1)) /\
    0 <= st_first (trim (n_to_keep c) st1) /\
    st_endframe (trim (n_to_keep c) st1) = st_endframe st + zlen (seg_data sg).
Proof.
  intros HE HF Hc st1 W.
  assert (Hd : st_data st1 = W) by reflexivity.
  assert (Hf : st_first st1 = st_first st) by (unfold st1, append, st_endframe in *; cbn [st_first]; lia).
  assert (HW : zlen W = zlen (st_data st) + zlen (seg_data sg)) by (unfold W; apply zlen_app).
  pose proof (zlen_nonneg (seg_data sg)) as Hsg. pose proof (zlen_nonneg (st_data st)) as Hst.
  destruct cfg_valid as (H1 & H2 & _).
  assert (HS : SInv c (st_first st) (zlen W) (start_state c s (st_first st))).
  { eapply start_inv; eauto. unfold st_endframe; lia. }
  destruct (Loop_total kink c kink_range cfg_valid W (st_first st) (zlen W - 1 - (nsamp - npre)) ltac:(lia)
              (Z.to_nat (zlen W - 1 - (nsamp - npre) + 1 - pos (start_state c s (st_first st))))
              (pos (start_state c s (st_first st)))
              (snd (fst (fst (start_state c s (st_first st)))))
              (snd (fst (start_state c s (st_first st)))) (snd (start_state c s (st_first st))))
    as [[s1 out] L]; [lia| |].
  { pose proof (lb_npre c cfg_valid). destruct (start_state c s (st_first st)) as [[[i t] u] v].
    unfold SInv, pos in *; cbn [fst]; lia. }
  assert (Hss : (pos (start_state c s (st_first st)), snd (fst (fst (start_state c s (st_first st)))),
                 snd (fst (start_state c s (st_first st))), snd (start_state c s (st_first st)))
                = start_state c s (st_first st)) by (destruct (start_state c s (st_first st)) as [[[? ?] ?] ?]; reflexivity).
  rewrite Hss in L.
  pose proof (Loop_safe kink c kink_range cfg_valid W (st_first st) _ _ L HF HS) as [I1 I2]. cbn [fst snd] in I1, I2.
  pose proof (Loop_pos kink c kink_range W _ _ _ _ L) as [_ Hp]. cbn [fst] in Hp.
  destruct (flush_inv c cfg_valid (st_first st) (zlen W) s1 I1 HF ltac:(lia)) as [J1 J2].
  assert (Hall : Forall (spec_ok (st_first st1) (zlen (st_data st1))) (out ++ snd (flush c (st_first st) s1))).
  { rewrite Hd, Hf. apply Forall_app; split; assumption. }
  destruct (cut_all_ok st1 _ Hall) as (recs & Hcut & F2).
  exists s1, out, recs. split; [exact L|]. split.
  { unfold step, step_gen, compute_append_gen. fold st1. rewrite Hd, Hf.
    pose proof (compute_specs_Loop kink c kink_range s W (st_first st) s1 out L) as CS.
    unfold compute_specs in CS. rewrite CS. cbn [ebind fst snd]. rewrite Hcut. cbn [ebind]. reflexivity. }
  split; [exact F2|]. split; [exact Hd|]. split; [exact Hf|].
  assert (HK : 0 <= n_to_keep c) by (unfold n_to_keep; lia).
  rewrite trim_first, trim_end by exact HK. rewrite Hd, Hf.
  split; [|split].
  - replace (st_endframe st1) with (st_first st + zlen W); [exact J1|]. unfold st_endframe. rewrite Hd, Hf. reflexivity.
  - unfold kept. destruct (n_to_keep c >=? zlen W) eqn:Q; lia.
  - unfold st_endframe. rewrite Hd, Hf, HW. lia.
Qed.

End R.

(* ---------- flushing an edge early does not change what is emitted ---------- *)
Section B.
Variable kink : list Z -> Z.
Variable c : cfg.
Hypothesis kink_range : kink_ok kink.
Hypothesis cfg_valid : cfg_ok c.

Notation npre := (c_npre c).
Notation nsamp := (c_nsamp c).
Notation sr := (sr c).

Definition tuv (s : lstate) : Z * Z * Z := (snd (fst (fst s)), snd (fst s), snd s).

(* [Rel B tau sigma pend]: tau = (t,u,v) of the loop that never flushes, sigma = (t,u,v) of the real run (which
   flushed at the end of earlier blocks), pend = what the real run has emitted ahead of the other;
   B = the absolute position the scan has reached (every later trigger is at B - 1 or beyond). *)
Inductive Rel (B : Z) : Z * Z * Z -> Z * Z * Z -> list spec -> Prop :=
| Rel0 tau : Rel B tau tau []
| Rel1 a b u v n : 0 < v -> v < n - nsamp -> n <= B -> Rel B (a, u, v) (b, v, v) (sr u v n)
| Rel2 a v w : Rel B (a, v, w) (v, v, w) [].

Lemma Rel_mono B B' tau sigma pend : Rel B tau sigma pend -> B <= B' -> Rel B' tau sigma pend.
Proof. intros R H. destruct R; constructor; lia. Qed.

Lemma Rel_found B B' t u v t2 u2 v2 pend w :
  Rel B (t, u, v) (t2, u2, v2) pend -> B - 1 <= w -> B <= B' ->
  exists pend1, Rel B' (u, v, w) (u2, v2, w) pend1 /\ pend ++ sr u2 v2 w = sr u v w ++ pend1.
Proof.
  intros R Hw HB. destruct cfg_valid as (H1 & H2 & _). inversion R; subst.
  - exists []. split; [constructor|]. now rewrite app_nil_r.
  - exists []. split; [constructor|]. rewrite sr_marker_t, !app_nil_r. apply sr_sat; auto; lia.
  - exists []. split; [constructor|]. now rewrite app_nil_r.
Qed.

Lemma Loop_bisim raw F0 iL s1 r1 :
  Loop kink c raw F0 iL s1 r1 ->
  forall s2 pend r2, pos s2 = pos s1 -> Rel (pos s1 + F0) (tuv s1) (tuv s2) pend ->
  Loop kink c raw F0 iL s2 r2 ->
  pos (fst r2) = pos (fst r1) /\
  exists pend', Rel (pos (fst r1) + F0) (tuv (fst r1)) (tuv (fst r2)) pend' /\ pend ++ snd r2 = snd r1 ++ pend'.
Proof.
  induction 1 as [i t u v nx E | i t u v trig nx s' out E L IH]; intros [[[i2 t2] u2] v2] pend r2 Hp R L2;
    unfold pos, tuv in *; cbn [fst snd] in *; subst i2.
  - inversion L2; subst; [|congruence]. cbn [fst snd].
    match goal with H : fnext kink c raw i iL = EOk (None, ?a) |- _ => assert (a = nx) by congruence; subst end.
    split; [reflexivity|]. exists pend. split; [|now rewrite app_nil_r].
    eapply Rel_mono; [exact R|]. apply find_next_none in E. lia.
  - inversion L2; subst; [congruence|]. cbn [fst snd].
    match goal with H : fnext kink c raw i iL = EOk (Some ?a, ?b) |- _ =>
      assert (a = trig /\ b = nx) as [-> ->] by (split; congruence) end.
    pose proof (find_next_some kink kink_range _ _ _ _ _ _ _ _ _ E) as (e & He & Hx & Ht).
    assert (Hw : i + F0 - 1 <= clampv c trig + F0) by (unfold clampv; destruct (trig <? npre) eqn:Q; lia).
    destruct (Rel_found (i + F0) (nx + F0) t u v t2 u2 v2 pend (clampv c trig + F0) R Hw ltac:(lia))
      as (pend1 & R1 & Eq).
    match goal with H : Loop kink c raw F0 iL (nx, u2, v2, _) _ |- _ =>
      destruct (IH (nx, u2, v2, clampv c trig + F0) pend1 _ eq_refl R1 H) as (Hpos & pend' & R' & Eq') end.
    cbn [fst snd] in *. split; [exact Hpos|]. exists pend'. split; [exact R'|].
    rewrite app_assoc, Eq, <- app_assoc, Eq', app_assoc. reflexivity.
Qed.

(* state relation at the end of a block, after the real run's flush check *)
Definition fc (v next : Z) : Prop := 0 < v /\ v < next - nsamp.

Inductive RelE (B : Z) : Z * Z * Z -> Z * Z * Z -> list spec -> Prop :=
| RelE0 t u v : ~ fc v B -> RelE B (t, u, v) (t, u, v) []
| RelE1 a b u v n : 0 < v -> v < n - nsamp -> n <= B -> RelE B (a, u, v) (b, v, v) (sr u v n)
| RelE2 a v w : ~ fc w B -> RelE B (a, v, w) (v, v, w) [].

Lemma RelE_Rel B tau sigma pend : RelE B tau sigma pend -> Rel B tau sigma pend.
Proof. intros R; destruct R; constructor; auto. Qed.

Definition tuv_of (s : emt) : Z * Z * Z := (e_t s, e_u s, e_v s).

Lemma Rel_flush B F0w i tau t2 u2 v2 pend :
  Rel B tau (t2, u2, v2) pend -> i + F0w = B ->
  RelE B tau (tuv_of (fst (flush c F0w (i, t2, u2, v2)))) (pend ++ snd (flush c F0w (i, t2, u2, v2)))
  /\ e_next (fst (flush c F0w (i, t2, u2, v2))) = B.
Proof.
  intros R HB. unfold flush, tuv_of. rewrite HB. destruct cfg_valid as (H1 & H2 & _).
  destruct ((0 <? v2) && (v2 <? B - nsamp)) eqn:Q; cbn [fst snd e_next e_t e_u e_v]; (split; [|reflexivity]).
  - inversion R; subst.
    + cbn [app]. apply RelE1; lia.
    + rewrite sr_marker_t, app_nil_r. apply RelE1; lia.
    + cbn [app]. apply RelE1; lia.
  - rewrite app_nil_r. inversion R; subst.
    + apply RelE0. unfold fc. lia.
    + lia.
    + apply RelE2. unfold fc. lia.
Qed.

(* what the single-block run emits at its end *)
Lemma RelE_ref B F0 tau sigma pend :
  RelE B tau sigma pend -> pend = snd (flush c F0 (B - F0, fst (fst tau), snd (fst tau), snd tau)).
Proof.
  intros R. destruct cfg_valid as (H1 & H2 & _). unfold flush. replace (B - F0 + F0) with B by lia.
  destruct R as [t u v N | a b u v n P1 P2 P3 | a v w N]; cbn [fst snd]; unfold fc in *.
  - destruct ((0 <? v) && (v <? B - nsamp)) eqn:Q; [lia|reflexivity].
  - destruct ((0 <? v) && (v <? B - nsamp)) eqn:Q; [|lia]. cbn [snd]. apply sr_sat; auto; lia.
  - destruct ((0 <? w) && (w <? B - nsamp)) eqn:Q; [lia|reflexivity].
Qed.

End B.
