(* C08 theorems: filled in as they close *)
