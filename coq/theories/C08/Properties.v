(* C08 — property theorems only: each closed by [exact], each followed by Print Assumptions.

   Common quantification: every refinement oracle [kink] (the decision of the float kink fit as a function of the
   8-sample window) with values in {-1,0,+1}; every configuration satisfying the length rule [cfg_ok]
   (npre >= 1, nsamp > npre, refinement on => npre >= 4 and nsamp - npre >= 4: weaker than what the code accepts);
   NO condition on threshold (either sign, zero), nmonotone or mode; every stream st0 retained by the channel when
   edge-multi is (re)configured (search state = EMTState.reset, frame numbers non-negative); every sequence of
   gap-free blocks of any sizes (empty blocks included).  [run] is the mirror of
   AppendSegment; edgeMultiTriggerComputeAppend; TrimKeepingN(NToKeepOnTrim) per block. *)
From Dastard Require Import Common.ZX Pipeline.Stream C08.Model C08.Spec C08.Proofs.

(* the hypotheses are satisfiable: the witness of the pre-fix defect meets all of them *)
Example hypotheses_met : cfg_ok w_cfg /\ kink_ok w_kink /\ 0 <= st_first w_st0 /\ contiguous (st_endframe w_st0) [w_seg].
Proof. exact w_hyps. Qed.

(* No stream content, edge position or block pattern crashes processing: the run completes (no Go panic — every
   raw[i] and every slice of triggerAtSpecificSamples is in range — and no fuel exhaustion of the model), and every
   record is the exact in-range excerpt of the samples delivered. *)
Theorem emt_never_out_of_range :
  forall (kink : list Z -> Z) (c : cfg) (st0 : stream) (segs : list segment),
    cfg_ok c -> kink_ok kink -> 0 <= st_first st0 -> contiguous (st_endframe st0) segs ->
    exists r, run kink c st0 emt_reset segs = EOk r /\
              Forall (fun rec => rec_in_range (st_data st0 ++ seg_concat segs) (st_first st0) rec = true)
                     (concat (snd r)).
Proof. exact emt_never_out_of_range_thm. Qed.
Print Assumptions emt_never_out_of_range.

(* Block independence, full strength: any two ways of cutting the same samples into one or more gap-free blocks
   publish the same sequence of (trigger frame, pre-trigger length, samples), and both runs complete. *)
Theorem emt_block_independent :
  forall (kink : list Z -> Z) (c : cfg) (st0 : stream) (segsA segsB : list segment),
    cfg_ok c -> kink_ok kink -> 0 <= st_first st0 ->
    segsA <> [] -> segsB <> [] ->
    contiguous (st_endframe st0) segsA -> contiguous (st_endframe st0) segsB ->
    seg_concat segsA = seg_concat segsB ->
    exists ra rb,
      run kink c st0 emt_reset segsA = EOk ra /\ run kink c st0 emt_reset segsB = EOk rb /\
      map proj (concat (snd ra)) = map proj (concat (snd rb)).
Proof. exact emt_block_independent_thm. Qed.
Print Assumptions emt_block_independent.

(* Records come in strictly increasing frame order over the whole run (all pairs, not only neighbours): in
   particular no frame is recorded twice — an accepted edge yields at most one record. *)
Theorem emt_increasing :
  forall (kink : list Z -> Z) (c : cfg) (st0 : stream) (segs : list segment) r,
    cfg_ok c -> kink_ok kink -> 0 <= st_first st0 -> contiguous (st_endframe st0) segs ->
    run kink c st0 emt_reset segs = EOk r ->
    ForallOrdPairs (fun a b => r_frame a < r_frame b) (concat (snd r)).
Proof. exact emt_increasing_thm. Qed.
Print Assumptions emt_increasing.

(* The two fixed-length modes (mode <> 1) only publish records with npre pre-trigger samples and nsamp samples. *)
Theorem emt_fixed_full_length :
  forall (kink : list Z -> Z) (c : cfg) (st0 : stream) (segs : list segment) r,
    cfg_ok c -> kink_ok kink -> 0 <= st_first st0 -> contiguous (st_endframe st0) segs ->
    run kink c st0 emt_reset segs = EOk r -> c_mode c <> 1 ->
    Forall (fun rec => r_pre rec = c_npre c /\ zlen (r_data rec) = c_nsamp c) (concat (snd r)).
Proof. exact emt_fixed_full_length_thm. Qed.
Print Assumptions emt_fixed_full_length.

(* Variable-length records (mode = 1) are pairwise disjoint, and none extends past the edge of a later record. *)
Theorem emt_variable_no_overlap :
  forall (kink : list Z -> Z) (c : cfg) (st0 : stream) (segs : list segment) r,
    cfg_ok c -> kink_ok kink -> 0 <= st_first st0 -> contiguous (st_endframe st0) segs ->
    run kink c st0 emt_reset segs = EOk r -> c_mode c = 1 ->
    ForallOrdPairs (fun a b => r_end (st_first st0) a <= r_begin (st_first st0) b /\
                               r_end (st_first st0) a <= r_frame b - st_first st0) (concat (snd r)).
Proof. exact emt_variable_no_overlap_thm. Qed.
Print Assumptions emt_variable_no_overlap.

(* ... nor past the next ACCEPTED edge, recorded or not: the spec edgeMultiShouldRecord gives for the edge u with
   accepted neighbours t <= u <= v starts at or after t + min(nsamp-npre, u-t) and ends at or before v. *)
Theorem emt_variable_extent :
  forall c t u v f p n,
    cfg_ok c -> c_mode c = 1 -> t <= u <= v -> In (f, p, n) (sr c t u v) ->
    f = u /\ t + Z.min (c_nsamp c - c_npre c) (u - t) <= f - p /\ f - p + n <= v /\
    f - p + n <= u + (c_nsamp c - c_npre c).
Proof. exact variable_extent_proof. Qed.
Print Assumptions emt_variable_extent.

(* The code before the fix (no look-back clamp on the refined position): an edge on the first searchable sample,
   refined one sample earlier, makes triggerAtSpecificSamples slice rawData[-1:].  Same input on the repaired
   model: one record at frame 6. *)
Theorem emt_never_out_of_range_refuted_pre_fix :
  run_old w_kink w_cfg w_st0 emt_reset [w_seg] = EPanic /\
  exists r, run w_kink w_cfg w_st0 emt_reset [w_seg] = EOk r /\ map r_frame (concat (snd r)) = [6].
Proof. exact refuted_pre_fix_proof. Qed.
Print Assumptions emt_never_out_of_range_refuted_pre_fix.

(* The link to the correspondence check: on every pair of deliveries of the same samples the model's outputs pass
   the observable checker C08_check (Spec.v) that bin/check applies to the implementation's outputs. *)
Theorem emt_model_passes_checker :
  forall (kink : list Z -> Z) (c : cfg) (st0 : stream) (segsA segsB : list segment),
    cfg_ok c -> kink_ok kink -> 0 <= st_first st0 ->
    segsA <> [] -> segsB <> [] ->
    contiguous (st_endframe st0) segsA -> contiguous (st_endframe st0) segsB ->
    seg_concat segsA = seg_concat segsB ->
    exists ra rb,
      run kink c st0 emt_reset segsA = EOk ra /\ run kink c st0 emt_reset segsB = EOk rb /\
      C08_check c (st_data st0 ++ seg_concat segsA) (st_first st0) (ORecs (snd ra)) (ORecs (snd rb)) = true.
Proof. exact emt_model_passes_checker_thm. Qed.
Print Assumptions emt_model_passes_checker.
