(* C08 — mirror model of /repo/edge_multi_trigger.go (edge-multi trigger search and record cutting) and of the
   per-block glue in triggering.go / process_data.go / data_source.go.  Definitions only, no proofs.

   One Gallina function per Go function, same control flow, same order of reads:
     zget                   raw[i]                      (index out of range = EPanic, never a default)
     mono_scan              the inner `for { ... j++ }` loop of edgeMultiFindNextTriggerInd
     zero_threshold         zeroThreshold: reads raw[i-4 .. i+3]; the float least-squares decision is the ORACLE
                            [kink : list Z -> Z] applied to that 8-sample window (see design.d/C08.md)
     find_loop / find_next  edgeMultiFindNextTriggerInd
     should_record          edgeMultiShouldRecord
     spec_loop / compute_specs   EMTState.edgeMultiComputeRecordSpecs
     compute_append         DataStreamProcessor.edgeMultiTriggerComputeAppend  (uses Pipeline.Stream.trigger_at)
     n_to_keep              EMTState.NToKeepOnTrim
     step                   processSegment + TrimStream for one channel with EdgeMulti on:
                            AppendSegment; TriggerData; TrimKeepingN(NToKeepOnTrim)
     run                    a sequence of blocks

   Integers: samples are Z in [0,65535]; frame numbers are unbounded Z.  The Go code converts
   `nextFrameIndexToInspect - frameIndexOfraw0` to int32: modelled as the identity (premise: stream frame numbers
   stay below 2^31 while edge-multi is on; DESIGN.md section 3). *)
From Dastard Require Import Common.ZX Pipeline.Stream.

(* results: Ok, a Go run-time panic, or the model's own fuel running out (proved unreachable) *)
Inductive eres (A : Type) : Type :=
| EOk (a : A)
| EPanic
| EFuel.
Arguments EOk {A} a.
Arguments EPanic {A}.
Arguments EFuel {A}.

Definition ebind {A B} (x : eres A) (f : A -> eres B) : eres B :=
  match x with EOk a => f a | EPanic => EPanic | EFuel => EFuel end.
Notation "x <- e ;; f" := (ebind e (fun x => f)) (at level 61, e at next level, right associativity).

(* raw[i] *)
Definition zget (raw : list Z) (i : Z) : eres Z :=
  if i <? 0 then EPanic
  else match nth_error raw (Z.to_nat i) with Some x => EOk x | None => EPanic end.

(* EMTState: configuration part and search state part *)
Record cfg := { c_mode : Z;     (* 0 EMTRecordsTwoFullLength, 1 EMTRecordsVariableLength, 2 EMTRecordsFullLengthIsolated *)
                c_thr : Z; c_nmono : Z; c_npre : Z; c_nsamp : Z; c_zt : bool }.
Record emt := { e_next : Z; e_t : Z; e_u : Z; e_v : Z }.

(* EMTState.reset *)
Definition emt_reset : emt := {| e_next := 0; e_t := 0; e_u := 0; e_v := 0 |}.

(* EMTState.valid *)
Definition emt_valid (c : cfg) : bool :=
  negb (c_zt c && (c_npre c <? 4)) && negb (c_zt c && (c_nsamp c - c_npre c <? 4))
  && negb (c_nmono c >? c_nsamp c - c_npre c).

(* EMTState.NToKeepOnTrim *)
Definition n_to_keep (c : cfg) : Z := 2 * c_nsamp c + 10.

(* isMonotone := (rising && raw[k] > raw[k-1]) || (falling && raw[k] < raw[k-1])   — reads raw[k] then raw[k-1] *)
Definition is_mono (raw : list Z) (rising : bool) (k : Z) : eres bool :=
  a <- zget raw k ;; b <- zget raw (k - 1) ;;
  EOk (if rising then a >? b else a <? b).

(* j := 1; for { isMonotone(i+j); if !isMonotone || j >= maxNmonotone { found = j; break }; j++ }
   called with n = Z.to_nat (maxNmonotone - j): n = 0 exactly when j >= maxNmonotone. *)
Fixpoint mono_scan (n : nat) (raw : list Z) (rising : bool) (i j : Z) : eres Z :=
  m <- is_mono raw rising (i + j) ;;
  match n with
  | O => EOk j
  | S n' => if m then mono_scan n' raw rising i (j + 1) else EOk j
  end.

(* the eight samples raw[i-4] .. raw[i+3], read in increasing order *)
Definition window (raw : list Z) (i : Z) : eres (list Z) :=
  a0 <- zget raw (i - 4) ;; a1 <- zget raw (i - 3) ;; a2 <- zget raw (i - 2) ;; a3 <- zget raw (i - 1) ;;
  a4 <- zget raw i ;; a5 <- zget raw (i + 1) ;; a6 <- zget raw (i + 2) ;; a7 <- zget raw (i + 3) ;;
  EOk [a0; a1; a2; a3; a4; a5; a6; a7].

Section WithKink.
(* the decision of the kink-model fit: the shift ceil(kbest) - i, a function of the 8-sample window *)
Variable kink : list Z -> Z.

(* zeroThreshold *)
Definition zero_threshold (raw : list Z) (i : Z) (enable : bool) : eres Z :=
  if enable then w <- window raw i ;; EOk (i + kink w) else EOk i.

(* for i := iFirst; i <= iLast; i++ { ... }   with n = number of positions left.
   Result: Some (triggerInd, nextIFirst) or None (loop ran to its end). *)
Fixpoint find_loop (n : nat) (raw : list Z) (i thr nmono maxN : Z) (zt : bool) : eres (option (Z * Z)) :=
  match n with
  | O => EOk None
  | S n' =>
      let rising := thr >=? 1 in
      a <- zget raw i ;; b <- zget raw (i - 1) ;;
      let diff := a - b in
      if (rising && (diff >=? thr)) || (negb rising && (diff <=? thr)) then
        fm <- mono_scan (Z.to_nat (maxN - 1)) raw rising i 1 ;;
        if fm >=? nmono then
          tr <- zero_threshold raw i zt ;; EOk (Some (tr, i + fm + 1))
        else find_loop n' raw (i + 1) thr nmono maxN zt
      else find_loop n' raw (i + 1) thr nmono maxN zt
  end.

(* edgeMultiFindNextTriggerInd: (Some triggerInd | None, nextIFirst) *)
Definition find_next (raw : list Z) (iFirst iLast thr nmono maxN : Z) (zt : bool) : eres (option Z * Z) :=
  r <- find_loop (Z.to_nat (iLast - iFirst + 1)) raw iFirst thr nmono maxN zt ;;
  match r with
  | Some (tr, nx) => EOk (Some tr, nx)
  | None => EOk (None, Z.max (iLast + 1) iFirst)
  end.

(* RecordSpec (firstRisingFrameIndex, npre, nsamp) *)
Definition spec := (Z * Z * Z)%type.

(* edgeMultiShouldRecord *)
Definition should_record (t u v npreIn nsampIn mode : Z) : option spec :=
  let lastNPost := Z.min (nsampIn - npreIn) (u - t) in
  let npre := Z.min npreIn (u - t - lastNPost) in
  let npost := Z.min (nsampIn - npreIn) (v - u) in
  if (u =? 0) || (u =? v) || (u =? t) then None
  else if mode =? 1 then Some (u, npre, npre + npost)
  else if mode =? 0 then Some (u, npreIn, nsampIn)
  else if mode =? 2 then
    if (npre >=? npreIn) && (npre + npost >=? nsampIn) then Some (u, npreIn, nsampIn) else None
  else None.

Definition opt_list {A} (o : option A) : list A := match o with Some x => [x] | None => [] end.

(* the `for { x := find...; iFirst = x.nextIFirst; if !found break; t,u,v = u,v,trig+F0; ... }` loop.
   [clamp] = the repaired code (a refined position below the look-back limit is not accepted: the trigger stays at
   the limit); [clamp = false] is the code before the fix.  Result (iFirst, t, u, v, specs).
   Fuel: each found trigger advances iFirst by at least 2 and the last round finds nothing, so
   1 + max 0 (iLast + 1 - iFirst) rounds suffice. *)
Fixpoint spec_loop (fuel : nat) (clamp : bool) (c : cfg) (raw : list Z) (F0 iFirst iLast t u v : Z)
         (acc : list spec) : eres (Z * Z * Z * Z * list spec) :=
  match fuel with
  | O => EFuel
  | S fuel' =>
      x <- find_next raw iFirst iLast (c_thr c) (c_nmono c) (c_nsamp c - c_npre c) (c_zt c) ;;
      let iFirst := snd x in
      match fst x with
      | None => EOk (iFirst, t, u, v, acc)
      | Some trig =>
          let trig := if clamp && (trig <? c_npre c) then c_npre c else trig in
          let t := u in let u := v in let v := trig + F0 in
          spec_loop fuel' clamp c raw F0 iFirst iLast t u v
                    (acc ++ opt_list (should_record t u v (c_npre c) (c_nsamp c) (c_mode c)))
      end
  end.

(* EMTState.edgeMultiComputeRecordSpecs *)
Definition compute_specs_gen (clamp : bool) (c : cfg) (s : emt) (raw : list Z) (F0 : Z) : eres (emt * list spec) :=
  let maxLookback := c_npre c in
  let maxLookahead := c_nsamp c - c_npre c in
  let iFirst := e_next s - F0 in
  let '(iFirst, s) := if iFirst <? maxLookback then (maxLookback, emt_reset) else (iFirst, s) in
  let iLast := zlen raw - 1 - maxLookahead in
  r <- spec_loop (S (Z.to_nat (iLast + 1 - iFirst))) clamp c raw F0 iFirst iLast (e_t s) (e_u s) (e_v s) [] ;;
  let '(iFirst, t, u, v, specs) := r in
  let next := iFirst + F0 in
  if (0 <? v) && (v <? next - c_nsamp c) then
    EOk ({| e_next := next; e_t := t; e_u := v; e_v := v |},
         specs ++ opt_list (should_record u v next (c_npre c) (c_nsamp c) (c_mode c)))
  else EOk ({| e_next := next; e_t := t; e_u := u; e_v := v |}, specs).

Definition compute_specs := compute_specs_gen true.
Definition compute_specs_old := compute_specs_gen false.

Definition of_res {A} (r : res A) : eres A := match r with Ok a => EOk a | Panic => EPanic end.

(* for _, recordSpec := range recordSpecs { triggerAtSpecificSamples(frame - firstFrameIndex, npre, nsamp) } *)
Fixpoint cut_all (st : stream) (specs : list spec) : eres (list record) :=
  match specs with
  | [] => EOk []
  | (f, p, n) :: rest =>
      r <- of_res (trigger_at st (f - st_first st) p n) ;;
      rs <- cut_all st rest ;;
      EOk (r :: rs)
  end.

(* edgeMultiTriggerComputeAppend *)
Definition compute_append_gen (clamp : bool) (c : cfg) (s : emt) (st : stream) : eres (emt * list record) :=
  r <- compute_specs_gen clamp c s (st_data st) (st_first st) ;;
  recs <- cut_all st (snd r) ;;
  EOk (fst r, recs).

(* TriggerData, step 1: "Edge Multi triggers are exclusive of all other types" — when EdgeMulti is set the
   edge / level / auto passes do not run, whatever their own flags (EdgeTrigger, LevelTrigger, AutoTrigger) say;
   with EdgeMulti off the other passes run (C02's model, not this one: None). *)
Record other_flags := { o_edge : bool; o_level : bool; o_auto : bool }.
Definition trigger_data_gen (clamp : bool) (c : cfg) (emulti : bool) (o : other_flags) (s : emt) (st : stream)
  : eres (option (emt * list record)) :=
  if emulti then r <- compute_append_gen clamp c s st ;; EOk (Some r) else EOk None.

(* one ProcessSegments cycle of one channel with EdgeMulti on (the EdgeMulti branch of TriggerData) *)
Definition step_gen (clamp : bool) (c : cfg) (st : stream) (s : emt) (sg : segment) : eres (stream * emt * list record) :=
  let st1 := append st sg in
  r <- compute_append_gen clamp c s st1 ;;
  EOk (trim (n_to_keep c) st1, fst r, snd r).

Fixpoint run_gen (clamp : bool) (c : cfg) (st : stream) (s : emt) (segs : list segment)
  : eres (stream * emt * list (list record)) :=
  match segs with
  | [] => EOk (st, s, [])
  | sg :: rest =>
      r <- step_gen clamp c st s sg ;;
      let '(st1, s1, recs) := r in
      r2 <- run_gen clamp c st1 s1 rest ;;
      let '(st2, s2, out) := r2 in
      EOk (st2, s2, recs :: out)
  end.

Definition step := step_gen true.
Definition run := run_gen true.
Definition run_old := run_gen false.
End WithKink.
