(* C08 — evaluation of generated cases: model vs observed implementation output, and the property checker. *)
From Dastard Require Import Common.ZX Common.CaseLib Pipeline.Stream C08.Model C08.Spec.

(* One experiment.  k_st0 = the stream the channel retained when edge-multi was configured (observed through the
   accessor; only data / first frame / signedness matter, AppendSegment overwrites time and period).
   k_tab = the oracle table: k_tab[j] is the shift (refined index - index) the real zeroThreshold returned for the
   window G[j .. j+8) of the ground truth G = st0 data ++ delivered samples (empty when refinement is off).
   k_segsA = the delivered samples as ONE block, k_segsB = the same samples cut into blocks. *)
(* k_also = which other trigger types the trigger state ALSO had switched on (bit 0 EdgeTrigger, bit 1 LevelTrigger,
   bit 2 AutoTrigger, with levels / delays that fire on the stream): by TriggerData's exclusivity rule
   (Model.trigger_data_gen) they have no effect while EdgeMulti is set, so the model's run does not depend on it. *)
Record case := {
  k_cfg : cfg; k_also : Z; k_st0 : stream; k_tab : list Z;
  k_segsA : list segment; k_outA : outcome;
  k_segsB : list segment; k_outB : outcome }.

Fixpoint starts_with (w g : list Z) : bool :=
  match w, g with
  | [], _ => true
  | x :: w', y :: g' => (x =? y) && starts_with w' g'
  | _ :: _, [] => false
  end.

(* the oracle as a function of the window: the entry of the first place in G where that window occurs
   (the real function is deterministic in the window, so any occurrence carries the same entry) *)
Fixpoint kink_of (g tab w : list Z) : Z :=
  match g, tab with
  | _ :: g', s :: tab' => if starts_with w g then s else kink_of g' tab' w
  | _, _ => 0
  end.

Definition ground (k : case) : list Z := st_data (k_st0 k) ++ seg_concat (k_segsA k).

Definition model_out (k : case) (segs : list segment) : outcome :=
  match run (kink_of (ground k) (k_tab k)) (k_cfg k) (k_st0 k) emt_reset segs with
  | EOk r => ORecs (snd r)
  | _ => OCrash
  end.

Definition outcome_eqb (a b : outcome) : bool :=
  match a, b with
  | ORecs x, ORecs y => list_eqb (list_eqb record_eqb) x y
  | OCrash, OCrash => true
  | _, _ => false
  end.

(* first block whose record list differs (B blocks are numbered after A's), or -1 *)
Fixpoint first_diff (i : Z) (a b : list (list record)) : Z :=
  match a, b with
  | [], [] => -1
  | x :: a', y :: b' => if list_eqb record_eqb x y then first_diff (i + 1) a' b' else i
  | _, _ => i
  end.
Definition out_diff (base : Z) (impl model : outcome) : Z :=
  match impl, model with
  | ORecs x, ORecs y => first_diff base x y
  | OCrash, OCrash => -1
  | _, _ => base
  end.

Definition verdict (k : case) : Z * Z :=
  let mA := model_out k (k_segsA k) in
  let mB := model_out k (k_segsB k) in
  let agree := outcome_eqb (k_outA k) mA && outcome_eqb (k_outB k) mB in
  let dA := out_diff 0 (k_outA k) mA in
  let d := if dA =? -1 then out_diff (zlen (k_segsA k)) (k_outB k) mB else dA in
  (verdict_code agree (C08_check (k_cfg k) (ground k) (st_first (k_st0 k)) (k_outA k) (k_outB k)), d).

(* compact constructors for generated files *)
Definition mkrec (frame time pre : Z) (data : list Z) (signed : bool) : record :=
  {| r_frame := frame; r_time := time; r_pre := pre; r_data := data; r_signed := signed |}.
Definition mkseg (first time period : Z) (signed : bool) (data : list Z) : segment :=
  {| seg_data := data; seg_first := first; seg_time := time; seg_period := period; seg_signed := signed |}.
Definition mkst (first period : Z) (signed : bool) (data : list Z) : stream :=
  {| st_data := data; st_first := first; st_time := 0; st_period := period; st_signed := signed |}.
Definition mkcfg (mode thr nmono npre nsamp : Z) (zt : bool) : cfg :=
  {| c_mode := mode; c_thr := thr; c_nmono := nmono; c_npre := npre; c_nsamp := nsamp; c_zt := zt |}.

(* cut X into blocks of the given lengths (a last short block takes what is left; lengths beyond the end give
   empty blocks); block k starts at frame [first] and time [time], both advanced by what was delivered *)
Fixpoint cut (first time period : Z) (signed : bool) (X : list Z) (lens : list Z) : list segment :=
  match lens with
  | [] => []
  | n :: rest =>
      let d := zfirstn n X in
      mkseg first time period signed d
      :: cut (first + zlen d) (time + zlen d * period) period signed (zskipn n X) rest
  end.

(* [t0] = time stamp (ns) of the first delivered sample, [X] the delivered samples, [lens] the block lengths of
   delivery B (they add up to |X|); delivery A is the single block X *)
Definition mk (c : cfg) (also : Z) (st0 : stream) (tab : list Z) (t0 period : Z) (signed : bool) (X : list Z)
           (oa : outcome) (lens : list Z) (ob : outcome) : case :=
  let f := st_first st0 + zlen (st_data st0) in
  {| k_cfg := c; k_also := also; k_st0 := st0; k_tab := tab;
     k_segsA := cut f t0 period signed X [zlen X]; k_outA := oa;
     k_segsB := cut f t0 period signed X lens; k_outB := ob |}.
