(* C16 — evaluation of generated cases: model vs what was observed on the implementation, and the checker.
   File contents are interned by the harness: an id stands for one distinct byte content, [c_table] gives
   for each id the entries a fresh viper instance parses from it (an id without table entry = content
   that does not parse).  Directory listings and message sets are compared without regard to order. *)
From Coq Require Import String Ascii.
From Dastard Require Import Common.ZX Common.CaseLib C16.Model C16.Spec.

Inductive obs :=
| OPub (l : list (string * value))
| OWait (saved : bool)
| OSave (snaps : list (list (name * Z))) (reads : list Z)    (* content ids; read id -1: start-up failed *)
| ORest (l : list (string * value))
| OSkip.   (* nothing was observed: updates sent before the SUB socket is known to be connected, and
              assignments made directly to the map in the runs that call saveState directly *)

Record case := {
  c_cfg : config;                       (* what ReadInConfig gave the updater's process *)
  c_dir : list (name * Z);              (* the configuration directory when the updater starts *)
  c_table : list (Z * config);
  c_hist : list (event * obs);
  (* further runs: dastard is killed during (or after) the last save of the run before - the directory is
     left as element k of that save's trace - and started again: (k, history of the new run) *)
  c_more : list (Z * list (event * obs))
}.

Definition zlookup {V} := @lookup Z V Z.eqb.

Fixpoint map_opt {X Y} (f : X -> option Y) (l : list X) : option (list Y) :=
  match l with
  | [] => Some []
  | x :: r => match f x, map_opt f r with
              | Some y, Some ys => Some (y :: ys)
              | _, _ => None
              end
  end.

Definition resolve_dir (tb : list (Z * config)) (d : list (name * Z)) : option (fs entry) :=
  map_opt (fun nc => match zlookup (snd nc) tb with Some c => Some (fst nc, c) | None => None end) d.

Definition resolve (tb : list (Z * config)) (o : obs) : option out :=
  match o with
  | OPub l => Some (Published l)
  | OWait b => Some (Waited b)
  | ORest l => Some (Restored l)
  | OSkip => None
  | OSave snaps reads =>
      match map_opt (resolve_dir tb) snaps,
            map_opt (fun id => match zlookup id tb with Some c => Some (Some c) | None => None end) reads with
      | Some tr, Some rs => Some (Saved tr rs)
      | _, _ => None
      end
  end.

(* ---- order-insensitive comparisons ---- *)
Definition pair_eqb (a b : string * value) : bool :=
  String.eqb (fst a) (fst b) && (snd a =? snd b).
Definition subset_pairs (a b : list (string * value)) : bool :=
  forallb (fun x => existsb (pair_eqb x) b) a.
Definition set_eqb (a b : list (string * value)) : bool :=
  (length a =? length b)%nat && subset_pairs a b && subset_pairs b a.

(* configurations are maps with unique keys *)
Definition config_equiv (a b : config) : bool := set_eqb a b.
Definition opt_config_equiv (a b : option config) : bool :=
  match a, b with
  | Some x, Some y => config_equiv x y
  | None, None => true
  | _, _ => false
  end.
Definition fs_equiv (a b : fs entry) : bool :=
  (length a =? length b)%nat
  && forallb (fun nc => match read b (fst nc) with Some c => config_equiv (snd nc) c | None => false end) a
  && forallb (fun nc => match read a (fst nc) with Some _ => true | None => false end) b.

Fixpoint all2 {X} (f : X -> X -> bool) (a b : list X) : bool :=
  match a, b with
  | [], [] => true
  | x :: a', y :: b' => f x y && all2 f a' b'
  | _, _ => false
  end.

Definition out_equiv (a b : out) : bool :=
  match a, b with
  | Published x, Published y => set_eqb x y
  | Waited x, Waited y => Bool.eqb x y
  | Saved t1 r1, Saved t2 r2 => all2 fs_equiv t1 t2 && all2 opt_config_equiv r1 r2
  | Restored x, Restored y => set_eqb x y
  | _, _ => false
  end.

(* index of the first event whose observation differs from the model's, or -1 *)
Fixpoint first_diff (i : Z) (a b : list out) : Z :=
  match a, b with
  | [], [] => -1
  | x :: a', y :: b' => if out_equiv x y then first_diff (i + 1) a' b' else i
  | _, _ => i
  end.

(* (code, index of the first diverging event); an observation that cannot be resolved (a file that does
   not parse, a start-up that failed) is a violation: code 1 *)
Definition fill (tb : list (Z * config)) (x : (event * obs) * out) : option out :=
  match x with
  | ((Update _ _ _, OSkip), m) => Some m      (* unobserved: taken from the model, so never a difference *)
  | ((InUse _ _, OSkip), m) => Some m         (* an annotation, nothing to observe *)
  | ((_, o), _) => resolve tb o
  end.

(* The RPC layer's part of the contract, which the updater model cannot know: what a restarted dastard
   restores for a key is the value the RPC layer last put into effect (InUse), provided the save is current. *)
Fixpoint expect_in_use (before evs : list event) (outs : list out) : list out :=
  match evs, outs with
  | e :: es, o :: os =>
      (match e, o with
       | Restart, Restored l =>
           if saved_is_current before then Restored (overlay (in_use_restorable before) l) else o
       | _, _ => o
       end) :: expect_in_use (before ++ [e]) es os
  | _, _ => outs
  end.

(* without annotations in the history the prediction is the updater model's own output *)
Lemma in_use_nil_run h :
  Forall (fun e => match e with InUse _ _ => False | _ => True end) h -> in_use h [] = [].
Proof.
  induction 1 as [|e r He Hr IH]; [reflexivity|].
  destruct e; cbn [in_use]; try exact IH. destruct He.
Qed.

Lemma expect_in_use_id evs : forall before outs,
  Forall (fun e => match e with InUse _ _ => False | _ => True end) (before ++ evs) ->
  expect_in_use before evs outs = outs.
Proof.
  induction evs as [|e es IH]; intros before outs H; [destruct outs; reflexivity|].
  destruct outs as [|o os]; [reflexivity|]. cbn [expect_in_use]. f_equal.
  - destruct e; try reflexivity. destruct o; try reflexivity.
    destruct (saved_is_current before); [|reflexivity].
    unfold in_use_restorable. rewrite in_use_nil_run; [reflexivity|]. now apply Forall_app in H as [H _].
  - apply IH. now rewrite <- app_assoc.
Qed.

(* one run from state y0: ((code, first differing event), (final state, the model's outputs)) *)
Definition run_verdict (tb : list (Z * config)) (y0 : sys) (h : list (event * obs))
  : (Z * Z) * (sys * list out) :=
  let evs := map fst h in
  let '(y1, model0) := run y0 evs in
  let model := expect_in_use [] evs model0 in
  match map_opt (fill tb) (combine h model) with
  | Some impl =>
      let d := first_diff 0 impl model in
      ((verdict_code (d =? -1) (C16_check (v_config y0) (combine evs impl)), d), (y1, model))
  | None => ((1, -2), (y1, model))
  end.

Fixpoint last_trace (os : list out) (d : list (fs entry)) : list (fs entry) :=
  match os with
  | [] => d
  | Saved tr _ :: r => last_trace r tr
  | _ :: r => last_trace r d
  end.

(* the runs after a kill: each starts from the directory the model predicts for the kill point; event
   indices of run n are reported as 1000 n + index *)
Fixpoint more_verdict (tb : list (Z * config)) (y : sys) (model : list out)
         (more : list (Z * list (event * obs))) (base : Z) : Z * Z :=
  match more with
  | [] => (0, -1)
  | (k, h) :: r =>
      let f := nth (Z.to_nat k) (last_trace model []) (disk y) in
      let '(v, (y1, m1)) := run_verdict tb (reboot f) h in
      if fst v =? 0 then more_verdict tb y1 m1 r (base + 1000) else (fst v, snd v + base)
  end.

Definition verdict (c : case) : Z * Z :=
  match resolve_dir (c_table c) (c_dir c) with
  | Some d0 =>
      let '(v, (y1, m1)) := run_verdict (c_table c) (init_sys (c_cfg c) d0) (c_hist c) in
      if fst v =? 0 then more_verdict (c_table c) y1 m1 (c_more c) 1000 else v
  | None => (1, -2)
  end.

(* compact constructors for generated files *)
Definition U (tag : string) (obj text : value) (l : list (string * value)) := (Update tag obj text, OPub l).
Definition Ux (tag : string) (obj text : value) := (Update tag obj text, OSkip).
Definition SA (l : list (string * value)) := (SendAll, OPub l).
Definition Wt (b : bool) := (Wait, OWait b).
Definition Sv (now : value) (faults : list bool) (snaps : list (list (name * Z))) (reads : list Z) :=
  (SaveTick now faults, OSave snaps reads).
Definition IU (key : string) (v : value) := (InUse key v, OSkip).
Definition Rs (l : list (string * value)) := (Restart, ORest l).
Definition mkK (cfg : config) (d : list (name * Z)) (tb : list (Z * config)) (h : list (event * obs))
           (more : list (Z * list (event * obs))) : case :=
  {| c_cfg := cfg; c_dir := d; c_table := tb; c_hist := h; c_more := more |}.
Definition mk cfg d tb h := mkK cfg d tb h [].
