(* C16 — property theorems only: each closed by [exact], each followed by Print Assumptions.
   Vocabulary: Model.v (step/run = the updater loop; fs, save_trace, startup = the configuration directory,
   saveState's operation sequence and dastard's start-up), Spec.v (status_topic, persistent_topic,
   last_text, last_obj, updated_tags, wf_event, consistent, case_distinct). *)
From Coq Require Import String.
From Dastard Require Import Common.ZX C16.Model C16.Spec C16.Proofs.

(* 1. For ALL histories of events (updates over any tags with repeats and unchanged values, SENDALLs,
      waits, saves with any failure pattern): the set published in answer to a SENDALL issued after the
      history is exactly { (t, last message of t) | t updated at least once, t a status topic }, one
      message per topic.  Hypothesis: the text of a message is never empty (it is JSON; value 0 = the empty string). *)
Theorem sendall_is_last_per_topic :
  forall (cfg : config) (d : fs entry) (h : list event) (l : list (string * value)),
    Forall wf_event h ->
    snd (step (fst (run (init_sys cfg d) h)) SendAll) = Published l ->
    NoDup (map fst l) /\
    forall t b, In (t, b) l <-> (status_topic t = true /\ last_text t h = Some b).
Proof. exact sendall_last_per_topic. Qed.
Print Assumptions sendall_is_last_per_topic.

Example sendall_is_last_per_topic_hypotheses_met :
  Forall wf_event example_history /\
  snd (step (fst (run (init_sys [] [(Main, [])]) example_history)) SendAll)
  = Published [("STATUS", 22); ("ALIVE", 31); ("TRIGGER", 41)]%string.
Proof. exact (conj example_wf example_answer). Qed.

(* 2. For ALL histories: a save that runs to its end without a failing operation leaves a main file from
      which the next start-up reads, for every persistent topic updated at least once, the latest value;
      every key no persistent topic maps to keeps the value it had.  Hypotheses: the rendered object is a
      function of the message text; no two tags differ only by case (viper keys are case-insensitive). *)
Theorem saved_is_latest :
  forall (cfg : config) (d : fs entry) (h : list event) (now : value),
    Forall wf_event h -> consistent h -> case_distinct h ->
    let y := fst (run (init_sys cfg d) h) in
    let y' := fst (step y (SaveTick now [])) in
    exists saved,
      snd (startup (disk y')) = Some saved /\
      (forall t o, persistent_topic t = true -> last_obj t h = Some o ->
                   slookup (to_lower t) saved = Some o) /\
      (forall k, (forall t, In t (updated_tags h ++ ["CURRENTTIME"; "___1"; "___2"]%string) ->
                            to_lower t <> k \/ nosave t = true) ->
                 slookup k saved = slookup k (all_settings y)).
Proof. exact saved_latest. Qed.
Print Assumptions saved_is_latest.

Example saved_is_latest_hypotheses_met :
  Forall wf_event example_history /\ consistent example_history /\ case_distinct example_history.
Proof. exact (conj example_wf (conj example_consistent example_case_distinct)). Qed.

(* ... and what start-up had read from the file and this run did not publish again is still in the file: the
   latest value of a topic last published in an earlier run is the stored one. *)
Theorem saved_keeps_what_was_stored :
  forall (cfg : config) (d : fs entry) (h : list event) (now : value),
    Forall wf_event h -> consistent h -> case_distinct h -> NoDup (map fst cfg) ->
    let y := fst (run (init_sys cfg d) h) in
    let y' := fst (step y (SaveTick now [])) in
    exists saved,
      snd (startup (disk y')) = Some saved /\
      forall k v, In (k, v) cfg ->
                  (forall t, In t (updated_tags h ++ ["CURRENTTIME"; "___1"; "___2"]%string) -> touches t k = false) ->
                  slookup k saved = Some v.
Proof. exact saved_keeps. Qed.
Print Assumptions saved_keeps_what_was_stored.

(* ... and the save does happen: for ALL histories, when some persistent topic received a new value since the
   last save, the delayed-save timer is running (an observer who waits sees a save). *)
Theorem change_makes_save_due :
  forall (cfg : config) (d : fs entry) (h : list event) (b : bool),
    Forall wf_event h ->
    snd (step (fst (run (init_sys cfg d) h)) Wait) = Waited b ->
    save_due h = true -> b = true.
Proof. exact wait_sees_due. Qed.
Print Assumptions change_makes_save_due.

(* ... and a dastard started after such a save restores the latest value of every persistent topic among
   the keys RunRPCServer / PrepareRun restore (source configurations, status = record lengths, writing =
   base path, tesmapfile, trigger). *)
Theorem restart_restores_saved :
  forall (cfg : config) (d : fs entry) (h : list event) (now : value) (l : list (string * value)),
    Forall wf_event h -> consistent h -> case_distinct h ->
    snd (step (fst (step (fst (run (init_sys cfg d) h)) (SaveTick now []))) Restart) = Restored l ->
    forall t o, persistent_topic t = true -> restorable_topic t = true -> last_obj t h = Some o ->
                slookup (to_lower t) l = Some o.
Proof. exact restart_restores. Qed.
Print Assumptions restart_restores_saved.

(* 3. For EVERY directory with a main file, EVERY content to be written, EVERY way of splitting the write
      into chunks, EVERY pattern of failing operations and EVERY prefix of the operation sequence of
      saveState (g ranges over the directory before the save and after each completed operation):
      start-up on g reads the complete old or the complete new content — the main file is never missing,
      empty or truncated. *)
Theorem save_crash_safe :
  forall (A : Type) (f : fs A) (old : content A) (chunks : list (content A)) (faults : list bool) (g : fs A),
    read f Main = Some old ->
    In g (save_trace f chunks faults) ->
    snd (startup g) = Some old \/ snd (startup g) = Some (concat chunks).
Proof. exact (@save_crash_safe_one). Qed.
Print Assumptions save_crash_safe.

Example save_crash_safe_hypotheses_met :
  read [(Main, [1; 2]); (Bak, [0])] Main = Some [1; 2] /\
  length (save_trace [(Main, [1; 2]); (Bak, [0])] [[3]; [4]] []) = 7%nat.
Proof. split; reflexivity. Qed.

(* ... and any number of times: saves cut at any point, restarts, further saves from whatever was left *)
Theorem save_crash_safe_any_number_of_times :
  forall (A : Type) (f0 : fs A) (v0 : content A) (f : fs A) (written : list (content A)),
    read f0 Main = Some v0 ->
    reachable f0 f written ->
    exists v, snd (startup f) = Some v /\ read f Main = Some v /\ In v (written ++ [v0]).
Proof. exact (@save_crash_safe_reachable). Qed.
Print Assumptions save_crash_safe_any_number_of_times.

(* the save step of the whole system is such a save: every state of its trace reads as the old or as
   the written configuration *)
Theorem updater_save_is_crash_safe :
  forall (y : sys) (now : value) (faults : list bool) tr reads (old : config),
    snd (step y (SaveTick now faults)) = Saved tr reads ->
    read (disk y) Main = Some old ->
    exists written,
      tr = save_trace (disk y) [written] faults /\
      written = all_settings (fst (save_state y now faults)) /\
      forall r, In r reads -> r = Some old \/ r = Some written.
Proof. exact updater_save_safe. Qed.
Print Assumptions updater_save_is_crash_safe.

(* start-up never finds the main file missing: it creates an empty one — which is why the old sequence
   lost the configuration *)
Theorem save_crash_safe_refuted_pre_fix :
  exists (f : fs Z) (old : content Z) (chunks : list (content Z)) (faults : list bool) (g : fs Z),
    read f Main = Some old /\ old <> [] /\
    nth_error (save_trace_old f chunks faults) 4 = Some g /\
    read g Main = None /\ snd (startup g) = Some [].
Proof. exact save_crash_safe_refuted_before_fix. Qed.
Print Assumptions save_crash_safe_refuted_pre_fix.

(* The converse bridge: for ALL histories without annotation events (InUse: the RPC layer's part of the
   contract, which the updater model does not contain) the outputs of the updater / save / restart model
   pass the observable checker, whatever the failure patterns of the saves and whatever the directory.
   Hence when the implementation's observations equal the model's (verdict "agree") the checker accepts:
   verdict code 3 cannot occur.  cfg = what start-up read (unique keys). *)
Theorem model_passes_checker :
  forall (cfg : config) (d : fs entry) (h : list event),
    Forall wf_event h -> consistent h -> case_distinct h -> NoDup (map fst cfg) ->
    Forall (fun e => match e with InUse _ _ => False | _ => True end) h ->
    C16_check cfg (combine h (snd (run (init_sys cfg d) h))) = true.
Proof. exact model_passes. Qed.
Print Assumptions model_passes_checker.

(* What the observable checker's "true" means, independent of the model. *)
Theorem checker_sound :
  forall cfg0 pre e o post,
    C16_check cfg0 (pre ++ (e, o) :: post) = true ->
    match e, o with
    | SendAll, Published l =>
        NoDup (map fst l) /\
        forall t b, In (t, b) l <-> (status_topic t = true /\ last_text t (map fst pre) = Some b)
    | SaveTick _ faults, Saved trace reads =>
        match written_of trace with
        | Some w =>
            (exists old, hd_error reads = Some (Some old) /\
                         forall r, In r reads -> r = Some old \/ r = Some w) /\
            (forallb negb faults = true ->          (* no operation failed: the save ran to its end *)
             length trace = 6%nat /\
             exists cfg, last reads None = Some cfg /\
                         (forall t ob, persistent_topic t = true -> last_obj t (map fst pre) = Some ob ->
                                       slookup (to_lower t) cfg = Some ob) /\
                         (* keys read at start-up (cfg0) that no topic of this run maps to keep their value *)
                         (forall k v, In (k, v) cfg0 ->
                                      (forall t, In t (written_tags (map fst pre)) -> touches t k = false) ->
                                      slookup k cfg = Some v) /\
                         (* what the RPC layer has put into effect is in the file *)
                         (forall k v, In (k, v) (in_use (map fst pre) []) -> slookup k cfg = Some v))
        | None => forallb negb faults = false      (* a save gives up only when an operation failed *)
        end
    | Restart, Restored l =>
        saved_is_current (map fst pre) = true ->
        (forall t ob, persistent_topic t = true -> restorable_topic t = true ->
                      last_obj t (map fst pre) = Some ob -> slookup (to_lower t) l = Some ob) /\
        (* what the RPC layer last put into effect (the base path in use, ...) *)
        (forall k v, In (k, v) (in_use_restorable (map fst pre)) -> slookup k l = Some v)
    | Wait, Waited saved => save_due (map fst pre) = true -> saved = true
    | _, _ => True
    end.
Proof. exact checker_accepts_means. Qed.
Print Assumptions checker_sound.
