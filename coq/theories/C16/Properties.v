(* C16 — property theorems only (under construction) *)
From Dastard Require Import Common.ZX C16.Model C16.Spec C16.Proofs.
