(* C16 — proofs (under construction) *)
From Coq Require Import String Ascii.
From Dastard Require Import Common.ZX C16.Model C16.Spec.
