(* C16 — proofs.  Part 1: the directory model (crash safety of the save sequence).
   Part 2: the updater loop (SENDALL answers, saved configuration). *)
From Coq Require Import String Ascii.
From Dastard Require Import Common.ZX C16.Model C16.Spec.

(* ------------------------------------------------------------------ names *)
Lemma name_eqb_eq a b : name_eqb a b = true <-> a = b.
Proof.
  destruct a, b; cbn [name_eqb]; split; intro H; try reflexivity; try discriminate.
  - apply Z.eqb_eq in H. now subst.
  - inversion H; subst. apply Z.eqb_refl.
Qed.
Lemma name_eqb_refl a : name_eqb a a = true.
Proof. now apply name_eqb_eq. Qed.
Lemma name_eqb_neq a b : a <> b -> name_eqb a b = false.
Proof.
  intro H. destruct (name_eqb a b) eqn:E; [|reflexivity]. apply name_eqb_eq in E. contradiction.
Qed.

(* ------------------------------------------------------------------ part 1: directory *)
Section FsProofs.
  Context {A : Type}.
  Implicit Types (f g : fs A) (c d : content A).

  Lemma read_set f n c m :
    read (set name_eqb n c f) m = if name_eqb m n then Some c else read f m.
  Proof.
    unfold read. induction f as [|[k v] r IH]; cbn [set lookup].
    - reflexivity.
    - destruct (name_eqb n k) eqn:Enk.
      + apply name_eqb_eq in Enk; subst k. cbn [lookup].
        destruct (name_eqb m n); reflexivity.
      + cbn [lookup]. rewrite IH.
        destruct (name_eqb m k) eqn:Emk; [|reflexivity].
        apply name_eqb_eq in Emk; subst k.
        destruct (name_eqb m n) eqn:Emn; [|reflexivity].
        apply name_eqb_eq in Emn; subst. rewrite name_eqb_refl in Enk. discriminate.
  Qed.

  Lemma read_remove f n m :
    read (remove name_eqb n f) m = if name_eqb m n then None else read f m.
  Proof.
    unfold read, remove. induction f as [|[k v] r IH]; cbn [filter lookup fst].
    - destruct (name_eqb m n); reflexivity.
    - destruct (name_eqb n k) eqn:Enk; cbn [negb].
      + rewrite IH. apply name_eqb_eq in Enk; subst k.
        destruct (name_eqb m n); reflexivity.
      + cbn [lookup]. rewrite IH.
        destruct (name_eqb m k) eqn:Emk; [|reflexivity].
        apply name_eqb_eq in Emk; subst k.
        rewrite (name_eqb_neq m n); [reflexivity|].
        intro; subst. rewrite name_eqb_refl in Enk. discriminate.
  Qed.

  (* start-up on a directory that has a main file changes nothing and reads it *)
  Lemma startup_reads f v : read f Main = Some v -> startup f = (f, Some v).
  Proof.
    intro H. unfold startup, make_file_exist. cbn [apply]. rewrite H. cbn [fst]. now rewrite H.
  Qed.
  (* start-up on a directory without main file creates an empty one *)
  Lemma startup_creates f : read f Main = None -> snd (startup f) = Some [].
  Proof.
    intro H. unfold startup, make_file_exist. cbn [apply]. rewrite H. cbn [fst snd].
    rewrite read_set. now rewrite name_eqb_refl.
  Qed.
  Lemma startup_never_missing f : exists v, snd (startup f) = Some v.
  Proof.
    destruct (read f Main) eqn:E.
    - exists c. now rewrite (startup_reads _ _ E).
    - exists []. now apply startup_creates.
  Qed.

  (* the tail of the save: remove bak; link main -> bak; rename tmp -> main *)
  Lemma tail_states f old new faults g :
    read f Main = Some old -> read f Tmp = Some new ->
    In g (exec f [ (Remove Bak, ok_or_enoent); (Link Main Bak, ok_or_enoent); (Rename Tmp Main, any_result) ] faults) ->
    read g Main = Some old \/ read g Main = Some new.
  Proof.
    intros Hm Ht Hin.
    cbn [exec] in Hin.
    destruct (hd false faults).
    { cbn in Hin. contradiction. }
    (* Remove Bak *)
    set (f1 := fst (apply f (Remove Bak))) in *.
    assert (H1m : read f1 Main = Some old).
    { subst f1. cbn [apply]. destruct (read f Bak); cbn [fst]; [|exact Hm].
      rewrite read_remove. cbn [name_eqb]. exact Hm. }
    assert (H1t : read f1 Tmp = Some new).
    { subst f1. cbn [apply]. destruct (read f Bak); cbn [fst]; [|exact Ht].
      rewrite read_remove. cbn [name_eqb]. exact Ht. }
    assert (H1b : read f1 Bak = None).
    { subst f1. cbn [apply]. destruct (read f Bak) eqn:Eb; cbn [fst]; [|exact Eb].
      rewrite read_remove. now rewrite name_eqb_refl. }
    assert (Hcont : ok_or_enoent (snd (apply f (Remove Bak))) = true).
    { cbn [apply]. destruct (read f Bak); reflexivity. }
    destruct (apply f (Remove Bak)) as [f1' r1] eqn:E1. cbn [fst snd] in *. subst f1.
    rewrite Hcont in Hin.
    destruct Hin as [<- | Hin]; [now left|].
    (* Link Main Bak *)
    cbn [exec] in Hin.
    destruct (hd false (tl faults)).
    { cbn in Hin. contradiction. }
    cbn [apply] in Hin. rewrite H1m, H1b in Hin. cbn [ok_or_enoent] in Hin.
    set (f2 := set name_eqb Bak old f1') in *.
    assert (H2m : read f2 Main = Some old) by (subst f2; rewrite read_set; cbn [name_eqb]; exact H1m).
    assert (H2t : read f2 Tmp = Some new) by (subst f2; rewrite read_set; cbn [name_eqb]; exact H1t).
    destruct Hin as [<- | Hin]; [now left|].
    (* Rename Tmp Main *)
    cbn [exec] in Hin.
    destruct (hd false (tl (tl faults))).
    { cbn [any_result] in Hin. destruct Hin as [<- | []]. now left. }
    cbn [apply] in Hin. rewrite H2t in Hin. cbn [name_eqb any_result] in Hin.
    destruct Hin as [<- | []].
    right. rewrite read_set. now rewrite name_eqb_refl.
  Qed.

  (* the writes of the temporary file, followed by anything *)
  Lemma appends_states chunks : forall f faults acc rest g,
    read f Tmp = Some acc ->
    In g (exec f (map (fun c => (Append Tmp c, is_ok)) chunks ++ rest) faults) ->
    read g Main = read f Main \/
    exists f2 faults2, read f2 Main = read f Main /\ read f2 Tmp = Some (acc ++ concat chunks) /\
                       In g (exec f2 rest faults2).
  Proof.
    induction chunks as [|c cs IH]; intros f faults acc rest g Ht Hin.
    - right. exists f, faults. cbn [map app concat] in *. rewrite app_nil_r. auto.
    - cbn [map app exec] in Hin.
      destruct (hd false faults).
      { cbn in Hin. contradiction. }
      cbn [apply] in Hin. rewrite Ht in Hin. cbn [is_ok] in Hin.
      set (f1 := set name_eqb Tmp (acc ++ c) f) in *.
      assert (H1m : read f1 Main = read f Main) by (subst f1; rewrite read_set; reflexivity).
      assert (H1t : read f1 Tmp = Some (acc ++ c)) by (subst f1; rewrite read_set; reflexivity).
      destruct Hin as [<- | Hin]; [now left|].
      destruct (IH f1 (tl faults) (acc ++ c) rest g H1t Hin) as [H | (f2 & fl2 & Hm2 & Ht2 & Hin2)].
      + left. congruence.
      + right. exists f2, fl2. repeat split; try assumption.
        * congruence.
        * rewrite Ht2. cbn [concat]. now rewrite app_assoc.
  Qed.

  (* every state a kill during one save can leave has the complete old or the complete new main file *)
  Lemma save_trace_main f old chunks faults g :
    read f Main = Some old ->
    In g (save_trace f chunks faults) ->
    read g Main = Some old \/ read g Main = Some (concat chunks).
  Proof.
    intros Hm Hin. unfold save_trace in Hin.
    destruct Hin as [<- | Hin]; [now left|].
    unfold save_ops, write_config_as in Hin.
    cbn [app exec] in Hin.
    destruct (hd false faults).
    { cbn in Hin. contradiction. }
    cbn [apply is_ok] in Hin.
    set (f1 := set name_eqb Tmp [] f) in *.
    assert (H1m : read f1 Main = Some old) by (subst f1; rewrite read_set; exact Hm).
    assert (H1t : read f1 Tmp = Some []) by (subst f1; rewrite read_set; reflexivity).
    destruct Hin as [<- | Hin]; [now left|].
    destruct (appends_states chunks f1 (tl faults) [] _ g H1t Hin) as [H | (f2 & fl2 & Hm2 & Ht2 & Hin2)].
    - left. congruence.
    - cbn [app] in Ht2. rewrite H1m in Hm2.
      exact (tail_states f2 old (concat chunks) fl2 g Hm2 Ht2 Hin2).
  Qed.

  Lemma save_crash_safe_one f old chunks faults g :
    read f Main = Some old ->
    In g (save_trace f chunks faults) ->
    snd (startup g) = Some old \/ snd (startup g) = Some (concat chunks).
  Proof.
    intros Hm Hin.
    destruct (save_trace_main f old chunks faults g Hm Hin) as [H | H];
      rewrite (startup_reads _ _ H); auto.
  Qed.

  Lemma reachable_main f0 v0 f vs :
    read f0 Main = Some v0 -> reachable f0 f vs ->
    exists v, read f Main = Some v /\ In v (vs ++ [v0]).
  Proof.
    intros H0 R. induction R as [| f vs chunks faults f' R IH Hin | f vs R IH].
    - exists v0. split; [assumption | now left].
    - destruct IH as (v & Hv & Hinv).
      destruct (save_trace_main f v chunks faults f' Hv Hin) as [H | H].
      + exists v. split; [assumption | now right].
      + exists (concat chunks). split; [assumption | now left].
    - destruct IH as (v & Hv & Hinv). exists v. rewrite (startup_reads _ _ Hv). auto.
  Qed.

  Lemma save_crash_safe_reachable f0 v0 f vs :
    read f0 Main = Some v0 -> reachable f0 f vs ->
    exists v, snd (startup f) = Some v /\ read f Main = Some v /\ In v (vs ++ [v0]).
  Proof.
    intros H0 R. destruct (reachable_main f0 v0 f vs H0 R) as (v & Hv & Hin).
    exists v. rewrite (startup_reads _ _ Hv). auto.
  Qed.

  Lemma exec_cons f o cont rest faults :
    exec f ((o, cont) :: rest) faults =
    let '(f', r) := if hd false faults then (f, Some EOTHER) else apply f o in
    if cont r then f' :: exec f' rest (tl faults) else [].
  Proof. reflexivity. Qed.

  (* a save that is not interrupted and meets no failure ends with the new content in the main file *)
  Lemma save_completes f c :
    read (last (save_trace f [c] []) f) Main = Some c /\ length (save_trace f [c] []) = 6%nat.
  Proof.
    unfold save_trace, save_ops, write_config_as. cbn [map app].
    rewrite exec_cons. cbn [hd tl apply is_ok].
    remember (set name_eqb Tmp [] f) as f1 eqn:Ef1.
    assert (H1t : read f1 Tmp = Some []) by (rewrite Ef1, read_set; reflexivity).
    rewrite exec_cons. cbn [hd tl apply]. rewrite H1t. cbn [is_ok app].
    match goal with |- context [exec ?x _ _] => remember x as f2 eqn:Ef2 end.
    assert (H2t : read f2 Tmp = Some c) by (rewrite Ef2, read_set; reflexivity).
    rewrite exec_cons. cbn [hd tl].
    assert (H3t : read (fst (apply f2 (Remove Bak))) Tmp = Some c).
    { cbn [apply]. destruct (read f2 Bak); cbn [fst]; [|exact H2t].
      rewrite read_remove. cbn [name_eqb]. exact H2t. }
    assert (H3b : read (fst (apply f2 (Remove Bak))) Bak = None).
    { cbn [apply]. destruct (read f2 Bak) eqn:Eb; cbn [fst]; [|exact Eb].
      rewrite read_remove. now rewrite name_eqb_refl. }
    assert (Hc3 : ok_or_enoent (snd (apply f2 (Remove Bak))) = true).
    { cbn [apply]. destruct (read f2 Bak); reflexivity. }
    destruct (apply f2 (Remove Bak)) as [f3 r3]. cbn [fst snd] in *.
    rewrite Hc3.
    rewrite exec_cons. cbn [hd tl].
    assert (H4t : read (fst (apply f3 (Link Main Bak))) Tmp = Some c).
    { cbn [apply]. rewrite H3b. destruct (read f3 Main); cbn [fst]; [|exact H3t].
      rewrite read_set. cbn [name_eqb]. exact H3t. }
    assert (Hc4 : ok_or_enoent (snd (apply f3 (Link Main Bak))) = true).
    { cbn [apply]. rewrite H3b. destruct (read f3 Main); reflexivity. }
    destruct (apply f3 (Link Main Bak)) as [f4 r4]. cbn [fst snd] in *.
    rewrite Hc4.
    rewrite exec_cons. cbn [hd tl apply]. rewrite H4t. cbn [name_eqb any_result exec].
    split; [|reflexivity].
    cbn [last]. rewrite read_set. now rewrite name_eqb_refl.
  Qed.
End FsProofs.

(* the sequence before the fix: after its third step there is no main file *)
Lemma save_crash_safe_refuted_before_fix :
  exists (f : fs Z) (old : content Z) (chunks : list (content Z)) (faults : list bool) (g : fs Z),
    read f Main = Some old /\ old <> [] /\
    nth_error (save_trace_old f chunks faults) 4 = Some g /\
    read g Main = None /\ snd (startup g) = Some [].
Proof.
  exists [(Main, [1])], [1], [[2]], [], [(Tmp, [2]); (Bak, [1])].
  repeat split; try reflexivity. discriminate.
Qed.

(* ------------------------------------------------------------------ part 2: the updater loop *)
Definition keys {V} (m : list (string * V)) : list string := map fst m.

Section AssocStr.
  Context {V : Type}.
  Implicit Types (m : list (string * V)).

  Lemma slookup_sset k v m k' :
    slookup k' (sset k v m) = if String.eqb k' k then Some v else slookup k' m.
  Proof.
    unfold slookup, sset. induction m as [|[k0 v0] r IH]; cbn [set lookup].
    - reflexivity.
    - destruct (String.eqb k k0) eqn:E.
      + apply String.eqb_eq in E; subst k0. cbn [lookup]. destruct (String.eqb k' k); reflexivity.
      + cbn [lookup]. rewrite IH. destruct (String.eqb k' k0) eqn:E0; [|reflexivity].
        apply String.eqb_eq in E0; subst k0.
        destruct (String.eqb k' k) eqn:E1; [|reflexivity].
        apply String.eqb_eq in E1; subst. rewrite String.eqb_refl in E. discriminate.
  Qed.

  Lemma keys_sset k v m k' : In k' (keys (sset k v m)) <-> k' = k \/ In k' (keys m).
  Proof.
    unfold keys, sset. induction m as [|[k0 v0] r IH]; cbn [set map fst In].
    - intuition.
    - destruct (String.eqb k k0) eqn:E.
      + apply String.eqb_eq in E; subst k0. cbn [map fst In]. intuition.
      + cbn [map fst In]. rewrite IH. intuition.
  Qed.

  Lemma nodup_sset k v m : NoDup (keys m) -> NoDup (keys (sset k v m)).
  Proof.
    unfold keys, sset. induction m as [|[k0 v0] r IH]; cbn [set map fst]; intro H.
    - constructor; [intros []|constructor].
    - inversion H as [|? ? Hn Hr]; subst.
      destruct (String.eqb k k0) eqn:E.
      + apply String.eqb_eq in E; subst k0. cbn [map fst]. now constructor.
      + cbn [map fst]. constructor; [|now apply IH].
        intro Hin. apply (keys_sset k v r k0) in Hin. destruct Hin as [->|Hin]; [|contradiction].
        rewrite String.eqb_refl in E. discriminate.
  Qed.

  Lemma slookup_in k m : slookup k m <> None <-> In k (keys m).
  Proof.
    unfold slookup, keys. induction m as [|[k0 v0] r IH]; cbn [lookup map fst In].
    - intuition.
    - destruct (String.eqb k k0) eqn:E.
      + apply String.eqb_eq in E; subst. split; [auto | discriminate].
      + rewrite IH. split; [auto|]. intros [->|H]; [|exact H].
        rewrite String.eqb_refl in E. discriminate.
  Qed.

  Lemma slookup_some_in k v m : slookup k m = Some v -> In (k, v) m.
  Proof.
    unfold slookup. induction m as [|[k0 v0] r IH]; cbn [lookup]; [discriminate|].
    destruct (String.eqb k k0) eqn:E.
    - apply String.eqb_eq in E; subst. intro H; inversion H; subst. now left.
    - intro H. right. now apply IH.
  Qed.
End AssocStr.

Lemma run_snoc y h e : fst (run y (h ++ [e])) = fst (step (fst (run y h)) e).
Proof.
  revert y. induction h as [|a h IH]; intro y; cbn [app run fst].
  - destruct (step y e) as [y1 o]. reflexivity.
  - destruct (step y a) as [y1 o]. specialize (IH y1).
    destruct (run y1 (h ++ [e])) as [y2 os]. destruct (run y1 h) as [y3 os3].
    cbn [fst] in *. exact IH.
Qed.

Lemma last_text_snoc t h e :
  last_text t (h ++ [e]) =
  match e with
  | Update tag _ text => if String.eqb tag t then Some text else last_text t h
  | _ => last_text t h
  end.
Proof.
  induction h as [|a h IH]; cbn [app last_text].
  - reflexivity.
  - rewrite IH. destruct e as [tag o x| | | | |]; try reflexivity.
    destruct (String.eqb tag t); reflexivity.
Qed.

Lemma last_obj_snoc t h e :
  last_obj t (h ++ [e]) =
  match e with
  | Update tag obj _ => if String.eqb tag t then Some obj else last_obj t h
  | _ => last_obj t h
  end.
Proof.
  induction h as [|a h IH]; cbn [app last_obj].
  - reflexivity.
  - rewrite IH. destruct e as [tag o x| | | | |]; try reflexivity.
    destruct (String.eqb tag t); reflexivity.
Qed.

Lemma updated_tags_snoc h e :
  updated_tags (h ++ [e]) = updated_tags h ++ match e with Update tag _ _ => [tag] | _ => [] end.
Proof.
  induction h as [|a h IH]; cbn [app updated_tags].
  - destruct e; reflexivity.
  - destruct a; rewrite IH; reflexivity.
Qed.

Lemma nopublish_is_comment t : nopublish t = mem_str t comment_keys.
Proof. reflexivity. Qed.

(* what the loop remembers after a history *)
Record Inv (h : list event) (y : sys) : Prop := {
  inv_nodup : NoDup (keys (objs y));
  inv_texts : forall t, slookup t (texts y) =
                        if String.eqb t "NEWDASTARD" then None else last_text t h;
  inv_keys1 : forall t, slookup t (texts y) <> None -> In t (keys (objs y));
  inv_keys2 : forall t, In t (keys (objs y)) -> slookup t (texts y) <> None \/ nopublish t = true
}.

Lemma text_of_some y t x : text_of y t = x -> x <> 0 -> slookup t (texts y) = Some x.
Proof.
  unfold text_of. destruct (slookup t (texts y)); intros H Hx; subst; [reflexivity | contradiction].
Qed.

Lemma inv_step h y e : wf_event e -> Inv h y -> Inv (h ++ [e]) (fst (step y e)).
Proof.
  intros Hwf [Hnd Htx Hk1 Hk2].
  destruct e as [tag obj text | | | now faults | k0 v0 | ].
  - (* Update *)
    cbn [wf_event] in Hwf. cbn [step].
    destruct (String.eqb tag "NEWDASTARD") eqn:End.
    + apply String.eqb_eq in End; subst tag. cbn [fst].
      split; try assumption. intro t. rewrite Htx, last_text_snoc.
      destruct (String.eqb t "NEWDASTARD") eqn:E; [reflexivity|].
      rewrite String.eqb_sym, E. reflexivity.
    + destruct (text_of y tag =? text) eqn:Esame; cbn [negb fst].
      * apply Z.eqb_eq in Esame.
        pose proof (text_of_some y tag text Esame Hwf) as Hl.
        split; try assumption. intro t. rewrite last_text_snoc.
        destruct (String.eqb tag t) eqn:E.
        -- apply String.eqb_eq in E; subst t. rewrite End. exact Hl.
        -- apply Htx.
      * split; cbn [objs texts].
        -- now apply nodup_sset.
        -- intro t. rewrite slookup_sset, last_text_snoc, (String.eqb_sym t tag).
           destruct (String.eqb tag t) eqn:E.
           ++ apply String.eqb_eq in E; subst t. now rewrite End.
           ++ apply Htx.
        -- intro t. rewrite slookup_sset. intro H. apply keys_sset.
           destruct (String.eqb t tag) eqn:E.
           ++ left. now apply String.eqb_eq.
           ++ right. now apply Hk1.
        -- intros t H. apply keys_sset in H. rewrite slookup_sset.
           destruct (String.eqb t tag) eqn:E.
           ++ left. discriminate.
           ++ destruct H as [->|H]; [rewrite String.eqb_refl in E; discriminate|]. now apply Hk2.
  - (* SendAll *)
    cbn [step fst]. split; try assumption. intro t. rewrite last_text_snoc. apply Htx.
  - (* Wait *)
    cbn [step fst]. split; try assumption. intro t. rewrite last_text_snoc. apply Htx.
  - (* SaveTick *)
    cbn [step save_state fst objs texts]. split; cbn [objs texts].
    + unfold inject. now repeat apply nodup_sset.
    + intro t. rewrite last_text_snoc. apply Htx.
    + intros t H. unfold inject. apply keys_sset. right. apply keys_sset. right. apply keys_sset. right.
      now apply Hk1.
    + intros t H. unfold inject in H.
      apply keys_sset in H. destruct H as [->|H]; [now right|].
      apply keys_sset in H. destruct H as [->|H]; [now right|].
      apply keys_sset in H. destruct H as [->|H]; [now right|].
      now apply Hk2.
  - (* InUse *)
    cbn [step fst]. split; try assumption. intro t. rewrite last_text_snoc. apply Htx.
  - (* Restart *)
    cbn [step fst]. split; try assumption. intro t. rewrite last_text_snoc. apply Htx.
Qed.

Lemma inv_init cfg d : Inv [] (init_sys cfg d).
Proof.
  split; cbn [init_sys objs texts keys map].
  - constructor.
  - intro t. cbn. destruct (String.eqb t "NEWDASTARD"); reflexivity.
  - intros t H. now cbn in H.
  - intros t [].
Qed.

Lemma inv_run cfg d h : Forall wf_event h -> Inv h (fst (run (init_sys cfg d) h)).
Proof.
  induction h as [|e h IH] using rev_ind; intro Hwf.
  - cbn [run fst]. apply inv_init.
  - rewrite run_snoc. apply Forall_app in Hwf as [Hh He]. inversion He; subst.
    apply inv_step; auto.
Qed.

Lemma in_sendall y o t b :
  In (t, b) (flat_map (fun kv : string * value => publish (fst kv) (text_of y (fst kv))) o) <->
  In t (keys o) /\ nopublish t = false /\ b = text_of y t.
Proof.
  unfold keys. induction o as [|[k v] r IH]; cbn [flat_map map fst In].
  - intuition.
  - rewrite in_app_iff, IH. unfold publish. destruct (nopublish k) eqn:E; cbn [In].
    + split.
      * intros [[]|H]; intuition.
      * intros ([->|H] & Hn & Hb); [congruence | right; auto].
    + split.
      * intros [[H|[]]|H]; [inversion H; subst; auto | intuition].
      * intros ([->|H] & Hn & ->); [left; now left | right; auto].
Qed.

Lemma nodup_sendall y o :
  NoDup (keys o) ->
  NoDup (map fst (flat_map (fun kv : string * value => publish (fst kv) (text_of y (fst kv))) o)).
Proof.
  unfold keys. induction o as [|[k v] r IH]; cbn [flat_map map fst]; intro H.
  - constructor.
  - inversion H as [|? ? Hn Hr]; subst. rewrite map_app. unfold publish at 1.
    destruct (nopublish k); cbn [map app fst]; [now apply IH|].
    constructor; [|now apply IH].
    intro Hin. apply in_map_iff in Hin as ([t b] & Ht & Hin). cbn [fst] in Ht; subst t.
    apply in_sendall in Hin as (Hin & _). contradiction.
Qed.

(* the answer to SENDALL after any history *)
Lemma sendall_last_per_topic cfg d h l :
  Forall wf_event h ->
  snd (step (fst (run (init_sys cfg d) h)) SendAll) = Published l ->
  sendall_spec h l.
Proof.
  intros Hwf Hout. pose proof (inv_run cfg d h Hwf) as [Hnd Htx Hk1 Hk2].
  set (y := fst (run (init_sys cfg d) h)) in *.
  cbn [step snd] in Hout. inversion Hout as [Hl]. clear Hout.
  split.
  - now apply nodup_sendall.
  - intros t b. rewrite in_sendall. unfold status_topic. rewrite <- nopublish_is_comment.
    split.
    + intros (Hin & Hnp & ->). rewrite Hnp. cbn [negb andb].
      destruct (Hk2 t Hin) as [Hs | Hs]; [|congruence].
      rewrite Htx in Hs. unfold event_tags, mem_str. cbn [existsb].
      destruct (String.eqb t "NEWDASTARD") eqn:E; [contradiction|].
      cbn [orb negb]. split; [reflexivity|].
      unfold text_of. rewrite Htx, E. destruct (last_text t h); [reflexivity | contradiction].
    + intros (Hst & Hlast).
      apply andb_true_iff in Hst as [Hev Hnp]. apply negb_true_iff in Hnp.
      unfold event_tags, mem_str in Hev. cbn [existsb] in Hev.
      destruct (String.eqb t "NEWDASTARD") eqn:E; [discriminate|].
      assert (Hs : slookup t (texts y) = Some b) by (rewrite Htx, E; exact Hlast).
      repeat split; [|exact Hnp|].
      * apply Hk1. rewrite Hs. discriminate.
      * unfold text_of. now rewrite Hs.
Qed.

(* ---- the saved configuration ---- *)
Definition injected : list string := ["CURRENTTIME"; "___1"; "___2"]%string.

Lemma nosave_is_volatile t : nosave t = mem_str (to_lower t) volatile_topics.
Proof. reflexivity. Qed.

Lemma last_obj_none t h : last_text t h = None -> last_obj t h = None.
Proof.
  induction h as [|a h IH]; cbn [last_text last_obj]; [reflexivity|].
  destruct (last_text t h); [discriminate|]. rewrite (IH eq_refl).
  destruct a as [tag o x| | | | |]; try reflexivity. destruct (String.eqb tag t); [discriminate | reflexivity].
Qed.

Lemma last_pair t h x :
  last_text t h = Some x -> exists o, last_obj t h = Some o /\ In (Update t o x) h.
Proof.
  induction h as [|a h IH]; cbn [last_text last_obj]; [discriminate|].
  destruct (last_text t h) as [x'|] eqn:E.
  - intro H; inversion H; subst x'. destruct (IH eq_refl) as (o & Ho & Hin).
    exists o. rewrite Ho. split; [reflexivity | now right].
  - rewrite (last_obj_none _ _ E). destruct a as [tag o x0| | | | |]; try discriminate.
    destruct (String.eqb tag t) eqn:Et; [|discriminate].
    apply String.eqb_eq in Et; subst tag. intro H; inversion H; subst x0.
    exists o. split; [reflexivity | now left].
Qed.

Lemma overlay_lookup (a b : config) k :
  NoDup (keys a) ->
  slookup k (overlay a b) = match slookup k a with Some v => Some v | None => slookup k b end.
Proof.
  unfold overlay. revert b. induction a as [|[k0 v0] r IH]; intros b Hnd; cbn [fold_left fst snd].
  - reflexivity.
  - inversion Hnd as [|? ? Hn Hr]; subst. rewrite (IH _ Hr).
    unfold slookup at 3. cbn [lookup]. fold (@slookup value).
    destruct (String.eqb k k0) eqn:E.
    + apply String.eqb_eq in E; subst k0.
      destruct (slookup k r) eqn:El.
      * exfalso. apply Hn. apply slookup_in. rewrite El. discriminate.
      * rewrite slookup_sset, String.eqb_refl. reflexivity.
    + destruct (slookup k r); [reflexivity|]. rewrite slookup_sset, E. reflexivity.
Qed.

Lemma viper_set_all_other (o : list (string * value)) : forall over k,
  (forall t, In t (keys o) -> to_lower t <> k \/ nosave t = true) ->
  slookup k (viper_set_all o over) = slookup k over.
Proof.
  unfold viper_set_all. induction o as [|[t0 v0] r IH]; intros over k H; cbn [fold_left fst snd].
  - reflexivity.
  - rewrite IH.
    + destruct (H t0 (or_introl eq_refl)) as [Hne | Hns].
      * destruct (nosave t0); [reflexivity|]. rewrite slookup_sset.
        destruct (String.eqb k (to_lower t0)) eqn:E; [|reflexivity].
        apply String.eqb_eq in E. congruence.
      * now rewrite Hns.
    + intros t Ht. apply H. now right.
Qed.

Lemma viper_set_all_nodup (o : list (string * value)) : forall over,
  NoDup (keys over) -> NoDup (keys (viper_set_all o over)).
Proof.
  unfold viper_set_all. induction o as [|[t0 v0] r IH]; intros over H; cbn [fold_left fst snd].
  - exact H.
  - apply IH. destruct (nosave t0); [exact H | now apply nodup_sset].
Qed.

Lemma viper_set_all_sets (o : list (string * value)) : forall over t v,
  NoDup (keys o) ->
  (forall t1 t2, In t1 (keys o) -> In t2 (keys o) -> to_lower t1 = to_lower t2 -> t1 = t2) ->
  In (t, v) o -> nosave t = false ->
  slookup (to_lower t) (viper_set_all o over) = Some v.
Proof.
  induction o as [|[t0 v0] r IH]; intros over t v Hnd Hinj Hin Hns; [destruct Hin|].
  inversion Hnd as [|? ? Hn Hr]; subst.
  destruct Hin as [Heq | Hin].
  - inversion Heq; subst t0 v0. unfold viper_set_all. cbn [fold_left fst snd]. rewrite Hns.
    fold (viper_set_all r (sset (to_lower t) v over)).
    rewrite viper_set_all_other.
    + rewrite slookup_sset, String.eqb_refl. reflexivity.
    + intros t' Ht'. left. intro Hl. apply Hn.
      assert (t' = t) by (apply Hinj; [now right | now left | exact Hl]). now subst.
  - unfold viper_set_all. cbn [fold_left fst snd].
    match goal with |- slookup _ (fold_left _ r ?ov) = _ => fold (viper_set_all r ov) end.
    apply IH; auto.
    intros t1 t2 H1 H2. apply Hinj; now right.
Qed.

Record Inv2 (cfg : config) (h : list event) (y : sys) : Prop := {
  inv_objs : forall t, ~ In t injected ->
                       slookup t (objs y) = if String.eqb t "NEWDASTARD" then None else last_obj t h;
  inv_over : NoDup (keys (v_over y));
  inv_keys3 : forall t, In t (keys (objs y)) -> In t (updated_tags h ++ injected);
  inv_cfg : v_config y = cfg
}.

Lemma consistent_prefix h e : consistent (h ++ [e]) -> consistent h.
Proof.
  intros H t o1 x1 o2 x2 H1 H2 Hx. apply (H t o1 x1 o2 x2); [apply in_or_app; now left | apply in_or_app; now left | exact Hx].
Qed.

Lemma inv2_step cfg h y e :
  wf_event e -> consistent (h ++ [e]) -> Inv h y -> Inv2 cfg h y -> Inv2 cfg (h ++ [e]) (fst (step y e)).
Proof.
  intros Hwf Hcons [Hnd Htx Hk1 Hk2] [Hob Hov Hk3 Hcfg].
  destruct e as [tag obj text | | | now faults | k0 v0 | ].
  - cbn [wf_event] in Hwf. cbn [step].
    destruct (String.eqb tag "NEWDASTARD") eqn:End.
    + apply String.eqb_eq in End; subst tag. cbn [fst]. split; try assumption.
      * intros t Ht. rewrite (Hob t Ht), last_obj_snoc.
        destruct (String.eqb t "NEWDASTARD") eqn:E; [reflexivity|].
        rewrite String.eqb_sym, E. reflexivity.
      * intros t Ht. rewrite updated_tags_snoc. specialize (Hk3 t Ht).
        apply in_app_or in Hk3. apply in_or_app. destruct Hk3; [left; apply in_or_app; now left | now right].
    + destruct (text_of y tag =? text) eqn:Esame; cbn [negb fst].
      * apply Z.eqb_eq in Esame.
        pose proof (text_of_some y tag text Esame Hwf) as Hl.
        rewrite Htx, End in Hl.
        destruct (last_pair tag h text Hl) as (o1 & Ho1 & Hin1).
        assert (o1 = obj).
        { apply (Hcons tag o1 text obj text); [apply in_or_app; now left | apply in_or_app; right; now left | reflexivity]. }
        subst o1.
        split; try assumption.
        -- intros t Ht. rewrite (Hob t Ht), last_obj_snoc.
           destruct (String.eqb tag t) eqn:E; [|reflexivity].
           apply String.eqb_eq in E; subst t. rewrite End. now rewrite Ho1.
        -- intros t Ht. rewrite updated_tags_snoc. specialize (Hk3 t Ht).
           apply in_app_or in Hk3. apply in_or_app. destruct Hk3; [left; apply in_or_app; now left | now right].
      * split; cbn [objs v_over v_config]; try assumption.
        -- intros t Ht. rewrite slookup_sset, last_obj_snoc, (String.eqb_sym t tag).
           destruct (String.eqb tag t) eqn:E.
           ++ apply String.eqb_eq in E; subst t. now rewrite End.
           ++ now apply Hob.
        -- intros t Ht. rewrite updated_tags_snoc. apply keys_sset in Ht. apply in_or_app.
           destruct Ht as [->|Ht].
           ++ left. apply in_or_app. right. now left.
           ++ specialize (Hk3 t Ht). apply in_app_or in Hk3.
              destruct Hk3; [left; apply in_or_app; now left | now right].
  - cbn [step fst]. split; try assumption.
    + intros t Ht. rewrite last_obj_snoc. now apply Hob.
    + intros t Ht. rewrite updated_tags_snoc, app_nil_r. now apply Hk3.
  - cbn [step fst]. split; try assumption.
    + intros t Ht. rewrite last_obj_snoc. now apply Hob.
    + intros t Ht. rewrite updated_tags_snoc, app_nil_r. now apply Hk3.
  - cbn [step save_state fst objs v_over v_config]. split; cbn [objs v_over v_config]; try assumption.
    + intros t Ht. rewrite last_obj_snoc. unfold inject.
      assert (forall k, In k injected -> String.eqb t k = false) as Hne.
      { intros k Hk. destruct (String.eqb t k) eqn:E; [|reflexivity].
        apply String.eqb_eq in E; subst. contradiction. }
      rewrite !slookup_sset.
      rewrite (Hne "CURRENTTIME"%string), (Hne "___2"%string), (Hne "___1"%string);
        try (cbn; tauto).
      now apply Hob.
    + now apply viper_set_all_nodup.
    + intros t Ht. rewrite updated_tags_snoc, app_nil_r. unfold inject in Ht.
      apply keys_sset in Ht. destruct Ht as [->|Ht]; [apply in_or_app; right; cbn; tauto|].
      apply keys_sset in Ht. destruct Ht as [->|Ht]; [apply in_or_app; right; cbn; tauto|].
      apply keys_sset in Ht. destruct Ht as [->|Ht]; [apply in_or_app; right; cbn; tauto|].
      now apply Hk3.
  - cbn [step fst]. split; try assumption.
    + intros t Ht. rewrite last_obj_snoc. now apply Hob.
    + intros t Ht. rewrite updated_tags_snoc, app_nil_r. now apply Hk3.
  - cbn [step fst]. split; try assumption.
    + intros t Ht. rewrite last_obj_snoc. now apply Hob.
    + intros t Ht. rewrite updated_tags_snoc, app_nil_r. now apply Hk3.
Qed.

Lemma inv2_run cfg d h :
  Forall wf_event h -> consistent h -> Inv2 cfg h (fst (run (init_sys cfg d) h)).
Proof.
  induction h as [|e h IH] using rev_ind; intros Hwf Hcons.
  - cbn [run fst]. split; cbn [init_sys objs v_over v_config keys map].
    + intros t _. cbn. destruct (String.eqb t "NEWDASTARD"); reflexivity.
    + constructor.
    + intros t [].
    + reflexivity.
  - rewrite run_snoc. apply Forall_app in Hwf as [Hh He]. inversion He; subst.
    apply inv2_step; auto.
    + now apply inv_run.
    + apply IH; auto. now apply consistent_prefix with e.
Qed.

Lemma saved_latest cfg d h now :
  Forall wf_event h -> consistent h -> case_distinct h ->
  let y := fst (run (init_sys cfg d) h) in
  let y' := fst (step y (SaveTick now [])) in
  exists saved,
    snd (startup (disk y')) = Some saved /\
    saved_spec h saved /\
    (forall k, (forall t, In t (updated_tags h ++ ["CURRENTTIME"; "___1"; "___2"]%string) ->
                          to_lower t <> k \/ nosave t = true) ->
               slookup k saved = slookup k (all_settings y)).
Proof.
  intros Hwf Hcons Hdist y y'.
  pose proof (inv_run cfg d h Hwf) as [Hnd Htx Hk1 Hk2].
  pose proof (inv2_run cfg d h Hwf Hcons) as [Hob Hov Hk3 Hcfg].
  fold y in Hnd, Htx, Hk1, Hk2, Hob, Hov, Hk3, Hcfg.
  set (o := inject now (objs y)).
  set (over := viper_set_all o (v_over y)).
  set (y1 := {| objs := o; texts := texts y; armed := armed y;
                v_config := v_config y; v_over := over; disk := disk y |}).
  exists (all_settings y1).
  assert (Hnd_o : NoDup (keys o)) by (unfold o, inject; now repeat apply nodup_sset).
  assert (Hk3o : forall t, In t (keys o) -> In t (updated_tags h ++ injected)).
  { intros t Ht. unfold o, inject in Ht.
    apply keys_sset in Ht. destruct Ht as [->|Ht]; [apply in_or_app; right; cbn; tauto|].
    apply keys_sset in Ht. destruct Ht as [->|Ht]; [apply in_or_app; right; cbn; tauto|].
    apply keys_sset in Ht. destruct Ht as [->|Ht]; [apply in_or_app; right; cbn; tauto|].
    now apply Hk3. }
  assert (Hnd_over : NoDup (keys over)) by (now apply viper_set_all_nodup).
  split; [|split].
  - subst y'. cbn [step save_state fst disk].
    destruct (save_completes (disk y) (all_settings y1)) as [Hread _].
    exact (f_equal snd (startup_reads _ _ Hread)).
  - intros t ob Hpers Hlast.
    apply andb_true_iff in Hpers as [Hst Hvol]. apply negb_true_iff in Hvol.
    rewrite <- nosave_is_volatile in Hvol.
    apply andb_true_iff in Hst as [Hev Hcom]. apply negb_true_iff in Hcom.
    unfold event_tags, mem_str in Hev. cbn [existsb] in Hev.
    destruct (String.eqb t "NEWDASTARD") eqn:End; [discriminate|].
    assert (Hninj : ~ In t injected).
    { intro Hin. unfold comment_keys, mem_str in Hcom. cbn [existsb] in Hcom.
      cbn [injected In] in Hin. destruct Hin as [<-|[<-|[<-|[]]]]; discriminate. }
    assert (Hlo : slookup t o = Some ob).
    { unfold o, inject. rewrite !slookup_sset.
      assert (forall k, In k injected -> String.eqb t k = false) as Hne.
      { intros k Hk. destruct (String.eqb t k) eqn:E; [|reflexivity].
        apply String.eqb_eq in E. rewrite <- E in Hk. contradiction. }
      rewrite (Hne "CURRENTTIME"%string), (Hne "___2"%string), (Hne "___1"%string); try (cbn; tauto).
      rewrite (Hob t Hninj), End. exact Hlast. }
    unfold all_settings. cbn [v_over v_config y1]. rewrite (overlay_lookup over _ _ Hnd_over).
    unfold over. rewrite (viper_set_all_sets o (v_over y) t ob);
      [reflexivity | exact Hnd_o | | now apply slookup_some_in | exact Hvol].
    intros t1 t2 H1 H2. apply Hdist; [now apply Hk3o | now apply Hk3o].
  - intros k Hk. unfold all_settings. cbn [v_over v_config y1].
    rewrite (overlay_lookup over _ _ Hnd_over), (overlay_lookup (v_over y) _ _ Hov).
    unfold over. rewrite viper_set_all_other; [reflexivity|].
    intros t Ht. apply Hk. now apply Hk3o.
Qed.

(* ---- the save step of the whole system is a save of the directory model ---- *)
Lemma step_savetick y now faults :
  snd (step y (SaveTick now faults)) =
  Saved (save_trace (disk y) [all_settings (fst (save_state y now faults))] faults)
        (map (fun f => snd (startup f))
             (save_trace (disk y) [all_settings (fst (save_state y now faults))] faults)).
Proof. reflexivity. Qed.

Lemma updater_save_safe y now faults tr reads old :
  snd (step y (SaveTick now faults)) = Saved tr reads ->
  read (disk y) Main = Some old ->
  exists written,
    tr = save_trace (disk y) [written] faults /\
    written = all_settings (fst (save_state y now faults)) /\
    forall r, In r reads -> r = Some old \/ r = Some written.
Proof.
  intros Hout Hm. rewrite step_savetick in Hout.
  set (w := all_settings (fst (save_state y now faults))) in *.
  assert (Htr : tr = save_trace (disk y) [w] faults) by (injection Hout; auto).
  assert (Hreads : reads = map (fun f => snd (startup f)) (save_trace (disk y) [w] faults))
    by (injection Hout; auto).
  clear Hout. subst tr reads.
  exists w. split; [reflexivity|]. split; [reflexivity|].
  intros r Hin. apply in_map_iff in Hin as (g & <- & Hg).
  destruct (save_crash_safe_one (disk y) old _ faults g Hm Hg) as [H | H]; [now left|].
  right. rewrite H. cbn [concat]. now rewrite app_nil_r.
Qed.

(* ---- soundness of the boolean checkers with respect to the Prop-level statements ---- *)
Lemma mem_str_in x l : mem_str x l = true <-> In x l.
Proof.
  unfold mem_str. rewrite existsb_exists. split.
  - intros (y & Hy & E). apply String.eqb_eq in E. now subst.
  - intro H. exists x. split; [exact H | apply String.eqb_refl].
Qed.

Lemma nodupb_nodup l : nodupb l = true -> NoDup l.
Proof.
  induction l as [|x r IH]; cbn [nodupb]; intro H; [constructor|].
  apply andb_true_iff in H as [Hx Hr]. constructor; [|now apply IH].
  intro Hin. apply mem_str_in in Hin. rewrite Hin in Hx. discriminate.
Qed.

Lemma opt_str_eqb_eq a b : opt_str_eqb a b = true -> a = b.
Proof.
  destruct a, b; cbn; intro H; try discriminate; [|reflexivity].
  apply Z.eqb_eq in H. now subst.
Qed.

Lemma last_text_updated t h x : last_text t h = Some x -> In t (updated_tags h).
Proof.
  induction h as [|a h IH]; cbn [last_text updated_tags]; [discriminate|].
  destruct a as [tag o x0| | | | |]; cbn [In];
    destruct (last_text t h) eqn:E; intro H; try discriminate; try (now apply IH).
  - right. now apply IH.
  - destruct (String.eqb tag t) eqn:Et; [|discriminate]. apply String.eqb_eq in Et. now left.
Qed.

Lemma last_obj_updated t h x : last_obj t h = Some x -> In t (updated_tags h).
Proof.
  induction h as [|a h IH]; cbn [last_obj updated_tags]; [discriminate|].
  destruct a as [tag o x0| | | | |]; cbn [In];
    destruct (last_obj t h) eqn:E; intro H; try discriminate; try (now apply IH).
  - right. now apply IH.
  - destruct (String.eqb tag t) eqn:Et; [|discriminate]. apply String.eqb_eq in Et. now left.
Qed.

Lemma sendall_check_sound before l : sendall_check before l = true -> sendall_spec before l.
Proof.
  unfold sendall_check. intro H.
  apply andb_true_iff in H as [H H3]. apply andb_true_iff in H as [H1 H2].
  rewrite forallb_forall in H2, H3.
  assert (Hfwd : forall t b, In (t, b) l -> status_topic t = true /\ last_text t before = Some b).
  { intros t b Hin. specialize (H2 _ Hin). cbn [fst snd] in H2.
    apply andb_true_iff in H2 as [Hs He]. split; [exact Hs | now apply opt_str_eqb_eq]. }
  split; [now apply nodupb_nodup|].
  intros t b. split; [apply Hfwd|].
  intros (Hs & Hl).
  specialize (H3 t (last_text_updated _ _ _ Hl)). rewrite Hs in H3. cbn [negb orb] in H3.
  apply mem_str_in in H3. apply in_map_iff in H3 as ([t' b'] & Ht & Hin). cbn [fst] in Ht; subst t'.
  destruct (Hfwd _ _ Hin) as (_ & Hl'). rewrite Hl in Hl'. inversion Hl'; subst. exact Hin.
Qed.

Lemma saved_check_sound before cfg : saved_check before cfg = true -> saved_spec before cfg.
Proof.
  unfold saved_check. rewrite forallb_forall. intros H t o Hp Hl.
  specialize (H t (last_obj_updated _ _ _ Hl)). rewrite Hp in H. cbn [negb orb] in H.
  apply opt_str_eqb_eq in H. now rewrite H.
Qed.

Lemma entry_eqb_eq a b : entry_eqb a b = true <-> a = b.
Proof.
  destruct a as [a1 a2], b as [b1 b2]. unfold entry_eqb. cbn [fst snd].
  rewrite andb_true_iff, String.eqb_eq, Z.eqb_eq. split; [intros [-> ->]; reflexivity | intro H; inversion H; auto].
Qed.

Lemma config_eqb_eq a b : config_eqb a b = true <-> a = b.
Proof. apply list_eqb_eq. apply entry_eqb_eq. Qed.

Lemma crash_check_sound reads w : crash_check reads w = true -> crash_spec reads w.
Proof.
  unfold crash_check, crash_spec. destruct reads as [|[old|] rest]; try discriminate.
  rewrite forallb_forall. intro H. exists old. split; [reflexivity|].
  intros r Hin. specialize (H r Hin). destruct r as [c|]; [|discriminate].
  apply orb_true_iff in H as [H | H]; apply config_eqb_eq in H; subst; auto.
Qed.

Lemma restored_check_sound before l : restored_check before l = true -> restored_spec before l.
Proof.
  unfold restored_check, restored_spec. intros H Hcur.
  rewrite Hcur in H. cbn [negb orb] in H. apply andb_true_iff in H as [H1 H2].
  rewrite forallb_forall in H1, H2. split.
  - intros t o Hp Hr Hl.
    specialize (H1 t (last_obj_updated _ _ _ Hl)). rewrite Hp, Hr in H1. cbn [andb negb orb] in H1.
    apply opt_str_eqb_eq in H1. now rewrite H1.
  - intros k v Hin. specialize (H2 _ Hin). cbn [fst snd] in H2. now apply opt_str_eqb_eq in H2.
Qed.

Lemma kept_check_sound cfg0 before cfg : kept_check cfg0 before cfg = true -> kept_spec cfg0 before cfg.
Proof.
  unfold kept_check, kept_spec. rewrite forallb_forall. intros H k v Hin Hno.
  specialize (H _ Hin). cbn [fst snd] in H. apply orb_true_iff in H as [H | H].
  - apply existsb_exists in H as (t & Ht & Htouch). rewrite (Hno t Ht) in Htouch. discriminate.
  - now apply opt_str_eqb_eq in H.
Qed.

Lemma wait_check_sound before b : wait_check before b = true -> wait_spec before b.
Proof.
  unfold wait_check, wait_spec. intros H Hd. rewrite Hd in H. exact H.
Qed.

(* what an accepted history means, position by position *)
Lemma check_from_at cfg0 pre0 pre e o post :
  check_from cfg0 pre0 (pre ++ (e, o) :: post) = true -> check_one cfg0 (pre0 ++ map fst pre) e o = true.
Proof.
  revert pre0. induction pre as [|[e0 o0] pre IH]; intros pre0; cbn [app check_from map fst].
  - rewrite app_nil_r. intro H. now apply andb_true_iff in H as [H _].
  - intro H. apply andb_true_iff in H as [_ H]. specialize (IH _ H).
    now rewrite <- app_assoc in IH.
Qed.

Lemma checker_accepts_means cfg0 pre e o post :
  C16_check cfg0 (pre ++ (e, o) :: post) = true ->
  match e, o with
  | SendAll, Published l => sendall_spec (map fst pre) l
  | SaveTick _ faults, Saved trace reads =>
      match written_of trace with
      | Some w => crash_spec reads w /\
                  (forallb negb faults = true ->
                   length trace = 6%nat /\
                   exists cfg, last reads None = Some cfg /\ saved_spec (map fst pre) cfg /\
                               kept_spec cfg0 (map fst pre) cfg /\ in_use_spec (map fst pre) cfg)
      | None => forallb negb faults = false
      end
  | Restart, Restored l => restored_spec (map fst pre) l
  | Wait, Waited b => wait_spec (map fst pre) b
  | _, _ => True
  end.
Proof.
  intro H. apply (check_from_at cfg0 [] pre e o post) in H. cbn [app] in H.
  destruct e as [tag ob x| | |now faults|k0 v0|], o as [l|b|tr reads|l]; try exact I.
  - cbn [check_one] in H. now apply sendall_check_sound.
  - cbn [check_one] in H. now apply wait_check_sound.
  - cbn [check_one] in H. destruct (written_of tr) as [w|].
    + apply andb_true_iff in H as [Hc Hs]. split; [now apply crash_check_sound|].
      intro Hnf. rewrite Hnf in Hs. apply andb_true_iff in Hs as [Hcomp Hs].
      unfold completed in Hcomp. apply andb_true_iff in Hcomp as [_ Hlen]. apply Nat.eqb_eq in Hlen.
      split; [exact Hlen|].
      destruct (last reads None) as [cfg|]; [|discriminate].
      apply andb_true_iff in Hs as [Hs Hiu]. apply andb_true_iff in Hs as [Hs Hk].
      exists cfg. split; [reflexivity | split; [now apply saved_check_sound | split; [now apply kept_check_sound|]]].
      intros k v Hin. unfold in_use_check in Hiu. rewrite forallb_forall in Hiu.
      specialize (Hiu _ Hin). cbn [fst snd] in Hiu. now apply opt_str_eqb_eq in Hiu.
    + apply andb_true_iff in H as [Hnf _]. now apply negb_true_iff in Hnf.
  - cbn [check_one] in H. now apply restored_check_sound.
Qed.

(* ---- concrete inputs meeting the hypotheses (non-vacuity) ---- *)
(* values: 11/12 = two STATUS objects, 21/22 their texts, 31 = "1", 41 = "[]" *)
Definition example_history : list event :=
  [ Update "STATUS" 11 21;
    Update "ALIVE" 31 31;
    Update "STATUS" 12 22;
    SendAll;
    Update "STATUS" 12 22;
    Update "TRIGGER" 41 41 ]%string.

Lemma example_wf : Forall wf_event example_history.
Proof. repeat constructor; cbn; discriminate. Qed.

Lemma example_consistent : consistent example_history.
Proof.
  intros t o1 x1 o2 x2 H1 H2 Hx. cbn [example_history In] in H1, H2.
  repeat match goal with
         | H : _ \/ _ |- _ => destruct H
         | H : False |- _ => destruct H
         | H : Update _ _ _ = Update _ _ _ |- _ => inversion H; clear H
         | H : SendAll = Update _ _ _ |- _ => discriminate H
         end; subst; try reflexivity; try discriminate.
Qed.

Lemma example_case_distinct : case_distinct example_history.
Proof.
  intros t1 t2 H1 H2 Hl. cbn [example_history updated_tags app In] in H1, H2.
  repeat match goal with
         | H : _ \/ _ |- _ => destruct H
         | H : False |- _ => destruct H
         end; subst; try reflexivity; vm_compute in Hl; discriminate.
Qed.

Lemma example_answer :
  snd (step (fst (run (init_sys [] [(Main, [])]) example_history)) SendAll)
  = Published [("STATUS", 22); ("ALIVE", 31); ("TRIGGER", 41)]%string.
Proof. vm_compute. reflexivity. Qed.

(* ---- a change of a persistent topic makes a save due ---- *)
Lemma due_scan_snoc r : forall seen due e,
  due_scan seen due (r ++ [e]) =
  match e with
  | SaveTick _ _ => false
  | Update t _ x => due_scan seen due r
                    || (persistent_topic t && negb (opt_str_eqb (last_text t (seen ++ r)) (Some x)))
  | _ => due_scan seen due r
  end.
Proof.
  induction r as [|a r IH]; intros seen due e; cbn [app due_scan].
  - rewrite app_nil_r. destruct e; reflexivity.
  - rewrite IH. rewrite <- app_assoc. reflexivity.
Qed.

Lemma persistent_not_nosave t : persistent_topic t = true -> nosave t = false /\ String.eqb t "NEWDASTARD" = false.
Proof.
  intro H. apply andb_true_iff in H as [Hst Hvol]. apply negb_true_iff in Hvol.
  rewrite <- nosave_is_volatile in Hvol. split; [exact Hvol|].
  apply andb_true_iff in Hst as [Hev _]. unfold event_tags, mem_str in Hev. cbn [existsb] in Hev.
  destruct (String.eqb t "NEWDASTARD"); [discriminate | reflexivity].
Qed.

Lemma due_armed cfg d h :
  Forall wf_event h -> save_due h = true -> armed (fst (run (init_sys cfg d) h)) = true.
Proof.
  unfold save_due. induction h as [|e h IH] using rev_ind; intros Hwf Hdue; [discriminate|].
  apply Forall_app in Hwf as [Hh He]. inversion He as [|? ? Hwe _]; subst.
  pose proof (inv_run cfg d h Hh) as [Hnd Htx Hk1 Hk2].
  rewrite run_snoc. rewrite due_scan_snoc in Hdue. cbn [app] in Hdue.
  set (y := fst (run (init_sys cfg d) h)) in *.
  destruct e as [tag obj text | | | now faults | k0 v0 | ].
  - cbn [step].
    destruct (String.eqb tag "NEWDASTARD") eqn:End.
    + cbn [fst]. apply orb_true_iff in Hdue as [Hd | Hp]; [now apply IH|].
      apply andb_true_iff in Hp as [Hp _]. apply persistent_not_nosave in Hp as [_ Hp]. congruence.
    + destruct (text_of y tag =? text) eqn:Esame; cbn [negb fst armed].
      * apply Z.eqb_eq in Esame. cbn [wf_event] in Hwe.
        pose proof (text_of_some y tag text Esame Hwe) as Hl. rewrite Htx, End in Hl.
        apply orb_true_iff in Hdue as [Hd | Hp]; [now apply IH|].
        apply andb_true_iff in Hp as [_ Hp]. rewrite Hl in Hp. cbn [opt_str_eqb] in Hp.
        rewrite Z.eqb_refl in Hp. discriminate.
      * apply orb_true_iff in Hdue as [Hd | Hp].
        -- rewrite (IH Hh Hd). reflexivity.
        -- apply andb_true_iff in Hp as [Hp _]. apply persistent_not_nosave in Hp as [Hp _].
           rewrite Hp. apply orb_true_r.
  - cbn [step fst]. now apply IH.
  - cbn [step fst]. now apply IH.
  - discriminate.
  - cbn [step fst]. now apply IH.
  - cbn [step fst]. now apply IH.
Qed.

Lemma wait_sees_due cfg d h b :
  Forall wf_event h ->
  snd (step (fst (run (init_sys cfg d) h)) Wait) = Waited b ->
  save_due h = true -> b = true.
Proof.
  intros Hwf Hout Hdue. cbn [step snd] in Hout. inversion Hout. now apply due_armed.
Qed.

(* ---- what a dastard started after a completed save restores ---- *)
Lemma slookup_filter (p : string -> bool) (m : config) k :
  p k = true -> slookup k (filter (fun kv => p (fst kv)) m) = slookup k m.
Proof.
  intro Hp. unfold slookup. induction m as [|[k0 v0] r IH]; cbn [filter lookup fst]; [reflexivity|].
  destruct (p k0) eqn:E0; cbn [lookup].
  - destruct (String.eqb k k0); [reflexivity | exact IH].
  - destruct (String.eqb k k0) eqn:E; [|exact IH].
    apply String.eqb_eq in E; subst. congruence.
Qed.

(* a dastard started after a completed save restores, for every persistent topic it restores at all,
   the latest value *)
Lemma restart_restores cfg d h now l :
  Forall wf_event h -> consistent h -> case_distinct h ->
  snd (step (fst (step (fst (run (init_sys cfg d) h)) (SaveTick now []))) Restart) = Restored l ->
  forall t o, persistent_topic t = true -> restorable_topic t = true -> last_obj t h = Some o ->
              slookup (to_lower t) l = Some o.
Proof.
  intros Hwf Hcons Hdist Hout t o Hp Hr Hl.
  destruct (saved_latest cfg d h now Hwf Hcons Hdist) as (saved & Hst & Hspec & _).
  cbn zeta in Hst.
  set (y' := fst (step (fst (run (init_sys cfg d) h)) (SaveTick now []))) in *.
  cbn [step snd] in Hout. rewrite Hst in Hout. inversion Hout as [Hl']. clear Hout.
  unfold restorable_topic in Hr.
  etransitivity; [exact (slookup_filter (fun k => mem_str k restorable_keys) saved (to_lower t) Hr)|].
  now apply Hspec.
Qed.

(* ---- keys read at start-up and not written in this run keep their value in the saved file ---- *)
Lemma viper_set_all_keys (o : list (string * value)) : forall over k,
  In k (keys (viper_set_all o over)) ->
  In k (keys over) \/ exists t, In t (keys o) /\ to_lower t = k /\ nosave t = false.
Proof.
  unfold viper_set_all. induction o as [|[t0 v0] r IH]; intros over k H; cbn [fold_left fst snd] in H.
  - now left.
  - apply IH in H. destruct H as [H | (t & Ht & Hl & Hn)].
    + destruct (nosave t0) eqn:E; [now left|].
      apply keys_sset in H. destruct H as [-> | H]; [|now left].
      right. exists t0. repeat split; [now left | exact E].
    + right. exists t. repeat split; [now right | exact Hl | exact Hn].
Qed.

Definition Inv3 (h : list event) (y : sys) : Prop :=
  forall k, In k (keys (v_over y)) ->
            exists t, In t (updated_tags h ++ injected) /\ to_lower t = k /\ nosave t = false.

Lemma inv3_mono h e y : Inv3 h y -> Inv3 (h ++ [e]) y.
Proof.
  intros H k Hk. destruct (H k Hk) as (t & Ht & Hl & Hn). exists t. repeat split; auto.
  rewrite updated_tags_snoc. apply in_app_or in Ht. apply in_or_app.
  destruct Ht; [left; apply in_or_app; now left | now right].
Qed.

Lemma inv3_run cfg d h :
  Forall wf_event h -> consistent h -> Inv3 h (fst (run (init_sys cfg d) h)).
Proof.
  induction h as [|e h IH] using rev_ind; intros Hwf Hcons.
  - cbn [run fst]. intros k [].
  - apply Forall_app in Hwf as [Hh He].
    pose proof (IH Hh (consistent_prefix _ _ Hcons)) as H3.
    pose proof (inv2_run cfg d h Hh (consistent_prefix _ _ Hcons)) as [_ _ Hk3 _].
    rewrite run_snoc. set (y := fst (run (init_sys cfg d) h)) in *.
    destruct e as [tag obj text | | | now faults | k0 v0 | ].
    + cbn [step]. destruct (String.eqb tag "NEWDASTARD"); [now apply inv3_mono|].
      destruct (text_of y tag =? text); cbn [negb fst]; [now apply inv3_mono|].
      apply (inv3_mono h (Update tag obj text)) in H3. exact H3.
    + cbn [step fst]. now apply inv3_mono.
    + cbn [step fst]. now apply inv3_mono.
    + cbn [step save_state fst v_over]. intros k Hk. cbn [v_over] in Hk.
      apply viper_set_all_keys in Hk. destruct Hk as [Hk | (t & Ht & Hl & Hn)].
      * now apply (inv3_mono h (SaveTick now faults) y H3).
      * exists t. repeat split; auto. rewrite updated_tags_snoc, app_nil_r.
        unfold inject in Ht.
        apply keys_sset in Ht. destruct Ht as [->|Ht]; [apply in_or_app; right; cbn; tauto|].
        apply keys_sset in Ht. destruct Ht as [->|Ht]; [apply in_or_app; right; cbn; tauto|].
        apply keys_sset in Ht. destruct Ht as [->|Ht]; [apply in_or_app; right; cbn; tauto|].
        now apply Hk3.
    + cbn [step fst]. now apply inv3_mono.
    + cbn [step fst]. now apply inv3_mono.
Qed.

Lemma in_nodup_slookup (m : config) k v : NoDup (keys m) -> In (k, v) m -> slookup k m = Some v.
Proof.
  unfold slookup, keys. induction m as [|[k0 v0] r IH]; intros Hnd Hin; [destruct Hin|].
  inversion Hnd as [|? ? Hn Hr]; subst. cbn [lookup]. destruct Hin as [Heq | Hin].
  - inversion Heq; subst. now rewrite String.eqb_refl.
  - destruct (String.eqb k k0) eqn:E; [|now apply IH].
    apply String.eqb_eq in E; subst k0. exfalso. apply Hn. apply in_map_iff. exists (k, v). auto.
Qed.

Lemma touches_false t k : touches t k = false -> to_lower t <> k \/ nosave t = true.
Proof.
  unfold touches. rewrite <- nosave_is_volatile. intro H. apply andb_false_iff in H as [H | H].
  - left. intro E. subst. rewrite String.eqb_refl in H. discriminate.
  - right. now apply negb_false_iff in H.
Qed.

Lemma saved_keeps cfg d h now :
  Forall wf_event h -> consistent h -> case_distinct h -> NoDup (keys cfg) ->
  let y := fst (run (init_sys cfg d) h) in
  let y' := fst (step y (SaveTick now [])) in
  exists saved, snd (startup (disk y')) = Some saved /\ kept_spec cfg h saved.
Proof.
  intros Hwf Hcons Hdist Hnd y y'.
  destruct (saved_latest cfg d h now Hwf Hcons Hdist) as (saved & Hst & _ & Hother).
  exists saved. split; [exact Hst|].
  intros k v Hin Hno.
  pose proof (inv2_run cfg d h Hwf Hcons) as [_ Hov _ Hcfg].
  pose proof (inv3_run cfg d h Hwf Hcons) as H3.
  fold y in Hov, Hcfg, H3.
  rewrite Hother.
  - unfold all_settings. rewrite (overlay_lookup (v_over y) _ _ Hov).
    destruct (slookup k (v_over y)) eqn:E.
    + exfalso. assert (Hk : In k (keys (v_over y))) by (apply slookup_in; rewrite E; discriminate).
      destruct (H3 k Hk) as (t & Ht & Hl & Hn).
      destruct (touches_false t k (Hno t Ht)) as [H | H]; congruence.
    + fold y. rewrite Hcfg. rewrite (overlay_lookup cfg _ _ Hnd). now rewrite (in_nodup_slookup cfg k v Hnd Hin).
  - intros t Ht. apply touches_false. now apply Hno.
Qed.

(* ================================================================== the model passes the checker *)
Section FsMore.
  Context {A : Type}.
  Implicit Types (f g : fs A) (c : content A).

  Lemma tail_states_none f new faults g :
    read f Main = None -> read f Tmp = Some new ->
    In g (exec f [ (Remove Bak, ok_or_enoent); (Link Main Bak, ok_or_enoent); (Rename Tmp Main, any_result) ] faults) ->
    read g Main = None \/ read g Main = Some new.
  Proof.
    intros Hm Ht Hin.
    rewrite exec_cons in Hin.
    destruct (hd false faults); [cbn in Hin; contradiction|].
    assert (H1m : read (fst (apply f (Remove Bak))) Main = None).
    { cbn [apply]. destruct (read f Bak); cbn [fst]; [|exact Hm].
      rewrite read_remove. cbn [name_eqb]. exact Hm. }
    assert (H1t : read (fst (apply f (Remove Bak))) Tmp = Some new).
    { cbn [apply]. destruct (read f Bak); cbn [fst]; [|exact Ht].
      rewrite read_remove. cbn [name_eqb]. exact Ht. }
    assert (Hc : ok_or_enoent (snd (apply f (Remove Bak))) = true).
    { cbn [apply]. destruct (read f Bak); reflexivity. }
    destruct (apply f (Remove Bak)) as [f1 r1]. cbn [fst snd] in *. rewrite Hc in Hin.
    destruct Hin as [<- | Hin]; [now left|].
    rewrite exec_cons in Hin.
    destruct (hd false (tl faults)); [cbn in Hin; contradiction|].
    cbn [apply] in Hin. rewrite H1m in Hin. cbn [ok_or_enoent] in Hin.
    destruct Hin as [<- | Hin]; [now left|].
    rewrite exec_cons in Hin.
    destruct (hd false (tl (tl faults))).
    { cbn [any_result exec] in Hin. destruct Hin as [<- | []]. now left. }
    cbn [apply] in Hin. rewrite H1t in Hin. cbn [name_eqb any_result exec] in Hin.
    destruct Hin as [<- | []]. right. rewrite read_set. now rewrite name_eqb_refl.
  Qed.

  Lemma save_trace_main_none f chunks faults g :
    read f Main = None ->
    In g (save_trace f chunks faults) ->
    read g Main = None \/ read g Main = Some (concat chunks).
  Proof.
    intros Hm Hin. unfold save_trace in Hin.
    destruct Hin as [<- | Hin]; [now left|].
    unfold save_ops, write_config_as in Hin. cbn [app] in Hin. rewrite exec_cons in Hin.
    destruct (hd false faults); [cbn in Hin; contradiction|].
    cbn [apply is_ok] in Hin.
    remember (set name_eqb Tmp [] f) as f1 eqn:Ef1.
    assert (H1m : read f1 Main = None) by (rewrite Ef1, read_set; exact Hm).
    assert (H1t : read f1 Tmp = Some []) by (rewrite Ef1, read_set; reflexivity).
    destruct Hin as [<- | Hin]; [now left|].
    destruct (appends_states chunks f1 (tl faults) [] _ g H1t Hin) as [H | (f2 & fl2 & Hm2 & Ht2 & Hin2)].
    - left. congruence.
    - cbn [app] in Ht2. rewrite H1m in Hm2.
      exact (tail_states_none f2 (concat chunks) fl2 g Hm2 Ht2 Hin2).
  Qed.

  (* what start-up reads from the directory before a save *)
  Definition old_of f : content A := match read f Main with Some c => c | None => [] end.

  Lemma startup_old f : snd (startup f) = Some (old_of f).
  Proof.
    unfold old_of. destruct (read f Main) eqn:E.
    - now rewrite (startup_reads _ _ E).
    - now apply startup_creates.
  Qed.

  Lemma trace_reads f c faults g :
    In g (save_trace f [c] faults) ->
    snd (startup g) = Some (old_of f) \/ snd (startup g) = Some c.
  Proof.
    intro Hin. unfold old_of. destruct (read f Main) eqn:E.
    - destruct (save_trace_main f _ [c] faults g E Hin) as [H | H]; rewrite (startup_reads _ _ H).
      + now left.
      + right. cbn [concat]. now rewrite app_nil_r.
    - destruct (save_trace_main_none f [c] faults g E Hin) as [H | H].
      + left. now apply startup_creates.
      + right. rewrite (startup_reads _ _ H). cbn [concat]. now rewrite app_nil_r.
  Qed.

  Lemma exec_nofault (s : script A) : forall f faults,
    forallb negb faults = true -> exec f s faults = exec f s [].
  Proof.
    induction s as [|[o cont] r IH]; intros f faults H; [reflexivity|].
    rewrite !exec_cons.
    assert (Hhd : hd false faults = false).
    { destruct faults as [|b t]; [reflexivity|]. cbn in H. apply andb_true_iff in H as [H _].
      now apply negb_true_iff in H. }
    assert (Htl : forallb negb (tl faults) = true).
    { destruct faults as [|b t]; [reflexivity|]. cbn in H. now apply andb_true_iff in H as [_ H]. }
    rewrite Hhd. cbn [hd tl]. destruct (apply f o) as [f' r']. destruct (cont r'); [|reflexivity].
    now rewrite (IH f' (tl faults) Htl).
  Qed.

  (* the first three states of a save: before, temporary file open, temporary file written *)
  Lemma save_trace_shape f c faults :
    let f1 := set name_eqb Tmp [] f in
    let f2 := set name_eqb Tmp c f1 in
    save_trace f [c] faults =
    if hd false faults then [f]
    else if hd false (tl faults) then [f; f1]
         else f :: f1 :: f2 ::
              exec f2 [ (Remove Bak, ok_or_enoent); (Link Main Bak, ok_or_enoent); (Rename Tmp Main, any_result) ]
                   (tl (tl faults)).
  Proof.
    intros f1 f2. unfold save_trace, save_ops, write_config_as. cbn [map app].
    rewrite exec_cons. destruct (hd false faults); [reflexivity|].
    cbn [apply is_ok]. fold f1. rewrite exec_cons.
    destruct (hd false (tl faults)); [reflexivity|].
    cbn [apply]. assert (H : read f1 Tmp = Some []) by (subst f1; rewrite read_set; reflexivity).
    rewrite H. cbn [is_ok app]. reflexivity.
  Qed.
End FsMore.

(* ---- completeness of the boolean checkers ---- *)
Lemma nodup_nodupb l : NoDup l -> nodupb l = true.
Proof.
  induction 1 as [|x r Hn Hr IH]; [reflexivity|]. cbn [nodupb]. rewrite IH, andb_true_r.
  apply negb_true_iff. destruct (mem_str x r) eqn:E; [|reflexivity]. apply mem_str_in in E. contradiction.
Qed.

Lemma opt_str_eqb_refl a : opt_str_eqb a a = true.
Proof. destruct a; [apply Z.eqb_refl | reflexivity]. Qed.

Lemma updated_last_text t h : In t (updated_tags h) -> exists x, last_text t h = Some x.
Proof.
  induction h as [|a h IH] using rev_ind; [intros []|].
  rewrite updated_tags_snoc, last_text_snoc. intro H. apply in_app_or in H.
  destruct a as [tag o x| | | | |]; cbn [In] in H;
    try (destruct H as [H | []]; now apply IH).
  destruct (String.eqb tag t) eqn:E; [now exists x|].
  destruct H as [H | [H | []]]; [now apply IH|]. subst. rewrite String.eqb_refl in E. discriminate.
Qed.

Lemma updated_last_obj t h : In t (updated_tags h) -> exists x, last_obj t h = Some x.
Proof.
  induction h as [|a h IH] using rev_ind; [intros []|].
  rewrite updated_tags_snoc, last_obj_snoc. intro H. apply in_app_or in H.
  destruct a as [tag o x| | | | |]; cbn [In] in H;
    try (destruct H as [H | []]; now apply IH).
  destruct (String.eqb tag t) eqn:E; [now exists o|].
  destruct H as [H | [H | []]]; [now apply IH|]. subst. rewrite String.eqb_refl in E. discriminate.
Qed.

Lemma sendall_check_complete before l : sendall_spec before l -> sendall_check before l = true.
Proof.
  intros [Hnd Hiff]. unfold sendall_check. rewrite (nodup_nodupb _ Hnd). cbn [andb].
  apply andb_true_iff. split; apply forallb_forall.
  - intros [t b] Hin. cbn [fst snd]. destruct (proj1 (Hiff t b) Hin) as [Hs Hl].
    rewrite Hs, Hl. apply opt_str_eqb_refl.
  - intros t Ht. destruct (status_topic t) eqn:Hs; [|reflexivity]. cbn [negb orb].
    destruct (updated_last_text t before Ht) as (b & Hb).
    apply mem_str_in. apply in_map_iff. exists (t, b). split; [reflexivity|]. apply Hiff. auto.
Qed.

Lemma saved_check_complete before cfg : saved_spec before cfg -> saved_check before cfg = true.
Proof.
  intro H. unfold saved_check. apply forallb_forall. intros t Ht.
  destruct (persistent_topic t) eqn:Hp; [|reflexivity]. cbn [negb orb].
  destruct (updated_last_obj t before Ht) as (o & Ho). rewrite Ho, (H t o Hp Ho). apply Z.eqb_refl.
Qed.

Lemma kept_check_complete cfg0 before cfg : kept_spec cfg0 before cfg -> kept_check cfg0 before cfg = true.
Proof.
  intro H. unfold kept_check. apply forallb_forall. intros [k v] Hin. cbn [fst snd].
  destruct (existsb (fun t => touches t k) (written_tags before)) eqn:E; [reflexivity|]. cbn [orb].
  rewrite (H k v Hin); [apply Z.eqb_refl|].
  intros t Ht. destruct (touches t k) eqn:Et; [|reflexivity].
  assert (existsb (fun t => touches t k) (written_tags before) = true)
    by (apply existsb_exists; exists t; auto). congruence.
Qed.

Lemma config_eqb_refl (c : config) : config_eqb c c = true.
Proof. now apply config_eqb_eq. Qed.

Lemma last_map {X Y} (F : X -> Y) (l : list X) d d' : l <> [] -> last (map F l) d' = F (last l d).
Proof.
  induction l as [|x r IH]; [congruence|]. intros _. destruct r as [|x' r']; [reflexivity|].
  change (last (map F (x' :: r')) d' = F (last (x' :: r') d)). apply IH. discriminate.
Qed.

(* ---- a save with no failing operation ---- *)
Lemma save_trace_nofault {A} (f : fs A) c faults :
  forallb negb faults = true -> save_trace f [c] faults = save_trace f [c] [].
Proof. intro H. unfold save_trace. now rewrite (exec_nofault _ f faults H). Qed.

Lemma step_savetick_disk y now faults :
  disk (fst (step y (SaveTick now faults))) =
  last (save_trace (disk y) [all_settings (fst (save_state y now []))] faults) (disk y).
Proof. reflexivity. Qed.

Lemma savetick_result cfg d h now faults :
  Forall wf_event h -> consistent h -> case_distinct h -> NoDup (keys cfg) ->
  forallb negb faults = true ->
  let y := fst (run (init_sys cfg d) h) in
  let w := all_settings (fst (save_state y now [])) in
  read (disk (fst (step y (SaveTick now faults)))) Main = Some w /\ saved_spec h w /\ kept_spec cfg h w.
Proof.
  intros Hwf Hcons Hdist Hnd Hnf y w.
  destruct (saved_latest cfg d h now Hwf Hcons Hdist) as (s1 & Hst1 & Hspec & _).
  destruct (saved_keeps cfg d h now Hwf Hcons Hdist Hnd) as (s2 & Hst2 & Hkept).
  fold y in Hst1, Hst2.
  assert (Hdisk : disk (fst (step y (SaveTick now faults))) = disk (fst (step y (SaveTick now [])))).
  { rewrite !step_savetick_disk. f_equal. apply save_trace_nofault. exact Hnf. }
  assert (Hmain : read (disk (fst (step y (SaveTick now [])))) Main = Some w).
  { rewrite step_savetick_disk. exact (proj1 (save_completes (disk y) w)). }
  rewrite Hdisk. split; [exact Hmain|].
  rewrite (startup_reads _ _ Hmain) in Hst1, Hst2. cbn [snd] in Hst1, Hst2.
  inversion Hst1; inversion Hst2; subst. auto.
Qed.

Lemma crash_check_intro reads (w old : config) :
  hd_error reads = Some (Some old) ->
  (forall r, In r reads -> r = Some old \/ r = Some w) ->
  crash_check reads w = true.
Proof.
  intros Hhd Hall. destruct reads as [|r0 rest]; [discriminate|]. cbn in Hhd. inversion Hhd; subst r0.
  unfold crash_check. apply forallb_forall. intros r Hr.
  destruct (Hall r Hr) as [-> | ->]; [now rewrite config_eqb_refl | rewrite config_eqb_refl; apply orb_true_r].
Qed.

Definition no_annotation (h : list event) : Prop :=
  Forall (fun e => match e with InUse _ _ => False | _ => True end) h.

Lemma in_use_nil h : no_annotation h -> in_use h [] = [].
Proof.
  induction 1 as [|e r He Hr IH]; [reflexivity|].
  destruct e; cbn [in_use]; try exact IH. destruct He.
Qed.

Lemma savetick_passes cfg d h now faults :
  Forall wf_event h -> consistent h -> case_distinct h -> NoDup (keys cfg) -> no_annotation h ->
  check_one cfg h (SaveTick now faults)
            (snd (step (fst (run (init_sys cfg d) h)) (SaveTick now faults))) = true.
Proof.
  intros Hwf Hcons Hdist Hnd Hna. set (y := fst (run (init_sys cfg d) h)).
  set (w := all_settings (fst (save_state y now []))).
  set (f := disk y).
  change (check_one cfg h (SaveTick now faults)
            (Saved (save_trace f [w : content entry] faults)
                   (map (fun g => snd (startup g)) (save_trace f [w : content entry] faults))) = true).
  cbn [check_one].
  pose proof (save_trace_shape f w faults) as Hshape. cbn zeta in Hshape.
  assert (Hreads : forall g, In g (save_trace f [w : content entry] faults) ->
                             snd (startup g) = Some (old_of f) \/ snd (startup g) = Some w)
    by (intros g Hg; now apply trace_reads with faults).
  destruct (hd false faults) eqn:H0.
  { (* the open of the temporary file failed *)
    rewrite Hshape. cbn [written_of map]. rewrite startup_old.
    assert (forallb negb faults = false) as ->.
    { destruct faults as [|b t]; [discriminate|]. cbn in H0. subst b. reflexivity. }
    cbn [negb andb forallb]. now rewrite config_eqb_refl. }
  destruct (hd false (tl faults)) eqn:H1.
  { (* its write failed *)
    rewrite Hshape. cbn [written_of map]. rewrite !startup_old.
    assert (forallb negb faults = false) as ->.
    { destruct faults as [|b [|b' t]]; try discriminate. cbn in H0, H1. subst. reflexivity. }
    assert (old_of (set name_eqb Tmp [] f) = old_of f) as -> by (unfold old_of; now rewrite read_set).
    cbn [negb andb forallb]. now rewrite config_eqb_refl. }
  (* the temporary file was written *)
  assert (Hw : written_of (save_trace f [w : content entry] faults) = Some w).
  { rewrite Hshape. cbn [written_of]. rewrite read_set. reflexivity. }
  rewrite Hw. apply andb_true_iff. split.
  - (* every state reads the old or the new configuration *)
    apply crash_check_intro with (old := old_of f).
    + unfold save_trace. cbn [map hd_error]. now rewrite startup_old.
    + intros r Hr. apply in_map_iff in Hr as (g & <- & Hg). now apply Hreads.
  - destruct (forallb negb faults) eqn:Hnf; [|reflexivity].
    destruct (savetick_result cfg d h now faults Hwf Hcons Hdist Hnd Hnf) as (Hmain & Hspec & Hkept).
    fold y in Hmain. fold w in Hmain, Hspec, Hkept.
    rewrite (save_trace_nofault f w faults Hnf).
    destruct (save_completes f w) as [Hlast Hlen].
    unfold completed. rewrite Hlen, Hnf. cbn [Nat.eqb andb].
    match goal with |- context [match ?X with Some _ => _ | None => false end] => assert (Hl : X = Some w) end.
    { etransitivity; [apply last_map with (d := f); unfold save_trace; discriminate|].
      now rewrite (startup_reads _ _ Hlast). }
    rewrite Hl.
    unfold in_use_check. rewrite (in_use_nil h Hna). cbn [forallb]. rewrite andb_true_r.
    apply andb_true_iff. split; [now apply saved_check_complete | now apply kept_check_complete].
Qed.

(* ---- the restart ---- *)
Lemma saved_is_current_snoc h e :
  saved_is_current (h ++ [e]) =
  match e with
  | SaveTick _ faults => forallb negb faults
  | Update t _ _ => if persistent_topic t then false else saved_is_current h
  | _ => saved_is_current h
  end.
Proof. unfold saved_is_current. rewrite rev_unit. destruct e; reflexivity. Qed.

(* when the save is current, the main file holds the latest value of every persistent topic *)
Definition InvK (h : list event) (y : sys) : Prop :=
  saved_is_current h = true -> exists c, read (disk y) Main = Some c /\ saved_spec h c.

Lemma case_distinct_prefix h e : case_distinct (h ++ [e]) -> case_distinct h.
Proof.
  intros H t1 t2 H1 H2. apply H.
  - rewrite updated_tags_snoc. apply in_app_or in H1. apply in_or_app.
    destruct H1; [left; apply in_or_app; now left | now right].
  - rewrite updated_tags_snoc. apply in_app_or in H2. apply in_or_app.
    destruct H2; [left; apply in_or_app; now left | now right].
Qed.

Lemma invK_run cfg d h :
  Forall wf_event h -> consistent h -> case_distinct h -> NoDup (keys cfg) ->
  InvK h (fst (run (init_sys cfg d) h)).
Proof.
  induction h as [|e h IH] using rev_ind; intros Hwf Hcons Hdist Hnd.
  - intro H. discriminate.
  - apply Forall_app in Hwf as [Hh He].
    pose proof (consistent_prefix _ _ Hcons) as Hc. pose proof (case_distinct_prefix _ _ Hdist) as Hd.
    specialize (IH Hh Hc Hd Hnd). rewrite run_snoc.
    set (y := fst (run (init_sys cfg d) h)) in *.
    intro Hcur. rewrite saved_is_current_snoc in Hcur.
    destruct e as [tag obj text | | | now faults | k0 v0 | ].
    + destruct (persistent_topic tag) eqn:Hp; [discriminate|].
      destruct (IH Hcur) as (c & Hc1 & Hc2). exists c. split.
      * cbn [step]. destruct (String.eqb tag "NEWDASTARD"); [exact Hc1|].
        destruct (text_of y tag =? text); exact Hc1.
      * intros t o Hpt Hl. rewrite last_obj_snoc in Hl.
        destruct (String.eqb tag t) eqn:E; [|now apply Hc2].
        apply String.eqb_eq in E. subst. congruence.
    + destruct (IH Hcur) as (c & Hc1 & Hc2). exists c. split; [exact Hc1|].
      intros t o Hpt Hl. rewrite last_obj_snoc in Hl. now apply Hc2.
    + destruct (IH Hcur) as (c & Hc1 & Hc2). exists c. split; [exact Hc1|].
      intros t o Hpt Hl. rewrite last_obj_snoc in Hl. now apply Hc2.
    + destruct (savetick_result cfg d h now faults Hh Hc Hd Hnd Hcur) as (Hmain & Hspec & _).
      eexists. split; [exact Hmain|].
      intros t o Hpt Hl. rewrite last_obj_snoc in Hl. now apply Hspec.
    + destruct (IH Hcur) as (c & Hc1 & Hc2). exists c. split; [exact Hc1|].
      intros t o Hpt Hl. rewrite last_obj_snoc in Hl. now apply Hc2.
    + destruct (IH Hcur) as (c & Hc1 & Hc2). exists c. split; [exact Hc1|].
      intros t o Hpt Hl. rewrite last_obj_snoc in Hl. now apply Hc2.
Qed.

Lemma restart_passes cfg d h :
  Forall wf_event h -> consistent h -> case_distinct h -> NoDup (keys cfg) -> no_annotation h ->
  check_one cfg h Restart (snd (step (fst (run (init_sys cfg d) h)) Restart)) = true.
Proof.
  intros Hwf Hcons Hdist Hnd Hna. pose proof (invK_run cfg d h Hwf Hcons Hdist Hnd) as HK.
  set (y := fst (run (init_sys cfg d) h)) in *.
  cbn [step snd check_one]. unfold restored_check.
  destruct (saved_is_current h) eqn:Hcur; [|reflexivity]. cbn [negb orb].
  unfold in_use_restorable. rewrite (in_use_nil h Hna). cbn [filter forallb]. rewrite andb_true_r.
  destruct (HK Hcur) as (c & Hc1 & Hc2). rewrite (startup_reads _ _ Hc1). cbn [snd].
  apply forallb_forall. intros t Ht.
  destruct (persistent_topic t) eqn:Hp; [|reflexivity].
  destruct (restorable_topic t) eqn:Hr; [|reflexivity]. cbn [andb negb orb].
  destruct (updated_last_obj t h Ht) as (o & Ho). rewrite Ho.
  unfold restorable_topic in Hr.
  assert (Hl : slookup (to_lower t) (filter (fun kv : string * value => mem_str (fst kv) restorable_keys) c) = Some o).
  { etransitivity; [exact (slookup_filter (fun k => mem_str k restorable_keys) c (to_lower t) Hr)|].
    now apply Hc2. }
  rewrite Hl. apply Z.eqb_refl.
Qed.

(* ---- every event ---- *)
Lemma step_passes cfg d h e :
  Forall wf_event (h ++ [e]) -> consistent (h ++ [e]) -> case_distinct (h ++ [e]) ->
  NoDup (keys cfg) -> no_annotation (h ++ [e]) ->
  check_one cfg h e (snd (step (fst (run (init_sys cfg d) h)) e)) = true.
Proof.
  intros Hwf Hcons Hdist Hnd Hna.
  apply Forall_app in Hwf as [Hh He]. apply Forall_app in Hna as [Hnah _].
  pose proof (consistent_prefix _ _ Hcons) as Hc. pose proof (case_distinct_prefix _ _ Hdist) as Hd.
  destruct e as [tag obj text | | | now faults | k0 v0 | ].
  - cbn [step]. destruct (String.eqb tag "NEWDASTARD"); [reflexivity|].
    destruct (text_of _ tag =? text); reflexivity.
  - cbn [check_one]. apply sendall_check_complete.
    apply (sendall_last_per_topic cfg d h _ Hh). reflexivity.
  - cbn [step snd check_one]. unfold wait_check.
    destruct (save_due h) eqn:Hdue; [|reflexivity]. cbn [negb orb]. now apply due_armed.
  - now apply savetick_passes.
  - reflexivity.
  - now apply restart_passes.
Qed.

Lemma consistent_app_l a b : consistent (a ++ b) -> consistent a.
Proof.
  intros H t o1 x1 o2 x2 H1 H2 Hx.
  apply (H t o1 x1 o2 x2); [apply in_or_app; now left | apply in_or_app; now left | exact Hx].
Qed.

Lemma updated_tags_app a b : updated_tags (a ++ b) = updated_tags a ++ updated_tags b.
Proof.
  induction a as [|e a IH]; [reflexivity|]. destruct e; cbn [app updated_tags]; rewrite IH; reflexivity.
Qed.

Lemma case_distinct_app_l a b : case_distinct (a ++ b) -> case_distinct a.
Proof.
  intros H t1 t2 H1 H2. apply H; rewrite updated_tags_app.
  - apply in_app_or in H1. apply in_or_app. destruct H1; [left; apply in_or_app; now left | now right].
  - apply in_app_or in H2. apply in_or_app. destruct H2; [left; apply in_or_app; now left | now right].
Qed.

Lemma run_passes cfg d rest : forall pre,
  Forall wf_event (pre ++ rest) -> consistent (pre ++ rest) -> case_distinct (pre ++ rest) ->
  NoDup (keys cfg) -> no_annotation (pre ++ rest) ->
  check_from cfg pre (combine rest (snd (run (fst (run (init_sys cfg d) pre)) rest))) = true.
Proof.
  induction rest as [|e r IH]; intros pre Hwf Hcons Hdist Hnd Hna; [reflexivity|].
  assert (Hsplit : pre ++ e :: r = (pre ++ [e]) ++ r) by (rewrite <- app_assoc; reflexivity).
  rewrite Hsplit in Hwf, Hcons, Hdist, Hna.
  cbn [run]. destruct (step (fst (run (init_sys cfg d) pre)) e) as [y1 o] eqn:Es.
  destruct (run y1 r) as [y2 os] eqn:Er. cbn [snd combine check_from].
  apply andb_true_iff. split.
  - replace o with (snd (step (fst (run (init_sys cfg d) pre)) e)) by (now rewrite Es).
    apply step_passes; auto.
    + now apply Forall_app in Hwf as [H _].
    + now apply consistent_app_l with r.
    + now apply case_distinct_app_l with r.
    + now apply Forall_app in Hna as [H _].
  - specialize (IH (pre ++ [e]) Hwf Hcons Hdist Hnd Hna).
    rewrite run_snoc, Es in IH. cbn [fst] in IH. rewrite Er in IH. exact IH.
Qed.

Lemma model_passes cfg d h :
  Forall wf_event h -> consistent h -> case_distinct h -> NoDup (keys cfg) -> no_annotation h ->
  C16_check cfg (combine h (snd (run (init_sys cfg d) h))) = true.
Proof.
  intros. unfold C16_check. exact (run_passes cfg d h [] H H0 H1 H2 H3).
Qed.
