(* C16 — the property as a checker over OBSERVABLES only: the events given to the updater (what was sent
   on clientMessageChan, when a save timer fired) and what was seen from outside (messages received on a
   SUB socket, the configuration directory at every point where the process could have been killed, and
   what the start-up sequence reads from each such directory).  Nothing here runs the model; only its
   vocabulary (event, out, name, lookup, to_lower) is used.

   The reading of the statement (DESIGN.md section 7 C16):
   - NEWDASTARD is an event and SENDALL a command: neither is a status topic;
   - CURRENTTIME, ___1 ... ___5 are comments of the configuration file, never published;
   - every other tag is a status topic; it is persistent unless its lower-case form is one of
     channelnames alive triggerrate numberwritten newdastard tesmap externaltrigger. *)
From Coq Require Import String Ascii.
From Dastard Require Import Common.ZX C16.Model.

Definition event_tags : list string := ["NEWDASTARD"]%string.
Definition comment_keys : list string :=
  ["CURRENTTIME"; "___1"; "___2"; "___3"; "___4"; "___5"]%string.
Definition volatile_topics : list string :=
  ["channelnames"; "alive"; "triggerrate"; "numberwritten"; "newdastard"; "tesmap"; "externaltrigger"]%string.

Definition status_topic (t : string) : bool :=
  negb (mem_str t event_tags) && negb (mem_str t comment_keys).
Definition persistent_topic (t : string) : bool :=
  status_topic t && negb (mem_str (to_lower t) volatile_topics).

(* ---- facts about a history of events ---- *)
(* body / object of the most recent update of topic t *)
Fixpoint last_text (t : string) (h : list event) : option value :=
  match h with
  | [] => None
  | e :: rest =>
      match last_text t rest with
      | Some x => Some x
      | None => match e with
                | Update tag _ text => if String.eqb tag t then Some text else None
                | _ => None
                end
      end
  end.
Fixpoint last_obj (t : string) (h : list event) : option value :=
  match h with
  | [] => None
  | e :: rest =>
      match last_obj t rest with
      | Some x => Some x
      | None => match e with
                | Update tag obj _ => if String.eqb tag t then Some obj else None
                | _ => None
                end
      end
  end.
Fixpoint updated_tags (h : list event) : list string :=
  match h with
  | [] => []
  | Update tag _ _ :: rest => tag :: updated_tags rest
  | _ :: rest => updated_tags rest
  end.

(* ---- part 1: the answer to SENDALL ---- *)
(* "receives, for every status topic ever published in this run, exactly the most recent message of that
    topic": S is the set { (t, last message of t) | t a status topic updated at least once } *)
Definition sendall_spec (before : list event) (S : list (string * value)) : Prop :=
  NoDup (map fst S) /\
  forall t b, In (t, b) S <-> (status_topic t = true /\ last_text t before = Some b).

Definition opt_str_eqb (a b : option value) : bool :=
  match a, b with
  | Some x, Some y => x =? y
  | None, None => true
  | _, _ => false
  end.
Fixpoint nodupb (l : list string) : bool :=
  match l with
  | [] => true
  | x :: r => negb (mem_str x r) && nodupb r
  end.
Definition sendall_check (before : list event) (S : list (string * value)) : bool :=
  nodupb (map fst S)
  && forallb (fun tb => status_topic (fst tb) && opt_str_eqb (last_text (fst tb) before) (Some (snd tb))) S
  && forallb (fun t => negb (status_topic t) || mem_str t (map fst S)) (updated_tags before).

(* ---- part 2: the saved configuration, read back by the next start-up ---- *)
(* cfg = what start-up reads after a completed save *)
Definition saved_spec (before : list event) (cfg : config) : Prop :=
  forall t o, persistent_topic t = true -> last_obj t before = Some o ->
              slookup (to_lower t) cfg = Some o.
Definition saved_check (before : list event) (cfg : config) : bool :=
  forallb (fun t => negb (persistent_topic t)
                    || opt_str_eqb (slookup (to_lower t) cfg) (last_obj t before))
          (updated_tags before).

(* restored = what a dastard started after the save reports as restored, by configuration key; demanded
   only when the last thing that happened to the configuration was a save (no update of a persistent topic since) *)
Definition restorable_topic (t : string) : bool := mem_str (to_lower t) restorable_keys.
Fixpoint saved_is_current_rev (r : list event) : bool :=
  match r with
  | [] => false
  | SaveTick _ faults :: _ => forallb negb faults
  | Update t _ _ :: r' => if persistent_topic t then false else saved_is_current_rev r'
  | _ :: r' => saved_is_current_rev r'
  end.
Definition saved_is_current (before : list event) : bool := saved_is_current_rev (rev before).
(* what the RPC layer has put into effect (latest InUse per key, until a later message of that topic): "reading it back yields the same ...
   output base path" means the one in use, whatever messages were published about it *)
Fixpoint in_use (h : list event) (acc : list (string * value)) : list (string * value) :=
  match h with
  | [] => acc
  | InUse k v :: r => in_use r (sset k v acc)
  | Update t _ _ :: r => in_use r (remove String.eqb (to_lower t) acc)   (* a later message of that topic supersedes it *)
  | _ :: r => in_use r acc
  end.
(* the part of it a start-up restores *)
Definition in_use_restorable (before : list event) : list (string * value) :=
  filter (fun kv => mem_str (fst kv) restorable_keys) (in_use before []).
Definition restored_spec (before : list event) (l : list (string * value)) : Prop :=
  saved_is_current before = true ->
  (forall t o, persistent_topic t = true -> restorable_topic t = true -> last_obj t before = Some o ->
               slookup (to_lower t) l = Some o) /\
  (forall k v, In (k, v) (in_use_restorable before) -> slookup k l = Some v).
Definition restored_check (before : list event) (l : list (string * value)) : bool :=
  negb (saved_is_current before)
  || (forallb (fun t => negb (persistent_topic t && restorable_topic t)
                        || opt_str_eqb (slookup (to_lower t) l) (last_obj t before))
              (updated_tags before)
      && forallb (fun kv => opt_str_eqb (slookup (fst kv) l) (Some (snd kv))) (in_use_restorable before)).

(* ... and the saved file holds it, too (this reaches the persistent topics that no start-up restores) *)
Definition in_use_spec (before : list event) (cfg : config) : Prop :=
  forall k v, In (k, v) (in_use before []) -> slookup k cfg = Some v.
Definition in_use_check (before : list event) (cfg : config) : bool :=
  forallb (fun kv => opt_str_eqb (slookup (fst kv) cfg) (Some (snd kv))) (in_use before []).

(* keys the start-up of this run read from the file (cfg0) and that no persistent topic of this run maps to
   keep their value in the saved file: the latest value of a topic last published in an earlier run is the
   stored one *)
Definition touches (t k : string) : bool :=
  String.eqb (to_lower t) k && negb (mem_str (to_lower t) volatile_topics).
Definition written_tags (before : list event) : list string :=
  updated_tags before ++ ["CURRENTTIME"; "___1"; "___2"]%string.
Definition kept_spec (cfg0 : config) (before : list event) (cfg : config) : Prop :=
  forall k v, In (k, v) cfg0 -> (forall t, In t (written_tags before) -> touches t k = false) ->
              slookup k cfg = Some v.
Definition kept_check (cfg0 : config) (before : list event) (cfg : config) : bool :=
  forallb (fun kv => existsb (fun t => touches t (fst kv)) (written_tags before)
                     || opt_str_eqb (slookup (fst kv) cfg) (Some (snd kv))) cfg0.

(* a save is due: some persistent topic got a new value since the last save (the file on disk no longer
   "contains the latest value of every persistent topic" until the delayed save has run) *)
Fixpoint due_scan (seen : list event) (due : bool) (rest : list event) : bool :=
  match rest with
  | [] => due
  | e :: r =>
      due_scan (seen ++ [e])
               (match e with
                | SaveTick _ _ => false
                | Update t _ x => due || (persistent_topic t && negb (opt_str_eqb (last_text t seen) (Some x)))
                | _ => due
                end) r
  end.
Definition save_due (before : list event) : bool := due_scan [] false before.
(* saved = whether a save was seen by an observer who waits after the history *)
Definition wait_spec (before : list event) (saved : bool) : Prop := save_due before = true -> saved = true.
Definition wait_check (before : list event) (saved : bool) : bool := negb (save_due before) || saved.

(* ---- part 3: a kill between any two file-system operations of a save ---- *)
(* reads = what start-up reads from the directory as it is before the save (head) and after each completed
   operation; written = the content the save writes.  Never missing (None), and always the complete old or
   the complete new version (hence never empty or truncated when the old version is not). *)
Definition crash_spec (reads : list (option config)) (written : config) : Prop :=
  exists old, hd_error reads = Some (Some old) /\
              forall r, In r reads -> r = Some old \/ r = Some written.

Definition entry_eqb (a b : entry) : bool := String.eqb (fst a) (fst b) && (snd a =? snd b).
Definition config_eqb : config -> config -> bool := list_eqb entry_eqb.
Definition crash_check (reads : list (option config)) (written : config) : bool :=
  match reads with
  | Some old :: _ =>
      forallb (fun r => match r with
                        | Some c => config_eqb c old || config_eqb c written
                        | None => false
                        end) reads
  | _ => false
  end.

(* what a save wrote, as seen in the directory: the temporary file once its write is complete
   (third state of the trace: before, after open, after write) *)
Definition written_of (trace : list (fs entry)) : option config :=
  match trace with
  | _ :: _ :: f :: _ => read f Tmp
  | _ => None
  end.
(* a save went through all of its six steps without an injected failure *)
Definition completed (faults : list bool) (trace : list (fs entry)) : bool :=
  forallb negb faults && (length trace =? 6)%nat.

(* ---- the whole history ---- *)
Definition check_one (cfg0 : config) (before : list event) (e : event) (o : out) : bool :=
  match e, o with
  | SendAll, Published l => sendall_check before l
  | SaveTick _ faults, Saved trace reads =>
      match written_of trace with
      | Some w =>
          crash_check reads w
          && (if forallb negb faults          (* no operation failed: the save must have run to its end *)
              then completed faults trace
                   && match last reads None with
                      | Some cfg => saved_check before cfg && kept_check cfg0 before cfg
                                    && in_use_check before cfg
                      | None => false
                      end
              else true)
      | None => (* the save failed before its write completed (only with a failing operation): the old
                   version must still be what is read *)
          negb (forallb negb faults)
          && match reads with
             | Some old :: _ => forallb (fun r => match r with Some c => config_eqb c old | None => false end) reads
             | _ => false
             end
      end
  | Restart, Restored l => restored_check before l
  | Update _ _ _, Published _ => true
  | InUse _ _, Published _ => true
  | Wait, Waited b => wait_check before b
  | _, _ => false
  end.

Fixpoint check_from (cfg0 : config) (before : list event) (h : list (event * out)) : bool :=
  match h with
  | [] => true
  | (e, o) :: rest => check_one cfg0 before e o && check_from cfg0 (before ++ [e]) rest
  end.

(* cfg0 = what the start-up of this run read from the configuration file *)
Definition C16_check (cfg0 : config) (h : list (event * out)) : bool := check_from cfg0 [] h.

(* ---- well-formed histories (hypotheses of the theorems, each justified in design.d/C16.md) ---- *)
(* a JSON text is never empty *)
Definition wf_event (e : event) : Prop :=
  match e with
  | Update _ _ text => text <> 0
  | _ => True
  end.
(* the object determines the text and vice versa: text = json.Marshal(object) *)
Definition consistent (h : list event) : Prop :=
  forall t o1 x1 o2 x2, In (Update t o1 x1) h -> In (Update t o2 x2) h -> x1 = x2 -> o1 = o2.
(* no two tags differ only by case, none collides with a key the save injects (viper keys are
   case-insensitive; all tags dastard uses are upper case) *)
Definition case_distinct (h : list event) : Prop :=
  forall t1 t2, In t1 (updated_tags h ++ ["CURRENTTIME"; "___1"; "___2"]%string) ->
                In t2 (updated_tags h ++ ["CURRENTTIME"; "___1"; "___2"]%string) ->
                to_lower t1 = to_lower t2 -> t1 = t2.
