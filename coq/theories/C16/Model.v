(* C16 — mirror model (definitions only, no proofs) of
     /repo/client_updater.go   RunClientUpdater (the select loop), publish, saveState
     /repo/cmd/dastard/dastard.go   makeFileExist + the read of the main configuration file
   Three layers:
     1. Go maps as association lists with unique keys.  Go iterates maps in random order: every
        comparison made with an output of this model is insensitive to order.
     2. Fs: a directory as  list (name * content), the file-system operations saveState and start-up
        issue, with their error cases; a script of operations with "continue?" tests = the control flow
        of saveState (early returns); exec = the states after each completed operation (= the states a
        process kill between two operations can leave behind).
     3. Status: the updater loop as  step : sys -> event -> sys * out.
   A configuration file's content is the list of its top-level entries (key, value); an empty file is [],
   a file truncated inside the write is a prefix of the entries.  yaml/viper encoding is glue. *)
From Coq Require Import String Ascii.
From Dastard Require Import Common.ZX.

(* ------------------------------------------------------------------ 1. maps *)
Section Assoc.
  Context {K V : Type} (keqb : K -> K -> bool).
  Fixpoint lookup (k : K) (m : list (K * V)) : option V :=
    match m with
    | [] => None
    | (k', v) :: r => if keqb k k' then Some v else lookup k r
    end.
  (* m[k] = v : replace in place when present, else add *)
  Fixpoint set (k : K) (v : V) (m : list (K * V)) : list (K * V) :=
    match m with
    | [] => [(k, v)]
    | (k', v') :: r => if keqb k k' then (k, v) :: r else (k', v') :: set k v r
    end.
  (* delete(m, k) *)
  Definition remove (k : K) (m : list (K * V)) : list (K * V) :=
    filter (fun kv => negb (keqb k (fst kv))) m.
End Assoc.

Definition slookup {V} := @lookup string V String.eqb.
Definition sset {V} := @set string V String.eqb.

(* ------------------------------------------------------------------ 2. file system *)
Inductive name := Main | Tmp | Bak | Other (z : Z).
(* Main = viper.ConfigFileUsed(), Tmp = Main with ".yaml" -> ".tmp.yaml", Bak = Main + ".bak".
   Premise (trusted base): these are three different names in one directory, i.e. the configuration
   file's name contains ".yaml" and its directory name does not. *)
Definition name_eqb (a b : name) : bool :=
  match a, b with
  | Main, Main | Tmp, Tmp | Bak, Bak => true
  | Other x, Other y => x =? y
  | _, _ => false
  end.

Section Fs.
  Context {A : Type}.                       (* one entry / block of a file *)
  Definition content := list A.
  Definition fs := list (name * content).

  Definition read (f : fs) (n : name) : option content := lookup name_eqb n f.

  Inductive err := ENOENT | EEXIST | EOTHER.

  Inductive op :=
  | Create (n : name)                 (* open(O_CREATE|O_TRUNC|O_WRONLY): empty file, existing or not *)
  | CreateIfMissing (n : name)        (* open(O_CREATE|O_WRONLY) + close: makeFileExist *)
  | Append (n : name) (d : content)   (* one write(2) on the open descriptor *)
  | Remove (n : name)                 (* os.Remove *)
  | Rename (a b : name)               (* os.Rename: atomically replaces b *)
  | Link (a b : name).                (* os.Link: fails when b exists.  The second directory entry is
                                         modelled as a second copy of the content: the only in-place writes
                                         (Create/Append) go to Tmp, which is never an argument of Link. *)

  (* an operation that fails leaves the directory unchanged *)
  Definition apply (f : fs) (o : op) : fs * option err :=
    match o with
    | Create n => (set name_eqb n [] f, None)
    | CreateIfMissing n =>
        match read f n with Some _ => (f, None) | None => (set name_eqb n [] f, None) end
    | Append n d =>
        match read f n with
        | Some c => (set name_eqb n (c ++ d) f, None)
        | None => (f, Some ENOENT)
        end
    | Remove n =>
        match read f n with
        | Some _ => (remove name_eqb n f, None)
        | None => (f, Some ENOENT)
        end
    | Rename a b =>
        match read f a with
        | None => (f, Some ENOENT)
        | Some c => if name_eqb a b then (f, None)
                    else (set name_eqb b c (remove name_eqb a f), None)
        end
    | Link a b =>
        match read f a with
        | None => (f, Some ENOENT)
        | Some c => match read f b with
                    | Some _ => (f, Some EEXIST)
                    | None => (set name_eqb b c f, None)
                    end
        end
    end.

  (* how the caller reacts to the result of an operation *)
  Definition is_ok (r : option err) : bool := match r with None => true | _ => false end.
  (* `if err != nil && !os.IsNotExist(err) { return }` *)
  Definition ok_or_enoent (r : option err) : bool :=
    match r with None | Some ENOENT => true | _ => false end.
  Definition any_result (r : option err) : bool := true.

  Definition script := list (op * (option err -> bool)).

  (* [exec f s faults]: the directory after each operation that completed and after which the function
     went on (for saveState: exactly at its verifPoint lines, plus one point between the open and the
     write of the temporary file).  faults: true = this operation fails for an external reason (EIO,
     EACCES, ENOSPC, ...) and changes nothing. *)
  Fixpoint exec (f : fs) (s : script) (faults : list bool) : list fs :=
    match s with
    | [] => []
    | (o, cont) :: rest =>
        let '(f', r) := if hd false faults then (f, Some EOTHER) else apply f o in
        if cont r then f' :: exec f' rest (tl faults) else []
    end.

  (* viper.WriteConfigAs(tmp): OpenFile(O_CREATE|O_TRUNC|O_WRONLY), write, Sync, Close.  viper 1.18 issues
     one WriteString; the theorems take an arbitrary split into chunks so that a kill (or an error) inside
     the write is covered. *)
  Definition write_config_as (n : name) (chunks : list content) : script :=
    (Create n, is_ok) :: map (fun c => (Append n c, is_ok)) chunks.

  (* saveState after the fix: write tmp; remove bak; LINK main -> bak; rename tmp -> main *)
  Definition save_ops (chunks : list content) : script :=
    write_config_as Tmp chunks ++
    [ (Remove Bak, ok_or_enoent); (Link Main Bak, ok_or_enoent); (Rename Tmp Main, any_result) ].

  (* saveState before the fix: write tmp; remove bak; RENAME main -> bak; rename tmp -> main *)
  Definition save_ops_old (chunks : list content) : script :=
    write_config_as Tmp chunks ++
    [ (Remove Bak, ok_or_enoent); (Rename Main Bak, ok_or_enoent); (Rename Tmp Main, any_result) ].

  (* every state a kill during the save can leave: the one before it and the one after each operation *)
  Definition save_trace (f : fs) (chunks : list content) (faults : list bool) : list fs :=
    f :: exec f (save_ops chunks) faults.
  Definition save_trace_old (f : fs) (chunks : list content) (faults : list bool) : list fs :=
    f :: exec f (save_ops_old chunks) faults.

  (* cmd/dastard: makeFileExist(dir, "config.yaml") then viper.ReadInConfig().
     Result: the directory afterwards and what was read (None is not reachable: proved). *)
  Definition make_file_exist (f : fs) (n : name) : fs := fst (apply f (CreateIfMissing n)).
  Definition startup (f : fs) : fs * option content :=
    let f1 := make_file_exist f Main in (f1, read f1 Main).

  (* Every directory that saves, kills and restarts can produce from f0, with the list of contents written
     so far (newest first):  a save may be cut after any of its operations (any element of its trace; the
     last element = it ran to its end); a restart runs the start-up sequence; then more saves may follow,
     each with its own content, split into chunks in any way, with any pattern of failing operations. *)
  Inductive reachable (f0 : fs) : fs -> list content -> Prop :=
  | reach_init : reachable f0 f0 []
  | reach_save : forall f vs chunks faults f',
      reachable f0 f vs -> In f' (save_trace f chunks faults) ->
      reachable f0 f' (concat chunks :: vs)
  | reach_restart : forall f vs,
      reachable f0 f vs -> reachable f0 (fst (startup f)) vs.
End Fs.
Arguments content : clear implicits.
Arguments fs : clear implicits.
Arguments op : clear implicits.
Arguments script : clear implicits.

(* ------------------------------------------------------------------ 3. the updater loop *)

Definition lower_ascii (c : ascii) : ascii :=
  let n := nat_of_ascii c in
  if (Nat.leb 65 n && Nat.leb n 90)%bool then ascii_of_nat (n + 32) else c.
Fixpoint to_lower (x : string) : string :=
  match x with
  | EmptyString => EmptyString
  | String c r => String (lower_ascii c) (to_lower r)
  end.

Definition mem_str (x : string) (l : list string) : bool := existsb (String.eqb x) l.

(* var nopublishMessages *)
Definition nopublish_list : list string :=
  ["CURRENTTIME"; "___1"; "___2"; "___3"; "___4"; "___5"]%string.
(* var nosaveMessages (keys are lower case; looked up with strings.ToLower(tag)) *)
Definition nosave_list : list string :=
  ["channelnames"; "alive"; "triggerrate"; "numberwritten"; "newdastard"; "tesmap"; "externaltrigger"]%string.
Definition nopublish (t : string) : bool := mem_str t nopublish_list.
Definition nosave (t : string) : bool := mem_str (to_lower t) nosave_list.

(* Values (message texts, rendered objects, configuration values) are compared for equality only: the
   harness interns them, a value is the number of a distinct string (0 = the empty string, negative =
   the constants below).  Tags and configuration keys stay strings (they are lower-cased and looked up
   in the lists above). *)
Definition value := Z.
(* a configuration entry: (key, value) *)
Definition entry := (string * value)%type.
Definition config := list entry.

(* the three keys saveState injects: "DASTARD configuration file. Written and read by DASTARD." = -1,
   "Human intervention by experts is permitted but not expected." = -2, the time of day = an input *)
Definition comment1 : value := -1.
Definition comment2 : value := -2.
(* setupViper: viper.SetDefault("Verbose", false);  false = -3 *)
Definition viper_defaults : config := [("verbose"%string, -3)].

Record sys := {
  objs : list (string * value);     (* lastMessages: tag -> object (rendered canonically by the harness) *)
  texts : list (string * value);    (* lastMessageStrings: tag -> JSON text *)
  armed : bool;                     (* saveStateOnceTimer created/reset and not yet fired *)
  v_config : config;                (* viper: what ReadInConfig read at start-up (keys lower case) *)
  v_over : config;                  (* viper: the override layer filled by viper.Set (keys lower case) *)
  disk : fs entry                   (* the configuration directory *)
}.

(* a over b: every key of a, then the keys only b has *)
Definition overlay (a b : config) : config :=
  fold_left (fun m kv => sset (fst kv) (snd kv) m) a b.
(* viper.AllSettings(): override > config file > defaults *)
Definition all_settings (y : sys) : config :=
  overlay (v_over y) (overlay (v_config y) viper_defaults).

Inductive event :=
| Update (tag : string) (obj text : value)   (* clientMessageChan <- ClientUpdate{tag, state}; text = json.Marshal(state) *)
| SendAll                           (* tag "SENDALL" *)
| Wait                              (* the environment lets time pass until a save happens (or gives up) *)
| SaveTick (now : value) (faults : list bool)     (* a save timer fired: saveState(lastMessages) *)
| InUse (key : string) (v : value)  (* not a message: the RPC layer has put configuration [key] = v into effect
                                       (e.g. WriteControl START under a base path succeeded); no effect on the updater *)
| Restart.                          (* a second dastard is started on the directory as it is now (RunRPCServer
                                       and PrepareRun restore what they find); the running one is not affected *)

Inductive out :=
| Published (l : list (string * value))        (* (topic, body) sent on the PUB socket *)
| Waited (saved : bool)                        (* is a save due? *)
| Saved (trace : list (fs entry))              (* directory before the save and after each operation *)
        (reads : list (option config))         (* what start-up would read from each of them *)
| Restored (l : list (string * value)).        (* what the restarted dastard restored, by configuration key *)

(* the keys RunRPCServer (and PrepareRun, for "trigger") restore *)
Definition restorable_keys : list string :=
  ["abaco"; "lancero"; "roach"; "simpulse"; "status"; "tesmapfile"; "triangle"; "trigger"; "writing"]%string.

(* func publish *)
Definition publish (tag : string) (text : value) : list (string * value) :=
  if nopublish tag then [] else [(tag, text)].

Definition text_of (y : sys) (tag : string) : value :=
  match slookup tag (texts y) with Some t => t | None => 0 end.

(* func saveState, the part before the file operations *)
Definition inject (now : value) (o : list (string * value)) : list (string * value) :=
  sset "CURRENTTIME"%string now (sset "___2"%string comment2 (sset "___1"%string comment1 o)).
Definition viper_set_all (o : list (string * value)) (over : config) : config :=
  fold_left (fun m kv => if nosave (fst kv) then m else sset (to_lower (fst kv)) (snd kv) m) o over.

Definition save_state (y : sys) (now : value) (faults : list bool) : sys * list (fs entry) :=
  let o := inject now (objs y) in
  let over := viper_set_all o (v_over y) in
  let y1 := {| objs := o; texts := texts y; armed := armed y;
               v_config := v_config y; v_over := over; disk := disk y |} in
  let tr := save_trace (disk y) [all_settings y1] faults in
  ({| objs := o; texts := texts y; armed := armed y;
      v_config := v_config y; v_over := over; disk := last tr (disk y) |}, tr).

Definition step (y : sys) (e : event) : sys * out :=
  match e with
  | SendAll =>
      (y, Published (flat_map (fun kv => publish (fst kv) (text_of y (fst kv))) (objs y)))
  | Update tag obj text =>
      let sent := publish tag text in
      if String.eqb tag "NEWDASTARD" then (y, Published sent)
      else if negb (text_of y tag =? text)
      then ({| objs := sset tag obj (objs y); texts := sset tag text (texts y);
               armed := armed y || negb (nosave tag);
               v_config := v_config y; v_over := v_over y; disk := disk y |}, Published sent)
      else (y, Published sent)
  | Wait => (y, Waited (armed y))
  | InUse _ _ => (y, Published [])
  | SaveTick now faults =>
      let '(y', tr) := save_state y now faults in
      ({| objs := objs y'; texts := texts y'; armed := false;
          v_config := v_config y'; v_over := v_over y'; disk := disk y' |},
       Saved tr (map (fun f => snd (startup f)) tr))
  | Restart =>
      (y, Restored (filter (fun kv => mem_str (fst kv) restorable_keys)
                           (match snd (startup (disk y)) with Some c => c | None => [] end)))
  end.

Fixpoint run (y : sys) (es : list event) : sys * list out :=
  match es with
  | [] => (y, [])
  | e :: rest => let '(y1, o) := step y e in
                 let '(y2, os) := run y1 rest in (y2, o :: os)
  end.

(* RunClientUpdater entered after start-up read [cfg] from the main file of directory [d] *)
Definition init_sys (cfg : config) (d : fs entry) : sys :=
  {| objs := []; texts := []; armed := true; v_config := cfg; v_over := []; disk := d |}.

(* dastard is killed and started again on directory f: the start-up sequence, then a fresh updater *)
Definition reboot (f : fs entry) : sys :=
  let '(f1, c) := startup f in
  init_sys (match c with Some c => c | None => [] end) f1.
