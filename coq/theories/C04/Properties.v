(* C04 — property theorems only: each closed by [exact], each followed by Print Assumptions. *)
From Dastard Require Import C04.Base C04.Model C04.Spec C04.Proofs.
