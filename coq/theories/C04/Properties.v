(* C04 — property theorems only: each closed by [exact], each followed by Print Assumptions. *)
From Coq Require Import Reals.
From Flocq Require Import Core.
From Dastard Require Import C04.FloatKit C04.Base C04.Model C04.Spec C04.Proofs C04.Glue C04.MixBound.
Open Scope Z_scope.

(* ---------- every history of the model passes the observable checker (uninterrupted deliveries) ---------- *)
(* For every geometry, NSAMP, dropped-frame oracle and every sequence of reads (any chunking) and mix requests:
   what the mirror of reader + getNextBlock + distributeData + MixRetardFb produces is accepted by C04_check
   (which demands nothing when the delivery is not well-formed).  So on a well-formed uninterrupted delivery:
   every frame's words appear exactly once, in frame order, in the two channels of their row/column; the
   feedback is delayed, cleared, mixed and saturated as specified; the trigger counts are exactly the rising edges;
   frame numbers are consecutive; exactly the delivered frames' bytes are released; fewer than 3 frames stay
   behind after every read; nothing crashes.  Together with "implementation = model" on the generated cases this is
   what makes a rejected implementation output a real violation. *)
Theorem lancero_model_passes_check :
  forall est g nsamp ops,
    C04_check {| c_g := g; c_nsamp := nsamp; c_gap := None |}
              (combine ops (run est true g nsamp (init_state g) ops)) = true.
Proof. exact model_passes_check_proof. Qed.
Print Assumptions lancero_model_passes_check.

(* The same for every later run on the same source object (stop, another geometry, start): whatever frame number,
   trigger level and block time the previous run left behind, the run's history -- produced with fresh Mix objects
   and the channel-order table of THIS run's geometry -- passes the checker started at that frame number and level.
   Nothing else of the previous run matters. *)
Theorem lancero_model_passes_check_every_run :
  forall est g nsamp next ext prev ops,
    C04_check_from {| c_g := g; c_nsamp := nsamp; c_gap := None |} next ext
                   (combine ops (run est true g nsamp (start_state g next ext prev) ops)) = true.
Proof. exact model_passes_check_from_proof. Qed.
Print Assumptions lancero_model_passes_check_every_run.

(* ---------- the reader goroutine is exact on every chunking of an uninterrupted delivery ---------- *)
(* For every geometry (ncols >= 1, nrows >= 2), every frame content and every way of chopping the byte
   stream into driver reads (any lengths, also empty ones, shorter than 3 frames, cutting inside words):
   the real reader loop's model behaves like [exact_run]: a read leaves everything in the card until 3 frames
   are available (TSmall, nothing released), then ALL whole frames are demultiplexed -- buffer i, sample j
   is the 16-bit word at stream byte R + j*framesize + 2*i, i.e. word i/2 (error for even i, feedback for odd i)
   of frame R/framesize + j --, exactly their bytes are released, no drop is flagged, and the partial frame
   stays in the card for the next read.  Never a geometry mismatch, never a panic. *)
Theorem reader_frame_exact :
  forall g, 1 <= ncols g -> 2 <= nrows g ->
  forall S, frame_bits_wf g S ->
  forall chunks, S = concat (map fst chunks) ->
    reader_run g [] chunks = exact_run g S 0 0 chunks.
Proof. exact reader_frame_exact_proof. Qed.
Print Assumptions reader_frame_exact.

(* ---------- channel numbering ---------- *)
Theorem chan_order_bijection :
  forall g, 1 <= ncols g -> 1 <= nrows g ->
    zlen (chan2readout g) = nchan g /\
    (forall r c e, 0 <= r < nrows g -> 0 <= c < ncols g -> 0 <= e < 2 ->
       znth 0 (chan2readout g) (2 * (c * nrows g + r) + e) = 2 * (r * ncols g + c) + e) /\
    (forall ch, 0 <= ch < nchan g -> 0 <= znth 0 (chan2readout g) ch < nchan g) /\
    (forall ch ch', 0 <= ch < nchan g -> 0 <= ch' < nchan g ->
       znth 0 (chan2readout g) ch = znth 0 (chan2readout g) ch' -> ch = ch') /\
    (forall i, 0 <= i < nchan g -> exists ch, 0 <= ch < nchan g /\ znth 0 (chan2readout g) ch = i).
Proof. exact chan_order_bijection_proof. Qed.
Print Assumptions chan_order_bijection.

(* ---------- feedback: one-sample delay carried across blocks, flag bits cleared, error mixed in, saturation ---------- *)
(* MixRetardFb called on consecutive blocks (any partition into blocks, the running lastFb carried along)
   produces, over the concatenation:  out[n] = mix_value scale (fb[n-1] with both flag bits cleared) err[n],
   out[0] using the value carried in; mix_value s p e = p when s = 0, otherwise the float64 expression
   float64(int16 e)*s + float64(p) (evaluated with Coq's binary64 primitives, as Go does), clipped to 65535
   from above and to 0 from below, else rounded by dastard's roundint.  Always within 0..65535. *)
Theorem fb_retard_mix :
  forall scale blocks last0,
    Forall (fun b => zlen (fst b) = zlen (snd b)) blocks ->
    let fbs := concat (map fst blocks) in
    let errs := concat (map snd blocks) in
    mix_blocks scale last0 blocks = exp_fb scale last0 fbs errs /\
    (forall n, 0 <= n < zlen fbs ->
       znth 0 (exp_fb scale last0 fbs errs) n =
       mix_value scale (if n =? 0 then last0 else mask3 (znth 0 fbs (n - 1))) (znth 0 errs n)) /\
    (forall p e, 0 <= p <= 65535 -> 0 <= mix_value scale p e <= 65535) /\
    (forall p e, (scale =? 0)%float = true -> mix_value scale p e = p) /\
    (forall p e, (scale =? 0)%float = false ->
       let x := (z2f (int16 e) * scale + z2f p)%float in
       mix_value scale p e = if (65535 <=? x)%float then 65535 else if (x <? 0)%float then 0
                             else roundint x mod 65536) /\
    (forall v, mask3 v mod 4 = 0 /\ 0 <= mask3 v <= 65532).
Proof. exact fb_retard_mix_proof. Qed.
Print Assumptions fb_retard_mix.

(* ---------- external triggers ---------- *)
(* On exactly demultiplexed frames (m frames starting at stream byte R, numbered from [first]) the scan yields
   the rising edges of the per-row flag sequence -- the flag of row r read in column 0 of that row (readout word
   r*ncols), for every ncols -- each counted (first+j)*nrows + r, with the last flag carried out; and the flag
   sequence of two consecutive blocks is that of the merged block, so edges across a block boundary are
   counted exactly once. *)
Theorem ext_trig_exact :
  forall g S R m first last,
    1 <= ncols g -> 1 <= nrows g -> 0 <= m ->
    ext_scan g (exact_data g S R m) m first last =
      (last_flag last (row_flags g S R m first), edges last (row_flags g S R m first)) /\
    (forall m2, 0 <= m2 ->
       row_flags g S R (m + m2) first =
       row_flags g S R m first ++ row_flags g S (R + m * fsize g) m2 (first + m)) /\
    (forall l1 l2, edges last (l1 ++ l2) = edges last l1 ++ edges (last_flag last l1) l2).
Proof. exact ext_trig_exact_proof. Qed.
Print Assumptions ext_trig_exact.

(* ---------- frame numbers never go backwards (after the fix), whatever the estimate of a loss (>= 0) ---------- *)
Theorem frames_monotone :
  forall est, (forall p c, 0 <= est p c) ->
  forall g nsamp ops st,
    mono_from (d_next (s_d st)) (blocks_of (run est true g nsamp st ops)).
Proof. exact frames_monotone_gen. Qed.
Print Assumptions frames_monotone.

(* non-vacuity of reader_frame_exact's hypothesis: 8 frames of a 2x3 stream *)
Example reader_frame_exact_nonvacuous :
  1 <= ncols wit_g /\ 2 <= nrows wit_g /\ frame_bits_wf wit_g (wit_stream wit_flag2 8).
Proof. exact example_reader_hyps. Qed.

(* ---------- lost bytes ---------- *)
(* PARTIAL (what the reader achieves; the full statement [realign_after_gap_statement] is refuted below).
   Bytes were lost in front of stream byte pos; position and count are multiples of 4 (the word grid survives);
   the byte at pos lies ph bytes into a frame.  The reader's state is exact with release point R (a frame
   boundary of the part before the cut), the cut lies in the frame that starts at R, gw = (pos-R)/4 words of that
   frame were still delivered, the first surviving word lies t0w = ph/4 words into its frame, and
   gw < t0w, or t0w = 0 and gw > ncols.  Then the first read that makes 3 frames available (whatever was read before
   and however the rest is chopped) releases exactly the damaged frame (4*q bytes, up to the NEXT frame boundary
   behind the cut), flags the drop, delivers all but one of the whole frames behind that boundary exactly
   demultiplexed, keeps the rest in the card -- and from then on behaves exactly again (exact_run) for every later
   chunking.  Not covered: losses that are not multiples of 4 bytes; losses met deeper inside a read, or with
   gw >= t0w (see the refutation and design.d/C04.md). *)
Theorem realign_after_gap_partial :
  forall g, 1 <= ncols g -> 2 <= nrows g ->
  forall S pos ph, pos mod 4 = 0 -> ph mod 4 = 0 -> 0 <= ph < fsize g -> gap_bits_wf g S pos ph ->
  forall R, 0 <= R -> R mod fsize g = 0 -> R <= pos < R + fsize g ->
    (pos - R) / 4 < ph / 4 \/ (ph / 4 = 0 /\ ncols g < (pos - R) / 4) ->
  forall S1 pend c stamp rest,
    S = S1 ++ c ++ concat (map fst rest) ->
    R <= zlen S1 -> pend = zslice S R (zlen S1 - R) ->
    3 * fsize g <= zlen S1 + zlen c - R ->
    let q := if ph / 4 =? 0 then (pos - R) / 4 else (pos - R) / 4 + nwords g - ph / 4 in
    let L := zlen S1 + zlen c - R in
    let m := L / fsize g - 1 in
    reader_run g pend ((c, stamp) :: rest) =
      {| t_pend := zslice S (R + 4 * q + m * fsize g) (L - 4 * q - m * fsize g);
         t_rels := [4 * q; m * fsize g];
         t_out := TBuf {| bm_data := exact_data g S (R + 4 * q) m; bm_stamp := stamp; bm_drop := true |} |}
      :: exact_run g S (zlen S1 + zlen c) (R + 4 * q + m * fsize g) rest.
Proof. exact realign_run. Qed.
Print Assumptions realign_after_gap_partial.

(* the release point after the damaged frame is the next frame boundary behind the cut, as the checker demands *)
Theorem realign_releases_to_next_boundary :
  forall g pos ph R, 1 <= ncols g -> 2 <= nrows g ->
    pos mod 4 = 0 -> ph mod 4 = 0 -> 0 <= ph < fsize g -> 0 <= R -> R mod fsize g = 0 -> R <= pos < R + fsize g ->
    let q := if ph / 4 =? 0 then (pos - R) / 4 else (pos - R) / 4 + nwords g - ph / 4 in
    R + 4 * q = next_boundary g pos ph.
Proof. exact realign_next_boundary. Qed.
Print Assumptions realign_releases_to_next_boundary.

Example realign_after_gap_partial_nonvacuous :
  1 <= ncols ex_g /\ 2 <= nrows ex_g /\ 252 mod 4 = 0 /\ 16 mod 4 = 0 /\ 0 <= 16 < fsize ex_g /\
  gap_bits_wf ex_g ex_S 252 16 /\ 240 mod fsize ex_g = 0 /\ 240 <= 252 < 240 + fsize ex_g /\
  (252 - 240) / 4 < 16 / 4.
Proof. exact example_realign_hyps. Qed.

(* The full statement is false of the reader (mirror of the current tree): 2 columns x 3 rows, reads of
   240 bytes, 42 bytes lost at byte 480 -- the third and fourth read are released whole, nothing is delivered or
   reported, and the checker rejects that history. *)
Theorem realign_after_gap_refuted : ~ realign_after_gap_statement wit_sys.
Proof. exact realign_after_gap_refuted_proof. Qed.
Print Assumptions realign_after_gap_refuted.

Theorem realign_after_gap_refuted_witness :
  stream_wf wit_cfg3 (stream_of (wit_ops wit_S3)) = true /\ stamps_increasing (wit_ops wit_S3) = true /\
  map is_silent_release (wit_sys wit_cfg3 (wit_ops wit_S3)) = [false; false; true; true] /\
  C04_check wit_cfg3 (combine (wit_ops wit_S3) (wit_sys wit_cfg3 (wit_ops wit_S3))) = false.
Proof. exact realign_witness. Qed.
Print Assumptions realign_after_gap_refuted_witness.

(* ---------- the tree before the fixes ---------- *)
(* ncols=2, nrows=3, flag high from frame 1 row 2 on: row count 6 before the fix, 5 (= 1*3+2) after *)
Theorem ext_trig_exact_refuted_pre_fix :
  map b_ext (blocks_of (run wit_est false wit_g 1 (init_state wit_g) wit_ops1)) = [[6]] /\
  map b_ext (blocks_of (run wit_est true wit_g 1 (init_state wit_g) wit_ops1)) = [[5]].
Proof. exact ext_trig_refuted_pre_fix_proof. Qed.
Print Assumptions ext_trig_exact_refuted_pre_fix.

(* 10-frame reads, 40 bytes lost after frame 20, estimate 50 frames: first frames 0 10 70 29 before the fix *)
Theorem frames_monotone_refuted_pre_fix :
  map b_first (blocks_of (run wit_est false wit_g 1 (init_state wit_g) (wit_ops wit_S2))) = [0; 10; 70; 29] /\
  map b_first (blocks_of (run wit_est true wit_g 1 (init_state wit_g) (wit_ops wit_S2))) = [0; 10; 70; 79].
Proof. exact frames_monotone_refuted_pre_fix_proof. Qed.
Print Assumptions frames_monotone_refuted_pre_fix.

(* the block that reports the loss starts at frame 70 (row 210): its row counts before / after the fix *)
Theorem ext_trig_after_drop_refuted_pre_fix :
  znth [] (map b_ext (blocks_of (run wit_est false wit_g 1 (init_state wit_g) (wit_ops wit_S2)))) 2 = [65; 72; 78; 86] /\
  znth [] (map b_ext (blocks_of (run wit_est true wit_g 1 (init_state wit_g) (wit_ops wit_S2)))) 2 = [214; 221; 228; 235].
Proof. exact ext_after_drop_refuted_pre_fix_proof. Qed.
Print Assumptions ext_trig_after_drop_refuted_pre_fix.

(* 2x3, reads of 240 bytes, 20 bytes lost at byte 244: the reader goroutine panicked ("expect dropFromEnd>0",
   the server died) after releasing 28 bytes; after the fix the read is a reported drop: 28 bytes released up to the
   frame start found, 8 whole frames delivered.  (One intact frame in front of that frame start is lost with the
   damaged one: that part stays in the finding gap-word-aligned-inside-read.) *)
Theorem reader_panic_refuted_pre_fix :
  tick_kind (reader_tick_old wit_g [] (zslice wit_S4 240 240) 2) = (4, [28]) /\
  tick_kind (reader_tick wit_g [] (zslice wit_S4 240 240) 2) = (3, [28; 192]).
Proof. exact reader_panic_refuted_pre_fix_proof. Qed.
Print Assumptions reader_panic_refuted_pre_fix.

(* ---------- the float64 mix value against the exact real value ---------- *)
(* For every finite error scale s with |s| <= 4 (mix fraction / NSAMP; s <> 0), every carried feedback value p and
   every error sample e in 0..65535: the value MixRetardFb's mirror computes with three float64 roundings
   (product, sum, + 0.5), clipping and truncation differs from  clamp_0^65535 (p + s * int16 e)  -- computed in the
   reals -- by at most 1/2 + 2^-34.  FR is the real value of a primitive float (Flocq's B2R o Prim2B); the
   proof uses Flocq's correctness theorems for the IEEE operations, hence the float specification axioms of
   Coq's Floats library and the classical axioms of the real numbers appear under Print Assumptions.
   Not covered: |s| > 4 (the rounding error of the product grows with |s|; the statement would need a bound
   depending on s), s infinite or NaN. *)
Theorem fb_mix_real_bound_partial :
  forall s p e, FloatKit.Ffin s -> (Rabs (FloatKit.FR s) <= 4)%R -> 0 <= p <= 65535 -> 0 <= e <= 65535 ->
    (s =? 0)%float = false ->
    (Rabs (IZR (mix_value s p e) - MixBound.clamp16 (IZR p + FloatKit.FR s * IZR (int16 e)))
      <= /2 + bpow radix2 (-34))%R.
Proof. exact MixBound.fb_mix_real_bound_proof. Qed.
Print Assumptions fb_mix_real_bound_partial.
