(* C04 — the property as a checker over OBSERVABLES only: the byte stream handed to the card (chunk by
   chunk, with where a gap was cut out of it), the mix requests issued, and what came back: the
   ReleaseBytes calls of every tick, the blocks delivered (per-channel samples, first frame number,
   droppedFrames, external-trigger counts) and the error/no-error answer of every mix request.
   Nothing in this file mentions the model (Base.v holds only vocabulary and Go's numeric conversions). *)
From Dastard Require Import C04.Base.

(* ---------- reading the stream: frames are [nwords] 4-byte words  errLo errHi fbLo fbHi ---------- *)
Definition u16_at (S : list Z) (i : Z) : Z := znth 0 S i + 256 * znth 0 S (i + 1).
Definition err_at (S : list Z) (fp w : Z) : Z := u16_at S (fp + 4 * w).        (* frame at byte fp, readout word w *)
Definition fb_at (S : list Z) (fp w : Z) : Z := u16_at S (fp + 4 * w + 2).
Definition bit0 (x : Z) : bool := Z.land x 1 =? 1.      (* frame bit *)
Definition bit1 (x : Z) : bool := Z.land x 2 =? 2.      (* external-trigger flag *)

(* row r, column c  <->  readout word r*ncols + c  <->  channels 2*(c*nrows + r) (error), +1 (feedback) *)
Definition chan_of_word (g : geom) (w e : Z) : Z := 2 * ((w mod ncols g) * nrows g + w / ncols g) + e.

(* ---------- the mixed, retarded feedback value: sat_0^65535 (roundint (fbprev + s * int16 err)) ---------- *)
Definition mix_value (scale : float) (fbprev err : Z) : Z :=
  if (scale =? 0)%float then fbprev
  else
    let x := (z2f (int16 err) * scale + z2f fbprev)%float in
    if (65535 <=? x)%float then 65535
    else if (x <? 0)%float then 0
    else roundint x mod 65536.

(* out[n] = mix_value s (fb[n-1] with the flag bits cleared) err[n] ; [prev] = cleared fb of the sample before *)
Fixpoint exp_fb (scale : float) (prev : Z) (fbs errs : list Z) : list Z :=
  match fbs, errs with
  | f :: fr, e :: er => mix_value scale prev e :: exp_fb scale (mask3 f) fr er
  | _, _ => []
  end.

(* ---------- rising edges: one count per position whose flag is set while the previous one was not ---------- *)
Fixpoint edges (last : bool) (l : list (bool * Z)) : list Z :=
  match l with
  | [] => []
  | (s, v) :: r => if s && negb last then v :: edges s r else edges s r
  end.
Fixpoint last_flag (last : bool) (l : list (bool * Z)) : bool :=
  match l with [] => last | (s, _) :: r => last_flag s r end.

(* (flag, count) of every row of the m frames that start at byte [start], numbered from frame [first] *)
Definition row_flags (g : geom) (S : list Z) (start m first : Z) : list (bool * Z) :=
  flat_map (fun j => map (fun r => (bit1 (fb_at S (start + j * fsize g) (r * ncols g)),
                                    (first + j) * nrows g + r))
                         (zrange 0 (nrows g)))
           (zrange 0 m).

(* ---------- well-formedness of the delivered stream (otherwise the property demands nothing) ---------- *)
(* [S] = bytes before the cut (frame-aligned at byte 0) ++ bytes after it (the byte at [pos] lies [ph] bytes
   into a frame).  In each part: bytes in 0..255, frame bit set exactly in row 0, trigger flag identical
   across the columns of a row. *)
Record wst := { w_ok : bool; w_cur : option bool }.

(* scan a region whose first byte has index i (relative to a frame-aligned base) *)
Fixpoint wf_scan (g : geom) (i : Z) (cur : option bool) (l : list Z) : bool :=
  match l with
  | [] => true
  | x :: r =>
      (0 <=? x) && (x <? 256) &&
      (if i mod 4 =? 2 then
         let w := (i mod fsize g) / 4 in
         Bool.eqb (bit0 x) (w <? ncols g) &&
         (if w mod ncols g =? 0 then wf_scan g (i + 1) (Some (bit1 x)) r
          else match cur with
               | Some f => Bool.eqb (bit1 x) f && wf_scan g (i + 1) cur r
               | None => wf_scan g (i + 1) cur r
               end)
       else wf_scan g (i + 1) cur r)
  end.

Record cfg := {
  c_g : geom;
  c_nsamp : Z;                 (* NSAMP *)
  c_gap : option (Z * Z)       (* Some (pos, ph): bytes were lost in front of stream byte [pos]; that byte lies
                                  [ph] bytes into a frame, ph <> pos mod frame size (a detectable loss) *)
}.

Definition geom_ok (g : geom) : bool := (1 <=? ncols g) && (2 <=? nrows g).

Definition stream_wf (c : cfg) (S : list Z) : bool :=
  geom_ok (c_g c) && (1 <=? c_nsamp c) &&
  match c_gap c with
  | None => wf_scan (c_g c) 0 None S
  | Some (pos, ph) =>
      (0 <=? pos) && (pos <=? zlen S) && (0 <=? ph) && (ph <? fsize (c_g c)) &&
      negb (pos mod fsize (c_g c) =? ph) &&
      wf_scan (c_g c) 0 None (zfirstn pos S) && wf_scan (c_g c) ph None (zskipn pos S)
  end.

(* ---------- the checker ---------- *)
Record cst := {
  k_D : Z;                (* bytes delivered to the reader so far *)
  k_R : Z;                (* bytes released so far *)
  k_fpos : Z;             (* stream position of the next frame that must appear *)
  k_next : Z;             (* smallest frame number the next block may carry *)
  k_ext : bool;           (* trigger flag of the last row delivered *)
  k_last : list Z;        (* per readout word: feedback (flags cleared) of the last frame delivered *)
  k_scale : list float;   (* per readout word: error scale of its feedback channel *)
  k_realigned : bool;     (* the block that reports the loss has been seen *)
  k_lost : bool           (* bytes were released without being delivered and the loss is not reported yet *)
}.

(* a run starts with the frame number [next] and the trigger level [ext] (0 and low for the first run of a
   source object; what the previous run left behind otherwise) *)
Definition start_cst (g : geom) (next : Z) (ext : bool) : cst :=
  {| k_D := 0; k_R := 0; k_fpos := 0; k_next := next; k_ext := ext;
     k_last := map (fun _ => 0) (zrange 0 (nwords g));
     k_scale := map (fun _ => 0%float) (zrange 0 (nwords g));
     k_realigned := false; k_lost := false |}.
Definition init_cst (g : geom) : cst := start_cst g 0 false.

Definition zsum (l : list Z) : Z := fold_right Z.add 0 l.

(* first stream position at or after [pos] that starts a frame of the part after the cut *)
Definition next_boundary (g : geom) (pos ph : Z) : Z := pos + (fsize g - ph) mod fsize g.

(* per readout word: both channels carry the right samples; returns the new cleared feedback values *)
Definition check_words (g : geom) (S : list Z) (start m : Z) (data : list (list Z)) (st : cst) : bool * list Z :=
  fold_right
    (fun w acc =>
       let errs := map (fun j => err_at S (start + j * fsize g) w) (zrange 0 m) in
       let fbs := map (fun j => fb_at S (start + j * fsize g) w) (zrange 0 m) in
       let ok := zlist_eqb (znth [] data (chan_of_word g w 0)) errs &&
                 zlist_eqb (znth [] data (chan_of_word g w 1))
                           (exp_fb (znth 0%float (k_scale st) w) (znth 0 (k_last st) w) fbs errs) in
       (ok && fst acc, mask3 (last fbs 0) :: snd acc))
    (true, []) (zrange 0 (nwords g)).

Definition check_block (c : cfg) (S : list Z) (st : cst) (rels : list Z) (b : block) : option cst :=
  let g := c_g c in
  let fs := fsize g in
  let data := b_data b in
  let m := zlen (znth [] data 0) in
  let shape := (zlen data =? nchan g) && (1 <=? m) && forallb (fun d => zlen d =? m) data in
  (* where the block's first frame lies in the stream, and whether it may lie there *)
  let place :=
    if b_dropped b =? 0 then
      match c_gap c with
      | Some (pos, ph) =>
          if k_realigned st then Some (k_fpos st, true)
          else if negb (k_lost st) && (k_fpos st + m * fs <=? (pos / fs) * fs) then Some (k_fpos st, false) else None
      | None => Some (k_fpos st, false)
      end
    else if 0 <? b_dropped b then
      match c_gap c with
      | Some (pos, ph) =>
          (* the block that reports the loss: it starts on a frame boundary of the part behind the cut, and
             everything between the last delivered frame and that boundary is released with it (the reader may
             give up whole frames around the cut; it may not deliver them wrongly, twice, or stay silent) *)
          let start := k_R st + zsum rels - m * fs in
          if negb (k_realigned st) && (k_fpos st <=? (pos / fs) * fs) && (k_R st <=? start) &&
             (next_boundary g pos ph <=? start) && ((start - next_boundary g pos ph) mod fs =? 0)
          then Some (start, true) else None
      | None => None
      end
    else None in
  match place with
  | None => None
  | Some (start, realigned) =>
      let frames_ok := start + m * fs <=? k_D st in
      let first_ok := if b_dropped b =? 0 then b_first b =? k_next st else k_next st <=? b_first b in
      let '(words_ok, last') := check_words g S start m data st in
      let flags := row_flags g S start m (b_first b) in
      let ext_ok := zlist_eqb (b_ext b) (edges (k_ext st) flags) in
      let R' := k_R st + zsum rels in
      let rel_ok := R' =? start + m * fs in
      if shape && frames_ok && first_ok && words_ok && ext_ok && rel_ok
      then Some {| k_D := k_D st; k_R := R'; k_fpos := start + m * fs; k_next := b_first b + m;
                   k_ext := last_flag (k_ext st) flags; k_last := last'; k_scale := k_scale st;
                   k_realigned := realigned; k_lost := false |}
      else None
  end.

Fixpoint set_scales (g : geom) (nsamp : Z) (chans : list Z) (fracs : list float) (sc : list float) : list float :=
  match chans, fracs with
  | ch :: cr, f :: fr =>
      let p := ch / 2 in                                   (* pixel = col*nrows + row *)
      let w := (p mod nrows g) * ncols g + p / nrows g in   (* its readout word *)
      set_scales g nsamp cr fr
        (map (fun k => if k =? w then (f / z2f nsamp)%float else znth 0%float sc k) (zrange 0 (zlen sc)))
  | _, _ => sc
  end.

Definition mix_chans_valid (g : geom) (chans : list Z) : bool :=
  forallb (fun ch => (0 <=? ch) && (ch <? nchan g) && (ch mod 2 =? 1)) chans.

Definition check_step (c : cfg) (S : list Z) (st : cst) (o : op) (r : opres) : option cst :=
  let g := c_g c in
  match o, r with
  | OChunk bytes _, RTick rels blk =>
      let st1 := {| k_D := k_D st + zlen bytes; k_R := k_R st; k_fpos := k_fpos st; k_next := k_next st;
                    k_ext := k_ext st; k_last := k_last st; k_scale := k_scale st;
                    k_realigned := k_realigned st; k_lost := k_lost st |} in
      let st2 := match blk with
                 | None =>
                     if zlen rels =? 0 then Some st1          (* no block: nothing may be released ... *)
                     else match c_gap c with
                          | Some (pos, ph) =>
                              (* ... except ONCE, by a read that reaches behind the cut: those bytes count as
                                 lost, and the next block must report the loss *)
                              if negb (k_realigned st) && negb (k_lost st) && (pos <? k_D st1) &&
                                 (k_R st + zsum rels <=? k_D st1)
                              then Some {| k_D := k_D st1; k_R := k_R st + zsum rels; k_fpos := k_fpos st;
                                           k_next := k_next st; k_ext := k_ext st; k_last := k_last st;
                                           k_scale := k_scale st; k_realigned := false; k_lost := true |}
                              else None
                          | None => None
                          end
                 | Some b => check_block c S st1 rels b
                 end in
      match st2 with
      | Some s => if k_D s - k_R s <? 3 * fsize g then Some s else None  (* at most 3 frames stay behind *)
      | None => None
      end
  | OMix chans fracs, RMix ok =>
      if Bool.eqb ok (mix_chans_valid g chans) then
        Some (if ok then {| k_D := k_D st; k_R := k_R st; k_fpos := k_fpos st; k_next := k_next st;
                            k_ext := k_ext st; k_last := k_last st;
                            k_scale := set_scales g (c_nsamp c) chans fracs (k_scale st);
                            k_realigned := k_realigned st; k_lost := k_lost st |} else st)
      else None
  | _, _ => None                                           (* a crash, or an answer of the wrong kind *)
  end.

(* a mix request with unequal numbers of channel indices and fractions is malformed: the statement is silent
   about it and about what follows *)
Definition malformed_op (o : op) : bool :=
  match o with OMix chans fracs => negb (zlen fracs =? zlen chans) | OChunk _ _ => false end.

Fixpoint check_from (c : cfg) (S : list Z) (st : cst) (h : list (op * opres)) : bool :=
  match h with
  | [] => true
  | (o, r) :: rest =>
      if malformed_op o then true
      else match check_step c S st o r with
           | Some st' => check_from c S st' rest
           | None => false
           end
  end.

Definition stream_of (ops : list op) : list Z :=
  flat_map (fun o => match o with OChunk b _ => b | OMix _ _ => [] end) ops.

Definition stamps_increasing (ops : list op) : bool :=
  (fix go (prev : Z) (l : list op) : bool :=
     match l with
     | [] => true
     | OChunk _ s :: r => (prev <? s) && go s r
     | OMix _ _ :: r => go prev r
     end) 0 ops.

(* where the checker stands after a history (frame number and trigger level are carried into the next run) *)
Fixpoint check_end (c : cfg) (S : list Z) (st : cst) (h : list (op * opres)) : cst :=
  match h with
  | [] => st
  | (o, r) :: rest =>
      if malformed_op o then st
      else match check_step c S st o r with
           | Some st' => check_end c S st' rest
           | None => st
           end
  end.

(* The history is the list of operations with what each produced (a crash ends it). *)
Definition C04_check_from (c : cfg) (next : Z) (ext : bool) (h : list (op * opres)) : bool :=
  let ops := map fst h in
  let S := stream_of ops in
  if stream_wf c S && stamps_increasing ops then check_from c S (start_cst (c_g c) next ext) h
  else true.                                   (* not a well-formed delivery: the statement is silent *)
Definition C04_check (c : cfg) (h : list (op * opres)) : bool := C04_check_from c 0 false h.
Definition C04_end (c : cfg) (next : Z) (ext : bool) (h : list (op * opres)) : cst :=
  check_end c (stream_of (map fst h)) (start_cst (c_g c) next ext) h.

(* ================================================================================================ *)
(* Prop-level vocabulary for the theorems                                                           *)
(* ================================================================================================ *)

(* the frame-bit pattern of an uninterrupted delivery that starts on a frame boundary *)
Definition frame_bits_wf (g : geom) (S : list Z) : Prop :=
  forall k, 0 <= k -> 4 * k + 2 < zlen S -> bit0 (znth 0 S (4 * k + 2)) = (k mod nwords g <? ncols g).

(* the same for the part of the stream that starts (frame-aligned) at byte o *)
Definition frame_bits_wf_from (g : geom) (S : list Z) (o : Z) : Prop :=
  forall k, 0 <= k -> o + 4 * k + 2 < zlen S ->
    bit0 (znth 0 S (o + 4 * k + 2)) = (k mod nwords g <? ncols g).

(* frame bits of a delivery from which bytes were lost in front of stream byte [pos], both the position and
   the number of lost bytes being multiples of 4: before [pos] the frames are aligned at byte 0, and the
   byte at [pos] lies [ph] bytes into a frame *)
Definition gap_bits_wf (g : geom) (S : list Z) (pos ph : Z) : Prop :=
  forall k, 0 <= k -> 4 * k + 2 < zlen S ->
    bit0 (znth 0 S (4 * k + 2)) =
    if 4 * k <? pos then k mod nwords g <? ncols g
    else (k - pos / 4 + ph / 4) mod nwords g <? ncols g.

(* m whole frames that start at stream byte R, demultiplexed in readout order:
   buffer i (i = 2*word + 0 error / 1 feedback), sample j *)
Definition exact_data (g : geom) (S : list Z) (R m : Z) : list (list Z) :=
  map (fun i => map (fun j => u16_at S (R + j * fsize g + 2 * i)) (zrange 0 m)) (zrange 0 (nchan g)).

(* what an exact reader does with reads of the given sizes: D bytes delivered, R bytes released so far *)
Fixpoint exact_run (g : geom) (S : list Z) (D R : Z) (chunks : list (list Z * Z)) : list tick_res :=
  match chunks with
  | [] => []
  | (c, stamp) :: rest =>
      let D' := D + zlen c in
      if D' - R <? 3 * fsize g
      then {| t_pend := zslice S R (D' - R); t_rels := []; t_out := TSmall |} :: exact_run g S D' R rest
      else
        let m := (D' - R) / fsize g in
        {| t_pend := zslice S (R + m * fsize g) (D' - R - m * fsize g); t_rels := [m * fsize g];
           t_out := TBuf {| bm_data := exact_data g S R m; bm_stamp := stamp; bm_drop := false |} |}
        :: exact_run g S D' (R + m * fsize g) rest
  end.

(* the blocks a history delivered, in order *)
Definition blocks_of (rs : list opres) : list block :=
  flat_map (fun r => match r with RTick _ (Some b) => [b] | _ => [] end) rs.

Definition block_len (b : block) : Z := zlen (znth [] (b_data b) 0).

(* frame numbers never go backwards: every block starts at or after the end of the one before *)
Fixpoint mono_from (n : Z) (bs : list block) : Prop :=
  match bs with
  | [] => True
  | b :: r => n <= b_first b /\ mono_from (b_first b + block_len b) r
  end.

(* the cleared feedback value carried out of a block *)
Definition last_cleared (prev : Z) (fbs : list Z) : Z := fold_left (fun _ f => mask3 f) fbs prev.

(* ---------- the full statement about lost bytes (FALSE of the unchanged reader, see the _refuted theorem) ---------- *)
(* Whatever the position and the length of the loss (in bytes), on a delivery that is well-formed on both sides
   of the cut the system's answers pass the checker: whole frames in front of the cut are delivered in order, then
   - after at most one read released without delivery - a block that reports the loss and starts on a frame
   boundary behind the cut, from where every frame appears exactly once in the right channels; nothing is
   delivered wrongly or twice, frame numbers never go backwards, nothing crashes. *)
Definition realign_after_gap_statement (sys : cfg -> list op -> list opres) : Prop :=
  forall c ops, c_gap c <> None -> stream_wf c (stream_of ops) = true -> stamps_increasing ops = true ->
    C04_check c (combine ops (sys c ops)) = true.
