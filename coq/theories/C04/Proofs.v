(* C04 — invariants, lemmas, proofs. *)
From Coq Require Import ZifyBool ZifyNat.
From Dastard Require Import C04.Base C04.Model C04.Spec.

(* ================================================================================================ *)
(* generic list / Z helpers                                                                          *)
(* ================================================================================================ *)

Lemma zlen_cons {A} (x : A) l : zlen (x :: l) = 1 + zlen l.
Proof. unfold zlen. cbn [length]. lia. Qed.

Lemma zlen_nil {A} : zlen (@nil A) = 0.
Proof. reflexivity. Qed.

Lemma zlen_map {A B} (f : A -> B) l : zlen (map f l) = zlen l.
Proof. unfold zlen. now rewrite map_length. Qed.

Lemma znth_cons_0 {A} (d x : A) l : znth d (x :: l) 0 = x.
Proof. reflexivity. Qed.

Lemma znth_cons_S {A} (d x : A) l i : 0 < i -> znth d (x :: l) i = znth d l (i - 1).
Proof.
  intros Hi. unfold znth. destruct (i <? 0) eqn:E1; [lia|]. destruct (i - 1 <? 0) eqn:E2; [lia|].
  replace (Z.to_nat i) with (S (Z.to_nat (i - 1))) by lia. reflexivity.
Qed.

Lemma znth_map {A B} (f : A -> B) (da : A) (db : B) l i :
  0 <= i < zlen l -> znth db (map f l) i = f (znth da l i).
Proof.
  intros Hi. unfold znth, zlen in *. destruct (i <? 0) eqn:E; [lia|].
  rewrite nth_indep with (d' := f da) by (rewrite map_length; lia). apply map_nth.
Qed.

Lemma znth_zrange a n i : 0 <= i < n -> znth 0 (zrange a n) i = a + i.
Proof.
  intros Hi. unfold znth, zrange. destruct (i <? 0) eqn:E; [lia|].
  rewrite zrange_nat_nth by lia. lia.
Qed.

Lemma zlen_zrange a n : 0 <= n -> zlen (zrange a n) = n.
Proof. intros. rewrite zrange_length. lia. Qed.

Lemma zrange_0 a : zrange a 0 = [].
Proof. reflexivity. Qed.

Lemma zrange_neg a n : n <= 0 -> zrange a n = [].
Proof. intros. unfold zrange. replace (Z.to_nat n) with O by lia. reflexivity. Qed.

Lemma zrange_S a n : 0 <= n -> zrange a (n + 1) = zrange a n ++ [a + n].
Proof.
  intros. rewrite zrange_app by lia. f_equal.
Qed.

Lemma zrange_cons a n : 0 < n -> zrange a n = a :: zrange (a + 1) (n - 1).
Proof.
  intros. unfold zrange. replace (Z.to_nat n) with (S (Z.to_nat (n - 1))) by lia. reflexivity.
Qed.

Lemma in_zrange a n x : In x (zrange a n) <-> a <= x < a + n.
Proof.
  unfold zrange. remember (Z.to_nat n) as k eqn:Hk.
  assert (Hn : n <= 0 /\ k = O \/ 0 < n /\ Z.of_nat k = n) by lia. clear Hk.
  revert a n Hn. induction k as [|k IH]; intros a n Hn; cbn [zrange_nat In].
  - split; [tauto | lia].
  - rewrite (IH (a + 1) (n - 1)) by lia. lia.
Qed.

Lemma znth_app_l {A} (d : A) l1 l2 i : 0 <= i < zlen l1 -> znth d (l1 ++ l2) i = znth d l1 i.
Proof.
  intros Hi. unfold znth, zlen in *. destruct (i <? 0); [reflexivity|]. apply app_nth1. lia.
Qed.

Lemma znth_app_r {A} (d : A) l1 l2 i : zlen l1 <= i -> znth d (l1 ++ l2) i = znth d l2 (i - zlen l1).
Proof.
  intros Hi. unfold znth, zlen in *. destruct (i <? 0) eqn:E1; [lia|].
  destruct (i - Z.of_nat (length l1) <? 0) eqn:E2; [lia|].
  rewrite app_nth2 by lia. f_equal. lia.
Qed.

Lemma zlen_zskipn {A} n (l : list A) : 0 <= n <= zlen l -> zlen (zskipn n l) = zlen l - n.
Proof. intros. unfold zlen, zskipn in *. rewrite skipn_length. lia. Qed.

Lemma zlen_zfirstn {A} n (l : list A) : 0 <= n <= zlen l -> zlen (zfirstn n l) = n.
Proof. intros. unfold zlen, zfirstn in *. rewrite firstn_length. lia. Qed.

Lemma znth_zskipn {A} (d : A) n l i : 0 <= n -> 0 <= i -> znth d (zskipn n l) i = znth d l (n + i).
Proof.
  intros Hn Hi. unfold znth, zskipn. destruct (i <? 0) eqn:E1; [lia|]. destruct (n + i <? 0) eqn:E2; [lia|].
  rewrite nth_skipn_add. f_equal. lia.
Qed.

Lemma znth_zfirstn {A} (d : A) n l i : 0 <= i < n -> znth d (zfirstn n l) i = znth d l i.
Proof.
  intros Hi. unfold znth, zfirstn. destruct (i <? 0) eqn:E1; [lia|]. apply nth_firstn_lt. lia.
Qed.

Lemma zskipn_app_exact {A} (l1 l2 : list A) : zskipn (zlen l1) (l1 ++ l2) = l2.
Proof.
  unfold zskipn, zlen. rewrite Nat2Z.id. rewrite skipn_app, skipn_all, Nat.sub_diag. reflexivity.
Qed.

Lemma zskipn_0 {A} (l : list A) : zskipn 0 l = l.
Proof. reflexivity. Qed.

Lemma skipn_skipn' {A} a b (l : list A) : skipn a (skipn b l) = skipn (b + a) l.
Proof.
  revert l; induction b as [|b IH]; intros l; [reflexivity|].
  destruct l as [|x l]; cbn [skipn Nat.add]; [now destruct a | apply IH].
Qed.

Lemma zskipn_zskipn {A} a b (l : list A) : 0 <= a -> 0 <= b -> zskipn a (zskipn b l) = zskipn (a + b) l.
Proof.
  intros. unfold zskipn. rewrite skipn_skipn'. f_equal. lia.
Qed.

Lemma list_ext_znth {A} (d : A) (l1 l2 : list A) :
  zlen l1 = zlen l2 -> (forall i, 0 <= i < zlen l1 -> znth d l1 i = znth d l2 i) -> l1 = l2.
Proof.
  intros Hl H. apply nth_ext with (d := d) (d' := d).
  - unfold zlen in Hl. lia.
  - intros n Hn. specialize (H (Z.of_nat n)). unfold znth, zlen in H.
    destruct (Z.of_nat n <? 0) eqn:E; [lia|]. rewrite Nat2Z.id in H. apply H. lia.
Qed.

Lemma map_zrange_nat_const {B} (f : Z -> B) (v : B) : forall k a,
  (forall j, a <= j < a + Z.of_nat k -> f j = v) -> map f (zrange_nat a k) = repeat v k.
Proof.
  induction k as [|k IH]; intros a H; cbn [zrange_nat map repeat]; [reflexivity|].
  f_equal; [apply H; lia|]. apply IH. intros; apply H; lia.
Qed.

Lemma map_zrange_const {B} (f : Z -> B) (v : B) a n :
  (forall k, a <= k < a + n -> f k = v) -> map f (zrange a n) = repeat v (Z.to_nat n).
Proof.
  intros H. unfold zrange. apply map_zrange_nat_const. intros; apply H; lia.
Qed.

(* ================================================================================================ *)
(* chan_order_bijection                                                                              *)
(* ================================================================================================ *)

Lemma upd_nth_length {A} (l : list A) n v : length (upd_nth l n v) = length l.
Proof. revert n; induction l as [|x l IH]; intros [|n]; cbn [upd_nth length]; auto. Qed.

Lemma nth_upd_nth_same {A} (d : A) l n v : (n < length l)%nat -> nth n (upd_nth l n v) d = v.
Proof.
  revert n; induction l as [|x l IH]; intros [|n] H; cbn [upd_nth nth length] in *; try lia; auto.
  apply IH. lia.
Qed.

Lemma nth_upd_nth_other {A} (d : A) l n m v : n <> m -> nth m (upd_nth l n v) d = nth m l d.
Proof.
  revert n m; induction l as [|x l IH]; intros [|n] [|m] H; cbn [upd_nth nth]; auto; try lia.
Qed.

(* the table built by writes tbl[f x] := x for x in l, when f is injective on l *)
Lemma fold_upd_spec (f : Z -> Z) (l : list Z) :
  forall (t0 : list Z) x,
    In x l -> NoDup (map f l) -> (0 <= f x < zlen t0) ->
    (forall y, In y l -> 0 <= f y) ->
    znth 0 (fold_left (fun tbl r => upd_nth tbl (Z.to_nat (f r)) r) l t0) (f x) = x.
Proof.
  induction l as [|y l IH]; intros t0 x Hin Hnd Hx Hpos; [destruct Hin|].
  cbn [fold_left]. cbn [map] in Hnd. inversion Hnd as [|? ? Hni Hnd']; subst.
  destruct (in_dec Z.eq_dec x l) as [Hl|Hl].
  - apply IH; auto.
    + unfold zlen in *. rewrite upd_nth_length. lia.
    + intros; apply Hpos; now right.
  - destruct Hin as [->|]; [|contradiction].
    assert (Hkeep : forall (l' : list Z) t,
               ~ In (f x) (map f l') -> (forall y, In y l' -> 0 <= f y) ->
               znth 0 (fold_left (fun tbl r => upd_nth tbl (Z.to_nat (f r)) r) l' t) (f x) = znth 0 t (f x)).
    { induction l' as [|z l' IH']; intros t Hn Hp; [reflexivity|]. cbn [fold_left].
      rewrite IH'.
      - unfold znth. destruct (f x <? 0); [reflexivity|]. apply nth_upd_nth_other.
        cbn [map In] in Hn. specialize (Hp z (or_introl eq_refl)). lia.
      - cbn [map In] in Hn. tauto.
      - intros; apply Hp; now right. }
    rewrite Hkeep; auto.
    + unfold znth. destruct (f x <? 0) eqn:E; [lia|]. apply nth_upd_nth_same. unfold zlen in Hx. lia.
    + intros; apply Hpos; now right.
Qed.

Lemma fold_upd_length (f : Z -> Z) (l : list Z) (t0 : list Z) :
  zlen (fold_left (fun tbl r => upd_nth tbl (Z.to_nat (f r)) r) l t0) = zlen t0.
Proof.
  revert t0; induction l as [|y l IH]; intros t0; cbn [fold_left]; [reflexivity|].
  rewrite IH. unfold zlen. now rewrite upd_nth_length.
Qed.

Section ChanOrder.
  Variable g : geom.
  Hypothesis Hc : 1 <= ncols g.
  Hypothesis Hr : 1 <= nrows g.

  Lemma channum_rc r c e :
    0 <= r < nrows g -> 0 <= c < ncols g -> 0 <= e < 2 ->
    channum g (2 * (r * ncols g + c) + e) = 2 * (c * nrows g + r) + e.
  Proof.
    intros Hr' Hc' He. unfold channum.
    assert (E1 : (2 * (r * ncols g + c) + e) / 2 = r * ncols g + c).
    { symmetry. apply Z.div_unique with (r := e); lia. }
    assert (E2 : (2 * (r * ncols g + c) + e) mod 2 = e).
    { symmetry. apply Z.mod_unique with (q := r * ncols g + c); lia. }
    rewrite E1, E2.
    assert (E3 : (r * ncols g + c) / ncols g = r).
    { symmetry. apply Z.div_unique with (r := c); lia. }
    assert (E4 : (r * ncols g + c) mod ncols g = c).
    { symmetry. apply Z.mod_unique with (q := r); lia. }
    rewrite E3, E4. lia.
  Qed.

  (* every readout index is 2*(r*ncols+c)+e *)
  Lemma readidx_decompose i :
    0 <= i < nchan g ->
    exists r c e, 0 <= r < nrows g /\ 0 <= c < ncols g /\ 0 <= e < 2 /\ i = 2 * (r * ncols g + c) + e.
  Proof.
    intros Hi. unfold nchan, nwords in Hi.
    exists ((i / 2) / ncols g), ((i / 2) mod ncols g), (i mod 2).
    pose proof (Z.div_mod i 2 ltac:(lia)). pose proof (Z.mod_pos_bound i 2 ltac:(lia)).
    pose proof (Z.div_mod (i / 2) (ncols g) ltac:(lia)). pose proof (Z.mod_pos_bound (i / 2) (ncols g) ltac:(lia)).
    assert (0 <= i / 2 < ncols g * nrows g) by (split; [apply Z.div_pos; lia | apply Z.div_lt_upper_bound; lia]).
    assert (0 <= i / 2 / ncols g) by (apply Z.div_pos; lia).
    assert (i / 2 / ncols g < nrows g) by (apply Z.div_lt_upper_bound; lia).
    repeat split; try lia.
  Qed.

  Lemma chan_decompose ch :
    0 <= ch < nchan g ->
    exists r c e, 0 <= r < nrows g /\ 0 <= c < ncols g /\ 0 <= e < 2 /\ ch = 2 * (c * nrows g + r) + e.
  Proof.
    intros Hi. unfold nchan, nwords in Hi.
    exists ((ch / 2) mod nrows g), ((ch / 2) / nrows g), (ch mod 2).
    pose proof (Z.div_mod ch 2 ltac:(lia)). pose proof (Z.mod_pos_bound ch 2 ltac:(lia)).
    pose proof (Z.div_mod (ch / 2) (nrows g) ltac:(lia)). pose proof (Z.mod_pos_bound (ch / 2) (nrows g) ltac:(lia)).
    assert (0 <= ch / 2 < nrows g * ncols g) by (split; [apply Z.div_pos; lia | apply Z.div_lt_upper_bound; lia]).
    assert (0 <= ch / 2 / nrows g) by (apply Z.div_pos; lia).
    assert (ch / 2 / nrows g < ncols g) by (apply Z.div_lt_upper_bound; lia).
    repeat split; try lia.
  Qed.

  Lemma channum_range i : 0 <= i < nchan g -> 0 <= channum g i < nchan g.
  Proof.
    intros Hi. destruct (readidx_decompose i Hi) as (r & c & e & Hr' & Hc' & He & ->).
    rewrite channum_rc by assumption. unfold nchan, nwords. nia.
  Qed.

  Lemma channum_inj i j : 0 <= i < nchan g -> 0 <= j < nchan g -> channum g i = channum g j -> i = j.
  Proof.
    intros Hi Hj E.
    destruct (readidx_decompose i Hi) as (r & c & e & Hr' & Hc' & He & ->).
    destruct (readidx_decompose j Hj) as (r2 & c2 & e2 & Hr2 & Hc2 & He2 & ->).
    rewrite !channum_rc in E by assumption.
    assert (e = e2) by lia. subst e2.
    assert (c * nrows g + r = c2 * nrows g + r2) by lia.
    assert (c = c2) by nia. subst c2. assert (r = r2) by lia. now subst.
  Qed.

  Lemma nodup_map_channum : NoDup (map (channum g) (zrange 0 (nchan g))).
  Proof.
    assert (H : forall a n, 0 <= a -> a + Z.of_nat n <= nchan g -> NoDup (map (channum g) (zrange_nat a n))).
    { intros a n; revert a; induction n as [|n IH]; intros a Ha Hn; cbn [zrange_nat map]; constructor.
      - intros Hin. apply in_map_iff in Hin as (y & Ey & Hy).
        assert (Hy' : In y (zrange (a + 1) (Z.of_nat n))) by (unfold zrange; now rewrite Nat2Z.id).
        apply in_zrange in Hy'. apply channum_inj in Ey; lia.
      - apply IH; lia. }
    unfold zrange. apply H; [lia|]. unfold nchan, nwords. nia.
  Qed.

  Lemma chan2readout_length : zlen (chan2readout g) = nchan g.
  Proof.
    unfold chan2readout. rewrite fold_upd_length, zlen_map, zlen_zrange; [reflexivity|].
    unfold nchan, nwords. nia.
  Qed.

  Lemma chan2readout_rc r c e :
    0 <= r < nrows g -> 0 <= c < ncols g -> 0 <= e < 2 ->
    znth 0 (chan2readout g) (2 * (c * nrows g + r) + e) = 2 * (r * ncols g + c) + e.
  Proof.
    intros Hr' Hc' He. rewrite <- channum_rc by assumption. unfold chan2readout.
    assert (Hin : 0 <= 2 * (r * ncols g + c) + e < nchan g) by (unfold nchan, nwords; nia).
    apply fold_upd_spec.
    - apply in_zrange. lia.
    - apply nodup_map_channum.
    - rewrite zlen_map, zlen_zrange by (unfold nchan, nwords; nia). now apply channum_range.
    - intros y Hy. apply in_zrange in Hy. apply channum_range. lia.
  Qed.
  Lemma chan_order_bijection_proof :
    zlen (chan2readout g) = nchan g /\
    (forall r c e, 0 <= r < nrows g -> 0 <= c < ncols g -> 0 <= e < 2 ->
       znth 0 (chan2readout g) (2 * (c * nrows g + r) + e) = 2 * (r * ncols g + c) + e) /\
    (forall ch, 0 <= ch < nchan g -> 0 <= znth 0 (chan2readout g) ch < nchan g) /\
    (forall ch ch', 0 <= ch < nchan g -> 0 <= ch' < nchan g ->
       znth 0 (chan2readout g) ch = znth 0 (chan2readout g) ch' -> ch = ch') /\
    (forall i, 0 <= i < nchan g -> exists ch, 0 <= ch < nchan g /\ znth 0 (chan2readout g) ch = i).
Proof.
  split; [now apply chan2readout_length|]. split; [intros; now apply chan2readout_rc|].
  split; [|split].
  - intros ch Hch. destruct (chan_decompose ch Hch) as (r & c & e & Hr' & Hc' & He & ->).
    rewrite chan2readout_rc by assumption. unfold nchan, nwords. nia.
  - intros ch ch' Hch Hch' E.
    destruct (chan_decompose ch Hch) as (r & c & e & Hr' & Hc' & He & ->).
    destruct (chan_decompose ch' Hch') as (r2 & c2 & e2 & Hr2 & Hc2 & He2 & ->).
    rewrite !chan2readout_rc in E by assumption.
    assert (e = e2) by lia. subst e2. assert (r * ncols g + c = r2 * ncols g + c2) by lia.
    assert (r = r2) by nia. subst r2. assert (c = c2) by lia. now subst.
  - intros i Hi. destruct (readidx_decompose i Hi) as (r & c & e & Hr' & Hc' & He & ->).
    exists (2 * (c * nrows g + r) + e). split; [unfold nchan, nwords; nia|]. now apply chan2readout_rc.
  Qed.
End ChanOrder.
