(* C04 — invariants, lemmas, proofs. *)
From Coq Require Import ZifyBool ZifyNat.
From Dastard Require Import C04.Base C04.Model C04.Spec.

(* ================================================================================================ *)
(* generic list / Z helpers                                                                          *)
(* ================================================================================================ *)

Lemma zlen_cons {A} (x : A) l : zlen (x :: l) = 1 + zlen l.
Proof. unfold zlen. cbn [length]. lia. Qed.

Lemma zlen_nil {A} : zlen (@nil A) = 0.
Proof. reflexivity. Qed.

Lemma zlen_map {A B} (f : A -> B) l : zlen (map f l) = zlen l.
Proof. unfold zlen. now rewrite map_length. Qed.

Lemma znth_cons_0 {A} (d x : A) l : znth d (x :: l) 0 = x.
Proof. reflexivity. Qed.

Lemma znth_cons_S {A} (d x : A) l i : 0 < i -> znth d (x :: l) i = znth d l (i - 1).
Proof.
  intros Hi. unfold znth. destruct (i <? 0) eqn:E1; [lia|]. destruct (i - 1 <? 0) eqn:E2; [lia|].
  replace (Z.to_nat i) with (S (Z.to_nat (i - 1))) by lia. reflexivity.
Qed.

Lemma znth_map {A B} (f : A -> B) (da : A) (db : B) l i :
  0 <= i < zlen l -> znth db (map f l) i = f (znth da l i).
Proof.
  intros Hi. unfold znth, zlen in *. destruct (i <? 0) eqn:E; [lia|].
  rewrite nth_indep with (d' := f da) by (rewrite map_length; lia). apply map_nth.
Qed.

Lemma znth_zrange a n i : 0 <= i < n -> znth 0 (zrange a n) i = a + i.
Proof.
  intros Hi. unfold znth, zrange. destruct (i <? 0) eqn:E; [lia|].
  rewrite zrange_nat_nth by lia. lia.
Qed.

Lemma zlen_zrange a n : 0 <= n -> zlen (zrange a n) = n.
Proof. intros. rewrite zrange_length. lia. Qed.

Lemma zrange_0 a : zrange a 0 = [].
Proof. reflexivity. Qed.

Lemma zrange_neg a n : n <= 0 -> zrange a n = [].
Proof. intros. unfold zrange. replace (Z.to_nat n) with O by lia. reflexivity. Qed.

Lemma zrange_S a n : 0 <= n -> zrange a (n + 1) = zrange a n ++ [a + n].
Proof.
  intros. rewrite zrange_app by lia. f_equal.
Qed.

Lemma zrange_cons a n : 0 < n -> zrange a n = a :: zrange (a + 1) (n - 1).
Proof.
  intros. unfold zrange. replace (Z.to_nat n) with (S (Z.to_nat (n - 1))) by lia. reflexivity.
Qed.

Lemma in_zrange a n x : In x (zrange a n) <-> a <= x < a + n.
Proof.
  unfold zrange. remember (Z.to_nat n) as k eqn:Hk.
  assert (Hn : n <= 0 /\ k = O \/ 0 < n /\ Z.of_nat k = n) by lia. clear Hk.
  revert a n Hn. induction k as [|k IH]; intros a n Hn; cbn [zrange_nat In].
  - split; [tauto | lia].
  - rewrite (IH (a + 1) (n - 1)) by lia. lia.
Qed.

Lemma znth_app_l {A} (d : A) l1 l2 i : 0 <= i < zlen l1 -> znth d (l1 ++ l2) i = znth d l1 i.
Proof.
  intros Hi. unfold znth, zlen in *. destruct (i <? 0); [reflexivity|]. apply app_nth1. lia.
Qed.

Lemma znth_app_r {A} (d : A) l1 l2 i : zlen l1 <= i -> znth d (l1 ++ l2) i = znth d l2 (i - zlen l1).
Proof.
  intros Hi. unfold znth, zlen in *. destruct (i <? 0) eqn:E1; [lia|].
  destruct (i - Z.of_nat (length l1) <? 0) eqn:E2; [lia|].
  rewrite app_nth2 by lia. f_equal. lia.
Qed.

Lemma zlen_zskipn {A} n (l : list A) : 0 <= n <= zlen l -> zlen (zskipn n l) = zlen l - n.
Proof. intros. unfold zlen, zskipn in *. rewrite skipn_length. lia. Qed.

Lemma zlen_zfirstn {A} n (l : list A) : 0 <= n <= zlen l -> zlen (zfirstn n l) = n.
Proof. intros. unfold zlen, zfirstn in *. rewrite firstn_length. lia. Qed.

Lemma znth_zskipn {A} (d : A) n l i : 0 <= n -> 0 <= i -> znth d (zskipn n l) i = znth d l (n + i).
Proof.
  intros Hn Hi. unfold znth, zskipn. destruct (i <? 0) eqn:E1; [lia|]. destruct (n + i <? 0) eqn:E2; [lia|].
  rewrite nth_skipn_add. f_equal. lia.
Qed.

Lemma znth_zfirstn {A} (d : A) n l i : 0 <= i < n -> znth d (zfirstn n l) i = znth d l i.
Proof.
  intros Hi. unfold znth, zfirstn. destruct (i <? 0) eqn:E1; [lia|]. apply nth_firstn_lt. lia.
Qed.

Lemma zskipn_app_exact {A} (l1 l2 : list A) : zskipn (zlen l1) (l1 ++ l2) = l2.
Proof.
  unfold zskipn, zlen. rewrite Nat2Z.id. rewrite skipn_app, skipn_all, Nat.sub_diag. reflexivity.
Qed.

Lemma zskipn_0 {A} (l : list A) : zskipn 0 l = l.
Proof. reflexivity. Qed.

Lemma skipn_skipn' {A} a b (l : list A) : skipn a (skipn b l) = skipn (b + a) l.
Proof.
  revert l; induction b as [|b IH]; intros l; [reflexivity|].
  destruct l as [|x l]; cbn [skipn Nat.add]; [now destruct a | apply IH].
Qed.

Lemma zskipn_zskipn {A} a b (l : list A) : 0 <= a -> 0 <= b -> zskipn a (zskipn b l) = zskipn (a + b) l.
Proof.
  intros. unfold zskipn. rewrite skipn_skipn'. f_equal. lia.
Qed.

Lemma list_ext_znth {A} (d : A) (l1 l2 : list A) :
  zlen l1 = zlen l2 -> (forall i, 0 <= i < zlen l1 -> znth d l1 i = znth d l2 i) -> l1 = l2.
Proof.
  intros Hl H. apply nth_ext with (d := d) (d' := d).
  - unfold zlen in Hl. lia.
  - intros n Hn. specialize (H (Z.of_nat n)). unfold znth, zlen in H.
    destruct (Z.of_nat n <? 0) eqn:E; [lia|]. rewrite Nat2Z.id in H. apply H. lia.
Qed.

Lemma map_zrange_nat_const {B} (f : Z -> B) (v : B) : forall k a,
  (forall j, a <= j < a + Z.of_nat k -> f j = v) -> map f (zrange_nat a k) = repeat v k.
Proof.
  induction k as [|k IH]; intros a H; cbn [zrange_nat map repeat]; [reflexivity|].
  f_equal; [apply H; lia|]. apply IH. intros; apply H; lia.
Qed.

Lemma map_zrange_const {B} (f : Z -> B) (v : B) a n :
  (forall k, a <= k < a + n -> f k = v) -> map f (zrange a n) = repeat v (Z.to_nat n).
Proof.
  intros H. unfold zrange. apply map_zrange_nat_const. intros; apply H; lia.
Qed.

(* ================================================================================================ *)
(* chan_order_bijection                                                                              *)
(* ================================================================================================ *)

Lemma upd_nth_length {A} (l : list A) n v : length (upd_nth l n v) = length l.
Proof. revert n; induction l as [|x l IH]; intros [|n]; cbn [upd_nth length]; auto. Qed.

Lemma nth_upd_nth_same {A} (d : A) l n v : (n < length l)%nat -> nth n (upd_nth l n v) d = v.
Proof.
  revert n; induction l as [|x l IH]; intros [|n] H; cbn [upd_nth nth length] in *; try lia; auto.
  apply IH. lia.
Qed.

Lemma nth_upd_nth_other {A} (d : A) l n m v : n <> m -> nth m (upd_nth l n v) d = nth m l d.
Proof.
  revert n m; induction l as [|x l IH]; intros [|n] [|m] H; cbn [upd_nth nth]; auto; try lia.
Qed.

(* the table built by writes tbl[f x] := x for x in l, when f is injective on l *)
Lemma fold_upd_spec (f : Z -> Z) (l : list Z) :
  forall (t0 : list Z) x,
    In x l -> NoDup (map f l) -> (0 <= f x < zlen t0) ->
    (forall y, In y l -> 0 <= f y) ->
    znth 0 (fold_left (fun tbl r => upd_nth tbl (Z.to_nat (f r)) r) l t0) (f x) = x.
Proof.
  induction l as [|y l IH]; intros t0 x Hin Hnd Hx Hpos; [destruct Hin|].
  cbn [fold_left]. cbn [map] in Hnd. inversion Hnd as [|? ? Hni Hnd']; subst.
  destruct (in_dec Z.eq_dec x l) as [Hl|Hl].
  - apply IH; auto.
    + unfold zlen in *. rewrite upd_nth_length. lia.
    + intros; apply Hpos; now right.
  - destruct Hin as [->|]; [|contradiction].
    assert (Hkeep : forall (l' : list Z) t,
               ~ In (f x) (map f l') -> (forall y, In y l' -> 0 <= f y) ->
               znth 0 (fold_left (fun tbl r => upd_nth tbl (Z.to_nat (f r)) r) l' t) (f x) = znth 0 t (f x)).
    { induction l' as [|z l' IH']; intros t Hn Hp; [reflexivity|]. cbn [fold_left].
      rewrite IH'.
      - unfold znth. destruct (f x <? 0); [reflexivity|]. apply nth_upd_nth_other.
        cbn [map In] in Hn. specialize (Hp z (or_introl eq_refl)). lia.
      - cbn [map In] in Hn. tauto.
      - intros; apply Hp; now right. }
    rewrite Hkeep; auto.
    + unfold znth. destruct (f x <? 0) eqn:E; [lia|]. apply nth_upd_nth_same. unfold zlen in Hx. lia.
    + intros; apply Hpos; now right.
Qed.

Lemma fold_upd_length (f : Z -> Z) (l : list Z) (t0 : list Z) :
  zlen (fold_left (fun tbl r => upd_nth tbl (Z.to_nat (f r)) r) l t0) = zlen t0.
Proof.
  revert t0; induction l as [|y l IH]; intros t0; cbn [fold_left]; [reflexivity|].
  rewrite IH. unfold zlen. now rewrite upd_nth_length.
Qed.

Section ChanOrder.
  Variable g : geom.
  Hypothesis Hc : 1 <= ncols g.
  Hypothesis Hr : 1 <= nrows g.

  Lemma channum_rc r c e :
    0 <= r < nrows g -> 0 <= c < ncols g -> 0 <= e < 2 ->
    channum g (2 * (r * ncols g + c) + e) = 2 * (c * nrows g + r) + e.
  Proof.
    intros Hr' Hc' He. unfold channum.
    assert (E1 : (2 * (r * ncols g + c) + e) / 2 = r * ncols g + c).
    { symmetry. apply Z.div_unique with (r := e); lia. }
    assert (E2 : (2 * (r * ncols g + c) + e) mod 2 = e).
    { symmetry. apply Z.mod_unique with (q := r * ncols g + c); lia. }
    rewrite E1, E2.
    assert (E3 : (r * ncols g + c) / ncols g = r).
    { symmetry. apply Z.div_unique with (r := c); lia. }
    assert (E4 : (r * ncols g + c) mod ncols g = c).
    { symmetry. apply Z.mod_unique with (q := r); lia. }
    rewrite E3, E4. lia.
  Qed.

  (* every readout index is 2*(r*ncols+c)+e *)
  Lemma readidx_decompose i :
    0 <= i < nchan g ->
    exists r c e, 0 <= r < nrows g /\ 0 <= c < ncols g /\ 0 <= e < 2 /\ i = 2 * (r * ncols g + c) + e.
  Proof.
    intros Hi. unfold nchan, nwords in Hi.
    exists ((i / 2) / ncols g), ((i / 2) mod ncols g), (i mod 2).
    pose proof (Z.div_mod i 2 ltac:(lia)). pose proof (Z.mod_pos_bound i 2 ltac:(lia)).
    pose proof (Z.div_mod (i / 2) (ncols g) ltac:(lia)). pose proof (Z.mod_pos_bound (i / 2) (ncols g) ltac:(lia)).
    assert (0 <= i / 2 < ncols g * nrows g) by (split; [apply Z.div_pos; lia | apply Z.div_lt_upper_bound; lia]).
    assert (0 <= i / 2 / ncols g) by (apply Z.div_pos; lia).
    assert (i / 2 / ncols g < nrows g) by (apply Z.div_lt_upper_bound; lia).
    repeat split; try lia.
  Qed.

  Lemma chan_decompose ch :
    0 <= ch < nchan g ->
    exists r c e, 0 <= r < nrows g /\ 0 <= c < ncols g /\ 0 <= e < 2 /\ ch = 2 * (c * nrows g + r) + e.
  Proof.
    intros Hi. unfold nchan, nwords in Hi.
    exists ((ch / 2) mod nrows g), ((ch / 2) / nrows g), (ch mod 2).
    pose proof (Z.div_mod ch 2 ltac:(lia)). pose proof (Z.mod_pos_bound ch 2 ltac:(lia)).
    pose proof (Z.div_mod (ch / 2) (nrows g) ltac:(lia)). pose proof (Z.mod_pos_bound (ch / 2) (nrows g) ltac:(lia)).
    assert (0 <= ch / 2 < nrows g * ncols g) by (split; [apply Z.div_pos; lia | apply Z.div_lt_upper_bound; lia]).
    assert (0 <= ch / 2 / nrows g) by (apply Z.div_pos; lia).
    assert (ch / 2 / nrows g < ncols g) by (apply Z.div_lt_upper_bound; lia).
    repeat split; try lia.
  Qed.

  Lemma channum_range i : 0 <= i < nchan g -> 0 <= channum g i < nchan g.
  Proof.
    intros Hi. destruct (readidx_decompose i Hi) as (r & c & e & Hr' & Hc' & He & ->).
    rewrite channum_rc by assumption. unfold nchan, nwords. nia.
  Qed.

  Lemma channum_inj i j : 0 <= i < nchan g -> 0 <= j < nchan g -> channum g i = channum g j -> i = j.
  Proof.
    intros Hi Hj E.
    destruct (readidx_decompose i Hi) as (r & c & e & Hr' & Hc' & He & ->).
    destruct (readidx_decompose j Hj) as (r2 & c2 & e2 & Hr2 & Hc2 & He2 & ->).
    rewrite !channum_rc in E by assumption.
    assert (e = e2) by lia. subst e2.
    assert (c * nrows g + r = c2 * nrows g + r2) by lia.
    assert (c = c2) by nia. subst c2. assert (r = r2) by lia. now subst.
  Qed.

  Lemma nodup_map_channum : NoDup (map (channum g) (zrange 0 (nchan g))).
  Proof.
    assert (H : forall a n, 0 <= a -> a + Z.of_nat n <= nchan g -> NoDup (map (channum g) (zrange_nat a n))).
    { intros a n; revert a; induction n as [|n IH]; intros a Ha Hn; cbn [zrange_nat map]; constructor.
      - intros Hin. apply in_map_iff in Hin as (y & Ey & Hy).
        assert (Hy' : In y (zrange (a + 1) (Z.of_nat n))) by (unfold zrange; now rewrite Nat2Z.id).
        apply in_zrange in Hy'. apply channum_inj in Ey; lia.
      - apply IH; lia. }
    unfold zrange. apply H; [lia|]. unfold nchan, nwords. nia.
  Qed.

  Lemma chan2readout_length : zlen (chan2readout g) = nchan g.
  Proof.
    unfold chan2readout. rewrite fold_upd_length, zlen_map, zlen_zrange; [reflexivity|].
    unfold nchan, nwords. nia.
  Qed.

  Lemma chan2readout_rc r c e :
    0 <= r < nrows g -> 0 <= c < ncols g -> 0 <= e < 2 ->
    znth 0 (chan2readout g) (2 * (c * nrows g + r) + e) = 2 * (r * ncols g + c) + e.
  Proof.
    intros Hr' Hc' He. rewrite <- channum_rc by assumption. unfold chan2readout.
    assert (Hin : 0 <= 2 * (r * ncols g + c) + e < nchan g) by (unfold nchan, nwords; nia).
    apply fold_upd_spec.
    - apply in_zrange. lia.
    - apply nodup_map_channum.
    - rewrite zlen_map, zlen_zrange by (unfold nchan, nwords; nia). now apply channum_range.
    - intros y Hy. apply in_zrange in Hy. apply channum_range. lia.
  Qed.
  Lemma chan_order_bijection_proof :
    zlen (chan2readout g) = nchan g /\
    (forall r c e, 0 <= r < nrows g -> 0 <= c < ncols g -> 0 <= e < 2 ->
       znth 0 (chan2readout g) (2 * (c * nrows g + r) + e) = 2 * (r * ncols g + c) + e) /\
    (forall ch, 0 <= ch < nchan g -> 0 <= znth 0 (chan2readout g) ch < nchan g) /\
    (forall ch ch', 0 <= ch < nchan g -> 0 <= ch' < nchan g ->
       znth 0 (chan2readout g) ch = znth 0 (chan2readout g) ch' -> ch = ch') /\
    (forall i, 0 <= i < nchan g -> exists ch, 0 <= ch < nchan g /\ znth 0 (chan2readout g) ch = i).
Proof.
  split; [now apply chan2readout_length|]. split; [intros; now apply chan2readout_rc|].
  split; [|split].
  - intros ch Hch. destruct (chan_decompose ch Hch) as (r & c & e & Hr' & Hc' & He & ->).
    rewrite chan2readout_rc by assumption. unfold nchan, nwords. nia.
  - intros ch ch' Hch Hch' E.
    destruct (chan_decompose ch Hch) as (r & c & e & Hr' & Hc' & He & ->).
    destruct (chan_decompose ch' Hch') as (r2 & c2 & e2 & Hr2 & Hc2 & He2 & ->).
    rewrite !chan2readout_rc in E by assumption.
    assert (e = e2) by lia. subst e2. assert (r * ncols g + c = r2 * ncols g + c2) by lia.
    assert (r = r2) by nia. subst r2. assert (c = c2) by lia. now subst.
  - intros i Hi. destruct (readidx_decompose i Hi) as (r & c & e & Hr' & Hc' & He & ->).
    exists (2 * (c * nrows g + r) + e). split; [unfold nchan, nwords; nia|]. now apply chan2readout_rc.
  Qed.
End ChanOrder.

(* ================================================================================================ *)
(* FindFrameBits on a well-formed buffer                                                             *)
(* ================================================================================================ *)

Lemma stride4_spec_aux : forall n (l : list Z), (length l <= n)%nat ->
  stride4 l = map (fun j => znth 0 l (4 * j)) (zrange 0 ((zlen l + 3) / 4)).
Proof.
  induction n as [|n IH]; intros l Hl.
  - destruct l; [reflexivity | cbn [length] in Hl; lia].
  - destruct l as [|a [|b [|c [|d r]]]]; try reflexivity.
    cbn [stride4]. rewrite (IH r) by (cbn [length] in Hl; lia).
    assert (E : (zlen (a :: b :: c :: d :: r) + 3) / 4 = (zlen r + 3) / 4 + 1).
    { rewrite !zlen_cons. replace (1 + (1 + (1 + (1 + zlen r))) + 3) with (zlen r + 3 + 1 * 4) by lia.
      now rewrite Z.div_add by lia. }
    rewrite E.
    assert (Hk : 0 <= (zlen r + 3) / 4) by (apply Z.div_pos; pose proof (zlen_nonneg r); lia).
    rewrite (zrange_cons 0 ((zlen r + 3) / 4 + 1)) by lia. cbn [map]. f_equal.
    replace ((zlen r + 3) / 4 + 1 - 1) with ((zlen r + 3) / 4) by lia.
    apply map_zrange_ext. intros k Hk'.
    rewrite znth_cons_S by lia. rewrite znth_cons_S by lia. rewrite znth_cons_S by lia. rewrite znth_cons_S by lia.
    f_equal. lia.
Qed.

Lemma stride4_spec (l : list Z) :
  stride4 l = map (fun j => znth 0 l (4 * j)) (zrange 0 ((zlen l + 3) / 4)).
Proof. apply stride4_spec_aux with (n := length l). lia. Qed.

(* the loops only look at frame bits *)
Fixpoint loop1b (seen prev : bool) (i : Z) (l : list bool) : Z :=
  match l with
  | [] => 0
  | x :: r =>
      if seen then
        if prev && negb x then loop1b seen true (i + 4) r
        else if negb prev && x then i
        else loop1b seen prev (i + 4) r
      else loop1b (negb x) prev (i + 4) r
  end.
Fixpoint loop2b (l : list bool) : Z :=
  match l with [] => 0 | x :: r => if x then 1 + loop2b r else 0 end.
Fixpoint loop3b (prev : bool) (i : Z) (l : list bool) : option Z :=
  match l with
  | [] => None
  | x :: r =>
      if prev && negb x then loop3b false (i + 4) r
      else if negb prev && x then Some i
      else loop3b prev (i + 4) r
  end.

Lemma ffb_loop1_bits l : forall seen prev i, ffb_loop1 seen prev i l = loop1b seen prev i (map fbit l).
Proof. induction l as [|x l IH]; intros; cbn [ffb_loop1 loop1b map]; [reflexivity|]. now rewrite !IH. Qed.
Lemma ffb_loop2_bits l : ffb_loop2 l = loop2b (map fbit l).
Proof. induction l as [|x l IH]; cbn [ffb_loop2 loop2b map]; [reflexivity|]. now rewrite IH. Qed.
Lemma ffb_loop3_bits l : forall prev i, ffb_loop3 prev i l = loop3b prev i (map fbit l).
Proof. induction l as [|x l IH]; intros; cbn [ffb_loop3 loop3b map]; [reflexivity|]. now rewrite !IH. Qed.

Lemma loop1b_unseen_true a : forall i rest,
  loop1b false false i (repeat true a ++ rest) = loop1b false false (i + 4 * Z.of_nat a) rest.
Proof.
  induction a as [|a IH]; intros i rest; cbn [repeat app loop1b negb].
  - f_equal. lia.
  - rewrite IH. f_equal. lia.
Qed.
Lemma loop1b_seen_false a : forall i rest,
  loop1b true false i (repeat false a ++ rest) = loop1b true false (i + 4 * Z.of_nat a) rest.
Proof.
  induction a as [|a IH]; intros i rest; cbn [repeat app loop1b negb andb].
  - f_equal. lia.
  - rewrite IH. f_equal. lia.
Qed.
Lemma loop2b_true a rest : loop2b (repeat true a ++ false :: rest) = Z.of_nat a.
Proof. induction a as [|a IH]; cbn [repeat app loop2b]; [reflexivity|]. rewrite IH. lia. Qed.
Lemma loop3b_false a : forall i rest,
  loop3b false i (repeat false a ++ true :: rest) = Some (i + 4 * Z.of_nat a).
Proof.
  induction a as [|a IH]; intros i rest; cbn [repeat app loop3b negb andb].
  - f_equal. lia.
  - rewrite IH. f_equal. lia.
Qed.

Section FrameBits.
  Variable g : geom.
  Hypothesis Hc : 1 <= ncols g.
  Hypothesis Hr : 2 <= nrows g.
  Let W := nwords g.

  Lemma W_bounds : 2 * ncols g <= W /\ 2 <= W.
  Proof. unfold W, nwords. nia. Qed.

  (* frame-bit pattern of a well-formed stream: set exactly in the first ncols words of every frame *)
  Definition fpat (k : Z) : bool := k mod W <? ncols g.

  (* [b] starts [ph] words into a frame *)
  Definition phase_wf (ph : Z) (b : list Z) : Prop :=
    forall k, 0 <= k -> 4 * k + 2 < zlen b -> fbit (znth 0 b (4 * k + 2)) = fpat (k + ph).

  Lemma bits_from ph b k :
    phase_wf ph b -> 0 <= k -> 4 * k + 2 <= zlen b ->
    map fbit (stride4 (zskipn (4 * k + 2) b)) = map (fun j => fpat (j + ph)) (zrange k ((zlen b + 1) / 4 - k)).
  Proof.
    intros Hwf Hk Hl. rewrite stride4_spec, map_map.
    rewrite zlen_zskipn by lia.
    assert (E : (zlen b - (4 * k + 2) + 3) / 4 = (zlen b + 1) / 4 - k).
    { replace (zlen b - (4 * k + 2) + 3) with (zlen b + 1 + (- k) * 4) by lia.
      rewrite Z.div_add by lia. lia. }
    rewrite E. apply map_zrange_ext. intros j Hj.
    rewrite znth_zskipn by lia.
    replace (4 * k + 2 + 4 * (0 + j)) with (4 * (k + j) + 2) by lia.
    rewrite Hwf; [reflexivity | lia |].
    assert (4 * ((zlen b + 1) / 4) <= zlen b + 1) by (apply Z.mul_div_le; lia). lia.
  Qed.

  Lemma fpat_row0 k : 0 <= k < ncols g -> forall f, 0 <= f -> fpat (f * W + k) = true.
  Proof.
    intros Hk f Hf. unfold fpat. pose proof W_bounds.
    replace ((f * W + k) mod W) with k; [lia|].
    apply Z.mod_unique with (q := f); lia.
  Qed.
  Lemma fpat_rest k : ncols g <= k < W -> forall f, 0 <= f -> fpat (f * W + k) = false.
  Proof.
    intros Hk f Hf. unfold fpat.
    replace ((f * W + k) mod W) with k; [lia|].
    apply Z.mod_unique with (q := f); lia.
  Qed.

  (* an aligned, well-formed buffer with at least 2W+1 visible words: q = W, n = ncols, p = 2W *)
  Lemma ffb_aligned b :
    phase_wf 0 b -> 2 * W + 1 <= (zlen b + 1) / 4 ->
    find_frame_bits b = (W, 2 * W, ncols g, true).
  Proof.
    intros Hwf Hcnt. pose proof W_bounds as HW.
    assert (HL : 4 * (2 * W + 1) <= zlen b + 1).
    { assert (4 * ((zlen b + 1) / 4) <= zlen b + 1) by (apply Z.mul_div_le; lia). lia. }
    set (cnt := (zlen b + 1) / 4) in *.
    unfold find_frame_bits.
    (* loop 1 *)
    assert (Eq : ffb_loop1 false false 2 (stride4 (zskipn 2 b)) = 4 * W + 2).
    { rewrite ffb_loop1_bits. change 2 with (4 * 0 + 2) at 2. rewrite (bits_from 0 b 0 Hwf) by lia.
      fold cnt. replace (cnt - 0) with (ncols g + ((W - ncols g) + (1 + (cnt - W - 1)))) by lia.
      rewrite zrange_app, map_app by lia. rewrite zrange_app, map_app by lia. rewrite zrange_app, map_app by lia.
      rewrite (map_zrange_const _ true 0 (ncols g)).
      2:{ intros k Hk. replace (k + 0) with (0 * W + k) by lia. apply fpat_row0; lia. }
      rewrite (map_zrange_const _ false (0 + ncols g) (W - ncols g)).
      2:{ intros k Hk. replace (k + 0) with (0 * W + k) by lia. apply fpat_rest; lia. }
      rewrite loop1b_unseen_true.
      destruct (Z.to_nat (W - ncols g)) as [|a] eqn:Ea; [lia|].
      cbn [repeat app loop1b negb]. rewrite loop1b_seen_false.
      replace (zrange (0 + ncols g + (W - ncols g)) 1) with [W] by (replace (0 + ncols g + (W - ncols g)) with W by lia; reflexivity).
      cbn [map app loop1b]. replace (W + 0) with (1 * W + 0) by lia. rewrite fpat_row0 by lia.
      cbn [negb andb]. lia. }
    rewrite Eq.
    (* loop 2 *)
    assert (En : ffb_loop2 (stride4 (zskipn (4 * W + 2) b)) = ncols g).
    { rewrite ffb_loop2_bits. rewrite (bits_from 0 b W Hwf) by lia. fold cnt.
      replace (cnt - W) with (ncols g + (1 + (cnt - W - ncols g - 1))) by lia.
      rewrite zrange_app, map_app by lia. rewrite zrange_app, map_app by lia.
      rewrite (map_zrange_const _ true W (ncols g)).
      2:{ intros k Hk. replace (k + 0) with (1 * W + (k - W)) by lia. apply fpat_row0; lia. }
      replace (zrange (W + ncols g) 1) with [W + ncols g] by reflexivity.
      cbn [map app]. replace (W + ncols g + 0) with (1 * W + ncols g) by lia. rewrite fpat_rest by lia.
      rewrite loop2b_true. lia. }
    rewrite En. destruct (ncols g <? 1) eqn:E1; [lia|].
    (* loop 3 *)
    assert (Ep : ffb_loop3 true (4 * W + 2 + 4 * ncols g) (stride4 (zskipn (4 * W + 2 + 4 * ncols g) b))
                 = Some (8 * W + 2)).
    { rewrite ffb_loop3_bits. replace (4 * W + 2 + 4 * ncols g) with (4 * (W + ncols g) + 2) by lia.
      rewrite (bits_from 0 b (W + ncols g) Hwf) by lia. fold cnt.
      replace (cnt - (W + ncols g)) with ((W - ncols g) + (1 + (cnt - 2 * W - 1))) by lia.
      rewrite zrange_app, map_app by lia. rewrite zrange_app, map_app by lia.
      rewrite (map_zrange_const _ false (W + ncols g) (W - ncols g)).
      2:{ intros k Hk. replace (k + 0) with (1 * W + (k - W)) by lia. apply fpat_rest; lia. }
      replace (zrange (W + ncols g + (W - ncols g)) 1) with [2 * W]
        by (replace (W + ncols g + (W - ncols g)) with (2 * W) by lia; reflexivity).
      cbn [map app]. replace (2 * W + 0) with (2 * W + 0) by lia.
      assert (Ef : fpat (2 * W + 0) = true) by (apply fpat_row0; lia). rewrite Ef.
      destruct (Z.to_nat (W - ncols g)) as [|a] eqn:Ea; [lia|].
      cbn [repeat app loop3b negb andb]. rewrite loop3b_false. f_equal. lia. }
    rewrite Ep.
    replace ((4 * W + 2) / 4) with W
      by (replace (4 * W + 2) with (2 + W * 4) by lia; rewrite Z.div_add by lia; reflexivity).
    replace ((8 * W + 2) / 4) with (2 * W)
      by (replace (8 * W + 2) with (2 + (2 * W) * 4) by lia; rewrite Z.div_add by lia; reflexivity).
    reflexivity.
  Qed.
End FrameBits.

(* ================================================================================================ *)
(* slices, 16-bit words                                                                              *)
(* ================================================================================================ *)

Lemma zlen_zslice {A} (l : list A) a n : 0 <= a -> 0 <= n -> a + n <= zlen l -> zlen (zslice l a n) = n.
Proof. intros. unfold zslice. rewrite zlen_zfirstn; [reflexivity|]. rewrite zlen_zskipn; lia. Qed.

Lemma znth_zslice {A} (d : A) l a n i : 0 <= a -> 0 <= i < n -> znth d (zslice l a n) i = znth d l (a + i).
Proof. intros. unfold zslice. rewrite znth_zfirstn by lia. apply znth_zskipn; lia. Qed.

Lemma zslice_app_split {A} (l : list A) a n1 n2 :
  0 <= a -> 0 <= n1 -> 0 <= n2 -> a + n1 + n2 <= zlen l ->
  zslice l a (n1 + n2) = zslice l a n1 ++ zslice l (a + n1) n2.
Proof.
  intros. destruct l as [|d0 l'] eqn:El.
  { unfold zlen in *; cbn [length] in *. assert (n1 = 0 /\ n2 = 0 /\ a = 0) as (-> & -> & ->) by lia. reflexivity. }
  rewrite <- El in *. clear El l'.
  apply (list_ext_znth d0).
  - rewrite zlen_app, !zlen_zslice by lia. lia.
  - intros i Hi. rewrite zlen_zslice in Hi by lia. rewrite znth_zslice by lia.
    destruct (Z_lt_ge_dec i n1).
    + rewrite znth_app_l by (rewrite zlen_zslice; lia). now rewrite znth_zslice by lia.
    + rewrite znth_app_r by (rewrite zlen_zslice; lia). rewrite zlen_zslice by lia.
      rewrite znth_zslice by lia. f_equal. lia.
Qed.

Lemma zskipn_zslice {A} (l : list A) a n k :
  0 <= a -> 0 <= k <= n -> a + n <= zlen l -> zskipn k (zslice l a n) = zslice l (a + k) (n - k).
Proof.
  intros. destruct l as [|d0 l'] eqn:El.
  { unfold zlen in *; cbn [length] in *. assert (n = 0 /\ k = 0 /\ a = 0) as (-> & -> & ->) by lia. reflexivity. }
  rewrite <- El in *. clear El l'.
  apply (list_ext_znth d0).
  - rewrite zlen_zskipn by (rewrite zlen_zslice; lia). rewrite !zlen_zslice by lia. reflexivity.
  - intros i Hi. rewrite zlen_zskipn in Hi by (rewrite zlen_zslice; lia). rewrite zlen_zslice in Hi by lia.
    rewrite znth_zskipn by lia. rewrite !znth_zslice by lia. f_equal. lia.
Qed.

Lemma zslice_mid {A} (l1 c l2 : list A) : zslice (l1 ++ c ++ l2) (zlen l1) (zlen c) = c.
Proof.
  unfold zslice. rewrite zskipn_app_exact. unfold zfirstn, zlen. rewrite Nat2Z.id.
  rewrite firstn_app, firstn_all, Nat.sub_diag. cbn [firstn]. apply app_nil_r.
Qed.

Lemma zslice_0 {A} (l : list A) a : zslice l a 0 = [].
Proof. reflexivity. Qed.

Lemma u16s_length_aux : forall n (b : list Z), (length b <= n)%nat -> zlen (u16s b) = zlen b / 2.
Proof.
  induction n as [|n IH]; intros b Hb.
  - destruct b; [reflexivity | cbn [length] in Hb; lia].
  - destruct b as [|lo [|hi r]]; try reflexivity.
    cbn [u16s]. rewrite !zlen_cons. rewrite IH by (cbn [length] in Hb; lia).
    replace (1 + (1 + zlen r)) with (zlen r + 1 * 2) by lia. rewrite Z.div_add by lia. lia.
Qed.
Lemma u16s_length b : zlen (u16s b) = zlen b / 2.
Proof. apply u16s_length_aux with (n := length b). lia. Qed.

Lemma u16s_znth_aux : forall n (b : list Z) k, (length b <= n)%nat -> 0 <= k -> 2 * k + 1 < zlen b ->
  znth 0 (u16s b) k = znth 0 b (2 * k) + 256 * znth 0 b (2 * k + 1).
Proof.
  induction n as [|n IH]; intros b k Hb Hk Hl.
  - destruct b; [unfold zlen in Hl; cbn [length] in Hl; lia | cbn [length] in Hb; lia].
  - destruct b as [|lo [|hi r]].
    + unfold zlen in Hl; cbn [length] in Hl; lia.
    + unfold zlen in Hl; cbn [length] in Hl; lia.
    + cbn [u16s]. destruct (Z.eq_dec k 0) as [->|Hk0].
      * reflexivity.
      * rewrite znth_cons_S by lia. rewrite (IH r (k - 1)); [| cbn [length] in Hb; lia | lia | rewrite !zlen_cons in Hl; lia].
        rewrite (znth_cons_S 0 lo) by lia. rewrite (znth_cons_S 0 hi) by lia.
        rewrite (znth_cons_S 0 lo (hi :: r) (2 * k + 1)) by lia. rewrite (znth_cons_S 0 hi r (2 * k + 1 - 1)) by lia.
        f_equal; [f_equal; lia | f_equal; f_equal; lia].
Qed.
Lemma u16s_znth b k : 0 <= k -> 2 * k + 1 < zlen b ->
  znth 0 (u16s b) k = znth 0 b (2 * k) + 256 * znth 0 b (2 * k + 1).
Proof. apply u16s_znth_aux with (n := length b). lia. Qed.

(* ================================================================================================ *)
(* reader_frame_exact: one tick, then every chunking                                                 *)
(* ================================================================================================ *)

Section ReaderExact.
  Variable g : geom.
  Hypothesis Hc : 1 <= ncols g.
  Hypothesis Hr : 2 <= nrows g.
  Variable S : list Z.
  Variable o : Z.                                  (* the frames are aligned from stream byte o on *)
  Hypothesis Ho : 0 <= o.
  Hypothesis Hwf : frame_bits_wf_from g S o.
  Let W := nwords g.
  Let fs := fsize g.

  Lemma fs_eq : fs = 4 * W. Proof. reflexivity. Qed.
  Lemma W_pos : 2 <= W. Proof. unfold W, nwords. nia. Qed.

  Lemma aligned_slice_phase R L :
    o <= R -> (R - o) mod fs = 0 -> 0 <= L -> R + L <= zlen S -> phase_wf g 0 (zslice S R L).
  Proof.
    intros HR Hmod HL Hlen k Hk Hk2. rewrite zlen_zslice in Hk2 by lia.
    rewrite znth_zslice by lia. pose proof W_pos as HW.
    assert (Ef : R - o = 4 * (W * ((R - o) / fs))).
    { pose proof (Z.div_mod (R - o) fs ltac:(rewrite fs_eq; lia)). rewrite Hmod in H. rewrite fs_eq in *. lia. }
    replace (R + (4 * k + 2)) with (o + 4 * (k + W * ((R - o) / fs)) + 2) by lia.
    change fbit with bit0. rewrite Hwf.
    - unfold fpat. fold W. replace (k + 0) with k by lia.
      rewrite (Z.mul_comm W). now rewrite Z_mod_plus_full.
    - assert (0 <= (R - o) / fs) by (apply Z.div_pos; rewrite ?fs_eq; lia). nia.
    - lia.
  Qed.

  Lemma reader_tick_aligned pend chunk stamp R L :
    o <= R -> (R - o) mod fs = 0 -> 0 <= L -> R + L <= zlen S ->
    pend ++ chunk = zslice S R L ->
    reader_tick g pend chunk stamp =
      if L <? 3 * fs then {| t_pend := zslice S R L; t_rels := []; t_out := TSmall |}
      else {| t_pend := zslice S (R + (L / fs) * fs) (L - (L / fs) * fs); t_rels := [(L / fs) * fs];
              t_out := TBuf {| bm_data := exact_data g S R (L / fs); bm_stamp := stamp; bm_drop := false |} |}.
  Proof.
    intros HR Hmod HL Hlen Hb. unfold reader_tick. rewrite Hb. fold fs.
    rewrite zlen_zslice by lia. destruct (L <? 3 * fs) eqn:E3; [reflexivity|].
    pose proof W_pos as HW. assert (Hfs : fs = 4 * W) by reflexivity.
    set (b := zslice S R L) in *.
    assert (Hph : phase_wf g 0 b) by (now apply aligned_slice_phase).
    assert (Hzb : zlen b = L) by (unfold b; now rewrite zlen_zslice by lia).
    assert (Hcnt : 2 * W + 1 <= (zlen b + 1) / 4).
    { rewrite Hzb. apply Z.div_le_lower_bound; lia. }
    rewrite (ffb_aligned g Hc Hr b Hph Hcnt). fold W.
    destruct (ncols g =? 0) eqn:E0; [lia|].
    replace (Z.quot (2 * W - W) (ncols g)) with (nrows g).
    2:{ replace (2 * W - W) with (nrows g * ncols g) by (unfold W, nwords; lia). now rewrite Z.quot_mul by lia. }
    rewrite !Z.eqb_refl. cbn [negb orb].
    (* whole-frame demux *)
    unfold tick_demux. fold fs. rewrite Hzb.
    set (m := L / fs).
    assert (Hm3 : 3 <= m) by (unfold m; apply Z.div_le_lower_bound; lia).
    assert (Hmfs : m * fs <= L) by (unfold m; rewrite Z.mul_comm; apply Z.mul_div_le; lia).
    destruct (m =? 0) eqn:Em0; [lia|].
    rewrite u16s_length, Hzb.
    assert (Hnch : nchan g = 2 * W) by reflexivity.
    assert (Hbuf : m * nchan g <= L / 2) by (apply Z.div_le_lower_bound; lia).
    destruct (L / 2 <? m * nchan g) eqn:Eb; [lia|].
    f_equal.
    - unfold b. rewrite zskipn_zslice by lia. reflexivity.
    - f_equal. f_equal.
      unfold demux, exact_data. apply map_ext_in. intros i Hi. apply in_zrange in Hi.
      apply map_ext_in. intros j Hj. apply in_zrange in Hj.
      assert (Hidx : 2 * (i + j * nchan g) + 1 < L) by nia.
      rewrite u16s_znth by (rewrite ?Hzb; lia).
      unfold b. rewrite !znth_zslice by lia. unfold u16_at. fold fs.
      f_equal; [f_equal; lia | f_equal; f_equal; lia].
  Qed.

  Lemma reader_run_exact_gen : forall chunks S1 R pend,
    S = S1 ++ concat (map fst chunks) ->
    o <= R <= zlen S1 -> (R - o) mod fs = 0 ->
    pend = zslice S R (zlen S1 - R) ->
    reader_run g pend chunks = exact_run g S (zlen S1) R chunks.
  Proof.
    induction chunks as [|[c stamp] rest IH]; intros S1 R pend HS HR Hmod Hp; [reflexivity|].
    cbn [reader_run exact_run]. cbn [map concat fst] in HS.
    assert (HlenS : zlen S = zlen S1 + zlen c + zlen (concat (map fst rest))) by (rewrite HS, !zlen_app; lia).
    pose proof (zlen_nonneg c) as Hc0. pose proof (zlen_nonneg (concat (map fst rest))) as Hr0.
    assert (Hb : pend ++ c = zslice S R (zlen S1 + zlen c - R)).
    { replace (zlen S1 + zlen c - R) with ((zlen S1 - R) + zlen c) by lia.
      rewrite zslice_app_split by lia. rewrite <- Hp. f_equal.
      replace (R + (zlen S1 - R)) with (zlen S1) by lia. rewrite HS. now rewrite zslice_mid. }
    rewrite (reader_tick_aligned pend c stamp R (zlen S1 + zlen c - R)) by (auto; lia).
    fold fs. destruct (zlen S1 + zlen c - R <? 3 * fs) eqn:E3; cbn [t_pend]; f_equal.
    - rewrite <- zlen_app. apply IH.
      + rewrite HS. now rewrite app_assoc.
      + rewrite zlen_app. lia.
      + assumption.
      + rewrite zlen_app. reflexivity.
    - pose proof W_pos. assert (Hfs : fs = 4 * W) by reflexivity.
      set (L := zlen S1 + zlen c - R) in *. set (m := L / fs).
      assert (Hmfs : m * fs <= L) by (unfold m; rewrite Z.mul_comm; apply Z.mul_div_le; lia).
      assert (0 <= m) by (unfold m; apply Z.div_pos; lia).
      rewrite <- zlen_app. apply IH.
      + rewrite HS. now rewrite app_assoc.
      + rewrite zlen_app. nia.
      + replace (R + m * fs - o) with (R - o + m * fs) by lia. rewrite Z_mod_plus_full. assumption.
      + rewrite zlen_app. f_equal. lia.
  Qed.

End ReaderExact.

Lemma reader_frame_exact_proof :
  forall g, 1 <= ncols g -> 2 <= nrows g ->
  forall S, frame_bits_wf g S ->
  forall chunks, S = concat (map fst chunks) ->
    reader_run g [] chunks = exact_run g S 0 0 chunks.
Proof.
  intros g Hc Hr S Hwf chunks HS.
  apply (reader_run_exact_gen g Hc Hr S 0 ltac:(lia)) with (S1 := []) (R := 0).
  - intros k Hk Hl. replace (0 + 4 * k + 2) with (4 * k + 2) in * by lia. now apply Hwf.
  - assumption.
  - unfold zlen; cbn [length]; lia.
  - reflexivity.
  - reflexivity.
Qed.

(* ================================================================================================ *)
(* fb_retard_mix                                                                                     *)
(* ================================================================================================ *)

Lemma mix_step_value s last f e : mix_step s last f e = (mask3 f, mix_value s last e).
Proof. unfold mix_step, mix_value. destruct (s =? 0)%float; reflexivity. Qed.

Lemma mix_retard_exp s : forall fbs errs last, zlen fbs = zlen errs ->
  mix_retard s last fbs errs = (last_cleared last fbs, exp_fb s last fbs errs).
Proof.
  induction fbs as [|f fr IH]; intros [|e er] last Hl; try reflexivity;
    try (unfold zlen in Hl; cbn [length] in Hl; lia).
  cbn [mix_retard exp_fb]. rewrite mix_step_value. rewrite IH by (rewrite !zlen_cons in Hl; lia). reflexivity.
Qed.

Lemma exp_fb_app s : forall f1 e1 p f2 e2, zlen f1 = zlen e1 ->
  exp_fb s p (f1 ++ f2) (e1 ++ e2) = exp_fb s p f1 e1 ++ exp_fb s (last_cleared p f1) f2 e2.
Proof.
  induction f1 as [|f fr IH]; intros [|e er] p f2 e2 Hl; try reflexivity;
    try (unfold zlen in Hl; cbn [length] in Hl; lia).
  cbn [app exp_fb]. rewrite IH by (rewrite !zlen_cons in Hl; lia). reflexivity.
Qed.

Lemma zlen_exp_fb s : forall fbs errs p, zlen fbs = zlen errs -> zlen (exp_fb s p fbs errs) = zlen fbs.
Proof.
  induction fbs as [|f fr IH]; intros [|e er] p Hl; try reflexivity;
    try (unfold zlen in Hl; cbn [length] in Hl; lia).
  cbn [exp_fb]. rewrite !zlen_cons. rewrite IH by (rewrite !zlen_cons in Hl; lia). reflexivity.
Qed.

Lemma fb_retard_mix_blocks s : forall blocks last,
  Forall (fun b => zlen (fst b) = zlen (snd b)) blocks ->
  mix_blocks s last blocks = exp_fb s last (concat (map fst blocks)) (concat (map snd blocks)).
Proof.
  induction blocks as [|[f e] r IH]; intros last HF; [reflexivity|].
  inversion HF as [|? ? Hfe HF']; subst. cbn [fst snd] in Hfe.
  cbn [mix_blocks map concat fst snd]. rewrite mix_retard_exp by assumption.
  rewrite exp_fb_app by assumption. f_equal. now apply IH.
Qed.

(* out[n] = mix_value s (cleared fb[n-1]) err[n] *)
Lemma exp_fb_nth s : forall fbs errs p n, zlen fbs = zlen errs -> 0 <= n < zlen fbs ->
  znth 0 (exp_fb s p fbs errs) n =
  mix_value s (if n =? 0 then p else mask3 (znth 0 fbs (n - 1))) (znth 0 errs n).
Proof.
  induction fbs as [|f fr IH]; intros [|e er] p n Hl Hn;
    try (unfold zlen in Hl, Hn; cbn [length] in Hl, Hn; lia).
  cbn [exp_fb]. destruct (n =? 0) eqn:E0.
  - assert (n = 0) by lia. subst. reflexivity.
  - rewrite !zlen_cons in *. rewrite znth_cons_S by lia. rewrite IH by lia.
    rewrite (znth_cons_S 0 e) by lia.
    destruct (n - 1 =? 0) eqn:E1.
    + assert (n = 1) by lia. subst. reflexivity.
    + rewrite (znth_cons_S 0 f) by lia. reflexivity.
Qed.

Lemma mask3_repr x : mask3 x = 4 * ((x / 4) mod 16384).
Proof.
  unfold mask3. apply Z.bits_inj'. intros n Hn. rewrite Z.land_spec.
  change 65532 with (Z.shiftl (Z.ones 14) 2). rewrite Z.shiftl_spec by lia.
  replace (4 * ((x / 4) mod 16384)) with (((x / 2 ^ 2) mod 2 ^ 14) * 2 ^ 2) by (change (2 ^ 2) with 4; change (2 ^ 14) with 16384; lia).
  destruct (Z_lt_ge_dec n 2) as [Hlt|Hge].
  - rewrite Z.mul_pow2_bits_low by lia. rewrite (Z.testbit_neg_r _ (n - 2)) by lia. apply andb_false_r.
  - rewrite Z.mul_pow2_bits by lia.
    destruct (Z_lt_ge_dec (n - 2) 14) as [H14|H14].
    + rewrite Z.ones_spec_low by lia. rewrite Z.mod_pow2_bits_low by lia.
      rewrite Z.div_pow2_bits by lia. rewrite andb_true_r. f_equal. lia.
    + rewrite Z.ones_spec_high by lia. rewrite Z.mod_pow2_bits_high by lia. apply andb_false_r.
Qed.

Lemma mask3_props x : mask3 x mod 4 = 0 /\ 0 <= mask3 x <= 65532.
Proof.
  rewrite mask3_repr. pose proof (Z.mod_pos_bound (x / 4) 16384 ltac:(lia)). split; [|lia].
  rewrite Z.mul_comm. apply Z_mod_mult.
Qed.

Lemma mix_value_range s p e : 0 <= p <= 65535 -> 0 <= mix_value s p e <= 65535.
Proof.
  intros Hp. unfold mix_value. destruct (s =? 0)%float; [assumption|].
  destruct (65535 <=? _)%float; [lia|]. destruct (_ <? 0)%float; [lia|].
  pose proof (Z.mod_pos_bound (roundint (z2f (int16 e) * s + z2f p)) 65536 ltac:(lia)). lia.
Qed.

(* ================================================================================================ *)
(* ext_trig_exact                                                                                    *)
(* ================================================================================================ *)

Lemma rising_edges l : forall last, rising last l = (last_flag last l, edges last l).
Proof.
  induction l as [|[s v] r IH]; intros last; [reflexivity|].
  cbn [rising last_flag edges]. rewrite IH. destruct (s && negb last); reflexivity.
Qed.

Lemma edges_app l1 : forall last l2,
  edges last (l1 ++ l2) = edges last l1 ++ edges (last_flag last l1) l2.
Proof.
  induction l1 as [|[s v] r IH]; intros last l2; [reflexivity|].
  cbn [app edges last_flag]. rewrite IH. destruct (s && negb last); reflexivity.
Qed.

Lemma last_flag_app l1 : forall last l2, last_flag last (l1 ++ l2) = last_flag (last_flag last l1) l2.
Proof. induction l1 as [|[s v] r IH]; intros; [reflexivity|]. cbn [app last_flag]. apply IH. Qed.

Lemma flat_map_ext_in {A B} (f g : A -> list B) l : (forall x, In x l -> f x = g x) -> flat_map f l = flat_map g l.
Proof.
  induction l as [|x l IH]; intros H; [reflexivity|]. cbn [flat_map]. rewrite H by now left.
  f_equal. apply IH. intros; apply H; now right.
Qed.

Lemma znth_exact_data g S R m i j :
  0 <= i < nchan g -> 0 <= j < m ->
  znth 0 (znth [] (exact_data g S R m) i) j = u16_at S (R + j * fsize g + 2 * i).
Proof.
  intros Hi Hj. unfold exact_data.
  rewrite (znth_map _ 0) by (rewrite zlen_zrange; lia). rewrite znth_zrange by lia.
  rewrite (znth_map _ 0) by (rewrite zlen_zrange; lia). rewrite znth_zrange by lia.
  replace (0 + j) with j by lia. replace (0 + i) with i by lia. reflexivity.
Qed.

(* the scan of the model on exactly demultiplexed frames = the rising edges of the per-row flag, read in
   column 0 of every row, counted frame*nrows+row -- for every number of columns *)
Lemma ext_scan_exact g S R m next last :
  1 <= ncols g -> 1 <= nrows g -> 0 <= m ->
  ext_scan g (exact_data g S R m) m next last =
    (last_flag last (row_flags g S R m next), edges last (row_flags g S R m next)).
Proof.
  intros Hc Hr Hm. unfold ext_scan. rewrite rising_edges.
  assert (E : flat_map (fun frame => map (fun row => (ext_flag (exact_data g S R m) (row * 2 * ncols g + 1) frame,
                                                     (frame + next) * nrows g + row)) (zrange 0 (nrows g)))
                       (zrange 0 m) = row_flags g S R m next).
  { unfold row_flags. apply flat_map_ext_in. intros j Hj. apply in_zrange in Hj.
    apply map_ext_in. intros r Hr'. apply in_zrange in Hr'.
    f_equal; [|lia]. unfold ext_flag, bit1, fb_at.
    rewrite znth_exact_data by (unfold nchan, nwords; nia). f_equal. f_equal. f_equal. lia. }
  now rewrite E.
Qed.

Lemma flat_map_app' {A B} (f : A -> list B) l1 l2 : flat_map f (l1 ++ l2) = flat_map f l1 ++ flat_map f l2.
Proof. induction l1 as [|x l IH]; [reflexivity|]. cbn [app flat_map]. now rewrite IH, app_assoc. Qed.

(* consecutive blocks: the flags of the merged block are those of the two blocks one after the other *)
Lemma row_flags_app g S R m1 m2 first :
  0 <= m1 -> 0 <= m2 ->
  row_flags g S R (m1 + m2) first =
  row_flags g S R m1 first ++ row_flags g S (R + m1 * fsize g) m2 (first + m1).
Proof.
  intros H1 H2. unfold row_flags. rewrite zrange_app by lia. rewrite flat_map_app'. f_equal.
  replace (zrange (0 + m1) m2) with (map (fun j => m1 + j) (zrange 0 m2)).
  2:{ apply (list_ext_znth 0).
      - rewrite zlen_map, !zlen_zrange by lia. reflexivity.
      - intros i Hi. rewrite zlen_map, zlen_zrange in Hi by lia.
        rewrite (znth_map _ 0) by (rewrite zlen_zrange; lia). rewrite !znth_zrange by lia. lia. }
  rewrite flat_map_concat_map, map_map, <- flat_map_concat_map.
  apply flat_map_ext_in. intros j Hj. apply map_ext_in. intros r Hr.
  f_equal; [f_equal; f_equal; lia | lia].
Qed.

(* ================================================================================================ *)
(* frames_monotone                                                                                   *)
(* ================================================================================================ *)

Lemma dist_chans_first_len data tbl : forall mixes ch m0,
  (forall d, In d data -> zlen d = m0) -> 0 <= m0 -> ch mod 2 = 0 ->
  zlen (znth [] (snd (dist_chans data tbl ch mixes)) 0) <= m0.
Proof.
  intros mixes ch m0 Hall Hm0 Hev. destruct mixes as [|m mr]; [cbn; lia|].
  cbn [dist_chans]. destruct (ch mod 2 =? 1) eqn:E; [lia|].
  destruct (dist_chans data tbl (ch + 1) mr) as [ms ds]. cbn [snd]. rewrite znth_cons_0.
  set (idx := znth 0 tbl ch). unfold znth. destruct (idx <? 0); [cbn; lia|].
  destruct (nth_in_or_default (Z.to_nat idx) data []) as [Hin|Hd].
  - rewrite (Hall _ Hin). lia.
  - rewrite Hd. cbn. lia.
Qed.

Section Monotone.
  Variable est : Z -> Z -> Z.
  Hypothesis est_nonneg : forall p c, 0 <= est p c.
  Variable g : geom.
  Variable nsamp : Z.

  Lemma distribute_next st m st' b :
    distribute est g st m = Ok (st', b) ->
    d_next st <= b_first b /\ b_first b + block_len b <= d_next st'.
  Proof.
    unfold distribute, distribute_gen. destruct (shape_ok g (bm_data m)) eqn:Esh; cbn [negb]; [|discriminate].
    set (fu := zlen (znth [] (bm_data m) 0)).
    set (dropped := if bm_drop m then est (d_prev st) (bm_stamp m) else 0).
    destruct (ext_scan g (bm_data m) fu (d_next st + dropped) (d_ext st)) as [ext' trig].
    destruct (dist_chans (bm_data m) (chan2readout g) 0 (d_mix st)) as [mix' segs] eqn:Ed.
    intros H. inversion H; subst; clear H. cbn [b_first d_next block_len b_data].
    assert (Hd : 0 <= dropped) by (unfold dropped; destruct (bm_drop m); [apply est_nonneg | lia]).
    assert (Hseg : zlen (znth [] segs 0) <= fu).
    { replace segs with (snd (dist_chans (bm_data m) (chan2readout g) 0 (d_mix st))) by now rewrite Ed.
      apply dist_chans_first_len; [| apply zlen_nonneg | reflexivity].
      unfold shape_ok in Esh. apply andb_true_iff in Esh as [_ Hall]. rewrite forallb_forall in Hall.
      intros d Hd'. specialize (Hall d Hd'). fold fu in Hall. lia. }
    unfold block_len. cbn [b_data]. lia.
  Qed.

  Lemma frames_monotone_gen : forall ops st,
    mono_from (d_next (s_d st)) (blocks_of (run est true g nsamp st ops)).
  Proof.
    induction ops as [|o rest IH]; intros st; [exact I|].
    cbn [run]. destruct (step est true g nsamp st o) as [st' r] eqn:Es.
    assert (Hstep : match r with
                    | RTick _ (Some b) => d_next (s_d st) <= b_first b /\ b_first b + block_len b <= d_next (s_d st')
                    | _ => d_next (s_d st') = d_next (s_d st)
                    end).
    { unfold step in Es. destruct o as [bytes stamp|chans fracs].
      - destruct (t_out (reader_tick g (s_pend st) bytes stamp)) eqn:Eo; inversion Es; subst; try reflexivity.
        destruct (distribute_gen est true g (s_d st) m) as [[d' blk]|] eqn:Edist.
        + inversion H0; subst. cbn [s_d]. now apply (distribute_next (s_d st) m).
        + inversion H0; subst. reflexivity.
      - destruct (negb (zlen fracs =? zlen chans)); [inversion Es; subst; reflexivity|].
        destruct (mix_valid _ chans); [destruct (mix_apply _ _ _ _)|]; inversion Es; subst; reflexivity. }
    assert (Hmono_weak : forall n n' bs, n <= n' -> mono_from n' bs -> mono_from n bs).
    { intros n n' [|b bs] Hle Hm; [exact I|]. cbn [mono_from] in *. split; [lia | tauto]. }
    destruct r as [rels [b|]|ok|k]; cbn [blocks_of flat_map app].
    - destruct Hstep as [H1 H2]. cbn [mono_from]. split; [assumption|].
      apply (Hmono_weak _ (d_next (s_d st'))); [assumption | apply IH].
    - rewrite <- Hstep. apply IH.
    - rewrite <- Hstep. apply IH.
    - exact I.
  Qed.
End Monotone.

Lemma fb_retard_mix_proof :
  forall scale blocks last0,
    Forall (fun b => zlen (fst b) = zlen (snd b)) blocks ->
    let fbs := concat (map fst blocks) in
    let errs := concat (map snd blocks) in
    mix_blocks scale last0 blocks = exp_fb scale last0 fbs errs /\
    (forall n, 0 <= n < zlen fbs ->
       znth 0 (exp_fb scale last0 fbs errs) n =
       mix_value scale (if n =? 0 then last0 else mask3 (znth 0 fbs (n - 1))) (znth 0 errs n)) /\
    (forall p e, 0 <= p <= 65535 -> 0 <= mix_value scale p e <= 65535) /\
    (forall p e, (scale =? 0)%float = true -> mix_value scale p e = p) /\
    (forall p e, (scale =? 0)%float = false ->
       let x := (z2f (int16 e) * scale + z2f p)%float in
       mix_value scale p e = if (65535 <=? x)%float then 65535 else if (x <? 0)%float then 0
                             else roundint x mod 65536) /\
    (forall v, mask3 v mod 4 = 0 /\ 0 <= mask3 v <= 65532).
Proof.
  intros scale blocks last0 HF fbs errs.
  assert (Hlen : zlen fbs = zlen errs).
  { unfold fbs, errs. clear -HF. induction HF as [|[f e] r Hfe _ IH]; [reflexivity|].
    cbn [map concat fst snd] in *. rewrite !zlen_app. lia. }
  split; [now apply fb_retard_mix_blocks|]. split; [intros; now apply exp_fb_nth|].
  split; [intros; now apply mix_value_range|]. split.
  - intros p e Hs. unfold mix_value. now rewrite Hs.
  - split; [|apply mask3_props]. intros p e Hs x. unfold mix_value. now rewrite Hs.
Qed.

Lemma ext_trig_exact_proof :
  forall g S R m first last,
    1 <= ncols g -> 1 <= nrows g -> 0 <= m ->
    ext_scan g (exact_data g S R m) m first last =
      (last_flag last (row_flags g S R m first), edges last (row_flags g S R m first)) /\
    (forall m2, 0 <= m2 ->
       row_flags g S R (m + m2) first =
       row_flags g S R m first ++ row_flags g S (R + m * fsize g) m2 (first + m)) /\
    (forall l1 l2, edges last (l1 ++ l2) = edges last l1 ++ edges (last_flag last l1) l2).
Proof.
  intros. split; [now apply ext_scan_exact|]. split; [intros; now apply row_flags_app|].
  intros; apply edges_app.
Qed.

(* ================================================================================================ *)
(* realign_after_gap_partial: the tick that meets a word-aligned gap in its first frame               *)
(* ================================================================================================ *)

Lemma bits_from_gen (beta : Z -> bool) b k :
  (forall j, 0 <= j -> 4 * j + 2 < zlen b -> fbit (znth 0 b (4 * j + 2)) = beta j) ->
  0 <= k -> 4 * k + 2 <= zlen b ->
  map fbit (stride4 (zskipn (4 * k + 2) b)) = map beta (zrange k ((zlen b + 1) / 4 - k)).
Proof.
  intros Hwf Hk Hl. rewrite stride4_spec, map_map. rewrite zlen_zskipn by lia.
  assert (E : (zlen b - (4 * k + 2) + 3) / 4 = (zlen b + 1) / 4 - k).
  { replace (zlen b - (4 * k + 2) + 3) with (zlen b + 1 + (- k) * 4) by lia. rewrite Z.div_add by lia. lia. }
  rewrite E. apply map_zrange_ext. intros j Hj. rewrite znth_zskipn by lia.
  replace (4 * k + 2 + 4 * (0 + j)) with (4 * (k + j) + 2) by lia.
  rewrite Hwf; [reflexivity | lia |].
  assert (4 * ((zlen b + 1) / 4) <= zlen b + 1) by (apply Z.mul_div_le; lia). lia.
Qed.

Section Realign.
  Variable g : geom.
  Hypothesis Hc : 1 <= ncols g.
  Hypothesis Hr : 2 <= nrows g.
  Let W := nwords g.
  Let fs := fsize g.

  (* frame bits: set in words [0,a), clear in [a,q) (at least one), and from word q on the frames are aligned *)
  Lemma ffb_pattern (beta : Z -> bool) b a q :
    (forall j, 0 <= j -> 4 * j + 2 < zlen b -> fbit (znth 0 b (4 * j + 2)) = beta j) ->
    0 <= a < q ->
    (forall j, 0 <= j < a -> beta j = true) ->
    (forall j, a <= j < q -> beta j = false) ->
    (forall j, 0 <= j -> beta (q + j) = fpat g j) ->
    q + W + 1 <= (zlen b + 1) / 4 ->
    find_frame_bits b = (q, q + W, ncols g, true).
  Proof.
    intros Hb Haq Htrue Hfalse Hal Hcnt. pose proof (W_bounds g Hc Hr) as HW. fold W in HW.
    assert (HL : 4 * (q + W + 1) <= zlen b + 1).
    { assert (4 * ((zlen b + 1) / 4) <= zlen b + 1) by (apply Z.mul_div_le; lia). lia. }
    set (cnt := (zlen b + 1) / 4) in *.
    assert (Hbq : beta q = true).
    { pose proof (Hal 0 ltac:(lia)) as H0. replace (q + 0) with q in H0 by lia. rewrite H0.
      replace 0 with (0 * nwords g + 0) by lia. apply fpat_row0; lia. }
    unfold find_frame_bits.
    assert (Eq : ffb_loop1 false false 2 (stride4 (zskipn 2 b)) = 4 * q + 2).
    { rewrite ffb_loop1_bits. change 2 with (4 * 0 + 2) at 2. rewrite (bits_from_gen beta b 0 Hb) by lia.
      fold cnt. replace (cnt - 0) with (a + ((q - a) + (1 + (cnt - q - 1)))) by lia.
      rewrite zrange_app, map_app by lia. rewrite zrange_app, map_app by lia. rewrite zrange_app, map_app by lia.
      rewrite (map_zrange_const _ true 0 a) by (intros; apply Htrue; lia).
      rewrite (map_zrange_const _ false (0 + a) (q - a)) by (intros; apply Hfalse; lia).
      rewrite loop1b_unseen_true.
      destruct (Z.to_nat (q - a)) as [|n'] eqn:Ea; [lia|].
      cbn [repeat app loop1b negb]. rewrite loop1b_seen_false.
      replace (zrange (0 + a + (q - a)) 1) with [q] by (replace (0 + a + (q - a)) with q by lia; reflexivity).
      cbn [map app loop1b]. rewrite Hbq. cbn [negb andb]. lia. }
    rewrite Eq.
    assert (En : ffb_loop2 (stride4 (zskipn (4 * q + 2) b)) = ncols g).
    { rewrite ffb_loop2_bits. rewrite (bits_from_gen beta b q Hb) by lia. fold cnt.
      replace (cnt - q) with (ncols g + (1 + (cnt - q - ncols g - 1))) by lia.
      rewrite zrange_app, map_app by lia. rewrite zrange_app, map_app by lia.
      rewrite (map_zrange_const _ true q (ncols g)).
      2:{ intros k Hk. replace k with (q + (k - q)) by lia. rewrite Hal by lia.
          replace (k - q) with (0 * nwords g + (k - q)) by lia. apply fpat_row0; lia. }
      replace (zrange (q + ncols g) 1) with [q + ncols g] by reflexivity.
      cbn [map app]. rewrite Hal by lia.
      replace (fpat g (ncols g)) with false
        by (symmetry; replace (ncols g) with (0 * nwords g + ncols g) at 1 by lia; apply fpat_rest; fold W; lia).
      rewrite loop2b_true. lia. }
    rewrite En. destruct (ncols g <? 1) eqn:E1; [lia|].
    assert (Ep : ffb_loop3 true (4 * q + 2 + 4 * ncols g) (stride4 (zskipn (4 * q + 2 + 4 * ncols g) b))
                 = Some (4 * (q + W) + 2)).
    { rewrite ffb_loop3_bits. replace (4 * q + 2 + 4 * ncols g) with (4 * (q + ncols g) + 2) by lia.
      rewrite (bits_from_gen beta b (q + ncols g) Hb) by lia. fold cnt.
      replace (cnt - (q + ncols g)) with ((W - ncols g) + (1 + (cnt - q - W - 1))) by lia.
      rewrite zrange_app, map_app by lia. rewrite zrange_app, map_app by lia.
      rewrite (map_zrange_const _ false (q + ncols g) (W - ncols g)).
      2:{ intros k Hk. replace k with (q + (k - q)) by lia. rewrite Hal by lia.
          replace (k - q) with (0 * nwords g + (k - q)) by lia. apply fpat_rest; fold W; lia. }
      replace (zrange (q + ncols g + (W - ncols g)) 1) with [q + W]
        by (replace (q + ncols g + (W - ncols g)) with (q + W) by lia; reflexivity).
      cbn [map app]. rewrite Hal by lia.
      replace (fpat g W) with true
        by (symmetry; replace W with (1 * nwords g + 0) by (unfold W; lia); apply fpat_row0; lia).
      destruct (Z.to_nat (W - ncols g)) as [|n'] eqn:Ea; [lia|].
      cbn [repeat app loop3b negb andb]. rewrite loop3b_false. f_equal. lia. }
    rewrite Ep.
    replace ((4 * q + 2) / 4) with q
      by (replace (4 * q + 2) with (2 + q * 4) by lia; rewrite Z.div_add by lia; reflexivity).
    replace ((4 * (q + W) + 2) / 4) with (q + W)
      by (replace (4 * (q + W) + 2) with (2 + (q + W) * 4) by lia; rewrite Z.div_add by lia; reflexivity).
    reflexivity.
  Qed.
End Realign.

Lemma zslice_zslice {A} (l : list A) a n k n2 :
  0 <= a -> 0 <= k -> 0 <= n2 -> k + n2 <= n -> a + n <= zlen l ->
  zslice (zslice l a n) k n2 = zslice l (a + k) n2.
Proof.
  intros. destruct l as [|d0 l'] eqn:El.
  { unfold zlen in *; cbn [length] in *. assert (n = 0 /\ k = 0 /\ a = 0 /\ n2 = 0) as (-> & -> & -> & ->) by lia. reflexivity. }
  rewrite <- El in *. clear El l'.
  apply (list_ext_znth d0).
  - rewrite !zlen_zslice; try lia. rewrite zlen_zslice; lia.
  - intros i Hi. rewrite zlen_zslice in Hi by (rewrite ?zlen_zslice; lia).
    rewrite !znth_zslice by lia. f_equal. lia.
Qed.

Lemma demux_exact g S R' L' m :
  1 <= ncols g -> 1 <= nrows g ->
  0 <= R' -> 0 <= L' -> R' + L' <= zlen S -> 0 <= m -> m * fsize g <= L' ->
  demux (nchan g) m (u16s (zslice S R' L')) = exact_data g S R' m.
Proof.
  intros Hc Hr HR HL Hlen Hm Hmf. unfold demux, exact_data.
  assert (Hnch : fsize g = 2 * nchan g) by (unfold fsize, nchan; lia).
  apply map_ext_in. intros i Hi. apply in_zrange in Hi.
  apply map_ext_in. intros j Hj. apply in_zrange in Hj.
  assert (Hidx : 2 * (i + j * nchan g) + 1 < L') by nia.
  assert (Hjn : 0 <= j * nchan g) by nia.
  rewrite u16s_znth by (rewrite ?zlen_zslice; lia).
  rewrite !znth_zslice by lia. unfold u16_at.
  f_equal; [f_equal; lia | f_equal; f_equal; lia].
Qed.

Section RealignTick.
  Variable g : geom.
  Hypothesis Hc : 1 <= ncols g.
  Hypothesis Hr : 2 <= nrows g.
  Let W := nwords g.
  Let fs := fsize g.
  Variable S : list Z.
  Variables pos ph : Z.
  Hypothesis Hpos4 : pos mod 4 = 0.
  Hypothesis Hph4 : ph mod 4 = 0.
  Hypothesis Hph : 0 <= ph < fs.
  Hypothesis Hwf : gap_bits_wf g S pos ph.

  Let t0w := ph / 4.

  Lemma fpat_small x : 0 <= x < W -> fpat g x = (x <? ncols g).
  Proof. intros Hx. unfold fpat. fold W. now rewrite Z.mod_small by lia. Qed.
  Lemma fpat_shift x : fpat g (W + x) = fpat g x.
  Proof.
    unfold fpat. fold W. replace (W + x) with (x + 1 * W) by lia.
    pose proof (W_bounds g Hc Hr). now rewrite Z_mod_plus_full.
  Qed.

  Variable R : Z.
  Hypothesis HR0 : 0 <= R.
  Hypothesis HRmod : R mod fs = 0.
  Hypothesis HRpos : R <= pos < R + fs.        (* the cut lies in the frame that starts at the release point *)
  Let gw := (pos - R) / 4.                      (* words of that frame still delivered *)
  Hypothesis Hgood : gw < t0w \/ (t0w = 0 /\ ncols g < gw).
  Let q := if t0w =? 0 then gw else gw + W - t0w.

  Lemma realign_facts :
    fs = 4 * W /\ 2 * ncols g <= W /\ 0 <= gw < W /\ 0 <= t0w < W /\ pos = R + 4 * gw /\ ph = 4 * t0w /\
    R = 4 * (W * (R / fs)) /\ 0 <= R / fs /\ 1 <= q < W.
  Proof.
    pose proof (W_bounds g Hc Hr) as HW. fold W in HW.
    assert (Hfs : fs = 4 * W) by reflexivity.
    assert (HR4 : R = 4 * (W * (R / fs))).
    { pose proof (Z.div_mod R fs ltac:(lia)). rewrite HRmod in H. lia. }
    assert (Hpr : (pos - R) mod 4 = 0).
    { rewrite Zminus_mod, Hpos4. rewrite HR4 at 1. rewrite Z.mul_comm, Z_mod_mult. reflexivity. }
    assert (Egw : pos - R = 4 * gw).
    { unfold gw. pose proof (Z.div_mod (pos - R) 4 ltac:(lia)). lia. }
    assert (Et0 : ph = 4 * t0w).
    { unfold t0w. pose proof (Z.div_mod ph 4 ltac:(lia)). lia. }
    assert (0 <= R / fs) by (apply Z.div_pos; lia).
    assert (Hq : 1 <= q < W).
    { unfold q. destruct (t0w =? 0) eqn:E0; lia. }
    repeat split; try lia.
  Qed.

  Lemma realign_bits b L :
    0 <= L -> R + L <= zlen S -> b = zslice S R L ->
    forall j, 0 <= j -> 4 * j + 2 < zlen b ->
      fbit (znth 0 b (4 * j + 2)) = if j <? gw then fpat g j else fpat g (j - gw + t0w).
  Proof.
    intros HL Hlen -> j Hj Hjl. rewrite zlen_zslice in Hjl by lia. rewrite znth_zslice by lia.
    destruct realign_facts as (Hfs & HW & Hgw & Ht0 & Epos & Eph & HR4 & HRf & Hq).
    replace (R + (4 * j + 2)) with (4 * (W * (R / fs) + j) + 2) by lia.
    change fbit with bit0. rewrite Hwf by (try nia; lia). fold W.
    replace (pos / 4) with (W * (R / fs) + gw) by (apply Z.div_unique with (r := 0); lia).
    fold t0w.
    destruct (j <? gw) eqn:Ej.
    - destruct (4 * (W * (R / fs) + j) <? pos) eqn:E; [|lia].
      unfold fpat. fold W. replace (W * (R / fs) + j) with (j + (R / fs) * W) by lia. now rewrite Z_mod_plus_full.
    - destruct (4 * (W * (R / fs) + j) <? pos) eqn:E; [lia|]. unfold fpat. fold W. f_equal. f_equal. lia.
  Qed.

  Lemma realign_ffb b L :
    3 * fs <= L -> R + L <= zlen S -> b = zslice S R L ->
    find_frame_bits b = (q, q + W, ncols g, true).
  Proof.
    intros HL Hlen Hb.
    destruct realign_facts as (Hfs & HW & Hgw & Ht0 & Epos & Eph & HR4 & HRf & Hq).
    assert (Hzb : zlen b = L) by (rewrite Hb; apply zlen_zslice; lia).
    pose proof (realign_bits b L ltac:(lia) Hlen Hb) as Hbits.
    set (a := if t0w =? 0 then ncols g
              else if gw <=? ncols g then (if t0w <? ncols g then gw + ncols g - t0w else gw) else ncols g).
    apply (ffb_pattern g Hc Hr _ b a q Hbits).
    - unfold a, q. destruct (t0w =? 0) eqn:E0; [lia|].
      destruct (gw <=? ncols g) eqn:E1; [destruct (t0w <? ncols g) eqn:E2|]; lia.
    - intros j Hj. unfold a in Hj. destruct (t0w =? 0) eqn:E0.
      + destruct (j <? gw) eqn:Ej; [|lia]. rewrite fpat_small by lia. lia.
      + destruct (gw <=? ncols g) eqn:E1; [destruct (t0w <? ncols g) eqn:E2|].
        * destruct (j <? gw) eqn:Ej; rewrite fpat_small by lia; lia.
        * destruct (j <? gw) eqn:Ej; [|lia]. rewrite fpat_small by lia. lia.
        * destruct (j <? gw) eqn:Ej; [|lia]. rewrite fpat_small by lia. lia.
    - intros j Hj. unfold a, q in Hj. destruct (t0w =? 0) eqn:E0.
      + destruct (j <? gw) eqn:Ej; [|lia]. rewrite fpat_small by lia. lia.
      + destruct (gw <=? ncols g) eqn:E1; [destruct (t0w <? ncols g) eqn:E2|].
        * destruct (j <? gw) eqn:Ej; [lia|]. rewrite fpat_small by lia. lia.
        * destruct (j <? gw) eqn:Ej; [lia|]. rewrite fpat_small by lia. lia.
        * destruct (j <? gw) eqn:Ej; rewrite fpat_small by lia; lia.
    - intros j Hj. unfold q. destruct (t0w =? 0) eqn:E0.
      + destruct (gw + j <? gw) eqn:Ej; [lia|]. f_equal. lia.
      + destruct (gw + W - t0w + j <? gw) eqn:Ej; [lia|].
        replace (gw + W - t0w + j - gw + t0w) with (W + j) by lia. apply fpat_shift.
    - rewrite Hzb. apply Z.div_le_lower_bound; lia.
  Qed.

  Lemma realign_tick pend chunk stamp L :
    3 * fs <= L -> R + L <= zlen S -> pend ++ chunk = zslice S R L ->
    let m := L / fs - 1 in
    reader_tick g pend chunk stamp =
      {| t_pend := zslice S (R + 4 * q + m * fs) (L - 4 * q - m * fs);
         t_rels := [4 * q; m * fs];
         t_out := TBuf {| bm_data := exact_data g S (R + 4 * q) m; bm_stamp := stamp; bm_drop := true |} |}.
  Proof.
    intros HL Hlen Hb m.
    destruct realign_facts as (Hfs & HW & Hgw & Ht0 & Epos & Eph & HR4 & HRf & Hq).
    unfold reader_tick. rewrite Hb. fold fs. rewrite zlen_zslice by lia.
    destruct (L <? 3 * fs) eqn:E3; [lia|].
    rewrite (realign_ffb (zslice S R L) L HL Hlen eq_refl). fold W.
    destruct (ncols g =? 0) eqn:E0; [lia|].
    replace (Z.quot (q + W - q) (ncols g)) with (nrows g).
    2:{ replace (q + W - q) with (nrows g * ncols g) by (unfold W, nwords; lia). now rewrite Z.quot_mul by lia. }
    rewrite !Z.eqb_refl. cbn [negb orb].
    destruct (q =? W) eqn:EqW; [lia|]. cbn [negb]. destruct (q =? 0) eqn:Eq0; [lia|].
    replace ((q * 4) mod fs) with (q * 4) by (symmetry; apply Z.mod_small; lia).
    replace (L - q * 4 - (fs - q * 4)) with (L - fs) by lia.
    destruct (L - fs <? fs) eqn:Ede; [lia|].
    replace (L - (fs - q * 4) - q * 4) with (L - fs) by lia.
    rewrite zslice_zslice by lia. rewrite zskipn_zslice by lia.
    unfold tick_demux. fold fs. rewrite zlen_zslice by lia.
    assert (Em : (L - fs) / fs = m).
    { unfold m. replace (L - fs) with (L + (-1) * fs) by lia. rewrite Z.div_add by lia. lia. }
    rewrite Em.
    assert (Hm2 : 2 <= m) by (unfold m; assert (3 <= L / fs) by (apply Z.div_le_lower_bound; lia); lia).
    assert (Hmfs : m * fs <= L - fs).
    { rewrite <- Em. rewrite Z.mul_comm. apply Z.mul_div_le. lia. }
    destruct (m =? 0) eqn:Em0; [lia|].
    rewrite u16s_length, zlen_zslice by lia.
    assert (Hbuf : m * nchan g <= (L - fs) / 2) by (apply Z.div_le_lower_bound; [lia | unfold nchan; fold W; lia]).
    destruct ((L - fs) / 2 <? m * nchan g) eqn:Eb; [lia|].
    rewrite demux_exact by (try lia; fold fs; lia).
    rewrite zskipn_zslice by lia.
    f_equal.
    - f_equal; lia.
    - cbn [app]. f_equal. lia.
    - replace (R + q * 4) with (R + 4 * q) by lia. reflexivity.
  Qed.

  (* after the tick the frames are aligned again (from the next frame boundary behind the cut) *)
  Lemma realign_aligned_after : frame_bits_wf_from g S (R + 4 * q).
  Proof.
    destruct realign_facts as (Hfs & HW & Hgw & Ht0 & Epos & Eph & HR4 & HRf & Hq).
    intros k Hk Hl.
    replace (R + 4 * q + 4 * k + 2) with (4 * (W * (R / fs) + q + k) + 2) in * by lia.
    rewrite Hwf by (try nia; lia). fold W.
    replace (pos / 4) with (W * (R / fs) + gw) by (apply Z.div_unique with (r := 0); lia).
    fold t0w.
    destruct (4 * (W * (R / fs) + q + k) <? pos) eqn:E.
    - exfalso. unfold q in E. destruct (t0w =? 0); lia.
    - f_equal. unfold q. destruct (t0w =? 0) eqn:E0.
      + f_equal. lia.
      + replace (W * (R / fs) + (gw + W - t0w) + k - (W * (R / fs) + gw) + t0w) with (k + 1 * W) by lia.
        now rewrite Z_mod_plus_full.
  Qed.

  (* the lift: the read that meets the gap, then every later chunking *)
  Lemma realign_run S1 pend c stamp rest :
    S = S1 ++ c ++ concat (map fst rest) ->
    R <= zlen S1 -> pend = zslice S R (zlen S1 - R) ->
    3 * fs <= zlen S1 + zlen c - R ->
    let L := zlen S1 + zlen c - R in
    let m := L / fs - 1 in
    reader_run g pend ((c, stamp) :: rest) =
      {| t_pend := zslice S (R + 4 * q + m * fs) (L - 4 * q - m * fs);
         t_rels := [4 * q; m * fs];
         t_out := TBuf {| bm_data := exact_data g S (R + 4 * q) m; bm_stamp := stamp; bm_drop := true |} |}
      :: exact_run g S (zlen S1 + zlen c) (R + 4 * q + m * fs) rest.
  Proof.
    intros HS HR1 Hp HL L m.
    destruct realign_facts as (Hfs & HW & Hgw & Ht0 & Epos & Eph & HR4 & HRf & Hq).
    assert (HlenS : zlen S = zlen S1 + zlen c + zlen (concat (map fst rest))) by (rewrite HS, !zlen_app; lia).
    pose proof (zlen_nonneg c) as Hc0. pose proof (zlen_nonneg (concat (map fst rest))) as Hr0.
    assert (Hb : pend ++ c = zslice S R L).
    { unfold L. replace (zlen S1 + zlen c - R) with ((zlen S1 - R) + zlen c) by lia.
      rewrite zslice_app_split by lia. rewrite <- Hp. f_equal.
      replace (R + (zlen S1 - R)) with (zlen S1) by lia. rewrite HS. now rewrite zslice_mid. }
    cbn [reader_run]. rewrite (realign_tick pend c stamp L) by (auto; unfold L; lia). fold m. cbn [t_pend].
    f_equal.
    assert (Hm2 : 2 <= m) by (unfold m; assert (3 <= L / fs) by (apply Z.div_le_lower_bound; lia); lia).
    assert (Hmfs : m * fs <= L - fs).
    { unfold m. assert (fs * (L / fs) <= L) by (apply Z.mul_div_le; lia). lia. }
    rewrite <- zlen_app.
    apply (reader_run_exact_gen g Hc Hr S (R + 4 * q) ltac:(lia) realign_aligned_after) with (S1 := S1 ++ c).
    - rewrite HS. now rewrite app_assoc.
    - rewrite zlen_app. unfold L in *. lia.
    - replace (R + 4 * q + m * fs - (R + 4 * q)) with (m * fs) by lia. apply Z_mod_mult.
    - rewrite zlen_app. f_equal. unfold L. lia.
  Qed.
End RealignTick.

(* ================================================================================================ *)
(* witnesses: the defects of the tree before the fixes, and the finding that remains                 *)
(* ================================================================================================ *)

(* 2 columns x 3 rows, position-coded samples, the trigger flag of (frame f, row r) given by [flag] *)
Definition wit_word (flag : Z -> Z -> bool) (f row col : Z) : list Z :=
  let e := (f * 64 + row * 8 + col) mod 65536 in
  let fb0 := (40000 + f * 256 + row * 32 + col * 4) mod 65536 in
  let fb := fb0 - fb0 mod 4 + (if row =? 0 then 1 else 0) + (if flag f row then 2 else 0) in
  [e mod 256; e / 256; fb mod 256; fb / 256].
Definition wit_stream (flag : Z -> Z -> bool) (nframes : Z) : list Z :=
  flat_map (fun f => flat_map (fun row => flat_map (fun col => wit_word flag f row col) (zrange 0 2)) (zrange 0 3))
           (zrange 0 nframes).
Definition wit_cut (S : list Z) (pos len : Z) : list Z := zfirstn pos S ++ zskipn (pos + len) S.
Definition wit_ops (S : list Z) : list op :=
  map (fun k => OChunk (zslice S (240 * k) 240) (k + 1)) (zrange 0 4).
Definition wit_g : geom := {| ncols := 2; nrows := 3 |}.
Definition wit_est (p c : Z) : Z := (c - p) * 50.      (* 50 frames per second, whole-second stamps *)

(* flag high from frame 1 row 2 on: the first rising edge is row count 1*3+2 = 5 *)
Definition wit_flag1 (f row : Z) : bool := (5 <=? f * 3 + row).
Definition wit_ops1 : list op := [OChunk (wit_stream wit_flag1 4) 1].

Lemma ext_trig_refuted_pre_fix_proof :
  map b_ext (blocks_of (run wit_est false wit_g 1 (init_state wit_g) wit_ops1)) = [[6]] /\
  map b_ext (blocks_of (run wit_est true wit_g 1 (init_state wit_g) wit_ops1)) = [[5]].
Proof. split; vm_compute; reflexivity. Qed.

(* reads of 10 frames, 40 bytes (1.5 frames + 4 bytes) lost after frame 20, stamps one second apart *)
Definition wit_flag2 (f row : Z) : bool := ((f * 3 + row) mod 7 <? 2).
Definition wit_S2 : list Z := wit_cut (wit_stream wit_flag2 50) 480 40.

Lemma frames_monotone_refuted_pre_fix_proof :
  map b_first (blocks_of (run wit_est false wit_g 1 (init_state wit_g) (wit_ops wit_S2))) = [0; 10; 70; 29] /\
  map b_first (blocks_of (run wit_est true wit_g 1 (init_state wit_g) (wit_ops wit_S2))) = [0; 10; 70; 79].
Proof. split; vm_compute; reflexivity. Qed.

(* the same delivery: the row counts of the block that reports the loss (its first frame is 70, i.e. rows >= 210) *)
Lemma ext_after_drop_refuted_pre_fix_proof :
  znth [] (map b_ext (blocks_of (run wit_est false wit_g 1 (init_state wit_g) (wit_ops wit_S2)))) 2 = [65; 72; 78; 86] /\
  znth [] (map b_ext (blocks_of (run wit_est true wit_g 1 (init_state wit_g) (wit_ops wit_S2)))) 2 = [214; 221; 228; 235].
Proof. split; vm_compute; reflexivity. Qed.

(* 42 bytes lost at byte 480: the word grid shifts by two bytes *)
Definition wit_S3 : list Z := wit_cut (wit_stream (fun _ _ => false) 50) 480 42.
Definition wit_cfg3 : cfg := {| c_g := wit_g; c_nsamp := 1; c_gap := Some (480, 18) |}.
Definition wit_sys (c : cfg) (ops : list op) : list opres :=
  run wit_est true (c_g c) (c_nsamp c) (init_state (c_g c)) ops.

Definition is_silent_release (r : opres) : bool :=
  match r with RTick [240] None => true | _ => false end.

(* reads 3 and 4 are released whole, nothing is delivered, nothing is reported; the checker says no *)
Lemma realign_witness :
  stream_wf wit_cfg3 (stream_of (wit_ops wit_S3)) = true /\ stamps_increasing (wit_ops wit_S3) = true /\
  map is_silent_release (wit_sys wit_cfg3 (wit_ops wit_S3)) = [false; false; true; true] /\
  C04_check wit_cfg3 (combine (wit_ops wit_S3) (wit_sys wit_cfg3 (wit_ops wit_S3))) = false.
Proof. repeat split; vm_compute; reflexivity. Qed.

(* 20 bytes lost at byte 244 (one word into frame 10, up to the next frame boundary), reads of 240 bytes: the
   frame start FindFrameBits reports lies 7 words into the second read *)
Definition wit_S4 : list Z := wit_cut (wit_stream (fun _ _ => false) 30) 244 20.
Definition tick_kind (t : tick_res) : Z * list Z :=
  (match t_out t with TSmall => 0 | TGeom => 1 | TBuf m => if bm_drop m then 3 else 2 | TPanic PDropFromEnd => 4 | TPanic _ => 5 end,
   t_rels t).

Lemma reader_panic_refuted_pre_fix_proof :
  tick_kind (reader_tick_old wit_g [] (zslice wit_S4 240 240) 2) = (4, [28]) /\
  tick_kind (reader_tick wit_g [] (zslice wit_S4 240 240) 2) = (3, [28; 192]).
Proof. split; vm_compute; reflexivity. Qed.

Lemma realign_after_gap_refuted_proof : ~ realign_after_gap_statement wit_sys.
Proof.
  intros H. destruct realign_witness as (Hwf & Hst & _ & Hck).
  specialize (H wit_cfg3 (wit_ops wit_S3) ltac:(discriminate) Hwf Hst). congruence.
Qed.

(* ================================================================================================ *)
(* non-vacuity examples                                                                              *)
(* ================================================================================================ *)

Lemma forall_zrange_dec (P : Z -> bool) n :
  forallb P (zrange 0 n) = true -> forall k, 0 <= k < n -> P k = true.
Proof. intros H k Hk. rewrite forallb_forall in H. apply H. apply in_zrange. lia. Qed.

(* 8 frames of the 2x3 witness stream satisfy the hypothesis of reader_frame_exact *)
Lemma example_frame_bits_wf : frame_bits_wf wit_g (wit_stream wit_flag2 8).
Proof.
  intros k Hk Hl.
  assert (Hn : zlen (wit_stream wit_flag2 8) = 192) by (vm_compute; reflexivity).
  rewrite Hn in Hl.
  pose proof (forall_zrange_dec
           (fun k => Bool.eqb (bit0 (znth 0 (wit_stream wit_flag2 8) (4 * k + 2))) (k mod nwords wit_g <? ncols wit_g)) 48
           ltac:(vm_compute; reflexivity) k ltac:(lia)) as H.
  apply Bool.eqb_prop in H. exact H.
Qed.

(* 3 columns x 2 rows: 30 position-coded frames, 28 bytes lost at byte 252 (three words into frame 10): the cut
   lies in the frame that starts at the release point 240, 3 words carried, first surviving word at offset 4 *)
Definition ex_g : geom := {| ncols := 3; nrows := 2 |}.
Definition ex_stream : list Z :=
  flat_map (fun f => flat_map (fun w => let fb := 40000 + 256 * f + 4 * w + (if w <? 3 then 1 else 0) in
                                        [f; w; fb mod 256; fb / 256]) (zrange 0 6)) (zrange 0 30).
Definition ex_S : list Z := wit_cut ex_stream 252 28.

Lemma example_gap_bits_wf : gap_bits_wf ex_g ex_S 252 16.
Proof.
  intros k Hk Hl.
  assert (Hn : zlen ex_S = 692) by (vm_compute; reflexivity).
  rewrite Hn in Hl.
  pose proof (forall_zrange_dec
           (fun k => Bool.eqb (bit0 (znth 0 ex_S (4 * k + 2)))
                       (if 4 * k <? 252 then k mod nwords ex_g <? ncols ex_g
                        else (k - 252 / 4 + 16 / 4) mod nwords ex_g <? ncols ex_g)) 173
           ltac:(vm_compute; reflexivity) k ltac:(lia)) as H.
  apply Bool.eqb_prop in H. exact H.
Qed.

Lemma realign_next_boundary :
  forall g pos ph R, 1 <= ncols g -> 2 <= nrows g ->
    pos mod 4 = 0 -> ph mod 4 = 0 -> 0 <= ph < fsize g -> 0 <= R -> R mod fsize g = 0 -> R <= pos < R + fsize g ->
    let q := if ph / 4 =? 0 then (pos - R) / 4 else (pos - R) / 4 + nwords g - ph / 4 in
    R + 4 * q = next_boundary g pos ph.
Proof.
  intros g pos ph R Hc Hr Hp4 Hph4 Hph HR0 HRm HRp q. unfold next_boundary.
  pose proof (W_bounds g Hc Hr) as HW. assert (Hfs : fsize g = 4 * nwords g) by reflexivity.
  assert (HR4 : R mod 4 = 0).
  { pose proof (Z.div_mod R (fsize g) ltac:(lia)). rewrite HRm in H.
    replace R with ((nwords g * (R / fsize g)) * 4) by lia. apply Z_mod_mult. }
  assert (Egw : pos - R = 4 * ((pos - R) / 4)).
  { pose proof (Z.div_mod (pos - R) 4 ltac:(lia)). rewrite Zminus_mod, Hp4, HR4 in H. cbn in H. lia. }
  assert (Et0 : ph = 4 * (ph / 4)) by (pose proof (Z.div_mod ph 4 ltac:(lia)); lia).
  unfold q. destruct (ph / 4 =? 0) eqn:E0.
  - assert (ph = 0) by lia. subst ph. rewrite Z.sub_0_r, Z_mod_same_full. lia.
  - rewrite Z.mod_small by lia. lia.
Qed.

Lemma example_reader_hyps :
  1 <= ncols wit_g /\ 2 <= nrows wit_g /\ frame_bits_wf wit_g (wit_stream wit_flag2 8).
Proof. split; [cbn; lia|]. split; [cbn; lia|]. exact example_frame_bits_wf. Qed.

Lemma example_realign_hyps :
  1 <= ncols ex_g /\ 2 <= nrows ex_g /\ 252 mod 4 = 0 /\ 16 mod 4 = 0 /\ 0 <= 16 < fsize ex_g /\
  gap_bits_wf ex_g ex_S 252 16 /\ 240 mod fsize ex_g = 0 /\ 240 <= 252 < 240 + fsize ex_g /\
  (252 - 240) / 4 < 16 / 4.
Proof.
  split; [cbn; lia|]. split; [cbn; lia|]. split; [reflexivity|]. split; [reflexivity|].
  split; [cbn; lia|]. split; [exact example_gap_bits_wf|]. split; [reflexivity|]. split; [cbn; lia|]. reflexivity.
Qed.
