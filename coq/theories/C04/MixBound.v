(* C04 — fb_mix_real_bound: the float64 evaluation of the mixed feedback value stays within 1/2 + 2^-34 of
   the exact real value clamp_0^65535 (fbprev + s * int16 err), for finite scales with |s| <= 4.
   Uses Flocq (real-number semantics of the primitive floats) through C13's FloatKit. *)
From Coq Require Import ZArith Reals Floats Lia Lra Uint63 Psatz.
From Flocq Require Import Core IEEE754.BinarySingleNaN IEEE754.PrimFloat.
From Dastard Require Import C04.FloatKit C04.Base C04.Spec.
Open Scope R_scope.

Local Instance fx_valid : Valid_exp fx.
Proof. unfold fx. apply (fexp_correct prec emax). exact Hprec. Qed.
Local Instance fx_mono : Monotone_exp fx.
Proof. rewrite fx_FLT. apply FLT_exp_monotone. Qed.

(* one rounding: |x| <= 2^k  ->  |RN x - x| <= 2^(k-53) *)
Lemma RN_err x k : (-1021 <= k)%Z -> Rabs x <= bpow radix2 k -> Rabs (RN x - x) <= bpow radix2 (k - 53).
Proof.
  intros Hk Hx. unfold RN.
  eapply Rle_trans; [apply error_le_half_ulp; apply fx_valid|].
  assert (Hu : Ulp.ulp radix2 fx x <= bpow radix2 (k - 52)).
  { eapply Rle_trans; [apply (@ulp_le radix2 fx fx_valid fx_mono x (bpow radix2 k))|].
    - rewrite (Rabs_pos_eq (bpow radix2 k)) by apply bpow_ge_0. exact Hx.
    - rewrite ulp_bpow. apply bpow_le. unfold fx, SpecFloat.fexp, SpecFloat.emin, prec, emax. lia. }
  replace (k - 53)%Z with ((k - 52) + (-1))%Z by lia.
  rewrite (bpow_plus radix2 (k - 52) (-1)). change (bpow radix2 (-1)) with (/ 2).
  lra.
Qed.

Lemma kit_leb x y : Ffin x -> Ffin y -> PrimFloat.leb x y = Rle_bool (FR x) (FR y).
Proof. unfold FR, Ffin. intros Hx Hy. rewrite leb_equiv. apply Bleb_correct; auto. Qed.
Lemma kit_eqb x y : Ffin x -> Ffin y -> PrimFloat.eqb x y = Req_bool (FR x) (FR y).
Proof. unfold FR, Ffin. intros Hx Hy. rewrite eqb_equiv. apply Beqb_correct; auto. Qed.

Lemma FR_z2f z : (Z.abs z < 2 ^ 53)%Z -> FR (z2f z) = IZR z /\ Ffin (z2f z).
Proof.
  intros Hz. unfold z2f. destruct (z <? 0)%Z eqn:E.
  - destruct (FR_of_uint63 (- z) ltac:(lia)) as [H1 H2]. rewrite FR_opp, Ffin_opp. split; [|exact H2].
    rewrite H1. rewrite opp_IZR. lra.
  - apply FR_of_uint63. lia.
Qed.

Lemma FR_const_65535 : FR 65535%float = 65535 /\ Ffin 65535%float.
Proof. apply (FR_z2f 65535). cbn; lia. Qed.
Lemma FR_const_0 : FR 0%float = 0 /\ Ffin 0%float.
Proof. apply (FR_z2f 0). cbn; lia. Qed.
Lemma FR_half : FR 0.5%float = /2 /\ Ffin 0.5%float.
Proof.
  split.
  - rewrite FR_SF. vm_compute (Prim2SF 0.5). unfold SF2R, F2R, cond_Zopp, Fnum, Fexp.
    change (bpow radix2 (-53)) with (/ IZR (2 ^ 53)). change (Z.pos 4503599627370496) with (2 ^ 52)%Z.
    change (2 ^ 53)%Z with (2 * 2 ^ 52)%Z. rewrite mult_IZR. field.
    apply IZR_neq. cbn; lia.
  - apply Ffin_SF. vm_compute. reflexivity.
Qed.
Lemma FR_mhalf : FR (-0.5)%float = - /2 /\ Ffin (-0.5)%float.
Proof.
  change (-0.5)%float with (PrimFloat.opp 0.5%float). rewrite FR_opp, Ffin_opp. destruct FR_half. split; [lra | assumption].
Qed.

(* int(x) of Go = truncation of the real value, for every finite x *)
Lemma f2z_trunc x : Ffin x -> f2z x = Ztrunc (FR x).
Proof.
  intros Hf. apply Ffin_SF in Hf. unfold f2z. rewrite FR_SF.
  destruct (Prim2SF x) as [s|s| |s m e]; try discriminate.
  - cbn [SF2R]. now rewrite Ztrunc_IZR.
  - cbn [SF2R]. unfold F2R. cbn [Fnum Fexp].
    destruct (0 <=? e)%Z eqn:Ee.
    + assert (He : (0 <= e)%Z) by lia.
      rewrite <- (IZR_Zpower radix2 e He). rewrite <- mult_IZR, Ztrunc_IZR.
      change (radix2 ^ e)%Z with (2 ^ e)%Z. destruct s; cbn [cond_Zopp]; lia.
    + assert (He : (0 < - e)%Z) by lia.
      assert (Hd : (0 < 2 ^ (- e))%Z) by (apply Z.pow_pos_nonneg; lia).
      replace (bpow radix2 e) with (/ IZR (2 ^ (- e))).
      2:{ replace e with (- (- e))%Z at 2 by lia. rewrite bpow_opp. f_equal.
          rewrite <- (IZR_Zpower radix2 (- e)) by lia. reflexivity. }
      assert (Hdr : 0 < IZR (2 ^ (- e))) by (apply IZR_lt; exact Hd).
      destruct s; cbn [cond_Zopp].
      * assert (Hneg : IZR (- Z.pos m) * / IZR (2 ^ (- e)) <= 0).
        { rewrite opp_IZR. assert (0 <= IZR (Z.pos m) * / IZR (2 ^ (- e))).
          { apply Rmult_le_pos; [apply IZR_le; lia | left; now apply Rinv_0_lt_compat]. }
          lra. }
        rewrite (Ztrunc_ceil _ Hneg). unfold Zceil.
        replace (- (IZR (- Z.pos m) * / IZR (2 ^ (- e)))) with (IZR (Z.pos m) / IZR (2 ^ (- e)))
          by (rewrite opp_IZR; unfold Rdiv; ring).
        rewrite Zfloor_div by lia. reflexivity.
      * assert (Hpos : 0 <= IZR (Z.pos m) * / IZR (2 ^ (- e))).
        { apply Rmult_le_pos; [apply IZR_le; lia | left; now apply Rinv_0_lt_compat]. }
        rewrite (Ztrunc_floor _ Hpos). fold (Rdiv (IZR (Z.pos m)) (IZR (2 ^ (- e)))).
        rewrite Zfloor_div by lia. reflexivity.
Qed.

Definition clamp16 (x : R) : R := Rmax 0 (Rmin 65535 x).

Lemma b36_facts : let b := bpow radix2 (-36) in
  0 < b /\ b <= /16 /\ bpow radix2 (-35) = 2 * b /\ bpow radix2 (-34) = 4 * b.
Proof.
  intros b. unfold b. split; [apply bpow_gt_0|]. split.
  - change (/16) with (bpow radix2 (-4)). apply bpow_le. lia.
  - split.
    + change (-35)%Z with (1 + -36)%Z. rewrite bpow_plus. change (bpow radix2 1) with 2. reflexivity.
    + change (-34)%Z with (2 + -36)%Z. rewrite bpow_plus. change (bpow radix2 2) with 4. reflexivity.
Qed.

Lemma RN_nonneg x : 0 <= x -> 0 <= RN x.
Proof. intros Hx. unfold RN. apply round_ge_generic; auto with typeclass_instances. apply generic_format_0. Qed.

Lemma RN_le_fmt x y : Fmt y -> x <= y -> RN x <= y.
Proof. intros Hy Hxy. unfold RN. apply round_le_generic; auto with typeclass_instances. Qed.

Lemma get_sign_nonneg r : Ffin r -> 0 <= FR r -> get_sign r = true -> FR r = 0.
Proof.
  intros Hf Hr Hs. destruct (Req_dec (FR r) 0) as [E|E]; [exact E|exfalso].
  unfold get_sign, PrimFloat.is_zero in Hs. change zero with 0%float in Hs.
  destruct FR_const_0 as [F0 Ff0].
  rewrite (kit_eqb r 0%float Hf Ff0) in Hs. rewrite F0 in Hs.
  rewrite Req_bool_false in Hs by exact E.
  rewrite (kit_ltb r 0%float Hf Ff0) in Hs. rewrite F0 in Hs.
  rewrite Rlt_bool_false in Hs by exact Hr. discriminate.
Qed.

Lemma bpow17 : bpow radix2 17 = 131072.
Proof. rewrite <- (IZR_Zpower radix2 17) by lia. reflexivity. Qed.
Lemma bpow18 : bpow radix2 18 = 262144.
Proof. rewrite <- (IZR_Zpower radix2 18) by lia. reflexivity. Qed.

Section MixBound.
  Variable s : PrimFloat.float.
  Hypothesis Hsf : Ffin s.
  Hypothesis Hs4 : Rabs (FR s) <= 4.
  Variables p e : Z.
  Hypothesis Hp : (0 <= p <= 65535)%Z.
  Hypothesis He : (0 <= e <= 65535)%Z.

  Let e16 := int16 e.
  Let x := IZR p + FR s * IZR e16.
  Let r := (z2f (int16 e) * s + z2f p)%float.
  Let b := bpow radix2 (-36).

  Lemma e16_range : (-32768 <= e16 <= 32767)%Z.
  Proof. unfold e16, int16. destruct (e <? 32768)%Z eqn:E; lia. Qed.

  Lemma r_facts : Ffin r /\ Rabs (FR r - x) <= 3 * b /\ Rabs (FR r) <= bpow radix2 18.
  Proof.
    pose proof e16_range as He16. destruct b36_facts as (Hb0 & Hb1 & Hb35 & Hb34). fold b in Hb0, Hb1, Hb35, Hb34.
    destruct (FR_z2f e16 ltac:(lia)) as [Fe Fef]. destruct (FR_z2f p ltac:(lia)) as [Fp Fpf].
    assert (Hes : Rabs (IZR e16 * FR s) <= bpow radix2 17).
    { rewrite Rabs_mult. rewrite bpow17. replace 131072 with (32768 * 4) by lra.
      apply Rmult_le_compat; try apply Rabs_pos; [|exact Hs4].
      rewrite <- abs_IZR. apply IZR_le. lia. }
    assert (Ht : FR (z2f e16 * s)%float = RN (IZR e16 * FR s) /\ Ffin (z2f e16 * s)%float).
    { rewrite <- Fe. apply kit_mul; auto. rewrite Fe.
      eapply Rle_lt_trans; [apply (RN_abs_le _ (bpow radix2 17)); [apply Fmt_pow2; lia | exact Hes]|].
      eapply Rle_lt_trans; [|apply BIG_ge]. apply bpow_le. lia. }
    destruct Ht as [Ft Ftf].
    assert (Hterr : Rabs (RN (IZR e16 * FR s) - IZR e16 * FR s) <= b).
    { unfold b. change (-36)%Z with (17 - 53)%Z. apply RN_err; [lia | exact Hes]. }
    assert (Htabs : Rabs (RN (IZR e16 * FR s)) <= bpow radix2 17).
    { apply (RN_abs_le _ (bpow radix2 17)); [apply Fmt_pow2; lia | exact Hes]. }
    assert (Hsum : Rabs (FR (z2f e16 * s)%float + FR (z2f p)) <= bpow radix2 18).
    { rewrite Ft, Fp. eapply Rle_trans; [apply Rabs_triang|].
      rewrite bpow18. replace 262144 with (131072 + 131072) by lra. rewrite <- bpow17 at 1.
      apply Rplus_le_compat; [exact Htabs|]. rewrite <- abs_IZR. apply IZR_le. lia. }
    assert (Hr : FR r = RN (FR (z2f e16 * s)%float + FR (z2f p)) /\ Ffin r).
    { unfold r. fold e16. apply kit_add; auto.
      eapply Rle_lt_trans; [apply (RN_abs_le _ (bpow radix2 18)); [apply Fmt_pow2; lia | exact Hsum]|].
      eapply Rle_lt_trans; [|apply BIG_ge]. apply bpow_le. lia. }
    destruct Hr as [Fr Frf]. split; [exact Frf|]. split.
    - assert (Hrerr : Rabs (FR r - (FR (z2f e16 * s)%float + FR (z2f p))) <= 2 * b).
      { rewrite Fr. rewrite <- Hb35. change (-35)%Z with (18 - 53)%Z. apply RN_err; [lia | exact Hsum]. }
      rewrite Ft, Fp in Hrerr. unfold x.
      replace (FR r - (IZR p + FR s * IZR e16))
        with ((FR r - (RN (IZR e16 * FR s) + IZR p)) + (RN (IZR e16 * FR s) - IZR e16 * FR s)) by ring.
      eapply Rle_trans; [apply Rabs_triang|]. lra.
    - rewrite Fr. apply (RN_abs_le _ (bpow radix2 18)); [apply Fmt_pow2; lia | exact Hsum].
  Qed.
End MixBound.

Lemma clamp_near r x d : 0 <= r <= 65535 -> Rabs (r - x) <= d -> Rabs (clamp16 x - r) <= d.
Proof.
  intros Hr Hd. unfold clamp16, Rmax, Rmin.
  apply Rabs_le_inv in Hd. apply Rabs_le.
  destruct (Rle_dec 65535 x); destruct (Rle_dec 0 _); lra.
Qed.

Lemma fb_mix_real_bound_proof :
  forall s p e, Ffin s -> Rabs (FR s) <= 4 -> (0 <= p <= 65535)%Z -> (0 <= e <= 65535)%Z ->
    (s =? 0)%float = false ->
    Rabs (IZR (mix_value s p e) - clamp16 (IZR p + FR s * IZR (int16 e))) <= /2 + bpow radix2 (-34).
Proof.
  intros s p e Hsf Hs4 Hp He Hs0.
  destruct (r_facts s Hsf Hs4 p e Hp He) as (Frf & Herr & Habs). cbv zeta in Frf, Herr, Habs.
  destruct b36_facts as (Hb0 & Hb1 & Hb35 & Hb34). cbv zeta in Hb0, Hb1, Hb35, Hb34.
  set (b := bpow radix2 (-36)) in *. rewrite Hb34.
  set (x := IZR p + FR s * IZR (int16 e)) in *.
  unfold mix_value. rewrite Hs0.
  set (r := (z2f (int16 e) * s + z2f p)%float) in *.
  destruct FR_const_65535 as [F65 Ff65]. destruct FR_const_0 as [F0 Ff0].
  rewrite (kit_leb _ _ Ff65 Frf), F65. rewrite (kit_ltb _ _ Frf Ff0), F0.
  apply Rabs_le_inv in Herr.
  destruct (Rle_bool_spec 65535 (FR r)) as [H65|H65].
  { (* clipped from above *)
    unfold clamp16, Rmax, Rmin. apply Rabs_le.
    destruct (Rle_dec 65535 x); destruct (Rle_dec 0 _); lra. }
  destruct (Rlt_bool_spec (FR r) 0) as [Hneg|Hnn].
  { unfold clamp16, Rmax, Rmin. apply Rabs_le.
    destruct (Rle_dec 65535 x); destruct (Rle_dec 0 _); lra. }
  (* rounded *)
  assert (Hcl : Rabs (clamp16 x - FR r) <= 3 * b) by (apply clamp_near; [lra | apply Rabs_le; lra]).
  apply Rabs_le_inv in Hcl.
  unfold roundint, copysign_half.
  destruct FR_half as [Fh Fhf]. destruct FR_mhalf as [Fm Fmf].
  destruct (get_sign r) eqn:Esg.
  - (* only possible for a zero *)
    pose proof (get_sign_nonneg r Frf Hnn Esg) as Hr0.
    assert (Hy : FR (r + -0.5)%float = - /2 /\ Ffin (r + -0.5)%float).
    { replace (- /2) with (FR r + FR (-0.5)%float) by (rewrite Hr0, Fm; lra).
      apply kit_add_exact; auto.
      - rewrite Hr0, Fm. replace (0 + - /2) with (- (IZR 1 / 2)) by lra.
        apply generic_format_opp. apply Fmt_half. cbn; lia.
      - rewrite Hr0, Fm. replace (0 + - /2) with (- /2) by lra. rewrite Rabs_Ropp, Rabs_pos_eq by lra.
        eapply Rle_lt_trans; [|apply BIG_ge]. replace (/2) with (bpow radix2 (-1)) by reflexivity.
        apply bpow_le. lia. }
    destruct Hy as [Fy Fyf]. rewrite (f2z_trunc _ Fyf), Fy.
    assert (Ez : Ztrunc (- /2) = 0%Z).
    { rewrite Ztrunc_ceil by lra. unfold Zceil. replace (- - /2) with (/2) by lra.
      rewrite (Zfloor_imp 0); [reflexivity | simpl; lra]. }
    rewrite Ez. cbn [Z.modulo Z.div_eucl]. apply Rabs_le. rewrite Hr0 in Hcl. lra.
  - assert (Hsum : Rabs (FR r + FR 0.5%float) <= bpow radix2 17).
    { rewrite Fh, bpow17. rewrite Rabs_pos_eq by lra. lra. }
    assert (Hy : FR (r + 0.5)%float = RN (FR r + FR 0.5%float) /\ Ffin (r + 0.5)%float).
    { apply kit_add; auto.
      eapply Rle_lt_trans; [apply (RN_abs_le _ (bpow radix2 17)); [apply Fmt_pow2; lia | exact Hsum]|].
      eapply Rle_lt_trans; [|apply BIG_ge]. apply bpow_le. lia. }
    destruct Hy as [Fy Fyf]. rewrite (f2z_trunc _ Fyf).
    assert (Hyerr : Rabs (FR (r + 0.5)%float - (FR r + /2)) <= b).
    { rewrite Fy, Fh. unfold b. change (-36)%Z with (17 - 53)%Z. apply RN_err; [lia|]. now rewrite <- Fh. }
    apply Rabs_le_inv in Hyerr.
    assert (Hy0 : 0 <= FR (r + 0.5)%float) by (rewrite Fy, Fh; apply RN_nonneg; lra).
    assert (Hyub : FR (r + 0.5)%float <= 65535 + /2).
    { rewrite Fy, Fh. apply RN_le_fmt; [|lra].
      replace (65535 + /2) with (IZR 131071 / 2) by lra. apply Fmt_half. cbn; lia. }
    rewrite (Ztrunc_floor _ Hy0).
    set (v := Zfloor (FR (r + 0.5)%float)).
    pose proof (Zfloor_lb (FR (r + 0.5)%float)) as Hlb. pose proof (Zfloor_ub (FR (r + 0.5)%float)) as Hub.
    fold v in Hlb, Hub.
    assert (Hv0 : (0 <= v)%Z).
    { apply le_IZR. destruct (Z_lt_le_dec v 0) as [Hlt|]; [|apply IZR_le; assumption].
      exfalso. assert (IZR v + 1 <= 0) by (rewrite <- plus_IZR; apply IZR_le; lia). lra. }
    assert (Hv1 : (v <= 65535)%Z).
    { apply Z.lt_succ_r. apply lt_IZR. rewrite succ_IZR. lra. }
    rewrite Z.mod_small by lia.
    apply Rabs_le. lra.
Qed.
