(* C04 — vocabulary shared by the mirror model and the observable checker: geometry, sample/float
   conversions of Go (no dastard logic), the block / operation / result types.  Definitions only. *)
From Coq Require Export Floats Uint63.
From Dastard Require Export Common.ZX.

(* ---------- geometry of the one active card ---------- *)
Record geom := { ncols : Z; nrows : Z }.
Definition nwords (g : geom) : Z := ncols g * nrows g.      (* 4-byte words per frame *)
Definition fsize (g : geom) : Z := 4 * nwords g.            (* dev.frameSize, bytes *)
Definition nchan (g : geom) : Z := 2 * nwords g.            (* ls.nchan *)

(* ---------- Go conversions ---------- *)
Definition f2z (x : float) : Z :=                  (* int(x): truncation; amd64 "integer indefinite" otherwise *)
  match Prim2SF x with
  | S754_finite s m e =>
      let v := if 0 <=? e then Zpos m * 2 ^ e else Zpos m / 2 ^ (- e) in
      if s then - v else v
  | S754_zero _ => 0
  | _ => - 2 ^ 63
  end.
Definition z2f (z : Z) : float :=                  (* float64(int), |z| < 2^53 *)
  if z <? 0 then (- of_uint63 (of_Z (- z)))%float else of_uint63 (of_Z z).
Definition copysign_half (x : float) : float := if get_sign x then (-0.5)%float else 0.5%float.
Definition roundint (x : float) : Z := f2z (x + copysign_half x)%float.   (* dastard.roundint *)

Definition mask3 (x : Z) : Z := Z.land x 65532.                  (* & ^RawType(0x03) on a uint16 *)
Definition int16 (x : Z) : Z := if x <? 32768 then x else x - 65536.

(* a float given as sign, integer mantissa, binary exponent (how the harness renders float64 values) *)
Definition mkf (neg : bool) (m e : Z) : float :=
  let f := ldshiftexp (of_uint63 (of_Z m)) (of_Z (e + FloatOps.shift)) in if neg then (- f)%float else f.

(* ---------- what the reader / getNextBlock produce ---------- *)
Inductive pkind :=
| PDivZero        (* nrows := (p-q)/ncols with ncols == 0 *)
| PFirstWordZero  (* panic("not sure what to do here, but it wont self fix") *)
| PDropFromEnd    (* panic("expect dropFromEnd>0") *)
| PNoFrames       (* panic("should not get here") *)
| PIndex          (* index out of range *)
| PMixLen         (* MixFractions shorter than ChannelIndices *)
| PNil.           (* nil dereference: ls.devices[0] missing (only the tree before the fix reads it) *)

(* one tick of the reader goroutine: what it sent on buffersChan, what it released *)
Record bufmsg := { bm_data : list (list Z); bm_stamp : Z; bm_drop : bool }.

Inductive tick_out :=
| TSmall                 (* "lancero read too small": nothing released, nothing sent *)
| TGeom                  (* geometry mismatch: the whole read released, nothing sent *)
| TBuf (m : bufmsg)      (* a BuffersChanType message *)
| TPanic (k : pkind).

Record tick_res := { t_pend : list Z; t_rels : list Z; t_out : tick_out }.

Record block := { b_first : Z; b_dropped : Z; b_data : list (list Z); b_ext : list Z }.

Inductive op :=
| OChunk (bytes : list Z) (stamp : Z)               (* the card hands over these bytes with this time stamp *)
| OMix (chans : list Z) (fracs : list float).       (* ConfigureMixFraction *)

Inductive opres :=
| RTick (rels : list Z) (blk : option block)        (* ReleaseBytes calls of the tick, block delivered (if any) *)
| RMix (ok : bool)                                  (* ConfigureMixFraction returned no error *)
| RPanic (k : pkind).                               (* the process died *)
