(* C04 — evaluation of generated cases: model vs observed implementation output, and the checker. *)
From Dastard Require Import Common.CaseLib C04.Base C04.Model C04.Spec.

Inductive observed :=
| Hist (h : list (op * opres))                 (* every operation with what it produced *)
| Crashed (ops : list op) (k : pkind).         (* the process died somewhere in this script *)

Record case := { c_cfg : cfg; c_rate : Z; c_obs : observed }.

(* dropped-frame estimate for whole-second stamps and an integral frame rate: the Go expression
   roundint(d.Seconds()*sampleRate) is exact there *)
Definition est_of (rate : Z) (prev cur : Z) : Z := (cur - prev) * rate.

Definition zll_eqb := list_eqb zlist_eqb.

Definition block_eqb (a b : block) : bool :=
  (b_first a =? b_first b) && (b_dropped a =? b_dropped b) && zll_eqb (b_data a) (b_data b) &&
  zlist_eqb (b_ext a) (b_ext b).

Definition pkind_eqb (a b : pkind) : bool :=
  match a, b with
  | PDivZero, PDivZero | PFirstWordZero, PFirstWordZero | PDropFromEnd, PDropFromEnd
  | PNoFrames, PNoFrames | PIndex, PIndex | PMixLen, PMixLen | PNil, PNil => true
  | _, _ => false
  end.

Definition opres_eqb (a b : opres) : bool :=
  match a, b with
  | RTick r1 None, RTick r2 None => zlist_eqb r1 r2
  | RTick r1 (Some b1), RTick r2 (Some b2) => zlist_eqb r1 r2 && block_eqb b1 b2
  | RMix x, RMix y => Bool.eqb x y
  | RPanic x, RPanic y => pkind_eqb x y
  | _, _ => false
  end.

Fixpoint first_diff (i : Z) (a b : list opres) : Z :=
  match a, b with
  | [], [] => -1
  | x :: a', y :: b' => if opres_eqb x y then first_diff (i + 1) a' b' else i
  | _, _ => i
  end.

(* A case is a sequence of runs on ONE LanceroSource object (stop, new geometry, start again).  What a run
   delivers must not depend on the previous run, except for what the source carries over by design: the running
   frame number, the external-trigger level and the time of the last block; the Mix objects and the channel order
   table are made afresh.  Every run is compared with the model of THAT run's geometry. *)
Record carry := { y_next : Z; y_ext : bool; y_prev : Z; y_knext : Z; y_kext : bool }.
Definition carry0 : carry := {| y_next := 0; y_ext := false; y_prev := 0; y_knext := 0; y_kext := false |}.

Definition model_start (c : case) (y : carry) : state :=
  start_state (c_g (c_cfg c)) (y_next y) (y_ext y) (y_prev y).
Definition model_run (c : case) (y : carry) (ops : list op) : list opres :=
  run (est_of (c_rate c)) true (c_g (c_cfg c)) (c_nsamp (c_cfg c)) (model_start c y) ops.

(* (code, index of the first diverging operation), and what the run leaves behind *)
Definition verdict1 (c : case) (y : carry) : (Z * Z) * carry :=
  match c_obs c with
  | Hist h =>
      let ops := map fst h in
      let d := first_diff 0 (map snd h) (model_run c y ops) in
      let e := run_end (est_of (c_rate c)) true (c_g (c_cfg c)) (c_nsamp (c_cfg c)) (model_start c y) ops in
      let k := C04_end (c_cfg c) (y_knext y) (y_kext y) h in
      ((verdict_code (d =? -1) (C04_check_from (c_cfg c) (y_knext y) (y_kext y) h), d),
       {| y_next := d_next (s_d e); y_ext := d_ext (s_d e); y_prev := d_prev (s_d e);
          y_knext := k_next k; y_kext := k_ext k |})
  | Crashed ops k =>
      let m := model_run c y ops in
      let agree := match last m (RMix true) with RPanic k' => pkind_eqb k k' | _ => false end in
      (* a crash is never an acceptable answer to a well-formed delivery *)
      let S := stream_of ops in
      ((verdict_code agree (negb (stream_wf (c_cfg c) S && stamps_increasing ops)), zlen m - 1), y)
  end.

Definition verdict (c : case) : Z * Z := fst (verdict1 c carry0).

(* consecutive runs: the first run that is not in order decides; its operation index is offset by 1000*run *)
Fixpoint verdict_runs_from (y : carry) (i : Z) (rs : list case) : Z * Z :=
  match rs with
  | [] => (0, -1)
  | c :: rest =>
      let '((code, d), y') := verdict1 c y in
      if code =? 0 then verdict_runs_from y' (i + 1000) rest else (code, i + d)
  end.
Definition verdict_runs (rs : list case) : Z * Z := verdict_runs_from carry0 0 rs.

(* ---------- compact constructors used by the generated files ---------- *)
Definition byte_of (w k : Z) : Z := (w / 2 ^ (8 * k)) mod 256.
Definition unpack (ws : list Z) (n : Z) : list Z :=
  zfirstn n (flat_map (fun w => [byte_of w 0; byte_of w 1; byte_of w 2; byte_of w 3]) ws).

Definition F := mkf.
Definition Ch (ws : list Z) (n stamp : Z) : op := OChunk (unpack ws n) stamp.
Definition Mx (chans : list Z) (fracs : list float) : op := OMix chans fracs.
Definition T (rels : list Z) : opres := RTick rels None.
Definition TB (rels : list Z) (first dropped : Z) (data : list (list Z)) (ext : list Z) : opres :=
  RTick rels (Some {| b_first := first; b_dropped := dropped; b_data := data; b_ext := ext |}).
Definition MR (ok : bool) : opres := RMix ok.

Definition mkcfg (nc nr nsamp : Z) (gap : option (Z * Z)) : cfg :=
  {| c_g := {| ncols := nc; nrows := nr |}; c_nsamp := nsamp; c_gap := gap |}.
Definition mk (nc nr nsamp rate : Z) (gap : option (Z * Z)) (h : list (op * opres)) : case :=
  {| c_cfg := mkcfg nc nr nsamp gap; c_rate := rate; c_obs := Hist h |}.
Definition mkcrash (nc nr nsamp rate : Z) (gap : option (Z * Z)) (ops : list op) (k : pkind) : case :=
  {| c_cfg := mkcfg nc nr nsamp gap; c_rate := rate; c_obs := Crashed ops k |}.
