(* C04 copy of coq/theories/C13/FloatKit.v (written by the C13 builder), kept here so that C04 does not depend on
   another property's directory.  Real-number semantics of the primitive floats through Flocq. *)
(* C13 — primitive-float toolkit: each PrimFloat operation as "correctly rounded real operation"
   (through Flocq's IEEE754.PrimFloat / BinarySingleNaN), exactness on small dyadic numbers. *)
From Coq Require Import ZArith Reals Floats Lia Lra Uint63.
From Flocq Require Import Core IEEE754.BinarySingleNaN IEEE754.PrimFloat.
Open Scope R_scope.

Definition FR (x : PrimFloat.float) : R := B2R (Prim2B x).
Definition Ffin (x : PrimFloat.float) : Prop := is_finite (Prim2B x) = true.
Definition fx : Z -> Z := SpecFloat.fexp prec emax.
Definition RN (r : R) : R := round radix2 fx ZnearestE r.
Definition Fmt (r : R) : Prop := generic_format radix2 fx r.
Definition BIG : R := bpow radix2 emax.

Lemma fx_FLT : fx = FLT_exp (-1074) 53.
Proof. reflexivity. Qed.

Lemma RN_exact r : Fmt r -> RN r = r.
Proof. intros H. apply round_generic; [apply valid_rnd_N | exact H]. Qed.

Lemma RN_abs_le r b : Fmt b -> Rabs r <= b -> Rabs (RN r) <= b.
Proof.
  intros Hb Hr. apply abs_round_le_generic; auto.
  - unfold fx. apply (fexp_correct prec emax). exact Hprec.
  - apply valid_rnd_N.
Qed.

Lemma Fmt_dyadic m e : (Z.abs m < 2 ^ 53)%Z -> (-1074 <= e)%Z -> Fmt (IZR m * bpow radix2 e).
Proof.
  intros Hm He. unfold Fmt. rewrite fx_FLT.
  apply generic_format_FLT.
  apply (FLT_spec radix2 (-1074) 53 _ (Float radix2 m e)); auto.
Qed.

Lemma Fmt_int m : (Z.abs m < 2 ^ 53)%Z -> Fmt (IZR m).
Proof. intros H. replace (IZR m) with (IZR m * bpow radix2 0) by (simpl; ring). apply Fmt_dyadic; lia. Qed.

Lemma Fmt_half m : (Z.abs m < 2 ^ 53)%Z -> Fmt (IZR m / 2).
Proof.
  intros H. replace (IZR m / 2) with (IZR m * bpow radix2 (-1)).
  - apply Fmt_dyadic; lia.
  - simpl. unfold Rdiv. reflexivity.
Qed.

Lemma Fmt_pow2 e : (-1074 <= e)%Z -> Fmt (bpow radix2 e).
Proof. intros H. replace (bpow radix2 e) with (IZR 1 * bpow radix2 e) by ring. apply Fmt_dyadic; lia. Qed.

Lemma BIG_ge : bpow radix2 53 < BIG.
Proof. apply bpow_lt. reflexivity. Qed.

Lemma small_lt_BIG r : Rabs r <= bpow radix2 53 -> Rabs (RN r) < BIG.
Proof.
  intros H. apply Rle_lt_trans with (bpow radix2 53).
  - apply RN_abs_le; auto. apply Fmt_pow2. lia.
  - apply BIG_ge.
Qed.

(* ---- operations ---- *)
Lemma kit_add x y : Ffin x -> Ffin y -> Rabs (RN (FR x + FR y)) < BIG ->
  FR (x + y)%float = RN (FR x + FR y) /\ Ffin (x + y)%float.
Proof.
  unfold FR, Ffin. intros Hx Hy Hb. rewrite add_equiv.
  generalize (Bplus_correct prec emax Hprec Hmax mode_NE _ _ Hx Hy).
  rewrite Rlt_bool_true by exact Hb. tauto.
Qed.

Lemma kit_sub x y : Ffin x -> Ffin y -> Rabs (RN (FR x - FR y)) < BIG ->
  FR (x - y)%float = RN (FR x - FR y) /\ Ffin (x - y)%float.
Proof.
  unfold FR, Ffin. intros Hx Hy Hb. rewrite sub_equiv.
  generalize (Bminus_correct prec emax Hprec Hmax mode_NE _ _ Hx Hy).
  rewrite Rlt_bool_true by exact Hb. tauto.
Qed.

Lemma kit_mul x y : Ffin x -> Ffin y -> Rabs (RN (FR x * FR y)) < BIG ->
  FR (x * y)%float = RN (FR x * FR y) /\ Ffin (x * y)%float.
Proof.
  unfold FR, Ffin. intros Hx Hy Hb. rewrite mul_equiv.
  generalize (Bmult_correct prec emax Hprec Hmax mode_NE (Prim2B x) (Prim2B y)).
  rewrite Rlt_bool_true by exact Hb. rewrite Hx, Hy. tauto.
Qed.

Lemma kit_div x y : Ffin x -> FR y <> 0 -> Rabs (RN (FR x / FR y)) < BIG ->
  FR (x / y)%float = RN (FR x / FR y) /\ Ffin (x / y)%float.
Proof.
  unfold FR, Ffin. intros Hx Hy Hb. rewrite div_equiv.
  generalize (Bdiv_correct prec emax Hprec Hmax mode_NE (Prim2B x) (Prim2B y) Hy).
  rewrite Rlt_bool_true by exact Hb. rewrite Hx. tauto.
Qed.

Lemma kit_ltb x y : Ffin x -> Ffin y -> PrimFloat.ltb x y = Rlt_bool (FR x) (FR y).
Proof. unfold FR, Ffin. intros Hx Hy. rewrite ltb_equiv. apply Bltb_correct; auto. Qed.

(* exact versions *)
Lemma kit_add_exact x y : Ffin x -> Ffin y -> Fmt (FR x + FR y) -> Rabs (FR x + FR y) < BIG ->
  FR (x + y)%float = FR x + FR y /\ Ffin (x + y)%float.
Proof.
  intros Hx Hy Hf Hb. rewrite <- (RN_exact _ Hf) at 1.
  apply kit_add; auto. rewrite RN_exact; auto.
Qed.
Lemma kit_sub_exact x y : Ffin x -> Ffin y -> Fmt (FR x - FR y) -> Rabs (FR x - FR y) < BIG ->
  FR (x - y)%float = FR x - FR y /\ Ffin (x - y)%float.
Proof.
  intros Hx Hy Hf Hb. rewrite <- (RN_exact _ Hf) at 1.
  apply kit_sub; auto. rewrite RN_exact; auto.
Qed.
Lemma kit_mul_exact x y : Ffin x -> Ffin y -> Fmt (FR x * FR y) -> Rabs (FR x * FR y) < BIG ->
  FR (x * y)%float = FR x * FR y /\ Ffin (x * y)%float.
Proof.
  intros Hx Hy Hf Hb. rewrite <- (RN_exact _ Hf) at 1.
  apply kit_mul; auto. rewrite RN_exact; auto.
Qed.

(* ---- constants and conversions ---- *)
Lemma FR_SF x : FR x = SF2R radix2 (Prim2SF x).
Proof. unfold FR, Prim2B. apply B2R_SF2B. Qed.

Lemma Ffin_SF x : Ffin x <-> is_finite_SF (Prim2SF x) = true.
Proof. unfold Ffin. rewrite <- B2SF_Prim2B. rewrite is_finite_SF_B2SF. tauto. Qed.

Lemma abs_lt_BIG (z : Z) : (Z.abs z <= 2 ^ 53)%Z -> Rabs (IZR z) <= bpow radix2 53.
Proof.
  intros H. rewrite <- abs_IZR. change (bpow radix2 53) with (IZR (2 ^ 53)). apply IZR_le. exact H.
Qed.

Lemma FR_of_uint63 (z : Z) : (0 <= z < 2 ^ 53)%Z ->
  FR (PrimFloat.of_uint63 (Uint63.of_Z z)) = IZR z /\ Ffin (PrimFloat.of_uint63 (Uint63.of_Z z)).
Proof.
  intros Hz. unfold FR, Ffin. rewrite of_int63_equiv.
  assert (Hto : Uint63.to_Z (Uint63.of_Z z) = z).
  { rewrite Uint63.of_Z_spec. apply Z.mod_small. change wB with (2 ^ 63)%Z. lia. }
  rewrite Hto.
  generalize (binary_normalize_correct prec emax Hprec Hmax mode_NE z 0 false).
  cbv zeta.
  assert (HF : F2R (Float radix2 z 0) = IZR z) by (unfold F2R; simpl; ring).
  rewrite HF.
  assert (Hfmt : Fmt (IZR z)) by (apply Fmt_int; lia).
  change (round radix2 (SpecFloat.fexp prec emax) (round_mode mode_NE) (IZR z)) with (RN (IZR z)).
  rewrite (RN_exact _ Hfmt).
  rewrite Rlt_bool_true.
  - tauto.
  - apply Rle_lt_trans with (bpow radix2 53); [apply abs_lt_BIG; lia | apply BIG_ge].
Qed.

Lemma FR_opp x : FR (- x)%float = - FR x.
Proof. unfold FR. rewrite opp_equiv. apply B2R_Bopp. Qed.
Lemma Ffin_opp x : Ffin (- x)%float <-> Ffin x.
Proof. unfold Ffin. rewrite opp_equiv. rewrite is_finite_Bopp. tauto. Qed.
