(* C04 — the model's whole history passes the observable checker on every uninterrupted well-formed delivery
   (any chunking, any mix requests).  Lemmas only; the headline theorem is restated in Properties.v. *)
From Coq Require Import ZifyBool ZifyNat.
From Dastard Require Import C04.Base C04.Model C04.Spec C04.Proofs.

Definition dmix : mixst := {| m_scale := 0%float; m_last := 0 |}.

(* ---------- dist_chans, channel by channel ---------- *)
Lemma dist_chans_spec data tbl : forall mixes ch,
  zlen (fst (dist_chans data tbl ch mixes)) = zlen mixes /\
  zlen (snd (dist_chans data tbl ch mixes)) = zlen mixes /\
  forall i, 0 <= i < zlen mixes ->
    let m := znth dmix mixes i in
    let d := znth [] data (znth 0 tbl (ch + i)) in
    let e := znth [] data (znth 0 tbl (ch + i - 1)) in
    if (ch + i) mod 2 =? 1
    then znth [] (snd (dist_chans data tbl ch mixes)) i = snd (mix_retard (m_scale m) (m_last m) d e) /\
         znth dmix (fst (dist_chans data tbl ch mixes)) i =
           {| m_scale := m_scale m; m_last := fst (mix_retard (m_scale m) (m_last m) d e) |}
    else znth [] (snd (dist_chans data tbl ch mixes)) i = d /\
         znth dmix (fst (dist_chans data tbl ch mixes)) i = m.
Proof.
  induction mixes as [|m mr IH]; intros ch.
  - cbn. repeat split; try reflexivity. intros i Hi. unfold zlen in Hi; cbn in Hi; lia.
  - cbn [dist_chans].
    destruct (IH (ch + 1)) as (IH1 & IH2 & IH3).
    destruct (dist_chans data tbl (ch + 1) mr) as [ms ds] eqn:Erest. cbn [fst snd] in *.
    set (d0 := znth [] data (znth 0 tbl ch)).
    set (e0 := znth [] data (znth 0 tbl (ch - 1))).
    destruct (ch mod 2 =? 1) eqn:Eodd.
    + destruct (mix_retard (m_scale m) (m_last m) d0 e0) as [last' out] eqn:Emr. cbn [fst snd].
      rewrite !zlen_cons. repeat split; try lia.
      intros i Hi. destruct (Z.eq_dec i 0) as [->|Hi0].
      * replace (ch + 0) with ch by lia. rewrite Eodd. rewrite !znth_cons_0.
        replace (ch - 1) with (ch - 1) by lia. fold d0. replace (ch + 0 - 1) with (ch - 1) by lia. fold e0.
        rewrite Emr. cbn [fst snd]. split; reflexivity.
      * rewrite !znth_cons_S by lia. specialize (IH3 (i - 1) ltac:(lia)).
        replace (ch + 1 + (i - 1)) with (ch + i) in IH3 by lia. exact IH3.
    + cbn [fst snd]. rewrite !zlen_cons. repeat split; try lia.
      intros i Hi. destruct (Z.eq_dec i 0) as [->|Hi0].
      * replace (ch + 0) with ch by lia. rewrite Eodd. rewrite !znth_cons_0. fold d0. split; reflexivity.
      * rewrite !znth_cons_S by lia. specialize (IH3 (i - 1) ltac:(lia)).
        replace (ch + 1 + (i - 1)) with (ch + i) in IH3 by lia. exact IH3.
Qed.

(* ---------- exactly demultiplexed frames ---------- *)
Lemma zlen_exact_data g S R m : 0 <= nchan g -> zlen (exact_data g S R m) = nchan g.
Proof. intros. unfold exact_data. rewrite zlen_map, zlen_zrange; lia. Qed.

Lemma znth_exact_data_row g S R m i : 0 <= i < nchan g -> 0 <= m ->
  znth [] (exact_data g S R m) i = map (fun j => u16_at S (R + j * fsize g + 2 * i)) (zrange 0 m).
Proof.
  intros Hi Hm. unfold exact_data. rewrite (znth_map _ 0) by (rewrite zlen_zrange; lia).
  rewrite znth_zrange by lia. replace (0 + i) with i by lia. reflexivity.
Qed.

Lemma exact_data_rows_len g S R m d : 0 <= m -> In d (exact_data g S R m) -> zlen d = m.
Proof.
  intros Hm Hin. unfold exact_data in Hin. apply in_map_iff in Hin as (i & <- & _).
  rewrite zlen_map, zlen_zrange; lia.
Qed.

Lemma shape_ok_exact g S R m : 0 < nchan g -> 0 <= m -> shape_ok g (exact_data g S R m) = true.
Proof.
  intros Hn Hm. unfold shape_ok. rewrite zlen_exact_data by lia.
  rewrite Z.eqb_refl. cbn [andb]. apply andb_true_iff. split; [lia|].
  apply forallb_forall. intros d Hd. rewrite (exact_data_rows_len g S R m d Hm Hd).
  rewrite znth_exact_data_row by lia. rewrite zlen_map, zlen_zrange by lia. lia.
Qed.

Section Words.
  Variable g : geom.
  Hypothesis Hc : 1 <= ncols g.
  Hypothesis Hr : 1 <= nrows g.

  Lemma word_decompose w : 0 <= w < nwords g ->
    0 <= w / ncols g < nrows g /\ 0 <= w mod ncols g < ncols g /\ w = (w / ncols g) * ncols g + w mod ncols g.
  Proof.
    intros Hw. unfold nwords in Hw.
    pose proof (Z.div_mod w (ncols g) ltac:(lia)). pose proof (Z.mod_pos_bound w (ncols g) ltac:(lia)).
    assert (0 <= w / ncols g) by (apply Z.div_pos; lia).
    assert (w / ncols g < nrows g) by (apply Z.div_lt_upper_bound; lia).
    repeat split; lia.
  Qed.

  Lemma chan_of_word_range w e : 0 <= w < nwords g -> 0 <= e < 2 -> 0 <= chan_of_word g w e < nchan g.
  Proof.
    intros Hw He. destruct (word_decompose w Hw) as (H1 & H2 & _). unfold chan_of_word, nchan, nwords. nia.
  Qed.

  Lemma chan_of_word_parity w e : 0 <= e < 2 -> chan_of_word g w e mod 2 = e.
  Proof.
    intros He. unfold chan_of_word. symmetry.
    apply Z.mod_unique with (q := w mod ncols g * nrows g + w / ncols g); lia.
  Qed.

  Lemma tbl_chan_of_word w e : 0 <= w < nwords g -> 0 <= e < 2 ->
    znth 0 (chan2readout g) (chan_of_word g w e) = 2 * w + e.
  Proof.
    intros Hw He. destruct (word_decompose w Hw) as (H1 & H2 & H3). unfold chan_of_word.
    rewrite (chan2readout_rc g Hc Hr) by lia. lia.
  Qed.

  Lemma chan_of_word_inj w w' : 0 <= w < nwords g -> 0 <= w' < nwords g ->
    chan_of_word g w 1 = chan_of_word g w' 1 -> w = w'.
  Proof.
    intros Hw Hw' E. pose proof (tbl_chan_of_word w 1 Hw ltac:(lia)). pose proof (tbl_chan_of_word w' 1 Hw' ltac:(lia)).
    rewrite E in H. lia.
  Qed.

  (* an odd channel in range is the feedback channel of exactly the word the checker computes *)
  Lemma word_of_chan ch : 0 <= ch < nchan g -> ch mod 2 = 1 ->
    let p := ch / 2 in
    let w := (p mod nrows g) * ncols g + p / nrows g in
    0 <= w < nwords g /\ chan_of_word g w 1 = ch.
  Proof.
    intros Hch Hodd p w. unfold nchan, nwords in *.
    pose proof (Z.div_mod ch 2 ltac:(lia)) as Hd. rewrite Hodd in Hd. fold p in Hd.
    assert (Hp : 0 <= p < ncols g * nrows g) by (unfold p; split; [apply Z.div_pos; lia | apply Z.div_lt_upper_bound; lia]).
    pose proof (Z.div_mod p (nrows g) ltac:(lia)). pose proof (Z.mod_pos_bound p (nrows g) ltac:(lia)).
    assert (0 <= p / nrows g) by (apply Z.div_pos; lia).
    assert (p / nrows g < ncols g) by (apply Z.div_lt_upper_bound; lia).
    split; [unfold w; nia|].
    unfold chan_of_word, w.
    assert (E1 : (p mod nrows g * ncols g + p / nrows g) mod ncols g = p / nrows g).
    { symmetry. apply Z.mod_unique with (q := p mod nrows g); lia. }
    assert (E2 : (p mod nrows g * ncols g + p / nrows g) / ncols g = p mod nrows g).
    { symmetry. apply Z.div_unique with (r := p / nrows g); lia. }
    rewrite E1, E2. lia.
  Qed.
End Words.

(* ---------- small facts ---------- *)
Lemma last_cleared_nonempty : forall fbs p, fbs <> [] -> last_cleared p fbs = mask3 (last fbs 0).
Proof.
  unfold last_cleared. induction fbs as [|f fr IH]; intros p Hne; [contradiction|].
  cbn [fold_left]. destruct fr as [|f2 fr']; [reflexivity|].
  rewrite IH by discriminate. reflexivity.
Qed.

Lemma fold_right_checks {A} (ok : Z -> bool) (v : Z -> A) (l : list Z) :
  (forall w, In w l -> ok w = true) ->
  fold_right (fun w acc => (ok w && fst acc, v w :: snd acc)) (true, []) l = (true, map v l).
Proof.
  induction l as [|w l IH]; intros H; [reflexivity|].
  cbn [fold_right map]. rewrite IH by (intros; apply H; now right). cbn [fst snd].
  rewrite (H w) by now left. reflexivity.
Qed.

Lemma mix_valid_same g chans : mix_valid (nchan g) chans = mix_chans_valid g chans.
Proof.
  unfold mix_valid, mix_chans_valid. induction chans as [|c r IH]; [reflexivity|].
  cbn [forallb]. rewrite IH. f_equal. f_equal.
  pose proof (Z.mod_pos_bound c 2 ltac:(lia)). lia.
Qed.

Lemma zlen_upd_nth {A} (l : list A) n v : zlen (upd_nth l n v) = zlen l.
Proof. unfold zlen. now rewrite upd_nth_length. Qed.

Lemma znth_upd_nth_same {A} (d : A) l i v : 0 <= i < zlen l -> znth d (upd_nth l (Z.to_nat i) v) i = v.
Proof.
  intros Hi. unfold znth. destruct (i <? 0) eqn:E; [lia|]. apply nth_upd_nth_same. unfold zlen in Hi. lia.
Qed.

Lemma znth_upd_nth_other {A} (d : A) l i j v : 0 <= i -> 0 <= j -> i <> j ->
  znth d (upd_nth l (Z.to_nat i) v) j = znth d l j.
Proof.
  intros Hi Hj Hne. unfold znth. destruct (j <? 0) eqn:E; [lia|]. apply nth_upd_nth_other. lia.
Qed.

Section Glue.
  Variable est : Z -> Z -> Z.
  Variable g : geom.
  Variable nsamp : Z.
  Hypothesis Hc : 1 <= ncols g.
  Hypothesis Hr : 2 <= nrows g.
  Let W := nwords g.
  Let fs := fsize g.
  Variable S : list Z.
  Hypothesis Hwf : frame_bits_wf g S.
  Let c : cfg := {| c_g := g; c_nsamp := nsamp; c_gap := None |}.

  Lemma Wpos : 2 <= W /\ fs = 4 * W /\ nchan g = 2 * W.
  Proof. unfold W, fs, fsize, nchan, nwords. nia. Qed.

  Definition errs_of (R m w : Z) : list Z := map (fun j => err_at S (R + j * fs) w) (zrange 0 m).
  Definition fbs_of (R m w : Z) : list Z := map (fun j => fb_at S (R + j * fs) w) (zrange 0 m).

  Lemma exact_row_err R m w : 0 <= w < W -> 0 <= m -> znth [] (exact_data g S R m) (2 * w) = errs_of R m w.
  Proof.
    intros Hw Hm. destruct Wpos as (HW & Hfs & Hn).
    rewrite znth_exact_data_row by lia. unfold errs_of, err_at. apply map_ext. intros j. f_equal. fold fs. lia.
  Qed.
  Lemma exact_row_fb R m w : 0 <= w < W -> 0 <= m -> znth [] (exact_data g S R m) (2 * w + 1) = fbs_of R m w.
  Proof.
    intros Hw Hm. destruct Wpos as (HW & Hfs & Hn).
    rewrite znth_exact_data_row by lia. unfold fbs_of, fb_at. apply map_ext. intros j. f_equal. fold fs. lia.
  Qed.
  Lemma zlen_errs_of R m w : 0 <= m -> zlen (errs_of R m w) = m.
  Proof. intros. unfold errs_of. rewrite zlen_map, zlen_zrange; lia. Qed.
  Lemma zlen_fbs_of R m w : 0 <= m -> zlen (fbs_of R m w) = m.
  Proof. intros. unfold fbs_of. rewrite zlen_map, zlen_zrange; lia. Qed.

  (* distributeData on exactly demultiplexed frames *)
  Lemma distribute_exact dst R m stamp :
    zlen (d_mix dst) = nchan g -> 1 <= m ->
    let segs := snd (dist_chans (exact_data g S R m) (chan2readout g) 0 (d_mix dst)) in
    let mix' := fst (dist_chans (exact_data g S R m) (chan2readout g) 0 (d_mix dst)) in
    let flags := row_flags g S R m (d_next dst + 0) in
    distribute_gen est true g dst {| bm_data := exact_data g S R m; bm_stamp := stamp; bm_drop := false |} =
      Ok ({| d_next := d_next dst + m + 0; d_ext := last_flag (d_ext dst) flags; d_prev := stamp; d_mix := mix' |},
          {| b_first := d_next dst + 0; b_dropped := 0; b_data := segs; b_ext := edges (d_ext dst) flags |}) /\
    zlen mix' = nchan g /\ zlen segs = nchan g /\ (forall d, In d segs -> zlen d = m) /\
    forall w, 0 <= w < W ->
      let mx := znth dmix (d_mix dst) (chan_of_word g w 1) in
      znth [] segs (chan_of_word g w 0) = errs_of R m w /\
      znth [] segs (chan_of_word g w 1) = exp_fb (m_scale mx) (m_last mx) (fbs_of R m w) (errs_of R m w) /\
      znth dmix mix' (chan_of_word g w 1) =
        {| m_scale := m_scale mx; m_last := last_cleared (m_last mx) (fbs_of R m w) |}.
  Proof.
    intros Hml Hm segs mix' flags. destruct Wpos as (HW & Hfs & Hn).
    destruct (dist_chans_spec (exact_data g S R m) (chan2readout g) (d_mix dst) 0) as (Hl1 & Hl2 & Hpt).
    fold segs in Hl2, Hpt. fold mix' in Hl1, Hpt.
    assert (Hc1 : 1 <= nrows g) by lia.
    (* the per-word facts *)
    assert (Hwords : forall w, 0 <= w < W ->
      let mx := znth dmix (d_mix dst) (chan_of_word g w 1) in
      znth [] segs (chan_of_word g w 0) = errs_of R m w /\
      znth [] segs (chan_of_word g w 1) = exp_fb (m_scale mx) (m_last mx) (fbs_of R m w) (errs_of R m w) /\
      znth dmix mix' (chan_of_word g w 1) =
        {| m_scale := m_scale mx; m_last := last_cleared (m_last mx) (fbs_of R m w) |}).
    { intros w Hw mx.
      pose proof (chan_of_word_range g Hc Hc1 w 0 Hw ltac:(lia)) as R0.
      pose proof (chan_of_word_range g Hc Hc1 w 1 Hw ltac:(lia)) as R1.
      pose proof (Hpt (chan_of_word g w 0) ltac:(lia)) as P0. cbv zeta in P0.
      pose proof (Hpt (chan_of_word g w 1) ltac:(lia)) as P1. cbv zeta in P1.
      replace (0 + chan_of_word g w 0) with (chan_of_word g w 0) in P0 by lia.
      replace (0 + chan_of_word g w 1) with (chan_of_word g w 1) in P1 by lia.
      rewrite (chan_of_word_parity g w 0 ltac:(lia)) in P0. rewrite (chan_of_word_parity g w 1 ltac:(lia)) in P1.
      cbn [Z.eqb] in P0, P1.
      replace (chan_of_word g w 1 - 1) with (chan_of_word g w 0) in P1 by (unfold chan_of_word; lia).
      rewrite (tbl_chan_of_word g Hc Hc1 w 0 Hw ltac:(lia)) in P0, P1.
      rewrite (tbl_chan_of_word g Hc Hc1 w 1 Hw ltac:(lia)) in P1.
      replace (2 * w + 0) with (2 * w) in P0, P1 by lia.
      rewrite exact_row_err in P0, P1 by lia. rewrite exact_row_fb in P1 by lia.
      fold mx in P1. rewrite mix_retard_exp in P1 by (rewrite zlen_fbs_of, zlen_errs_of; lia).
      cbn [fst snd] in P1. destruct P0 as [P0 _]. destruct P1 as [P1a P1b]. repeat split; assumption. }
    assert (Hrows : forall d, In d segs -> zlen d = m).
    { intros d Hd. apply (In_nth _ _ []) in Hd as (n & Hn' & <-).
      assert (Hi : 0 <= Z.of_nat n < zlen (d_mix dst)) by (unfold zlen in *; lia).
      pose proof (Hpt (Z.of_nat n) Hi) as P. cbv zeta in P.
      assert (Ez : nth n segs [] = znth [] segs (Z.of_nat n)).
      { unfold znth. destruct (Z.of_nat n <? 0) eqn:E; [lia|]. now rewrite Nat2Z.id. }
      rewrite Ez.
      assert (Htbl : forall ch, 0 <= ch < nchan g -> 0 <= znth 0 (chan2readout g) ch < nchan g).
      { intros ch Hch. destruct (chan_order_bijection_proof g Hc Hc1) as (_ & _ & H3 & _). now apply H3. }
      destruct ((0 + Z.of_nat n) mod 2 =? 1) eqn:Eodd.
      - destruct P as [P _]. rewrite P. rewrite mix_retard_exp.
        + cbn [snd]. rewrite zlen_exp_fb.
          * rewrite znth_exact_data_row by (try apply Htbl; lia). rewrite zlen_map, zlen_zrange; lia.
          * assert (0 + Z.of_nat n <> 0) by (intros E0; rewrite E0 in Eodd; cbn in Eodd; discriminate).
            rewrite !znth_exact_data_row by (try apply Htbl; lia). rewrite !zlen_map, !zlen_zrange; lia.
        + assert (0 + Z.of_nat n <> 0) by (intros E0; rewrite E0 in Eodd; cbn in Eodd; discriminate).
          rewrite !znth_exact_data_row by (try apply Htbl; lia). rewrite !zlen_map, !zlen_zrange; lia.
      - destruct P as [P _]. rewrite P. rewrite znth_exact_data_row by (try apply Htbl; lia).
        rewrite zlen_map, zlen_zrange; lia. }
    split; [|split; [lia|split; [lia|split; [exact Hrows|exact Hwords]]]].
    unfold distribute_gen. cbn [bm_data bm_stamp bm_drop].
    rewrite shape_ok_exact by lia. cbn [negb].
    assert (Efu : zlen (znth [] (exact_data g S R m) 0) = m).
    { rewrite znth_exact_data_row by lia. rewrite zlen_map, zlen_zrange; lia. }
    rewrite Efu. rewrite ext_scan_exact by lia.
    destruct (dist_chans (exact_data g S R m) (chan2readout g) 0 (d_mix dst)) as [mx sg] eqn:Ed.
    subst segs mix'. cbn [fst snd]. reflexivity.
  Qed.
End Glue.

Section GlueRun.
  Variable est : Z -> Z -> Z.
  Variable g : geom.
  Variable nsamp : Z.
  Hypothesis Hc : 1 <= ncols g.
  Hypothesis Hr : 2 <= nrows g.
  Let W := nwords g.
  Let fs := fsize g.
  Variable S : list Z.
  Hypothesis Hwf : frame_bits_wf g S.
  Let c : cfg := {| c_g := g; c_nsamp := nsamp; c_gap := None |}.

  (* model state and checker state describe the same situation; D bytes delivered *)
  Record Inv (D : Z) (st : state) (k : cst) : Prop := {
    i_D : k_D k = D;
    i_fpos : k_fpos k = k_R k;
    i_Rb : 0 <= k_R k <= D;
    i_mod : k_R k mod fs = 0;
    i_pend : s_pend st = zslice S (k_R k) (D - k_R k);
    i_next : d_next (s_d st) = k_next k;
    i_ext : d_ext (s_d st) = k_ext k;
    i_mixlen : zlen (d_mix (s_d st)) = nchan g;
    i_klast : zlen (k_last k) = W;
    i_kscale : zlen (k_scale k) = W;
    i_corr : forall w, 0 <= w < W ->
               m_last (znth dmix (d_mix (s_d st)) (chan_of_word g w 1)) = znth 0 (k_last k) w /\
               m_scale (znth dmix (d_mix (s_d st)) (chan_of_word g w 1)) = znth 0%float (k_scale k) w;
    i_real : k_realigned k = false;
    i_lost : k_lost k = false
  }.

  Lemma frame_bits_from0 : frame_bits_wf_from g S 0.
  Proof. intros k Hk Hl. replace (0 + 4 * k + 2) with (4 * k + 2) in * by lia. now apply Hwf. Qed.

  (* ---------- a chunk ---------- *)
  Lemma chunk_step S1 st k bytes stamp S2 :
    let D := zlen S1 in
    Inv D st k -> S = S1 ++ bytes ++ S2 ->
    exists st' r k',
      step est true g nsamp st (OChunk bytes stamp) = (st', r) /\
      (forall kd, r <> RPanic kd) /\
      check_step c S k (OChunk bytes stamp) r = Some k' /\
      Inv (D + zlen bytes) st' k'.
  Proof.
    intros D I HS. destruct (Wpos est g Hc Hr) as (HW & Hfs & Hn). fold W in HW, Hfs, Hn. fold fs in Hfs.
    pose proof (zlen_nonneg bytes) as Hb0. pose proof (zlen_nonneg S2) as Hs0.
    destruct I as [iD ifp iRb imod ipend inext iext iml ikl iks icorr ireal ilost].
    set (R := k_R k) in *.
    assert (HD0 : 0 <= D) by (unfold D; apply zlen_nonneg).
    assert (HlenS : zlen S = D + zlen bytes + zlen S2).
    { rewrite HS. rewrite !zlen_app. unfold D. lia. }
    set (L := D + zlen bytes - R).
    assert (Hb : s_pend st ++ bytes = zslice S R L).
    { unfold L. replace (D + zlen bytes - R) with ((D - R) + zlen bytes) by lia.
      rewrite zslice_app_split by lia. rewrite <- ipend. f_equal.
      replace (R + (D - R)) with D by lia. rewrite HS. unfold D. now rewrite zslice_mid. }
    pose proof (reader_tick_aligned g Hc Hr S 0 ltac:(lia) frame_bits_from0 (s_pend st) bytes stamp R L
                  ltac:(lia) ltac:(now rewrite Z.sub_0_r) ltac:(unfold L; lia) ltac:(unfold L; lia) Hb) as Htick.
    fold fs in Htick.
    unfold step. rewrite Htick.
    destruct (L <? 3 * fs) eqn:E3.
    - (* read too small *)
      cbn [t_out t_pend t_rels].
      eexists _, _, _. split; [reflexivity|]. split; [discriminate|].
      unfold check_step. subst c. cbn [c_g c_gap c_nsamp]. replace (zlen [] =? 0) with true by reflexivity.
      cbn [k_D k_R]. rewrite iD. fold R. fold fs.
      destruct (D + zlen bytes - R <? 3 * fs) eqn:E3'; [|unfold L in E3; lia].
      split; [reflexivity|].
      constructor; cbn [k_D k_R k_fpos k_next k_ext k_last k_scale k_realigned k_lost s_pend s_d]; auto; try lia.
    - (* whole frames *)
      set (m := L / fs).
      assert (Hm3 : 3 <= m) by (unfold m; apply Z.div_le_lower_bound; lia).
      assert (Hmfs : m * fs <= L) by (unfold m; rewrite Z.mul_comm; apply Z.mul_div_le; lia).
      assert (Hmfs2 : L < m * fs + fs).
      { unfold m. pose proof (Z.mod_pos_bound L fs ltac:(lia)). pose proof (Z.div_mod L fs ltac:(lia)). lia. }
      cbn [t_out t_pend t_rels].
      destruct (distribute_exact est g Hc Hr S (s_d st) R m stamp iml ltac:(lia))
        as (Hdist & Hlm & Hls & Hrows & Hwords).
      rewrite Hdist.
      set (segs := snd (dist_chans (exact_data g S R m) (chan2readout g) 0 (d_mix (s_d st)))) in *.
      set (mix' := fst (dist_chans (exact_data g S R m) (chan2readout g) 0 (d_mix (s_d st)))) in *.
      set (flags := row_flags g S R m (d_next (s_d st) + 0)) in *.
      eexists _, _, _. split; [reflexivity|]. split; [discriminate|].
      (* the checker *)
      unfold check_step, check_block, check_words. subst c.
      cbn [c_g c_gap c_nsamp b_data b_dropped b_first b_ext k_D k_R k_fpos k_next k_ext k_last k_scale k_realigned k_lost].
      fold fs. fold W.
      assert (Eseg0 : zlen (znth [] segs 0) = m).
      { apply Hrows. unfold znth. cbn. apply nth_In. unfold zlen in Hls. lia. }
      rewrite Eseg0. rewrite Hls, Z.eqb_refl.
      replace (1 <=? m) with true by lia.
      replace (forallb (fun d => zlen d =? m) segs) with true
        by (symmetry; apply forallb_forall; intros d Hd; rewrite (Hrows d Hd); lia).
      cbn [andb Z.eqb]. rewrite ifp. fold R. rewrite iD.
      replace (R + m * fs <=? D + zlen bytes) with true by (unfold L in *; lia).
      rewrite inext. replace (k_next k + 0 =? k_next k) with true by lia.
      (* words *)
      rewrite (fold_right_checks
                 (fun w => zlist_eqb (znth [] segs (chan_of_word g w 0))
                                     (map (fun j => err_at S (R + j * fs) w) (zrange 0 m)) &&
                           zlist_eqb (znth [] segs (chan_of_word g w 1))
                                     (exp_fb (znth 0%float (k_scale k) w) (znth 0 (k_last k) w)
                                             (map (fun j => fb_at S (R + j * fs) w) (zrange 0 m))
                                             (map (fun j => err_at S (R + j * fs) w) (zrange 0 m))))
                 (fun w => mask3 (last (map (fun j => fb_at S (R + j * fs) w) (zrange 0 m)) 0))).
      2:{ intros w Hw. apply in_zrange in Hw. destruct (Hwords w ltac:(fold W; lia)) as (He & Hf & _).
          destruct (icorr w ltac:(lia)) as (Hl & Hsc).
          apply andb_true_iff. split; apply zlist_eqb_eq.
          - rewrite He. reflexivity.
          - rewrite Hf, Hl, Hsc. reflexivity. }
      cbn [fst snd].
      replace (row_flags g S R m (k_next k + 0)) with flags by (unfold flags; now rewrite inext).
      rewrite iext.
      replace (zlist_eqb (edges (k_ext k) flags) (edges (k_ext k) flags)) with true
        by (symmetry; now apply zlist_eqb_eq).
      unfold zsum. cbn [fold_right].
      replace (R + (m * fs + 0) =? R + m * fs) with true by lia.
      rewrite ?Z.eqb_refl. cbn [andb].
      cbn [k_D k_R]. replace (D + zlen bytes - (R + (m * fs + 0)) <? 3 * fs) with true by (unfold L in *; lia).
      split; [reflexivity|].
      constructor; cbn [k_D k_R k_fpos k_next k_ext k_last k_scale k_realigned k_lost s_pend s_d d_next d_ext d_mix]; auto; try lia.
      + replace (R + (m * fs + 0)) with (R + m * fs) by lia. now rewrite Z_mod_plus_full.
      + f_equal; unfold L; lia.
      + rewrite zlen_map, zlen_zrange; lia.
      + intros w Hw. destruct (Hwords w Hw) as (_ & _ & Hmx). rewrite Hmx. cbn [m_last m_scale].
        destruct (icorr w Hw) as (Hl & Hsc). split; [|exact Hsc].
        rewrite (znth_map _ 0) by (rewrite zlen_zrange; lia). rewrite znth_zrange by lia.
        replace (0 + w) with w by lia.
        apply last_cleared_nonempty. unfold fbs_of. intros E. apply (f_equal zlen) in E.
        rewrite zlen_map, zlen_zrange in E by lia. unfold zlen in E; cbn in E; lia.
  Qed.

  (* ---------- a mix request ---------- *)
  Lemma mix_apply_short : forall chans fracs mixes,
    zlen fracs < zlen chans -> mix_apply nsamp chans fracs mixes = Panic.
  Proof.
    induction chans as [|ch cr IH]; intros fracs mixes Hl.
    - pose proof (zlen_nonneg fracs). unfold zlen in *; cbn in *; lia.
    - destruct fracs as [|f fr]; [reflexivity|]. cbn [mix_apply]. apply IH. rewrite !zlen_cons in Hl. lia.
  Qed.

  Definition Corr (mixes : list mixst) (klast : list Z) (kscale : list float) : Prop :=
    zlen mixes = nchan g /\ zlen kscale = W /\
    forall w, 0 <= w < W ->
      m_last (znth dmix mixes (chan_of_word g w 1)) = znth 0 klast w /\
      m_scale (znth dmix mixes (chan_of_word g w 1)) = znth 0%float kscale w.

  Lemma mix_apply_ok klast : forall chans fracs mixes kscale,
    zlen chans <= zlen fracs -> mix_chans_valid g chans = true -> Corr mixes klast kscale ->
    exists mx, mix_apply nsamp chans fracs mixes = Ok mx /\
               Corr mx klast (set_scales g nsamp chans fracs kscale).
  Proof.
    assert (Hr1 : 1 <= nrows g) by lia.
    induction chans as [|ch cr IH]; intros fracs mixes kscale Hl Hv HC.
    - exists mixes. split; [reflexivity|]. destruct fracs; exact HC.
    - destruct fracs as [|f fr]; [unfold zlen in Hl; cbn in Hl; lia|].
      cbn [mix_apply set_scales]. cbn [mix_chans_valid forallb] in Hv.
      apply andb_true_iff in Hv as [Hv1 Hv2].
      assert (Hch : 0 <= ch < nchan g /\ ch mod 2 = 1) by lia. destruct Hch as [Hch Hodd].
      destruct (word_of_chan g Hc Hr1 ch Hch Hodd) as (Hw & Hcw). cbv zeta in Hw, Hcw.
      set (w := ch / 2 mod nrows g * ncols g + ch / 2 / nrows g) in *.
      apply IH; [rewrite !zlen_cons in Hl; lia | exact Hv2 |].
      destruct HC as (HCl & HCs & HCw).
      split; [rewrite zlen_upd_nth; exact HCl|]. split; [rewrite zlen_map, zlen_zrange; lia|].
      intros w' Hw'. rewrite (znth_map _ 0) by (rewrite zlen_zrange; lia). rewrite znth_zrange by lia.
      replace (0 + w') with w' by lia.
      destruct (Z.eq_dec w' w) as [->|Hne].
      + rewrite Hcw. rewrite znth_upd_nth_same by lia. cbn [m_last m_scale]. rewrite Z.eqb_refl.
        split; [|reflexivity]. destruct (HCw w Hw) as [Hl' _]. rewrite Hcw in Hl'. exact Hl'.
      + assert (chan_of_word g w' 1 <> ch).
        { intros E. rewrite <- Hcw in E. apply (chan_of_word_inj g Hc Hr1) in E; auto. }
        pose proof (chan_of_word_range g Hc Hr1 w' 1 Hw' ltac:(lia)).
        rewrite znth_upd_nth_other by lia. destruct (w' =? w) eqn:E; [lia|]. apply HCw. exact Hw'.
  Qed.

  Lemma mix_step_glue D st k chans fracs :
    Inv D st k -> zlen fracs = zlen chans ->
    exists st' r k',
      step est true g nsamp st (OMix chans fracs) = (st', r) /\
      (forall kd, r <> RPanic kd) /\ check_step c S k (OMix chans fracs) r = Some k' /\ Inv D st' k'.
  Proof.
    intros I Hlen. destruct I as [iD ifp iRb imod ipend inext iext iml ikl iks icorr ireal ilost].
    unfold step. rewrite Hlen, Z.eqb_refl. cbn [negb]. rewrite iml. rewrite mix_valid_same.
    unfold check_step. subst c. cbn [c_g c_nsamp].
    destruct (mix_chans_valid g chans) eqn:Ev.
    - destruct (mix_apply_ok (k_last k) chans fracs (d_mix (s_d st)) (k_scale k) ltac:(lia) Ev)
        as (mx & Hmx & HC).
      { split; [exact iml|]. split; [exact iks|]. exact icorr. }
      rewrite Hmx. eexists _, _, _. split; [reflexivity|]. split; [discriminate|].
      cbn [Bool.eqb]. split; [reflexivity|].
      destruct HC as (HCl & HCs & HCw).
      constructor; cbn [k_D k_R k_fpos k_next k_ext k_last k_scale k_realigned k_lost s_pend s_d d_next d_ext d_mix]; auto.
    - eexists _, _, _. split; [reflexivity|]. split; [discriminate|]. cbn [Bool.eqb]. split; [reflexivity|].
      constructor; auto.
  Qed.

  (* ---------- every history ---------- *)
  Lemma glue_run : forall ops S1 st k,
    S = S1 ++ stream_of ops -> Inv (zlen S1) st k ->
    check_from c S k (combine ops (run est true g nsamp st ops)) = true.
  Proof.
    induction ops as [|o rest IH]; intros S1 st k HS I; [reflexivity|].
    cbn [run]. destruct o as [bytes stamp|chans fracs].
    - change (stream_of (OChunk bytes stamp :: rest)) with (bytes ++ stream_of rest) in HS.
      destruct (chunk_step S1 st k bytes stamp (stream_of rest) I HS) as (st' & r & k' & Hs & Hnp & Hck & I').
      rewrite Hs. destruct r as [rels blk|ok|kd]; try (exfalso; eapply Hnp; reflexivity).
      + cbn [combine check_from malformed_op]. rewrite Hck. apply (IH (S1 ++ bytes)).
        * rewrite HS. now rewrite app_assoc.
        * rewrite zlen_app. exact I'.
      + cbn [combine check_from malformed_op]. rewrite Hck. apply (IH (S1 ++ bytes)).
        * rewrite HS. now rewrite app_assoc.
        * rewrite zlen_app. exact I'.
    - change (stream_of (OMix chans fracs :: rest)) with (stream_of rest) in HS.
      destruct (step est true g nsamp st (OMix chans fracs)) as [st0 r0] eqn:Es0.
      destruct (Z.eq_dec (zlen fracs) (zlen chans)) as [Hlen|Hlen].
      + destruct (mix_step_glue (zlen S1) st k chans fracs I Hlen) as (st' & r & k' & Hs & Hnp & Hck & I').
        rewrite Es0 in Hs. inversion Hs; subst st0 r0.
        assert (Hmal : malformed_op (OMix chans fracs) = false) by (cbn [malformed_op]; rewrite Hlen, Z.eqb_refl; reflexivity).
        destruct r as [rels blk|ok|kd]; try (exfalso; eapply Hnp; reflexivity).
        * cbn [combine check_from]. rewrite Hmal, Hck. now apply (IH S1).
        * cbn [combine check_from]. rewrite Hmal, Hck. now apply (IH S1).
      + assert (Hmal : malformed_op (OMix chans fracs) = true).
        { cbn [malformed_op]. destruct (zlen fracs =? zlen chans) eqn:E; [lia | reflexivity]. }
        destruct r0; cbn [combine check_from]; rewrite Hmal; reflexivity.
  Qed.
End GlueRun.

(* wf_scan (the boolean check of the observable checker) implies the frame-bit pattern *)
Lemma wf_scan_bits g : forall l i cur,
  0 < fsize g -> wf_scan g i cur l = true ->
  forall t, 0 <= t < zlen l -> (i + t) mod 4 = 2 ->
    bit0 (znth 0 l t) = (((i + t) mod fsize g) / 4 <? ncols g).
Proof.
  induction l as [|x r IH]; intros i cur Hfs H t Ht Hmod.
  - unfold zlen in Ht; cbn in Ht; lia.
  - cbn [wf_scan] in H. apply andb_true_iff in H as [Hx H].
    destruct (Z.eq_dec t 0) as [->|Ht0].
    + replace (i + 0) with i in * by lia. rewrite znth_cons_0. rewrite Hmod in H. cbn [Z.eqb] in H.
      apply andb_true_iff in H as [Hb _]. now apply Bool.eqb_prop in Hb.
    + rewrite znth_cons_S by lia. rewrite zlen_cons in Ht.
      replace (i + t) with (i + 1 + (t - 1)) in * by lia.
      destruct (i mod 4 =? 2) eqn:E4.
      * apply andb_true_iff in H as [_ H].
        destruct ((i mod fsize g) / 4 mod ncols g =? 0).
        -- eapply IH; eauto; lia.
        -- destruct cur as [f|].
           ++ apply andb_true_iff in H as [_ H]. eapply IH; eauto; lia.
           ++ eapply IH; eauto; lia.
      * eapply IH; eauto; lia.
Qed.

Lemma mod4W k W : 0 < W -> 0 <= k -> ((4 * k + 2) mod (4 * W)) / 4 = k mod W.
Proof.
  intros HW Hk. pose proof (Z.div_mod k W ltac:(lia)). pose proof (Z.mod_pos_bound k W ltac:(lia)).
  assert (E : (4 * k + 2) mod (4 * W) = 4 * (k mod W) + 2).
  { symmetry. apply Z.mod_unique with (q := k / W); lia. }
  rewrite E. symmetry. apply Z.div_unique with (r := 2); lia.
Qed.

Lemma run_prefix est g nsamp : forall ops st,
  exists ops1 ops2, ops = ops1 ++ ops2 /\
    map fst (combine ops (run est true g nsamp st ops)) = ops1 /\
    combine ops (run est true g nsamp st ops) = combine ops1 (run est true g nsamp st ops1).
Proof.
  induction ops as [|o rest IH]; intros st.
  - exists [], []. repeat split.
  - cbn [run]. destruct (step est true g nsamp st o) as [st' r] eqn:Es.
    destruct r as [rels blk|ok|kd].
    + destruct (IH st') as (o1 & o2 & E1 & E2 & E3). exists (o :: o1), o2. cbn [combine map fst app run]. rewrite Es.
      repeat split; [now rewrite E1 | now rewrite E2 | now rewrite <- E3].
    + destruct (IH st') as (o1 & o2 & E1 & E2 & E3). exists (o :: o1), o2. cbn [combine map fst app run]. rewrite Es.
      repeat split; [now rewrite E1 | now rewrite E2 | now rewrite <- E3].
    + exists [o], rest. cbn [combine map fst app run]. rewrite Es.
      assert (E : combine rest (@nil opres) = []) by (destruct rest; reflexivity).
      repeat split; cbn [combine]; rewrite E; reflexivity.
Qed.

Lemma start_inv (est : Z -> Z -> Z) g S next ext prev : 1 <= ncols g -> 2 <= nrows g ->
  Inv g S 0 (start_state g next ext prev) (start_cst g next ext).
Proof.
  intros Hc Hr. destruct (Wpos est g Hc Hr) as (HW & Hfs & Hn).
  assert (Hr1 : 1 <= nrows g) by lia.
  constructor; cbn [start_state start_cst start_dstate k_D k_R k_fpos k_next k_ext k_last k_scale k_realigned k_lost
                    s_pend s_d d_next d_ext d_mix]; try reflexivity; try lia.
  - rewrite zlen_map, zlen_zrange; lia.
  - rewrite zlen_map, zlen_zrange; lia.
  - rewrite zlen_map, zlen_zrange; lia.
  - intros w Hw. pose proof (chan_of_word_range g Hc Hr1 w 1 Hw ltac:(lia)).
    rewrite (znth_map _ 0) by (rewrite zlen_zrange; lia).
    rewrite (znth_map _ 0) by (rewrite zlen_zrange; lia).
    rewrite (znth_map _ 0) by (rewrite zlen_zrange; lia). split; reflexivity.
Qed.

(* every run of a source object, whatever frame number, trigger level and block time the previous run left *)
Lemma model_passes_check_from_proof :
  forall est g nsamp next ext prev ops,
    C04_check_from {| c_g := g; c_nsamp := nsamp; c_gap := None |} next ext
                   (combine ops (run est true g nsamp (start_state g next ext prev) ops)) = true.
Proof.
  intros est g nsamp next ext prev ops. unfold C04_check_from.
  destruct (run_prefix est g nsamp ops (start_state g next ext prev)) as (ops1 & ops2 & _ & Hfst & Hh).
  rewrite Hfst, Hh.
  destruct (stream_wf _ (stream_of ops1) && stamps_increasing ops1) eqn:Ewf; [|reflexivity].
  apply andb_true_iff in Ewf as [Ewf _]. unfold stream_wf in Ewf. cbn [c_g c_nsamp c_gap] in Ewf.
  apply andb_true_iff in Ewf as [Eg Escan]. apply andb_true_iff in Eg as [Eg _].
  unfold geom_ok in Eg. assert (Hc : 1 <= ncols g) by lia. assert (Hr : 2 <= nrows g) by lia.
  set (S := stream_of ops1) in *.
  assert (Hfs : 0 < fsize g /\ fsize g = 4 * nwords g /\ 0 < nwords g) by (unfold fsize, nwords; nia).
  assert (Hbits : frame_bits_wf g S).
  { intros k Hk Hl.
    pose proof (wf_scan_bits g S 0 None ltac:(lia) Escan (4 * k + 2) ltac:(lia)) as Hb.
    replace (0 + (4 * k + 2)) with (4 * k + 2) in Hb by lia.
    rewrite Hb.
    - destruct Hfs as (_ & -> & HW). now rewrite mod4W by lia.
    - replace (4 * k + 2) with (2 + k * 4) by lia. now rewrite Z_mod_plus_full. }
  cbn [c_g].
  apply (glue_run est g nsamp Hc Hr S Hbits ops1 [] (start_state g next ext prev) (start_cst g next ext)).
  - reflexivity.
  - apply (start_inv est); assumption.
Qed.

Lemma model_passes_check_proof :
  forall est g nsamp ops,
    C04_check {| c_g := g; c_nsamp := nsamp; c_gap := None |}
              (combine ops (run est true g nsamp (init_state g) ops)) = true.
Proof. intros. apply (model_passes_check_from_proof est g nsamp 0 false 0). Qed.
