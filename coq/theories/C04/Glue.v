(* C04 — the model's whole history passes the observable checker on every uninterrupted well-formed delivery
   (any chunking, any mix requests).  Lemmas only; the headline theorem is restated in Properties.v. *)
From Coq Require Import ZifyBool ZifyNat.
From Dastard Require Import C04.Base C04.Model C04.Spec C04.Proofs.

Definition dmix : mixst := {| m_scale := 0%float; m_last := 0 |}.

(* ---------- dist_chans, channel by channel ---------- *)
Lemma dist_chans_spec data tbl : forall mixes ch,
  zlen (fst (dist_chans data tbl ch mixes)) = zlen mixes /\
  zlen (snd (dist_chans data tbl ch mixes)) = zlen mixes /\
  forall i, 0 <= i < zlen mixes ->
    let m := znth dmix mixes i in
    let d := znth [] data (znth 0 tbl (ch + i)) in
    let e := znth [] data (znth 0 tbl (ch + i - 1)) in
    if (ch + i) mod 2 =? 1
    then znth [] (snd (dist_chans data tbl ch mixes)) i = snd (mix_retard (m_scale m) (m_last m) d e) /\
         znth dmix (fst (dist_chans data tbl ch mixes)) i =
           {| m_scale := m_scale m; m_last := fst (mix_retard (m_scale m) (m_last m) d e) |}
    else znth [] (snd (dist_chans data tbl ch mixes)) i = d /\
         znth dmix (fst (dist_chans data tbl ch mixes)) i = m.
Proof.
  induction mixes as [|m mr IH]; intros ch.
  - cbn. repeat split; try reflexivity. intros i Hi. unfold zlen in Hi; cbn in Hi; lia.
  - cbn [dist_chans].
    destruct (IH (ch + 1)) as (IH1 & IH2 & IH3).
    destruct (dist_chans data tbl (ch + 1) mr) as [ms ds] eqn:Erest. cbn [fst snd] in *.
    set (d0 := znth [] data (znth 0 tbl ch)).
    set (e0 := znth [] data (znth 0 tbl (ch - 1))).
    destruct (ch mod 2 =? 1) eqn:Eodd.
    + destruct (mix_retard (m_scale m) (m_last m) d0 e0) as [last' out] eqn:Emr. cbn [fst snd].
      rewrite !zlen_cons. repeat split; try lia.
      intros i Hi. destruct (Z.eq_dec i 0) as [->|Hi0].
      * replace (ch + 0) with ch by lia. rewrite Eodd. rewrite !znth_cons_0.
        replace (ch - 1) with (ch - 1) by lia. fold d0. replace (ch + 0 - 1) with (ch - 1) by lia. fold e0.
        rewrite Emr. cbn [fst snd]. split; reflexivity.
      * rewrite !znth_cons_S by lia. specialize (IH3 (i - 1) ltac:(lia)).
        replace (ch + 1 + (i - 1)) with (ch + i) in IH3 by lia. exact IH3.
    + cbn [fst snd]. rewrite !zlen_cons. repeat split; try lia.
      intros i Hi. destruct (Z.eq_dec i 0) as [->|Hi0].
      * replace (ch + 0) with ch by lia. rewrite Eodd. rewrite !znth_cons_0. fold d0. split; reflexivity.
      * rewrite !znth_cons_S by lia. specialize (IH3 (i - 1) ltac:(lia)).
        replace (ch + 1 + (i - 1)) with (ch + i) in IH3 by lia. exact IH3.
Qed.

(* ---------- exactly demultiplexed frames ---------- *)
Lemma zlen_exact_data g S R m : 0 <= nchan g -> zlen (exact_data g S R m) = nchan g.
Proof. intros. unfold exact_data. rewrite zlen_map, zlen_zrange; lia. Qed.

Lemma znth_exact_data_row g S R m i : 0 <= i < nchan g -> 0 <= m ->
  znth [] (exact_data g S R m) i = map (fun j => u16_at S (R + j * fsize g + 2 * i)) (zrange 0 m).
Proof.
  intros Hi Hm. unfold exact_data. rewrite (znth_map _ 0) by (rewrite zlen_zrange; lia).
  rewrite znth_zrange by lia. replace (0 + i) with i by lia. reflexivity.
Qed.

Lemma exact_data_rows_len g S R m d : 0 <= m -> In d (exact_data g S R m) -> zlen d = m.
Proof.
  intros Hm Hin. unfold exact_data in Hin. apply in_map_iff in Hin as (i & <- & _).
  rewrite zlen_map, zlen_zrange; lia.
Qed.

Lemma shape_ok_exact g S R m : 0 < nchan g -> 0 <= m -> shape_ok g (exact_data g S R m) = true.
Proof.
  intros Hn Hm. unfold shape_ok. rewrite zlen_exact_data by lia.
  rewrite Z.eqb_refl. cbn [andb]. apply andb_true_iff. split; [lia|].
  apply forallb_forall. intros d Hd. rewrite (exact_data_rows_len g S R m d Hm Hd).
  rewrite znth_exact_data_row by lia. rewrite zlen_map, zlen_zrange by lia. lia.
Qed.

Section Words.
  Variable g : geom.
  Hypothesis Hc : 1 <= ncols g.
  Hypothesis Hr : 1 <= nrows g.

  Lemma word_decompose w : 0 <= w < nwords g ->
    0 <= w / ncols g < nrows g /\ 0 <= w mod ncols g < ncols g /\ w = (w / ncols g) * ncols g + w mod ncols g.
  Proof.
    intros Hw. unfold nwords in Hw.
    pose proof (Z.div_mod w (ncols g) ltac:(lia)). pose proof (Z.mod_pos_bound w (ncols g) ltac:(lia)).
    assert (0 <= w / ncols g) by (apply Z.div_pos; lia).
    assert (w / ncols g < nrows g) by (apply Z.div_lt_upper_bound; lia).
    repeat split; lia.
  Qed.

  Lemma chan_of_word_range w e : 0 <= w < nwords g -> 0 <= e < 2 -> 0 <= chan_of_word g w e < nchan g.
  Proof.
    intros Hw He. destruct (word_decompose w Hw) as (H1 & H2 & _). unfold chan_of_word, nchan, nwords. nia.
  Qed.

  Lemma chan_of_word_parity w e : 0 <= e < 2 -> chan_of_word g w e mod 2 = e.
  Proof.
    intros He. unfold chan_of_word. symmetry.
    apply Z.mod_unique with (q := w mod ncols g * nrows g + w / ncols g); lia.
  Qed.

  Lemma tbl_chan_of_word w e : 0 <= w < nwords g -> 0 <= e < 2 ->
    znth 0 (chan2readout g) (chan_of_word g w e) = 2 * w + e.
  Proof.
    intros Hw He. destruct (word_decompose w Hw) as (H1 & H2 & H3). unfold chan_of_word.
    rewrite (chan2readout_rc g Hc Hr) by lia. lia.
  Qed.

  Lemma chan_of_word_inj w w' : 0 <= w < nwords g -> 0 <= w' < nwords g ->
    chan_of_word g w 1 = chan_of_word g w' 1 -> w = w'.
  Proof.
    intros Hw Hw' E. pose proof (tbl_chan_of_word w 1 Hw ltac:(lia)). pose proof (tbl_chan_of_word w' 1 Hw' ltac:(lia)).
    rewrite E in H. lia.
  Qed.

  (* an odd channel in range is the feedback channel of exactly the word the checker computes *)
  Lemma word_of_chan ch : 0 <= ch < nchan g -> ch mod 2 = 1 ->
    let p := ch / 2 in
    let w := (p mod nrows g) * ncols g + p / nrows g in
    0 <= w < nwords g /\ chan_of_word g w 1 = ch.
  Proof.
    intros Hch Hodd p w. unfold nchan, nwords in *.
    pose proof (Z.div_mod ch 2 ltac:(lia)) as Hd. rewrite Hodd in Hd. fold p in Hd.
    assert (Hp : 0 <= p < ncols g * nrows g) by (unfold p; split; [apply Z.div_pos; lia | apply Z.div_lt_upper_bound; lia]).
    pose proof (Z.div_mod p (nrows g) ltac:(lia)). pose proof (Z.mod_pos_bound p (nrows g) ltac:(lia)).
    assert (0 <= p / nrows g) by (apply Z.div_pos; lia).
    assert (p / nrows g < ncols g) by (apply Z.div_lt_upper_bound; lia).
    split; [unfold w; nia|].
    unfold chan_of_word, w.
    assert (E1 : (p mod nrows g * ncols g + p / nrows g) mod ncols g = p / nrows g).
    { symmetry. apply Z.mod_unique with (q := p mod nrows g); lia. }
    assert (E2 : (p mod nrows g * ncols g + p / nrows g) / ncols g = p mod nrows g).
    { symmetry. apply Z.div_unique with (r := p / nrows g); lia. }
    rewrite E1, E2. lia.
  Qed.
End Words.
