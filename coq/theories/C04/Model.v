(* C04 — mirror model of the Lancero ingest path (definitions only, no proofs).
     /repo/lancero/lancero.go      FindFrameBits                       -> find_frame_bits (three loops)
     /repo/lancero_source.go       launchLanceroReader (one tick)      -> reader_tick
                                   updateChanOrderMap                  -> chan2readout
                                   distributeData                      -> distribute (ext-trigger scan, frame stamping)
                                   getNextBlock / ConfigureMixFraction -> mix_configure
     /repo/mix.go                  Mix.MixRetardFb                     -> mix_retard (primitive floats, op by op)
   The card is the scripted one of the harness: AvailableBuffer = unreleased bytes ++ next chunk,
   ReleaseBytes n drops n bytes from the front.  Bytes are Z in [0,255]; samples are Z in [0,65535];
   frame numbers and byte counts are unbounded Z (premise: below 2^63).  Time stamps are whole seconds
   since the zero time.Time; the dropped-frame estimate roundint(dt.Seconds()*sampleRate) is the oracle
   [est prev cur] (a function argument; Run.v instantiates it for whole-second stamps and an integral rate).
   Go panics are explicit results ([TPanic], [RPanic]). *)
From Dastard Require Import C04.Base.

(* ---------- lancero.FindFrameBits(b, offset=2) ---------- *)
Definition fbit (x : Z) : bool := Z.land x 1 =? 1.          (* frameMask&b[i] == 1 *)

(* the bytes visited by  for i := 0; i < len(l); i += 4  *)
Fixpoint stride4 (l : list Z) : list Z :=
  match l with
  | a :: _ :: _ :: _ :: r => a :: stride4 r
  | a :: _ => [a]
  | [] => []
  end.

(* first loop: [seen] = seenWordWithoutFrameBit, [prev] = frameBitInPreviousWord, [i] = byte index;
   returns q (byte index; 0 when the loop runs off the end) *)
Fixpoint ffb_loop1 (seen prev : bool) (i : Z) (l : list Z) : Z :=
  match l with
  | [] => 0
  | x :: r =>
      if seen then
        if prev && negb (fbit x) then ffb_loop1 seen true (i + 4) r
        else if negb prev && fbit x then i
        else ffb_loop1 seen prev (i + 4) r
      else ffb_loop1 (negb (fbit x)) prev (i + 4) r
  end.

(* second loop: count consecutive frame bits *)
Fixpoint ffb_loop2 (l : list Z) : Z :=
  match l with
  | [] => 0
  | x :: r => if fbit x then 1 + ffb_loop2 r else 0
  end.

(* third loop: returns p (byte index) when found *)
Fixpoint ffb_loop3 (prev : bool) (i : Z) (l : list Z) : option Z :=
  match l with
  | [] => None
  | x :: r =>
      if prev && negb (fbit x) then ffb_loop3 false (i + 4) r
      else if negb prev && fbit x then Some i
      else ffb_loop3 prev (i + 4) r
  end.

(* (q/4, p/4, n, err == nil) *)
Definition find_frame_bits (b : list Z) : Z * Z * Z * bool :=
  let q := ffb_loop1 false false 2 (stride4 (zskipn 2 b)) in
  let n := ffb_loop2 (stride4 (zskipn q b)) in
  if n <? 1 then (q / 4, 0, n, false)
  else match ffb_loop3 true (q + 4 * n) (stride4 (zskipn (q + 4 * n) b)) with
       | Some p => (q / 4, p / 4, n, true)
       | None => (q / 4, 0, n, false)
       end.

(* ---------- bytesToRawType (little endian, a trailing odd byte is not visible) ---------- *)
Fixpoint u16s (b : list Z) : list Z :=
  match b with
  | lo :: hi :: r => (lo + 256 * hi) :: u16s r
  | _ => []
  end.

(* the demultiplexing loop: datacopies[i][j] = buffer[i + j*nchan] *)
Definition demux (nch m : Z) (buffer : list Z) : list (list Z) :=
  map (fun i => map (fun j => znth 0 buffer (i + j * nch)) (zrange 0 m)) (zrange 0 nch).

(* ---------- one tick of the reader goroutine ---------- *)
(* whole-frame demux of [b] (already aligned), after [rels0] was released and with [pend0] = unreleased bytes *)
Definition tick_demux (g : geom) (b pend0 rels0 : list Z) (stamp : Z) (drop : bool) : tick_res :=
  let fs := fsize g in
  let framesUsed := zlen b / fs in
  if framesUsed =? 0 then {| t_pend := pend0; t_rels := rels0; t_out := TPanic PNoFrames |}
  else
    let buffer := u16s b in
    if zlen buffer <? framesUsed * nchan g
    then {| t_pend := pend0; t_rels := rels0; t_out := TPanic PIndex |}
    else
      let data := demux (nchan g) framesUsed buffer in
      let release := framesUsed * fs in
      {| t_pend := zskipn release pend0; t_rels := rels0 ++ [release];
         t_out := TBuf {| bm_data := data; bm_stamp := stamp; bm_drop := drop |} |}.

Definition reader_tick (g : geom) (pend chunk : list Z) (stamp : Z) : tick_res :=
  let b := pend ++ chunk in                                   (* AvailableBuffer() *)
  let fs := fsize g in
  if zlen b <? 3 * fs then {| t_pend := b; t_rels := []; t_out := TSmall |}
  else
    let '(q, p, n, ok) := find_frame_bits b in
    if n =? 0 then {| t_pend := b; t_rels := []; t_out := TPanic PDivZero |}
    else
      let nr := Z.quot (p - q) n in
      if negb (n =? ncols g) || negb (nr =? nrows g) || negb ok
      then {| t_pend := []; t_rels := [zlen b]; t_out := TGeom |}          (* ReleaseBytes(len(b)) *)
      else if negb (q =? nwords g) then
        (* data drop detected: align to the next frame start *)
        let dropFromStart := q * 4 in
        if q =? 0 then {| t_pend := b; t_rels := []; t_out := TPanic PFirstWordZero |}
        else
          (* after the fix: a frame start more than one frame into the read is a drop like any other; when not
             one whole frame lies behind it yet, the read stays in the card (nothing released, nothing sent) *)
          let dropFromEnd := fs - dropFromStart mod fs in
          if zlen b - dropFromStart - dropFromEnd <? fs
          then {| t_pend := b; t_rels := []; t_out := TSmall |}
          else
            let pend1 := zskipn dropFromStart b in               (* ReleaseBytes(dropFromStart) *)
            let b' := zslice b dropFromStart (zlen b - dropFromEnd - dropFromStart) in
            tick_demux g b' pend1 [dropFromStart] stamp true
      else tick_demux g b b [] stamp false.

(* the tick before that fix: panic("expect dropFromEnd>0") when the frame start found lies beyond one frame *)
Definition reader_tick_old (g : geom) (pend chunk : list Z) (stamp : Z) : tick_res :=
  let b := pend ++ chunk in                                   (* AvailableBuffer() *)
  let fs := fsize g in
  if zlen b <? 3 * fs then {| t_pend := b; t_rels := []; t_out := TSmall |}
  else
    let '(q, p, n, ok) := find_frame_bits b in
    if n =? 0 then {| t_pend := b; t_rels := []; t_out := TPanic PDivZero |}
    else
      let nr := Z.quot (p - q) n in
      if negb (n =? ncols g) || negb (nr =? nrows g) || negb ok
      then {| t_pend := []; t_rels := [zlen b]; t_out := TGeom |}          (* ReleaseBytes(len(b)) *)
      else if negb (q =? nwords g) then
        (* data drop detected: align to the next frame start *)
        let dropFromStart := q * 4 in
        if q =? 0 then {| t_pend := b; t_rels := []; t_out := TPanic PFirstWordZero |}
        else
          let pend1 := zskipn dropFromStart b in                 (* ReleaseBytes(dropFromStart) *)
          let dropFromEnd := fs - dropFromStart in
          if dropFromEnd <=? 0
          then {| t_pend := pend1; t_rels := [dropFromStart]; t_out := TPanic PDropFromEnd |}
          else
            let b' := zslice b dropFromStart (zlen b - dropFromEnd - dropFromStart) in
            tick_demux g b' pend1 [dropFromStart] stamp true
      else tick_demux g b b [] stamp false.

(* the reader goroutine over a sequence of reads (chunk, card time stamp) *)
Fixpoint reader_run (g : geom) (pend : list Z) (chunks : list (list Z * Z)) : list tick_res :=
  match chunks with
  | [] => []
  | (c, stamp) :: rest =>
      let t := reader_tick g pend c stamp in
      t :: reader_run g (t_pend t) rest
  end.

(* ---------- updateChanOrderMap ---------- *)
Fixpoint upd_nth {A} (l : list A) (n : nat) (v : A) : list A :=
  match l, n with
  | [], _ => []
  | _ :: r, O => v :: r
  | x :: r, S n' => x :: upd_nth r n' v
  end.

Definition channum (g : geom) (readIdx : Z) : Z :=
  let rownum := (readIdx / 2) / ncols g in
  let colnum := (readIdx / 2) mod ncols g in
  (readIdx mod 2) + rownum * 2 + (colnum * nrows g) * 2.

Definition chan2readout (g : geom) : list Z :=
  fold_left (fun tbl readIdx => upd_nth tbl (Z.to_nat (channum g readIdx)) readIdx)
            (zrange 0 (nchan g)) (map (fun _ => 0) (zrange 0 (nchan g))).

(* ---------- Mix.MixRetardFb ---------- *)
Record mixst := { m_scale : float; m_last : Z }.

(* one iteration of either loop body: (new lastFb, value written to fbs[j]) *)
Definition mix_step (scale : float) (last fbj errj : Z) : Z * Z :=
  if (scale =? 0)%float then (mask3 fbj, last)
  else
    let mixAmount := (z2f (int16 errj) * scale)%float in
    let r := (mixAmount + z2f last)%float in
    (mask3 fbj,
     if (65535 <=? r)%float then 65535
     else if (r <? 0)%float then 0
     else (roundint r) mod 65536).

Fixpoint mix_retard (scale : float) (last : Z) (fbs errs : list Z) : Z * list Z :=
  match fbs, errs with
  | fbj :: fr, ej :: er =>
      let '(last1, o) := mix_step scale last fbj ej in
      let '(last2, out) := mix_retard scale last1 fr er in
      (last2, o :: out)
  | _, _ => (last, [])
  end.

(* consecutive calls on consecutive blocks (fbs, errs) of one feedback channel *)
Fixpoint mix_blocks (scale : float) (last : Z) (blocks : list (list Z * list Z)) : list Z :=
  match blocks with
  | [] => []
  | (f, e) :: r => let '(l', o) := mix_retard scale last f e in o ++ mix_blocks scale l' r
  end.

(* ---------- distributeData ---------- *)
Record dstate := {
  d_next : Z;               (* ls.nextFrameNum *)
  d_ext : bool;             (* ls.externalTriggerLastState *)
  d_prev : Z;               (* ls.previousLastSampleTime *)
  d_mix : list mixst        (* ls.Mix, one per channel *)
}.

(* the state distributeData works on at the start of a run.  The LanceroSource object outlives a run:
   updateChanOrderMap makes fresh Mix objects for every run, but the frame counter, the external-trigger level
   and the time of the last block are NOT reset by a restart and are carried in from the previous run. *)
Definition start_dstate (g : geom) (next : Z) (ext : bool) (prev : Z) : dstate :=
  {| d_next := next; d_ext := ext; d_prev := prev;
     d_mix := map (fun _ => {| m_scale := 0%float; m_last := 0 |}) (zrange 0 (nchan g)) |}.
Definition init_dstate (g : geom) : dstate := start_dstate g 0 false 0.      (* first run of the process *)

(* the rising-edge scan over (flag, rowcount) pairs in loop order *)
Fixpoint rising (last : bool) (l : list (bool * Z)) : bool * list Z :=
  match l with
  | [] => (last, [])
  | (s, v) :: r => let '(l', out) := rising s r in (l', if s && negb last then v :: out else out)
  end.

Definition ext_flag (data : list (list Z)) (chanIdx frame : Z) : bool :=
  Z.land (znth 0 (znth [] data chanIdx) frame) 2 =? 2.

(* after the fix: column 0 of each row, in READOUT order, rows of the active card *)
Definition ext_scan (g : geom) (data : list (list Z)) (framesUsed next : Z) (last : bool) : bool * list Z :=
  rising last
    (flat_map (fun frame => map (fun row => (ext_flag data (row * 2 * ncols g + 1) frame,
                                             (frame + next) * nrows g + row))
                                (zrange 0 (nrows g)))
              (zrange 0 framesUsed)).

(* unchanged tree: channelIndex := row*2 + 1 although the buffers are in readout order *)
Definition ext_scan_old (g : geom) (data : list (list Z)) (framesUsed next : Z) (last : bool) : bool * list Z :=
  rising last
    (flat_map (fun frame => map (fun row => (ext_flag data (row * 2 + 1) frame,
                                             (frame + next) * nrows g + row))
                                (zrange 0 (nrows g)))
              (zrange 0 framesUsed)).

Definition shape_ok (g : geom) (data : list (list Z)) : bool :=
  (zlen data =? nchan g) && (0 <? nchan g) &&
  forallb (fun d => zlen d =? zlen (znth [] data 0)) data.

(* the per-channel loop; [tbl] = chan2readoutOrder.  Returns the new Mix states and the segments' data. *)
Fixpoint dist_chans (data : list (list Z)) (tbl : list Z) (ch : Z) (mixes : list mixst)
  : list mixst * list (list Z) :=
  match mixes with
  | [] => ([], [])
  | m :: mr =>
      let d := znth [] data (znth 0 tbl ch) in
      let '(m1, d1) :=
        if ch mod 2 =? 1
        then let e := znth [] data (znth 0 tbl (ch - 1)) in
             let '(last', out) := mix_retard (m_scale m) (m_last m) d e in
             ({| m_scale := m_scale m; m_last := last' |}, out)
        else (m, d) in
      let '(ms, ds) := dist_chans data tbl (ch + 1) mr in
      (m1 :: ms, d1 :: ds)
  end.

Section Distribute.
  Variable est : Z -> Z -> Z.       (* oracle: roundint((cur - prev).Seconds() * sampleRate) *)

  Definition distribute_gen (fixed : bool) (g : geom) (st : dstate) (m : bufmsg) : res (dstate * block) :=
    let data := bm_data m in
    if negb (shape_ok g data) then Panic
    else
      let framesUsed := zlen (znth [] data 0) in
      let dropped := if bm_drop m then est (d_prev st) (bm_stamp m) else 0 in
      (* after the fixes: rows are numbered from the block's first frame; before: from the un-advanced counter *)
      let '(ext', trig) := (if fixed then ext_scan g data framesUsed (d_next st + dropped) (d_ext st)
                            else ext_scan_old g data framesUsed (d_next st) (d_ext st)) in
      let '(mix', segs) := dist_chans data (chan2readout g) 0 (d_mix st) in
      Ok ({| d_next := d_next st + framesUsed + (if fixed then dropped else 0);
             d_ext := ext'; d_prev := bm_stamp m; d_mix := mix' |},
          {| b_first := d_next st + dropped; b_dropped := dropped; b_data := segs; b_ext := trig |}).

  Definition distribute := distribute_gen true.
  (* the tree before the fixes: scan index row*2+1, row counts and the running counter ignore the estimate *)
  Definition distribute_old := distribute_gen false.
End Distribute.

(* ---------- ConfigureMixFraction + the mixRequests case of getNextBlock ---------- *)
Definition mix_valid (nch : Z) (chans : list Z) : bool :=
  forallb (fun c => (0 <=? c) && (c <? nch) && negb (c mod 2 =? 0)) chans.

Fixpoint mix_apply (nsamp : Z) (chans : list Z) (fracs : list float) (mixes : list mixst) : res (list mixst) :=
  match chans, fracs with
  | [], _ => Ok mixes
  | c :: cr, f :: fr =>
      let m := znth {| m_scale := 0%float; m_last := 0 |} mixes c in
      mix_apply nsamp cr fr
        (upd_nth mixes (Z.to_nat c) {| m_scale := (f / z2f nsamp)%float; m_last := m_last m |})
  | _ :: _, [] => Panic
  end.

(* ---------- a run: chunks and mix requests in the order the harness issues them ---------- *)
Record state := { s_pend : list Z; s_d : dstate }.

Definition start_state (g : geom) (next : Z) (ext : bool) (prev : Z) : state :=
  {| s_pend := []; s_d := start_dstate g next ext prev |}.
Definition init_state (g : geom) : state := start_state g 0 false 0.

Section Run.
  Variable est : Z -> Z -> Z.
  Variable fixed : bool.
  Variable g : geom.
  Variable nsamp : Z.

  Definition step (st : state) (o : op) : state * opres :=
    match o with
    | OChunk bytes stamp =>
        let t := reader_tick g (s_pend st) bytes stamp in
        match t_out t with
        | TSmall | TGeom => ({| s_pend := t_pend t; s_d := s_d st |}, RTick (t_rels t) None)
        | TPanic k => ({| s_pend := t_pend t; s_d := s_d st |}, RPanic k)
        | TBuf m =>
            match distribute_gen est fixed g (s_d st) m with
            | Ok (d', blk) => ({| s_pend := t_pend t; s_d := d' |}, RTick (t_rels t) (Some blk))
            | Panic => ({| s_pend := t_pend t; s_d := s_d st |}, RPanic PIndex)
            end
        end
    | OMix chans fracs =>
        (* ConfigureMixFraction: unequal numbers of fractions and channel indices are an error *)
        if negb (zlen fracs =? zlen chans) then (st, RMix false)
        else if mix_valid (zlen (d_mix (s_d st))) chans then
          match mix_apply nsamp chans fracs (d_mix (s_d st)) with
          | Ok mx => ({| s_pend := s_pend st;
                         s_d := {| d_next := d_next (s_d st); d_ext := d_ext (s_d st);
                                   d_prev := d_prev (s_d st); d_mix := mx |} |}, RMix true)
          | Panic => (st, RPanic PMixLen)
          end
        else (st, RMix false)
    end.

  (* the process dies at the first panic *)
  Fixpoint run (st : state) (ops : list op) : list opres :=
    match ops with
    | [] => []
    | o :: rest =>
        let '(st', r) := step st o in
        match r with
        | RPanic _ => [r]
        | _ => r :: run st' rest
        end
    end.
  (* the state the run leaves behind (for the next run on the same source object) *)
  Fixpoint run_end (st : state) (ops : list op) : state :=
    match ops with
    | [] => st
    | o :: rest =>
        let '(st', r) := step st o in
        match r with
        | RPanic _ => st'
        | _ => run_end st' rest
        end
    end.
End Run.
