(* C11 — no wedge: in the fixed model no reachable state is stuck or crashed; closures are exclusive. *)
From Coq Require Import List Arith Bool ZArith Lia.
From Dastard Require Import C10.Conc C11.Model C11.Spec C11.Proofs C11.Proofs2.
Import ListNotations.
Open Scope Z_scope.

Definition can_step (c : cfg) (s : state) : Prop := exists t s', step c s t = Some s'.

Lemma can_by c s t : (exists s', step c s t = Some s') -> can_step c s.
Proof. intros [s' H]. exists t, s'. exact H. Qed.

Ltac by_tid t := apply (can_by _ _ t); unfold step, step_client, step_core, step_prod, current_request; cbn.

(* the core loop, once inside a closure whose remaining actions hold no crash and either no reply or a
   reply somebody waits for, can always move *)
Lemma core_can_move c s :
  c_fixed c = true -> J c s ->
  core_alive (core s) -> core s <> KSel -> can_step c s.
Proof.
  intros Hf [Hc Hcl Hco Hs Hp He] Ha Hn. open_state s. cbn in *. subst.
  unfold core_facts in Hco; cbn in Hco.
  destruct core0 as [| | |acts| | | | | |]; cbn in Ha; try contradiction; try congruence;
    try (by_tid (TCore CTakeBlk); eexists; reflexivity).
  destruct acts as [|[w|r|] rest]; cbn in Hco.
  - by_tid (TCore CTakeBlk); eexists; reflexivity.
  - by_tid (TCore CTakeBlk). destruct ops0 as [|[| |rq io] rest']; eexists; reflexivity.
  - destruct Hco as [_ Hr]. destruct client0; cbn in Hr; try discriminate Hr.
    + by_tid TClient; eexists; reflexivity.          (* the client is about to receive *)
    + by_tid (TCore CTakeBlk); eexists; reflexivity.
  - destruct Hco as [Hx _]. discriminate Hx.
Qed.

(* with the core loop at its select: a block, a closed channel, or a producer that can move *)
Lemma select_can_move c s :
  c_fixed c = true -> J c s -> core s = KSel -> (sst s = Stopping \/ client s = LSend \/ prod s <> PLoop \/ True) -> can_step c s.
Proof.
  intros Hf [Hc Hcl Hco Hs Hp He] Hk _. open_state s. cbn in *. subst.
  unfold prod_facts in Hp; cbn in Hp.
  destruct prod0 as [| |[|]|]; cbn in Hp.
  - discriminate Hp.
  - (* the producer is at its own select: it can tick, or (abort closed) take the abort branch *)
    destruct (c_kind c) eqn:K.
    + destruct abortc0 eqn:EA.
      * by_tid (TProd PAbort). rewrite K. eexists; reflexivity.
      * by_tid (TProd PTick). rewrite K. eexists; reflexivity.
    + by_tid (TProd PTick). rewrite K. eexists; reflexivity.
    + destruct abortc0 eqn:EA.
      * by_tid (TProd PAbort). rewrite K. eexists; reflexivity.
      * by_tid (TProd PTick). rewrite K. eexists; reflexivity.
  - by_tid (TCore CTakeBlk). eexists; reflexivity.
  - by_tid (TCore CTakeBlk). eexists; reflexivity.
  - destruct Hp as [_ Hp]. destruct (c_kind c) eqn:K.
    + destruct Hp as [-> _]. by_tid (TCore CTakeBlk). eexists; reflexivity.
    + destruct Hp as [_ Hp]. exfalso. apply Hp. exact I.
    + destruct Hp as [-> _]. by_tid (TCore CTakeBlk). eexists; reflexivity.
Qed.

Lemma alive_can_move c s : c_fixed c = true -> J c s -> core_alive (core s) -> can_step c s.
Proof.
  intros Hf HJ Ha. destruct (core s) eqn:E; cbn in Ha; try contradiction;
    try (apply core_can_move; auto; rewrite E; [exact I | discriminate]).
  apply select_can_move; auto.
Qed.

Lemma no_wedge_inv c s : c_fixed c = true -> J c s -> can_step c s \/ finished s = true.
Proof.
  intros Hf HJ. pose proof HJ as [Hc Hcl Hco Hs Hp He].
  destruct (client s) eqn:ECL.
  - (* about to begin an operation: always possible *)
    left. open_state s. cbn in *. subst. by_tid TClient.
    destruct ops0 as [|[| |r io] rest]; [eexists; reflexivity | destruct flag0; eexists; reflexivity | |].
    + destruct flag0; cbn; [destruct sst0|]; eexists; reflexivity.
    + destruct r; cbn -[precheck mix_precheck].
      13:{ destruct (mix_precheck _ _ _ _); [eexists; reflexivity|].
           destruct (nfrac <? _); eexists; reflexivity. }
      all: destruct (precheck _ _ _ _); [eexists; reflexivity|];
           match goal with |- context [negb (flag ?x)] => destruct (negb (flag x)) end; eexists; reflexivity.
  - left. open_state s. cbn in *. subst. by_tid TClient. eexists; reflexivity.
  - (* in the send: the core loop takes it, or the client gives up once the source is not running *)
    left. unfold sst_facts in Hs. destruct (sst s) eqn:ES.
    + open_state s. cbn in *. subst. by_tid TClient. rewrite Hf. eexists; reflexivity.
    + destruct Hs as [Ha _]. destruct (core s) eqn:EK; cbn in Ha; try contradiction;
        try (apply core_can_move; auto; rewrite EK; [exact I | discriminate]).
      (* core at its select: it takes the request *)
      unfold client_facts in Hcl. rewrite ECL in Hcl. unfold head_queued in Hcl.
      open_state s. cbn in *. subst. destruct ops0 as [|[| |r io] rest]; try contradiction.
      by_tid (TCore CTakeReq). eexists; reflexivity.
    + open_state s. cbn in *. subst. by_tid TClient. rewrite Hf. eexists; reflexivity.
  - left. open_state s. cbn in *. subst. by_tid TClient. eexists; reflexivity.
  - (* waiting for the reply: the core loop is inside the closure with one reply to go *)
    left. unfold core_facts in Hco. rewrite ECL in Hco. cbn in Hco.
    destruct (core s) eqn:EK; try discriminate Hco.
    destruct Hco as [Hn Hr]. open_state s. cbn in *. subst.
    destruct acts as [|[w|r|] rest]; cbn in Hr, Hn; try discriminate.
    + by_tid (TCore CTakeBlk). destruct ops0 as [|[| |rq io] rest']; eexists; reflexivity.
    + by_tid (TCore CTakeBlk). eexists; reflexivity.
  - (* waiting for the current mix: the assembler serves it while it waits for data *)
    left. unfold client_facts in Hcl. rewrite ECL in Hcl. destruct Hcl as (_ & HA & HK).
    unfold sst_facts in Hs. rewrite HA in Hs. destruct Hs as [Ha Hab].
    destruct (prod s) eqn:EP.
    + unfold prod_facts in Hp. rewrite EP in Hp. rewrite Hp in Ha. contradiction.
    + open_state s. cbn in *. subst. by_tid TClient. eexists; reflexivity.
    + apply alive_can_move; auto.
    + unfold prod_facts in Hp. rewrite EP, HK in Hp. destruct Hp as (_ & _ & Hp). congruence.
  - (* inside Stop, waiting for the core loop to finish *)
    left. destruct (core s) eqn:EK.
    2-9: apply alive_can_move; auto; rewrite EK; exact I.
    + unfold client_facts in Hcl. rewrite ECL, EK in Hcl. unfold sst_facts in Hs.
      destruct Hcl as [Hcl|Hcl]; [|discriminate]. rewrite Hcl, EK in Hs. destruct Hs as [[] _].
    + open_state s. cbn in *. subst. by_tid TClient. eexists; reflexivity.
  - left. open_state s. cbn in *. subst. by_tid TClient. eexists; reflexivity.
  - left. open_state s. cbn in *. subst. by_tid TClient. eexists; reflexivity.
  - right. unfold finished. rewrite ECL. reflexivity.
Qed.

Lemma no_wedge_reach c ns np B os s :
  c_fixed c = true -> Reachable (step c) (Init ns np B os) s ->
  crashed s = false /\ ((exists t s', step c s t = Some s') \/ finished s = true).
Proof.
  intros Hf HR. pose proof (J_reachable _ _ _ _ _ _ Hf HR) as HJ. split.
  - destruct HJ; assumption.
  - apply no_wedge_inv; assumption.
Qed.

(* closures are exclusive with block processing: while the client is between its send and the reply the
   core loop is inside that closure (not at its select, not processing a block), with exactly one reply
   left; and whatever closure the core loop runs holds no crash and at most one reply *)
Lemma exclusive_reach c ns np B os s :
  c_fixed c = true -> Reachable (step c) (Init ns np B os) s ->
  (awaiting (client s) = true -> exists acts, core s = KRun acts /\ nocrash acts = true /\ nreplies acts = 1%nat)
  /\ (forall acts, core s = KRun acts -> nocrash acts = true /\ (nreplies acts <= 1)%nat).
Proof.
  intros Hf HR. pose proof (J_reachable _ _ _ _ _ _ Hf HR) as [Hc Hcl Hco Hs Hp He].
  unfold core_facts in Hco. split.
  - intros Ha. destruct (core s) eqn:E; try congruence. rewrite Ha in Hco. exists acts. tauto.
  - intros acts E. rewrite E in Hco. destruct Hco as [H1 H2]. split; [assumption|].
    rewrite H2. destruct (awaiting (client s)); lia.
Qed.

(* the code before the fixes: the interleaving model reaches a wedged state (WriteComment's second reply)
   and a state in which the next request waits for ever (source ended by itself, stale flag) *)
Definition old_cfg : cfg := mkCfg SrcTriangle 3 false false.
Definition wedge_ops : list op :=
  [OStart; OReq (RqWriteControl (WStart true false true)) false; OReq (RqComment false) true].
Definition wedge_sched : list tid :=
  [TClient; TClient;                                                      (* Start *)
   TCore CTakeBlk; TClient; TClient; TCore CTakeReq; TClient;
   TCore CTakeBlk; TCore CTakeBlk; TCore CTakeBlk; TClient;              (* WriteControl START served *)
   TCore CTakeBlk; TCore CTakeBlk; TCore CTakeBlk;
   TClient; TClient; TCore CTakeReq; TClient; TCore CTakeBlk;            (* WriteComment: first reply (the error) *)
   TClient; TClient; TCore CTakeBlk].                                     (* the client is gone; the closure goes on *)
Definition is_none {A} (o : option A) : bool := match o with None => true | Some _ => false end.
Lemma old_comment_wedges :
  exists s, run (step old_cfg) (init_state 16 4 0 wedge_ops) wedge_sched = Some s
            /\ client s = LHalt
            /\ (exists r rest, core s = KRun (AReply r :: rest))
            /\ is_none (step old_cfg s (TCore CTakeBlk)) = true /\ is_none (step old_cfg s (TCore CTakeReq)) = true.
Proof.
  eexists. split; [vm_compute; reflexivity|]. split; [reflexivity|]. split; [do 2 eexists; reflexivity|].
  split; reflexivity.
Qed.

(* ---------- what no_wedge_partial leaves open: the step bound ----------
   The full statement of no_wedge, kept as a Definition (NOT proved).  Two fairness assumptions are needed and
   both are explicit: (i) the producer's budget B (c_fair: after abortSelf is closed it emits at most B further
   blocks), as in C10's stop_returns; (ii) the core loop's own select: Go picks at random among the ready cases,
   so while a request is pending in its send the loop may still take blocks — R bounds how often, over the whole
   run, it prefers a block to a pending request ("impatient takes").  Counted are all steps except core-loop /
   producer steps inside the steady data-flow cycle (no stop signalled, producer healthy, loop not on its way
   out), with the impatient takes counted apart.  The claim is a uniform bound in the number of operations, B and R. *)
Definition flow_tid (t : tid) : bool := match t with TClient => false | _ => true end.

Definition steadyb (s : state) : bool :=
  negb (abortc s)
  && match prod s with PLoop | PSend BNormal => true | _ => false end
  && match core s with KAtSel | KSel | KProc | KAtBlk => true | _ => false end.

Definition counted (c : cfg) (s : state) (t : tid) : bool :=
  match step c s t with
  | Some s' => negb (flow_tid t && steadyb s && steadyb s')
  | None => false
  end.

(* the core loop takes a block although the client's request is waiting in its send *)
Definition impatient (s : state) (t : tid) : bool :=
  match t, core s, client s with
  | TCore CTakeBlk, KSel, LSend => true
  | _, _, _ => false
  end.

Fixpoint impatient_takes (c : cfg) (s : state) (sched : list tid) : nat :=
  match sched with
  | [] => O
  | t :: rest => match step c s t with
                 | Some s' => ((if impatient s t then 1 else 0) + impatient_takes c s' rest)%nat
                 | None => O
                 end
  end.

Definition no_wedge_full_statement : Prop :=
  exists f : nat -> nat -> nat -> nat,
  forall c ns np B R os sched s,
    c_fixed c = true -> c_fair c = true ->
    run (step c) (init_state ns np B os) sched = Some s ->
    (impatient_takes c (init_state ns np B os) sched <= R)%nat ->
    (count_steps (step c) (counted c) (init_state ns np B os) sched <= f (length os) B R)%nat.
