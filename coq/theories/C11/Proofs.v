(* C11 — proofs about the closure scripts and the request model. *)
From Coq Require Import List Arith Bool ZArith Lia.
From Dastard Require Import C10.Conc C11.Model C11.Spec.
Import ListNotations.
Open Scope Z_scope.

(* ---------- every path of every closure executes exactly one Reply ---------- *)

Lemma reply_range_sound s : forall a b, reply_range s = Some (a, b) ->
  forall v, exists k, replies_on v s = Some k /\ (a <= k <= b)%nat.
Proof.
  induction s as [w k IH | r k IH | c t IHt f IHf | |]; intros a b H v; cbn in *.
  - eauto.
  - destruct (reply_range k) as [[a' b']|] eqn:E; [|discriminate]. cbn in H. inversion H; subst.
    destruct (IH _ _ eq_refl v) as (n & Hn & Hr). exists (S n). rewrite Hn. cbn. split; [reflexivity | lia].
  - destruct (reply_range t) as [[a1 b1]|] eqn:E1; [|discriminate].
    destruct (reply_range f) as [[a2 b2]|] eqn:E2; [|discriminate]. inversion H; subst.
    destruct (v c).
    + destruct (IHt _ _ eq_refl v) as (n & Hn & Hr). exists n. split; [assumption | lia].
    + destruct (IHf _ _ eq_refl v) as (n & Hn & Hr). exists n. split; [assumption | lia].
  - discriminate.
  - inversion H; subst. exists O. split; [reflexivity | lia].
Qed.

Lemma exactly_one_sound s : exactly_one_reply s = true -> forall v, replies_on v s = Some 1%nat.
Proof.
  unfold exactly_one_reply. destruct (reply_range s) as [[a b]|] eqn:E; [|discriminate].
  intros H v. apply andb_prop in H as [Ha Hb]. apply Nat.eqb_eq in Ha, Hb. subst.
  destruct (reply_range_sound s _ _ E v) as (k & Hk & Hr). rewrite Hk. f_equal. lia.
Qed.

(* the finite table: decided by computation *)
Lemma table_checked : forallb (fun r => exactly_one_reply (script_of true r)) closure_table = true.
Proof. vm_compute. reflexivity. Qed.

Lemma table_one_reply : forall r, In r closure_table -> forall v, replies_on v (script_of true r) = Some 1%nat.
Proof.
  intros r Hin. apply exactly_one_sound.
  exact (proj1 (forallb_forall _ _) table_checked r Hin).
Qed.

(* the scripts do not depend on the argument values, only on the method (and, for WriteControl, on the
   kind of request), so the table covers every request *)
Definition is_queued (r : request) : bool := match r with RqMix _ _ => false | _ => true end.

Lemma every_request_one_reply : forall r, is_queued r = true -> forall v, replies_on v (script_of true r) = Some 1%nat.
Proof.
  intros r Hq. apply exactly_one_sound.
  destruct r; try discriminate Hq; try reflexivity.
  destruct w as [l o p | | | u |]; try reflexivity. destruct u; reflexivity.
Qed.

(* the code before the fixes: WriteComment replies twice when the file cannot be created;
   ConfigureTriggers with a negative index crashes inside the core loop *)
Lemma old_comment_two_replies :
  replies_on (fun c => match c with CWriting | CIoFails => true | _ => false end) (script_of false (RqComment false)) = Some 2%nat.
Proof. reflexivity. Qed.
Lemma old_triggers_crash :
  replies_on (fun c => match c with CTrigIdxOk | CTrigIdxNeg => true | _ => false end) (script_of false (RqTriggers [-1] false)) = None.
Proof. reflexivity. Qed.

(* ---------- the reply class of a request ---------- *)

Fixpoint first_reply (acts : list action) : option rc :=
  match acts with
  | [] => None
  | AReply r :: _ => Some r
  | ACrash :: _ => None
  | AWork _ :: k => first_reply k
  end.

(* what the caller gets when the source stays alive: the precheck's answer, the "no source" answer of
   runLaterIfActive, or the closure's reply *)
Definition req_outcome (fixed : bool) (e : env) (r : request) (io : bool) : option rc :=
  match r with
  | RqMix idx nf => Some (match mix_precheck fixed e idx nf with Some c => c | None => ROk end)
  | _ => match precheck fixed e r io with
         | Some c => Some c
         | None => if negb (e_flag e) then Some RErr
                   else first_reply (linearize (eval_cond fixed e r io) (script_of fixed r))
         end
  end.

Lemma forallb_eq {A} (f g : A -> bool) l : (forall x, f x = g x) -> forallb f l = forallb g l.
Proof. intros H. induction l; cbn; [reflexivity | now rewrite H, IHl]. Qed.

Lemma nonempty_len (l : list Z) : negb (match l with [] => true | _ => false end) = (0 <? Z.of_nat (length l)).
Proof. destruct l; [reflexivity|]. cbn [negb length]. symmetry. apply Z.ltb_lt. lia. Qed.

Ltac bool_crush :=
  repeat match goal with
         | |- context [if ?b then _ else _] => destruct b eqn:?
         | H : context [if ?b then _ else _] |- _ => destruct b eqn:?
         end; cbn in *; try reflexivity; try discriminate; try lia.

Lemma reply_class e r io :
  req_outcome true e r io = Some (if must_be_error e r io then RErr else ROk).
Proof.
  unfold must_be_error, req_outcome.
  destruct e as [fl kd nch wr ns np hp ar]. cbn [e_flag e_kind e_nchan e_writing e_nsamp e_npre e_hasproj e_archiving].
  destruct r; cbn [precheck args_valid io_fails script_of linearize eval_cond first_reply reply_and_end
                   e_flag e_kind e_nchan e_writing e_nsamp e_npre e_hasproj e_archiving mix_precheck mix_idx_ok].
  - (* triggers *)
    rewrite nonempty_len. unfold all_in_range, in_range.
    rewrite (forallb_eq (fun i => (i <? nch) && (0 <=? i)) (fun i => (0 <=? i) && (i <? nch))) by (intros; apply andb_comm).
    destruct emt_noise, fl, (0 <? Z.of_nat (length idx)), (forallb (fun i => (0 <=? i) && (i <? nch)) idx); reflexivity.
  - (* pulse lengths *)
    destruct fl; cbn; [|reflexivity].
    destruct (nsamp <=? 0) eqn:E1, (npre <=? 0) eqn:E2, (npre =? np) eqn:E3, (nsamp =? ns) eqn:E4, wr,
             (3 <=? npre) eqn:E5, (1 <=? nsamp) eqn:E6, (npre + 1 <=? nsamp) eqn:E7, (0 <? nsamp) eqn:E8, (0 <? npre) eqn:E9;
      cbn; try reflexivity; exfalso; lia.
  - (* projectors *)
    unfold in_range. destruct b64ok, matok, fl, ((0 <=? idx) && (idx <? nch)), (pcols =? ns), (bcols =? 1), (brows =? ns); reflexivity.
  - (* write control *)
    destruct w as [l o p | | | u |]; [| | | destruct u |]; cbn;
      destruct fl, wr, hp, io; try destruct l; try destruct o; try destruct p; reflexivity.
  - destruct empty, fl, wr; reflexivity.
  - destruct empty, fl, wr, io; reflexivity.
  - destruct on, fl, kd; reflexivity.
  - destruct on, fl, kd; reflexivity.
  - (* group add *)
    unfold add_ok.
    rewrite (forallb_eq (fun p : Z * Z => let (s, r) := p in (s =? r) || (in_range nch r && in_range nch s))
                        (fun p => (fst p =? snd p) || (in_range nch (fst p) && in_range nch (snd p))))
      by (intros [s r]; cbn; f_equal; apply andb_comm).
    destruct fl, (forallb (fun p : Z * Z => (fst p =? snd p) || (in_range nch (fst p) && in_range nch (snd p))) conns); reflexivity.
  - unfold del_ok. destruct fl, (forallb (fun p : Z * Z => in_range nch (snd p)) conns); reflexivity.
  - destruct fl; reflexivity.
  - (* store raw *)
    destruct (n <=? 0) eqn:E1, (0 <? n) eqn:E2, fl, ar, io; cbn; try reflexivity; exfalso; lia.
  - (* mix *)
    unfold mix_precheck, mix_idx_ok; cbn.
    destruct fl, kd, (forallb (fun i : Z => in_range nch i && Z.odd i) idx), (nfrac =? Z.of_nat (length idx)); reflexivity.
Qed.
