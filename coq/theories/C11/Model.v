(* C11 — mirror model of the control-request path (definitions only, no proofs).

   Mirrors /repo/rpc_server.go: every SourceControl method that queues work for the core loop
   (ConfigureTriggers, ConfigurePulseLengths, ConfigureProjectorsBasis, WriteControl,
   SetExperimentStateLabel with WaitForError, WriteComment, CoupleErrToFB, CoupleFBToErr,
   Add/DeleteGroupTriggerCoupling, StopTriggerCoupling, StoreRawDataBlock), ConfigureMixFraction (its own
   rendezvous with the block assembler), runLaterIfActive, handlePossibleStoppedSource, Start, Stop;
   /repo/data_source.go: CoreLoop's select, the argument checks of ChangeTriggerState,
   ConfigurePulseLengths, ConfigureProjectorsBases, ChangeGroupTrigger, WriteControl / writeControlStart,
   ArchiveDataBlock; group_trigger.go: AddConnection / DeleteConnection; lancero_source.go:
   ConfigureMixFraction.

   What each method does BEFORE queueing is [precheck]; the closure it queues is a SCRIPT, a tree of
   Work / Reply / Branch nodes transcribed path by path from the Go text ([script_of], the table the
   theorem one_reply_per_request ranges over).  Branch conditions are evaluated on the concrete
   arguments and on what the handler reads of the running source ([env]).

   Threads: one RPC client executing its operations in order (Start, Stop, requests), the core loop,
   the producer (unobserved).  One step = one atomic operation or the passage of a verifPoint
   (rpc:before-send, rpc:between, core:before-select, core:after-request, core:after-block,
   core:before-return; the life-cycle points inside Start/Stop are C10's business and pass silently).

   [fixed = true] is the code after the fix commits; [fixed = false] the code as it was (used by the
   _refuted theorems). *)
From Coq Require Import List Arith Bool ZArith Lia.
From Dastard Require Import C10.Conc.
Import ListNotations.
Open Scope Z_scope.

Inductive srckind := SrcTriangle | SrcErroring | SrcLancero.

Inductive unpause_label := ULNone | ULGood | ULBad.     (* "UNPAUSE", "UNPAUSE label", "UNPAUSEx" / "UNPAUSE " *)
Inductive wreq :=
| WStart (ljh off pathok : bool)       (* START with these formats; pathok: the directory can be created *)
| WStop | WPause | WUnpause (l : unpause_label) | WGarbage.

Inductive request :=
| RqTriggers (idx : list Z) (emt_noise : bool)   (* channel indices; EdgeMulti with the unimplemented noise option *)
| RqPulseLengths (nsamp npre : Z)
| RqProjectors (idx : Z) (b64ok matok : bool) (pcols brows bcols : Z)
    (* base64 / matrix decoding succeed; the projectors are 1 x pcols (one basis vector), the basis is brows x bcols *)
| RqWriteControl (w : wreq)
| RqStateLabel (empty : bool)
| RqComment (empty : bool)
| RqCoupleErrToFB (on : bool)
| RqCoupleFBToErr (on : bool)
| RqGroupAdd (conns : list (Z * Z))              (* (source, receiver) pairs *)
| RqGroupDel (conns : list (Z * Z))
| RqStopCoupling
| RqStoreRaw (n : Z)
| RqMix (idx : list Z) (nfrac : Z).              (* channel indices, number of mix fractions supplied *)

Inductive op :=
| OStart
| OStop
| OReq (r : request) (iofail : bool).            (* iofail: the method's file creation fails (comment.txt; the temporary file of StoreRawDataBlock) *)

(* what a handler can read of the source *)
Record env := mkEnv {
  e_flag : bool;           (* s.isSourceActive *)
  e_kind : srckind;
  e_nchan : Z;
  e_writing : bool;        (* writingState.Active / processors have writers *)
  e_nsamp : Z; e_npre : Z; (* s.status.Nsamples / Npresamp = the processors' record lengths *)
  e_hasproj : bool;        (* some channel has projectors *)
  e_archiving : bool }.    (* an archive block is being acquired *)

(* ---------- closure scripts ---------- *)

Inductive cond :=
| CTrigIdxOk          (* ChangeTriggerState: list non-empty, every index < nchan [fixed: and >= 0] *)
| CTrigIdxNeg         (* some index is negative (old code: indexes ds.processors[-k]) *)
| CLenOk              (* ConfigurePulseLengths: npre >= 3, nsamp >= 1, nsamp >= npre+1 *)
| CProjIdxOk          (* ConfigureProjectorsBases: 0 <= idx < len(processors) *)
| CProjDimsOk         (* SetProjectorsBasis: projector columns = NSamples, basis is NSamples x (number of bases) *)
| CWcFormats          (* writeControlStart: some format requested *)
| CWriting            (* writing already in progress / writingState.Active *)
| CWcOffNeedsProj     (* OFF requested and no channel has projectors *)
| CPathOk             (* makeDirectory succeeds *)
| CIoFails            (* os.Create in the handler fails *)
| CCoupleOk           (* SetCoupling accepts: NoCoupling, or a Lancero source *)
| CConnsOk            (* every connection passes AddConnection / DeleteConnection *)
| CArchiving.         (* ArchiveDataBlock: one is already being acquired *)

Inductive work :=
| WkNone              (* broadcasts, bookkeeping without effect on later replies *)
| WkSetLens           (* record lengths := request's *)
| WkSetProj
| WkWriting (b : bool)
| WkArchive.

Inductive script :=
| SWork (w : work) (k : script)
| SReply (r : rc) (k : script)      (* s.queuedResults <- ... *)
| SBranch (c : cond) (t f : script)
| SCrash                            (* index out of range inside the core loop *)
| SEnd.

Definition reply_and_end (r : rc) : script := SReply r SEnd.

Definition wc_script (fixed : bool) (w : wreq) : script :=
  match w with
  | WStart _ _ _ =>
      SBranch CWcFormats
        (SBranch CWriting (reply_and_end RErr)
           (SBranch CWcOffNeedsProj (reply_and_end RErr)
              (SBranch CPathOk
                 (* the run directory exists, the channels have their writers; WritingState.Start marks writing active
                    and then creates the experiment-state file: if that fails (io) the error is the reply, and the
                    writing state stays as Start left it *)
                 (SWork (WkWriting true)
                    (SBranch CIoFails (reply_and_end RErr) (SWork WkNone (reply_and_end ROk))))
                 (reply_and_end RErr))))
        (reply_and_end RErr)
  | WStop => SWork (WkWriting false) (SWork WkNone (reply_and_end ROk))
  | WPause => SWork WkNone (reply_and_end ROk)
  | WUnpause ULNone => SWork WkNone (reply_and_end ROk)
  | WUnpause ULGood => SBranch CWriting (SWork WkNone (reply_and_end ROk)) (reply_and_end RErr)
  | WUnpause ULBad => reply_and_end RErr
  | WGarbage => reply_and_end RErr
  end.

(* the closure each method hands to runLaterIfActive (RqMix does not use the core loop) *)
Definition script_of (fixed : bool) (r : request) : script :=
  match r with
  | RqTriggers _ _ =>
      if fixed
      then SBranch CTrigIdxOk (SWork WkNone (SWork WkNone (reply_and_end ROk))) (SWork WkNone (reply_and_end RErr))
      else SBranch CTrigIdxOk
             (SBranch CTrigIdxNeg SCrash (SWork WkNone (SWork WkNone (reply_and_end ROk))))
             (SWork WkNone (reply_and_end RErr))
  | RqPulseLengths _ _ =>
      SBranch CLenOk (SWork WkSetLens (SWork WkNone (reply_and_end ROk))) (SWork WkNone (reply_and_end RErr))
  | RqProjectors _ _ _ _ _ _ =>
      SBranch CProjIdxOk (SBranch CProjDimsOk (SWork WkSetProj (reply_and_end ROk)) (reply_and_end RErr))
                         (reply_and_end RErr)
  | RqWriteControl w => wc_script fixed w
  | RqStateLabel _ =>
      SBranch CWriting (SReply ROk (SWork WkNone SEnd)) (reply_and_end RErr)
  | RqComment _ =>
      SBranch CWriting
        (SBranch CIoFails
           (if fixed then reply_and_end RErr                       (* reply the error and return *)
            else SReply RErr (SWork WkNone (reply_and_end ROk)))   (* old: no return, a second reply follows *)
           (SWork WkNone (reply_and_end ROk)))
        (reply_and_end ROk)
  | RqCoupleErrToFB _ | RqCoupleFBToErr _ =>
      (* SetCoupling; TRIGCOUPLING update; GROUPTRIGGER update; reply *)
      SBranch CCoupleOk (SWork WkNone (SWork WkNone (reply_and_end ROk))) (SWork WkNone (SWork WkNone (reply_and_end RErr)))
  | RqGroupAdd _ | RqGroupDel _ =>
      if fixed
      then SBranch CConnsOk (SWork WkNone (SWork WkNone (reply_and_end ROk))) (SWork WkNone (SWork WkNone (reply_and_end RErr)))
      else SWork WkNone (SWork WkNone (reply_and_end ROk))         (* old: errors of the broker were dropped *)
  | RqStopCoupling => SWork WkNone (SWork WkNone (SWork WkNone (reply_and_end ROk)))
  | RqStoreRaw _ => SBranch CArchiving (reply_and_end RErr) (SWork WkArchive (reply_and_end ROk))
  | RqMix _ _ => SEnd
  end.

(* one representative request per closure: the finite table behind one_reply_per_request *)
Definition all_wreqs : list wreq :=
  [WStart true false true; WStop; WPause; WUnpause ULNone; WUnpause ULGood; WUnpause ULBad; WGarbage].
Definition closure_table : list request :=
  [RqTriggers [] false; RqPulseLengths 0 0; RqProjectors 0 true true 0 0 0; RqStateLabel false; RqComment false;
   RqCoupleErrToFB false; RqCoupleFBToErr false; RqGroupAdd []; RqGroupDel []; RqStopCoupling; RqStoreRaw 0]
  ++ map RqWriteControl all_wreqs.

(* number of Reply nodes on the path chosen by a valuation of the conditions; None if the path crashes *)
Fixpoint replies_on (v : cond -> bool) (s : script) : option nat :=
  match s with
  | SWork _ k => replies_on v k
  | SReply _ k => option_map S (replies_on v k)
  | SBranch c t f => if v c then replies_on v t else replies_on v f
  | SCrash => None
  | SEnd => Some O
  end.

(* every path: minimum and maximum number of replies over all valuations, crash anywhere = None *)
Fixpoint reply_range (s : script) : option (nat * nat) :=
  match s with
  | SWork _ k => reply_range k
  | SReply _ k => option_map (fun p => (S (fst p), S (snd p))) (reply_range k)
  | SBranch _ t f =>
      match reply_range t, reply_range f with
      | Some (a, b), Some (c, d) => Some (Nat.min a c, Nat.max b d)
      | _, _ => None
      end
  | SCrash => None
  | SEnd => Some (O, O)
  end.

Definition exactly_one_reply (s : script) : bool :=
  match reply_range s with
  | Some (a, b) => Nat.eqb a 1 && Nat.eqb b 1
  | None => false
  end.

(* ---------- evaluation of conditions on concrete arguments ---------- *)

Definition in_range (n i : Z) : bool := (0 <=? i) && (i <? n).

Definition add_ok (n : Z) (p : Z * Z) : bool :=     (* AddConnection *)
  let (s, r) := p in (s =? r) || (in_range n r && in_range n s).
Definition del_ok (n : Z) (p : Z * Z) : bool :=     (* DeleteConnection *)
  in_range n (snd p).

Definition eval_cond (fixed : bool) (e : env) (r : request) (io : bool) (c : cond) : bool :=
  match c, r with
  | CTrigIdxOk, RqTriggers idx _ =>
      negb (match idx with [] => true | _ => false end)
      && forallb (fun i => (i <? e_nchan e) && (if fixed then 0 <=? i else true)) idx
  | CTrigIdxNeg, RqTriggers idx _ => existsb (fun i => i <? 0) idx
  | CLenOk, RqPulseLengths ns np => (3 <=? np) && (1 <=? ns) && (np + 1 <=? ns)
  | CProjIdxOk, RqProjectors i _ _ _ _ _ => in_range (e_nchan e) i
  | CProjDimsOk, RqProjectors _ _ _ pc br bc =>
      (* SetProjectorsBasis: projector columns = NSamples; basis columns = number of bases (1); basis rows = NSamples *)
      (pc =? e_nsamp e) && (bc =? 1) && (br =? e_nsamp e)
  | CWcFormats, RqWriteControl (WStart l o _) => l || o
  | CWriting, _ => e_writing e
  | CWcOffNeedsProj, RqWriteControl (WStart _ o _) => o && negb (e_hasproj e)
  | CPathOk, RqWriteControl (WStart _ _ p) => p
  | CIoFails, _ => io
  | CCoupleOk, RqCoupleErrToFB on => negb on || (match e_kind e with SrcLancero => true | _ => false end)
  | CCoupleOk, RqCoupleFBToErr on => negb on || (match e_kind e with SrcLancero => true | _ => false end)
  | CConnsOk, RqGroupAdd cs => forallb (add_ok (e_nchan e)) cs
  | CConnsOk, RqGroupDel cs => forallb (del_ok (e_nchan e)) cs
  | CArchiving, _ => e_archiving e
  | _, _ => false
  end.

(* resolve the branches: the straight-line path the closure takes *)
Inductive action := AWork (w : work) | AReply (r : rc) | ACrash.

Fixpoint linearize (v : cond -> bool) (s : script) : list action :=
  match s with
  | SWork w k => AWork w :: linearize v k
  | SReply r k => AReply r :: linearize v k
  | SBranch c t f => if v c then linearize v t else linearize v f
  | SCrash => [ACrash]
  | SEnd => []
  end.

(* ---------- what the method does before it queues the closure ---------- *)
(* Some r: the method returns r without involving the core loop; None: goes on to runLaterIfActive *)
Definition precheck (fixed : bool) (e : env) (r : request) (io : bool) : option rc :=
  match r with
  | RqTriggers _ emt => if emt then Some RErr else None
  | RqPulseLengths ns np =>
      if negb (e_flag e) then Some RErr
      else if (ns <=? 0) || (np <=? 0) then Some RErr
      else if (np =? e_npre e) && (ns =? e_nsamp e) then Some ROk
      else if e_writing e then Some RErr
      else None
  | RqProjectors _ b64 matok _ _ _ => if negb b64 then Some RErr else if negb matok then Some RErr else None
  | RqStateLabel empty => if empty then Some RErr else None
  | RqComment empty => if empty then Some RErr else None
  | RqStoreRaw n =>
      (* the count is checked first; then the temporary file is created, still in the RPC goroutine: if that
         fails (io) the method returns the error without queueing anything *)
      if fixed && (n <=? 0) then Some RErr else if io then Some RErr else None
  | _ => None
  end.

(* ConfigureMixFraction, after the fix: refuse without a running source; the Lancero source checks the
   indices (in range, odd) and that there is one fraction per index *)
Definition mix_idx_ok (e : env) (idx : list Z) : bool :=
  forallb (fun i => in_range (e_nchan e) i && Z.odd i) idx.
Definition mix_precheck (fixed : bool) (e : env) (idx : list Z) (nfrac : Z) : option rc :=
  if fixed && negb (e_flag e) then Some RErr
  else match e_kind e with
       | SrcLancero =>
           if negb (mix_idx_ok e idx) then Some RErr
           else if fixed && negb (nfrac =? Z.of_nat (length idx)) then Some RErr
           else None
       | _ => Some RErr                   (* "source type does not support Mix" *)
       end.

(* ---------- the interleaving system ---------- *)

Inductive sstate := Inactive | Active | Stopping.
Inductive blk := BNormal | BErr.

Inductive client_pc :=
| LIdle                   (* about to begin the next operation *)
| LAtSend | LSend         (* parked at rpc:before-send / in the send on queuedRequests *)
| LAtBetween | LRecv      (* parked at rpc:between / in the receive on queuedResults *)
| LMixWait                (* ConfigureMixFraction: request queued, waiting for the current mix *)
| LStopWait | LStopFin    (* inside ActiveSource.Stop: RunDoneWait / after it *)
| LReturn (c : call) (r : rc)  (* the method is about to return *)
| LHalt.                  (* all operations done *)

Inductive core_pc :=
| KNone | KAtSel | KSel | KRun (acts : list action) | KAtReq | KProc | KAtBlk | KAtRet | KDeact | KDone.
Inductive prod_pc := PNone | PLoop | PSend (b : blk) | PDone.

Record state := mkState {
  flag : bool;              (* s.isSourceActive *)
  sst : sstate;             (* the source's real state *)
  abortc : bool;            (* abortSelf closed *)
  nbc : bool;               (* nextBlock closed *)
  client : client_pc;
  ops : list op;            (* operations still to do; the head is the one in progress *)
  core : core_pc;
  prod : prod_pc;
  writing : bool;
  lens : Z * Z;             (* (nsamp, npre) *)
  hasproj : bool;
  archiving : bool;
  budget : nat;
  crashed : bool }.

Record cfg := mkCfg { c_kind : srckind; c_nchan : Z; c_fixed : bool; c_fair : bool }.

Definition env_of (c : cfg) (s : state) : env :=
  mkEnv (flag s) (c_kind c) (c_nchan c) (writing s) (fst (lens s)) (snd (lens s)) (hasproj s) (archiving s).

Definition set_client (s : state) (v : client_pc) : state :=
  mkState (flag s) (sst s) (abortc s) (nbc s) v (ops s) (core s) (prod s) (writing s) (lens s) (hasproj s) (archiving s) (budget s) (crashed s).
Definition set_core (s : state) (v : core_pc) : state :=
  mkState (flag s) (sst s) (abortc s) (nbc s) (client s) (ops s) v (prod s) (writing s) (lens s) (hasproj s) (archiving s) (budget s) (crashed s).
Definition set_prod (s : state) (v : prod_pc) : state :=
  mkState (flag s) (sst s) (abortc s) (nbc s) (client s) (ops s) (core s) v (writing s) (lens s) (hasproj s) (archiving s) (budget s) (crashed s).
Definition set_flag (s : state) (v : bool) : state :=
  mkState v (sst s) (abortc s) (nbc s) (client s) (ops s) (core s) (prod s) (writing s) (lens s) (hasproj s) (archiving s) (budget s) (crashed s).
Definition set_sst (s : state) (v : sstate) : state :=
  mkState (flag s) v (abortc s) (nbc s) (client s) (ops s) (core s) (prod s) (writing s) (lens s) (hasproj s) (archiving s) (budget s) (crashed s).
Definition set_abortc (s : state) (v : bool) : state :=
  mkState (flag s) (sst s) v (nbc s) (client s) (ops s) (core s) (prod s) (writing s) (lens s) (hasproj s) (archiving s) (budget s) (crashed s).
Definition set_nbc (s : state) (v : bool) : state :=
  mkState (flag s) (sst s) (abortc s) v (client s) (ops s) (core s) (prod s) (writing s) (lens s) (hasproj s) (archiving s) (budget s) (crashed s).
Definition set_ops (s : state) (v : list op) : state :=
  mkState (flag s) (sst s) (abortc s) (nbc s) (client s) v (core s) (prod s) (writing s) (lens s) (hasproj s) (archiving s) (budget s) (crashed s).
Definition set_writing (s : state) (v : bool) : state :=
  mkState (flag s) (sst s) (abortc s) (nbc s) (client s) (ops s) (core s) (prod s) v (lens s) (hasproj s) (archiving s) (budget s) (crashed s).
Definition set_lens (s : state) (v : Z * Z) : state :=
  mkState (flag s) (sst s) (abortc s) (nbc s) (client s) (ops s) (core s) (prod s) (writing s) v (hasproj s) (archiving s) (budget s) (crashed s).
Definition set_hasproj (s : state) (v : bool) : state :=
  mkState (flag s) (sst s) (abortc s) (nbc s) (client s) (ops s) (core s) (prod s) (writing s) (lens s) v (archiving s) (budget s) (crashed s).
Definition set_archiving (s : state) (v : bool) : state :=
  mkState (flag s) (sst s) (abortc s) (nbc s) (client s) (ops s) (core s) (prod s) (writing s) (lens s) (hasproj s) v (budget s) (crashed s).
Definition set_budget (s : state) (v : nat) : state :=
  mkState (flag s) (sst s) (abortc s) (nbc s) (client s) (ops s) (core s) (prod s) (writing s) (lens s) (hasproj s) (archiving s) v (crashed s).
Definition set_crashed (s : state) (v : bool) : state :=
  mkState (flag s) (sst s) (abortc s) (nbc s) (client s) (ops s) (core s) (prod s) (writing s) (lens s) (hasproj s) (archiving s) (budget s) v.

(* handlePossibleStoppedSource: if s.isSourceActive && !s.ActiveSource.Running() then the flag is cleared *)
Definition refresh (s : state) : state :=
  match sst s with
  | Active => s
  | _ => set_flag s false
  end.

Definition apply_work (r : request) (w : work) (s : state) : state :=
  match w, r with
  | WkSetLens, RqPulseLengths ns np =>
      (* a change of lengths drops the projectors of every channel *)
      set_hasproj (set_lens s (ns, np)) false
  | WkSetProj, _ => set_hasproj s true
  | WkWriting b, _ => set_writing s b
  | WkArchive, _ => set_archiving s true
  | _, _ => s
  end.

(* the request whose closure the core loop is running = the head of the client's operations *)
Definition current_request (s : state) : option (request * bool) :=
  match ops s with
  | OReq r io :: _ => Some (r, io)
  | _ => None
  end.

(* ----- the client ----- *)
Definition step_client (c : cfg) (s : state) : option state :=
  match client s with
  | LIdle =>
      match ops s with
      | [] => Some (set_client s LHalt)
      | OStart :: _ =>
          (* SourceControl.Start: refuses when it believes a source is active; otherwise Start(ds) runs
             to completion (the sources used here start successfully) *)
          if flag s then Some (set_client s (LReturn CallStart RErr))
          else Some (set_client
                 (set_hasproj (set_prod (set_core (set_nbc (set_abortc (set_sst (set_flag s true) Active) false) false) KAtSel) PLoop) false)
                 (LReturn CallStart ROk))
      | OStop :: _ =>
          if negb (flag s) then Some (set_client s (LReturn CallStop RErr))
          else match sst s with
               | Active => Some (set_client (set_abortc (set_sst s Stopping) true) LStopWait)
               | _ => Some (set_client s LStopFin)     (* the source had ended by itself: Stop's error is ignored *)
               end
      | OReq (RqMix idx nfrac) _ :: _ =>
          let s1 := if c_fixed c then refresh s else s in       (* handlePossibleStoppedSource *)
          match mix_precheck (c_fixed c) (env_of c s1) idx nfrac with
          | Some r => Some (set_client s1 (LReturn CallReq r))
          | None =>
              if nfrac <? Z.of_nat (length idx)
              then Some (set_crashed s1 true)           (* old: the assembler indexes MixFractions[i] out of range *)
              else Some (set_client s1 LMixWait)
          end
      | OReq r io :: _ =>
          match precheck (c_fixed c) (env_of c s) r io with
          | Some cls => Some (set_client s (LReturn CallReq cls))
          | None =>
              (* runLaterIfActive *)
              let s1 := if c_fixed c then refresh s else s in
              if negb (flag s1) then Some (set_client s1 (LReturn CallReq RErr))
              else Some (set_client s1 LAtSend)
          end
      end
  | LAtSend => Some (set_client s LSend)
  | LSend =>
      (* the send itself is the core loop's step; the fixed code gives up once the source is no longer running *)
      if c_fixed c
      then match sst s with
           | Active => None
           | _ => Some (set_client (set_flag s false) (LReturn CallReq RErr))
           end
      else None
  | LAtBetween => Some (set_client s LRecv)
  | LRecv => None                                  (* waits for the core loop's Reply *)
  | LMixWait =>
      (* served by the block assembler while it waits for data *)
      match prod s with
      | PLoop => Some (set_client s (LReturn CallReq ROk))
      | _ => None
      end
  | LStopWait =>
      match core s with
      | KDone => Some (set_client (set_writing s false) LStopFin)   (* RunDoneWait returned; Stop ends writing *)
      | _ => None
      end
  | LStopFin => Some (set_client (refresh s) (LReturn CallStop ROk))
  | LReturn _ _ => Some (set_client (set_ops s (tl (ops s))) LIdle)
  | LHalt => None
  end.

(* ----- the core loop ----- *)
Inductive cchoice := CTakeReq | CTakeBlk.

Definition step_core (c : cfg) (s : state) (ch : cchoice) : option state :=
  match core s with
  | KNone | KDone => None
  | KAtSel => match ch with CTakeBlk => Some (set_core s KSel) | _ => None end
  | KSel =>
      match ch with
      | CTakeReq =>
          match client s, current_request s with
          | LSend, Some (r, io) =>
              let acts := linearize (eval_cond (c_fixed c) (env_of c s) r io) (script_of (c_fixed c) r) in
              Some (set_client (set_core s (KRun acts)) LAtBetween)
          | _, _ => None
          end
      | CTakeBlk =>
          match prod s with
          | PSend BNormal => Some (set_prod (set_core s KProc) PLoop)
          | PSend BErr => Some (set_prod (set_core s KAtRet) PDone)
          | _ => if nbc s then Some (set_core s KAtRet) else None
          end
      end
  | KRun acts =>
      match ch with
      | CTakeReq => None
      | CTakeBlk =>
          match acts with
          | [] => Some (set_core s KAtReq)
          | AWork w :: rest =>
              match current_request s with
              | Some (r, _) => Some (set_core (apply_work r w s) (KRun rest))
              | None => Some (set_core s (KRun rest))
              end
          | AReply r :: rest =>
              match client s with
              | LRecv => Some (set_client (set_core s (KRun rest)) (LReturn CallReq r))
              | _ => None                          (* nobody receives: the send blocks *)
              end
          | ACrash :: _ => Some (set_crashed s true)
          end
      end
  | KAtReq => match ch with CTakeBlk => Some (set_core s KAtSel) | _ => None end
  | KProc =>
      (* ProcessSegments; an archive block in progress may or may not be completed by this block (blocks
         that began before the request are skipped), so both outcomes are steps *)
      match ch with
      | CTakeBlk => Some (set_archiving (set_core s KAtBlk) false)
      | CTakeReq => if archiving s then Some (set_core s KAtBlk) else None
      end
  | KAtBlk => match ch with CTakeBlk => Some (set_core s KAtSel) | _ => None end
  | KAtRet =>                                   (* return: the deferred function stops the writing (fix) *)
      match ch with CTakeBlk => Some (set_core (if c_fixed c then set_writing s false else s) KDeact) | _ => None end
  | KDeact => match ch with CTakeBlk => Some (set_sst (set_core s KDone) Inactive) | _ => None end   (* deferred RunDoneDeactivate *)
  end.

(* ----- the producer ----- *)
Inductive pchoice := PTick | PAbort.

Definition step_prod (c : cfg) (s : state) (ch : pchoice) : option state :=
  match prod s with
  | PLoop =>
      match ch with
      | PTick =>
          match c_kind c with
          | SrcErroring => Some (set_prod s (PSend BErr))
          | _ =>
              if abortc s && c_fair c
              then match budget s with
                   | O => None
                   | S b => Some (set_prod (set_budget s b) (PSend BNormal))
                   end
              else Some (set_prod s (PSend BNormal))
          end
      | PAbort =>
          match c_kind c with
          | SrcErroring => None
          | _ => if abortc s then Some (set_prod (set_nbc s true) PDone) else None
          end
      end
  | _ => None
  end.

Inductive tid := TClient | TCore (ch : cchoice) | TProd (ch : pchoice).

Definition step (c : cfg) (s : state) (t : tid) : option state :=
  if crashed s then None else
  match t with
  | TClient => step_client c s
  | TCore ch => step_core c s ch
  | TProd ch => step_prod c s ch
  end.

Definition all_tids : list tid := [TClient; TCore CTakeReq; TCore CTakeBlk; TProd PTick; TProd PAbort].

Definition label_of (s : state) (t : tid) : option label :=
  match t with
  | TClient => match client s with
               | LAtSend => Some (LPt PRpcSend)
               | LAtBetween => Some (LPt PRpcBetween)
               | LReturn cl r => Some (LRet cl r)
               | _ => None
               end
  | TCore _ => match core s with
               | KAtSel => Some (LPt PCoreSel)
               | KAtReq => Some (LPt PCoreReq)
               | KAtBlk => Some (LPt PCoreBlk)
               | KAtRet => Some (LPt PCoreRet)
               | _ => None
               end
  | TProd _ => None
  end.

Definition init_state (ns np : Z) (B : nat) (os : list op) : state :=
  mkState false Inactive false false LIdle os KNone PNone false (ns, np) false false B false.

Definition finished (s : state) : bool :=
  match client s with LHalt => true | _ => false end.
