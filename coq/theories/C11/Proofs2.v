(* C11 — the inductive invariant of the request model (fixed code) and what follows from it. *)
From Coq Require Import List Arith Bool ZArith Lia.
From Dastard Require Import C10.Conc C11.Model C11.Spec C11.Proofs.
Import ListNotations.
Open Scope Z_scope.

(* ---------- invariants of the interleaving model (fixed code) ---------- *)

Fixpoint nreplies (acts : list action) : nat :=
  match acts with
  | [] => O
  | AReply _ :: k => S (nreplies k)
  | _ :: k => nreplies k
  end.
Fixpoint nocrash (acts : list action) : bool :=
  match acts with
  | [] => true
  | ACrash :: _ => false
  | _ :: k => nocrash k
  end.

Lemma linearize_replies v s k :
  replies_on v s = Some k -> nocrash (linearize v s) = true /\ nreplies (linearize v s) = k.
Proof.
  revert k. induction s as [w s IH | r s IH | c t IHt f IHf | |]; intros k H; cbn in *.
  - apply IH; assumption.
  - destruct (replies_on v s) as [k'|] eqn:E; [|discriminate]. cbn in H. inversion H; subst.
    destruct (IH _ eq_refl) as [A B]. split; [assumption | now rewrite B].
  - destruct (v c); [apply IHt | apply IHf]; assumption.
  - discriminate.
  - inversion H; subst. split; reflexivity.
Qed.

Lemma linearize_fixed v r :
  is_queued r = true ->
  nocrash (linearize v (script_of true r)) = true /\ nreplies (linearize v (script_of true r)) = 1%nat.
Proof. intros Hq. apply linearize_replies. apply every_request_one_reply. assumption. Qed.

Definition awaiting (cl : client_pc) : bool :=
  match cl with LAtBetween | LRecv => true | _ => false end.

Definition core_alive (k : core_pc) : Prop :=
  match k with KNone | KDone => False | _ => True end.
Definition core_running (k : core_pc) : Prop :=     (* inside the loop, not on its way out *)
  match k with KAtSel | KSel | KRun _ | KAtReq | KProc | KAtBlk => True | _ => False end.

Definition head_queued (os : list op) : Prop :=
  match os with OReq r _ :: _ => is_queued r = true | _ => False end.
Definition head_mix (os : list op) : Prop :=
  match os with OReq (RqMix _ _) _ :: _ => True | _ => False end.

Definition client_facts (c : cfg) (s : state) : Prop :=
  match client s with
  | LAtSend | LSend | LAtBetween | LRecv => head_queued (ops s)
  | LMixWait => head_mix (ops s) /\ sst s = Active /\ c_kind c = SrcLancero
  | LStopWait => sst s = Stopping \/ core s = KDone
  | _ => True
  end.

Definition core_facts (s : state) : Prop :=
  match core s with
  | KRun acts => nocrash acts = true /\ nreplies acts = (if awaiting (client s) then 1 else 0)%nat
  | _ => awaiting (client s) = false
  end.

Definition sst_facts (s : state) : Prop :=
  match sst s with
  | Active => core_alive (core s) /\ abortc s = false
  | Stopping => core_alive (core s) /\ abortc s = true /\ client s = LStopWait
  | Inactive => ~ core_alive (core s)
  end.

Definition prod_facts (c : cfg) (s : state) : Prop :=
  match prod s with
  | PNone => core s = KNone
  | PLoop => core_running (core s) /\ nbc s = false
  | PSend BNormal => core_running (core s) /\ nbc s = false /\ c_kind c <> SrcErroring
  | PSend BErr => core_running (core s) /\ nbc s = false /\ c_kind c = SrcErroring
  | PDone => core s <> KNone /\
             match c_kind c with
             | SrcErroring => nbc s = false /\ ~ core_running (core s)
             | _ => nbc s = true /\ abortc s = true
             end
  end.

Record J (c : cfg) (s : state) : Prop := {
  j_crash : crashed s = false;
  j_client : client_facts c s;
  j_core : core_facts s;
  j_sst : sst_facts s;
  j_prod : prod_facts c s;
  j_exit : core_running (core s) \/ core s = KNone \/ prod s = PDone }.

Lemma J_init c ns np B os : J c (init_state ns np B os).
Proof. constructor; cbn; auto. Qed.

Ltac open_state s :=
  destruct s as [flag0 sst0 abortc0 nbc0 client0 ops0 core0 prod0 writing0 lens0 hasproj0 archiving0 budget0 crashed0].

Ltac inv_hyps :=
  repeat match goal with
  | H : _ /\ _ |- _ => destruct H
  | H : Some _ = Some _ |- _ => inversion H; subst; clear H
  end.

Ltac destr_match H :=
  repeat match type of H with
         | context [match ?x with _ => _ end] => destruct x eqn:?; try discriminate H
         | context [if ?x then _ else _] => destruct x eqn:?; try discriminate H
         end.

Ltac casesJ :=
  repeat match goal with
         | |- context [match ?x with _ => _ end] => is_var x; destruct x
         | H : context [match ?x with _ => _ end] |- _ => is_var x; destruct x
         end.

Ltac finishJ0 :=
  cbn in *; repeat split; intros; try subst; try discriminate; try congruence; try tauto; auto;
  try solve [intuition (congruence || discriminate)].

Ltac finishJ :=
  constructor; unfold client_facts, core_facts, sst_facts, prod_facts, core_alive, core_running, head_queued, head_mix, awaiting in *;
  cbn in *; try solve [finishJ0]; casesJ; finishJ0.

Lemma J_step_prod c s ch s' : c_fixed c = true -> J c s -> step c s (TProd ch) = Some s' -> J c s'.
Proof.
  intros Hf [Hc Hcl Hco Hs Hp He] Hst. open_state s. destruct c as [k nch fx fr]. cbn in Hf, Hc. subst.
  unfold step in Hst; cbn in Hst. unfold step_prod in Hst; cbn in Hst.
  destruct prod0; try discriminate Hst.
  destruct ch, k; destr_match Hst; inv_hyps;
    unfold client_facts, core_facts, sst_facts, prod_facts in *; cbn in *; inv_hyps.
  all: destruct core0; cbn in *; try contradiction; try tauto.
  all: try solve [finishJ].
Qed.

Lemma apply_work_proj r w s :
  flag (apply_work r w s) = flag s /\ sst (apply_work r w s) = sst s /\ abortc (apply_work r w s) = abortc s
  /\ nbc (apply_work r w s) = nbc s /\ client (apply_work r w s) = client s /\ ops (apply_work r w s) = ops s
  /\ core (apply_work r w s) = core s /\ prod (apply_work r w s) = prod s /\ crashed (apply_work r w s) = crashed s.
Proof. destruct w, r; cbn; repeat split; reflexivity. Qed.

Lemma J_step_core c s ch s' : c_fixed c = true -> J c s -> step c s (TCore ch) = Some s' -> J c s'.
Proof.
  intros Hf [Hc Hcl Hco Hs Hp He] Hst. open_state s. destruct c as [k nch fx fr]. cbn in Hf, Hc. subst.
  unfold step in Hst; cbn in Hst. unfold step_core, current_request in Hst; cbn in Hst.
  destruct core0 as [| | |acts| | | | | |]; try discriminate Hst.
  all: unfold client_facts, core_facts, sst_facts, prod_facts in *; cbn in *.
  - destruct ch; try discriminate; inv_hyps. finishJ.
  - (* select *)
    destruct ch.
    + destruct client0; try discriminate Hst. destruct ops0 as [|[| |r io] rest]; try discriminate Hst.
      inv_hyps. cbn in Hcl.
      pose proof (linearize_fixed (eval_cond true (env_of {| c_kind := k; c_nchan := nch; c_fixed := true; c_fair := fr |}
         {| flag := flag0; sst := sst0; abortc := abortc0; nbc := nbc0; client := LSend; ops := OReq r io :: rest; core := KSel;
            prod := prod0; writing := writing0; lens := lens0; hasproj := hasproj0; archiving := archiving0; budget := budget0;
            crashed := false |}) r io) r Hcl) as [L1 L2].
      constructor; unfold client_facts, core_facts, sst_facts, prod_facts in *; cbn in *; auto.
      * destruct sst0; cbn in *; inv_hyps; try discriminate; tauto.
      * destruct prod0 as [| |[|]|], k; cbn in *; inv_hyps; repeat split; intros; try discriminate; try congruence; try tauto.
    + destruct prod0 as [| |[|]|]; destr_match Hst; inv_hyps; try finishJ.
      all: destruct k; cbn in *; inv_hyps; try discriminate; try contradiction; try finishJ.
  - (* running a closure *)
    destruct ch; try discriminate Hst.
    destruct acts as [|[w|r|] rest].
    + inv_hyps. finishJ.
    + destruct ops0 as [|[| |rq io] rest'].
      all: inv_hyps; cbn in *.
      all: try (match goal with |- J _ (set_core (apply_work ?r ?w ?s) ?k) =>
                  pose proof (apply_work_proj r w s) as (A1 & A2 & A3 & A4 & A5 & A6 & A7 & A8 & A9) end;
                constructor; unfold client_facts, core_facts, sst_facts, prod_facts; cbn;
                rewrite ?A1, ?A2, ?A3, ?A4, ?A5, ?A6, ?A7, ?A8, ?A9; cbn).
      all: try constructor.
      all: unfold client_facts, core_facts, sst_facts, prod_facts, core_alive, core_running, head_queued, head_mix, awaiting in *;
        cbn in *; try solve [finishJ0]; casesJ; finishJ0.
    + destruct client0; try discriminate Hst. inv_hyps. cbn in *. finishJ.
    + inv_hyps. cbn in *. discriminate.
  - destruct ch; try discriminate; inv_hyps. finishJ.
  - destruct ch; destr_match Hst; inv_hyps; finishJ.
  - destruct ch; try discriminate; inv_hyps. finishJ.
  - destruct ch; try discriminate; inv_hyps. finishJ.
  - destruct ch; try discriminate; inv_hyps. finishJ.
Qed.

Lemma mix_none e idx nf :
  mix_precheck true e idx nf = None -> e_flag e = true /\ e_kind e = SrcLancero /\ (nf <? Z.of_nat (length idx)) = false.
Proof.
  unfold mix_precheck. cbn. destruct (e_flag e); cbn; [|discriminate].
  destruct (e_kind e); try discriminate. destruct (mix_idx_ok e idx); cbn; [|discriminate].
  destruct (nf =? Z.of_nat (length idx)) eqn:E; cbn; [|discriminate]. intros _.
  apply Z.eqb_eq in E. repeat split; auto. apply Z.ltb_ge. lia.
Qed.

Lemma J_step_client c s s' : c_fixed c = true -> J c s -> step c s TClient = Some s' -> J c s'.
Proof.
  intros Hf [Hc Hcl Hco Hs Hp He] Hst. open_state s. destruct c as [k nch fx fr]. cbn in Hf, Hc. subst.
  unfold step in Hst; cbn in Hst. unfold step_client, refresh in Hst; cbn -[mix_precheck precheck] in Hst.
  unfold client_facts, core_facts, sst_facts, prod_facts in *; cbn -[mix_precheck precheck] in *.
  destruct client0.
  - (* LIdle *)
    destruct ops0 as [|[| |r io] rest].
    + inv_hyps. finishJ.
    + destr_match Hst; inv_hyps; finishJ.
    + destr_match Hst; inv_hyps; finishJ.
    + destruct r.
      13:{ (* ConfigureMixFraction *)
           destruct sst0; cbn -[mix_precheck precheck] in Hst.
           all: match type of Hst with context [mix_precheck true ?e ?i ?n] =>
                  destruct (mix_precheck true e i n) eqn:EM; [inv_hyps; finishJ|];
                  apply mix_none in EM; destruct EM as (M1 & M2 & M3); cbn in M1, M2; rewrite M3 in Hst end.
           all: inv_hyps; try discriminate; finishJ. }
      all: destr_match Hst; inv_hyps; finishJ.
  - inv_hyps. finishJ.
  - destr_match Hst; inv_hyps; finishJ.
  - inv_hyps. finishJ.
  - discriminate.
  - destr_match Hst; inv_hyps; finishJ.
  - destr_match Hst; inv_hyps; finishJ.
  - destr_match Hst; inv_hyps; finishJ.
  - inv_hyps. finishJ.
  - discriminate.
Qed.

Definition Init (ns np : Z) (B : nat) (os : list op) (s : state) : Prop := s = init_state ns np B os.

Lemma J_step c s t s' : c_fixed c = true -> J c s -> step c s t = Some s' -> J c s'.
Proof.
  intros Hf HJ Hs. destruct t.
  - eapply J_step_client; eassumption.
  - eapply J_step_core; eassumption.
  - eapply J_step_prod; eassumption.
Qed.

Lemma J_reachable c ns np B os s :
  c_fixed c = true -> Reachable (step c) (Init ns np B os) s -> J c s.
Proof.
  intros Hf. apply (invariant_ind _ _ (step c) (Init ns np B os) (J c)).
  - intros s0 ->. apply J_init.
  - intros; eapply J_step; eassumption.
Qed.
