(* C11 — evaluation of generated cases: does the request model accept the trace recorded on the
   implementation (trace inclusion by subset simulation over silent-step closures), and does the
   observable checker accept it.  Evaluated by vm_compute in generated shard files. *)
From Coq Require Import List Arith Bool ZArith.
From Dastard Require Import Common.CaseLib C10.Conc C11.Model C11.Spec.
Import ListNotations.
Open Scope Z_scope.

(* ---- decidable equality on states, by encoding into lists of integers ---- *)
Definition zb (b : bool) : Z := if b then 1 else 0.
Definition enc_rc (r : rc) : Z := match r with ROk => 0 | RErr => 1 end.
Definition enc_call (c : call) : Z := match c with CallStart => 0 | CallStop => 1 | CallReq => 2 end.
Definition enc_work (w : work) : Z :=
  match w with WkNone => 0 | WkSetLens => 1 | WkSetProj => 2 | WkWriting b => 3 + zb b | WkArchive => 5 end.
Definition enc_action (a : action) : Z :=
  match a with AWork w => 10 + enc_work w | AReply r => 20 + enc_rc r | ACrash => 30 end.
Definition enc_client (x : client_pc) : Z :=
  match x with
  | LIdle => 0 | LAtSend => 1 | LSend => 2 | LAtBetween => 3 | LRecv => 4 | LMixWait => 5
  | LStopWait => 6 | LStopFin => 7 | LReturn c r => 10 + 2 * enc_call c + enc_rc r | LHalt => 8
  end.
Definition enc_core (x : core_pc) : list Z :=
  match x with
  | KNone => [0] | KAtSel => [1] | KSel => [2] | KRun acts => 3 :: map enc_action acts
  | KAtReq => [4] | KProc => [5] | KAtBlk => [6] | KAtRet => [7] | KDone => [8] | KDeact => [9]
  end.
Definition enc_prod (x : prod_pc) : Z :=
  match x with PNone => 0 | PLoop => 1 | PSend BNormal => 2 | PSend BErr => 3 | PDone => 4 end.
Definition enc_sst (x : sstate) : Z := match x with Inactive => 0 | Active => 1 | Stopping => 2 end.
Definition encode (s : state) : list Z :=
  [zb (flag s); enc_sst (sst s); zb (abortc s); zb (nbc s); enc_client (client s); Z.of_nat (length (ops s));
   enc_prod (prod s); zb (writing s); fst (lens s); snd (lens s); zb (hasproj s); zb (archiving s);
   Z.of_nat (budget s); zb (crashed s)] ++ enc_core (core s).

Fixpoint zl_eqb (a b : list Z) : bool :=
  match a, b with
  | [], [] => true
  | x :: a', y :: b' => (x =? y) && zl_eqb a' b'
  | _, _ => false
  end.
(* all states of one case share the operation list up to its length, so the length identifies it *)
Definition state_eqb (a b : state) : bool := zl_eqb (encode a) (encode b).

Definition add_new (x : state) (l : list state) : list state :=
  if existsb (state_eqb x) l then l else x :: l.
Definition union (a b : list state) : list state := fold_right add_new b a.

Definition succ_tau (c : cfg) (s : state) : list state :=
  flat_map (fun t => match label_of s t, step c s t with
                     | None, Some s' => [s']
                     | _, _ => []
                     end) all_tids.
Definition succ_lab (c : cfg) (l : label) (s : state) : list state :=
  flat_map (fun t => match label_of s t, step c s t with
                     | Some l', Some s' => if label_eqb l l' then [s'] else []
                     | _, _ => []
                     end) all_tids.

Fixpoint tau_closure (fuel : nat) (c : cfg) (frontier seen : list state) : list state :=
  match fuel with
  | O => seen
  | S f =>
      let next := fold_right (fun s acc => fold_right (fun x acc' =>
                      if existsb (state_eqb x) seen || existsb (state_eqb x) acc' then acc' else x :: acc')
                      acc (succ_tau c s)) [] frontier in
      match next with
      | [] => seen
      | _ => tau_closure f c next (next ++ seen)
      end
  end.
Definition closure (c : cfg) (ss : list state) : list state := tau_closure 200 c ss ss.

Definition after_event (c : cfg) (ss : list state) (e : event) : list state :=
  match e with
  | EL l => fold_right (fun s acc => union (succ_lab c l s) acc) [] (closure c ss)
  end.

Fixpoint follow (c : cfg) (ss : list state) (es : list event) (i : Z) : list state * Z :=
  match es with
  | [] => (ss, -1)
  | e :: rest => match after_event c ss e with
                 | [] => ([], i)
                 | x :: ss' => follow c (x :: ss') rest (i + 1)
                 end
  end.

(* the final readings against a state the model can be in: all operations done, nothing crashed, and the
   source really running or not as observed; if it runs, the core loop is not stuck inside a closure *)
Definition core_free (s : state) : bool :=
  match core s with KRun _ => false | _ => true end.
Definition final_matches (o : obs) (s : state) : bool :=
  match client s with LHalt => true | _ => false end
  && negb (crashed s)
  && negb (o_overlap o)        (* closures_exclusive: the core loop is inside a closure until it has replied *)
  && negb (o_foreign o)        (* the closure's actions are steps of the core loop only *)
  && Bool.eqb (o_final_running o) (match sst s with Active => true | _ => false end)
  (* a running source keeps processing blocks (no_wedge + a live producer), and the core loop is then not
     stuck inside a closure *)
  && Bool.eqb (o_progress o) (o_final_running o)
  && (negb (o_progress o) || core_free s).

Record case := mkCase { k_obs : obs }.

Definition case_cfg (o : obs) : cfg := mkCfg (o_kind o) (o_nchan o) true false.

Definition accepts (k : case) : bool * Z :=
  let o := k_obs k in
  let c := case_cfg o in
  let '(ss, i) := follow c [init_state (fst (o_lens o)) (snd (o_lens o)) 0 (o_ops o)] (o_events o) 0 in
  if i =? -1
  then if Nat.eqb (o_returned o) (length (o_ops o)) && negb (o_crashed o)
          && existsb (final_matches o) (closure c ss)
       then (true, -1) else (false, Z.of_nat (length (o_events o)))
  else (false, i).

Definition verdict (k : case) : Z * Z :=
  let '(a, i) := accepts k in
  (verdict_code a (C11_check (k_obs k)), i).

(* compact constructors for generated files *)
Definition pt (p : point) : event := EL (LPt p).
Definition ret (c : call) (r : rc) : event := EL (LRet c r).
Definition mk (kd : srckind) (nchan ns np : Z) (os : list op) (es : list event)
              (nr : nat) (cr ov fo fr pr : bool) : case :=
  mkCase (mkObs kd nchan (ns, np) os es nr cr ov fo fr pr).
