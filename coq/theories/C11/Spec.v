(* C11 — the property as a boolean checker over OBSERVABLES only: the operations the client issued (with
   their concrete arguments), the recorded sequence of released synchronisation points and call
   returns, whether every call returned, whether the process survived, and whether blocks kept flowing.
   Nothing here calls the interleaving model or the closure scripts; it reuses the vocabulary (request,
   env, labels) and states independently when a request is valid. *)
From Coq Require Import List Arith Bool ZArith Lia.
From Dastard Require Import C10.Conc C11.Model.
Import ListNotations.
Open Scope Z_scope.

Inductive event := EL (l : label).

Record obs := mkObs {
  o_kind : srckind;
  o_nchan : Z;                (* channels of the source when it runs *)
  o_lens : Z * Z;             (* (nsamp, npre) the server starts with *)
  o_ops : list op;
  o_events : list event;
  o_returned : nat;           (* how many of the operations returned *)
  o_crashed : bool;           (* the server process died *)
  o_overlap : bool;           (* the core loop left a request handler (reached core:after-request) while that
                                 handler was still blocked in a step the harness held open *)
  o_foreign : bool;           (* while a request was being handled, state owned by the core loop (the trigger broker's
                                 connection table, the channels' trigger states) was read or written by a goroutine
                                 other than the core loop *)
  o_final_running : bool;     (* at the end the source is (really) active *)
  o_progress : bool }.        (* ... and blocks were still being processed after the last operation *)

(* ---------- when is a request valid (in the state the source is in) ---------- *)

Definition all_in_range (n : Z) (l : list Z) : bool := forallb (in_range n) l.

Definition args_valid (e : env) (r : request) : bool :=
  match r with
  | RqTriggers idx emt => negb emt && (0 <? Z.of_nat (length idx)) && all_in_range (e_nchan e) idx
  | RqPulseLengths ns np =>
      (0 <? ns) && (0 <? np)
      && (((ns =? e_nsamp e) && (np =? e_npre e))                      (* no change: fine *)
          || (negb (e_writing e) && (3 <=? np) && (np + 1 <=? ns)))    (* not while writing; room for the edge trigger *)
  | RqProjectors i b64 matok pc br bc =>
      (* one projector row of record length, and the basis its (record length) x 1 counterpart *)
      b64 && matok && in_range (e_nchan e) i && (pc =? e_nsamp e) && (br =? e_nsamp e) && (bc =? 1)
  | RqWriteControl (WStart l o _) => (l || o) && negb (e_writing e) && negb (o && negb (e_hasproj e))
  | RqWriteControl WStop | RqWriteControl WPause | RqWriteControl (WUnpause ULNone) => true
  | RqWriteControl (WUnpause ULGood) => e_writing e                    (* a label needs a state file *)
  | RqWriteControl (WUnpause ULBad) | RqWriteControl WGarbage => false
  | RqStateLabel empty => negb empty && e_writing e
  | RqComment empty => negb empty
  | RqCoupleErrToFB on | RqCoupleFBToErr on => negb on || (match e_kind e with SrcLancero => true | _ => false end)
  | RqGroupAdd cs =>
      (* a request to connect a channel to itself is documented as silently ignored *)
      forallb (fun p => (fst p =? snd p) || (in_range (e_nchan e) (fst p) && in_range (e_nchan e) (snd p))) cs
  | RqGroupDel cs => forallb (fun p => in_range (e_nchan e) (snd p)) cs
  | RqStopCoupling => true
  | RqStoreRaw n => (0 <? n) && negb (e_archiving e)
  | RqMix idx nfrac =>
      (match e_kind e with SrcLancero => true | _ => false end)
      && forallb (fun i => in_range (e_nchan e) i && Z.odd i) idx
      && (nfrac =? Z.of_nat (length idx))
  end.

(* the I/O step of the handler that the case makes fail, if the handler gets that far *)
Definition io_fails (e : env) (r : request) (io : bool) : bool :=
  match r with
  | RqComment _ => io && e_writing e
  | RqWriteControl (WStart _ _ pathok) => negb pathok || io    (* the run directory / the experiment-state file *)
  | RqStoreRaw _ => io                              (* the temporary file cannot be created *)
  | _ => false
  end.

Definition must_be_error (e : env) (r : request) (io : bool) : bool :=
  negb (e_flag e) || negb (args_valid e r) || io_fails e r io.

(* ---------- sequential walk over the operations: what each reply class has to be ---------- *)

Inductive tri := No | Yes | Maybe.

Record sigma := mkSigma { g_running : tri; g_env : env; g_arch : tri }.

Inductive expect := MustOk | MustErr | Either.

Definition expect_req (g : sigma) (r : request) (io : bool) : expect :=
  let e := g_env g in
  match g_running g with
  | No => MustErr
  | run =>
      let e1 := mkEnv true (e_kind e) (e_nchan e) (e_writing e) (e_nsamp e) (e_npre e) (e_hasproj e)
                      (match g_arch g with Yes => true | _ => false end) in
      if must_be_error e1 r io then MustErr
      else match run, r, g_arch g with
           | Maybe, _, _ => Either                 (* the source may have ended by itself by now *)
           | _, RqStoreRaw _, Maybe => Either      (* the previous archive block may or may not be complete *)
           | _, _, _ => MustOk
           end
  end.

Definition class_ok (x : expect) (r : rc) : bool :=
  match x, r with
  | MustOk, ROk | MustErr, RErr | Either, _ => true
  | _, _ => false
  end.

Definition upd_env (e : env) (w : bool) (ns np : Z) (hp : bool) : env :=
  mkEnv (e_flag e) (e_kind e) (e_nchan e) w ns np hp (e_archiving e).

(* how a completed operation changes what later requests may assume *)
Definition after_op (g : sigma) (o : op) (r : rc) : sigma :=
  let e := g_env g in
  match o, r with
  | OStart, ROk =>
      mkSigma (match e_kind e with SrcErroring => Maybe | _ => Yes end)
              (upd_env e (e_writing e) (e_nsamp e) (e_npre e) false)
              (match g_arch g with No => No | _ => Maybe end)
  | OStop, ROk => mkSigma No (upd_env e false (e_nsamp e) (e_npre e) (e_hasproj e)) (g_arch g)
  | OReq (RqPulseLengths ns np) _, ROk =>
      if (ns =? e_nsamp e) && (np =? e_npre e) then g
      else mkSigma (g_running g) (upd_env e (e_writing e) ns np false) (g_arch g)
  | OReq (RqProjectors _ _ _ _ _ _) _, ROk => mkSigma (g_running g) (upd_env e (e_writing e) (e_nsamp e) (e_npre e) true) (g_arch g)
  | OReq (RqWriteControl (WStart _ _ _)) _, ROk => mkSigma (g_running g) (upd_env e true (e_nsamp e) (e_npre e) (e_hasproj e)) (g_arch g)
  | OReq (RqWriteControl WStop) _, ROk => mkSigma (g_running g) (upd_env e false (e_nsamp e) (e_npre e) (e_hasproj e)) (g_arch g)
  | OReq (RqStoreRaw _) _, ROk => mkSigma (g_running g) e Maybe
  | _, _ => g
  end.

(* the return classes of the calls, in order (one client: calls do not overlap) *)
Fixpoint ret_classes (es : list event) : list (call * rc) :=
  match es with
  | [] => []
  | EL (LRet c r) :: rest => (c, r) :: ret_classes rest
  | _ :: rest => ret_classes rest
  end.

Definition call_of (o : op) : call :=
  match o with OStart => CallStart | OStop => CallStop | OReq _ _ => CallReq end.

Fixpoint classes_ok (g : sigma) (os : list op) (rs : list (call * rc)) : bool :=
  match os, rs with
  | [], [] => true
  | o :: os', (c, r) :: rs' =>
      call_eqb c (call_of o)
      && (match o with
          | OReq q io => class_ok (expect_req g q io) r
          | _ => true                               (* Start / Stop themselves are C10's subject *)
          end)
      && classes_ok (after_op g o r) os' rs'
  | _, _ => false                                   (* a call without a return, or a return without a call *)
  end.

(* requests take effect only between blocks: once the client's send has been taken (it is released from
   rpc:between only after that), the core loop's next point is core:after-request — it cannot have gone
   on to a block, and it cannot have left the closure before the reply was received *)
Fixpoint next_core_point (es : list event) : option point :=
  match es with
  | [] => None
  | EL (LPt p) :: rest =>
      match p with
      | PCoreSel | PCoreReq | PCoreBlk | PCoreRet => Some p
      | _ => next_core_point rest
      end
  | _ :: rest => next_core_point rest
  end.

Fixpoint exclusive (es : list event) : bool :=
  match es with
  | [] => true
  | EL (LPt PRpcBetween) :: rest =>
      (match next_core_point rest with Some PCoreReq | None => true | _ => false end) && exclusive rest
  | _ :: rest => exclusive rest
  end.

(* a request that changes something in the source succeeds only through the core loop: its success reply is
   preceded, since the previous reply, by the release from rpc:between (the send was taken by the loop's select).
   Exempt: ConfigureMixFraction (served by the block assembler) and ConfigurePulseLengths (the documented
   "no change requested" shortcut answers at once). *)
Definition needs_core (q : request) : bool :=
  match q with RqMix _ _ | RqPulseLengths _ _ => false | _ => true end.

Fixpoint through_core (os : list op) (es : list event) (seen : bool) : bool :=
  match es with
  | [] => true
  | EL (LPt PRpcBetween) :: rest => through_core os rest true
  | EL (LRet _ r) :: rest =>
      match os with
      | o :: os' =>
          (match o, r with
           | OReq q _, ROk => negb (needs_core q) || seen
           | _, _ => true
           end) && through_core os' rest false
      | [] => true
      end
  | _ :: rest => through_core os rest seen
  end.

Definition init_sigma (o : obs) : sigma :=
  mkSigma No (mkEnv false (o_kind o) (o_nchan o) false (fst (o_lens o)) (snd (o_lens o)) false false) No.

Definition C11_check (o : obs) : bool :=
  negb (o_crashed o)
  && Nat.eqb (o_returned o) (length (o_ops o))                 (* no call hangs *)
  && classes_ok (init_sigma o) (o_ops o) (ret_classes (o_events o))   (* one reply each, of the right class *)
  && exclusive (o_events o)
  && through_core (o_ops o) (o_events o) false                 (* effects only through the core loop *)
  && negb (o_overlap o)                                        (* a handler is never left running beside the data *)
  && negb (o_foreign o)                                        (* all of a request's work on loop-owned state is done by the loop *)
  && (negb (o_final_running o) || o_progress o).               (* data processing is not stalled *)
