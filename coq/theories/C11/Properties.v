(* C11 property theorems *)
