(* C11 — property theorems only: each closed by [exact], each followed by Print Assumptions.
   [script_of true r] is the closure of request r transcribed from rpc_server.go (after the fixes),
   [replies_on v s] counts the replies on the path of script s selected by a valuation v of its branch
   conditions, [step c s t] is the interleaving model of client, core loop and producer, and
   [Reachable (step c) (Init ns np B os)] ranges over every schedule of every operation list os. *)
From Coq Require Import List Arith Bool ZArith Lia.
From Dastard Require Import C10.Conc C11.Model C11.Spec C11.Proofs C11.Proofs2 C11.Proofs3.
Import ListNotations.
Open Scope Z_scope.

(* Every path of every closure script in the table executes exactly one Reply (decided by computation
   over the finite table, lifted with forallb_forall) ... *)
Theorem one_reply_per_request :
  forall r, In r closure_table -> forall v, replies_on v (script_of true r) = Some 1%nat.
Proof. exact table_one_reply. Qed.
Print Assumptions one_reply_per_request.

(* ... and since a script depends only on the method (not on argument values) this covers every request
   that goes through the core loop, whatever its arguments and whatever the branch conditions turn out to be. *)
Theorem one_reply_every_request :
  forall r, is_queued r = true -> forall v, replies_on v (script_of true r) = Some 1%nat.
Proof. exact every_request_one_reply. Qed.
Print Assumptions one_reply_every_request.

(* The code as it was: WriteComment with an uncreatable file replies twice; ConfigureTriggers with a
   negative index crashes inside the core loop. *)
Theorem one_reply_per_request_refuted_pre_fix :
  replies_on (fun c => match c with CWriting | CIoFails => true | _ => false end) (script_of false (RqComment false)) = Some 2%nat.
Proof. exact old_comment_two_replies. Qed.
Print Assumptions one_reply_per_request_refuted_pre_fix.

Theorem no_crash_refuted_pre_fix :
  replies_on (fun c => match c with CTrigIdxOk | CTrigIdxNeg => true | _ => false end) (script_of false (RqTriggers [-1] false)) = None.
Proof. exact old_triggers_crash. Qed.
Print Assumptions no_crash_refuted_pre_fix.

(* The result a caller gets (from the method's own checks, from runLaterIfActive, or from the closure) is
   an error exactly when no source is running, or the arguments are invalid in the source's state
   (Spec.args_valid, stated independently of the handlers), or the handler's I/O step fails. *)
Theorem reply_is_error_iff :
  forall e r io,
    req_outcome true e r io
    = Some (if negb (e_flag e) || negb (args_valid e r) || io_fails e r io then RErr else ROk).
Proof. exact reply_class. Qed.
Print Assumptions reply_is_error_iff.

(* While the client is between its send and the reply, the core loop is inside that closure (not at its
   select, not processing a block) with exactly one reply to go; any closure the core loop runs holds no
   crash and at most one reply. *)
Theorem closures_exclusive :
  forall c ns np B os s, c_fixed c = true -> Reachable (step c) (Init ns np B os) s ->
    (awaiting (client s) = true -> exists acts, core s = KRun acts /\ nocrash acts = true /\ nreplies acts = 1%nat)
    /\ (forall acts, core s = KRun acts -> nocrash acts = true /\ (nreplies acts <= 1)%nat).
Proof. exact exclusive_reach. Qed.
Print Assumptions closures_exclusive.

(* For every operation list (any requests, any arguments, Start/Stop anywhere, a source of any kind that
   may end by itself at any moment, any injected I/O failure) and every schedule: nothing crashes and no
   reachable state is stuck — some thread can move unless the client has finished all its operations.
   PARTIAL.  What remains is exactly Proofs3.no_wedge_full_statement (a Definition, not proved): a uniform bound
   f(#operations, B, R) on the number of counted steps along every schedule, under two explicit fairness
   parameters — B, the blocks the producer may still emit after abortSelf is closed (as in C10's stop_returns),
   and R, how often over the run the core loop's select may prefer a block to a request that is waiting in its
   send (Go's select is random among ready cases, so without R no bound exists).  What IS proved here: nothing
   crashes, and in no reachable state is the system stuck — in particular a call in progress is never blocked for
   good: some thread can always move until the client has finished.  A variant-function proof as in
   C10/Variant.v would need R as a decreasing state component of the model. *)
Theorem no_wedge_partial :
  forall c ns np B os s, c_fixed c = true -> Reachable (step c) (Init ns np B os) s ->
    crashed s = false /\ ((exists t s', step c s t = Some s') \/ finished s = true).
Proof. exact no_wedge_reach. Qed.
Print Assumptions no_wedge_partial.

(* The code as it was: after WriteComment's first (error) reply the client finishes while the core loop
   is stuck for ever on the second reply. *)
Theorem no_wedge_refuted_pre_fix :
  exists s, run (step (mkCfg SrcTriangle 3 false false))
                (init_state 16 4 0 [OStart; OReq (RqWriteControl (WStart true false true)) false; OReq (RqComment false) true])
                wedge_sched = Some s
            /\ client s = LHalt
            /\ (exists r rest, core s = KRun (AReply r :: rest))
            /\ is_none (step (mkCfg SrcTriangle 3 false false) s (TCore CTakeBlk)) = true
            /\ is_none (step (mkCfg SrcTriangle 3 false false) s (TCore CTakeReq)) = true.
Proof. exact old_comment_wedges. Qed.
Print Assumptions no_wedge_refuted_pre_fix.
