(* C06 — the property as a checker over OBSERVABLES only: the requests and publishes issued, and for each
   what the harness saw (reply class, reported writing state, writer handles, directory creation, open files,
   per-file record growth).  This file uses Model.v only for the vocabulary (op, obs, rstate, classify =
   how a request string is read); it never calls the state machine. *)
From Dastard Require Import Common.ZX C06.Model.

Inductive ftype := LJH22 | LJH3 | OFF.

Definition type_on (r : rstate) (T : ftype) : bool :=
  match T with LJH22 => t22 r | LJH3 => t3 r | OFF => toff r end.

(* every channel is eligible for LJH files, channels with projectors for OFF *)
Definition eligible (proj : bool) (T : ftype) : bool :=
  match T with OFF => proj | _ => true end.

(* "records are stored ... exactly when the state says active and not paused" *)
Definition expect_store (r : rstate) (proj : bool) (T : ftype) : bool :=
  active r && negb (paused r) && type_on r T && eligible proj T.

Definition rstate_eqb (a b : rstate) : bool :=
  Bool.eqb (active a) (active b) && Bool.eqb (paused a) (paused b) && Bool.eqb (t22 a) (t22 b) &&
  Bool.eqb (t3 a) (t3 b) && Bool.eqb (toff a) (toff b) && (pat_base a =? pat_base b) &&
  (pat_dir a =? pat_dir b) && (basepath a =? basepath b).

Definition w3_eqb (a b : bool * bool * bool) : bool :=
  Bool.eqb (fst (fst a)) (fst (fst b)) && Bool.eqb (snd (fst a)) (snd (fst b)) && Bool.eqb (snd a) (snd b).
Definition writers_eqb := list_eqb w3_eqb.

Definition no_writer (w : bool * bool * bool) : bool := negb (fst (fst w) || snd (fst w) || snd w).

(* checker state: what was last reported, which writers were last seen, which run directories are taken *)
Record cst := { k_rs : rstate; k_writers : list (bool * bool * bool); k_used : list (Z * Z) }.

Definition check_req (k : cst) (kd : option kind) (b : reqobs) : option cst :=
  if negb (o_msg b) then None                      (* clients were told something else than the state *)
  else if negb (o_ok b) then
    (* a rejected request changes neither the reported state nor the behaviour *)
    if rstate_eqb (o_rs b) (k_rs k) && writers_eqb (o_writers b) (k_writers k) then Some k else None
  else
    let k' := {| k_rs := o_rs b; k_writers := o_writers b; k_used := k_used k |} in
    match kd with
    | Some KStart =>
        (* a successful START writes into a newly created numbered directory *)
        let d := (pat_base (o_rs b), pat_dir (o_rs b)) in
        (* pat_dir >= 0: the reported pattern names a numbered directory (the harness reports -1 for an empty
           and -2 for a malformed pattern) *)
        if active (o_rs b) && (0 <=? pat_dir (o_rs b)) &&
           negb (is_used (k_used k) d) && o_dirnew b
        then Some {| k_rs := o_rs b; k_writers := o_writers b; k_used := d :: k_used k |}
        else None
    | Some KStop =>
        (* STOP closes all files: no channel holds a writer, nothing is open *)
        if forallb no_writer (o_writers b) && o_closed b then Some k' else None
    | _ => Some k'
    end.

Definition check_pub (proj : list bool) (k : cst) (ch n : Z) (d22 d3 doff : Z) (others : bool) : bool :=
  let want (T : ftype) : Z :=
    if (0 <=? ch) && (ch <? zlen proj) && (0 <? n) &&
       expect_store (k_rs k) (nth (Z.to_nat ch) proj false) T then n else 0 in
  (d22 =? want LJH22) && (d3 =? want LJH3) && (doff =? want OFF) && negb others.

Definition check_step (proj : list bool) (k : cst) (o : op) (b : obs) : option cst :=
  match o, b with
  | WC r, OReq q => check_req k (Some (classify (rq_str r))) q
  | LABEL _, OReq q => check_req k None q
  | PUB ch n, OPub d22 d3 doff others _ =>
      if check_pub proj k ch n d22 d3 doff others then Some k else None
  | _, _ => None
  end.

Fixpoint check_from (proj : list bool) (k : cst) (h : list (op * obs)) : bool :=
  match h with
  | [] => true
  | (o, b) :: rest =>
      match check_step proj k o b with
      | Some k' => check_from proj k' rest
      | None => false
      end
  end.

(* the initial reported state and writer handles are themselves observations (taken before the first op) *)
Definition C06_check (proj : list bool) (used0 : list (Z * Z)) (rs0 : rstate)
           (w0 : list (bool * bool * bool)) (h : list (op * obs)) : bool :=
  check_from proj {| k_rs := rs0; k_writers := w0; k_used := used0 |} h.

(* ---------- Prop-level vocabulary for the theorems ---------- *)

(* run directories of the successful STARTs of an observed history, in order *)
Fixpoint start_dirs (h : list (op * obs)) : list (Z * Z) :=
  match h with
  | [] => []
  | (WC r, OReq q) :: rest =>
      if o_ok q && is_start (classify (rq_str r))
      then (pat_base (o_rs q), pat_dir (o_rs q)) :: start_dirs rest
      else start_dirs rest
  | _ :: rest => start_dirs rest
  end.

(* what one publish of n records to channel ch stores, per file type *)
Definition stored (o : obs) (T : ftype) : Z :=
  match o with
  | OPub d22 d3 doff _ _ => match T with LJH22 => d22 | LJH3 => d3 | OFF => doff end
  | _ => -1
  end.

Definition is_request (o : op) : bool := match o with PUB _ _ => false | _ => true end.

(* ---------- fault stream (outside the property's quantifier, judged on its clause "STOP closes all files"):
   after a STOP issued while the experiment-state file cannot be written, whatever the reply, no channel holds
   a writer, no channel data file is open, nothing is stored any more, and the reported state says so (not active) ---------- *)
Definition fault_stop_ok (f : faultobs) : bool :=
  forallb no_writer (fo_writers f) && (fo_open f =? 0) && negb (fo_stored f) && negb (fo_active f).

(* second stage: after the START that follows, reported state and behaviour agree (reply class not judged) *)
Definition pub1_ok (r : rstate) (pp : bool * (Z * Z * Z)) : bool :=
  let p := fst pp in let d := snd pp in
  (fst (fst d) =? (if expect_store r p LJH22 then 1 else 0)) &&
  (snd (fst d) =? (if expect_store r p LJH3 then 1 else 0)) &&
  (snd d =? (if expect_store r p OFF then 1 else 0)).
Definition fault_start_ok (proj : list bool) (o : rstate * list (Z * Z * Z) * bool) : bool :=
  let r := fst (fst o) in let pubs := snd (fst o) in
  negb (snd o) && (zlen pubs =? zlen proj) && forallb (pub1_ok r) (combine proj pubs).
