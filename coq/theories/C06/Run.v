(* C06 — evaluation of generated cases: model vs observed implementation output, and the checker. *)
From Dastard Require Import Common.ZX Common.CaseLib C06.Model C06.Spec.

Record case := { c_cfg : config; c_rs0 : rstate; c_w0 : list (bool * bool * bool); c_hist : list (op * obs);
                 c_fault : option faultobs (* fault stream: what was seen after a final STOP under an I/O fault *);
                 c_fstart : option (wcreq * (rstate * list (Z * Z * Z) * bool)) (* ... and after the START that followed *) }.

Definition reqobs_eqb (a b : reqobs) : bool :=
  Bool.eqb (o_ok a) (o_ok b) && rstate_eqb (o_rs a) (o_rs b) && writers_eqb (o_writers a) (o_writers b) &&
  Bool.eqb (o_dirnew a) (o_dirnew b) && Bool.eqb (o_closed a) (o_closed b) && Bool.eqb (o_msg a) (o_msg b).

Definition obs_eqb (a b : obs) : bool :=
  match a, b with
  | OReq x, OReq y => reqobs_eqb x y
  | OPub a1 a2 a3 ao an, OPub b1 b2 b3 bo bn =>
      (a1 =? b1) && (a2 =? b2) && (a3 =? b3) && Bool.eqb ao bo && (an =? bn)
  | _, _ => false          (* OPanic never agrees with anything *)
  end.

Fixpoint first_diff (i : Z) (a b : list obs) : Z :=
  match a, b with
  | [], [] => -1
  | x :: a', y :: b' => if obs_eqb x y then first_diff (i + 1) a' b' else i
  | _, _ => i
  end.

Definition verdict (c : case) : Z * Z :=
  let cfg := c_cfg c in
  let ops := map fst (c_hist c) in
  let impl := map snd (c_hist c) in
  let s0 := init cfg in
  let model := snd (run s0 ops) in
  let d0 := rstate_eqb (c_rs0 c) (rs s0) && writers_eqb (c_w0 c) (map writers_of (chans s0)) in
  let d := if d0 then first_diff 0 impl model else 0 in
  (* fault stream: the final STOP under fault is compared with [fault_obs] of the model's last state *)
  let fm := fault_obs (fst (run s0 ops)) in
  let fagree := match c_fault c with
                | None => true
                | Some f => writers_eqb (fo_writers f) (fo_writers fm) && (fo_open f =? fo_open fm) &&
                            Bool.eqb (fo_stored f) (fo_stored fm) && Bool.eqb (fo_active f) (fo_active fm)
                end in
  let fcheck := match c_fault c with None => true | Some f => fault_stop_ok f end in
  let z3_eqb (a b : Z * Z * Z) := (fst (fst a) =? fst (fst b)) && (snd (fst a) =? snd (fst b)) && (snd a =? snd b) in
  let fagree := fagree && match c_fstart c with
                | None => true
                | Some (r, o) => let m := fault_start_obs (fst (run s0 ops)) r in
                    rstate_eqb (fst (fst o)) (fst (fst m)) && list_eqb z3_eqb (snd (fst o)) (snd (fst m)) &&
                    Bool.eqb (snd o) (snd m)
                end in
  let fcheck := fcheck && match c_fstart c with None => true | Some (r, o) => fault_start_ok (c_proj cfg) o end in
  let d := if (d =? -1) && negb fagree then zlen (c_hist c) else d in
  (verdict_code (d =? -1) (C06_check (c_proj cfg) (c_used cfg) (c_rs0 c) (c_w0 c) (c_hist c) && fcheck), d).

(* compact constructors for generated files *)
Definition RS a p x y z pb pd bp : rstate :=
  {| active := a; paused := p; t22 := x; t3 := y; toff := z; pat_base := pb; pat_dir := pd; basepath := bp |}.
Definition Wc (s : list Z) (path : Z) (b22 b3 boff : bool) (ok : bool) (r : rstate)
           (w : list (bool * bool * bool)) (dirnew closed msg : bool) : op * obs :=
  (WC {| rq_str := s; rq_path := path; rq22 := b22; rq3 := b3; rqoff := boff |},
   OReq {| o_ok := ok; o_rs := r; o_writers := w; o_dirnew := dirnew; o_closed := closed; o_msg := msg |}).
Definition Lb (l : list Z) (ok : bool) (r : rstate) (w : list (bool * bool * bool)) (closed msg : bool) : op * obs :=
  (LABEL l, OReq {| o_ok := ok; o_rs := r; o_writers := w; o_dirnew := false; o_closed := closed; o_msg := msg |}).
Definition Pb (ch n d22 d3 doff : Z) (others : bool) (nw : Z) : op * obs := (PUB ch n, OPub d22 d3 doff others nw).
Definition WcX (s : list Z) (path : Z) (b22 b3 boff : bool) : op * obs :=
  (WC {| rq_str := s; rq_path := path; rq22 := b22; rq3 := b3; rqoff := boff |}, OPanic).
Definition LbX (l : list Z) : op * obs := (LABEL l, OPanic).
Definition PbX (ch n : Z) : op * obs := (PUB ch n, OPanic).
Definition mk (proj : list bool) (used : list (Z * Z)) (mapn base : Z) (r0 : rstate)
           (w0 : list (bool * bool * bool)) (h : list (op * obs)) : case :=
  {| c_cfg := {| c_proj := proj; c_used := used; c_map := mapn; c_base := base |};
     c_rs0 := r0; c_w0 := w0; c_hist := h; c_fault := None; c_fstart := None |}.
Definition mkF (proj : list bool) (used : list (Z * Z)) (mapn base : Z) (r0 : rstate)
           (w0 : list (bool * bool * bool)) (h : list (op * obs))
           (fw : list (bool * bool * bool)) (fopen : Z) (fstored factive : bool)
           (fs : option (wcreq * (rstate * list (Z * Z * Z) * bool))) : case :=
  {| c_cfg := {| c_proj := proj; c_used := used; c_map := mapn; c_base := base |};
     c_rs0 := r0; c_w0 := w0; c_hist := h;
     c_fault := Some {| fo_writers := fw; fo_open := fopen; fo_stored := fstored; fo_active := factive |};
     c_fstart := fs |}.
Definition NoFS : option (wcreq * (rstate * list (Z * Z * Z) * bool)) := None.
Definition FS (s : list Z) (path : Z) (b22 b3 boff : bool) (r : rstate) (pubs : list (Z * Z * Z)) (others : bool)
  : option (wcreq * (rstate * list (Z * Z * Z) * bool)) :=
  Some ({| rq_str := s; rq_path := path; rq22 := b22; rq3 := b3; rqoff := boff |}, (r, pubs, others)).
(* a case that killed the harness process before any observation could be rendered *)
Definition crashed : case :=
  mk [] [] (-1) 0 (init_rs 0) [] [PbX 0 0].
