(* C06 — invariants and proofs. *)
From Dastard Require Import Common.ZX C06.Model C06.Spec.
From Coq Require Import ZifyBool.

(* ---------- small facts ---------- *)

Lemma beqb_refl b : Bool.eqb b b = true.
Proof. now destruct b. Qed.

Lemma rstate_eqb_refl r : rstate_eqb r r = true.
Proof. unfold rstate_eqb. rewrite !beqb_refl, !Z.eqb_refl. reflexivity. Qed.

Lemma rstate_eqb_eq a b : rstate_eqb a b = true -> a = b.
Proof.
  destruct a, b; unfold rstate_eqb; cbn [Model.active Model.paused Model.t22 Model.t3 Model.toff
    Model.pat_base Model.pat_dir Model.basepath].
  rewrite !andb_true_iff. intros [[[[[[[H1 H2] H3] H4] H5] H6] H7] H8].
  apply eqb_prop in H1, H2, H3, H4, H5. apply Z.eqb_eq in H6, H7, H8. now subst.
Qed.

Lemma w3_eqb_eq x y : w3_eqb x y = true <-> x = y.
Proof.
  destruct x as [[a b] c], y as [[a' b'] c']; unfold w3_eqb; cbn [fst snd].
  rewrite !andb_true_iff. split.
  - intros [[H1 H2] H3]. apply eqb_prop in H1, H2, H3. now subst.
  - intro E; inversion E; subst. now rewrite !beqb_refl.
Qed.

Lemma writers_eqb_refl w : writers_eqb w w = true.
Proof. apply (list_eqb_eq w3_eqb w3_eqb_eq). reflexivity. Qed.

Lemma writers_eqb_eq a b : writers_eqb a b = true -> a = b.
Proof. apply (list_eqb_eq w3_eqb w3_eqb_eq). Qed.

Lemma in_zrange_nat x : forall n a, In x (zrange_nat a n) -> a <= x < a + Z.of_nat n.
Proof.
  induction n as [|n IH]; intros a H; cbn [zrange_nat] in H.
  - contradiction.
  - destruct H as [H | H]; [lia | apply IH in H; lia].
Qed.

Lemma make_directory_some u p i :
  make_directory u p = Some i -> p <> 0 /\ 0 <= i < 10000 /\ is_used u (p, i) = false.
Proof.
  unfold make_directory. destruct ((p =? 0) || (p =? bad_path)) eqn:E; [discriminate|].
  intro H. apply find_some in H as [Hin Hf]. unfold zrange in Hin. apply in_zrange_nat in Hin.
  split; [lia|]. split; [lia|]. now apply negb_true_iff in Hf.
Qed.

(* ---------- the invariant ---------- *)

(* a channel's writer handles are exactly what the reported state promises, and a channel that holds a
   writer carries the reported pause flag *)
Definition chan_ok (r : rstate) (c : chan) : Prop :=
  w22 c = active r && t22 r /\
  w3 c = active r && t3 r /\
  woff c = active r && toff r && hasproj c /\
  (any_writer c = true -> cpaused c = paused r).

Definition Inv (proj : list bool) (s : st) : Prop :=
  map hasproj (chans s) = proj /\
  Forall (chan_ok (rs s)) (chans s) /\
  (active (rs s) = true -> t22 (rs s) || t3 (rs s) || (toff (rs s) && existsb (fun b => b) proj) = true) /\
  (active (rs s) = true -> is_used (used s) (pat_base (rs s), pat_dir (rs s)) = true).

Lemma init_inv c : Inv (c_proj c) (init c).
Proof.
  unfold Inv, init; cbn [chans rs used]. split; [|split; [|split]].
  - rewrite map_map. cbn [init_chan hasproj]. apply map_id.
  - apply Forall_forall. intros x Hx. apply in_map_iff in Hx as [p [<- _]].
    unfold chan_ok, init_chan, init_rs, any_writer; cbn. repeat split; auto.
  - cbn. discriminate.
  - cbn. discriminate.
Qed.

(* ---------- per-channel lemmas ---------- *)

Lemma pause_chan_ok r b c : chan_ok r c -> chan_ok (ws_pause b r) (set_pause b c).
Proof.
  unfold chan_ok, ws_pause, set_pause, any_writer; cbn. intros (H1 & H2 & H3 & H4). repeat split; auto.
Qed.

Lemma stop_chan_ok r c : chan_ok (ws_stop r) (remove_all c).
Proof. unfold chan_ok, ws_stop, remove_all, any_writer; cbn. repeat split; auto; discriminate. Qed.

Lemma start_chan_ok (rq : wcreq) c path i :
  any_writer c = false ->
  chan_ok {| active := true; paused := false; t22 := rq22 rq; t3 := rq3 rq; toff := rqoff rq;
             pat_base := path; pat_dir := i; basepath := path |} (start_chan true rq c).
Proof.
  unfold any_writer. destruct c as [a b c0 p h n]; cbn [w22 w3 woff]. intro H.
  apply orb_false_iff in H as [H H3]. apply orb_false_iff in H as [H1 H2]. subst.
  unfold chan_ok, start_chan, set_ljh22, set_off, set_ljh3, any_writer.
  destruct (rq22 rq), (rqoff rq), (rq3 rq), h; cbn; repeat split; auto; discriminate.
Qed.

Lemma start_chan_hasproj fx rq c : hasproj (start_chan fx rq c) = hasproj c.
Proof.
  unfold start_chan, set_ljh22, set_off, set_ljh3.
  destruct (rq22 rq), (rqoff rq), (rq3 rq), (hasproj c) eqn:E; cbn; rewrite ?E; cbn; auto.
Qed.

Lemma publish_chan_spec r c n :
  chan_ok r c -> 0 < n ->
  let '(c', (d22, d3, doff)) := publish_chan c n in
  d22 = (if expect_store r (hasproj c) LJH22 then n else 0) /\
  d3 = (if expect_store r (hasproj c) LJH3 then n else 0) /\
  doff = (if expect_store r (hasproj c) OFF then n else 0) /\
  chan_ok r c' /\ hasproj c' = hasproj c /\ writers_of c' = writers_of c.
Proof.
  intros (H1 & H2 & H3 & H4) Hn. unfold publish_chan.
  destruct (n <=? 0) eqn:En; [lia|].
  destruct c as [a b c0 p h m], r as [ac pa x y z pb pd bp].
  unfold expect_store, type_on, eligible, any_writer, chan_ok, writers_of in *;
    cbn [w22 w3 woff cpaused hasproj nwritten active paused t22 t3 toff] in *.
  subst a b c0.
  destruct ac, pa, x, y, z, h, p; cbn in *;
    try (specialize (H4 eq_refl); discriminate); repeat split; auto.
Qed.

(* ---------- state-level lemmas ---------- *)

Lemma pause_inv proj s b :
  Inv proj s -> Inv proj (set_rs (set_chans s (map (set_pause b) (chans s))) (ws_pause b (rs s))).
Proof.
  intros (H1 & H2 & H3 & H4). unfold Inv, set_rs, set_chans; cbn [chans rs used].
  split; [|split; [|split]].
  - rewrite map_map. cbn [set_pause hasproj]. exact H1.
  - apply Forall_forall. intros x Hx. apply in_map_iff in Hx as [c [<- Hc]].
    apply pause_chan_ok. eapply Forall_forall in H2; eauto.
  - exact H3.
  - exact H4.
Qed.

Lemma stop_inv proj s :
  Inv proj s -> Inv proj (set_rs (set_chans s (map remove_all (chans s))) (ws_stop (rs s))).
Proof.
  intros (H1 & H2 & H3 & H4). unfold Inv, set_rs, set_chans; cbn [chans rs used].
  split; [|split; [|split]].
  - rewrite map_map. cbn [remove_all hasproj]. exact H1.
  - apply Forall_forall. intros x Hx. apply in_map_iff in Hx as [c [<- Hc]]. apply stop_chan_ok.
  - cbn. discriminate.
  - cbn. discriminate.
Qed.

Lemma is_used_cons u p q : is_used (p :: u) q = pair_eqb q p || is_used u q.
Proof. reflexivity. Qed.

Lemma pair_eqb_refl p : pair_eqb p p = true.
Proof. unfold pair_eqb. now rewrite !Z.eqb_refl. Qed.

Lemma existsb_false_forall {A} (f : A -> bool) l : existsb f l = false -> forall x, In x l -> f x = false.
Proof.
  intros H x Hx. destruct (f x) eqn:E; auto.
  assert (existsb f l = true) by (apply existsb_exists; eauto). congruence.
Qed.

Lemma existsb_map {A B} (f : B -> bool) (g : A -> B) l : existsb f (map g l) = existsb (fun x => f (g x)) l.
Proof. induction l; cbn; congruence. Qed.

(* the result of a START that passed all validations *)
Definition started (s : st) (r : wcreq) (path i : Z) : st :=
  {| rs := {| active := true; paused := false; t22 := rq22 r; t3 := rq3 r; toff := rqoff r;
              pat_base := path; pat_dir := i; basepath := path |};
     used := (path, i) :: used s; mapn := mapn s;
     chans := map (start_chan true r) (chans s) |}.

Lemma start_inv proj s r path i :
  Inv proj s -> existsb any_writer (chans s) = false ->
  (rq22 r || rqoff r || rq3 r) = true ->
  (rqoff r && negb (existsb hasproj (chans s))) = false ->
  Inv proj (started s r path i).
Proof.
  intros (H1 & H2 & H3 & H4) Hw Ht Hp. unfold Inv, started; cbn [chans rs used].
  split; [|split; [|split]].
  - rewrite map_map. rewrite <- H1. apply map_ext. intro c. apply start_chan_hasproj.
  - apply Forall_forall. intros x Hx. apply in_map_iff in Hx as [c [<- Hc]].
    apply start_chan_ok. eapply existsb_false_forall in Hw; eauto.
  - intros _. cbn [t22 t3 toff]. rewrite <- H1. rewrite existsb_map.
    destruct (rq22 r), (rq3 r), (rqoff r); cbn in *; auto; try discriminate.
    apply negb_false_iff in Hp. exact Hp.
  - intros _. cbn [pat_base pat_dir]. rewrite is_used_cons, pair_eqb_refl. reflexivity.
Qed.

(* ---------- the checker accepts every step of the model ---------- *)

Record K (s : st) (k : cst) : Prop :=
  { K_rs : k_rs k = rs s; K_w : k_writers k = map writers_of (chans s); K_used : k_used k = used s }.

Definition kof (s : st) : cst := {| k_rs := rs s; k_writers := map writers_of (chans s); k_used := used s |}.
Lemma K_kof s : K s (kof s).
Proof. now constructor. Qed.
Lemma K_eq s k : K s k -> k = kof s.
Proof. destruct k; intros [H1 H2 H3]; cbn in *; subst; reflexivity. Qed.

Lemma reject_check s s' kd :
  rs s' = rs s -> chans s' = chans s ->
  check_req (kof s) kd {| o_ok := false; o_rs := rs s'; o_writers := map writers_of (chans s');
                           o_dirnew := false; o_closed := negb (active (rs s')); o_msg := true |} = Some (kof s).
Proof.
  intros H1 H2. unfold check_req; cbn. rewrite H1, H2. now rewrite rstate_eqb_refl, writers_eqb_refl.
Qed.

Lemma writers_remove_all l : forallb no_writer (map writers_of (map remove_all l)) = true.
Proof. induction l; cbn; auto. Qed.

Lemma wc_check proj s r :
  Inv proj s ->
  let (s', b) := step s (WC r) in
  exists k', check_step proj (kof s) (WC r) b = Some k' /\ Inv proj s' /\ K s' k'.
Proof.
  intro HI. unfold step, step_gen, write_control.
  destruct (classify (rq_str r)) eqn:Ek.
  - (* PAUSE *)
    cbn [is_ok is_start andb]. unfold req_obs, check_step. rewrite Ek. unfold check_req; cbn.
    eexists; split; [reflexivity|]. split; [now apply pause_inv | now constructor].
  - (* UNPAUSE *)
    destruct (unpause_arg (rq_str r)) eqn:Eu.
    + cbn [is_ok is_start andb]. unfold req_obs, check_step. rewrite Ek. unfold check_req; cbn.
      eexists; split; [reflexivity|]. split; [now apply pause_inv | now constructor].
    + cbn [is_ok andb]. unfold req_obs, check_step. rewrite reject_check by reflexivity.
      eexists; split; [reflexivity|]. split; [assumption | apply K_kof].
    + destruct (active (rs s) && (negb true || single_line l)) eqn:Ea.
      * cbn [is_ok is_start andb]. unfold req_obs, check_step. rewrite Ek. unfold check_req; cbn.
        eexists; split; [reflexivity|]. split; [now apply pause_inv | now constructor].
      * cbn [is_ok andb]. unfold req_obs, check_step. rewrite reject_check by reflexivity.
        eexists; split; [reflexivity|]. split; [assumption | apply K_kof].
  - (* STOP *)
    cbn [is_ok is_start andb]. unfold req_obs, check_step. rewrite Ek. unfold check_req.
    cbn [o_msg o_ok negb o_writers o_closed o_rs set_rs set_chans chans rs ws_stop active].
    rewrite writers_remove_all. cbn.
    eexists; split; [reflexivity|]. split; [now apply stop_inv | now constructor].
  - (* START *)
    unfold write_control_start.
    destruct (negb (rq22 r || rqoff r || rq3 r)) eqn:E1.
    { cbn [is_ok andb]. unfold req_obs, check_step. rewrite reject_check by reflexivity.
      eexists; split; [reflexivity|]. split; [assumption | apply K_kof]. }
    destruct (existsb any_writer (chans s)) eqn:E2.
    { cbn [is_ok andb]. unfold req_obs, check_step. rewrite reject_check by reflexivity.
      eexists; split; [reflexivity|]. split; [assumption | apply K_kof]. }
    destruct (rqoff r && negb (existsb hasproj (chans s))) eqn:E3.
    { cbn [is_ok andb]. unfold req_obs, check_step. rewrite reject_check by reflexivity.
      eexists; split; [reflexivity|]. split; [assumption | apply K_kof]. }
    destruct (negb (mapn s =? -1) && negb (mapn s =? zlen (chans s))) eqn:E4.
    { cbn [is_ok andb]. unfold req_obs, check_step. rewrite reject_check by reflexivity.
      eexists; split; [reflexivity|]. split; [| constructor; reflexivity].
      destruct HI as (H1 & H2 & H3 & H4). unfold Inv; cbn [chans rs used]. auto. }
    set (path := if negb (rq_path r =? 0) then rq_path r else basepath (rs s)).
    destruct (make_directory (used s) path) as [i|] eqn:E5.
    2:{ cbn [is_ok andb]. unfold req_obs, check_step. rewrite reject_check by reflexivity.
        eexists; split; [reflexivity|]. split; [assumption | apply K_kof]. }
    cbn [negb andb is_ok is_start].
    apply make_directory_some in E5 as (Hp & Hi & Hu).
    fold (started s r path i).
    unfold req_obs, check_step. rewrite Ek. unfold check_req.
    cbn [o_msg o_ok negb o_rs o_dirnew started rs active pat_base pat_dir kof k_used].
    rewrite Hu. replace (0 <=? i) with true by lia. cbn [negb andb].
    eexists; split; [reflexivity|]. split.
    + apply negb_false_iff in E1. now apply start_inv.
    + constructor; reflexivity.
  - (* not a request *)
    cbn [is_ok andb]. unfold req_obs, check_step. rewrite reject_check by reflexivity.
    eexists; split; [reflexivity|]. split; [assumption | apply K_kof].
Qed.

Lemma label_check proj s l :
  Inv proj s ->
  let (s', b) := step s (LABEL l) in
  exists k', check_step proj (kof s) (LABEL l) b = Some k' /\ Inv proj s' /\ K s' k'.
Proof.
  intro HI. unfold step, step_gen, set_label.
  destruct (zlen l =? 0).
  - cbn [is_ok]. unfold req_obs, check_step. rewrite reject_check by reflexivity.
    eexists; split; [reflexivity|]. split; [assumption | apply K_kof].
  - destruct (active (rs s) && (negb true || single_line l)).
    + cbn [is_ok]. unfold req_obs, check_step, check_req; cbn.
      eexists; split; [reflexivity|]. split; [assumption | now constructor].
    + cbn [is_ok]. unfold req_obs, check_step. rewrite reject_check by reflexivity.
      eexists; split; [reflexivity|]. split; [assumption | apply K_kof].
Qed.

Lemma upd_nth_map {A B} (f : A -> B) : forall (l : list A) i x c,
  nth_error l i = Some c -> f x = f c -> map f (upd_nth l i x) = map f l.
Proof.
  induction l as [|h t IH]; intros [|i] x c H E; cbn in *; try discriminate; auto.
  - inversion H; subst. now rewrite E.
  - f_equal. eapply IH; eauto.
Qed.

Lemma upd_nth_Forall {A} (P : A -> Prop) : forall (l : list A) i x,
  Forall P l -> P x -> Forall P (upd_nth l i x).
Proof.
  induction l as [|h t IH]; intros [|i] x H Hx; cbn; auto; inversion H; subst; constructor; auto.
Qed.

Lemma nth_map_hasproj : forall (l : list chan) i c,
  nth_error l i = Some c -> nth i (map hasproj l) false = hasproj c.
Proof.
  induction l as [|h t IH]; intros [|i] c H; cbn in *; try discriminate; auto.
  now inversion H.
Qed.

Lemma pub_check proj s ch n :
  Inv proj s ->
  let (s', b) := step s (PUB ch n) in
  exists k', check_step proj (kof s) (PUB ch n) b = Some k' /\ Inv proj s' /\ K s' k'.
Proof.
  intro HI. pose proof HI as (H1 & H2 & H3 & H4). unfold step, step_gen.
  assert (Hlen : zlen proj = zlen (chans s)).
  { rewrite <- H1. unfold zlen. now rewrite map_length. }
  destruct ((0 <=? ch) && (ch <? zlen (chans s))) eqn:Er.
  2:{ unfold check_step, check_pub. rewrite Hlen, Er. cbn.
      eexists; split; [reflexivity|]. split; [assumption | apply K_kof]. }
  destruct (nth_error (chans s) (Z.to_nat ch)) as [c|] eqn:En.
  2:{ apply nth_error_None in En. unfold zlen in Er. lia. }
  assert (Hc : chan_ok (rs s) c).
  { eapply Forall_forall in H2; eauto. eapply nth_error_In; eauto. }
  destruct (0 <? n) eqn:Epos.
  - pose proof (publish_chan_spec (rs s) c n Hc ltac:(lia)) as Hp.
    destruct (publish_chan c n) as [c' [[d22 d3] doff]]. destruct Hp as (E1 & E2 & E3 & Hok & Hh & Hw).
    cbn [fst snd]. unfold check_step, check_pub. rewrite Hlen, Er, Epos. cbn [andb kof k_rs].
    replace (nth (Z.to_nat ch) proj false) with (hasproj c)
      by (rewrite <- H1; symmetry; now apply nth_map_hasproj).
    rewrite E1, E2, E3, !Z.eqb_refl. cbn.
    eexists; split; [reflexivity|]. split.
    + unfold Inv, set_chans; cbn [chans rs used]. split; [|split; [|split]]; auto.
      * rewrite <- H1. eapply upd_nth_map; eauto.
      * apply upd_nth_Forall; auto.
    + constructor; cbn; auto. symmetry. eapply upd_nth_map; eauto.
  - unfold publish_chan. replace (n <=? 0) with true by lia. cbn [fst snd].
    unfold check_step, check_pub. rewrite Hlen, Er, Epos. cbn.
    eexists; split; [reflexivity|]. split.
    + unfold Inv, set_chans; cbn [chans rs used]. split; [|split; [|split]]; auto.
      * rewrite <- H1. eapply upd_nth_map; eauto.
      * apply upd_nth_Forall; auto.
    + constructor; cbn; auto. symmetry. eapply upd_nth_map; eauto.
Qed.

Lemma step_check proj s o :
  Inv proj s ->
  let (s', b) := step s o in
  exists k', check_step proj (kof s) o b = Some k' /\ Inv proj s' /\ K s' k'.
Proof.
  destruct o; [apply wc_check | apply label_check | apply pub_check].
Qed.

Lemma step_not_panic proj s o : Inv proj s -> snd (step s o) <> OPanic.
Proof.
  intros HI E. pose proof (step_check proj s o HI) as H. destruct (step s o) as [s' b]. cbn in E. subst b.
  destruct H as (k' & Hc & _). destruct o; discriminate.
Qed.

Lemma run_check proj : forall ops s,
  Inv proj s ->
  check_from proj (kof s) (combine ops (snd (run s ops))) = true /\ Inv proj (fst (run s ops)).
Proof.
  induction ops as [|o rest IH]; intros s HI; [cbn; auto|].
  unfold run in *. cbn [run_gen].
  pose proof (step_check proj s o HI) as H. pose proof (step_not_panic proj s o HI) as Hn.
  unfold step in *. destruct (step_gen true s o) as [s1 b]. cbn [snd] in Hn.
  destruct H as (k' & Hc & HI' & HK). apply K_eq in HK. subst k'.
  specialize (IH s1 HI'). destruct (run_gen true s1 rest) as [s2 bs]. cbn [fst snd] in *.
  destruct b; try congruence; cbn [snd fst combine check_from]; rewrite Hc; exact IH.
Qed.

(* ---------- headline statements ---------- *)

Lemma model_satisfies_checker :
  forall (c : config) (ops : list op),
    let s0 := init c in
    C06_check (c_proj c) (c_used c) (rs s0) (map writers_of (chans s0))
              (combine ops (snd (run s0 ops))) = true.
Proof.
  intros c ops s0. unfold C06_check. apply (run_check (c_proj c) ops s0). apply init_inv.
Qed.

Lemma reachable_inv c ops : Inv (c_proj c) (fst (run (init c) ops)).
Proof. apply run_check, init_inv. Qed.

Lemma run_length : forall ops s proj, Inv proj s -> length (snd (run s ops)) = length ops.
Proof.
  induction ops as [|o rest IH]; intros s proj HI; [reflexivity|].
  unfold run in *. cbn [run_gen].
  pose proof (step_check proj s o HI) as H. pose proof (step_not_panic proj s o HI) as Hn.
  unfold step in *. destruct (step_gen true s o) as [s1 b]. cbn [snd] in Hn.
  destruct H as (k' & Hc & HI' & HK).
  specialize (IH s1 proj HI'). destruct (run_gen true s1 rest) as [s2 bs]. cbn [snd] in *.
  destruct b; try congruence; cbn; now rewrite IH.
Qed.

(* records are stored exactly when the reported state says so *)
Lemma stores_iff_reported_inv proj s ch n T :
  Inv proj s -> 0 <= ch < zlen proj -> 0 < n ->
  stored (snd (step s (PUB ch n))) T =
    if expect_store (rs s) (nth (Z.to_nat ch) proj false) T then n else 0.
Proof.
  intros HI Hch Hn. pose proof (pub_check proj s ch n HI) as H.
  destruct (step s (PUB ch n)) as [s' b]. destruct H as (k' & Hc & _). cbn [snd].
  unfold check_step in Hc. destruct b as [|d22 d3 doff others nw|]; try discriminate.
  destruct (check_pub proj (kof s) ch n d22 d3 doff others) eqn:E; [|discriminate].
  unfold check_pub in E. cbn [kof k_rs] in E.
  replace ((0 <=? ch) && (ch <? zlen proj) && (0 <? n)) with true in E by lia.
  cbn [andb] in E. rewrite !andb_true_iff in E. destruct E as [[[E1 E2] E3] _].
  destruct T; cbn [stored]; lia.
Qed.

(* what acceptance by the checker says about directories *)
Lemma is_used_cons_false u d x : is_used (d :: u) x = false -> x <> d /\ is_used u x = false.
Proof.
  rewrite is_used_cons. intro H. apply orb_false_iff in H as [H1 H2]. split; auto.
  intro E; subst. now rewrite pair_eqb_refl in H1.
Qed.

Lemma check_req_used k kd q k' :
  check_req k kd q = Some k' ->
  (k_used k' = k_used k /\ ~ (kd = Some KStart /\ o_ok q = true)) \/
  (kd = Some KStart /\ o_ok q = true /\ o_dirnew q = true /\
   is_used (k_used k) (pat_base (o_rs q), pat_dir (o_rs q)) = false /\
   k_used k' = (pat_base (o_rs q), pat_dir (o_rs q)) :: k_used k).
Proof.
  unfold check_req. destruct (negb (o_msg q)); [discriminate|].
  destruct (o_ok q) eqn:Eok; cbn [negb].
  2:{ destruct (_ && _); [|discriminate]. intro H; inversion H; subst. left. split; auto. intros [_ X]; discriminate. }
  destruct kd as [[| | | |]|]; try (intro H; inversion H; subst; cbn; left; split; [reflexivity | intros [X _]; discriminate]).
  - destruct (forallb no_writer (o_writers q) && o_closed q); [|discriminate].
    intro H; inversion H; subst; cbn; left; split; [reflexivity | intros [X _]; discriminate].
  - destruct (active (o_rs q) && (0 <=? pat_dir (o_rs q)) &&
              negb (is_used (k_used k) (pat_base (o_rs q), pat_dir (o_rs q))) && o_dirnew q) eqn:E; [|discriminate].
    intro H; inversion H; subst; cbn. right.
    rewrite !andb_true_iff in E. destruct E as [[[_ _] E3] E4]. apply negb_true_iff in E3. auto.
Qed.

Lemma checker_dirs_fresh proj : forall h k,
  check_from proj k h = true ->
  NoDup (start_dirs h) /\ forall d, In d (start_dirs h) -> is_used (k_used k) d = false.
Proof.
  induction h as [|[o b] rest IH]; intros k H; cbn [start_dirs].
  - split; [constructor | contradiction].
  - cbn [check_from] in H. destruct (check_step proj k o b) as [k'|] eqn:Ec; [|discriminate].
    specialize (IH k' H). destruct IH as [Hnd Hfr].
    unfold check_step in Ec.
    destruct o as [r|l|ch n], b as [q|d22 d3 doff others nw|]; try discriminate.
    + apply check_req_used in Ec. destruct Ec as [[Eu Hn] | (Hk & Hok & _ & Hu & Eu)].
      * assert (E : o_ok q && is_start (classify (rq_str r)) = false).
        { destruct (o_ok q) eqn:E1; auto. destruct (classify (rq_str r)) eqn:E2; auto.
          exfalso. apply Hn. auto. }
        rewrite E. rewrite Eu in Hfr. auto.
      * inversion Hk as [Hk']. rewrite Hok. rewrite Hk'. cbn [is_start andb].
        split.
        -- constructor; auto. intro Hin. apply Hfr in Hin. rewrite Eu in Hin.
           apply is_used_cons_false in Hin as [X _]. now apply X.
        -- intros d [<- | Hin]; auto. apply Hfr in Hin. rewrite Eu in Hin.
           now apply is_used_cons_false in Hin.
    + apply check_req_used in Ec. destruct Ec as [[Eu Hn] | (Hk & _)]; [|discriminate].
      rewrite Eu in Hfr. auto.
    + destruct (check_pub _ _ _ _ _ _ _ _); [|discriminate]. inversion Ec; subst. auto.
Qed.

(* a rejected request changes neither the reported state nor anything that decides behaviour *)
Lemma rejected_changes_nothing s o q :
  is_request o = true -> snd (step s o) = OReq q -> o_ok q = false ->
  rs (fst (step s o)) = rs s /\ chans (fst (step s o)) = chans s /\ used (fst (step s o)) = used s.
Proof.
  destruct o as [r|l|ch n]; cbn [is_request]; [| |discriminate]; intros _.
  - unfold step, step_gen, write_control, write_control_start.
    destruct (classify (rq_str r)); cbn [fst snd is_ok].
    + unfold req_obs. intros H; inversion H; subst; cbn; discriminate.
    + destruct (unpause_arg (rq_str r)); [| |destruct (_ && _)]; cbn [fst snd is_ok]; unfold req_obs;
        intros H; inversion H; subst; cbn; auto; discriminate.
    + unfold req_obs. intros H; inversion H; subst; cbn; discriminate.
    + destruct (negb (rq22 r || rqoff r || rq3 r)); [cbn; auto|].
      destruct (existsb any_writer (chans s)); [cbn; auto|].
      destruct (rqoff r && negb (existsb hasproj (chans s))); [cbn; auto|].
      destruct (negb (mapn s =? -1) && negb (mapn s =? zlen (chans s))); [cbn; auto|].
      destruct (make_directory _ _); [|cbn; auto].
      cbn [negb andb fst snd is_ok]. unfold req_obs. intros H; inversion H; subst; cbn; discriminate.
    + cbn; auto.
  - unfold step, step_gen, set_label. destruct (zlen l =? 0); [cbn; auto|].
    destruct (_ && _); cbn; auto.
Qed.

(* STOP always succeeds, removes every writer and leaves nothing open *)
Lemma stop_closes_everything s r :
  classify (rq_str r) = KStop ->
  exists q, snd (step s (WC r)) = OReq q /\ o_ok q = true /\ o_closed q = true /\
            active (rs (fst (step s (WC r)))) = false /\
            Forall (fun c => any_writer c = false) (chans (fst (step s (WC r)))).
Proof.
  intro Ek. unfold step, step_gen, write_control. rewrite Ek. cbn [is_ok fst snd]. unfold req_obs.
  eexists; split; [reflexivity|]. cbn. repeat split; auto.
  apply Forall_forall. intros x Hx. apply in_map_iff in Hx as [c [<- _]]. reflexivity.
Qed.

(* START while writing is active is rejected (any source has at least one channel) *)
Lemma active_has_writer proj s :
  Inv proj s -> chans s <> [] -> active (rs s) = true -> existsb any_writer (chans s) = true.
Proof.
  intros (H1 & H2 & H3 & H4) Hne Ha. specialize (H3 Ha).
  destruct (t22 (rs s) || t3 (rs s)) eqn:E.
  - destruct (chans s) as [|c t] eqn:Ec; [congruence|]. inversion H2 as [|? ? (A & B & _) _]; subst.
    cbn [existsb]. unfold any_writer. rewrite A, B, Ha. cbn.
    destruct (t22 (rs s)), (t3 (rs s)); cbn in *; try discriminate; auto; now rewrite ?orb_true_r.
  - cbn [orb] in H3. apply andb_true_iff in H3 as [Ht Hp]. rewrite <- H1, existsb_map in Hp.
    apply existsb_exists in Hp as [c [Hin Hc]]. apply existsb_exists. exists c. split; auto.
    eapply Forall_forall in H2; eauto. destruct H2 as (_ & _ & C & _).
    unfold any_writer. rewrite C, Ha, Ht, Hc. cbn. now rewrite orb_true_r.
Qed.

Lemma start_while_active_rejected_inv proj s r :
  Inv proj s -> chans s <> [] -> active (rs s) = true -> classify (rq_str r) = KStart ->
  exists q, snd (step s (WC r)) = OReq q /\ o_ok q = false.
Proof.
  intros HI Hne Ha Ek. pose proof (active_has_writer proj s HI Hne Ha) as Hw.
  unfold step, step_gen, write_control, write_control_start. rewrite Ek, Hw.
  destruct (negb (rq22 r || rqoff r || rq3 r)); cbn [is_ok fst snd]; unfold req_obs; eexists; split; reflexivity.
Qed.

Lemma init_chans_nonempty c : c_proj c <> [] -> forall ops, chans (fst (run (init c) ops)) <> [].
Proof.
  intros Hne ops E. pose proof (reachable_inv c ops) as (H1 & _). rewrite E in H1. cbn in H1. congruence.
Qed.

(* ---------- the full statement ---------- *)

Lemma reported_state_matches_behaviour_full :
  forall (c : config) (ops : list op),
    let s := fst (run (init c) ops) in
    let h := combine ops (snd (run (init c) ops)) in
    length (snd (run (init c) ops)) = length ops /\
    C06_check (c_proj c) (c_used c) (rs (init c)) (map writers_of (chans (init c))) h = true /\
    (forall ch n T, 0 <= ch < zlen (c_proj c) -> 0 < n ->
       stored (snd (step s (PUB ch n))) T =
         if expect_store (rs s) (nth (Z.to_nat ch) (c_proj c) false) T then n else 0) /\
    (NoDup (start_dirs h) /\ forall d, In d (start_dirs h) -> is_used (c_used c) d = false) /\
    (forall o q, is_request o = true -> snd (step s o) = OReq q -> o_ok q = false ->
       rs (fst (step s o)) = rs s /\ chans (fst (step s o)) = chans s /\ used (fst (step s o)) = used s) /\
    (forall r, classify (rq_str r) = KStop ->
       exists q, snd (step s (WC r)) = OReq q /\ o_ok q = true /\ o_closed q = true /\
                 active (rs (fst (step s (WC r)))) = false /\
                 Forall (fun c => any_writer c = false) (chans (fst (step s (WC r))))).
Proof.
  intros c ops s h. split; [|split; [|split; [|split; [|split]]]].
  - eapply run_length, init_inv.
  - apply model_satisfies_checker.
  - intros. apply stores_iff_reported_inv; auto. apply reachable_inv.
  - pose proof (model_satisfies_checker c ops) as H. apply checker_dirs_fresh in H. exact H.
  - intros. eapply rejected_changes_nothing; eauto.
  - intros. now apply stop_closes_everything.
Qed.

Lemma start_while_active_is_rejected :
  forall (c : config) (ops : list op) (r : wcreq),
    c_proj c <> [] ->
    let s := fst (run (init c) ops) in
    active (rs s) = true -> classify (rq_str r) = KStart ->
    exists q, snd (step s (WC r)) = OReq q /\ o_ok q = false.
Proof.
  intros c ops r Hne s Ha Ek. eapply start_while_active_rejected_inv; eauto.
  - apply reachable_inv.
  - now apply init_chans_nonempty.
Qed.

(* ---------- the tree before the fixes ---------- *)

Definition wPAUSE := {| rq_str := sPAUSE; rq_path := 0; rq22 := false; rq3 := false; rqoff := false |}.
Definition wSTOP := {| rq_str := sSTOP; rq_path := 0; rq22 := false; rq3 := false; rqoff := false |}.
Definition wSTART (a b c : bool) := {| rq_str := sSTART; rq_path := 0; rq22 := a; rq3 := b; rqoff := c |}.
Definition cfg_w : config := {| c_proj := [true; false]; c_used := []; c_map := -1; c_base := 1 |}.
Definition cfg_map : config := {| c_proj := [true; false]; c_used := []; c_map := 2; c_base := 1 |}.
Definition witness1 : list op := [WC wPAUSE; WC (wSTART false false true); PUB 0 2].
Definition witness2 : list op :=
  [WC (wSTART true false false); WC wPAUSE; WC wSTOP; WC (wSTART false false true); PUB 0 2].
Definition witness3 : list op := [WC (wSTART true false false)].

Definition check_old (c : config) (ops : list op) : bool :=
  C06_check (c_proj c) (c_used c) (rs (init c)) (map writers_of (chans (init c)))
            (combine ops (snd (run_old (init c) ops))).

Lemma refuted_before_fix :
  check_old cfg_w witness1 = false /\ check_old cfg_w witness2 = false /\
  (* the state said active and unpaused with OFF on, channel 0 is eligible, and nothing was stored *)
  nth 2 (snd (run_old (init cfg_w) witness1)) OPanic = OPub 0 0 0 false 0 /\
  expect_store (rs (fst (run_old (init cfg_w) witness1))) true OFF = true /\
  (* START with a pixel map loaded panicked *)
  snd (run_old (init cfg_map) witness3) = [OPanic] /\ check_old cfg_map witness3 = false.
Proof. vm_compute. repeat split; reflexivity. Qed.

(* the hypotheses of the theorems above are satisfiable / the statements are not vacuous *)
Lemma example_nontrivial :
  let s := fst (run (init cfg_w) witness2) in
  c_proj cfg_w <> [] /\ 0 <= 0 < zlen (c_proj cfg_w) /\
  active (rs s) = true /\ stored (snd (step s (PUB 0 2))) OFF = 2 /\ stored (snd (step s (PUB 1 2))) OFF = 0 /\
  start_dirs (combine witness2 (snd (run (init cfg_w) witness2))) = [(1, 0); (1, 1)].
Proof. vm_compute. repeat split; try reflexivity; try discriminate. Qed.

(* ---------- how requests move the [active] flag (used by C20) ---------- *)

Lemma inv_chans_nonempty proj s : Inv proj s -> proj <> [] -> chans s <> [].
Proof. intros (H1 & _) Hne E. rewrite E in H1. cbn in H1. congruence. Qed.

Lemma wc_effect proj s r :
  Inv proj s -> proj <> [] ->
  exists s' q, step s (WC r) = (s', OReq q) /\ Inv proj s' /\
    o_closed q = negb (active (rs s')) /\
    match classify (rq_str r) with
    | KStart => if o_ok q then active (rs s) = false /\ active (rs s') = true
                else active (rs s') = active (rs s)
    | KStop => o_ok q = true /\ active (rs s') = false
    | KUnpause => active (rs s') = active (rs s) /\
                  match unpause_arg (rq_str r) with
                  | ULabel l => o_ok q = true -> active (rs s) = true /\ single_line l = true
                  | _ => True
                  end
    | _ => active (rs s') = active (rs s)
    end.
Proof.
  intros HI Hne.
  pose proof (wc_check proj s r HI) as Hc.
  pose proof (inv_chans_nonempty proj s HI Hne) as Hch.
  destruct (classify (rq_str r)) eqn:Ek.
  - unfold step, step_gen, write_control in *. rewrite Ek in *. cbn [is_ok] in *.
    destruct Hc as (k' & _ & HI' & _). unfold req_obs. do 2 eexists. split; [reflexivity|]. split; [exact HI'|].
    cbn. auto.
  - unfold step, step_gen, write_control in *. rewrite Ek in *.
    destruct (unpause_arg (rq_str r)) eqn:Eu.
    + cbn [is_ok] in *. destruct Hc as (k' & _ & HI' & _). unfold req_obs. do 2 eexists.
      split; [reflexivity|]. split; [exact HI'|]. cbn. auto.
    + cbn [is_ok] in *. unfold req_obs. do 2 eexists. split; [reflexivity|]. split; [exact HI|]. cbn. auto.
    + destruct (active (rs s) && (negb true || single_line l)) eqn:Ea.
      * cbn [is_ok] in *. destruct Hc as (k' & _ & HI' & _). unfold req_obs. do 2 eexists.
        split; [reflexivity|]. split; [exact HI'|]. cbn. split; auto. split; auto. intros _.
        apply andb_true_iff in Ea. cbn in Ea. exact Ea.
      * cbn [is_ok] in *. unfold req_obs. do 2 eexists. split; [reflexivity|]. split; [exact HI|]. cbn.
        split; auto. split; auto. discriminate.
  - unfold step, step_gen, write_control in *. rewrite Ek in *. cbn [is_ok] in *.
    destruct Hc as (k' & _ & HI' & _). unfold req_obs. do 2 eexists. split; [reflexivity|]. split; [exact HI'|].
    cbn. auto.
  - destruct (active (rs s)) eqn:Ea.
    + (* active: rejected *)
      pose proof (active_has_writer proj s HI Hch Ea) as Hw.
      unfold step, step_gen, write_control, write_control_start. rewrite Ek, Hw.
      destruct (negb (rq22 r || rqoff r || rq3 r)); cbn [is_ok]; unfold req_obs; do 2 eexists;
        (split; [reflexivity|]); (split; [exact HI|]); cbn; auto.
    + unfold step, step_gen, write_control, write_control_start in *. rewrite Ek in *.
      destruct (negb (rq22 r || rqoff r || rq3 r)).
      { cbn [is_ok]; unfold req_obs; do 2 eexists; (split; [reflexivity|]); (split; [exact HI|]); cbn; auto. }
      destruct (existsb any_writer (chans s)).
      { cbn [is_ok]; unfold req_obs; do 2 eexists; (split; [reflexivity|]); (split; [exact HI|]); cbn; auto. }
      destruct (rqoff r && negb (existsb hasproj (chans s))).
      { cbn [is_ok]; unfold req_obs; do 2 eexists; (split; [reflexivity|]); (split; [exact HI|]); cbn; auto. }
      destruct (negb (mapn s =? -1) && negb (mapn s =? zlen (chans s))).
      { cbn [is_ok] in *. destruct Hc as (k' & _ & HI' & _).
        unfold req_obs; do 2 eexists; (split; [reflexivity|]); (split; [exact HI'|]); cbn; auto. }
      destruct (make_directory _ _).
      2:{ cbn [is_ok]; unfold req_obs; do 2 eexists; (split; [reflexivity|]); (split; [exact HI|]); cbn; auto. }
      cbn [negb andb is_ok] in *. destruct Hc as (k' & _ & HI' & _).
      unfold req_obs; do 2 eexists; (split; [reflexivity|]); (split; [exact HI'|]); cbn; auto.
  - unfold step, step_gen, write_control in *. rewrite Ek in *. cbn [is_ok] in *.
    unfold req_obs. do 2 eexists. split; [reflexivity|]. split; [exact HI|]. cbn. auto.
Qed.

Lemma label_effect proj s l :
  Inv proj s ->
  exists q, step s (LABEL l) = (s, OReq q) /\ o_closed q = negb (active (rs s)) /\
            (o_ok q = true -> active (rs s) = true /\ single_line l = true).
Proof.
  intro HI. unfold step, step_gen, set_label.
  destruct (zlen l =? 0).
  - cbn [is_ok]. unfold req_obs. eexists. split; [reflexivity|]. cbn. split; auto. discriminate.
  - destruct (active (rs s) && (negb true || single_line l)) eqn:Ea; cbn [is_ok]; unfold req_obs;
      eexists; (split; [reflexivity|]); cbn; split; auto; try discriminate.
    intros _. apply andb_true_iff in Ea. cbn in Ea. exact Ea.
Qed.

Lemma pub_effect proj s ch n :
  Inv proj s -> Inv proj (fst (step s (PUB ch n))) /\ rs (fst (step s (PUB ch n))) = rs s.
Proof.
  intro HI. pose proof (pub_check proj s ch n HI) as H. unfold step, step_gen in *.
  destruct ((0 <=? ch) && (ch <? zlen (chans s))); [|cbn; auto].
  destruct (nth_error (chans s) (Z.to_nat ch)); [|cbn; auto].
  destruct (publish_chan c n) as [c' d]. destruct H as (k' & _ & HI' & _). cbn. auto.
Qed.

(* ---------- fault stream ---------- *)

Lemma fault_stop_closes_channels : forall s, fault_stop_ok (fault_obs s) = true.
Proof.
  intro s. unfold fault_stop_ok, fault_obs, stop_under_fault;
    cbn [fo_writers fo_open fo_stored fo_active set_chans set_rs chans rs ws_stop active negb].
  rewrite writers_remove_all. cbn [andb Z.eqb].
  assert (H : existsb stores_any (map remove_all (chans s)) = false).
  { induction (chans s) as [|c t IH]; cbn [map existsb]; auto. rewrite IH.
    unfold stores_any, publish_chan, remove_all, any_writer; cbn. now destruct (cpaused c). }
  now rewrite H.
Qed.

Lemma fault_stop_reachable :
  forall (c : config) (ops : list op), fault_stop_ok (fault_obs (fst (run (init c) ops))) = true.
Proof. intros. apply fault_stop_closes_channels. Qed.

(* second stage of the fault stream *)
Lemma stop_under_fault_inv proj s : Inv proj s -> Inv proj (stop_under_fault s).
Proof. apply stop_inv. Qed.

Lemma write_control_inv proj s r : Inv proj s -> Inv proj (fst (write_control true s r)).
Proof.
  intro HI. pose proof (wc_check proj s r HI) as H. unfold step, step_gen in H.
  destruct (write_control true s r) as [s' rp]. cbn [fst].
  destruct rp; destruct H as (k' & Hc & HI' & _); exact HI'.
Qed.

Lemma pub_all_ok r : forall cs,
  Forall (chan_ok r) cs ->
  forallb (pub1_ok r) (combine (map hasproj cs) (map (fun c => snd (publish_chan c 1)) cs)) = true.
Proof.
  induction cs as [|c t IH]; intro H; cbn [map combine forallb]; auto.
  inversion H as [|? ? Hc Ht]; subst. rewrite (IH Ht), andb_true_r.
  pose proof (publish_chan_spec r c 1 Hc ltac:(lia)) as Hp.
  destruct (publish_chan c 1) as [c' [[d22 d3] doff]]. destruct Hp as (E1 & E2 & E3 & _).
  unfold pub1_ok; cbn [fst snd]. rewrite E1, E2, E3, !Z.eqb_refl. reflexivity.
Qed.

Lemma fault_start_agrees :
  forall (c : config) (ops : list op) (r : wcreq),
    fault_start_ok (c_proj c) (fault_start_obs (fst (run (init c) ops)) r) = true.
Proof.
  intros c ops r. pose proof (reachable_inv c ops) as HI.
  apply stop_under_fault_inv in HI. apply (write_control_inv _ _ r) in HI.
  unfold fault_start_ok, fault_start_obs, pub_all; cbn [fst snd negb andb].
  destruct HI as (H1 & H2 & _). set (s1 := fst (write_control true _ r)) in *.
  rewrite <- H1. unfold zlen. rewrite !map_length, Z.eqb_refl. cbn [andb].
  now apply pub_all_ok.
Qed.
