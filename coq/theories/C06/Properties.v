(* C06 — property theorems only: each closed by [exact], each followed by Print Assumptions. *)
From Dastard Require Import Common.ZX C06.Model C06.Spec C06.Proofs.

(* Over ALL configurations (any set of channels with / without projectors, any pre-existing run directories,
   map loaded or not, any base path) and ALL histories of requests (START / STOP / PAUSE / UNPAUSE[ label] in
   any spelling, malformed strings, label requests) interleaved with publishes:
   - the model never panics and its observations pass the property checker of Spec.v;
   - in every reachable state a publish of n records to channel ch adds n records to the file of type T
     exactly when the REPORTED state says active, not paused, T enabled and ch eligible for T, else none;
   - the directories of the successful STARTs are pairwise distinct and none existed before;
   - a rejected request changes neither the reported state, nor the channels, nor the directory set;
   - STOP succeeds, leaves no channel with a writer, and nothing open. *)
Theorem reported_state_matches_behaviour :
  forall (c : config) (ops : list op),
    let s := fst (run (init c) ops) in
    let h := combine ops (snd (run (init c) ops)) in
    length (snd (run (init c) ops)) = length ops /\
    C06_check (c_proj c) (c_used c) (rs (init c)) (map writers_of (chans (init c))) h = true /\
    (forall ch n T, 0 <= ch < zlen (c_proj c) -> 0 < n ->
       stored (snd (step s (PUB ch n))) T =
         if expect_store (rs s) (nth (Z.to_nat ch) (c_proj c) false) T then n else 0) /\
    (NoDup (start_dirs h) /\ forall d, In d (start_dirs h) -> is_used (c_used c) d = false) /\
    (forall o q, is_request o = true -> snd (step s o) = OReq q -> o_ok q = false ->
       rs (fst (step s o)) = rs s /\ chans (fst (step s o)) = chans s /\ used (fst (step s o)) = used s) /\
    (forall r, classify (rq_str r) = KStop ->
       exists q, snd (step s (WC r)) = OReq q /\ o_ok q = true /\ o_closed q = true /\
                 active (rs (fst (step s (WC r)))) = false /\
                 Forall (fun c => any_writer c = false) (chans (fst (step s (WC r))))).
Proof. exact reported_state_matches_behaviour_full. Qed.
Print Assumptions reported_state_matches_behaviour.

(* The internal invariant behind it, for every reachable state: a channel holds a writer of type T iff the
   reported state is active with T enabled and the channel is eligible, and every channel that holds a
   writer carries exactly the reported pause flag. *)
Theorem writers_match_reported_state :
  forall (c : config) (ops : list op),
    let s := fst (run (init c) ops) in
    map hasproj (chans s) = c_proj c /\
    Forall (fun ch => w22 ch = active (rs s) && t22 (rs s) /\
                      w3 ch = active (rs s) && t3 (rs s) /\
                      woff ch = active (rs s) && toff (rs s) && hasproj ch /\
                      (any_writer ch = true -> cpaused ch = paused (rs s))) (chans s) /\
    (active (rs s) = true ->
       t22 (rs s) || t3 (rs s) || (toff (rs s) && existsb (fun b => b) (c_proj c)) = true) /\
    (active (rs s) = true -> is_used (used s) (pat_base (rs s), pat_dir (rs s)) = true).
Proof. exact reachable_inv. Qed.
Print Assumptions writers_match_reported_state.

(* What acceptance by the observable checker means for directories, independent of any model. *)
Theorem checker_sound_fresh_directories :
  forall proj h k, check_from proj k h = true ->
    NoDup (start_dirs h) /\ forall d, In d (start_dirs h) -> is_used (k_used k) d = false.
Proof. exact checker_dirs_fresh. Qed.
Print Assumptions checker_sound_fresh_directories.

(* START while writing is active is a rejected request (sources have at least one channel). *)
Theorem start_while_active_rejected :
  forall (c : config) (ops : list op) (r : wcreq),
    c_proj c <> [] ->
    let s := fst (run (init c) ops) in
    active (rs s) = true -> classify (rq_str r) = KStart ->
    exists q, snd (step s (WC r)) = OReq q /\ o_ok q = false.
Proof. exact start_while_active_is_rejected. Qed.
Print Assumptions start_while_active_rejected.

(* The hypotheses above are met by a concrete non-trivial history (two STARTs with different type sets,
   PAUSE, STOP; afterwards OFF-only writing stores on the channel with projectors and not on the other). *)
Example reported_state_matches_behaviour_example :
  let s := fst (run (init cfg_w) witness2) in
  c_proj cfg_w <> [] /\ 0 <= 0 < zlen (c_proj cfg_w) /\
  active (rs s) = true /\ stored (snd (step s (PUB 0 2))) OFF = 2 /\ stored (snd (step s (PUB 1 2))) OFF = 0 /\
  start_dirs (combine witness2 (snd (run (init cfg_w) witness2))) = [(1, 0); (1, 1)].
Proof. exact example_nontrivial. Qed.

(* Fault stream (outside the property's quantifier; judged on the clause "STOP closes all files"): a STOP issued in
   any reachable state while the experiment-state file cannot be written still takes the writers from every
   channel, leaves no channel data file open, nothing is stored afterwards and the reported state says inactive -
   whatever it replies. *)
Theorem stop_under_fault_closes_channel_files :
  forall (c : config) (ops : list op), fault_stop_ok (fault_obs (fst (run (init c) ops))) = true.
Proof. exact fault_stop_reachable. Qed.
Print Assumptions stop_under_fault_closes_channel_files.

(* Fault stream, second stage: the failed handle stays behind, so the START label of the next START cannot be
   written either; whatever that START replies, the state it leaves reported agrees with what every channel
   does with a published record. *)
Theorem start_under_fault_state_matches_behaviour :
  forall (c : config) (ops : list op) (r : wcreq),
    fault_start_ok (c_proj c) (fault_start_obs (fst (run (init c) ops)) r) = true.
Proof. exact fault_start_agrees. Qed.
Print Assumptions start_under_fault_state_matches_behaviour.

(* The code as it was before the fixes (SetOFF left the channel's pause flag set; START with a pixel map
   loaded indexed the map at -1): the same histories fail the checker. *)
Theorem reported_state_matches_behaviour_refuted_pre_fix :
  check_old cfg_w witness1 = false /\ check_old cfg_w witness2 = false /\
  nth 2 (snd (run_old (init cfg_w) witness1)) OPanic = OPub 0 0 0 false 0 /\
  expect_store (rs (fst (run_old (init cfg_w) witness1))) true OFF = true /\
  snd (run_old (init cfg_map) witness3) = [OPanic] /\ check_old cfg_map witness3 = false.
Proof. exact refuted_before_fix. Qed.
Print Assumptions reported_state_matches_behaviour_refuted_pre_fix.
