From Dastard Require Import Common.ZX C06.Model C06.Spec C06.Proofs.
