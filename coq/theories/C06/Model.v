(* C06 — mirror model of write control (definitions only, no proofs).
   Go code mirrored, one function each:
     rpc_server.go   SourceControl.WriteControl, SourceControl.SetExperimentStateLabel (argument handling)
     data_source.go  AnySource.WriteControl, writeControlStart, makeDirectory
     writing_state.go WritingState.Start / Stop / SetExperimentStateLabel (the parts that decide the reported state)
     publish_data.go DataPublisher.SetLJH22 / SetLJH3 / SetOFF / Remove* / SetPause / PublishData (the gates)
   Strings are lists of byte codes (premise: ASCII request strings, see design.d/C06.md).
   A base path is a small integer id: 0 = the empty string, k >= 1 = the k-th scratch directory.
   A run directory is the pair (base id, 4-digit number); [used] is the set of numbered entries that exist
   under today's directory of each base path. *)
From Dastard Require Import Common.ZX.

(* ---------- request strings ---------- *)

(* strings.ToUpper on ASCII *)
Definition upper (c : Z) : Z := if (97 <=? c) && (c <=? 122) then c - 32 else c.

(* strings.HasPrefix s p *)
Fixpoint has_prefix (p s : list Z) : bool :=
  match p, s with
  | [], _ => true
  | a :: p', b :: s' => (a =? b) && has_prefix p' s'
  | _ :: _, [] => false
  end.

Definition sPAUSE : list Z := [80;65;85;83;69].
Definition sUNPAUSE : list Z := [85;78;80;65;85;83;69].
Definition sSTOP : list Z := [83;84;79;80].
Definition sSTART : list Z := [83;84;65;82;84].

Inductive kind := KPause | KUnpause | KStop | KStart | KBad.

(* the switch of AnySource.WriteControl, in its order *)
Definition classify (s : list Z) : kind :=
  let u := map upper s in
  if has_prefix sPAUSE u then KPause
  else if has_prefix sUNPAUSE u then KUnpause
  else if has_prefix sSTOP u then KStop
  else if has_prefix sSTART u then KStart
  else KBad.

(* the "UNPAUSE label" argument: len > 7 -> byte 7 must be a space and a non-empty label must follow *)
Inductive uarg := UNone | UBadFormat | ULabel (l : list Z).
Definition unpause_arg (s : list Z) : uarg :=
  if zlen s >? 7
  then if negb (znth 0 s 7 =? 32) || (zlen s =? 8) then UBadFormat else ULabel (zskipn 8 s)
  else UNone.

(* a state label must be a single line (fix: WritingState.SetExperimentStateLabel rejects CR / LF) *)
Definition single_line (l : list Z) : bool := forallb (fun c => negb ((c =? 10) || (c =? 13))) l.

(* ---------- state ---------- *)

(* one DataPublisher (+ whether its processor has projectors) *)
Record chan := { w22 : bool; w3 : bool; woff : bool; cpaused : bool; hasproj : bool; nwritten : Z }.

(* WritingState as ComputeWritingState reports it; (pat_base, pat_dir) = (0, -1) is the empty pattern *)
Record rstate := { active : bool; paused : bool; t22 : bool; t3 : bool; toff : bool;
                   pat_base : Z; pat_dir : Z; basepath : Z }.

Record st := { rs : rstate; used : list (Z * Z); mapn : Z (* -1: no map loaded, else number of pixels *);
               chans : list chan }.

Definition set_rs (s : st) (r : rstate) : st := {| rs := r; used := used s; mapn := mapn s; chans := chans s |}.
Definition set_chans (s : st) (cs : list chan) : st := {| rs := rs s; used := used s; mapn := mapn s; chans := cs |}.

Definition init_rs (bp : Z) : rstate :=
  {| active := false; paused := false; t22 := false; t3 := false; toff := false;
     pat_base := 0; pat_dir := -1; basepath := bp |}.
Definition init_chan (p : bool) : chan :=
  {| w22 := false; w3 := false; woff := false; cpaused := false; hasproj := p; nwritten := 0 |}.

(* a case's configuration: which channels have projectors, the existing numbered entries, map, base path *)
Record config := { c_proj : list bool; c_used : list (Z * Z); c_map : Z; c_base : Z }.
Definition init (c : config) : st :=
  {| rs := init_rs (c_base c); used := c_used c; mapn := c_map c; chans := map init_chan (c_proj c) |}.

(* ---------- DataPublisher methods ---------- *)

Definition set_pause (b : bool) (c : chan) : chan :=
  {| w22 := w22 c; w3 := w3 c; woff := woff c; cpaused := b; hasproj := hasproj c; nwritten := nwritten c |}.
Definition set_ljh22 (c : chan) : chan :=
  {| w22 := true; w3 := w3 c; woff := woff c; cpaused := false; hasproj := hasproj c; nwritten := 0 |}.
Definition set_ljh3 (c : chan) : chan :=
  {| w22 := w22 c; w3 := true; woff := woff c; cpaused := false; hasproj := hasproj c; nwritten := 0 |}.
(* SetOFF: [fx = true] is the repaired code (resets the pause flag like SetLJH22/SetLJH3),
   [fx = false] the code as it was (leaves WritingPaused alone) *)
Definition set_off (fx : bool) (c : chan) : chan :=
  {| w22 := w22 c; w3 := w3 c; woff := true; cpaused := if fx then false else cpaused c;
     hasproj := hasproj c; nwritten := 0 |}.
(* RemoveLJH22; RemoveOFF; RemoveLJH3 *)
Definition remove_all (c : chan) : chan :=
  {| w22 := false; w3 := false; woff := false; cpaused := cpaused c; hasproj := hasproj c; nwritten := 0 |}.

Definition any_writer (c : chan) : bool := w22 c || woff c || w3 c.

(* ---------- requests ---------- *)

(* reply class of a request; RPanic = the Go code panics (index out of range), which ends the process *)
Inductive reply := ROk | RErr | RPanic.
Definition is_ok (r : reply) : bool := match r with ROk => true | _ => false end.

Record wcreq := { rq_str : list Z; rq_path : Z; rq22 : bool; rq3 : bool; rqoff : bool }.

Definition pair_eqb (a b : Z * Z) : bool := (fst a =? fst b) && (snd a =? snd b).
Definition is_used (u : list (Z * Z)) (p : Z * Z) : bool := existsb (pair_eqb p) u.

(* makeDirectory: first i in 0..9999 for which basepath/today/%04d does not exist.
   Base id 3 stands for a path that cannot be created (it lies below a regular file): MkdirAll fails. *)
Definition bad_path : Z := 3.
Definition make_directory (u : list (Z * Z)) (path : Z) : option Z :=
  if (path =? 0) || (path =? bad_path) then None
  else find (fun i => negb (is_used u (path, i))) (zrange 0 10000).

(* the per-channel body of writeControlStart's loop *)
Definition start_chan (fx : bool) (r : wcreq) (c : chan) : chan :=
  let c1 := if rq22 r then set_ljh22 c else c in
  let c2 := if rqoff r && hasproj c1 then set_off fx c1 else c1 in
  if rq3 r then set_ljh3 c2 else c2.

(* writeControlStart followed by WritingState.Start; a map error makes the RPC layer unload the map.
   The bench source numbers its channels from 0 (AnySource.PrepareChannels); with a map loaded the code as it
   was ([fx = false]) indexed Pixels[0-1] for the first channel and panicked after creating the directory;
   the repaired code gives such a channel the zero Pixel. *)
Definition write_control_start (fx : bool) (s : st) (r : wcreq) : st * reply :=
  if negb (rq22 r || rqoff r || rq3 r) then (s, RErr)
  else if existsb any_writer (chans s) then (s, RErr)
  else if rqoff r && negb (existsb hasproj (chans s)) then (s, RErr)
  else if negb (mapn s =? -1) && negb (mapn s =? zlen (chans s))
       then ({| rs := rs s; used := used s; mapn := -1; chans := chans s |}, RErr)
  else
    let path := if negb (rq_path r =? 0) then rq_path r else basepath (rs s) in
    match make_directory (used s) path with
    | None => (s, RErr)
    | Some i =>
        if negb fx && negb (mapn s =? -1) && negb (zlen (chans s) =? 0) then (s, RPanic) else
        ({| rs := {| active := true; paused := false; t22 := rq22 r; t3 := rq3 r; toff := rqoff r;
                     pat_base := path; pat_dir := i; basepath := path |};
            used := (path, i) :: used s; mapn := mapn s;
            chans := map (start_chan fx r) (chans s) |}, ROk)
    end.

(* WritingState.Stop: what ComputeWritingState shows afterwards (the type flags are left as they were) *)
Definition ws_stop (r : rstate) : rstate :=
  {| active := false; paused := false; t22 := t22 r; t3 := t3 r; toff := toff r;
     pat_base := 0; pat_dir := -1; basepath := basepath r |}.
Definition ws_pause (b : bool) (r : rstate) : rstate :=
  {| active := active r; paused := b; t22 := t22 r; t3 := t3 r; toff := toff r;
     pat_base := pat_base r; pat_dir := pat_dir r; basepath := basepath r |}.

(* AnySource.WriteControl *)
Definition write_control (fx : bool) (s : st) (r : wcreq) : st * reply :=
  match classify (rq_str r) with
  | KPause =>
      (set_rs (set_chans s (map (set_pause true) (chans s))) (ws_pause true (rs s)), ROk)
  | KUnpause =>
      let go := (set_rs (set_chans s (map (set_pause false) (chans s))) (ws_pause false (rs s)), ROk) in
      match unpause_arg (rq_str r) with
      | UBadFormat => (s, RErr)
      | ULabel l => (* SetExperimentStateLabel fails when not active (and, repaired, on a multi-line label) *)
                    if active (rs s) && (negb fx || single_line l) then go else (s, RErr)
      | UNone => go
      end
  | KStop =>
      (set_rs (set_chans s (map remove_all (chans s))) (ws_stop (rs s)), ROk)
  | KStart => write_control_start fx s r
  | KBad => (s, RErr)
  end.

(* SourceControl.SetExperimentStateLabel + WritingState.SetExperimentStateLabel: empty label rejected by the
   RPC layer, any label rejected while writing is not active, a multi-line label always (repaired code);
   never changes the writing state *)
Definition set_label (fx : bool) (s : st) (l : list Z) : st * reply :=
  if zlen l =? 0 then (s, RErr)
  else if active (rs s) && (negb fx || single_line l) then (s, ROk) else (s, RErr).

(* ---------- publishing ---------- *)

(* DataPublisher.PublishData on n records: (new channel, records added to the LJH2.2 / LJH3 / OFF file) *)
Definition publish_chan (c : chan) (n : Z) : chan * (Z * Z * Z) :=
  if n <=? 0 then (c, (0, 0, 0))
  else if cpaused c then (c, (0, 0, 0))
  else if negb (any_writer c) then (c, (0, 0, 0))
  else ({| w22 := w22 c; w3 := w3 c; woff := woff c; cpaused := cpaused c; hasproj := hasproj c;
           nwritten := nwritten c + n |},
        (if w22 c then n else 0, if w3 c then n else 0, if woff c then n else 0)).

Fixpoint upd_nth {A} (l : list A) (i : nat) (x : A) : list A :=
  match l, i with
  | [], _ => []
  | _ :: t, O => x :: t
  | h :: t, S j => h :: upd_nth t j x
  end.

(* ---------- operations and observations ---------- *)

Inductive op := WC (r : wcreq) | LABEL (l : list Z) | PUB (ch n : Z).

Definition writers_of (c : chan) : bool * bool * bool := (w22 c, w3 c, woff c).

(* what the harness sees after a request: reply class, ComputeWritingState(), per-channel Has*(),
   whether the run directory named by the pattern was created by this request, whether no file under the
   scratch tree is open any more, whether the WRITING broadcast (if any) equals the reported state *)
Record reqobs := { o_ok : bool; o_rs : rstate; o_writers : list (bool * bool * bool);
                   o_dirnew : bool; o_closed : bool; o_msg : bool }.
(* after a publish + flush: records added to the channel's three files at the reported pattern,
   whether any other file changed, the channel's numberWritten *)
Inductive obs :=
| OReq (r : reqobs)
| OPub (d22 d3 doff : Z) (others : bool) (nw : Z)
| OPanic.

Definition req_obs (s' : st) (ok : bool) (dirnew : bool) : obs :=
  OReq {| o_ok := ok; o_rs := rs s'; o_writers := map writers_of (chans s');
          o_dirnew := dirnew; o_closed := negb (active (rs s')); o_msg := true |}.

Definition is_start (k : kind) : bool := match k with KStart => true | _ => false end.

Definition step_gen (fx : bool) (s : st) (o : op) : st * obs :=
  match o with
  | WC r => let (s', rp) := write_control fx s r in
            match rp with
            | RPanic => (s', OPanic)
            | _ => (s', req_obs s' (is_ok rp) (is_ok rp && is_start (classify (rq_str r))))
            end
  | LABEL l => let (s', rp) := set_label fx s l in (s', req_obs s' (is_ok rp) false)
  | PUB ch n =>
      if (0 <=? ch) && (ch <? zlen (chans s)) then
        match nth_error (chans s) (Z.to_nat ch) with
        | Some c => let (c', d) := publish_chan c n in
                    (set_chans s (upd_nth (chans s) (Z.to_nat ch) c'),
                     OPub (fst (fst d)) (snd (fst d)) (snd d) false (nwritten c'))
        | None => (s, OPub 0 0 0 false 0)
        end
      else (s, OPub 0 0 0 false 0)
  end.

Definition step := step_gen true.
Definition step_old := step_gen false.   (* the tree before the two fixes *)

Fixpoint run_gen (fx : bool) (s : st) (ops : list op) : st * list obs :=
  match ops with
  | [] => (s, [])
  | o :: rest => let (s1, b) := step_gen fx s o in
                 match b with
                 | OPanic => (s1, [b])           (* the process is gone: nothing further is observed *)
                 | _ => let (s2, bs) := run_gen fx s1 rest in (s2, b :: bs)
                 end
  end.
Definition run := run_gen true.
Definition run_old := run_gen false.

(* ---------- fault stream: STOP while the experiment-state file cannot be written ----------
   AnySource.WriteControl STOP runs the Remove* loop over all channels first and only then WritingState.Stop,
   whose error (the STOP label cannot be written) is returned: whatever the side file does, every channel has
   lost its writers.  Observed afterwards: the reported Active flag, the writer handles, how many channel data files are still open,
   and whether a publish of one record to every channel changed any file. *)
Record faultobs := { fo_writers : list (bool * bool * bool); fo_open : Z; fo_stored : bool;
                     fo_active : bool (* ComputeWritingState().Active after the faulty STOP *) }.

(* WritingState.Stop clears Active / Paused / the pattern before it touches any file *)
Definition stop_under_fault (s : st) : st := set_rs (set_chans s (map remove_all (chans s))) (ws_stop (rs s)).

Definition stores_any (c : chan) : bool :=
  let d := snd (publish_chan c 1) in negb ((fst (fst d) =? 0) && (snd (fst d) =? 0) && (snd d =? 0)).

(* second stage of the fault stream: the handle that failed stays in WritingState, so the START label of the next
   START fails as well - after writeControlStart attached the writers and WritingState.Start set Active, the
   types and the pattern.  Whatever START replies, the reported state must agree with what the channels do.
   Observed: ComputeWritingState() after that START, then for every channel the records a publish of one
   record adds to its three files at the reported pattern, and whether any other file changed. *)
Definition pub_all (s : st) : list (Z * Z * Z) := map (fun c => snd (publish_chan c 1)) (chans s).
Definition fault_start_obs (s : st) (r : wcreq) : rstate * list (Z * Z * Z) * bool :=
  let s1 := fst (write_control true (stop_under_fault s) r) in (rs s1, pub_all s1, false).

Definition fault_obs (s : st) : faultobs :=
  let s' := stop_under_fault s in
  {| fo_writers := map writers_of (chans s'); fo_open := 0; fo_stored := existsb stores_any (chans s');
     fo_active := active (rs s') |}.
