(* C12 — evaluation of generated cases: model vs observed implementation output, and the checker. *)
From Dastard Require Import Common.ZX Common.CaseLib C12.Model C12.Spec.

Record case := { c_kind : kind; c_chunks : list (list Z); c_obs : obs }.

Definition built_eqb (a b : built) : bool :=
  match a, b with
  | BRejected, BRejected | BPanic, BPanic | BOk, BOk => true
  | _, _ => false
  end.

(* index of the first differing element of two lists, or -1 *)
Fixpoint first_diff (i : Z) (a b : list Z) : Z :=
  match a, b with
  | [], [] => -1
  | x :: a', y :: b' => if x =? y then first_diff (i + 1) a' b' else i
  | _, _ => i
  end.

(* (code, index of the first differing output sample; -2: construction outcome or call structure differs) *)
Definition verdict (c : case) : Z * Z :=
  let m := observe (c_kind c) (c_chunks c) in
  let o := c_obs c in
  let d :=
    if negb (built_eqb (o_built m) (o_built o)) then -2
    else let d1 := first_diff 0 (o_single o) (o_single m) in
         if negb (d1 =? -1) then d1
         else if negb (list_eqb Z.eqb (map zlen (o_split o)) (map zlen (o_split m))) then -2
         else first_diff 0 (concat (o_split o)) (concat (o_split m)) in
  (verdict_code (d =? -1) (C12_check (c_kind c) (c_chunks c) o), d).

(* compact constructors for generated files *)
(* run-length encoded list: [(count, value); ...] *)
Definition rle (l : list (Z * Z)) : list Z := flat_map (fun p => repeat (snd p) (Z.to_nat (fst p))) l.
Definition Opt (rescale unwrap bias : bool) (reset_aft pulse_sign : Z) (invert_chan : list Z) : options :=
  mkOpt rescale unwrap bias reset_aft pulse_sign invert_chan.
Definition ok (single : list Z) (split : list (list Z)) : obs :=
  {| o_built := BOk; o_single := single; o_split := split |}.
Definition panicked : obs := {| o_built := BPanic; o_single := []; o_split := [] |}.
Definition rejected : obs := {| o_built := BRejected; o_single := []; o_split := [] |}.
Definition mk (k : kind) (chunks : list (list Z)) (o : obs) : case :=
  {| c_kind := k; c_chunks := chunks; c_obs := o |}.
