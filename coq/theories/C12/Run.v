(* C12 — evaluation of generated cases: model vs observed implementation output, and the checker. *)
From Dastard Require Import Common.ZX Common.CaseLib C12.Model C12.Spec.

(* One round = one experiment: a configuration, a stream cut into calls, the observed outcome. *)
Record round := { c_kind : kind; c_chunks : list (list Z); c_obs : obs }.

(* A case is a list of rounds.  Most cases have one.  Cases of the "long-lived source" route have several:
   ONE AbacoSource object is configured, sampled and fed data again and again with a different option set
   each time, and every round is judged on its own: its output is compared with the model started from a
   FRESH unwrapper built for THAT round's options ([observe] knows nothing of earlier rounds), and the
   checker is applied to that round alone.  So any dependence of a run on the previous run of the same
   source (options or unwrapper state surviving a reconfiguration / a new Sample()) shows up as a mismatch. *)
Definition case := list round.

Definition built_eqb (a b : built) : bool :=
  match a, b with
  | BRejected, BRejected | BPanic, BPanic | BOk, BOk => true
  | _, _ => false
  end.

(* index of the first differing element of two lists, or -1 *)
Fixpoint first_diff (i : Z) (a b : list Z) : Z :=
  match a, b with
  | [], [] => -1
  | x :: a', y :: b' => if x =? y then first_diff (i + 1) a' b' else i
  | _, _ => i
  end.

(* index of the first differing output sample of a round, or -1; -2: construction outcome or call structure differs *)
Definition round_diff (c : round) : Z :=
  let m := observe (c_kind c) (c_chunks c) in
  let o := c_obs c in
  if negb (built_eqb (o_built m) (o_built o)) then -2
  else let d1 := first_diff 0 (o_single o) (o_single m) in
       if negb (d1 =? -1) then d1
       else if negb (list_eqb Z.eqb (map zlen (o_split o)) (map zlen (o_split m))) then -2
       else first_diff 0 (concat (o_split o)) (concat (o_split m)).

Definition round_check (c : round) : bool := C12_check (c_kind c) (c_chunks c) (c_obs c).

(* (code, d): all rounds must agree with the model and pass the checker; d = 1000000 * (index of the first
   differing round) + (index of its first differing sample, or 999998 for -2), or -1 *)
Fixpoint rounds_diff (i : Z) (rs : list round) : Z :=
  match rs with
  | [] => -1
  | r :: rest => let d := round_diff r in
                 if d =? -1 then rounds_diff (i + 1) rest
                 else 1000000 * i + (if d <? 0 then 999998 else d)
  end.

Definition verdict (c : case) : Z * Z :=
  let d := rounds_diff 0 c in
  (verdict_code (d =? -1) (forallb round_check c), d).

(* compact constructors for generated files *)
(* run-length encoded list: [(count, value); ...] *)
Definition rle (l : list (Z * Z)) : list Z := flat_map (fun p => repeat (snd p) (Z.to_nat (fst p))) l.
Definition Opt (rescale unwrap bias : bool) (reset_aft pulse_sign : Z) (invert_chan : list Z) : options :=
  mkOpt rescale unwrap bias reset_aft pulse_sign invert_chan.
Definition ok (single : list Z) (split : list (list Z)) : obs :=
  {| o_built := BOk; o_single := single; o_split := split |}.
Definition panicked : obs := {| o_built := BPanic; o_single := []; o_split := [] |}.
Definition rejected : obs := {| o_built := BRejected; o_single := []; o_split := [] |}.
Definition rd (k : kind) (chunks : list (list Z)) (o : obs) : round :=
  {| c_kind := k; c_chunks := chunks; c_obs := o |}.
Definition mk (k : kind) (chunks : list (list Z)) (o : obs) : case := [rd k chunks o].
Definition mkr (rs : list round) : case := rs.
