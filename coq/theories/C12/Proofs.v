(* C12 — invariants, lemmas, proofs. *)
From Dastard Require Import Common.ZX C12.Model C12.Spec.
From Coq Require Import ZifyBool ZifyNat.
Ltac Zify.zify_post_hook ::= Z.div_mod_to_equations.

(* ================================================================== *)
(* A. fixed-width arithmetic and bit operations                        *)
(* ================================================================== *)

Lemma s16_sint16 x : s16 x = sint16 x.
Proof. reflexivity. Qed.

Lemma s16_small x : -32768 <= x < 32768 -> s16 x = x.
Proof. unfold s16. lia. Qed.

Lemma u16_small x : 0 <= x < 65536 -> u16 x = x.
Proof. unfold u16. lia. Qed.

Lemma u16_range x : 0 <= u16 x < 65536.
Proof. unfold u16. lia. Qed.

Lemma log2_lt16 x : 0 <= x < 65536 -> Z.log2 x < 16.
Proof.
  intros H. destruct (Z.eq_dec x 0) as [->|]. reflexivity.
  apply Z.log2_lt_pow2; [lia|]. change (2^16) with 65536. lia.
Qed.

(* x ^ 0xffff on a 16-bit word *)
Lemma invert_raw_is16 x : is16 x -> invert_raw x = 65535 - x.
Proof.
  unfold is16. intros H. unfold invert_raw. change 65535 with (Z.ones 16).
  rewrite <- Z.ldiff_ones_l_low by (try apply log2_lt16; lia).
  symmetry. apply Z.sub_nocarry_ldiff. apply Z.ldiff_ones_r_low; [lia|apply log2_lt16; lia].
Qed.

Lemma invert_raw_range x : is16 x -> is16 (invert_raw x).
Proof. intros H. rewrite invert_raw_is16 by exact H. unfold is16 in *. lia. Qed.

(* ^(0xffff << f) on a 16-bit word keeps the low min(f,16) bits *)
Lemma make_sign_mask_ones f : 0 <= f -> make_sign_mask f = Z.ones (Z.min f 16).
Proof.
  intros H. unfold make_sign_mask, shl_u16.
  destruct (f >=? 16) eqn:E.
  - rewrite Z.min_r by lia. reflexivity.
  - rewrite Z.min_l by lia.
    assert (f = 0 \/ f = 1 \/ f = 2 \/ f = 3 \/ f = 4 \/ f = 5 \/ f = 6 \/ f = 7 \/ f = 8 \/ f = 9 \/
            f = 10 \/ f = 11 \/ f = 12 \/ f = 13 \/ f = 14 \/ f = 15) as Hc by lia.
    repeat (destruct Hc as [-> | Hc]; [reflexivity|]). subst. reflexivity.
Qed.

Lemma rem_small_abs a b : - b < a < b -> Z.rem a b = a.
Proof.
  intros H. destruct (Z_lt_le_dec a 0).
  - replace a with (- (- a)) by lia. rewrite Z.rem_opp_l by lia.
    rewrite Z.rem_small by lia. reflexivity.
  - apply Z.rem_small. lia.
Qed.

Lemma divide_u16 q x : (q | 65536) -> (q | x) -> (q | u16 x).
Proof.
  intros HM Hx. unfold u16. rewrite Z.mod_eq by lia.
  apply Z.divide_sub_r; [exact Hx|]. apply Z.divide_mul_l. exact HM.
Qed.

Lemma sint16_unique x t : (x - t) mod 65536 = 0 -> -32768 <= t < 32768 -> sint16 x = t.
Proof. unfold sint16. intros. lia. Qed.

(* ================================================================== *)
(* B. the quantum, and what the constructor builds                     *)
(* ================================================================== *)

(* unwrapping on, inside the property's domain *)
Definition valid_en (p : params) : Prop :=
  p_enable p = true /\ 0 < p_d p /\ p_d p < p_f p /\ p_f p <= 16 /\ p_f p - p_d p <= 14 /\
  0 < p_reset_after p.

Lemma valid_cfg_en p : valid_cfg p = true -> p_enable p = true -> valid_en p.
Proof. unfold valid_cfg, valid_en. intros H E. rewrite E in H. cbv iota in H. split; [exact E | lia]. Qed.

Lemma quantum_facts p : valid_en p ->
  exists h, quantum p = 2 * h /\ 1 <= h <= 8192 /\ quantum p / 2 = h /\ (quantum p | 65536).
Proof.
  intros (_ & Hd & Hdf & Hf & Hk & _). unfold quantum.
  set (k := p_f p - p_d p) in *.
  exists (2 ^ (k - 1)).
  assert (E : 2 ^ k = 2 * 2 ^ (k - 1)).
  { replace k with (Z.succ (k - 1)) at 1 by lia. rewrite Z.pow_succ_r by lia. reflexivity. }
  assert (1 <= 2 ^ (k - 1)) by (pose proof (Z.pow_pos_nonneg 2 (k - 1)); lia).
  assert (2 ^ (k - 1) <= 2 ^ 13) by (apply Z.pow_le_mono_r; lia).
  change (2 ^ 13) with 8192 in *.
  split; [lia|]. split; [lia|]. split.
  - rewrite E. rewrite Z.mul_comm. apply Z.div_mul. lia.
  - exists (2 ^ (16 - k)). change 65536 with (2 ^ 16).
    rewrite <- Z.pow_add_r by lia. f_equal. lia.
Qed.

Lemma home_cases p : valid_en p -> home p = quantum p \/ home p = 65536 - 2 * quantum p.
Proof. intros _. unfold home. destruct (p_pulse_sign p >? 0); auto. Qed.

(* the part of an unwrapper that never changes, as the property's configuration describes it *)
Record Static (p : params) (u : unwrapper) : Prop := {
  st_d : low_bits_to_drop u = p_d p;
  st_mask : sign_mask u = Z.ones (p_f p);
  st_twopi : two_pi u = quantum p;
  st_ro : reset_offset u = home p;
  st_ra : reset_after u = p_reset_after p;
  st_en : enable u = true;
  st_inv : invert_data u = p_invert p;
  st_lims : bias_in_range p = true ->
            upper_step_lim u = cfg_bias p + quantum p / 2 /\
            lower_step_lim u = cfg_bias p - quantum p / 2
}.

(* the part that changes *)
Record Dyn (p : params) (u : unwrapper) : Prop := {
  dy_lv : 0 <= last_val u < quantum p;
  dy_off : 0 <= offset u < 65536;
  dy_div : (quantum p | offset u);
  dy_cnt : 0 <= reset_count u <= p_reset_after p
}.

Lemma new_unwrapper_valid f d b ra ps inv :
  let p := mkP f d true b ra ps inv in
  valid_en p ->
  exists u, new_unwrapper f d true b ra ps inv = Ok u /\ Static p u /\ Dyn p u /\
            last_val u = 0 /\ offset u = home p /\ reset_count u = 0.
Proof.
  intros p V. destruct (quantum_facts p V) as (h & Hq & Hh & Hq2 & Hdiv).
  pose proof V as (_ & Hd & Hdf & Hf & Hk & Hra). cbn [p p_d p_f p_reset_after p_enable] in *.
  assert (Eq : quantum p = 2 ^ (f - d)) by reflexivity.
  assert (Eh : 2 ^ (f - d - 1) = h).
  { assert (2 ^ (f - d) = 2 * 2 ^ (f - d - 1)).
    { replace (f - d) with (Z.succ (f - d - 1)) at 1 by lia. rewrite Z.pow_succ_r by lia. reflexivity. }
    lia. }
  unfold new_unwrapper.
  replace (d =? 0) with false by lia. replace (d >? 0) with true by lia. cbn [andb].
  assert (U1 : u64 (f - d) = f - d) by (unfold u64; apply Z.mod_small; lia).
  assert (U2 : u64 (f - d - 1) = f - d - 1) by (unfold u64; apply Z.mod_small; lia).
  rewrite U1, U2. unfold shl_u16, shl_s16.
  replace (f - d >=? 16) with false by lia. replace (f - d - 1 >=? 16) with false by lia.
  rewrite !Z.mul_1_l. rewrite Eh. rewrite <- Eq.
  rewrite (u16_small (quantum p)) by lia.
  rewrite (s16_small (quantum p)) by lia. rewrite (s16_small h) by lia.
  replace (quantum p =? 0) with false by lia. replace (ra <=? 0) with false by lia.
  assert (Ehome : (if ps >? 0 then quantum p else u16 (-2 * quantum p)) = home p).
  { unfold home. cbn [p_pulse_sign p]. destruct (ps >? 0); [reflexivity|]. unfold u16. lia. }
  rewrite Ehome.
  eexists. split; [reflexivity|].
  assert (Hhome : home p = quantum p \/ home p = 65536 - 2 * quantum p) by (apply home_cases; exact V).
  split; [|split; [|auto]].
  - constructor; cbn [low_bits_to_drop sign_mask two_pi reset_offset reset_after enable invert_data
                       upper_step_lim lower_step_lim p_d p_f p_reset_after p_invert p]; try reflexivity.
    + rewrite make_sign_mask_ones by lia. rewrite Z.min_l by lia. reflexivity.
    + intros Hb. unfold bias_in_range in Hb. rewrite Hq2 in *.
      assert (Es : sar_int b d = cfg_bias p).
      { unfold sar_int, cfg_bias. cbn [p_bias p_d p]. replace (d >=? 64) with false by lia. reflexivity. }
      rewrite Es. rewrite (s16_small (cfg_bias p)) by lia.
      rewrite rem_small_abs by lia.
      rewrite !s16_small by lia. lia.
  - constructor; cbn [last_val offset reset_count p_reset_after p]; try lia.
    destruct Hhome as [-> | ->].
    + apply Z.divide_refl.
    + apply Z.divide_sub_r; [exact Hdiv|]. apply Z.divide_mul_r. apply Z.divide_refl.
Qed.

(* ================================================================== *)
(* C. one sample: the arithmetic core                                  *)
(* ================================================================== *)

Lemma core_arith q h ho B lv ofs cnt ra v up lo :
  q = 2 * h -> 1 <= h <= 8192 -> (q | 65536) -> (ho = q \/ ho = 65536 - 2 * q) ->
  0 <= lv < q -> 0 <= v < q -> 0 <= ofs < 65536 -> (q | ofs) -> 0 <= cnt <= ra ->
  let thisstep := s16 (v - lv) in
  let off1 := if thisstep >? up then u16 (ofs - q)
              else if thisstep <? lo then u16 (ofs + q) else ofs in
  let off2 := if off1 =? ho then off1 else if cnt + 1 >? ra then ho else off1 in
  let cnt2 := if off1 =? ho then 0 else if cnt + 1 >? ra then 0 else cnt + 1 in
  let y := u16 (v + off2) in
  (0 <= off2 < 65536 /\ (q | off2) /\ 0 <= cnt2 <= ra) /\
  (off_of v y = off2 /\ 0 <= y < 65536) /\
  (ra <= cnt -> off2 = ho) /\
  cnt2 = (if off2 =? ho then 0 else cnt + 1) /\
  (cnt < ra -> - h <= B <= h -> up = B + h -> lo = B - h ->
   B - h <= sint16 (y - u16 (lv + ofs)) <= B + h) /\
  (cnt < ra -> lo <= v - lv <= up -> off2 = ofs).
Proof.
  intros Hq Hh Hdiv Hho Hlv Hv Hofs Hdo Hcnt thisstep off1 off2 cnt2 y.
  assert (Ets : thisstep = v - lv) by (unfold thisstep; apply s16_small; lia).
  assert (Hoff1 : 0 <= off1 < 65536 /\ (q | off1)).
  { unfold off1. destruct (thisstep >? up); [|destruct (thisstep <? lo)].
    - split; [apply u16_range|]. apply divide_u16; [exact Hdiv|].
      apply Z.divide_sub_r; [exact Hdo|apply Z.divide_refl].
    - split; [apply u16_range|]. apply divide_u16; [exact Hdiv|].
      apply Z.divide_add_r; [exact Hdo|apply Z.divide_refl].
    - split; [lia|exact Hdo]. }
  assert (Hhod : 0 <= ho < 65536 /\ (q | ho)).
  { destruct Hho as [-> | ->]; split; try lia.
    - apply Z.divide_refl.
    - apply Z.divide_sub_r; [exact Hdiv|]. apply Z.divide_mul_r. apply Z.divide_refl. }
  assert (Hoff2 : 0 <= off2 < 65536 /\ (q | off2)).
  { unfold off2. destruct (off1 =? ho); [exact Hoff1|]. destruct (cnt + 1 >? ra); [exact Hhod|exact Hoff1]. }
  split; [|split; [|split; [|split; [|split]]]].
  - split; [tauto|]. split; [tauto|]. unfold cnt2. destruct (off1 =? ho); [lia|]. destruct (cnt + 1 >? ra) eqn:E; lia.
  - destruct Hoff2 as [R _]. unfold y, off_of, u16. clearbody off2. clear - R. lia.
  - intros Hc. unfold off2. destruct (off1 =? ho) eqn:E; [lia|]. replace (cnt + 1 >? ra) with true by lia. reflexivity.
  - unfold cnt2, off2. destruct (off1 =? ho) eqn:E; [rewrite E; reflexivity|].
    destruct (cnt + 1 >? ra) eqn:E2.
    + rewrite Z.eqb_refl. reflexivity.
    + rewrite E. reflexivity.
  - intros Hc HB Hup Hlo.
    assert (E2 : off2 = off1).
    { unfold off2. destruct (off1 =? ho); [reflexivity|]. replace (cnt + 1 >? ra) with false by lia. reflexivity. }
    unfold y. rewrite E2. unfold off1. rewrite Ets.
    destruct (v - lv >? up) eqn:C1; [|destruct (v - lv <? lo) eqn:C2].
    + rewrite (sint16_unique _ (v - lv - q)); [lia| |lia]. unfold u16. clear - Hofs Hlv Hv Hh Hq. lia.
    + rewrite (sint16_unique _ (v - lv + q)); [lia| |lia]. unfold u16. clear - Hofs Hlv Hv Hh Hq. lia.
    + rewrite (sint16_unique _ (v - lv)); [lia| |lia]. unfold u16. clear - Hofs Hlv Hv Hh Hq. lia.
  - intros Hc Hw.
    assert (E2 : off2 = off1).
    { unfold off2. destruct (off1 =? ho); [reflexivity|]. replace (cnt + 1 >? ra) with false by lia. reflexivity. }
    rewrite E2. unfold off1. rewrite Ets.
    replace (v - lv >? up) with false by lia. replace (v - lv <? lo) with false by lia. reflexivity.
Qed.

(* ================================================================== *)
(* D. one sample of the model satisfies the per-sample rule            *)
(* ================================================================== *)

Lemma masked_drop_spec p u x : valid_en p -> Static p u -> is16 x ->
  masked_drop u x = (x mod 2 ^ (p_f p)) / 2 ^ (p_d p) /\ 0 <= masked_drop u x < quantum p.
Proof.
  intros V S Hx. pose proof V as (_ & Hd & Hdf & Hf & Hk & _).
  assert (E : masked_drop u x = (x mod 2 ^ (p_f p)) / 2 ^ (p_d p)).
  { unfold masked_drop. rewrite (st_mask _ _ S), (st_d _ _ S). rewrite Z.land_ones by lia.
    unfold shr_u16. replace (p_d p >=? 16) with false by lia. reflexivity. }
  split; [exact E|]. rewrite E. unfold quantum.
  assert (0 < 2 ^ (p_d p)) by (apply Z.pow_pos_nonneg; lia).
  assert (0 < 2 ^ (p_f p)) by (apply Z.pow_pos_nonneg; lia).
  pose proof (Z.mod_pos_bound x (2 ^ (p_f p)) ltac:(lia)).
  split.
  - apply Z.div_pos; lia.
  - apply Z.div_lt_upper_bound; [lia|]. rewrite <- Z.pow_add_r by lia.
    replace (p_d p + (p_f p - p_d p)) with (p_f p) by lia. lia.
Qed.

Definition pre_inv (u : unwrapper) (x : Z) : Z := if invert_data u then invert_raw x else x.

Lemma pre_inv_is16 u x : is16 x -> is16 (pre_inv u x).
Proof. intros H. unfold pre_inv. destruct (invert_data u); [apply invert_raw_range|]; exact H. Qed.

Lemma prep_masked_drop p u x : valid_en p -> Static p u -> is16 x ->
  prep p x = masked_drop u (pre_inv u x).
Proof.
  intros V S Hx. pose proof V as (_ & Hd & Hdf & Hf & Hk & _).
  rewrite (proj1 (masked_drop_spec p u _ V S (pre_inv_is16 u x Hx))).
  unfold prep, pre_inv. rewrite (st_inv _ _ S).
  replace (p_d p =? 0) with false by lia. replace (p_d p >=? 16) with false by lia.
  rewrite Z.min_l by lia.
  destruct (p_invert p); [rewrite invert_raw_is16 by exact Hx|]; reflexivity.
Qed.

(* how the checker's (prev, count) state is tied to the unwrapper's state *)
Definition prev_tied (u : unwrapper) (prev : option (Z * Z)) : Prop :=
  forall v0 y0, prev = Some (v0, y0) -> v0 = last_val u /\ y0 = u16 (v0 + offset u).

Lemma static_set_dyn p u lv off c : Static p u -> Static p (set_dyn u lv off c).
Proof. intros [A B C D E F G H]. constructor; assumption. Qed.

Lemma sample_step p u prev x :
  valid_en p -> Static p u -> Dyn p u -> is16 x -> prev_tied u prev ->
  let v := masked_drop u x in
  let u' := fst (unwrap_sample u x) in
  let y := snd (unwrap_sample u x) in
  sample_ok p prev (reset_count u) v y = true /\ Static p u' /\ Dyn p u' /\
  reset_count u' = next_count p (reset_count u) v y /\ prev_tied u' (Some (v, y)) /\
  (reset_count u < p_reset_after p -> bias_in_range p = true ->
   cfg_bias p - quantum p / 2 <= v - last_val u <= cfg_bias p + quantum p / 2 ->
   offset u' = offset u).
Proof.
  intros V S D Hx Hprev v u' y.
  destruct (quantum_facts p V) as (h & Hq & Hh & Hq2 & Hdiv).
  pose proof (home_cases p V) as Hho.
  destruct (masked_drop_spec p u x V S Hx) as [_ Hv]. fold v in Hv.
  destruct D as [Dlv Doff Ddiv Dcnt].
  pose proof (core_arith (quantum p) h (home p) (cfg_bias p) (last_val u) (offset u) (reset_count u)
                (p_reset_after p) v (upper_step_lim u) (lower_step_lim u)
                Hq Hh Hdiv Hho Dlv Hv Doff Ddiv Dcnt) as C.
  cbv zeta in C.
  (* the model's sample in the vocabulary of core_arith *)
  set (thisstep := s16 (v - last_val u)) in *.
  set (off1 := if thisstep >? upper_step_lim u then u16 (offset u - quantum p)
               else if thisstep <? lower_step_lim u then u16 (offset u + quantum p) else offset u) in *.
  set (off2 := if off1 =? home p then off1 else if reset_count u + 1 >? p_reset_after p then home p else off1) in *.
  set (cnt2 := if off1 =? home p then 0 else if reset_count u + 1 >? p_reset_after p then 0 else reset_count u + 1) in *.
  assert (EU : unwrap_sample u x = (set_dyn u v off2 cnt2, u16 (v + off2))).
  { unfold unwrap_sample. fold v. fold thisstep.
    rewrite (st_twopi _ _ S), (st_ro _ _ S), (st_ra _ _ S). fold off1.
    unfold off2, cnt2. destruct (off1 =? home p); [reflexivity|].
    cbv zeta. destruct (reset_count u + 1 >? p_reset_after p); reflexivity. }
  unfold u', y. rewrite EU. cbn [fst snd].
  destruct C as ((R2 & Dv2 & Rc) & (Eoff & Ry) & Hreset & Ecnt & Hwin & Hkeep).
  split; [|split; [|split; [|split; [|split]]]].
  - (* sample_ok *)
    unfold sample_ok. rewrite Eoff.
    assert (Em : off2 mod quantum p = 0) by (apply Z.mod_divide; [lia|exact Dv2]).
    rewrite Em.
    replace (0 <=? u16 (v + off2)) with true by lia. replace (u16 (v + off2) <? 65536) with true by lia.
    cbn [andb]. change (0 =? 0) with true. cbn [andb].
    destruct (reset_count u >=? p_reset_after p) eqn:Ec.
    + rewrite Hreset by lia. apply Z.eqb_refl.
    + destruct prev as [[v0 y0]|]; [|reflexivity].
      destruct (bias_in_range p) eqn:Eb; [|reflexivity].
      destruct (Hprev v0 y0 eq_refl) as [-> ->].
      destruct (st_lims _ _ S Eb) as [Eup Elo]. rewrite Hq2 in *.
      unfold bias_in_range in Eb. rewrite Hq2 in Eb.
      specialize (Hwin ltac:(lia) ltac:(lia) Eup Elo). lia.
  - apply static_set_dyn. exact S.
  - constructor; cbn [set_dyn last_val offset reset_count]; tauto.
  - cbn [set_dyn reset_count]. unfold next_count. rewrite Eoff. exact Ecnt.
  - intros v0 y0 E. injection E as <- <-. cbn [set_dyn last_val offset]. split; reflexivity.
  - intros Hc Eb Hw. cbn [set_dyn offset].
    destruct (st_lims _ _ S Eb) as [Eup Elo]. apply Hkeep; lia.
Qed.

(* ================================================================== *)
(* E. the loop and the whole call                                      *)
(* ================================================================== *)

Definition mdrop (p : params) (x : Z) : Z := (x mod 2 ^ (p_f p)) / 2 ^ (p_d p).

Lemma unwrap_loop_cons u x r :
  unwrap_loop u (x :: r) =
  (fst (unwrap_loop (fst (unwrap_sample u x)) r),
   snd (unwrap_sample u x) :: snd (unwrap_loop (fst (unwrap_sample u x)) r)).
Proof.
  cbn [unwrap_loop]. destruct (unwrap_sample u x) as [u1 y]. cbn [fst snd].
  destruct (unwrap_loop u1 r) as [u2 ys]. reflexivity.
Qed.

Lemma loop_ok p : valid_en p -> forall data u prev,
  Static p u -> Dyn p u -> Forall is16 data -> prev_tied u prev ->
  stream_ok p prev (reset_count u) (map (mdrop p) data) (snd (unwrap_loop u data)) = true /\
  Static p (fst (unwrap_loop u data)) /\ Dyn p (fst (unwrap_loop u data)).
Proof.
  intros V. induction data as [|x r IH]; intros u prev S D Hd Hprev.
  - cbn. auto.
  - inversion Hd as [|? ? Hx Hr]; subst.
    rewrite unwrap_loop_cons. cbn [fst snd map stream_ok].
    destruct (sample_step p u prev x V S D Hx Hprev) as (Hok & S1 & D1 & Ec & Hp1 & _).
    rewrite (proj1 (masked_drop_spec p u x V S Hx)) in Hok, Ec, Hp1. fold (mdrop p x) in Hok, Ec, Hp1.
    rewrite Hok. cbn [andb]. rewrite <- Ec.
    apply IH; assumption.
Qed.

Lemma data1_map u data :
  (if invert_data u then map invert_raw data else data) = map (pre_inv u) data.
Proof.
  unfold pre_inv. destruct (invert_data u); [reflexivity|]. symmetry. apply map_id.
Qed.

Lemma Forall_pre_inv u data : Forall is16 data -> Forall is16 (map (pre_inv u) data).
Proof.
  intros H. apply Forall_forall. intros y Hy. apply in_map_iff in Hy. destruct Hy as (x & <- & Hin).
  apply pre_inv_is16. rewrite Forall_forall in H. auto.
Qed.

Lemma map_prep_mdrop p u data : valid_en p -> Static p u -> Forall is16 data ->
  map (prep p) data = map (mdrop p) (map (pre_inv u) data).
Proof.
  intros V S H. rewrite map_map. apply map_ext_in. intros x Hin.
  rewrite Forall_forall in H. specialize (H x Hin).
  rewrite (prep_masked_drop p u x V S H).
  apply (proj1 (masked_drop_spec p u _ V S (pre_inv_is16 u x H))).
Qed.

Lemma in_place_enabled p u data : valid_en p -> Static p u ->
  unwrap_in_place u data = unwrap_loop u (map (pre_inv u) data).
Proof.
  intros V S. pose proof V as (_ & Hd & _). unfold unwrap_in_place.
  rewrite data1_map. rewrite (st_d _ _ S), (st_en _ _ S).
  replace (p_d p =? 0) with false by lia. reflexivity.
Qed.

(* a fresh unwrapper run on a whole stream passes the per-sample rules *)
Lemma fresh_stream_ok f d b ra ps inv xs :
  let p := mkP f d true b ra ps inv in
  valid_en p -> Forall is16 xs ->
  exists u, new_unwrapper f d true b ra ps inv = Ok u /\
            stream_ok p None 0 (map (prep p) xs) (snd (unwrap_in_place u xs)) = true.
Proof.
  intros p V Hxs.
  destruct (new_unwrapper_valid f d b ra ps inv V) as (u & E & S & D & _ & _ & Ec).
  exists u. split; [exact E|]. fold p in S, D.
  rewrite (in_place_enabled p u xs V S).
  rewrite (map_prep_mdrop p u xs V S Hxs).
  rewrite <- Ec.
  apply (loop_ok p V); try assumption.
  - apply Forall_pre_inv. exact Hxs.
  - intros v0 y0 E0. discriminate.
Qed.

(* ================================================================== *)
(* F. independence of the split into calls                             *)
(* ================================================================== *)

Lemma unwrap_loop_app u a b :
  unwrap_loop u (a ++ b) =
  (fst (unwrap_loop (fst (unwrap_loop u a)) b),
   snd (unwrap_loop u a) ++ snd (unwrap_loop (fst (unwrap_loop u a)) b)).
Proof.
  revert u. induction a as [|x a IH]; intros u.
  - cbn. destruct (unwrap_loop u b); reflexivity.
  - rewrite <- app_comm_cons. rewrite !unwrap_loop_cons. rewrite IH. cbn [fst snd].
    rewrite app_comm_cons. reflexivity.
Qed.

(* fields that no call ever changes *)
Definition same_cfg (u u' : unwrapper) : Prop :=
  fraction_bits u' = fraction_bits u /\ low_bits_to_drop u' = low_bits_to_drop u /\
  upper_step_lim u' = upper_step_lim u /\ lower_step_lim u' = lower_step_lim u /\
  two_pi u' = two_pi u /\ reset_after u' = reset_after u /\ reset_offset u' = reset_offset u /\
  sign_mask u' = sign_mask u /\ enable u' = enable u /\ invert_data u' = invert_data u.

Lemma same_cfg_refl u : same_cfg u u.
Proof. unfold same_cfg. tauto. Qed.

Lemma same_cfg_trans u1 u2 u3 : same_cfg u1 u2 -> same_cfg u2 u3 -> same_cfg u1 u3.
Proof. unfold same_cfg. intros. intuition congruence. Qed.

Lemma same_cfg_sample u x : same_cfg u (fst (unwrap_sample u x)).
Proof.
  unfold unwrap_sample. cbv zeta.
  match goal with |- context [let '(a, b) := ?e in _] => destruct e as [o c] end.
  cbn. unfold same_cfg. tauto.
Qed.

Lemma same_cfg_loop data : forall u, same_cfg u (fst (unwrap_loop u data)).
Proof.
  induction data as [|x r IH]; intros u.
  - apply same_cfg_refl.
  - rewrite unwrap_loop_cons. cbn [fst].
    eapply same_cfg_trans; [apply same_cfg_sample|apply IH].
Qed.

Lemma same_cfg_in_place u data : same_cfg u (fst (unwrap_in_place u data)).
Proof.
  unfold unwrap_in_place.
  destruct (low_bits_to_drop u =? 0); [apply same_cfg_refl|].
  destruct (negb (enable u)).
  - cbn. unfold same_cfg. tauto.
  - apply same_cfg_loop.
Qed.

Lemma pre_inv_ext u u' x : invert_data u' = invert_data u -> pre_inv u' x = pre_inv u x.
Proof. unfold pre_inv. intros ->. reflexivity. Qed.

Lemma in_place_cases u data :
  unwrap_in_place u data =
  if low_bits_to_drop u =? 0 then (u, map (pre_inv u) data)
  else if negb (enable u) then (set_count u 0, map (masked_drop u) (map (pre_inv u) data))
  else unwrap_loop u (map (pre_inv u) data).
Proof. unfold unwrap_in_place. rewrite data1_map. reflexivity. Qed.

(* two consecutive calls give what one call on the concatenation gives *)
Lemma in_place_app u a b :
  snd (unwrap_in_place u (a ++ b)) =
  snd (unwrap_in_place u a) ++ snd (unwrap_in_place (fst (unwrap_in_place u a)) b).
Proof.
  rewrite (in_place_cases u (a ++ b)), (in_place_cases u a).
  destruct (low_bits_to_drop u =? 0) eqn:E0.
  - cbn [fst snd]. rewrite in_place_cases, E0. cbn [snd]. apply map_app.
  - destruct (enable u) eqn:E1; cbn [negb].
    + pose proof (same_cfg_loop (map (pre_inv u) a) u) as (_ & Ed & _ & _ & _ & _ & _ & _ & Ee & Ei).
      rewrite in_place_cases. rewrite Ed, Ee, E0, E1. cbn [negb].
      rewrite map_app, unwrap_loop_app. cbn [snd]. f_equal. f_equal. f_equal.
      apply map_ext. intros x. symmetry. apply pre_inv_ext. exact Ei.
    + cbn [fst snd]. rewrite in_place_cases. cbn [set_count low_bits_to_drop enable].
      rewrite E0, E1. cbn [negb snd]. rewrite !map_app. reflexivity.
Qed.

Lemma unwrap_calls_cons u c rest :
  unwrap_calls u (c :: rest) =
  (fst (unwrap_calls (fst (unwrap_in_place u c)) rest),
   snd (unwrap_in_place u c) :: snd (unwrap_calls (fst (unwrap_in_place u c)) rest)).
Proof.
  cbn [unwrap_calls]. destruct (unwrap_in_place u c) as [u1 o]. cbn [fst snd].
  destruct (unwrap_calls u1 rest) as [u2 os]. reflexivity.
Qed.

Lemma in_place_nil u : snd (unwrap_in_place u []) = [].
Proof.
  rewrite in_place_cases. destruct (low_bits_to_drop u =? 0); [reflexivity|].
  destruct (negb (enable u)); reflexivity.
Qed.

(* any split into calls: the concatenated outputs are the output of one call on the whole stream *)
Lemma calls_concat chunks : forall u,
  concat (snd (unwrap_calls u chunks)) = snd (unwrap_in_place u (concat chunks)).
Proof.
  induction chunks as [|c rest IH]; intros u.
  - cbn [unwrap_calls snd concat]. symmetry. apply in_place_nil.
  - rewrite unwrap_calls_cons. cbn [snd concat]. rewrite IH. symmetry. apply in_place_app.
Qed.

Lemma unwrap_loop_length data : forall u, length (snd (unwrap_loop u data)) = length data.
Proof.
  induction data as [|x r IH]; intros u; [reflexivity|].
  rewrite unwrap_loop_cons. cbn [snd length]. rewrite IH. reflexivity.
Qed.

Lemma in_place_length u data : length (snd (unwrap_in_place u data)) = length data.
Proof.
  rewrite in_place_cases. destruct (low_bits_to_drop u =? 0); [|destruct (negb (enable u))]; cbn [snd].
  - apply map_length.
  - rewrite !map_length. reflexivity.
  - rewrite unwrap_loop_length. apply map_length.
Qed.

Lemma calls_lengths chunks : forall u,
  map zlen (snd (unwrap_calls u chunks)) = map zlen chunks.
Proof.
  induction chunks as [|c rest IH]; intros u; [reflexivity|].
  rewrite unwrap_calls_cons. cbn [snd map]. rewrite IH. f_equal.
  unfold zlen. rewrite in_place_length. reflexivity.
Qed.

(* ================================================================== *)
(* G. unwrapping off, and inversion                                    *)
(* ================================================================== *)

Lemma new_unwrapper_disabled f d b ra ps inv :
  exists u, new_unwrapper f d false b ra ps inv = Ok u /\
            low_bits_to_drop u = d /\ sign_mask u = make_sign_mask f /\ enable u = false /\
            invert_data u = inv.
Proof.
  unfold new_unwrapper. rewrite !andb_false_r. eexists. split; [reflexivity|].
  cbn [low_bits_to_drop sign_mask enable invert_data]. repeat split; reflexivity.
Qed.

Lemma disabled_output p u xs :
  0 <= p_f p -> 0 <= p_d p -> p_enable p = false ->
  low_bits_to_drop u = p_d p -> sign_mask u = make_sign_mask (p_f p) -> enable u = false ->
  invert_data u = p_invert p -> Forall is16 xs ->
  snd (unwrap_in_place u xs) = map (prep p) xs.
Proof.
  intros Hf Hd He Ed Em Ee Ei Hxs.
  rewrite in_place_cases, Ed, Ee. cbn [negb].
  assert (Epre : forall x, is16 x -> pre_inv u x = if p_invert p then 65535 - x else x).
  { intros x Hx. unfold pre_inv. rewrite Ei. destruct (p_invert p); [apply invert_raw_is16; exact Hx|reflexivity]. }
  rewrite Forall_forall in Hxs.
  destruct (p_d p =? 0) eqn:E0; cbn [snd].
  - apply map_ext_in. intros x Hin. unfold prep. rewrite E0. apply Epre. auto.
  - rewrite map_map. apply map_ext_in. intros x Hin. unfold prep. rewrite E0.
    rewrite (Epre x (Hxs x Hin)). unfold masked_drop. rewrite Em, Ed.
    rewrite make_sign_mask_ones by lia. rewrite Z.land_ones by lia.
    unfold shr_u16. destruct (p_d p >=? 16); reflexivity.
Qed.

(* inversion happens first and is the only thing inversion does *)
Lemma in_place_invert u1 u0 xs :
  invert_data u1 = true -> invert_data u0 = false ->
  u1 = {| last_val := last_val u0; offset := offset u0; fraction_bits := fraction_bits u0;
          low_bits_to_drop := low_bits_to_drop u0; upper_step_lim := upper_step_lim u0;
          lower_step_lim := lower_step_lim u0; two_pi := two_pi u0; reset_count := reset_count u0;
          reset_after := reset_after u0; reset_offset := reset_offset u0; sign_mask := sign_mask u0;
          enable := enable u0; invert_data := true |} ->
  snd (unwrap_in_place u1 xs) = snd (unwrap_in_place u0 (map invert_raw xs)).
Proof.
  intros E1 E0 ->. unfold unwrap_in_place. cbn [invert_data low_bits_to_drop enable]. rewrite E0.
  destruct (low_bits_to_drop u0 =? 0); [reflexivity|].
  destruct (negb (enable u0)); [reflexivity|].
  generalize (map invert_raw xs). clear. intros l.
  (* the loop never looks at invert_data *)
  assert (G : forall l u u', 
             last_val u' = last_val u -> offset u' = offset u -> low_bits_to_drop u' = low_bits_to_drop u ->
             upper_step_lim u' = upper_step_lim u -> lower_step_lim u' = lower_step_lim u ->
             two_pi u' = two_pi u -> reset_count u' = reset_count u -> reset_after u' = reset_after u ->
             reset_offset u' = reset_offset u -> sign_mask u' = sign_mask u ->
             snd (unwrap_loop u' l) = snd (unwrap_loop u l)).
  { clear. induction l as [|x r IH]; intros u u' A B C D E F G H I J; [reflexivity|].
    rewrite !unwrap_loop_cons. cbn [snd].
    assert (Es : snd (unwrap_sample u' x) = snd (unwrap_sample u x) /\
                 last_val (fst (unwrap_sample u' x)) = last_val (fst (unwrap_sample u x)) /\
                 offset (fst (unwrap_sample u' x)) = offset (fst (unwrap_sample u x)) /\
                 reset_count (fst (unwrap_sample u' x)) = reset_count (fst (unwrap_sample u x))).
    { unfold unwrap_sample, masked_drop. rewrite A, B, C, D, E, F, G, H, I, J. cbv zeta.
      match goal with |- context [let '(a, b) := ?e in _] => destruct e as [o c] end.
      cbn. auto. }
    destruct Es as (-> & L1 & L2 & L3). f_equal.
    pose proof (same_cfg_sample u x) as (_ & S2 & S3 & S4 & S5 & S6 & S7 & S8 & _ & _).
    pose proof (same_cfg_sample u' x) as (_ & T2 & T3 & T4 & T5 & T6 & T7 & T8 & _ & _).
    apply IH; congruence. }
  apply G; reflexivity.
Qed.

(* ================================================================== *)
(* H. what the checker's acceptance means (no model involved)          *)
(* ================================================================== *)

Lemma away_run_app h a : forall c b, away_run h c (a ++ b) = away_run h (away_run h c a) b.
Proof. induction a as [|o a IH]; intros c b; [reflexivity|]. cbn [app away_run]. apply IH. Qed.

Definition prev_at (prev : option (Z * Z)) (vs ys : list Z) (j : nat) : option (Z * Z) :=
  match j with O => prev | S j' => Some (nth j' vs 0, nth j' ys 0) end.

Lemma stream_ok_nth p : forall vs ys po prev c,
  c = away_run (home p) 0 po -> stream_ok p prev c vs ys = true ->
  length ys = length vs /\
  forall j, (j < length vs)%nat ->
    sample_ok p (prev_at prev vs ys j) (away_run (home p) 0 (po ++ firstn j (offsets vs ys)))
              (nth j vs 0) (nth j ys 0) = true.
Proof.
  induction vs as [|v vs IH]; intros ys po prev c Hc H.
  - destruct ys; [|discriminate]. split; [reflexivity|]. intros j Hj. inversion Hj.
  - destruct ys as [|y ys]; [discriminate|]. cbn [stream_ok] in H.
    apply andb_true_iff in H. destruct H as [H1 H2].
    specialize (IH ys (po ++ [off_of v y]) (Some (v, y)) (next_count p c v y)).
    destruct IH as [IL IJ]; [|exact H2|].
    { rewrite away_run_app. rewrite <- Hc. reflexivity. }
    split; [cbn [length]; lia|].
    intros [|j] Hj.
    + cbn [firstn prev_at nth]. rewrite app_nil_r. rewrite <- Hc. exact H1.
    + cbn [length] in Hj. specialize (IJ j ltac:(lia)).
      unfold offsets. cbn [combine map firstn fst snd nth]. fold (offsets vs ys).
      rewrite <- app_assoc in IJ. cbn [app] in IJ.
      destruct j; exact IJ.
Qed.

Lemma offsets_length vs ys : length ys = length vs -> length (offsets vs ys) = length vs.
Proof. intros H. unfold offsets. rewrite map_length, combine_length. lia. Qed.

Lemma offsets_nth vs ys j : length ys = length vs -> (j < length vs)%nat ->
  nth j (offsets vs ys) 0 = off_of (nth j vs 0) (nth j ys 0).
Proof.
  intros HL Hj. unfold offsets.
  change 0 with ((fun vy : Z * Z => off_of (fst vy) (snd vy)) (0, 0)) at 1.
  rewrite map_nth. rewrite combine_nth by lia. reflexivity.
Qed.

Lemma znth_nat {A} (d : A) l i : 0 <= i -> znth d l i = nth (Z.to_nat i) l d.
Proof. intros H. unfold znth. replace (i <? 0) with false by lia. reflexivity. Qed.

Lemma mod_q_of_off q v y : 0 < q -> (q | 65536) -> off_of v y mod q = 0 -> (y - v) mod q = 0.
Proof.
  intros Hq Hd H. apply Z.mod_divide in H; [|lia]. apply Z.mod_divide; [lia|].
  unfold off_of in H. rewrite Z.mod_eq in H by lia.
  replace (y - v) with ((y - v - 65536 * ((y - v) / 65536)) + 65536 * ((y - v) / 65536)) by lia.
  apply Z.divide_add_r; [exact H|]. apply Z.divide_mul_l. exact Hd.
Qed.

Lemma sint16_cong q x : (q | 65536) -> (q | sint16 x - x).
Proof.
  intros Hd. unfold sint16. rewrite Z.mod_eq by lia.
  replace (x + 32768 - 65536 * ((x + 32768) / 65536) - 32768 - x) with (65536 * (- ((x + 32768) / 65536))) by lia.
  apply Z.divide_mul_l. exact Hd.
Qed.

(* acceptance of a stream by the per-sample rules implies the three indexed statements *)
Lemma stream_ok_sound p xs ys :
  valid_en p ->
  stream_ok p None 0 (map (prep p) xs) ys = true ->
  mod_quantum_ok p xs ys /\ reset_ok p xs ys /\ (bias_in_range p = true -> step_window_ok p xs ys).
Proof.
  intros V H. destruct (quantum_facts p V) as (h & Hq & Hh & Hq2 & Hdiv).
  set (vs := map (prep p) xs) in *.
  destruct (stream_ok_nth p vs ys [] None 0 eq_refl H) as [HL HJ]. cbn [app] in HJ.
  assert (Lvs : length vs = length xs) by (unfold vs; apply map_length).
  assert (Hsample : forall i, 0 <= i < zlen xs ->
            sample_ok p (prev_at None vs ys (Z.to_nat i)) (away_before (home p) (offsets vs ys) i)
                      (znth 0 vs i) (znth 0 ys i) = true).
  { intros i Hi. unfold zlen in Hi. rewrite !znth_nat by lia. unfold away_before, zfirstn.
    apply HJ. lia. }
  split; [|split].
  - unfold mod_quantum_ok. fold vs. split; [unfold zlen; lia|].
    intros i Hi. specialize (Hsample i Hi). unfold sample_ok in Hsample.
    rewrite !andb_true_iff in Hsample. destruct Hsample as [[[A B] C] _].
    split; [|lia]. apply mod_q_of_off; [lia|exact Hdiv|lia].
  - unfold reset_ok. fold vs. intros i Hi Hc. specialize (Hsample i Hi).
    unfold sample_ok in Hsample. rewrite !andb_true_iff in Hsample. destruct Hsample as [_ R].
    replace (away_before (home p) (offsets vs ys) i >=? p_reset_after p) with true in R by lia.
    unfold zlen in Hi. rewrite znth_nat by lia. rewrite offsets_nth by lia.
    rewrite <- !znth_nat by lia. lia.
  - intros Hb. unfold step_window_ok. fold vs. intros i Hi Hc. cbv zeta.
    assert (Hi0 : 0 <= i - 1 < zlen xs) by lia.
    pose proof (Hsample i ltac:(lia)) as S1. pose proof (Hsample (i - 1) Hi0) as S0.
    unfold sample_ok in S1, S0. rewrite !andb_true_iff in S1, S0.
    destruct S1 as [[[_ _] C1] W]. destruct S0 as [[[_ _] C0] _].
    replace (away_before (home p) (offsets vs ys) i >=? p_reset_after p) with false in W by lia.
    replace (Z.to_nat i) with (S (Z.to_nat (i - 1))) in W by lia. cbn [prev_at] in W.
    rewrite Hb in W. rewrite <- !znth_nat in W by lia.
    split; [|lia].
    apply Z.eqb_eq in C1, C0.
    apply mod_q_of_off in C1; [|lia|exact Hdiv]. apply mod_q_of_off in C0; [|lia|exact Hdiv].
    apply Z.mod_divide in C1; [|lia]. apply Z.mod_divide in C0; [|lia].
    apply Z.mod_divide; [lia|].
    pose proof (sint16_cong (quantum p) (znth 0 ys i - znth 0 ys (i - 1)) Hdiv) as C2.
    set (s := sint16 (znth 0 ys i - znth 0 ys (i - 1))) in *.
    replace (s - (znth 0 vs i - znth 0 vs (i - 1)))
      with ((s - (znth 0 ys i - znth 0 ys (i - 1))) + ((znth 0 ys i - znth 0 vs i) - (znth 0 ys (i - 1) - znth 0 vs (i - 1)))) by lia.
    apply Z.divide_add_r; [exact C2|]. apply Z.divide_sub_r; assumption.
Qed.

(* ================================================================== *)
(* I. the program's option sets, and the experiment as a whole         *)
(* ================================================================== *)

(* the constructor applied to a configuration *)
Definition ctor (p : params) : res unwrapper :=
  new_unwrapper (p_f p) (p_d p) (p_enable p) (p_bias p) (p_reset_after p) (p_pulse_sign p) (p_invert p).

Definition built_of (r : res unwrapper) : built * option unwrapper :=
  match r with Ok u => (BOk, Some u) | Panic => (BPanic, None) end.

Lemma options_valid_ok o : options_valid o = opts_ok o.
Proof. unfold options_valid, opts_ok. destruct (o_unwrap o), (o_rescale o); reflexivity. Qed.

Lemma spec_bias_16 o : spec_bias_level 16 o = calc_bias_level o.
Proof.
  unfold spec_bias_level, calc_bias_level. destruct (o_bias o); [|reflexivity].
  destruct (o_pulse_sign o <? 0); reflexivity.
Qed.

Lemma spec_bias_14 o : spec_bias_level 14 o = sar_int (calc_bias_level o) (16 - roach_fraction_bits).
Proof.
  unfold spec_bias_level, calc_bias_level. destruct (o_bias o); [|reflexivity].
  destruct (o_pulse_sign o <? 0); reflexivity.
Qed.

Lemma existsb_ext_all {A} (f g : A -> bool) l : (forall x, f x = g x) -> existsb f l = existsb g l.
Proof. intros H. induction l as [|a l IH]; [reflexivity|]. cbn. rewrite H, IH. reflexivity. Qed.

(* The program hands the constructor exactly the configuration that the option set means. *)
Lemma build_params k p : params_of k = Some p -> build k = built_of (ctor p).
Proof.
  destruct k as [f d en b ra ps inv | o fc i | o]; cbn [params_of build].
  - intros E. injection E as <-. reflexivity.
  - rewrite options_valid_ok. destruct (opts_ok o); [|discriminate]. intros E. injection E as <-.
    unfold ctor, abaco_params, abaco_unwrapper. cbn [p_f p_d p_enable p_bias p_reset_after p_pulse_sign p_invert].
    rewrite spec_bias_16.
    replace (existsb (Z.eqb (fc + i)) (o_invert_chan o))
      with (existsb (fun ic => i + fc =? ic) (o_invert_chan o))
      by (apply existsb_ext_all; intros x; rewrite (Z.add_comm i fc); reflexivity).
    unfold abaco_fraction_bits, abaco_bits_to_drop. reflexivity.
  - rewrite options_valid_ok. destruct (opts_ok o); [|discriminate]. intros E. injection E as <-.
    unfold ctor, roach_params, roach_unwrapper. cbn [p_f p_d p_enable p_bias p_reset_after p_pulse_sign p_invert].
    rewrite spec_bias_14. reflexivity.
Qed.

(* every option set the program accepts has its bias within half a quantum *)
Lemma abaco_bias_in_range o fc i : bias_in_range (abaco_params o fc i) = true.
Proof.
  unfold bias_in_range, cfg_bias, quantum, abaco_params, spec_bias_level.
  cbn [p_f p_d p_bias].
  destruct (o_rescale o), (o_bias o), (o_pulse_sign o <? 0); reflexivity.
Qed.

Lemma roach_bias_in_range o : bias_in_range (roach_params o) = true.
Proof.
  unfold bias_in_range, cfg_bias, quantum, roach_params, spec_bias_level.
  cbn [p_f p_d p_bias].
  destruct (o_bias o), (o_pulse_sign o <? 0); reflexivity.
Qed.

Lemma program_bias_in_range k p :
  match k with KApi _ _ _ _ _ _ _ => False | _ => True end ->
  params_of k = Some p -> bias_in_range p = true.
Proof.
  destruct k as [| o fc i | o]; cbn [params_of]; intros HK; [contradiction| |];
    destruct (opts_ok o); try discriminate; intros E; injection E as <-.
  - apply abaco_bias_in_range.
  - apply roach_bias_in_range.
Qed.

Lemma Forall_concat_is16 chunks : Forall (Forall is16) chunks -> Forall is16 (concat chunks).
Proof.
  induction 1 as [|c rest Hc Hr IH]; [constructor|]. cbn [concat]. apply Forall_app. auto.
Qed.

Lemma list_eqb_refl_Z l : list_eqb Z.eqb l l = true.
Proof. apply (list_eqb_eq Z.eqb); [intros; apply Z.eqb_eq|reflexivity]. Qed.

(* ---------- the model passes the checker, for every experiment ---------- *)

Theorem model_satisfies_checker k chunks :
  Forall (Forall is16) chunks -> C12_check k chunks (observe k chunks) = true.
Proof.
  intros H16. unfold C12_check.
  destruct (params_of k) as [p|] eqn:EP; [|reflexivity].
  destruct (valid_cfg p) eqn:EV; [|reflexivity].
  unfold observe. rewrite (build_params k p EP).
  pose proof (Forall_concat_is16 chunks H16) as Hxs.
  destruct (p_enable p) eqn:EE.
  - pose proof (valid_cfg_en p EV EE) as V.
    destruct p as [f d en b ra ps inv]. cbn [p_enable] in EE. subst en.
    destruct (fresh_stream_ok f d b ra ps inv (concat chunks) V Hxs) as (u & EU & HS).
    unfold ctor. cbn [p_f p_d p_enable p_bias p_reset_after p_pulse_sign p_invert].
    rewrite EU. cbn [built_of o_built o_single o_split].
    rewrite calls_concat. rewrite (proj2 (zlist_eqb_eq _ _) eq_refl).
    rewrite calls_lengths, list_eqb_refl_Z. cbn [andb].
    destruct V as (_ & Hd & _). cbn [p_d] in Hd. cbn [p_enable p_d]. replace (0 <? d) with true by lia. exact HS.
  - destruct p as [f d en b ra ps inv]. cbn [p_enable] in EE. subst en.
    destruct (new_unwrapper_disabled f d b ra ps inv) as (u & EU & Ed & Em & Ee & Ei).
    unfold ctor. cbn [p_f p_d p_enable p_bias p_reset_after p_pulse_sign p_invert].
    rewrite EU. cbn [built_of o_built o_single o_split].
    rewrite calls_concat. rewrite (proj2 (zlist_eqb_eq _ _) eq_refl).
    rewrite calls_lengths, list_eqb_refl_Z. cbn [andb].
    apply zlist_eqb_eq. unfold valid_cfg in EV. cbn [p_f p_d p_enable] in EV.
    apply (disabled_output (mkP f d false b ra ps inv)); cbn [p_f p_d p_enable p_invert]; try assumption; try reflexivity; lia.
Qed.

(* ---------- what acceptance by the checker means ---------- *)

Theorem checker_accepts_means k chunks o p :
  params_of k = Some p -> valid_cfg p = true -> C12_check k chunks o = true ->
  o_built o = BOk /\ split_ok chunks o /\
  (if p_enable p
   then mod_quantum_ok p (concat chunks) (o_single o) /\ reset_ok p (concat chunks) (o_single o) /\
        (bias_in_range p = true -> step_window_ok p (concat chunks) (o_single o))
   else o_single o = map (prep p) (concat chunks)).
Proof.
  intros EP EV H. unfold C12_check in H. rewrite EP, EV in H.
  destruct (o_built o); try discriminate. split; [reflexivity|].
  rewrite !andb_true_iff in H. destruct H as [[H1 H2] H3].
  apply zlist_eqb_eq in H1. apply (list_eqb_eq Z.eqb) in H2; [|intros; apply Z.eqb_eq].
  split; [split; assumption|].
  destruct (p_enable p) eqn:EE.
  - pose proof (valid_cfg_en p EV EE) as V. pose proof V as (_ & Hd & _).
    replace (0 <? p_d p) with true in H3 by lia. cbn [andb] in H3.
    apply stream_ok_sound; assumption.
  - cbn [andb] in H3. apply zlist_eqb_eq. exact H3.
Qed.

(* ---------- the headline statements on the model itself ---------- *)

Lemma fresh_unwrap_props f d b ra ps inv xs :
  let p := mkP f d true b ra ps inv in
  0 < d < f -> f <= 16 -> f - d <= 14 -> 0 < ra -> Forall is16 xs ->
  exists u, new_unwrapper f d true b ra ps inv = Ok u /\
    mod_quantum_ok p xs (snd (unwrap_in_place u xs)) /\
    reset_ok p xs (snd (unwrap_in_place u xs)) /\
    (bias_in_range p = true -> step_window_ok p xs (snd (unwrap_in_place u xs))).
Proof.
  intros p Hd Hf Hk Hra Hxs.
  assert (V : valid_en p) by (unfold valid_en; cbn; repeat split; lia).
  destruct (fresh_stream_ok f d b ra ps inv xs V Hxs) as (u & EU & HS).
  exists u. split; [exact EU|]. apply stream_ok_sound; assumption.
Qed.

Lemma unwrap_mod_quantum_proof f d b ra ps inv xs :
  0 < d < f -> f <= 16 -> f - d <= 14 -> 0 < ra -> Forall is16 xs ->
  exists u, new_unwrapper f d true b ra ps inv = Ok u /\
    mod_quantum_ok (mkP f d true b ra ps inv) xs (snd (unwrap_in_place u xs)).
Proof.
  intros. destruct (fresh_unwrap_props f d b ra ps inv xs) as (u & E & A & B & C); try assumption.
  exists u. auto.
Qed.

Lemma unwrap_reset_proof f d b ra ps inv xs :
  0 < d < f -> f <= 16 -> f - d <= 14 -> 0 < ra -> Forall is16 xs ->
  exists u, new_unwrapper f d true b ra ps inv = Ok u /\
    reset_ok (mkP f d true b ra ps inv) xs (snd (unwrap_in_place u xs)).
Proof.
  intros. destruct (fresh_unwrap_props f d b ra ps inv xs) as (u & E & A & B & C); try assumption.
  exists u. auto.
Qed.

Lemma unwrap_step_window_proof f d b ra ps inv xs :
  0 < d < f -> f <= 16 -> f - d <= 14 -> 0 < ra -> Forall is16 xs ->
  - (2 ^ (f - d) / 2) <= b / 2 ^ d <= 2 ^ (f - d) / 2 ->
  exists u, new_unwrapper f d true b ra ps inv = Ok u /\
    step_window_ok (mkP f d true b ra ps inv) xs (snd (unwrap_in_place u xs)).
Proof.
  intros Hd Hf Hk Hra Hxs Hb.
  destruct (fresh_unwrap_props f d b ra ps inv xs) as (u & E & A & B & C); try assumption.
  exists u. split; [exact E|]. apply C.
  unfold bias_in_range, cfg_bias, quantum. cbn [p_f p_d p_bias]. lia.
Qed.

(* the step window pins the output step down: a slow input step is reproduced exactly *)
Lemma window_slow_exact p xs ys :
  valid_en p -> step_window_ok p xs ys ->
  let vs := map (prep p) xs in
  forall i, 1 <= i < zlen xs ->
    away_before (home p) (offsets vs ys) i < p_reset_after p ->
    cfg_bias p - quantum p / 2 < znth 0 vs i - znth 0 vs (i - 1) < cfg_bias p + quantum p / 2 ->
    sint16 (znth 0 ys i - znth 0 ys (i - 1)) = znth 0 vs i - znth 0 vs (i - 1).
Proof.
  intros V H vs i Hi Hc Hw.
  destruct (quantum_facts p V) as (h & Hq & Hh & Hq2 & Hdiv).
  destruct (H i Hi Hc) as [C W]. fold vs in C, W. cbv zeta in C, W.
  set (s := sint16 (znth 0 ys i - znth 0 ys (i - 1))) in *.
  set (dv := znth 0 vs i - znth 0 vs (i - 1)) in *.
  apply Z.mod_divide in C; [|lia]. destruct C as [m Hm].
  rewrite Hq2 in *. rewrite Hq in Hm.
  assert (m = 0) by nia. lia.
Qed.

Lemma split_two_calls u a b :
  snd (unwrap_in_place u (a ++ b)) =
  snd (unwrap_in_place u a) ++ snd (unwrap_in_place (fst (unwrap_in_place u a)) b).
Proof. apply in_place_app. Qed.

Lemma disabled_passthrough_proof f d b ra ps inv chunks :
  0 <= f -> 0 <= d -> Forall (Forall is16) chunks ->
  exists u, new_unwrapper f d false b ra ps inv = Ok u /\
    concat (snd (unwrap_calls u chunks)) = map (prep (mkP f d false b ra ps inv)) (concat chunks).
Proof.
  intros Hf Hd H16.
  destruct (new_unwrapper_disabled f d b ra ps inv) as (u & EU & Ed & Em & Ee & Ei).
  exists u. split; [exact EU|]. rewrite calls_concat.
  apply (disabled_output (mkP f d false b ra ps inv)); cbn [p_f p_d p_enable p_invert]; try assumption; try reflexivity.
  apply Forall_concat_is16. exact H16.
Qed.

(* inversion = complementing the raw words before everything else; nothing else depends on it *)
Lemma inversion_proof f d en b ra ps xs u1 u0 :
  Forall is16 xs ->
  new_unwrapper f d en b ra ps true = Ok u1 -> new_unwrapper f d en b ra ps false = Ok u0 ->
  snd (unwrap_in_place u1 xs) = snd (unwrap_in_place u0 (map (fun x => 65535 - x) xs)).
Proof.
  intros Hxs E1 E0.
  replace (map (fun x => 65535 - x) xs) with (map invert_raw xs).
  2:{ apply map_ext_in. intros x Hin. apply invert_raw_is16. rewrite Forall_forall in Hxs. auto. }
  apply in_place_invert.
  - unfold new_unwrapper in E1. repeat match type of E1 with (if ?c then _ else _) = _ => destruct c; try discriminate end; injection E1 as <-; reflexivity.
  - unfold new_unwrapper in E0. repeat match type of E0 with (if ?c then _ else _) = _ => destruct c; try discriminate end; injection E0 as <-; reflexivity.
  - unfold new_unwrapper in E1, E0.
    repeat match type of E1 with (if ?c then _ else _) = _ => destruct c; try discriminate end;
    injection E1 as <-; injection E0 as <-; reflexivity.
Qed.

(* ---------- the program's own option sets: the whole chain ---------- *)

Definition program_kind (k : kind) : Prop :=
  match k with KApi _ _ _ _ _ _ _ => False | _ => True end.

Lemma program_unwrap_proof k p chunks :
  program_kind k -> params_of k = Some p -> valid_cfg p = true -> p_enable p = true ->
  Forall (Forall is16) chunks ->
  let o := observe k chunks in
  o_built o = BOk /\ split_ok chunks o /\
  mod_quantum_ok p (concat chunks) (o_single o) /\
  reset_ok p (concat chunks) (o_single o) /\
  step_window_ok p (concat chunks) (o_single o).
Proof.
  intros HK EP EV EE H16 o.
  pose proof (model_satisfies_checker k chunks H16) as HC.
  destruct (checker_accepts_means k chunks o p EP EV HC) as (HB & HS & HR).
  rewrite EE in HR. destruct HR as (A & B & C).
  split; [exact HB|]. split; [exact HS|]. split; [exact A|]. split; [exact B|].
  apply C. apply (program_bias_in_range k p HK EP).
Qed.

(* ---------- the ROACH constructor call before the fix ---------- *)

Definition observe_with (r : res unwrapper) (chunks : list (list Z)) : obs :=
  match built_of r with
  | (b, Some u) => {| o_built := b; o_single := snd (unwrap_in_place u (concat chunks));
                      o_split := snd (unwrap_calls u chunks) |}
  | (b, None) => {| o_built := b; o_single := []; o_split := [] |}
  end.

(* ROACH option set with Bias on, positive pulses; a constant raw input *)
Definition old_witness_opts : options := mkOpt true true true 20000 1 [].
Definition old_witness_chunks : list (list Z) := [[0; 0]; [0; 0]].
Definition old_witness_obs : obs := observe_with (roach_unwrapper_old old_witness_opts) old_witness_chunks.

Lemma step_window_refuted_before_fix :
  (* the unscaled bias level gave step limits 82 / 4178: a step of 0 is "below the lower limit" *)
  (exists u, roach_unwrapper_old old_witness_opts = Ok u /\ lower_step_lim u = 82 /\ upper_step_lim u = 4178) /\
  (* so a constant input climbed one quantum per sample *)
  o_single old_witness_obs = [8192; 12288; 16384; 20480] /\
  C12_check (KRoach old_witness_opts) old_witness_chunks old_witness_obs = false /\
  ~ step_window_ok (roach_params old_witness_opts) (concat old_witness_chunks) (o_single old_witness_obs).
Proof.
  split; [eexists; split; [vm_compute; reflexivity|split; reflexivity]|].
  split; [vm_compute; reflexivity|]. split; [vm_compute; reflexivity|].
  intros H.
  assert (P1 : 1 <= 1 < zlen (concat old_witness_chunks)) by (vm_compute; split; [discriminate|reflexivity]).
  assert (P2 : away_before (home (roach_params old_witness_opts))
                 (offsets (map (prep (roach_params old_witness_opts)) (concat old_witness_chunks))
                          (o_single old_witness_obs)) 1 < p_reset_after (roach_params old_witness_opts))
    by (vm_compute; reflexivity).
  destruct (H 1 P1 P2) as [_ [_ W]]. vm_compute in W. apply W. reflexivity.
Qed.

(* after the fix the same input passes, and is reproduced without jumps *)
Lemma witness_passes_after_fix :
  o_single (observe (KRoach old_witness_opts) old_witness_chunks) = [4096; 4096; 4096; 4096] /\
  C12_check (KRoach old_witness_opts) old_witness_chunks (observe (KRoach old_witness_opts) old_witness_chunks) = true.
Proof. split; vm_compute; reflexivity. Qed.

(* ================================================================== *)
(* J. the hypotheses of the theorems are satisfiable (non-trivial instances) *)
(* ================================================================== *)

(* Abaco with bias, positive pulses: 16 fraction bits, 4 dropped, bias 24904, reset after 3 *)
Definition ex_opts : options := mkOpt true true true 3 1 [].
Definition ex_params : params := abaco_params ex_opts 0 0.
(* raw stream (output units 0, 3700, 3700, 3705, 3710, 3715, 100, 110, times 16): the step to 3700 exceeds the
   upper limit 3604 (offset leaves home), three samples away from home, the automatic reset at sample 4,
   then a wrap 3715 -> 100 removed at sample 6 *)
Definition ex_xs : list Z := [0; 59200; 59200; 59280; 59360; 59440; 1600; 1760].
Definition ex_chunks : list (list Z) := [[0; 59200]; []; [59200; 59280; 59360]; [59440; 1600; 1760]].

Example ex_domain :
  params_of (KAbaco ex_opts 0 0) = Some ex_params /\ valid_cfg ex_params = true /\
  p_enable ex_params = true /\ bias_in_range ex_params = true /\
  Forall (Forall is16) ex_chunks /\ concat ex_chunks = ex_xs /\ program_kind (KAbaco ex_opts 0 0).
Proof.
  split; [reflexivity|]. split; [reflexivity|]. split; [reflexivity|]. split; [reflexivity|].
  split; [|split; [reflexivity|exact I]].
  repeat constructor; unfold is16; lia.
Qed.

(* the run on that stream, and the premise "no reset due" (away_before < 3) of the window clause, which
   holds at samples 1, 2, 3, 5, 6, 7 and fails exactly at sample 4 where the reset fires *)
Example ex_run :
  let o := observe (KAbaco ex_opts 0 0) ex_chunks in
  o_single o = [4096; 3700; 3700; 3705; 7806; 7811; 8292; 8302] /\
  map (away_before (home ex_params) (offsets (map (prep ex_params) ex_xs) (o_single o))) [1; 2; 3; 4; 5; 6; 7]
    = [0; 1; 2; 3; 0; 0; 1].
Proof. split; vm_compute; reflexivity. Qed.

Example ex_numeric_domain : 0 < 4 < 16 /\ 16 <= 16 /\ 16 - 4 <= 14 /\ 0 < 3 /\
  - (2 ^ (16 - 4) / 2) <= 24904 / 2 ^ 4 <= 2 ^ (16 - 4) / 2.
Proof. vm_compute. intuition discriminate. Qed.

Example ex_constructors_exist :
  (exists u, new_unwrapper 16 4 true 24904 3 1 true = Ok u) /\
  (exists u, new_unwrapper 16 4 true 24904 3 1 false = Ok u).
Proof. split; eexists; vm_compute; reflexivity. Qed.

(* ================================================================== *)
(* K. when the constructor refuses                                     *)
(* ================================================================== *)

(* inside the property's geometry the constructor refuses exactly: unwrapping on with no bits dropped, or
   unwrapping on with a non-positive reset interval *)
Lemma new_unwrapper_nonpositive_reset f d b ra ps inv :
  0 < d < f -> f <= 16 -> f - d <= 14 -> ra <= 0 -> new_unwrapper f d true b ra ps inv = Panic.
Proof.
  intros Hd Hf Hk Hra.
  assert (V : valid_en (mkP f d true b 1 ps inv)) by (unfold valid_en; cbn; repeat split; lia).
  destruct (quantum_facts _ V) as (h & Hq & Hh & Hq2 & Hdiv).
  unfold quantum in *. cbn [p_f p_d] in *.
  unfold new_unwrapper.
  replace (d =? 0) with false by lia. replace (d >? 0) with true by lia. cbn [andb].
  assert (U1 : u64 (f - d) = f - d) by (unfold u64; apply Z.mod_small; lia).
  rewrite U1. unfold shl_u16. replace (f - d >=? 16) with false by lia.
  rewrite Z.mul_1_l. rewrite (u16_small (2 ^ (f - d))) by lia. rewrite (s16_small (2 ^ (f - d))) by lia.
  replace (2 ^ (f - d) =? 0) with false by lia. replace (ra <=? 0) with true by lia. reflexivity.
Qed.

Lemma constructor_refuses_exactly_proof f d en b ra ps inv :
  0 <= f -> 0 <= d -> (d = 0 \/ (0 < d < f /\ f <= 16 /\ f - d <= 14)) ->
  (new_unwrapper f d en b ra ps inv = Panic <-> en = true /\ (d = 0 \/ ra <= 0)).
Proof.
  intros Hf Hd Hdom. destruct en.
  - destruct Hdom as [-> | (H1 & H2 & H3)].
    + split; [intros _; auto|]. intros _. reflexivity.
    + destruct (Z_le_gt_dec ra 0) as [Hra | Hra].
      * split; [intros _; auto|]. intros _. apply new_unwrapper_nonpositive_reset; assumption.
      * assert (V : valid_en (mkP f d true b ra ps inv)) by (unfold valid_en; cbn; repeat split; lia).
        destruct (new_unwrapper_valid f d b ra ps inv V) as (u & E & _).
        rewrite E. split; [discriminate|]. intros [_ [H | H]]; lia.
  - destruct (new_unwrapper_disabled f d b ra ps inv) as (u & E & _). rewrite E.
    split; [discriminate|]. intros [H _]. discriminate.
Qed.
