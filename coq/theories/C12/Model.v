(* C12 — mirror model of /repo/phase_unwrap.go and of the two places that construct unwrappers
   (abaco.go: calcBiasLevel / NewAbacoGroup;  roach.go: samplePacket).  Definitions only, no proofs.
   Pure Z; every fixed-width conversion of the Go code is written out:
     uint16(x) = u16 x,  int16(x) = s16 x,  uint (64 bit) subtraction = u64,
     shifts by a Go uint follow Go's rule "count >= width gives 0 (or the sign for a signed >>)".
   Premises (not modelled): resetCount never reaches 2^63 (it is at most resetAfter + 1),
   the int arguments of the constructor are 64-bit values. *)
From Dastard Require Import Common.ZX.

Definition u16 (x : Z) : Z := x mod 65536.
Definition s16 (x : Z) : Z := (x + 32768) mod 65536 - 32768.
Definition u64 (x : Z) : Z := x mod 18446744073709551616.

(* uint16(x) << n,  int16(x) << n,  uint16(x) >> n,  int(x) >> n      (n : Go uint, so n >= 0) *)
Definition shl_u16 (x n : Z) : Z := if n >=? 16 then 0 else u16 (x * 2 ^ n).
Definition shl_s16 (x n : Z) : Z := if n >=? 16 then 0 else s16 (x * 2 ^ n).
Definition shr_u16 (x n : Z) : Z := if n >=? 16 then 0 else x / 2 ^ n.
Definition sar_int (x n : Z) : Z := if n >=? 64 then (if x <? 0 then -1 else 0) else x / 2 ^ n.

(* type PhaseUnwrapper struct *)
Record unwrapper := mkU {
  last_val : Z;            (* uint16 *)
  offset : Z;              (* uint16 *)
  fraction_bits : Z;       (* uint *)
  low_bits_to_drop : Z;    (* uint *)
  upper_step_lim : Z;      (* int16 *)
  lower_step_lim : Z;      (* int16 *)
  two_pi : Z;              (* uint16 *)
  reset_count : Z;         (* int *)
  reset_after : Z;         (* int *)
  reset_offset : Z;        (* uint16 *)
  sign_mask : Z;           (* RawType = uint16 *)
  enable : bool;
  invert_data : bool
}.

(* u.signMask = ^(RawType(0xffff) << fractionBits) *)
Definition make_sign_mask (f : Z) : Z := Z.lxor 65535 (shl_u16 65535 f).

(* NewPhaseUnwrapper.  Panics: enabled with lowBitsToDrop = 0; integer division by zero when
   int16(twoPi) = 0 (fractionBits - lowBitsToDrop >= 16 after the uint subtraction); enabled with
   resetAfter <= 0. *)
Definition new_unwrapper (f d : Z) (en : bool) (bias_level reset_aft pulse_sign : Z) (inv : bool)
  : res unwrapper :=
  if (d =? 0) && en then Panic
  else
    let mask := make_sign_mask f in
    if (d >? 0) && en then
      let twopi := shl_u16 1 (u64 (f - d)) in
      let onepi := shl_s16 1 (u64 (f - d - 1)) in
      let twopi16 := s16 twopi in
      if twopi16 =? 0 then Panic
      else
        let bias := Z.rem (s16 (sar_int bias_level d)) twopi16 in
        let upper := s16 (bias + onepi) in
        let lower := s16 (bias - onepi) in
        let roff := if pulse_sign >? 0 then twopi else u16 (-2 * twopi) in
        if reset_aft <=? 0 then Panic
        else Ok {| last_val := 0; offset := roff; fraction_bits := f; low_bits_to_drop := d;
                   upper_step_lim := upper; lower_step_lim := lower; two_pi := twopi;
                   reset_count := 0; reset_after := reset_aft; reset_offset := roff;
                   sign_mask := mask; enable := en; invert_data := inv |}
    else Ok {| last_val := 0; offset := 0; fraction_bits := f; low_bits_to_drop := d;
               upper_step_lim := 0; lower_step_lim := 0; two_pi := 0;
               reset_count := 0; reset_after := 0; reset_offset := 0;
               sign_mask := mask; enable := en; invert_data := inv |}.

Definition set_count (u : unwrapper) (c : Z) : unwrapper :=
  {| last_val := last_val u; offset := offset u; fraction_bits := fraction_bits u;
     low_bits_to_drop := low_bits_to_drop u; upper_step_lim := upper_step_lim u;
     lower_step_lim := lower_step_lim u; two_pi := two_pi u; reset_count := c;
     reset_after := reset_after u; reset_offset := reset_offset u; sign_mask := sign_mask u;
     enable := enable u; invert_data := invert_data u |}.

Definition set_dyn (u : unwrapper) (lv off c : Z) : unwrapper :=
  {| last_val := lv; offset := off; fraction_bits := fraction_bits u;
     low_bits_to_drop := low_bits_to_drop u; upper_step_lim := upper_step_lim u;
     lower_step_lim := lower_step_lim u; two_pi := two_pi u; reset_count := c;
     reset_after := reset_after u; reset_offset := reset_offset u; sign_mask := sign_mask u;
     enable := enable u; invert_data := invert_data u |}.

(* rawVal ^ 0xffff *)
Definition invert_raw (x : Z) : Z := Z.lxor x 65535.

(* uint16(rawVal & u.signMask) >> drop *)
Definition masked_drop (u : unwrapper) (x : Z) : Z :=
  shr_u16 (Z.land x (sign_mask u)) (low_bits_to_drop u).

(* one iteration of the "unwrapping is enabled" loop of UnwrapInPlace *)
Definition unwrap_sample (u : unwrapper) (raw : Z) : unwrapper * Z :=
  let v := masked_drop u raw in
  let thisstep := s16 (v - last_val u) in
  let off1 := if thisstep >? upper_step_lim u then u16 (offset u - two_pi u)
              else if thisstep <? lower_step_lim u then u16 (offset u + two_pi u)
              else offset u in
  let '(off2, cnt2) :=
    if off1 =? reset_offset u then (off1, 0)
    else let c := reset_count u + 1 in
         if c >? reset_after u then (reset_offset u, 0) else (off1, c) in
  (set_dyn u v off2 cnt2, u16 (v + off2)).

Fixpoint unwrap_loop (u : unwrapper) (data : list Z) : unwrapper * list Z :=
  match data with
  | [] => (u, [])
  | x :: rest => let (u1, y) := unwrap_sample u x in
                 let (u2, ys) := unwrap_loop u1 rest in (u2, y :: ys)
  end.

(* UnwrapInPlace: returns the new state and the new contents of *data *)
Definition unwrap_in_place (u : unwrapper) (data : list Z) : unwrapper * list Z :=
  let data1 := if invert_data u then map invert_raw data else data in
  if low_bits_to_drop u =? 0 then (u, data1)
  else if negb (enable u) then (set_count u 0, map (masked_drop u) data1)
  else unwrap_loop u data1.

(* a sequence of calls on consecutive pieces of the stream *)
Fixpoint unwrap_calls (u : unwrapper) (chunks : list (list Z)) : unwrapper * list (list Z) :=
  match chunks with
  | [] => (u, [])
  | c :: rest => let (u1, o) := unwrap_in_place u c in
                 let (u2, os) := unwrap_calls u1 rest in (u2, o :: os)
  end.

(* ---------- how the program builds unwrappers from an option set ---------- *)

(* type AbacoUnwrapOptions struct *)
Record options := mkOpt {
  o_rescale : bool;        (* RescaleRaw *)
  o_unwrap : bool;         (* Unwrap *)
  o_bias : bool;           (* Bias *)
  o_reset_after : Z;       (* ResetAfter *)
  o_pulse_sign : Z;        (* PulseSign *)
  o_invert_chan : list Z   (* InvertChan *)
}.

(* AbacoUnwrapOptions.isvalid: error iff Unwrap && !RescaleRaw *)
Definition options_valid (o : options) : bool := negb (o_unwrap o && negb (o_rescale o)).

(* AbacoUnwrapOptions.calcBiasLevel: int(math.Round(0.38 * 65536)) = 24904 *)
Definition calc_bias_level (o : options) : Z :=
  if o_bias o then (if o_pulse_sign o <? 0 then -24904 else 24904) else 0.

Definition abaco_fraction_bits := 16.
Definition abaco_bits_to_drop := 4.
Definition roach_fraction_bits := 14.
Definition roach_bits_to_drop := 2.

(* NewAbacoGroup, channel i of the group that starts at firstchan *)
Definition abaco_unwrapper (o : options) (firstchan i : Z) : res unwrapper :=
  let bits_to_drop := if o_rescale o then abaco_bits_to_drop else 0 in
  let channum := i + firstchan in
  let invert := existsb (fun ic => channum =? ic) (o_invert_chan o) in
  new_unwrapper abaco_fraction_bits bits_to_drop (o_unwrap o) (calc_bias_level o)
                (o_reset_after o) (o_pulse_sign o) invert.

(* RoachDevice.samplePacket (after the fix): the bias level, which calcBiasLevel expresses with
   2^16 per phi0, is rescaled to the ROACH's 2^14 per phi0; unwrapping always enabled, resetAfter 20000,
   no inversion *)
Definition roach_unwrapper (o : options) : res unwrapper :=
  let biaslevel := sar_int (calc_bias_level o) (16 - roach_fraction_bits) in
  new_unwrapper roach_fraction_bits roach_bits_to_drop true biaslevel 20000 (o_pulse_sign o) false.

(* the code as it was before the fix: used only by the [_refuted_pre_fix] theorem *)
Definition roach_unwrapper_old (o : options) : res unwrapper :=
  new_unwrapper roach_fraction_bits roach_bits_to_drop true (calc_bias_level o) 20000
                (o_pulse_sign o) false.

(* ---------- one experiment = build an unwrapper, run a stream once whole and once in pieces ---------- *)

Inductive kind :=
| KApi (f d : Z) (en : bool) (bias_level reset_aft pulse_sign : Z) (inv : bool)   (* NewPhaseUnwrapper directly *)
| KAbaco (o : options) (firstchan i : Z)                                           (* Configure + NewAbacoGroup *)
| KRoach (o : options).                                                            (* Configure + samplePacket *)

Inductive built := BRejected | BPanic | BOk.

Definition build (k : kind) : built * option unwrapper :=
  let of_res (r : res unwrapper) :=
    match r with Ok u => (BOk, Some u) | Panic => (BPanic, None) end in
  match k with
  | KApi f d en b ra ps inv => of_res (new_unwrapper f d en b ra ps inv)
  | KAbaco o fc i => if options_valid o then of_res (abaco_unwrapper o fc i) else (BRejected, None)
  | KRoach o => if options_valid o then of_res (roach_unwrapper o) else (BRejected, None)
  end.

(* what the harness records: how construction ended, the output of one call on the whole stream,
   and the outputs of the calls on the pieces (each on a freshly built unwrapper) *)
Record obs := { o_built : built; o_single : list Z; o_split : list (list Z) }.

Definition observe (k : kind) (chunks : list (list Z)) : obs :=
  match build k with
  | (b, Some u) => {| o_built := b;
                      o_single := snd (unwrap_in_place u (concat chunks));
                      o_split := snd (unwrap_calls u chunks) |}
  | (b, None) => {| o_built := b; o_single := []; o_split := [] |}
  end.
