(* C12 — property theorems only: each closed by [exact], each followed by Print Assumptions.
   Vocabulary (Spec.v): [prep p x] = input sample after optional inversion, masking to the fraction bits and
   the bit drop; [quantum p] = 2^(f-d); [cfg_bias p] = bias level >> d; [home p] = the offset the output
   starts from and returns to; [offsets vs ys] = per-sample (output - prepared input) mod 2^16;
   [away_before h offs i] = number of consecutive samples ending at i-1 whose offset differs from h;
   [sint16] = reinterpretation of a 16-bit difference as signed.
   Model (Model.v): [new_unwrapper] = NewPhaseUnwrapper, [unwrap_in_place] = UnwrapInPlace,
   [unwrap_calls] = consecutive calls, [observe] = one experiment (build; one call; split calls). *)
From Dastard Require Import Common.ZX C12.Model C12.Spec C12.Proofs.

(* ---- every output sample is the prepared input plus whole quanta (16-bit arithmetic) ---- *)
Theorem unwrap_mod_quantum :
  forall f d b ra ps inv xs,
    0 < d < f -> f <= 16 -> f - d <= 14 -> 0 < ra -> Forall is16 xs ->
    exists u, new_unwrapper f d true b ra ps inv = Ok u /\
      let p := mkP f d true b ra ps inv in
      let ys := snd (unwrap_in_place u xs) in
      let vs := map (prep p) xs in
      zlen ys = zlen xs /\
      forall i, 0 <= i < zlen xs ->
        (znth 0 ys i - znth 0 vs i) mod 2 ^ (f - d) = 0 /\ 0 <= znth 0 ys i < 65536.
Proof. exact unwrap_mod_quantum_proof. Qed.
Print Assumptions unwrap_mod_quantum.

(* ---- between automatic resets the output step is the input step reduced modulo one quantum into the
        window of half a quantum around the bias; premise: the bias itself is within half a quantum ---- *)
Theorem unwrap_step_window :
  forall f d b ra ps inv xs,
    0 < d < f -> f <= 16 -> f - d <= 14 -> 0 < ra -> Forall is16 xs ->
    - (2 ^ (f - d) / 2) <= b / 2 ^ d <= 2 ^ (f - d) / 2 ->
    exists u, new_unwrapper f d true b ra ps inv = Ok u /\
      let p := mkP f d true b ra ps inv in
      let ys := snd (unwrap_in_place u xs) in
      let vs := map (prep p) xs in
      forall i, 1 <= i < zlen xs ->
        away_before (home p) (offsets vs ys) i < ra ->
        let s := sint16 (znth 0 ys i - znth 0 ys (i - 1)) in
        (s - (znth 0 vs i - znth 0 vs (i - 1))) mod quantum p = 0 /\
        cfg_bias p - quantum p / 2 <= s <= cfg_bias p + quantum p / 2.
Proof. exact unwrap_step_window_proof. Qed.
Print Assumptions unwrap_step_window.

(* ---- after ra consecutive samples away from the home offset the next sample is at the home offset ---- *)
Theorem unwrap_reset :
  forall f d b ra ps inv xs,
    0 < d < f -> f <= 16 -> f - d <= 14 -> 0 < ra -> Forall is16 xs ->
    exists u, new_unwrapper f d true b ra ps inv = Ok u /\
      let p := mkP f d true b ra ps inv in
      let ys := snd (unwrap_in_place u xs) in
      let vs := map (prep p) xs in
      forall i, 0 <= i < zlen xs ->
        ra <= away_before (home p) (offsets vs ys) i ->
        znth 0 (offsets vs ys) i = home p.
Proof. exact unwrap_reset_proof. Qed.
Print Assumptions unwrap_reset.

(* ---- the window clause pins the output down: an input step strictly inside the window is reproduced
        exactly ("slow signals are reproduced without jumps"); a statement about any accepted trace ---- *)
Theorem window_reproduces_slow_steps :
  forall p xs ys,
    valid_en p -> step_window_ok p xs ys ->
    let vs := map (prep p) xs in
    forall i, 1 <= i < zlen xs ->
      away_before (home p) (offsets vs ys) i < p_reset_after p ->
      cfg_bias p - quantum p / 2 < znth 0 vs i - znth 0 vs (i - 1) < cfg_bias p + quantum p / 2 ->
      sint16 (znth 0 ys i - znth 0 ys (i - 1)) = znth 0 vs i - znth 0 vs (i - 1).
Proof. exact window_slow_exact. Qed.
Print Assumptions window_reproduces_slow_steps.

(* ---- the result does not depend on the split into calls: any state, any list of pieces ---- *)
Theorem unwrap_split_independent :
  forall chunks u,
    concat (snd (unwrap_calls u chunks)) = snd (unwrap_in_place u (concat chunks)).
Proof. exact calls_concat. Qed.
Print Assumptions unwrap_split_independent.

Theorem unwrap_split_two_calls :
  forall u a b,
    snd (unwrap_in_place u (a ++ b)) =
    snd (unwrap_in_place u a) ++ snd (unwrap_in_place (fst (unwrap_in_place u a)) b).
Proof. exact split_two_calls. Qed.
Print Assumptions unwrap_split_two_calls.

(* ---- unwrapping off: the constructor never refuses, the output is exactly the prepared input
        (no bits dropped: only the optional inversion) ---- *)
Theorem unwrap_disabled_passthrough :
  forall f d b ra ps inv chunks,
    0 <= f -> 0 <= d -> Forall (Forall is16) chunks ->
    exists u, new_unwrapper f d false b ra ps inv = Ok u /\
      concat (snd (unwrap_calls u chunks)) = map (prep (mkP f d false b ra ps inv)) (concat chunks).
Proof. exact disabled_passthrough_proof. Qed.
Print Assumptions unwrap_disabled_passthrough.

(* ---- inversion is the 16-bit complement of the raw words, applied before everything else, in every mode ---- *)
Theorem unwrap_inversion :
  forall f d en b ra ps xs u1 u0,
    Forall is16 xs ->
    new_unwrapper f d en b ra ps true = Ok u1 -> new_unwrapper f d en b ra ps false = Ok u0 ->
    snd (unwrap_in_place u1 xs) = snd (unwrap_in_place u0 (map (fun x => 65535 - x) xs)).
Proof. exact inversion_proof. Qed.
Print Assumptions unwrap_inversion.

(* ---- the program (NewAbacoGroup, RoachDevice.samplePacket) hands the constructor exactly the configuration
        its option set means, and that configuration's bias is within half a quantum ---- *)
Theorem program_builds_configured_unwrapper :
  forall k p, params_of k = Some p ->
    build k = match new_unwrapper (p_f p) (p_d p) (p_enable p) (p_bias p) (p_reset_after p)
                                  (p_pulse_sign p) (p_invert p) with
              | Ok u => (BOk, Some u)
              | Panic => (BPanic, None)
              end.
Proof. exact build_params. Qed.
Print Assumptions program_builds_configured_unwrapper.

Theorem program_bias_within_half_quantum :
  forall o firstchan i,
    bias_in_range (abaco_params o firstchan i) = true /\ bias_in_range (roach_params o) = true.
Proof. exact (fun o fc i => conj (abaco_bias_in_range o fc i) (roach_bias_in_range o)). Qed.
Print Assumptions program_bias_within_half_quantum.

(* ---- hence, for every option set the program accepts with unwrapping on: all clauses hold ---- *)
Theorem program_unwrap_correct :
  forall k p chunks,
    program_kind k -> params_of k = Some p -> valid_cfg p = true -> p_enable p = true ->
    Forall (Forall is16) chunks ->
    let o := observe k chunks in
    o_built o = BOk /\ split_ok chunks o /\
    mod_quantum_ok p (concat chunks) (o_single o) /\
    reset_ok p (concat chunks) (o_single o) /\
    step_window_ok p (concat chunks) (o_single o).
Proof. exact program_unwrap_proof. Qed.
Print Assumptions program_unwrap_correct.

(* ---- inside the property's geometry the constructor refuses exactly the two documented cases ---- *)
Theorem constructor_refuses_exactly :
  forall f d en b ra ps inv,
    0 <= f -> 0 <= d -> (d = 0 \/ (0 < d < f /\ f <= 16 /\ f - d <= 14)) ->
    (new_unwrapper f d en b ra ps inv = Panic <-> en = true /\ (d = 0 \/ ra <= 0)).
Proof. exact constructor_refuses_exactly_proof. Qed.
Print Assumptions constructor_refuses_exactly.

(* ---- link to the correspondence check: the model's observation of every experiment passes the checker ---- *)
Theorem unwrap_model_passes_checker :
  forall k chunks, Forall (Forall is16) chunks -> C12_check k chunks (observe k chunks) = true.
Proof. exact model_satisfies_checker. Qed.
Print Assumptions unwrap_model_passes_checker.

(* ---- what the checker's "true" means, independent of any model ---- *)
Theorem checker_sound :
  forall k chunks o p,
    params_of k = Some p -> valid_cfg p = true -> C12_check k chunks o = true ->
    o_built o = BOk /\ split_ok chunks o /\
    (if p_enable p
     then mod_quantum_ok p (concat chunks) (o_single o) /\ reset_ok p (concat chunks) (o_single o) /\
          (bias_in_range p = true -> step_window_ok p (concat chunks) (o_single o))
     else o_single o = map (prep p) (concat chunks)).
Proof. exact checker_accepts_means. Qed.
Print Assumptions checker_sound.

(* ---- the ROACH constructor call as it was before the fix (bias level not rescaled to 14 fraction bits) ---- *)
Theorem unwrap_step_window_refuted_pre_fix :
  (exists u, roach_unwrapper_old old_witness_opts = Ok u /\ lower_step_lim u = 82 /\ upper_step_lim u = 4178) /\
  o_single old_witness_obs = [8192; 12288; 16384; 20480] /\
  C12_check (KRoach old_witness_opts) old_witness_chunks old_witness_obs = false /\
  ~ step_window_ok (roach_params old_witness_opts) (concat old_witness_chunks) (o_single old_witness_obs).
Proof. exact step_window_refuted_before_fix. Qed.
Print Assumptions unwrap_step_window_refuted_pre_fix.
