(* C12 — the property as a checker over OBSERVABLES only: the configuration handed to the system, the
   16-bit input stream and how it was cut into calls, and the output arrays the system produced.
   Nothing here runs the model's unwrapping code; from Model.v only the vocabulary types are used
   ([options], [kind], [built], [obs]) so that generated cases have one type. *)
From Dastard Require Import Common.ZX C12.Model.

(* ---------- the configuration the property speaks about ---------- *)

Record params := mkP {
  p_f : Z;            (* fraction bits: 2^f raw units = one flux quantum *)
  p_d : Z;            (* low bits dropped *)
  p_enable : bool;    (* unwrap on/off *)
  p_bias : Z;         (* bias level in raw units (before the bit drop) *)
  p_reset_after : Z;  (* reset interval *)
  p_pulse_sign : Z;
  p_invert : bool
}.

(* What an option set of the program means.
   Abaco: 16 fraction bits, 4 bits dropped when rescaling (else none), bias 0.38 phi0 = 24904 / 2^16
   with the sign of the pulses, inversion per channel list.
   ROACH: 14 fraction bits, 2 dropped, always unwrapping, reset interval 20000, no inversion (roach.go
   says so explicitly); the same bias of 0.38 phi0, which at 14 fraction bits is 24904 / 4 = 6226. *)
Definition spec_bias_level (f : Z) (o : options) : Z :=
  if o_bias o then (if o_pulse_sign o <? 0 then -1 else 1) * (24904 / 2 ^ (16 - f)) else 0.

Definition abaco_params (o : options) (firstchan i : Z) : params :=
  {| p_f := 16; p_d := if o_rescale o then 4 else 0; p_enable := o_unwrap o;
     p_bias := spec_bias_level 16 o; p_reset_after := o_reset_after o;
     p_pulse_sign := o_pulse_sign o;
     p_invert := existsb (Z.eqb (firstchan + i)) (o_invert_chan o) |}.

Definition roach_params (o : options) : params :=
  {| p_f := 14; p_d := 2; p_enable := true; p_bias := spec_bias_level 14 o;
     p_reset_after := 20000; p_pulse_sign := o_pulse_sign o; p_invert := false |}.

(* an option set the program accepts (Unwrap requires RescaleRaw) *)
Definition opts_ok (o : options) : bool := implb (o_unwrap o) (o_rescale o).

(* [Some p]: the configuration of the experiment; [None]: the program must refuse the option set *)
Definition params_of (k : kind) : option params :=
  match k with
  | KApi f d en b ra ps inv => Some (mkP f d en b ra ps inv)
  | KAbaco o fc i => if opts_ok o then Some (abaco_params o fc i) else None
  | KRoach o => if opts_ok o then Some (roach_params o) else None
  end.

(* Configurations the property covers.  Unwrapping off: any f, d >= 0.  Unwrapping on: 0 < d < f <= 16,
   a quantum of at most 2^14 output units, a positive reset interval.  (Unwrapping on with d = 0 or a
   non-positive reset interval is refused by the constructor by contract: no outputs exist.) *)
Definition valid_cfg (p : params) : bool :=
  (0 <=? p_f p) && (0 <=? p_d p) &&
  (if p_enable p
   then (0 <? p_d p) && (p_d p <? p_f p) && (p_f p <=? 16) && (p_f p - p_d p <=? 14)
        && (0 <? p_reset_after p)
   else true).

(* ---------- derived quantities, all in output units ---------- *)

Definition quantum (p : params) : Z := 2 ^ (p_f p - p_d p).
(* the bias after the bit drop (arithmetic shift = floor division) *)
Definition cfg_bias (p : params) : Z := p_bias p / 2 ^ (p_d p).
(* the offset the output starts from and returns to *)
Definition home (p : params) : Z :=
  if p_pulse_sign p >? 0 then quantum p else 65536 - 2 * quantum p.
(* the bias is "within half a quantum": premise of the step-window clause *)
Definition bias_in_range (p : params) : bool :=
  (- (quantum p / 2) <=? cfg_bias p) && (cfg_bias p <=? quantum p / 2).

(* the input sample after optional inversion, masking to the fraction bits and the bit drop *)
Definition prep (p : params) (x : Z) : Z :=
  let y := if p_invert p then 65535 - x else x in
  if p_d p =? 0 then y
  else if p_d p >=? 16 then 0
  else (y mod 2 ^ (Z.min (p_f p) 16)) / 2 ^ (p_d p).

Definition sint16 (x : Z) : Z := (x + 32768) mod 65536 - 32768.
(* offset carried by an output sample *)
Definition off_of (v y : Z) : Z := (y - v) mod 65536.

(* ---------- the per-sample rule (unwrapping on) ---------- *)

(* [prev] = previous (prepared input, output) if any; [c] = number of consecutive samples, ending at the
   previous one, whose offset differs from home. *)
Definition sample_ok (p : params) (prev : option (Z * Z)) (c : Z) (v y : Z) : bool :=
  let q := quantum p in
  let off := off_of v y in
  (0 <=? y) && (y <? 65536) &&
  (off mod q =? 0) &&                                        (* input plus whole quanta *)
  (if c >=? p_reset_after p
   then off =? home p                                        (* the automatic reset is due *)
   else match prev with
        | None => true
        | Some (v0, y0) =>
            if bias_in_range p
            then let s := sint16 (y - y0) in                 (* between resets: the step window *)
                 (cfg_bias p - q / 2 <=? s) && (s <=? cfg_bias p + q / 2)
            else true
        end).

Definition next_count (p : params) (c v y : Z) : Z :=
  if off_of v y =? home p then 0 else c + 1.

Fixpoint stream_ok (p : params) (prev : option (Z * Z)) (c : Z) (vs ys : list Z) : bool :=
  match vs, ys with
  | [], [] => true
  | v :: vs', y :: ys' =>
      sample_ok p prev c v y && stream_ok p (Some (v, y)) (next_count p c v y) vs' ys'
  | _, _ => false
  end.

(* ---------- the whole experiment ---------- *)

Definition C12_check (k : kind) (chunks : list (list Z)) (o : obs) : bool :=
  match params_of k with
  | None => true            (* option set refused by the program's own validation: nothing to demand *)
  | Some p =>
      if valid_cfg p then
        match o_built o with
        | BOk =>
            let xs := concat chunks in
            let vs := map (prep p) xs in
            (* the result does not depend on how the stream is cut into calls *)
            zlist_eqb (concat (o_split o)) (o_single o) &&
            list_eqb Z.eqb (map zlen (o_split o)) (map zlen chunks) &&
            (if p_enable p && (0 <? p_d p)
             then stream_ok p None 0 vs (o_single o)
             else zlist_eqb (o_single o) vs)                 (* unwrapping off: exactly the prepared input *)
        | _ => false        (* a covered configuration must produce outputs *)
        end
      else true             (* outside the property's domain *)
  end.

(* ================= the same thing as Props, for the statements of the theorems ================= *)

(* offsets of a run *)
Definition offsets (vs ys : list Z) : list Z := map (fun vy => off_of (fst vy) (snd vy)) (combine vs ys).

(* number of consecutive off-home samples at the end of a list of offsets *)
Fixpoint away_run (h c : Z) (offs : list Z) : Z :=
  match offs with
  | [] => c
  | o :: rest => away_run h (if o =? h then 0 else c + 1) rest
  end.
(* ... ending just before sample i *)
Definition away_before (h : Z) (offs : list Z) (i : Z) : Z := away_run h 0 (zfirstn i offs).

(* "each unwrapped output sample equals the input sample (after the configured bit drop and optional
    inversion) plus an integer number of flux quanta" — in 16-bit arithmetic, of which the quantum is a divisor *)
Definition mod_quantum_ok (p : params) (xs ys : list Z) : Prop :=
  let vs := map (prep p) xs in
  zlen ys = zlen xs /\
  forall i, 0 <= i < zlen xs ->
    (znth 0 ys i - znth 0 vs i) mod quantum p = 0 /\ 0 <= znth 0 ys i < 65536.

(* "between automatic resets, each output step equals the input step reduced modulo one quantum to within
    half a quantum of the configured bias" *)
Definition step_window_ok (p : params) (xs ys : list Z) : Prop :=
  let vs := map (prep p) xs in
  forall i, 1 <= i < zlen xs ->
    away_before (home p) (offsets vs ys) i < p_reset_after p ->
    let s := sint16 (znth 0 ys i - znth 0 ys (i - 1)) in
    (s - (znth 0 vs i - znth 0 vs (i - 1))) mod quantum p = 0 /\
    cfg_bias p - quantum p / 2 <= s <= cfg_bias p + quantum p / 2.

(* "after the configured number of consecutive samples away from the home offset the output returns to
    the home offset" *)
Definition reset_ok (p : params) (xs ys : list Z) : Prop :=
  let vs := map (prep p) xs in
  forall i, 0 <= i < zlen xs ->
    p_reset_after p <= away_before (home p) (offsets vs ys) i ->
    znth 0 (offsets vs ys) i = home p.

(* "the result does not depend on how the sequence is split into calls" *)
Definition split_ok (chunks : list (list Z)) (o : obs) : Prop :=
  concat (o_split o) = o_single o /\ map zlen (o_split o) = map zlen chunks.

(* all 16-bit input sequences *)
Definition is16 (x : Z) : Prop := 0 <= x < 65536.
