(* C01 — evaluation of generated cases: model vs observed implementation output, and the checker.
   The case format and the comparison are shared with C02 (C02/Run.v only swaps the checker). *)
From Dastard Require Import Common.ZX Common.CaseLib Pipeline.Stream C01.Model C01.Spec.

(* one channel of one generated history *)
Record chan := mkchan { c_npre : Z; c_nsamp : Z; c_ts : tstate; c_F0 : Z; c_hist : list (op * obs) }.
Definition case := list chan.

Fixpoint reclist_eqb (a b : list record) : bool :=
  match a, b with
  | [], [] => true
  | x :: a', y :: b' => record_eqb x y && reclist_eqb a' b'
  | _, _ => false
  end.

Definition obs_eqb (a b : obs) : bool :=
  match a, b with
  | ORecs r1 n1 f1, ORecs r2 n2 f2 => reclist_eqb r1 r2 && (n1 =? n2) && (f1 =? f2)
  | OCfg e1, OCfg e2 => Bool.eqb e1 e2
  | OPanic, OPanic => true
  | _, _ => false
  end.

(* index of the first operation whose observation differs, or -1 *)
Fixpoint first_diff (i : Z) (a b : list obs) : Z :=
  match a, b with
  | [], [] => -1
  | x :: a', y :: b' => if obs_eqb x y then first_diff (i + 1) a' b' else i
  | _, _ => i
  end.

Definition chan_diff (c : chan) : Z :=
  let ops := map fst (c_hist c) in
  let impl := map snd (c_hist c) in
  first_diff 0 impl (run (fresh_start (c_npre c) (c_nsamp c) (c_ts c)) ops).

(* worst code over the channels: 1 (checker rejects) > 3 > 2 > 0 *)
Definition worse (a b : Z * Z) : Z * Z :=
  let rank (x : Z) := if x =? 1 then 3 else if x =? 3 then 2 else if x =? 2 then 1 else 0 in
  if rank (fst a) >=? rank (fst b) then a else b.

Definition verdict_with (check : chan -> bool) (c : case) : Z * Z :=
  fold_left (fun acc ch => let d := chan_diff ch in
                           worse acc (verdict_code (d =? -1) (check ch), d)) c (0, -1).

(* the gap-tolerant judgement (Spec.v): for a contiguous source it coincides with C01_check *)
Definition chan_check (c : chan) : bool := C01G_check (c_npre c) (c_nsamp c) (c_hist c).
Definition verdict (c : case) : Z * Z := verdict_with chan_check c.

(* compact constructors for generated files *)
Definition TS (auto : bool) (delay veto : Z) (lev rising : bool) (level : Z)
              (edge er ef : bool) (elevel : Z) (em : bool) : tstate :=
  mkts auto delay veto lev rising level edge er ef elevel em.
(* settings that also switch edge-multi on, with the two EMTState parameters its validity check reads *)
Definition TSm (auto : bool) (delay veto : Z) (lev rising : bool) (level : Z)
               (edge er ef : bool) (elevel : Z) (em : bool) (nmono : Z) (zero : bool) : tstate :=
  mkts_full auto delay veto lev rising level edge er ef elevel em nmono zero.
Definition mkrec (frame time pre : Z) (data : list Z) (signed : bool) : record :=
  {| r_frame := frame; r_time := time; r_pre := pre; r_data := data; r_signed := signed |}.
(* a block: samples, first frame, time (ns), period (ns), signed;  then records, retained length, first frame *)
Definition B (data : list Z) (first time period : Z) (signed : bool) (recs : list record) (n f : Z) : op * obs :=
  (Block {| seg_data := data; seg_first := first; seg_time := time; seg_period := period; seg_signed := signed |},
   ORecs recs n f).
Definition Bp (data : list Z) (first time period : Z) (signed : bool) : op * obs :=
  (Block {| seg_data := data; seg_first := first; seg_time := time; seg_period := period; seg_signed := signed |},
   OPanic).
Definition CT (ts : tstate) (err : bool) : op * obs := (CfgTrig ts, OCfg err).
Definition CL (nsamp npre : Z) (err : bool) : op * obs := (CfgLen nsamp npre, OCfg err).
Definition ch (npre nsamp : Z) (ts : tstate) (F0 : Z) (h : list (op * obs)) : chan := mkchan npre nsamp ts F0 h.
