(* C01 — property theorems only: each closed by [exact], each followed by Print Assumptions.

   Vocabulary (Spec.v).  A history is the list of operations a channel sees after PrepareRun installed
   (npre, nsamp, restored trigger settings): blocks delivered by the source, ChangeTriggerState requests,
   ConfigurePulseLengths requests.  [run (fresh_start npre nsamp ts) ops] is the mirror model's observation after
   each operation.  [annotate] reads (operations, observations) and returns, for every delivered block b, the
   settings in force (bi_npre, bi_nsamp), the ground truth [bi_G b] = every sample delivered so far including the
   block, the frame number [bi_F0 b] of its first element, the block itself [bi_seg b] and the records published
   for it [bi_recs b]; it returns None if anything crashed.
   Premises = what a source and the RPC layer guarantee: valid initial lengths (npre >= 3, nsamp >= npre+1),
   record lengths small enough for EMTState's int32 copies, contiguous frame numbering, one sample period,
   edge-multi off (that mode is property C08).  Nothing is assumed about sample values, block lengths, trigger
   settings, or the order and number of reconfigurations; invalid ConfigurePulseLengths requests are part of the
   histories (the model refuses them like the code does). *)
From Dastard Require Import Common.ZX Pipeline.Stream C01.Model C01.Spec C01.Proofs.

(* MAIN STATEMENTS — no assumption on the source's frame numbering (frames may be lost between blocks).
   [annotateG] gives for every delivered block g: the lengths in force, gi_G g = every sample delivered so far
   including the block, the block gi_seg g, the records published for it.  A record's trigger sample is located in the
   delivered samples by counting from the block being processed: index
       j = (index of the block's first sample) + (r_frame - first frame of the block).
   For a trigger sample inside that block r_frame is therefore exactly the source's frame number of the sample; for one
   in the retained data it is the source's number provided no frames were lost in between (AppendSegment re-bases the
   retained samples on the newest block: designed behaviour, baseline test TestStreamGap) — in particular always for a
   contiguous source, see the second group of theorems. *)
Theorem records_are_excerpts :
  forall npre nsamp ts period ops,
    lengths_ok npre nsamp = true -> nsamp <= max_nsamp -> Forall (op_ok period) ops ->
    exists gs,
      annotateG npre nsamp [] (combine ops (run (fresh_start npre nsamp ts) ops)) = Some gs /\
      forall g r, In g gs -> In r (gi_recs g) ->
        let j := zlen (gi_G g) - zlen (seg_data (gi_seg g)) + (r_frame r - seg_first (gi_seg g)) in
        r_pre r = gi_npre g /\ zlen (r_data r) = gi_nsamp g /\
        0 <= j - gi_npre g /\ j - gi_npre g + gi_nsamp g <= zlen (gi_G g) /\
        r_data r = zslice (gi_G g) (j - gi_npre g) (gi_nsamp g) /\
        r_time r = seg_time (gi_seg g) + (r_frame r - seg_first (gi_seg g)) * seg_period (gi_seg g) /\
        r_signed r = seg_signed (gi_seg g).
Proof. exact model_records_are_excerptsG. Qed.
Print Assumptions records_are_excerpts.

Theorem processing_never_panics :
  forall npre nsamp ts period ops,
    lengths_ok npre nsamp = true -> nsamp <= max_nsamp -> Forall (op_ok period) ops ->
    length (run (fresh_start npre nsamp ts) ops) = length ops /\
    ~ In OPanic (run (fresh_start npre nsamp ts) ops).
Proof. exact model_never_panicsG. Qed.
Print Assumptions processing_never_panics.

(* The model's output passes the observable checker that the harness applies to the implementation's output. *)
Theorem model_passes_checker :
  forall npre nsamp ts period ops,
    lengths_ok npre nsamp = true -> nsamp <= max_nsamp -> Forall (op_ok period) ops ->
    C01G_check npre nsamp (combine ops (run (fresh_start npre nsamp ts) ops)) = true.
Proof. exact model_C01G_check. Qed.
Print Assumptions model_passes_checker.

(* What the checker's "true" means for ANY observed history (model or implementation). *)
Theorem checker_sound :
  forall npre nsamp h,
    C01G_check npre nsamp h = true ->
    exists gs, annotateG npre nsamp [] h = Some gs /\
      forall g r, In g gs -> In r (gi_recs g) ->
        let j := zlen (gi_G g) - zlen (seg_data (gi_seg g)) + (r_frame r - seg_first (gi_seg g)) in
        r_pre r = gi_npre g /\ zlen (r_data r) = gi_nsamp g /\
        0 <= j - gi_npre g /\ j - gi_npre g + gi_nsamp g <= zlen (gi_G g) /\
        r_data r = zslice (gi_G g) (j - gi_npre g) (gi_nsamp g) /\
        r_time r = seg_time (gi_seg g) + (r_frame r - seg_first (gi_seg g)) * seg_period (gi_seg g) /\
        r_signed r = seg_signed (gi_seg g).
Proof. exact C01G_checker_sound. Qed.
Print Assumptions checker_sound.

(* ---- the same for a source that numbers its frames contiguously, with absolute frame numbers: the record's frame is
   F0 + (index of its trigger sample in the ground truth) ----
   Every record emitted by the edge / level / auto passes over any history is the exact excerpt of the ground
   truth around its frame, has the configured lengths, and carries block time + (frame - block first frame) * period. *)
Theorem records_are_excerpts_contiguous_source :
  forall npre nsamp ts F0 period ops,
    lengths_ok npre nsamp = true -> nsamp <= max_nsamp ->
    contiguous F0 ops -> Forall (op_ok period) ops ->
    exists bs,
      annotate F0 (init_sstate npre nsamp ts F0) (combine ops (run (fresh_start npre nsamp ts) ops)) = Some bs /\
      forall b r, In b bs -> In r (bi_recs b) ->
        let j := r_frame r - bi_F0 b in
        r_pre r = bi_npre b /\ zlen (r_data r) = bi_nsamp b /\
        0 <= j - bi_npre b /\ j - bi_npre b + bi_nsamp b <= zlen (bi_G b) /\
        r_data r = zslice (bi_G b) (j - bi_npre b) (bi_nsamp b) /\
        r_time r = seg_time (bi_seg b) + (r_frame r - seg_first (bi_seg b)) * seg_period (bi_seg b) /\
        r_signed r = seg_signed (bi_seg b).
Proof. exact model_records_are_excerpts. Qed.
Print Assumptions records_are_excerpts_contiguous_source.

(* No stream content, block pattern or control history makes processing crash: every index handed to
   triggerAtSpecificSamples and every index the scans read is in range, and no loop runs out of fuel. *)
Theorem processing_never_panics_contiguous_source :
  forall npre nsamp ts F0 period ops,
    lengths_ok npre nsamp = true -> nsamp <= max_nsamp ->
    contiguous F0 ops -> Forall (op_ok period) ops ->
    length (run (fresh_start npre nsamp ts) ops) = length ops /\
    ~ In OPanic (run (fresh_start npre nsamp ts) ops).
Proof. exact model_never_panics. Qed.
Print Assumptions processing_never_panics_contiguous_source.

(* The model's output passes the observable checker that the harness applies to the implementation's output. *)
Theorem model_passes_checker_contiguous_source :
  forall npre nsamp ts F0 period ops,
    lengths_ok npre nsamp = true -> nsamp <= max_nsamp ->
    contiguous F0 ops -> Forall (op_ok period) ops ->
    C01_check npre nsamp ts F0 (combine ops (run (fresh_start npre nsamp ts) ops)) = true.
Proof. exact model_C01_check. Qed.
Print Assumptions model_passes_checker_contiguous_source.

(* What the checker's "true" means for ANY observed history (model or implementation). *)
Theorem checker_sound_contiguous_source :
  forall npre nsamp ts F0 h,
    C01_check npre nsamp ts F0 h = true ->
    exists bs, annotate F0 (init_sstate npre nsamp ts F0) h = Some bs /\
      forall b r, In b bs -> In r (bi_recs b) ->
        let j := r_frame r - bi_F0 b in
        r_pre r = bi_npre b /\ zlen (r_data r) = bi_nsamp b /\
        0 <= j - bi_npre b /\ j - bi_npre b + bi_nsamp b <= zlen (bi_G b) /\
        r_data r = zslice (bi_G b) (j - bi_npre b) (bi_nsamp b) /\
        r_time r = seg_time (bi_seg b) + (r_frame r - seg_first (bi_seg b)) * seg_period (bi_seg b) /\
        r_signed r = seg_signed (bi_seg b).
Proof. exact C01_checker_sound. Qed.
Print Assumptions checker_sound_contiguous_source.

(* The ground truth the judgement uses really is what was delivered: for every annotated block, bi_G is the
   concatenation of the data of all blocks up to and including it, and the block continues it contiguously. *)
Theorem ground_truth_is_delivered_data :
  forall F0 s h bs, annotate F0 s h = Some bs ->
    forall pre b post, bs = pre ++ b :: post ->
      bi_F0 b = F0 /\
      bi_G b = s_G s ++ concat (map (fun x => seg_data (bi_seg x)) (pre ++ [b])) /\
      seg_first (bi_seg b) = F0 + zlen (bi_G b) - zlen (seg_data (bi_seg b)).
Proof. exact annotate_ground_truth. Qed.
Print Assumptions ground_truth_is_delivered_data.
